(* Executable comparison helpers of the C11 correspondence: the daily curve at [FNum] (binary64),
   evaluated by vm_compute inside the generated cases files.
   Comparison policy (DESIGN 3.1): same value wherever the kernel evaluates no exponential,
   |a-b| <= 1e-9 max(1,|a|,|b|) where it does (own [fexp] is not bit-exact with libm). *)
From Coq Require Import List Bool PrimFloat.
From V Require Import Model.Num Model.NumF Model.DailyCurve.
Import ListNotations.

Definition F := FNum.

Definition mkc (s : shape) (i : float) (hb hbeta hk cb cbeta ck : option float) : coeffs F :=
  Build_coeffs F s i hb hbeta hk cb cbeta ck.
Definition mktc (tmin tmax tminseg tmaxseg : float) : tconstr F := Build_tconstr F tmin tmax tminseg tmaxseg.
Definition mkx (hb hbeta hk cb cbeta ck i : float) : fullx F := Build_fullx F hb hbeta hk cb cbeta ck i.

(* does full_model reach its "smoothed" branch (the only one that calls exp) at this temperature? *)
Definition uses_exp (x : fullx F) (Tmin Tmax Ti : float) : bool :=
  if feqb (x_hdd_beta x) 0%float && feqb (x_cdd_beta x) 0%float then false
  else
    let r := regime F (order_bps F x) Tmin Tmax Ti in
    negb (feqb (fst (fst r)) 0%float) && negb (feqb (snd (fst r)) 0%float).

Definition cmp (tol : bool) (a b : float) : bool := if tol then f_close a b else f_same a b.

(* one row of an implementation observation: temperature, predicted, heating_load, cooling_load *)
Definition row := (float * float * float * float)%type.

Definition check_row (x : fullx F) (Tmin Tmax : float) (r : row) : bool :=
  let '(Ti, p, h, c) := r in
  let tol := uses_exp x Tmin Tmax Ti in
  let '(p', h', c') := loads_of F x Tmin Tmax Ti in
  cmp tol p' p && cmp tol h' h && cmp tol c' c.

(* _predict_submodel on a stored document: (coefficients, constraints, effective 7-vector seen by the
   implementation (always compared exactly), rows) *)
Definition x_same (a b : fullx F) : bool :=
  f_same (x_hdd_bp a) (x_hdd_bp b) && f_same (x_hdd_beta a) (x_hdd_beta b) && f_same (x_hdd_k a) (x_hdd_k b) &&
  f_same (x_cdd_bp a) (x_cdd_bp b) && f_same (x_cdd_beta a) (x_cdd_beta b) && f_same (x_cdd_k a) (x_cdd_k b) &&
  f_same (x_intercept a) (x_intercept b).

Definition check_predict (cs : coeffs F * tconstr F * option (fullx F) * list row) : bool :=
  let '(c, tc, xi, rows) := cs in
  match effective_x F c tc, xi with
  | Some x, Some x' => x_same x x' && forallb (check_row x (T_min tc) (T_max tc)) rows
  | None, None => match rows with [] => true | _ => false end
  | _, _ => false
  end.

(* the numba kernel full_model called directly: (7-vector, T_min, T_max, [(T, E)]) *)
Definition check_kernel (cs : fullx F * float * float * list (float * float)) : bool :=
  let '(x, Tmin, Tmax, rows) := cs in
  forallb (fun r : float * float =>
             let (Ti, e) := r in
             cmp (uses_exp x Tmin Tmax Ti) (full_model1 F x Tmin Tmax Ti) e) rows.

(* get_smooth_coeffs called directly (no exponential: exact): inputs and the four outputs *)
Definition check_smooth (cs : (float * float * float * float) * (float * float * float * float)) : bool :=
  let '((hb, ph, cb, pc), (hb', hk, cb', ck)) := cs in
  let '(a, b, c, d) := get_smooth_coeffs F hb ph cb pc in
  f_same a hb' && f_same b hk && f_same c cb' && f_same d ck.

(* own exp against libm (1e-9 relative) *)
Definition check_exp (cs : float * float) : bool := let (x, y) := cs in f_close (fexp x) y.
