(* C15 — evaluation of fitted models inside coqc (binary64 instance of Model/DailyCurve.v and Model/Recovery.v).

   For every building fitted by harness/c15.py the generated cases file holds
     - the generating parameters,
     - the STORED sub-model documents of the fitted model (numbers parsed back from to_json()),
     - the rows of predict() on the baseline year and on the second weather year (which sub-model predicted the
       row, temperature, observed, predicted, heating_load, cooling_load),
     - the aggregates and verdicts the harness computed from the implementation's columns.
   [check_fit] re-evaluates every row with the Gallina curve from the stored document, evaluates the generator,
   recomputes the aggregates and decides the statement's inequalities on its own numbers; it returns true when
   all of that agrees with what the harness sent.  [check_final_box] / [check_initial_box] compare the box the
   optimiser was given (kept by the OptimizedResult hook) with the box Model/Recovery.v constructs from the
   same temperatures and usage. *)
From Coq Require Import List Bool PrimFloat NArith.
From V Require Import Model.Num Model.NumF Model.DailyCurve Model.DailyCurveRun Model.Recovery.
Import ListNotations.

Definition fsqrt (a : float) : float := PrimFloat.sqrt a.

Definition mkb (base hbeta hbp cbeta cbp : float) : building F := Build_building F base hbeta hbp cbeta cbp.

(* |a-b| <= 1e-6 * max(1,|a|,|b|): aggregates (sums of hundreds of terms, other summation order than numpy) *)
Definition f_close6 (a b : float) : bool :=
  f_same a b ||
  PrimFloat.leb (PrimFloat.abs (PrimFloat.sub a b))
                (PrimFloat.mul 0x1.0c6f7a0b5ed8dp-20%float
                               (fmax 1%float (fmax (PrimFloat.abs a) (PrimFloat.abs b)))).

(* baseline row: sub-model index, temperature, observed, predicted, heating_load, cooling_load *)
Definition brow := (nat * float * float * float * float * float)%type.
(* second-year row: sub-model index, temperature, predicted, heating_load, cooling_load *)
Definition yrow := (nat * float * float * float * float)%type.

Definition sub := (coeffs F * tconstr F)%type.

(* the Gallina curve on one row; None when the document does not evaluate *)
Definition eval_sub (subs : list sub) (k : nat) (Ti : float) : option (float * float * float) :=
  match nth_error subs k with
  | Some (c, tc) => predict_submodel F c tc Ti
  | None => None
  end.

(* a row agrees when the three columns are within 1e-9 (relative) of the model's *)
Definition row_ok (subs : list sub) (k : nat) (Ti p h c : float) : bool :=
  match eval_sub subs k Ti with
  | Some (p', h', c') => f_close p' p && f_close h' h && f_close c' c
  | None => false
  end.

Definition model_pred (subs : list sub) (k : nat) (Ti : float) : float :=
  match eval_sub subs k Ti with Some (p, _, _) => p | None => nan end.
Definition model_heat (subs : list sub) (k : nat) (Ti : float) : float :=
  match eval_sub subs k Ti with Some (_, h, _) => h | None => nan end.
Definition model_cool (subs : list sub) (k : nat) (Ti : float) : float :=
  match eval_sub subs k Ti with Some (_, _, c) => c | None => nan end.

(* what the harness computed from the implementation's columns *)
Record sent := {
  s_mse_in : float;        (* mean (predicted - g(T))^2 over the baseline rows *)
  s_mean_in : float;       (* mean observed usage of the baseline *)
  s_mse_out : float;       (* the same on the second weather year *)
  s_mean_out : float;      (* mean generated usage of the second year *)
  s_heat_in : float; s_cool_in : float; s_use_in : float;       (* sums over the baseline rows *)
  s_heat_out : float; s_cool_out : float; s_use_out : float;    (* sums over the second year *)
  s_sse_fy : float;        (* SSE(fit, observed) *)
  s_sse_gy : float;        (* SSE(generator, observed) *)
  s_nrmse_in_ok : bool; s_nrmse_out_ok : bool;                  (* NRMSE <= 5 % *)
  s_heat_in_ok : bool; s_cool_in_ok : bool; s_heat_out_ok : bool; s_cool_out_ok : bool   (* load <= 5 % of usage *)
}.

Definition fitcase := (building F * list sub * list brow * list yrow * sent)%type.

(* a verdict must be the model's own decision, except within 1e-6 (relative) of the threshold *)
Definition verdict_ok (sent_ok : bool) (value limit : float) : bool :=
  Bool.eqb sent_ok (PrimFloat.leb value limit) || f_close6 value limit.

Definition lim : float := five_pct F.

Definition check_fit (cs : fitcase) : bool :=
  let '(p, subs, base, year2, s) := cs in
  let rows_in := forallb (fun r : brow => let '(k, Ti, _, pr, h, c) := r in row_ok subs k Ti pr h c) base in
  let rows_out := forallb (fun r : yrow => let '(k, Ti, pr, h, c) := r in row_ok subs k Ti pr h c) year2 in
  (* the model's own columns *)
  let f_in := map (fun r : brow => let '(k, Ti, _, _, _, _) := r in model_pred subs k Ti) base in
  let g_in := map (fun r : brow => let '(_, Ti, _, _, _, _) := r in gen_curve F p Ti) base in
  let y_in := map (fun r : brow => let '(_, _, y, _, _, _) := r in y) base in
  let h_in := map (fun r : brow => let '(k, Ti, _, _, _, _) := r in model_heat subs k Ti) base in
  let c_in := map (fun r : brow => let '(k, Ti, _, _, _, _) := r in model_cool subs k Ti) base in
  let f_out := map (fun r : yrow => let '(k, Ti, _, _, _) := r in model_pred subs k Ti) year2 in
  let g_out := map (fun r : yrow => let '(_, Ti, _, _, _) := r in gen_curve F p Ti) year2 in
  let h_out := map (fun r : yrow => let '(k, Ti, _, _, _) := r in model_heat subs k Ti) year2 in
  let c_out := map (fun r : yrow => let '(k, Ti, _, _, _) := r in model_cool subs k Ti) year2 in
  let mse_in := mse F f_in g_in in
  let mse_out := mse F f_out g_out in
  let m_in := mean F y_in in
  let m_out := mean F g_out in
  let thr_in := fmul (fmul lim m_in) (fmul lim m_in) in
  let thr_out := fmul (fmul lim m_out) (fmul lim m_out) in
  let use_in := nsum F y_in in
  let use_out := nsum F g_out in
  let sse_fy := sse F f_in y_in in
  let sse_gy := sse F g_in y_in in
  (* the proved certificate bound on this dataset: rmse(f,g) <= 2 rmse(y,g) + sqrt(s/n), s = max(0, sse_fy - sse_gy) *)
  let n := of_nat F (length base) in
  let sx := if fltb sse_fy sse_gy then 0%float else fsub sse_fy sse_gy in
  let cert_lhs := fsqrt mse_in in
  let cert_rhs := fadd (fmul 2%float (fsqrt (fdiv sse_gy n))) (fsqrt (fdiv sx n)) in
  rows_in && rows_out &&
  f_close6 mse_in (s_mse_in s) && f_close6 m_in (s_mean_in s) &&
  f_close6 mse_out (s_mse_out s) && f_close6 m_out (s_mean_out s) &&
  f_close6 (nsum F h_in) (s_heat_in s) && f_close6 (nsum F c_in) (s_cool_in s) && f_close6 use_in (s_use_in s) &&
  f_close6 (nsum F h_out) (s_heat_out s) && f_close6 (nsum F c_out) (s_cool_out s) && f_close6 use_out (s_use_out s) &&
  f_close6 sse_fy (s_sse_fy s) && f_close6 sse_gy (s_sse_gy s) &&
  verdict_ok (s_nrmse_in_ok s) mse_in thr_in && verdict_ok (s_nrmse_out_ok s) mse_out thr_out &&
  verdict_ok (s_heat_in_ok s) (nsum F h_in) (fmul lim use_in) &&
  verdict_ok (s_cool_in_ok s) (nsum F c_in) (fmul lim use_in) &&
  verdict_ok (s_heat_out_ok s) (nsum F h_out) (fmul lim use_out) &&
  verdict_ok (s_cool_out_ok s) (nsum F c_out) (fmul lim use_out) &&
  (PrimFloat.leb cert_lhs cert_rhs || f_close6 cert_lhs cert_rhs).

(* diagnostics for a disagreement (printed through run.coq_eval) *)
Definition explain_fit (cs : fitcase) :=
  let '(p, subs, base, year2, s) := cs in
  let f_in := map (fun r : brow => let '(k, Ti, _, _, _, _) := r in model_pred subs k Ti) base in
  let g_in := map (fun r : brow => let '(_, Ti, _, _, _, _) := r in gen_curve F p Ti) base in
  let y_in := map (fun r : brow => let '(_, _, y, _, _, _) := r in y) base in
  let f_out := map (fun r : yrow => let '(k, Ti, _, _, _) := r in model_pred subs k Ti) year2 in
  let g_out := map (fun r : yrow => let '(_, Ti, _, _, _) := r in gen_curve F p Ti) year2 in
  (forallb (fun r : brow => let '(k, Ti, _, pr, h, c) := r in row_ok subs k Ti pr h c) base,
   forallb (fun r : yrow => let '(k, Ti, pr, h, c) := r in row_ok subs k Ti pr h c) year2,
   (mse F f_in g_in, mean F y_in, mse F f_out g_out, mean F g_out),
   (sse F f_in y_in, sse F g_in y_in)).

(* ---------------------------------------------------------------- the optimiser's box *)

Definition frow := (float * float)%type.

(* a modelled row against the recorded one.  A modelled row with equal ends (constant usage, or all temperatures
   equal) is widened by fix_identical_bnds in the code (by 10^floor(log10|x|), not modelled): there the recorded row
   only has to contain the modelled value. *)
Definition row_match (m r : frow) : bool :=
  let (l1, h1) := m in let (l2, h2) := r in
  if f_same l1 h1 then PrimFloat.leb l2 l1 && PrimFloat.leb l1 h2
  else f_close l1 l2 && f_close h1 h2.

Fixpoint rows_close (a b : list frow) : bool :=
  match a, b with
  | [], [] => true
  | m :: a', r :: b' => row_match m r && rows_close a' b'
  | _, _ => false
  end.

(* (model key, segment_minimum_count, temperatures, usage of the fitted segment, rows kept by the hook) *)
Definition boxcase := (model_key * nat * list float * list float * list frow)%type.

(* fit_c_hdd_tidd pins a one-sided balance point to T_max (heating) / T_min (cooling): row [T,T] *)
Definition pinned_row (T : list float) (r : frow) : bool :=
  let e := end_bounds F T in
  f_same (fst r) (snd r) && (f_same (fst r) (fst e) || f_same (fst r) (snd e)).

Definition check_final_box (cs : boxcase) : bool :=
  let '(key, nmin, T, obs, rec) := cs in
  match final_box F key nmin T obs rec with
  | Some b =>
      match key, b, rec with
      | KC, _ :: rest, r0 :: _ => if pinned_row T r0 then rows_close (r0 :: rest) rec else rows_close b rec
      | _, _, _ => rows_close b rec
      end
  | None => false
  end.

(* the same box computed from the INITIAL fit's result: (key, segment_minimum_count, temperatures, usage,
   final_bounds_scalar, reduced vector of the initial fit, rows kept by the hook for the final fit) — no row is taken
   over from the recording *)
Definition initcase := (model_key * nat * list float * list float * float * list float * list frow)%type.
Definition check_final_from_initial (cs : initcase) : bool :=
  let '(key, nmin, T, obs, scalar, x0, rec) := cs in
  match final_box_from_initial F key nmin T obs scalar x0 with
  | Some b =>
      match key, b, rec with
      | KC, _ :: rest, r0 :: _ => if pinned_row T r0 then rows_close (r0 :: rest) rec else rows_close b rec
      | _, _, _ => rows_close b rec
      end
  | None => false
  end.

(* (temperatures, usage, rows kept by the hook for the initial hdd_tidd_cdd_smooth fit) *)
Definition check_initial_box (cs : list float * list float * list frow) : bool :=
  let '(T, obs, rec) := cs in
  match rec with
  | [_; (_, mh); _; _; (_, mc); _; _] => rows_close (initial_box F T obs mh mc) rec
  | _ => false
  end.

(* is the generating building feasible for the box the optimiser was given?  (recorded rows; that they are the rows
   Model/Recovery.v constructs is check_final_box).  The key of the generator's shape = key of the fitted model. *)
Definition check_gen_in_box (cs : building F * boxcase * bool) : bool :=
  let '(p, (key, nmin, T, obs, rec), expected) := cs in
  Bool.eqb (in_box F (map (sort_row F) rec) (raw_of F p)) expected.

(* ---------------------------------------------------------------- distance in parameter space *)

Definition sub_gap (p : building F) (Tlo Thi : float) (s : sub) : float :=
  let (c, tc) := s in
  match effective_x F c tc with
  | Some x => param_gap F x (free_bp F p x) Tlo Thi
  | None => nan
  end.

(* the largest gap over the sub-models of a fitted model (NaN if one does not evaluate) *)
Definition fit_gap (p : building F) (Tlo Thi : float) (subs : list sub) : float :=
  fold_right (fun s acc => let g := sub_gap p Tlo Thi s in
                           if f_is_nan g then g else if f_is_nan acc then acc else fmax g acc) 0%float subs.

(* (generator, stored sub-models, Tlo, Thi, the gap the harness computed from the implementation's own 7-vectors) *)
Definition gapcase := (building F * list sub * float * float * float)%type.
Definition check_gap (cs : gapcase) : bool :=
  let '(p, subs, Tlo, Thi, sent) := cs in f_close6 (fit_gap p Tlo Thi subs) sent.

(* one cases stream for everything harness/c15.py sends (a single coqc round per run) *)
Inductive anycase :=
| AFit (c : fitcase)
| AFinalBox (c : boxcase)
| AInitialBox (c : list float * list float * list frow)
| AGenInBox (c : building F * boxcase * bool)
| AGap (c : gapcase)
| AFinalFromInitial (c : initcase).

Definition check_any (a : anycase) : bool :=
  match a with
  | AFit c => check_fit c
  | AFinalBox c => check_final_box c
  | AInitialBox c => check_initial_box c
  | AGenInBox c => check_gen_in_box c
  | AGap c => check_gap c
  | AFinalFromInitial c => check_final_from_initial c
  end.
