(* Model of the two fitting-side selections of the CalTRACK hourly method (property C18, extension):

   1. opendsm/eemeter/common/features.py  _fit_temperature_bins / fit_temperature_bins
      which candidate bin endpoints are kept: count the temperatures per bin (-inf, e1], (e1, e2], ..., (ek, +inf);
      a bin with fewer than min_temperature_count temperatures is sparse; working from the outside in, drop the first
      endpoint when the first bin is sparse and the last endpoint when the last bin is sparse; only when neither is,
      drop the right endpoint of every sparse inner bin; repeat until nothing is dropped (or one bin is left);
   2. _estimate_hour_of_week_occupancy / estimate_hour_of_week_occupancy
      the decision rule from the residual signs of the (unmodelled) usage regression: an hour of the week is occupied
      iff the fraction of its positive residuals exceeds the threshold; re-indexed over range(168) and cast to bool, so
      an hour of the week without any residual comes out occupied (bool(NaN)); a data set without any complete row
      gives an all-NaN lookup.
   Definitions only; proofs are in Proofs/CalTrackFitProofs.v. *)
From Coq Require Import ZArith QArith List Bool String PrimFloat.
From V Require Import Generated.CalTrackTables Model.CalTrack.
Import ListNotations.

(* ------------------------------------------------------------------------------------------------ *)
(* 1. temperature bin selection                                                                      *)
(* ------------------------------------------------------------------------------------------------ *)

(* pd.cut(..., bins=[-inf] + bins + [inf]): right-closed intervals; None = the infinite edge *)
Definition in_interval (lo hi : option Q) (T : Q) : bool :=
  (match lo with None => true | Some l => Qltb l T end) && (match hi with None => true | Some r => Qle_bool T r end).

Section FitBins.
  Variable temps : list Q.          (* the non-null temperatures of the segment / occupancy mode *)
  Variable minc : nat.              (* min_temperature_count *)

  Definition cnt (lo hi : option Q) : nat := List.length (filter (in_interval lo hi) temps).
  (* _bin_count_invalid: count < min_temperature_count *)
  Definition sparse (lo hi : option Q) : bool := Nat.ltb (cnt lo hi) minc.

  (* the inner bins (l, r1], (r1, r2], ... to the right of the edge l, up to the last endpoint *)
  Fixpoint mid_counts (l : Q) (rest : list Q) : list nat :=
    match rest with
    | [] => []
    | r :: rest' => cnt (Some l) (Some r) :: mid_counts r rest'
    end.
  (* temp_summary for the sorted endpoint list e *)
  Definition bin_counts (e : list Q) : list nat :=
    match e with
    | [] => [cnt None None]
    | e0 :: rest => cnt None (Some e0) :: mid_counts e0 rest ++ [cnt (Some (last rest e0)) None]
    end.

  (* "try points in middle": the right endpoint of every sparse inner bin *)
  Fixpoint mid_removals (l : Q) (rest : list Q) : list Q :=
    match rest with
    | [] => []
    | r :: rest' => (if sparse (Some l) (Some r) then [r] else []) ++ mid_removals r rest'
    end.
  (* _find_endpoints_to_remove *)
  Definition removals (e : list Q) : list Q :=
    match e with
    | [] => []                                     (* one bin: nothing to remove, whatever its count *)
    | e0 :: rest =>
        let f := sparse None (Some e0) in
        let l := sparse (Some (last rest e0)) None in
        if f || l then (if f then [e0] else []) ++ (if l then [last rest e0] else [])
        else mid_removals e0 rest
    end.

  Definition memQ (x : Q) (l : list Q) : bool := existsb (Qeq_bool x) l.
  Definition keeps (rm : list Q) (x : Q) : bool := negb (memQ x rm).

  (* while True: ... test_bins.discard(endpoint) ...; at least one endpoint goes in every round, so
     length + 1 rounds are enough *)
  Fixpoint fit_loop (fuel : nat) (e : list Q) : list Q :=
    match fuel with
    | O => e
    | S fuel' =>
        match removals e with
        | [] => e
        | rm => fit_loop fuel' (filter (keeps rm) e)
        end
    end.
  Definition fit_bins (e : list Q) : list Q := fit_loop (S (List.length e)) e.
End FitBins.

(* sorted(set(default_bins)) *)
Fixpoint insert_sorted (x : Q) (l : list Q) : list Q :=
  match l with
  | [] => [x]
  | y :: r => if Qeq_bool x y then l else if Qltb x y then x :: l else y :: insert_sorted x r
  end.
Definition normalize (l : list Q) : list Q := fold_right insert_sorted [] l.

(* _fit_temperature_bins(temperature_data, default_bins, min_temperature_count) *)
Definition fit_temperature_bins_list (temps : list Q) (cands : list Q) (minc : nat) : list Q :=
  fit_bins temps minc (normalize cands).
(* the keep-flag column fit_temperature_bins builds from it: [endpoint in bins for endpoint in default_bins] *)
Definition fit_flags (temps : list Q) (cands : list Q) (minc : nat) : list bool :=
  map (fun c => memQ c (fit_temperature_bins_list temps cands minc)) cands.

(* fit_temperature_bins(data, segmentation, occupancy_lookup) for one segment: the hours of positive segment weight
   (iterate_segmented_dataset's default processor), split by the occupancy of their hour of week;
   a row is (local month, occupied, temperature) *)
Definition segment_rows (s : seg) (rows : list (Z * bool * Q)) : list (Z * bool * Q) :=
  filter (fun r => negb (Qle_bool (seg_weight s (fst (fst r))) 0%Q)) rows.
Definition fit_temperature_bins_segment (s : seg) (rows : list (Z * bool * Q)) (cands : list Q) (minc : nat)
  : list bool * list bool :=
  let rs := segment_rows s rows in
  (fit_flags (map snd (filter (fun r => snd (fst r)) rs)) cands minc,
   fit_flags (map snd (filter (fun r => negb (snd (fst r))) rs)) cands minc).

(* strictly increasing (what sorted(set(...)) returns) *)
Fixpoint strictly_increasing (l : list Q) : Prop :=
  match l with
  | [] => True
  | a :: r => Forall (fun x => a < x)%Q r /\ strictly_increasing r
  end.

(* ------------------------------------------------------------------------------------------------ *)
(* 2. hour-of-week occupancy                                                                         *)
(* ------------------------------------------------------------------------------------------------ *)

(* a residual row: (hour of week, residual > 0) *)
Definition how_rows (rows : list (Z * bool)) (h : Z) : list (Z * bool) := filter (fun r => Z.eqb (fst r) h) rows.
Definition n_residuals (rows : list (Z * bool)) (h : Z) : nat := List.length (how_rows rows h).
Definition n_positive (rows : list (Z * bool)) (h : Z) : nat := List.length (filter snd (how_rows rows h)).
(* ratio_positive_residuals = n_positive_residuals / n_residuals *)
Definition ratio (p n : nat) : Q := (inject_Z (Z.of_nat p) / inject_Z (Z.of_nat n))%Q.

(* _is_high_usage, then .reindex(range(168)).astype(bool): NaN (no residual for that hour) becomes True.
   flag_q is the rule as the property states it, over exact rationals (theorems); flag_f is the rule as the code
   evaluates it, `n_positive / float(n) > threshold` in binary64 (execution): the two differ only when the exact ratio
   lies within rounding distance of the threshold without being equal to it (e.g. 14/20 against the double nearest 0.7);
   for the default threshold they agree for every count up to 250 (C18_ex_occupancy_float_rule_agrees) *)
Definition flag_q (thr : Q) (p n : nat) : bool :=
  match n with
  | O => true
  | _ => Qltb thr (ratio p n)
  end.
Definition fdiv (a b : float) : float := PrimFloat.div a b.
Definition flag_f (thr : float) (p n : nat) : bool :=
  match n with
  | O => true
  | _ => fltb thr (fdiv (Z2F (Z.of_nat p)) (Z2F (Z.of_nat n)))
  end.
Definition occupied_flag (thr : Q) (rows : list (Z * bool)) (h : Z) : bool :=
  flag_q thr (n_positive rows h) (n_residuals rows h).
Definition occupied_flag_f (thr : float) (rows : list (Z * bool)) (h : Z) : bool :=
  flag_f thr (n_positive rows h) (n_residuals rows h).

Definition hours_of_week : list Z := map Z.of_nat (seq 0 168).

(* None = NaN: `if model_data.dropna().empty: return pd.Series(np.nan, index=range(168))` (not cast) *)
Definition occupancy_lookup (no_data : bool) (thr : Q) (rows : list (Z * bool)) : list (option bool) :=
  if no_data then map (fun _ => None) hours_of_week
  else map (fun h => Some (occupied_flag thr rows h)) hours_of_week.
Definition occupancy_lookup_f (no_data : bool) (thr : float) (rows : list (Z * bool)) : list (option bool) :=
  if no_data then map (fun _ => None) hours_of_week
  else map (fun h => Some (occupied_flag_f thr rows h)) hours_of_week.
