(* C02 — who may write which frame.  Caller-owned frames / series, the private frames of data objects and the frames
   handed out (`.df`, prediction results) are locations of a store; constructors, `.df`, fit/predict and the caller's
   own in-place writes are operations on it.  Whether a constructor writes into its argument before copying it, and
   whether each frame accessor (`.df`, `.billing_df`, ...) hands out a new copy at every access or a frame stored in
   the object (plain attribute, property without copy, cached property), is a configuration per data class, read from the
   source on every run (harness/translate_c02.py -> Generated/C02Gen.v).
   Also: the ownership of the warning / disqualification lists in fit().
   What pandas itself shares between a frame and its copy (views, the index array) is NOT modelled: the harness
   observes it.  Executable definitions only; lemmas are in Proofs/StoreProofs.v. *)
From Coq Require Import ZArith List Bool Arith.
From V Require Import Model.Gate.
Import ListNotations.

Inductive dclass :=
| DailyB | DailyR | BillingB | BillingR | HourlyB | HourlyR | CaltrackB | CaltrackR.

(* what the constructors' normalisation of the input looks at *)
Record frame := {
  has_obs : bool;        (* an `observed` column *)
  zeros : bool;          (* zero readings in it *)
  dtcol : bool;          (* the time stamps are a `datetime` column, not the index *)
  ver : Z                (* everything else (the values) *)
}.

Definition frame_eqb (a b : frame) : bool :=
  Bool.eqb (has_obs a) (has_obs b) && Bool.eqb (zeros a) (zeros b) && Bool.eqb (dtcol a) (dtcol b) && (ver a =? ver b)%Z.

Definition adds_observed (c : dclass) : bool :=
  match c with DailyR | BillingB | BillingR | HourlyR | CaltrackR => true | _ => false end.
Definition moves_dtcol (c : dclass) : bool :=
  match c with CaltrackB | CaltrackR => false | _ => true end.

(* the in-place part of a constructor: add the missing column, zero readings of electricity meters -> NaN,
   set_index("datetime", inplace=True) *)
Definition normalise (c : dclass) (elec : bool) (f : frame) : frame :=
  {| has_obs := has_obs f || adds_observed c;
     zeros := zeros f && negb elec;
     dtcol := dtcol f && negb (moves_dtcol c);
     ver := ver f |}.

(* every public attribute / property of a data class through which a frame is handed out *)
Inductive accessor := ADf | ABillingDf | AOther.

Record ccfg := {
  init_writes_arg : bool;      (* the frame constructor writes into its argument (no copy before the first write) *)
  series_writes_arg : bool;    (* from_series writes into the series it is given *)
  handout_copies : accessor -> bool
     (* the accessor is a property whose every access builds a new copy.  false: a plain attribute, a property returning
        the stored frame, or a cached property (the copy is made once, every access hands out the SAME stored frame):
        in all three cases the caller gets a reference to a frame that belongs to the data object's state *)
}.
Definition cfg := dclass -> ccfg.
Definition safe_ccfg : ccfg := {| init_writes_arg := false; series_writes_arg := false; handout_copies := fun _ => true |}.

Inductive owner := Caller | Obj (c : dclass) | Hand.
Record cell := { own : owner; val : frame }.

Record store := {
  cells : list cell;
  held : list nat           (* the locations the caller has a reference to (and may write) *)
}.

Definition is_obj (o : owner) : bool := match o with Obj _ => true | _ => false end.
Definition class_of (o : owner) : option dclass := match o with Obj c => Some c | _ => None end.

Fixpoint update {A} (l : list A) (n : nat) (x : A) : list A :=
  match l, n with
  | [], _ => []
  | _ :: r, O => x :: r
  | y :: r, S k => y :: update r k x
  end.

Definition set_val (s : store) (l : nat) (f : frame) : store :=
  match nth_error (cells s) l with
  | Some c => {| cells := update (cells s) l {| own := own c; val := f |}; held := held s |}
  | None => s
  end.

Definition alloc (s : store) (o : owner) (f : frame) (hold : bool) : store :=
  {| cells := cells s ++ [{| own := o; val := f |}];
     held := if hold then held s ++ [length (cells s)] else held s |}.

Definition holds (s : store) (l : nat) : bool := existsb (Nat.eqb l) (held s).

Inductive sop :=
| SNew (f : frame)                                       (* the caller makes a frame of its own *)
| SInit (c : dclass) (elec : bool) (src : nat)           (* obj := c(frame at src, is_electricity_data=elec) *)
| SSeries (c : dclass) (elec : bool) (meter : option nat) (temp : nat)   (* obj := c.from_series(meter, temp, elec) *)
| SDf (a : accessor) (o : nat)                           (* h := obj.df / obj.billing_df / ... *)
| SPredict (o : nat)                                     (* model.predict(obj): a result frame for the caller *)
| SFit (o : nat)                                         (* model.fit(obj) *)
| SMutate (l : nat) (v : Z).                             (* the caller writes into a frame it holds *)

Definition bump (f : frame) (v : Z) : frame := {| has_obs := has_obs f; zeros := zeros f; dtcol := dtcol f; ver := v |}.

(* an operation is made of at most one in-place write, at most one new location, at most one new reference *)

(* the location written in place, with its new content.  A constructor can only be given frames the caller holds *)
Definition in_place (g : cfg) (s : store) (o : sop) : option (nat * frame) :=
  match o with
  | SInit c elec src =>
      if holds s src && init_writes_arg (g c)
      then option_map (fun x => (src, normalise c elec (val x))) (nth_error (cells s) src) else None
  | SSeries c elec (Some m) t =>
      if holds s m && holds s t && series_writes_arg (g c)
      then option_map (fun x => (m, normalise c elec (val x))) (nth_error (cells s) m) else None
  | SMutate l v =>
      if holds s l then option_map (fun x => (l, bump (val x) v)) (nth_error (cells s) l) else None
  | _ => None
  end.

(* the location created: owner, content, and whether the caller gets a reference to it *)
Definition created (g : cfg) (s : store) (o : sop) : option (owner * frame * bool) :=
  match o with
  | SNew f => Some (Caller, f, true)
  | SInit c elec src =>
      if holds s src then option_map (fun x => (Obj c, normalise c elec (val x), false)) (nth_error (cells s) src) else None
  | SSeries c elec m t =>
      if holds s t && match m with Some l => holds s l | None => true end
      then option_map (fun x => (Obj c, normalise c elec (val x), false)) (nth_error (cells s) t) else None
  | SDf a o =>
      match nth_error (cells s) o with
      | Some x => match own x with
                  | Obj c => if handout_copies (g c) a then Some (Hand, val x, true) else None
                  | _ => None
                  end
      | None => None
      end
  | SPredict o =>
      match nth_error (cells s) o with
      | Some x => if is_obj (own x) then Some (Hand, val x, true) else None
      | None => None
      end
  | _ => None
  end.

(* `.df` without a copy: the caller gets a reference to the private frame itself *)
Definition leaked (g : cfg) (s : store) (o : sop) : option nat :=
  match o with
  | SDf a o =>
      match nth_error (cells s) o with
      | Some x => match own x with
                  | Obj c => if handout_copies (g c) a then None else Some o
                  | _ => None
                  end
      | None => None
      end
  | _ => None
  end.

Definition step (g : cfg) (s : store) (o : sop) : store :=
  let s1 := match in_place g s o with Some (l, f) => set_val s l f | None => s end in
  let s2 := match created g s o with Some (w, f, h) => alloc s1 w f h | None => s1 end in
  match leaked g s o with
  | Some l => {| cells := cells s2; held := held s2 ++ [l] |}
  | None => s2
  end.

Definition run (g : cfg) (s : store) (ops : list sop) : store := fold_left (step g) ops s.

Definition content (s : store) (l : nat) : option frame := option_map val (nth_error (cells s) l).

(* ---- fit(): the model's warning / disqualification lists and the data object's *)
Record lists := { l_data : list Z; l_model : list Z }.

Definition fit_lists (copies poor : bool) (data : list Z) : lists :=
  let extra := if poor then [POOR_FIT] else [] in
  if copies then {| l_data := data; l_model := data ++ extra |}
  else {| l_data := data ++ extra; l_model := data ++ extra |}.      (* one shared list: the append reaches the data object *)
