(* Executable comparison helpers of the C01 correspondence (hourly), evaluated by vm_compute in the cases files. *)
From Coq Require Import ZArith List Bool String PrimFloat.
From V Require Import Model.Json Model.DailyDoc Model.HourlyDoc Generated.C01Gen.
Import ListNotations.
Open Scope string_scope.

Definition hfrom := hourly_from_doc hourly_float_paths.

Definition ojson_eqb (a b : option json) : bool :=
  match a, b with Some x, Some y => json_eqb x y | None, None => true | _, _ => false end.

(* stream "state-hourly": attributes of the fitted object -> state literal; Coq computes to_doc; vs to_json() *)
Definition check_hstate (cs : hourly_state * json) : bool :=
  let (s, d) := cs in ojson_eqb (hourly_to_doc s) (Some d).

(* stream "reload-hourly": the document, what from_dict made of it (attributes of the reloaded object read into a
   state literal, None = from_dict raised) and what the reloaded object serialises to (None = raised) *)
Definition hstate_eqb (a b : hourly_state) : bool := ojson_eqb (hourly_to_doc a) (hourly_to_doc b).

Definition check_hreload (cs : json * option hourly_state * option json) : bool :=
  let '(d, s2, redump) := cs in
  match s2 with
  | None => match hfrom d with None => true | Some _ => false end
  | Some s2 =>
      match hfrom d with
      | Some s' => hstate_eqb s' s2 && ojson_eqb (hourly_to_doc s') redump
      | None => false
      end
  end.
