(* Model of the split machinery of opendsm/eemeter/models/daily/model.py:
     DailyModel.__init__ (seasonal_options, day_options, combo_dictionary)      lines 100-119
     _combinations: _get_combinations / expand_combinations / stringify,
                    _remove_duplicate_permutations, _trim_combinations           lines 527-750
     _meter_segment                                                              lines 752-777
     _best_combination                                                           lines 862-887
   Executable definitions only; the lemmas are in Proofs/SplitsProofs.v.

   A component is "<day type>-<season group>", e.g. "wd-su_sh"; a split is a "__"-joined list of
   components, e.g. "fw-sh__wd-su_wi__we-su_wi".  The structured form is used by the theorems, the
   printed / parsed form is what the code manipulates and what the correspondence compares. *)
From Coq Require Import ZArith List Bool String Ascii QArith.
Import ListNotations.
Open Scope string_scope.

Inductive daytype := FW | WD | WE.
Inductive season := SU | SH | WI.

Definition daytype_eqb (a b : daytype) : bool :=
  match a, b with FW, FW | WD, WD | WE, WE => true | _, _ => false end.
Definition season_eqb (a b : season) : bool :=
  match a, b with SU, SU | SH, SH | WI, WI => true | _, _ => false end.

Definition sgroup := list season.              (* "su_sh" *)
Definition comp := (daytype * sgroup)%type.    (* "wd-su_sh" *)
Definition split := list comp.                 (* "fw-wi__wd-su_sh__we-su_sh" *)

Fixpoint list_eqb {A} (eqb : A -> A -> bool) (a b : list A) : bool :=
  match a, b with
  | [], [] => true
  | x :: a', y :: b' => eqb x y && list_eqb eqb a' b'
  | _, _ => false
  end.
Definition sgroup_eqb (a b : sgroup) : bool := list_eqb season_eqb a b.
Definition comp_eqb (a b : comp) : bool := daytype_eqb (fst a) (fst b) && sgroup_eqb (snd a) (snd b).

(* ------------------------------------------------------------------ printing *)
Definition print_daytype (d : daytype) : string :=
  match d with FW => "fw" | WD => "wd" | WE => "we" end.
Definition print_season (s : season) : string :=
  match s with SU => "su" | SH => "sh" | WI => "wi" end.
Definition print_group (g : sgroup) : string := String.concat "_" (map print_season g).
Definition print_comp (c : comp) : string :=
  print_daytype (fst c) ++ "-" ++ print_group (snd c).
Definition print_split (s : split) : string := String.concat "__" (map print_comp s).

(* ------------------------------------------------------------------ parsing (str.split, slices) *)
Definition cons_head (c : ascii) (l : list string) : list string :=
  match l with [] => [String c EmptyString] | h :: t => String c h :: t end.

Definition is_us (c : ascii) : bool := Ascii.eqb c "_"%char.

(* Python  s.split("_") *)
Fixpoint split_us (s : string) : list string :=
  match s with
  | EmptyString => [EmptyString]
  | String c r => if is_us c then EmptyString :: split_us r else cons_head c (split_us r)
  end.

(* Python  s.split("__")  (leftmost, non-overlapping) *)
Fixpoint split_dus (s : string) : list string :=
  match s with
  | EmptyString => [EmptyString]
  | String c r =>
      match r with
      | String c2 r2 =>
          if is_us c && is_us c2 then EmptyString :: split_dus r2 else cons_head c (split_dus r)
      | EmptyString => [String c EmptyString]
      end
  end.

Definition take (n : nat) (s : string) : string := substring 0 n s.        (* s[:n] *)
Definition drop (n : nat) (s : string) : string := substring n (String.length s - n) s.   (* s[n:] *)

Definition parse_season (s : string) : option season :=
  if s =? "su" then Some SU else if s =? "sh" then Some SH else if s =? "wi" then Some WI else None.
Definition parse_daytype (s : string) : option daytype :=
  if s =? "fw" then Some FW else if s =? "wd" then Some WD else if s =? "we" then Some WE else None.

Fixpoint all_some {A} (l : list (option A)) : option (list A) :=
  match l with
  | [] => Some []
  | None :: _ => None
  | Some x :: r => match all_some r with Some r' => Some (x :: r') | None => None end
  end.

Definition parse_group (s : string) : option sgroup := all_some (map parse_season (split_us s)).

(* the code reads component[:2] and component[3:]; it never looks at component[2]; the parser
   insists on the "-" so that print/parse are inverse *)
Definition parse_comp (s : string) : option comp :=
  match parse_daytype (take 2 s), String.get 2 s, parse_group (drop 3 s) with
  | Some d, Some c, Some g => if Ascii.eqb c "-"%char then Some (d, g) else None
  | _, _, _ => None
  end.
Definition parse_split (s : string) : option split := all_some (map parse_comp (split_dus s)).

(* ------------------------------------------------------------------ cells and exact cover *)
Definition cell := (season * bool)%type.        (* (season, is-weekend) *)
Definition cells : list cell :=
  [(SU, false); (SU, true); (SH, false); (SH, true); (WI, false); (WI, true)].

Definition mem_season (s : season) (g : sgroup) : bool := existsb (season_eqb s) g.
Definition day_covers (d : daytype) (weekend : bool) : bool :=
  match d with FW => true | WD => negb weekend | WE => weekend end.
Definition covers (c : comp) (x : cell) : bool := mem_season (fst x) (snd c) && day_covers (fst c) (snd x).

Fixpoint count_true {A} (p : A -> bool) (l : list A) : nat :=
  match l with [] => O | x :: r => if p x then S (count_true p r) else count_true p r end.

Definition exact_coverb (s : split) : bool :=
  forallb (fun x => Nat.eqb (count_true (fun c => covers c x) s) 1) cells.

(* ------------------------------------------------------------------ _get_combinations *)
Definition item := (daytype * list sgroup)%type.      (* ["wd", ["su", "sh_wi"]] *)
Definition combo := list item.

(* itertools.product over [("wd", o) for o in options] x [("we", o) for o in options];
   day_options is [["wd", "we"]] (asserted by the translator) *)
Definition init_combos (opts : list (list sgroup)) : list combo :=
  flat_map (fun a => map (fun b => [(WD, a); (WE, b)]) opts) opts.

Fixpoint find_item (d : daytype) (c : combo) : option (list sgroup) :=
  match c with
  | [] => None
  | (d', l) :: r => if daytype_eqb d d' then Some l else find_item d r
  end.

Definition mem_group (g : sgroup) (l : list sgroup) : bool := existsb (sgroup_eqb g) l.
Definition without (g : sgroup) (l : list sgroup) : list sgroup := filter (fun x => negb (sgroup_eqb x g)) l.
Definition nonempty {A} (l : list A) : bool := match l with [] => false | _ => true end.

Definition expand_one (c : combo) : list combo :=
  c ::
  match find_item WD c, find_item WE c with
  | Some lwd, Some lwe =>
      let fw := find_item FW c in
      flat_map (fun it =>
        if mem_group it lwe then
          let t0 := without it lwd in
          let t1 := without it lwe in
          let fw_item := (FW, match fw with None => [it] | Some l => (l ++ [it])%list end) in
          [ fw_item :: ((if nonempty t0 then [(WD, t0)] else []) ++ (if nonempty t1 then [(WE, t1)] else []))%list ]
        else []) lwd
  | _, _ => []
  end.
Definition expand_combinations (cs : list combo) : list combo := flat_map expand_one cs.

Definition flatten (c : combo) : split :=
  flat_map (fun it : item => map (fun g => (fst it, g)) (snd it)) c.

(* sorted(set(strings), key=lambda x: (len(x), x)) *)
Definition key_leb (a b : string) : bool :=
  let la := String.length a in
  let lb := String.length b in
  if Nat.ltb la lb then true else if Nat.ltb lb la then false else String.leb a b.

Fixpoint insert_uniq (x : split) (l : list split) : list split :=
  match l with
  | [] => [x]
  | y :: r =>
      let px := print_split x in
      let py := print_split y in
      if px =? py then l else if key_leb px py then x :: l else y :: insert_uniq x r
  end.
Definition sort_uniq (l : list split) : list split := fold_right insert_uniq [] l.

Fixpoint iter {A} (n : nat) (f : A -> A) (x : A) : A :=
  match n with O => x | S k => iter k f (f x) end.

Definition rounds (opts : list (list sgroup)) : nat :=
  fold_right Nat.max O (map (@List.length sgroup) opts).

Definition get_combinations (opts : list (list sgroup)) : list split :=
  sort_uniq (map flatten (iter (rounds opts) expand_combinations (init_combos opts))).

(* ------------------------------------------------------------------ _remove_duplicate_permutations
   (literally: the *unsorted* text is what is remembered, the sorted text is what is looked up) *)
Fixpoint insert_str (x : string) (l : list string) : list string :=
  match l with
  | [] => [x]
  | y :: r => if String.leb x y then x :: l else y :: insert_str x r
  end.
Definition sort_strings (l : list string) : list string := fold_right insert_str [] l.
Definition mem_string (x : string) (l : list string) : bool := existsb (String.eqb x) l.

Fixpoint rdp (seen : list string) (l : list split) : list split :=
  match l with
  | [] => []
  | s :: r =>
      let sorted_combo := String.concat "__" (sort_strings (map print_comp s)) in
      if mem_string sorted_combo seen then rdp seen r
      else s :: rdp (seen ++ [print_split s])%list r
  end.
Definition remove_duplicate_permutations (l : list split) : list split := rdp [] l.

Definition candidates (opts : list (list sgroup)) : list split :=
  remove_duplicate_permutations (get_combinations opts).

Definition parse_options (o : list (list string)) : option (list (list sgroup)) :=
  all_some (map (fun l => all_some (map parse_group l)) o).

(* ------------------------------------------------------------------ settings maps *)
(* value of settings.season._num_dict[month] / settings.weekday_weekend._num_dict[dow]; the option
   lists are open fields, so names other than the hard-wired ones are possible *)
Inductive sname := Summer | Shoulder | Winter | OtherSeason.
Inductive dname := Weekday | Weekend | OtherDay.
Definition sname_eqb (a b : sname) : bool :=
  match a, b with
  | Summer, Summer | Shoulder, Shoulder | Winter, Winter | OtherSeason, OtherSeason => true
  | _, _ => false
  end.
Definition season_name (s : season) : sname :=          (* combo_dictionary["su"] = "summer" ... *)
  match s with SU => Summer | SH => Shoulder | WI => Winter end.
Definition is_weekend (d : dname) : bool := match d with Weekend => true | _ => false end.
Definition is_weekday (d : dname) : bool := match d with Weekday => true | _ => false end.

(* combo_dictionary["fw" | "wd" | "we"] as a predicate on the name of the day *)
Definition day_in (d : daytype) (n : dname) : bool :=
  match d with FW => true | WD => is_weekday n | WE => is_weekend n end.

(* _meter_segment: is the row of a day with this month / day-of-week inside the segment of comp *)
Definition routes (c : comp) (sm : Z -> sname) (wm : Z -> dname) (month dow : Z) : bool :=
  existsb (fun s => sname_eqb (season_name s) (sm month)) (snd c) && day_in (fst c) (wm dow).

(* the same on the component text, slicing as the code does: component[3:].split("_"), component[:2];
   None = KeyError *)
Definition meter_segment_str (component : string) (sm : Z -> sname) (wm : Z -> dname) (month dow : Z)
  : option bool :=
  match all_some (map parse_season (split_us (drop 3 component))), parse_daytype (take 2 component) with
  | Some g, Some d => Some (routes (d, g) sm wm month dow)
  | _, _ => None
  end.

(* list-represented maps for execution: 12 season names, 7 day names *)
Definition lookup_s (l : list sname) (month : Z) : sname := nth (Z.to_nat (month - 1)) l OtherSeason.
Definition lookup_d (l : list dname) (dow : Z) : dname := nth (Z.to_nat (dow - 1)) l OtherDay.

(* the component of a split that receives a day: all of them (the statement says there is exactly one) *)
Definition receivers (s : split) (sm : Z -> sname) (wm : Z -> dname) (month dow : Z) : list comp :=
  filter (fun c => routes c sm wm month dow) s.

(* ------------------------------------------------------------------ _trim_combinations *)
Record flags := { a_su : bool; a_sh : bool; a_wi : bool; a_wdwe : bool }.

(* what the trim reads from df_meter: rows per season, rows per season that fall on a weekend day *)
Record counts := { n_su : Z; n_sh : Z; n_wi : Z; we_su : Z; we_sh : Z; we_wi : Z }.

Definition flags_and (a b : flags) : flags :=
  {| a_su := a_su a && a_su b; a_sh := a_sh a && a_sh b; a_wi := a_wi a && a_wi b;
     a_wdwe := a_wdwe a && a_wdwe b |}.

Definition split_min_days : Z := 30.

(* flags after the day-count rule:  (season == x).sum() < split_min_days  =>  not separate *)
Definition effective_flags (f : flags) (c : counts) : flags :=
  {| a_su := a_su f && negb (n_su c <? split_min_days)%Z;
     a_sh := a_sh f && negb (n_sh c <? split_min_days)%Z;
     a_wi := a_wi f && negb (n_wi c <? split_min_days)%Z;
     a_wdwe := a_wdwe f |}.

Definition allow_season (f : flags) (s : season) : bool :=
  match s with SU => a_su f | SH => a_sh f | WI => a_wi f end.
Definition we_count_season (c : counts) (s : season) : Z :=
  match s with SU => we_su c | SH => we_sh c | WI => we_wi c end.
Definition we_count (c : counts) (g : sgroup) : Z := fold_right (fun s acc => we_count_season c s + acc)%Z 0%Z g.

(* we_count < split_min_days / 3.75   <=>   15 * we_count < 4 * split_min_days *)
Definition comp_ok (f : flags) (c : counts) (x : comp) : bool :=
  negb (match snd x with [s] => negb (allow_season f s) | _ => false end)
  && negb (15 * we_count c (snd x) <? 4 * split_min_days)%Z.

Definition unsplit : split := [(FW, [SU; SH; WI])].
Definition has_wd (s : split) : bool := existsb (fun c => daytype_eqb (fst c) WD) s.

Definition trim_keep (f : flags) (c : counts) (s : split) : bool :=
  if print_split s =? "fw-su_sh_wi" then true
  else if has_wd s && negb (a_wdwe f) then false
  else forallb (comp_ok (effective_flags f c) c) s.

Definition trim (f : flags) (c : counts) (l : list split) : list split := filter (trim_keep f c) l.

(* counts from a histogram of days  ((month, dow), how many)  under the maps *)
Definition hist := list (Z * Z * Z).
Definition count_where (p : Z -> Z -> bool) (h : hist) : Z :=
  fold_right (fun e acc => let '(m, d, n) := e in if p m d then (n + acc)%Z else acc) 0%Z h.
Definition counts_of (sm : Z -> sname) (wm : Z -> dname) (h : hist) : counts :=
  let tot x := count_where (fun m _ => sname_eqb (sm m) x) h in
  let wes x := count_where (fun m d => sname_eqb (sm m) x && is_weekend (wm d)) h in
  {| n_su := tot Summer; n_sh := tot Shoulder; n_wi := tot Winter;
     we_su := wes Summer; we_sh := wes Shoulder; we_wi := wes Winter |}.

(* _combinations(): settings flags, optional outcome of the ellipsoid filter (an oracle: the
   Gaussian overlap test is not modelled), maps and data -> candidate texts *)
Definition combinations (opts : list (list sgroup)) (f : flags) (gauss : option flags)
           (sm : Z -> sname) (wm : Z -> dname) (h : hist) : list string :=
  let f' := match gauss with Some g => flags_and f g | None => f end in
  map print_split (trim f' (counts_of sm wm h) (candidates opts)).

(* ------------------------------------------------------------------ _best_combination *)
Section Best.
  Variable A : Type.
  Variable lt : A -> A -> bool.          (* Python float "<" *)
  Variable top : A.                      (* np.inf *)

  Fixpoint best_from (hof : option string * A) (l : list (string * A)) : option string * A :=
    match l with
    | [] => hof
    | (s, c) :: r => if lt c (snd hof) then best_from (Some s, c) r else best_from hof r
    end.
  Definition best (l : list (string * A)) : option string := fst (best_from (None, top) l).
End Best.

(* binary64 values as exact extended rationals (every finite double is a dyadic rational) *)
Inductive xr := XNaN | XNegInf | XFin (q : Q) | XPosInf.
Definition Qltb (p q : Q) : bool := negb (Qle_bool q p).
Definition xlt (a b : xr) : bool :=
  match a, b with
  | XNaN, _ | _, XNaN => false
  | XNegInf, XNegInf => false
  | XNegInf, _ => true
  | _, XNegInf => false
  | XFin p, XFin q => Qltb p q
  | XFin _, XPosInf => true
  | XPosInf, _ => false
  end.
Definition best_x (l : list (string * xr)) : option string := best xr xlt XPosInf l.
