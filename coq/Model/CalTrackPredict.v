(* Model of the value a fitted CalTRACK hourly model predicts for an hour (property C18, extension):
   opendsm/eemeter/models/hourly_caltrack/segmentation.py  CalTRACKSegmentModel.predict (design matrix . parameters,
   rows without a known hour-of-week parameter or with a NaN cell are NaN) and SegmentedModel.predict (per prediction
   segment: feature processor -> segment model -> x weight -> rows of positive weight; NaN-skipping sum over segments),
   on top of Model/CalTrack.v (routing, feature rows, endpoint selection by keep-flags).
   Definitions only; proofs are in Proofs/CalTrackPredictProofs.v. *)
From Coq Require Import ZArith QArith List Bool String.
From V Require Import Generated.CalTrackTables Model.CalTrack.
Import ListNotations.

(* model_params of one fitted segment model: {"C(hour_of_week)[h]": c_h, "bin_i_occupied": b_i, "bin_i_unoccupied": b'_i};
   None = no parameter of that name (the column is then left out of the product) *)
Record seg_params := {
  sp_how : list (Z * Q);
  sp_occ : list (option Q);
  sp_unocc : list (option Q)
}.

Fixpoint lookup_how (h : Z) (l : list (Z * Q)) : option Q :=
  match l with
  | [] => None
  | (k, c) :: r => if Z.eqb k h then Some c else lookup_how h r
  end.

(* design_matrix[cols_to_predict].dot(parameters[cols_to_predict]) over the bin columns of one group *)
Fixpoint dot (coefs : list (option Q)) (xs : list Q) : Q :=
  match coefs, xs with
  | c :: cs, x :: xs' => (match c with Some b => b * x | None => 0 end) + dot cs xs'
  | _, _ => 0
  end.

Fixpoint all_some (l : list (option Q)) : option (list Q) :=
  match l with
  | [] => Some []
  | None :: _ => None
  | Some x :: r => option_map (cons x) (all_some r)
  end.

(* CalTRACKSegmentModel.predict on one feature row (hour of week, occupied bins, unoccupied bins):
   patsy drops a row with a NaN cell; "cut out all 0s" drops a row whose hour-of-week dummy has no parameter;
   both come back as NaN through the final reindex *)
Definition segment_predict (p : seg_params) (how : Z) (o u : list (option Q)) : option Q :=
  match all_some o, all_some u, lookup_how how (sp_how p) with
  | Some xo, Some xu, Some c => Some (c + dot (sp_occ p) xo + dot (sp_unocc p) xu)
  | _, _, _ => None
  end.

(* the frames a CalTRACKHourlyModel carries, per fitted segment name: occupancy lookup over the 168 hours of the week,
   occupied keep-flags, unoccupied keep-flags *)
Definition frames_t : Type := list (string * (list bool * list bool * list bool)).
(* its segment models: name -> parameters (None = the parameterless model of a segment that had no data) *)
Definition models_t : Type := list (string * option seg_params).

Definition occ_of (lookup : list bool) (how : Z) : option bool :=
  if Z.ltb how 0 then None else nth_error lookup (Z.to_nat how).

(* caltrack_hourly_prediction_feature_processor for the fitted segment `name`, then its segment model *)
Definition segment_value (frames : frames_t) (models : models_t) (name : string) (how : Z) (T : option Q) : option Q :=
  match assoc name frames, assoc name models with
  | Some (lk, fo, fu), Some (Some p) =>
      let r := feature_row QOps true (occ_of lk how) T (endpoints_of_flags fo) (endpoints_of_flags fu) in
      segment_predict p how (fst r) (snd r)
  | _, _ => None
  end.

(* predictions.sum(axis=1, min_count=1): NaN cells are skipped, a row of NaNs is NaN *)
Definition nanadd (acc v : option Q) : option Q :=
  match acc, v with
  | Some a, Some b => Some (a + b)
  | Some a, None => Some a
  | None, _ => v
  end.
Definition nansum (l : list (option Q)) : option Q := fold_left nanadd l None.

(* SegmentedModel.predict for one hour: local month m, hour of week, temperature; `present` = months of the index *)
Definition hour_prediction (frames : frames_t) (models : models_t) (present : list Z) (fit_type : string)
           (m how : Z) (T : option Q) : option Q :=
  nansum (map (fun fw => option_map (Qmult (snd fw)) (segment_value frames models (fst fw) how T))
              (prediction_terms_on present (map fst models) fit_type m)).
