(* C06 — row accounting of DailyModel._predict / BillingModel.predict(aggregation=None)
   (opendsm/eemeter/models/daily/model.py:269-321, 471-525).  Executable definitions only.

   _initialize_data : sort_index; dropped_rows = copy; dropna; keep finite temperature (and finite observed when
                      the column is present); dropped_rows = rows whose index label is not in the kept index
   _predict         : for every sub-model key: segment = rows selected by _meter_segment; predict the segment;
                      concat the segments; LEFT JOIN onto the kept rows by index label;
                      concat with dropped_rows; sort_index.

   Not modelled (section variables): the sub-model curve (`predict_sub`) and the routing test of
   `_meter_segment` (`member`); C13 proves that routing is an exact cover. *)
From Coq Require Import ZArith List Bool Arith Lia.
Import ListNotations.

Section Daily.
  Context {V K : Type}.
  Variable finite : V -> bool.                    (* np.isfinite on a non-NaN cell *)
  Variable predict_sub : K -> V -> option V.      (* None = NaN *)

  Record drow := { d_ts : Z; d_temp : option V; d_obs : option V }.   (* None = NaN *)

  Variable member : K -> drow -> bool.            (* _meter_segment(key, df) selects the row *)
  Variable keys : list K.                         (* self.params.submodels.keys(), in order *)

  Definition cell_ok (c : option V) : bool := match c with Some v => finite v | None => false end.
  Definition keep (obs_supplied : bool) (r : drow) : bool :=
    cell_ok (d_temp r) && (negb obs_supplied || cell_ok (d_obs r)).

  (* sort_index: stable insertion sort on the label *)
  Fixpoint insert_by {A} (key : A -> Z) (x : A) (l : list A) : list A :=
    match l with
    | [] => [x]
    | y :: t => if (key x <=? key y)%Z then x :: l else y :: insert_by key x t
    end.
  Definition sort_by {A} (key : A -> Z) (l : list A) : list A := fold_right (insert_by key) [] l.

  Definition initialize_data (obs_supplied : bool) (rows : list drow) : list drow * list drow :=
    let s := sort_by d_ts rows in
    let kept := filter (keep obs_supplied) s in
    let dropped := filter (fun r => negb (existsb (Z.eqb (d_ts r)) (map d_ts kept))) s in
    (kept, dropped).

  (* pd.concat of the per-key frames: (label, predicted) *)
  Definition segment_predictions (kept : list drow) : list (Z * option V) :=
    flat_map (fun k =>
      map (fun r => (d_ts r, match d_temp r with Some t => predict_sub k t | None => None end))
          (filter (member k) kept)) keys.

  (* df_eval.join(df_model_prediction): left join on the index label *)
  Definition join_left (kept : list drow) (preds : list (Z * option V)) : list (drow * option V) :=
    flat_map (fun r =>
      match filter (fun p => Z.eqb (fst p) (d_ts r)) preds with
      | [] => [(r, None)]
      | ms => map (fun p => (r, snd p)) ms
      end) kept.

  Definition daily_predict (obs_supplied : bool) (rows : list drow) : list (drow * option V) :=
    let '(kept, dropped) := initialize_data obs_supplied rows in
    let joined := join_left kept (segment_predictions kept) in
    sort_by (fun rp => d_ts (fst rp)) (joined ++ map (fun r => (r, None)) dropped).

  (* the hypothesis under which rows are neither duplicated nor lost: every kept row is selected by exactly one
     sub-model (C13 proves it for the splits the code can produce) *)
  Definition exact_cover (obs_supplied : bool) (rows : list drow) : Prop :=
    forall r, In r rows -> keep obs_supplied r = true -> length (filter (fun k => member k r) keys) = 1.

End Daily.
