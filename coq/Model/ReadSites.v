(* C05 — where the predict paths may mention the usage column, and what the models make of each place.
   Generated/ObservedReadsGen.v (harness/translate_reads.py, regenerated from the source on every run) lists every occurrence of
   the column name "observed" and every NaN-sensitive whole-frame operation in the functions reachable from the predict
   entry points and the data classes in front of them.  This file is the hand-written side: the sites the models account
   for, each with the stage of the model that stands for it.  Properties/C05.v proves that every generated site is declared
   here (with no more occurrences than declared): a new read of `observed` on a predict path — or one more in a function
   that already has some — breaks a named obligation.  Executable definitions only. *)
From Coq Require Import String List Bool Arith.
Import ListNotations.
Open Scope string_scope.

Inductive stage :=
(* usage is NOT an input of the prediction there *)
| FitOnly            (* reached only while the model is not fitted (is_fitted guard): clustering, edge-bin rate, y-scaler fit,
                        include_date of _daily_sufficiency *)
| ObsNormUnused      (* hourly _normalize_features: observed_norm is computed, X is built from the weather features only
                        (Model/HourlyFlow.v header; ts_feat / cat_feat read r_w and the cluster label) *)
| ColumnList         (* a list of column names (expected / output / interpolated columns), no cell is read *)
| Sufficiency        (* warnings / disqualification of the data object, not consulted by predict for reporting data *)
| UncertaintyColumn  (* CalTRACK wrapper.predict: predicted_uncertainty (Model/CounterfactualFlows.v co_unc) *)
| AggregationColumn  (* BillingModel.predict(aggregation <> None): the observed column of the aggregated frame (out of scope) *)
| MaskStatement      (* daily _predict: observed of dropped rows masked (C07; Model/Rows.v mask_obs) *)
(* usage IS an input of a modelled stage: the non-interference theorems speak about exactly these *)
| ClusterRepair      (* hourly correct_missing_temporal_clusters: Model/HourlyFlow.v cluster_stage (obs_usable, repair_by_obs,
                        calendar_fill); not reached when the stored table covers the frame (C05_hourly_cluster_stage_ni) *)
| ZeroRule           (* electricity 0 -> NaN on the usage cell: Model/HourlyFlow.v zero_rec (C05_hourly_public_stage_ni) *)
| AbsentColumn       (* reporting data without a usage column gets an all-NaN one: `blank` frames of Model/HourlyFlow.v,
                        has_obs = false of Model/Rows.v, c_obs = None of the CalTRACK flow *)
| FillOwnColumn      (* interpolate(): every column is gap-filled from its own values: Model/HourlyFlow.v fill_w / fill_o *)
| KeptSet            (* daily _initialize_data: rows without a finite usage value are not predicted: Model/Rows.v complete
                        (C05_daily_prediction_is_curve) *)
| MeterColumn        (* CalTRACK _correct_frequency: the usage column is resampled on its own (c_obs), the frequency check
                        reads the index of the non-null usage readings (finding C05-K3, fixed) *)
| FeatureOp.         (* np.where on feature columns (edge bins): no usage involved *)

Definition predict_time_usage_input (s : stage) : bool :=
  match s with
  | ClusterRepair | ZeroRule | AbsentColumn | FillOwnColumn | KeptSet | MeterColumn => true
  | _ => false
  end.

(* (family, innermost function, role, at most this many occurrences, stage) *)
Definition site := (string * string * string * nat * stage)%type.

Definition declared_reads : list site :=
  [ (* hourly: model *)
    ("hourly", "HourlyModel._add_categorical_features.correct_missing_temporal_clusters", "load", 5, ClusterRepair);
    ("hourly", "HourlyModel._add_categorical_features.correct_missing_temporal_clusters", "test", 1, ClusterRepair);
    ("hourly", "HourlyModel._add_categorical_features.set_initial_temporal_clusters", "load", 2, FitOnly);
    ("hourly", "HourlyModel._add_temperature_bin_masked_ts.get_k", "load", 1, FitOnly);
    ("hourly", "HourlyModel._normalize_features", "load", 2, ObsNormUnused);
    ("hourly", "HourlyModel._normalize_features", "test", 1, ObsNormUnused);
    (* hourly: data class and gap filler *)
    ("hourly", "HourlyReportingData.__init__", "store", 1, AbsentColumn);
    ("hourly", "HourlyReportingData.__init__", "test", 1, AbsentColumn);
    ("hourly", "HourlyReportingData._check_data_sufficiency", "load", 2, Sufficiency);
    ("hourly", "_create_sufficiency_df", "store", 1, Sufficiency);
    ("hourly", "_HourlyData.__init__", "load", 1, ColumnList);
    ("hourly", "_HourlyData._interpolate", "load", 1, ColumnList);
    ("hourly", "_HourlyData._set_data", "load", 2, ZeroRule);
    ("hourly", "_HourlyData._set_data", "store", 1, ZeroRule);
    ("hourly", "_interpolate_col", "load", 1, FillOwnColumn);
    ("hourly", "interpolate", "load", 1, ColumnList);
    (* CalTRACK hourly *)
    ("caltrack", "HourlyModel.predict", "load", 3, UncertaintyColumn);
    ("caltrack", "HourlyReportingData.__init__", "load", 1, ZeroRule);
    ("caltrack", "HourlyReportingData.__init__", "store", 2, AbsentColumn);
    ("caltrack", "HourlyReportingData.__init__", "test", 1, AbsentColumn);
    ("caltrack", "HourlyReportingData._correct_frequency", "load", 1, MeterColumn);
    ("caltrack", "HourlyReportingData.from_series", "load", 2, AbsentColumn);
    (* daily / billing *)
    ("daily", "DailyModel._initialize_data", "load", 1, KeptSet);
    ("daily", "DailyModel._initialize_data", "test", 1, KeptSet);
    ("daily", "DailyModel._predict", "store", 1, MaskStatement);
    ("daily", "DailyModel._predict", "test", 1, MaskStatement);
    ("billing", "DailyModel._initialize_data", "load", 1, KeptSet);
    ("billing", "DailyModel._initialize_data", "test", 1, KeptSet);
    ("billing", "DailyModel._predict", "store", 1, MaskStatement);
    ("billing", "DailyModel._predict", "test", 1, MaskStatement);
    ("billing", "BillingModel.predict", "load", 1, AggregationColumn);
    ("billing", "BillingModel.predict", "test", 1, AggregationColumn) ].

Definition declared_frame_ops : list site :=
  [ ("hourly", "HourlyModel._add_categorical_features.correct_missing_temporal_clusters", "ffill", 2, ClusterRepair);
    ("hourly", "HourlyModel._add_categorical_features.correct_missing_temporal_clusters", "bfill", 2, ClusterRepair);
    ("hourly", "HourlyModel._add_temperature_bin_masked_ts", "where", 2, FeatureOp);
    ("hourly", "HourlyModel._daily_sufficiency", "isnull", 1, FitOnly);
    ("hourly", "_interpolate_col", "isna", 5, FillOwnColumn);
    ("hourly", "interpolate", "isna", 3, FillOwnColumn);
    ("hourly", "interpolate", "ffill", 1, FillOwnColumn);
    ("hourly", "interpolate", "bfill", 1, FillOwnColumn);
    ("hourly", "interpolate", "interpolate", 1, FillOwnColumn);
    ("caltrack", "HourlyReportingData._correct_frequency", "dropna", 1, MeterColumn);
    ("daily", "DailyModel._initialize_data", "dropna", 1, KeptSet);
    ("billing", "DailyModel._initialize_data", "dropna", 1, KeptSet) ].

Definition gsite := (string * string * string * nat)%type.

Definition matches (g : gsite) (d : site) : bool :=
  let '(f, fn, role, n) := g in
  let '(f', fn', role', bound, _) := d in
  String.eqb f f' && String.eqb fn fn' && String.eqb role role' && Nat.leb n bound.

Definition stage_of (decl : list site) (g : gsite) : option stage :=
  match find (matches g) decl with Some (_, _, _, _, s) => Some s | None => None end.

Definition accounted (decl : list site) (gen : list gsite) : bool :=
  forallb (fun g => match stage_of decl g with Some _ => true | None => false end) gen.

(* the sites NOT accounted for (diagnostics of a broken obligation) *)
Definition unaccounted (decl : list site) (gen : list gsite) : list gsite :=
  filter (fun g => match stage_of decl g with Some _ => false | None => true end) gen.

(* the stages through which usage reaches a modelled stage at predict time, per family: what the non-interference theorems
   of Properties/C05.v quantify over (everything else is not an input of the prediction) *)
Definition modelled_usage_stages (family : string) : list stage :=
  if String.eqb family "hourly" then [ClusterRepair; ZeroRule; AbsentColumn; FillOwnColumn]
  else if String.eqb family "caltrack" then [ZeroRule; AbsentColumn; MeterColumn]
  else [KeptSet].       (* daily, billing *)

Definition stage_eqb (a b : stage) : bool :=
  match a, b with
  | FitOnly, FitOnly | ObsNormUnused, ObsNormUnused | ColumnList, ColumnList | Sufficiency, Sufficiency
  | UncertaintyColumn, UncertaintyColumn | AggregationColumn, AggregationColumn | MaskStatement, MaskStatement
  | ClusterRepair, ClusterRepair | ZeroRule, ZeroRule | AbsentColumn, AbsentColumn | FillOwnColumn, FillOwnColumn
  | KeptSet, KeptSet | MeterColumn, MeterColumn | FeatureOp, FeatureOp => true
  | _, _ => false
  end.

(* every generated site whose stage lets usage in belongs to a stage the family's flow model has *)
Definition inputs_modelled (decl : list site) (gen : list gsite) : bool :=
  forallb (fun g => match stage_of decl g with
                    | Some s => negb (predict_time_usage_input s)
                                || existsb (stage_eqb s) (modelled_usage_stages (fst (fst (fst g))))
                    | None => false
                    end) gen.

(* sites used by the non-vacuity example of Properties/C05.v *)
Definition ex_cluster_load : gsite :=
  ("hourly", "HourlyModel._add_categorical_features.correct_missing_temporal_clusters", "load", 5).
Definition ex_normalize_one_more : gsite := ("hourly", "HourlyModel._normalize_features", "load", 3).   (* y-scaler refit *)
Definition ex_predict_read : gsite := ("hourly", "HourlyModel._predict", "load", 1).
Definition ex_set_data_dropna : gsite := ("hourly", "_HourlyData._set_data", "dropna", 1).               (* seeded C05-2 *)
Definition ex_set_data_mask : gsite := ("hourly", "_HourlyData._set_data", "mask", 1).                   (* seeded C05-4 *)
