(* C02 — the hourly model (opendsm/eemeter/models/hourly/model.py) as a state machine over the fields that
   `predict` touches:  _df_temporal_clusters  (the (month, day_of_week) -> cluster table learned by fit),
   _ts_features (the feature list the scaler and the coefficients were fitted for) and  warnings.
   `next_state` mirrors predict() -> _predict -> _prepare_features -> _add_categorical_features /
   _add_supplemental_features AS CODED; which of the three assignments the source contains is a configuration
   (`hcfg`), read from the source on every run by harness/translate_c02.py (Generated/C02Gen.v).
   `predict_out` is the pure specification: what the call computes from the state it was given.
   Executable definitions only; lemmas are in Proofs/HourlyStateProofs.v. *)
From Coq Require Import ZArith List Bool.
Import ListNotations.
Open Scope Z_scope.

Definition combo := (Z * Z)%type.                    (* (month 1..12, day_of_week 0..6) *)
Definition combo_eqb (a b : combo) : bool := (fst a =? fst b) && (snd a =? snd b).
Definition label := option Z.                        (* None = NaN *)
Definition table := list (combo * label).            (* the frame in index order *)

Definition label_eqb (a b : label) : bool :=
  match a, b with Some x, Some y => x =? y | None, None => true | _, _ => false end.

Fixpoint lookup (t : table) (c : combo) : option label :=      (* None: c is not in the index *)
  match t with
  | [] => None
  | (k, v) :: r => if combo_eqb k c then Some v else lookup r c
  end.

Definition get (t : table) (c : combo) : label :=
  match lookup t c with Some v => v | None => None end.

(* DataFrame.reindex(new_index): rows in the order of the new index, NaN where the label is unknown *)
Definition reindex (t : table) (cs : list combo) : table := map (fun c => (c, get t c)) cs.

Definition is_missing (e : combo * label) : bool := match snd e with None => true | Some _ => false end.
Definition has_missing (t : table) : bool := existsb is_missing t.
Definition has_known (t : table) : bool := existsb (fun e => negb (is_missing e)) t.

(* ---- branch "reporting data has observed usage": each missing combination gets the label of the known
        combination with the nearest mean daily profile.  The choice is numerical: an oracle [fill] *)
Definition fill_nearest (fill : combo -> Z) (t : table) : table :=
  map (fun e => if is_missing e then (fst e, Some (fill (fst e))) else e) t.

(* ---- branch "no observed usage": unstack (months x days), ffill/bfill along the days of a month, then
        ffill/bfill along the months, stack *)
Definition ALL_MONTHS : list Z := [1; 2; 3; 4; 5; 6; 7; 8; 9; 10; 11; 12].
Definition ALL_DOWS : list Z := [0; 1; 2; 3; 4; 5; 6].
Definition months_of (t : table) : list Z := filter (fun m => existsb (fun e => fst (fst e) =? m) t) ALL_MONTHS.
Definition dows_of (t : table) : list Z := filter (fun w => existsb (fun e => snd (fst e) =? w) t) ALL_DOWS.

Definition grid := list (list label).                (* one row per month, one cell per day of week *)
Definition unstack (t : table) : grid :=
  map (fun m => map (fun w => get t (m, w)) (dows_of t)) (months_of t).

Definition orelse (x p : label) : label := match x with Some _ => x | None => p end.

Fixpoint ffill_from (prev : label) (l : list label) : list label :=
  match l with
  | [] => []
  | x :: r => let y := orelse x prev in y :: ffill_from y r
  end.
Definition ffill (l : list label) : list label := ffill_from None l.
Definition bfill (l : list label) : list label := rev (ffill (rev l)).

Fixpoint zip_orelse (row prev : list label) : list label :=
  match row, prev with
  | x :: r, p :: q => orelse x p :: zip_orelse r q
  | _, _ => row
  end.
Fixpoint ffill_rows_from (prev : list label) (g : grid) : grid :=
  match g with
  | [] => []
  | row :: rest => let y := zip_orelse row prev in y :: ffill_rows_from y rest
  end.
Definition ffill_rows (g : grid) : grid := ffill_rows_from [] g.
Definition bfill_rows (g : grid) : grid := rev (ffill_rows (rev g)).

Definition fill_grid (g : grid) : grid := bfill_rows (ffill_rows (map bfill (map ffill g))).

Fixpoint stack_row (m : Z) (ws : list Z) (row : list label) : table :=
  match ws, row with
  | w :: ws', v :: row' => ((m, w), v) :: stack_row m ws' row'
  | _, _ => []
  end.
Fixpoint stack (ms ws : list Z) (g : grid) : table :=
  match ms, g with
  | m :: ms', row :: g' => stack_row m ws row ++ stack ms' ws g'
  | _, _ => []
  end.

Definition fill_unstacked (t : table) : table := stack (months_of t) (dows_of t) (fill_grid (unstack t)).

(* ---- what a prediction is given *)
Record dsum := {
  ds_id : Z;                  (* identity of the reporting data set (the numeric part only depends on it and on the labels) *)
  ds_combos : list combo;     (* distinct (month, day_of_week) of its rows, sorted *)
  ds_observed : bool;         (* an `observed` column that is not entirely null *)
  ds_columns : list Z;        (* time-series columns it offers (ids: 1 temperature, 2 ghi, >= 10 supplemental) *)
  ds_supp : list Z;           (* columns it has that the settings declare as supplemental time series *)
  ds_late_exc : bool          (* oracle: the numeric stage raises on this data set (e.g. DST day without observed, D11) *)
}.

Definition TEMPERATURE : Z := 1.
Definition GHI : Z := 2.
Definition MISMATCH_WARNING : Z := 77.

Definition mem (x : Z) (l : list Z) : bool := existsb (Z.eqb x) l.
Definition ds_ghi (d : dsum) : bool := mem GHI (ds_columns d).

Record hstate := {
  clusters : table;
  ts_features : list Z;
  warnings : list Z;
  hidden : Z                  (* whatever else of `self` the fitted-predict path writes (a cache, a counter, ...): not part of
                                 the document, not understood by this model — only THAT it is written is known *)
}.

(* which statements the source contains on the predict path *)
Record hcfg := {
  assigns_back : bool;        (* self._df_temporal_clusters = <table corrected for this data set> *)
  appends_warning : bool;     (* self.warnings.append(<reporting data has GHI, model has not>) *)
  extends_features : bool;    (* self._ts_features.append(<supplemental column first seen in reporting data>) *)
  writes_other_state : bool   (* any other in-place write into something reachable from `self` on the fitted-predict path
                                 (self.x[k] = v, self.x.update(...), self.x.loc[...] = v, inplace=True, ...) that is not on the
                                 translator's list of writes that cannot change an output *)
}.
Definition pure_cfg : hcfg :=
  {| assigns_back := false; appends_warning := false; extends_features := false; writes_other_state := false |}.
(* the code as it was found (before /repo 6b499d87 removed the first assignment) *)
Definition ascoded_cfg : hcfg :=
  {| assigns_back := true; appends_warning := true; extends_features := true; writes_other_state := false |}.

(* the table corrected for the combinations of this data set (correct_missing_temporal_clusters):
   None = the nearest-profile branch has nothing to compare with and raises *)
Definition corrected (fill : combo -> Z) (t : table) (d : dsum) : option table :=
  let r := reindex t (ds_combos d) in
  if negb (has_missing r) then Some r
  else if ds_observed d then (if has_known r then Some (fill_nearest fill r) else None)
  else Some (fill_unstacked r).

Definition missing_features (s : hstate) (d : dsum) : bool :=
  existsb (fun f => negb (mem f (ds_columns d))) (ts_features s).
Definition new_supp (s : hstate) (d : dsum) : list Z := filter (fun c => negb (mem c (ts_features s))) (ds_supp d).

Inductive hout :=
| HErr                                   (* the call raises *)
| HPred (ds : Z) (assign : table) (seen : Z).
    (* a prediction computed with this cluster label for every (month, day) of the data; `seen`: the unmodelled state the
       call could read (0 when the source writes none): the model cannot exclude that the result depends on it *)

Definition nonempty {A} (l : list A) : bool := match l with [] => false | _ => true end.

(* what the call returns: a function of the state it was given and of the data.  As coded a supplemental column
   first seen in the reporting data is appended to the feature list and the scaler (fitted without it) raises *)
Definition predict_out (cfg : hcfg) (fill : combo -> Z) (s : hstate) (d : dsum) : hout :=
  if missing_features s d then HErr
  else match corrected fill (clusters s) d with
       | None => HErr
       | Some t =>
           if extends_features cfg && nonempty (new_supp s d) then HErr
           else if ds_late_exc d then HErr
           else HPred (ds_id d) (reindex t (ds_combos d)) (if writes_other_state cfg then hidden s else 0)
       end.

(* the specification: the prediction of the stored model for the data, computed without touching the model *)
Definition spec_predict (fill : combo -> Z) (s : hstate) (d : dsum) : hout := predict_out pure_cfg fill s d.

(* the state the call leaves behind, as coded *)
Definition next_state (cfg : hcfg) (fill : combo -> Z) (s : hstate) (d : dsum) : hstate :=
  if missing_features s d then s
  else
    let w := if appends_warning cfg && ds_ghi d && negb (mem GHI (ts_features s))
             then warnings s ++ [MISMATCH_WARNING] else warnings s in
    let h := if writes_other_state cfg then hidden s + 1 else hidden s in
    match corrected fill (clusters s) d with
    | None => {| clusters := clusters s; ts_features := ts_features s; warnings := w; hidden := h |}
    | Some t =>
        {| clusters := if assigns_back cfg then t else clusters s;
           ts_features := if extends_features cfg then ts_features s ++ new_supp s d else ts_features s;
           warnings := w; hidden := h |}
    end.

Definition predict_step (cfg : hcfg) (fill : combo -> Z) (s : hstate) (d : dsum) : hstate * hout :=
  (next_state cfg fill s d, predict_out cfg fill s d).

(* operations of a history on one model object; the label oracle is consulted per call *)
Inductive hop :=
| HPredict (d : dsum) (fill : combo -> Z)
| HToJson                               (* to_json / to_dict *)
| HReload                               (* from_json (to_json m): the three fields are stored and restored as they are *)
| HOther.                               (* anything done with other objects: fits of other meters, data classes *)

Definition hstep (cfg : hcfg) (s : hstate) (o : hop) : hstate :=
  match o with
  | HPredict d fill => next_state cfg fill s d
  | _ => s
  end.

Definition hrun (cfg : hcfg) (s : hstate) (ops : list hop) : hstate := fold_left (hstep cfg) ops s.

(* the serialised form as far as these fields go *)
Definition abs (s : hstate) : table * list Z * list Z * Z := (clusters s, ts_features s, warnings s, hidden s).
