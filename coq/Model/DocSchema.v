(* Settings trees of the daily / billing models and their re-validation on reload (C01; DESIGN 5, C01).

   `DailyModel.from_dict` calls `cls(settings=doc["settings"])`, i.e. the pydantic constructor of
   DailySettings (DailyModel) or DailyLegacySettings (BillingModel) validates the stored tree again:
   opendsm/eemeter/models/daily/utilities/settings.py, opendsm/common/base_settings.py.
   What is modelled, at the level the round trip needs:
     - one schema per settings class: field name, `json_schema_extra["developer"]`, default, type
       (with the numeric bounds) -- generated from the classes by harness/translate_c01.py into
       Generated/C01Gen.v on every run;
     - a missing key takes the default, an unknown key is ignored (pydantic `extra="ignore"`);
     - type / bound check of every value;
     - the developer-mode lock `_check_developer_mode`: without `developer_mode`, every leaf marked
       developer must be equal (Python ==) to its default; nested settings objects are always entered;
     - `Season_Definition` / `Weekday_Weekend_Definition`: every value is one of `options`, and `options` only
       holds the names the split components know (summer/shoulder/winter, weekday/weekend).
     - the four cross-field validators (_check_alpha_final, _check_final_bounds_scalar,
       _check_initial_step_percentage, _check_reduce_splits_num_std): [cross_ok].
   Not modelled: key / value lower-casing (documents written by to_dict are already normalised).
   Executable definitions only. *)
From Coq Require Import ZArith List Bool String Ascii PrimFloat.
From V Require Import Model.Json.
Import ListNotations.
Open Scope string_scope.

Record fbounds := { b_ge : option float; b_gt : option float; b_le : option float; b_lt : option float }.
Definition no_bounds : fbounds := {| b_ge := None; b_gt := None; b_le := None; b_lt := None |}.

Inductive skind :=
| KBool
| KInt (ge le : option Z)
| KFloat (b : fbounds)
| KStr
| KEnum (vals : list string)
| KFloatOrLit (lit : string)          (* Union[float, Literal[lit]] *)
| KOpt (k : skind)                    (* Optional[k] *)
| KList (k : skind).                  (* list[k] *)

Inductive sfield :=
| SLeaf (name : string) (developer : bool) (default : json) (kind : skind)
| SNest (name : string) (sub : list sfield).

Definition schema := list sfield.

Definition opt_test {A} (o : option A) (f : A -> bool) : bool := match o with Some a => f a | None => true end.

Definition in_bounds (b : fbounds) (x : float) : bool :=
  opt_test (b_ge b) (fun l => PrimFloat.leb l x) && opt_test (b_gt b) (fun l => PrimFloat.ltb l x) &&
  opt_test (b_le b) (fun h => PrimFloat.leb x h) && opt_test (b_lt b) (fun h => PrimFloat.ltb x h).

Fixpoint kind_ok (k : skind) (v : json) : bool :=
  match k, v with
  | KBool, JBool _ => true
  | KInt ge le, JInt z => opt_test ge (fun l => (l <=? z)%Z) && opt_test le (fun h => (z <=? h)%Z)
  | KFloat b, JNum f => in_bounds b f
  | KFloat b, JInt z => in_bounds b (float_of_Z z)
  | KStr, JStr _ => true
  | KEnum vals, JStr s => existsb (String.eqb s) vals
  | KFloatOrLit _, JNum _ => true
  | KFloatOrLit _, JInt _ => true
  | KFloatOrLit lit, JStr s => String.eqb s lit
  | KOpt _, JNull => true
  | KOpt k', _ => kind_ok k' v
  | KList k', JArr l => forallb (kind_ok k') l
  | _, _ => false
  end.

(* one field against the object that holds it; [dev] = developer_mode of the whole settings tree *)
Fixpoint accepts_field (dev : bool) (f : sfield) (obj : list (string * json)) : bool :=
  match f with
  | SLeaf name developer default kind =>
      let v := match get name obj with Some v => v | None => default end in
      kind_ok kind v && (dev || negb developer || json_veqb v default)
  | SNest name sub =>
      let inner (o : list (string * json)) :=
        (fix go (l : list sfield) : bool :=
           match l with [] => true | g :: r => accepts_field dev g o && go r end) sub in
      match get name obj with
      | Some (JObj o) => inner o
      | None => inner []
      | Some _ => false
      end
  end.

Definition accepts_fields (dev : bool) (sch : schema) (obj : list (string * json)) : bool :=
  forallb (fun f => accepts_field dev f obj) sch.

(* Season_Definition.set_numeric_dict / Weekday_Weekend_Definition.set_numeric_dict *)
Definition member_of_options (names : list string) (dflt_options : list string) (o : list (string * json)) : bool :=
  let options := match get "options" o with
                 | Some (JArr l) => map (fun j => match j with JStr s => s | _ => "" end) l
                 | _ => dflt_options
                 end in
  (* the option names are hard-wired in the split components: any other name is rejected *)
  forallb (fun x => existsb (String.eqb x) dflt_options) options &&
  forallb (fun n => match get n o with
                    | Some (JStr s) => existsb (String.eqb s) options
                    | Some _ => false
                    | None => true            (* default value: a member of the default options *)
                    end) names.

Definition months : list string :=
  ["january"; "february"; "march"; "april"; "may"; "june"; "july"; "august"; "september"; "october";
   "november"; "december"].
Definition weekdays : list string := ["monday"; "tuesday"; "wednesday"; "thursday"; "friday"; "saturday"; "sunday"].

Definition sub_obj (k : string) (obj : list (string * json)) : list (string * json) :=
  match get k obj with Some (JObj o) => o | _ => [] end.

Definition dev_mode (obj : list (string * json)) : bool :=
  match get "developer_mode" obj with Some (JBool b) => b | _ => false end.

(* ---- the cross-field validators of DailySettings / Split_Selection_Definition, on the validated values (a missing
   key reads its class default):
     _check_alpha_final               alpha_final None needs alpha_final_type None; a float must lie in [alpha_minimum, 2];
                                      a string must be "adaptive"
     _check_final_bounds_scalar       a value must be > 0 and needs alpha_final_type; None needs alpha_final_type None
     _check_initial_step_percentage   a value must lie in (0, 0.5]; None is refused for an nlopt algorithm (and
                                      `algorithm_choice[:5]` raises TypeError when the algorithm is None as well)
     _check_reduce_splits_num_std     a list must have two entries, both > 0
   Comparisons are IEEE (a NaN is never refused by `<=` / `>`), as in Python. *)
Fixpoint leaf_default_of (name : string) (sch : schema) : option json :=
  match sch with
  | [] => None
  | SLeaf n _ d _ :: rest => if String.eqb n name then Some d else leaf_default_of name rest
  | SNest _ _ :: rest => leaf_default_of name rest
  end.
Fixpoint nest_schema_of (name : string) (sch : schema) : schema :=
  match sch with
  | [] => []
  | SNest n sub :: rest => if String.eqb n name then sub else nest_schema_of name rest
  | SLeaf _ _ _ _ :: rest => nest_schema_of name rest
  end.

Definition fieldv (sch : schema) (obj : list (string * json)) (name : string) : json :=
  match get name obj with
  | Some v => v
  | None => match leaf_default_of name sch with Some d => d | None => JNull end
  end.

Definition is_null (j : json) : bool := match j with JNull => true | _ => false end.

Fixpoint starts_with (p s : string) : bool :=
  match p, s with
  | EmptyString, _ => true
  | String a p', String b s' => Ascii.eqb a b && starts_with p' s'
  | _, _ => false
  end.

Definition positive (j : json) : bool :=
  match num_of j with Some f => negb (PrimFloat.leb f 0%float) | None => false end.

Definition cross_ok (sch : schema) (obj : list (string * json)) : bool :=
  let v := fieldv sch obj in
  let aft := v "alpha_final_type" in
  (match v "alpha_final" with
   | JNull => is_null aft
   | JStr s => String.eqb s "adaptive"
   | af => match num_of af, num_of (v "alpha_minimum") with
           | Some a, Some m => negb (PrimFloat.ltb a m) && negb (PrimFloat.ltb 2%float a)
           | _, _ => false
           end
   end) &&
  (match v "final_bounds_scalar" with
   | JNull => is_null aft
   | fbs => positive fbs && negb (is_null aft)
   end) &&
  (match v "initial_step_percentage" with
   | JNull => match v "algorithm_choice" with JStr s => negb (starts_with "nlopt" s) | _ => false end
   | isp => match num_of isp with
            | Some f => negb (PrimFloat.leb f 0%float) && negb (PrimFloat.ltb 0.5%float f)
            | None => false
            end
   end) &&
  (match fieldv (nest_schema_of "split_selection" sch) (sub_obj "split_selection" obj) "reduce_splits_num_std" with
   | JNull => true
   | JArr [a; b] => positive a && positive b
   | _ => false
   end).

(* the constructor of a settings class on a stored tree: True = accepted *)
Definition accepts (sch : schema) (settings : json) : bool :=
  match settings with
  | JObj obj =>
      accepts_fields (dev_mode obj) sch obj &&
      member_of_options months ["summer"; "shoulder"; "winter"] (sub_obj "season" obj) &&
      member_of_options weekdays ["weekday"; "weekend"] (sub_obj "weekday_weekend" obj) &&
      cross_ok sch obj
  | _ => false
  end.

(* what the prediction path reads from the validated settings: month -> season, day -> weekday/weekend
   (`settings.season._num_dict`, `settings.weekday_weekend._num_dict`); a missing key reads the default *)
Fixpoint leaf_default (name : string) (sch : schema) : option json :=
  match sch with
  | [] => None
  | SLeaf n _ d _ :: rest => if String.eqb n name then Some d else leaf_default name rest
  | SNest _ _ :: rest => leaf_default name rest
  end.
Fixpoint nest_schema (name : string) (sch : schema) : schema :=
  match sch with
  | [] => []
  | SNest n sub :: rest => if String.eqb n name then sub else nest_schema name rest
  | SLeaf _ _ _ _ :: rest => nest_schema name rest
  end.

Definition read_map (sch : schema) (group : string) (names : list string) (settings : json) : list (option json) :=
  let o := match settings with JObj obj => sub_obj group obj | _ => [] end in
  map (fun n => match get n o with Some v => Some v | None => leaf_default n (nest_schema group sch) end) names.

Definition season_map (sch : schema) (settings : json) : list (option json) := read_map sch "season" months settings.
Definition weekday_map (sch : schema) (settings : json) : list (option json) := read_map sch "weekday_weekend" weekdays settings.

(* BillingModel.to_dict: model_dict["settings"]["developer_mode"] = True *)
Definition force_dev (settings : json) : json :=
  match settings with JObj obj => JObj (set "developer_mode" (JBool true) obj) | j => j end.

(* two schemas with the same fields and types (they may differ in defaults and developer marks) *)
Fixpoint kind_eqb (a b : skind) : bool :=
  match a, b with
  | KBool, KBool => true
  | KInt g1 l1, KInt g2 l2 =>
      match g1, g2 with Some x, Some y => (x =? y)%Z | None, None => true | _, _ => false end &&
      match l1, l2 with Some x, Some y => (x =? y)%Z | None, None => true | _, _ => false end
  | KFloat b1, KFloat b2 =>
      let oe (x y : option float) := match x, y with Some p, Some q => fbits_eqb p q | None, None => true | _, _ => false end in
      oe (b_ge b1) (b_ge b2) && oe (b_gt b1) (b_gt b2) && oe (b_le b1) (b_le b2) && oe (b_lt b1) (b_lt b2)
  | KStr, KStr => true
  | KEnum v1, KEnum v2 =>
      (fix go (a b : list string) := match a, b with [] , [] => true | x :: r, y :: s => String.eqb x y && go r s | _, _ => false end) v1 v2
  | KFloatOrLit x, KFloatOrLit y => String.eqb x y
  | KOpt x, KOpt y => kind_eqb x y
  | KList x, KList y => kind_eqb x y
  | _, _ => false
  end.

Fixpoint same_shape_field (a b : sfield) : bool :=
  match a, b with
  | SLeaf n1 _ _ k1, SLeaf n2 _ _ k2 => String.eqb n1 n2 && kind_eqb k1 k2
  | SNest n1 s1, SNest n2 s2 =>
      String.eqb n1 n2 &&
      (fix go (l1 : list sfield) (l2 : list sfield) : bool :=
         match l1, l2 with
         | [], [] => true
         | x :: r1, y :: r2 => same_shape_field x y && go r1 r2
         | _, _ => false
         end) s1 s2
  | _, _ => false
  end.
Fixpoint same_shape (a b : schema) : bool :=
  match a, b with
  | [], [] => true
  | x :: r1, y :: r2 => same_shape_field x y && same_shape r1 r2
  | _, _ => false
  end.

(* every default is of its field's type (so a missing key never fails the type check) *)
Fixpoint defaults_ok_field (f : sfield) : bool :=
  match f with
  | SLeaf _ _ d k => kind_ok k d
  | SNest _ sub => (fix go (l : list sfield) : bool := match l with [] => true | g :: r => defaults_ok_field g && go r end) sub
  end.
Definition defaults_ok (sch : schema) : bool := forallb defaults_ok_field sch.
