(* Comparison operators as data: the vocabulary of the tables harness/translate_resample.py extracts from the source
   (coq/Generated/ResampleGen.v, TempAggGen.v).  holds (op, c) x  means  x <op> c. *)
From Coq Require Import ZArith QArith Bool.
Open Scope Z_scope.

Inductive cop := CGt | CGe | CLt | CLe | CEq.

Definition cmpq (t : cop * Q) (x : Q) : bool :=
  match fst t with
  | CGt => negb (Qle_bool x (snd t))
  | CGe => Qle_bool (snd t) x
  | CLt => negb (Qle_bool (snd t) x)
  | CLe => Qle_bool x (snd t)
  | CEq => Qeq_bool x (snd t)
  end.

Definition cmpz (t : cop * Z) (x : Z) : bool :=
  match fst t with
  | CGt => snd t <? x
  | CGe => snd t <=? x
  | CLt => x <? snd t
  | CLe => x <=? snd t
  | CEq => x =? snd t
  end.
