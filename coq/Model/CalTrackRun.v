(* Executable comparisons used by the C18 correspondence (harness/c18.py). *)
From Coq Require Import ZArith QArith List Bool String PrimFloat.
From V Require Import Model.CasesLib Generated.CalTrackTables Model.CalTrack.
Import ListNotations.

Definition feqb (a b : float) : bool := PrimFloat.eqb a b.      (* -0 = +0; NaN is carried as None *)

(* segment_time_series: one observed row (column name -> weight) of an hour whose local month is m *)
Definition same_row (model observed : list (string * Q)) : bool :=
  Nat.eqb (List.length model) (List.length observed) &&
  forallb (fun nw => match assoc (fst nw) model with
                     | Some w => Qeq_bool w (snd nw)
                     | None => false
                     end) observed.
Definition check_weights (c : string * Z * list (string * Q)) : bool :=
  let '(type, m, observed) := c in
  match segment_weights type m with
  | Some row => same_row row observed
  | None => false
  end.

(* compute_temperature_bin_features on binary64: endpoints, then (temperature, observed bins) rows *)
Definition check_bins_float (c : list float * list (option float * list (option float))) : bool :=
  let '(e, rows) := c in
  forallb (fun r => list_eqb (opt_eqb feqb) (bin_features_opt FOps (fst r) e) (snd r)) rows.
(* the same on inputs for which binary64 arithmetic is exact, against the rational instance the theorems are about *)
Definition check_bins_q (c : list Q * list (option Q * list (option Q))) : bool :=
  let '(e, rows) := c in
  forallb (fun r => list_eqb (opt_eqb Qeq_bool) (bin_features_opt QOps (fst r) e) (snd r)) rows.

(* compute_time_features: (day of week, hour, observed hour_of_week) *)
Definition check_how (c : list (Z * Z * Z)) : bool :=
  forallb (fun r => let '(d, h, k) := r in Z.eqb (hour_of_week d h) k) c.

(* feature processors: occupied / unoccupied endpoints, then (other columns present, occupancy, temperature, occupied bins, unoccupied bins) *)
Definition check_occupancy
  (c : list float * list float * list (bool * option bool * option float * list (option float) * list (option float))) : bool :=
  let '(eo, eu, rows) := c in
  forallb (fun r => let '(others, occ, T, o, u) := r in
                    let ou := feature_row FOps others occ T eo eu in
                    list_eqb (opt_eqb feqb) (fst ou) o && list_eqb (opt_eqb feqb) (snd ou) u) rows.

(* SegmentedModel.predict: the fitted segment model an hour of month m was predicted by (None = no prediction) *)
Definition check_prediction (c : string * Z * option string) : bool :=
  let '(fit_type, m, observed) := c in
  opt_eqb String.eqb (prediction_segment fit_type m) observed.
