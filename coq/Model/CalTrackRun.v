(* Executable comparisons used by the C18 correspondence (harness/c18.py). *)
From Coq Require Import ZArith QArith List Bool String PrimFloat.
From V Require Import Model.CasesLib Generated.CalTrackTables Model.CalTrack.
Import ListNotations.

Definition feqb (a b : float) : bool := PrimFloat.eqb a b.      (* -0 = +0; NaN is carried as None *)

(* segment_time_series: one observed row (column name -> weight) of an hour whose local month is m *)
Definition same_row (model observed : list (string * Q)) : bool :=
  Nat.eqb (List.length model) (List.length observed) &&
  forallb (fun nw => match assoc (fst nw) model with
                     | Some w => Qeq_bool w (snd nw)
                     | None => false
                     end) observed.
Definition check_weights (c : string * Z * list (string * Q)) : bool :=
  let '(type, m, observed) := c in
  match segment_weights type m with
  | Some row => same_row row observed
  | None => false
  end.

(* compute_temperature_bin_features on binary64: endpoints, then (temperature, observed bins) rows *)
Definition check_bins_float (c : list float * list (option float * list (option float))) : bool :=
  let '(e, rows) := c in
  forallb (fun r => list_eqb (opt_eqb feqb) (bin_features_opt FOps (fst r) e) (snd r)) rows.
(* the same on inputs for which binary64 arithmetic is exact, against the rational instance the theorems are about *)
Definition check_bins_q (c : list Q * list (option Q * list (option Q))) : bool :=
  let '(e, rows) := c in
  forallb (fun r => list_eqb (opt_eqb Qeq_bool) (bin_features_opt QOps (fst r) e) (snd r)) rows.

(* compute_time_features: (day of week, hour, observed hour_of_week) *)
Definition check_how (c : list (Z * Z * Z)) : bool :=
  forallb (fun r => let '(d, h, k) := r in Z.eqb (hour_of_week d h) k) c.

(* feature processors: occupied / unoccupied keep-flags over the candidate endpoints (the boolean frames handed to the
   processors), then (other columns present, occupancy, temperature, occupied bins, unoccupied bins) *)
Definition check_occupancy
  (c : list bool * list bool * list (bool * option bool * option float * list (option float) * list (option float))) : bool :=
  let '(fo, fu, rows) := c in
  let eo := endpoints_of_flags_f fo in
  let eu := endpoints_of_flags_f fu in
  forallb (fun r => let '(others, occ, T, o, u) := r in
                    let ou := feature_row FOps others occ T eo eu in
                    list_eqb (opt_eqb feqb) (fst ou) o && list_eqb (opt_eqb feqb) (snd ou) u) rows.

(* SegmentedModel.predict: the fitted segment model an hour of month m was predicted by (None = no prediction) *)
Definition check_prediction (c : string * Z * option string) : bool :=
  let '(fit_type, m, observed) := c in
  opt_eqb String.eqb (prediction_segment fit_type m) observed.

(* the same when the index covers only the local months `present` and the model holds only the segment models `fitted` *)
Definition check_prediction_on (c : list Z * list string * string * Z * option string) : bool :=
  let '(present, fitted, fit_type, m, observed) := c in
  opt_eqb String.eqb (prediction_segment_on present fitted fit_type m) observed.

(* HourlyModel.fit: the fitted segment whose (n, n') are filed under calendar month m in _autocorr_unc_vars *)
Definition check_unc (c : list string * Z * option string) : bool :=
  let '(names, m, observed) := c in
  opt_eqb String.eqb (unc_segment names m) observed.

(* segment_time_series(index, type, drop_zero_weight_segments) on an index that covers the local months `present`:
   the observed row (columns that were returned) of an hour of month m *)
Definition check_weights_on (c : string * bool * list Z * Z * list (string * Q)) : bool :=
  let '(type, drop, present, m, observed) := c in
  match segment_weights_on type drop present m with
  | Some row => same_row row observed
  | None => false
  end.

(* one case type for all streams, so that a run evaluates every comparison in a single batch of coqc processes *)
Inductive c18case : Type :=
| CWeights (c : string * Z * list (string * Q))
| CBinsF (c : list float * list (option float * list (option float)))
| CBinsQ (c : list Q * list (option Q * list (option Q)))
| CHow (c : list (Z * Z * Z))
| COccupancy (c : list bool * list bool * list (bool * option bool * option float * list (option float) * list (option float)))
| CPrediction (c : string * Z * option string)
| CPredictionOn (c : list Z * list string * string * Z * option string)
| CUnc (c : list string * Z * option string)
| CWeightsOn (c : string * bool * list Z * Z * list (string * Q)).

Definition check_any (c : c18case) : bool :=
  match c with
  | CWeights x => check_weights x
  | CBinsF x => check_bins_float x
  | CBinsQ x => check_bins_q x
  | CHow x => check_how x
  | COccupancy x => check_occupancy x
  | CPrediction x => check_prediction x
  | CPredictionOn x => check_prediction_on x
  | CUnc x => check_unc x
  | CWeightsOn x => check_weights_on x
  end.
