(* Executable comparison used by the C19 correspondence (harness/c19.py).
   One case = (obs_mode, has_obs, argument, rows of the un-aggregated frame, what the implementation did). *)
From Coq Require Import ZArith QArith Qabs List Bool String.
From V Require Import Model.CasesLib Model.BillingAgg.
Import ListNotations.

(* what the implementation returned for one aggregated row:
   x_label_month  12*year + month-1 of the label's local date ; x_label_day  local civil day number of the label ;
   numeric cells as the code returned them (None = NaN or, for x_obs, column absent) ; x_unc is the returned
   root (not squared) *)
Record xrow := mkxrow {
  x_label_month : Z; x_label_day : Z;
  x_temp : cell; x_obs : cell; x_pred : cell; x_unc : cell; x_heat : cell; x_cool : cell;
  x_season : option Z; x_split : option Z; x_mtype : option Z }.

Inductive expected :=
  | ExpDaily (same_frame : bool)        (* returned a frame; same_frame = it equals the aggregation=None frame *)
  | ExpAgg (rows : list xrow)
  | ExpErr (e : err).

Definition Qmax3 (a b c : Q) : Q :=
  let m := if Qle_bool a b then b else a in if Qle_bool m c then c else m.
Definition close (a b : Q) : bool :=
  Qle_bool (Qabs (a - b)) ((1 # 1000000000) * Qmax3 1 (Qabs a) (Qabs b)).
Definition close_cell (model : Q) (impl : cell) : bool :=
  match impl with Some v => close model v | None => false end.
Definition cell_close (a b : cell) : bool :=
  match a, b with
  | Some x, Some y => close x y
  | None, None => true
  | _, _ => false
  end.

Definition err_eqb (a b : err) : bool :=
  match a, b with
  | ValueErr, ValueErr | AttributeErr, AttributeErr | KeyErr, KeyErr => true
  | _, _ => false
  end.

Definition row_agrees (has_obs : bool) (a : arow) (x : xrow) : bool :=
  Z.eqb (a_label a) (x_label_month x)
  && Z.eqb (month_start_day (a_label a)) (x_label_day x)
  && cell_close (a_temp a) (x_temp x)
  && (if has_obs then close_cell (a_obs a) (x_obs x) else match x_obs x with None => true | Some _ => false end)
  && close_cell (a_pred a) (x_pred x)
  && (match x_unc x with Some u => Qle_bool 0 u && close (a_uncsq a) (u * u) | None => false end)
  && close_cell (a_heat a) (x_heat x)
  && close_cell (a_cool a) (x_cool x)
  && opt_eqb Z.eqb (a_season a) (x_season x)
  && opt_eqb Z.eqb (a_split a) (x_split x)
  && opt_eqb Z.eqb (a_mtype a) (x_mtype x).

Fixpoint rows_agree (has_obs : bool) (l : list arow) (xs : list xrow) : bool :=
  match l, xs with
  | [], [] => true
  | a :: l', x :: xs' => row_agrees has_obs a x && rows_agree has_obs l' xs'
  | _, _ => false
  end.

(* which treatments of a missing observed column satisfy the full C19 statement — Properties/C19.v proves
   C19_statement mode <-> obs_mode_satisfies_statement mode = true; the harness evaluates it for the mode it detected *)
Definition obs_mode_satisfies_statement (m : obs_mode) : bool :=
  match m with ObsOptional => true | ObsRequired => false end.

Definition mode_of (n : Z) : obs_mode := if Z.eqb n 0 then ObsRequired else ObsOptional.

Definition case := (Z * bool * agg_arg * list drow * expected)%type.

Definition check_agg (c : case) : bool :=
  let '(mode, has_obs, a, rows, e) := c in
  match predict_agg (mode_of mode) has_obs a rows, e with
  | Daily _, ExpDaily same => same
  | Aggregated _ out, ExpAgg xs => rows_agree has_obs out xs
  | Rejected e1, ExpErr e2 => err_eqb e1 e2
  | _, _ => false
  end.

(* diagnostics for a disagreement *)
Definition show_agg (c : case) :=
  let '(mode, has_obs, a, rows, e) := c in
  match predict_agg (mode_of mode) has_obs a rows with
  | Aggregated k out =>
      (k, map (fun o => (a_label o, month_start_day (a_label o), a_temp o, a_obs o, a_pred o, a_uncsq o)) out,
       match e with ExpAgg xs => (List.length out, List.length xs,
                                  map (fun p => row_agrees has_obs (fst p) (snd p)) (combine out xs)) | _ => (0%nat, 0%nat, []) end)
  | Daily _ => (0%Z, [], (0%nat, 0%nat, []))
  | Rejected _ => ((-1)%Z, [], (0%nat, 0%nat, []))
  end.

(* one data set: the un-aggregated frame once, then every (argument, what the implementation did) *)
Definition dataset := (Z * bool * list drow * list (agg_arg * expected))%type.
Definition check_dataset (c : dataset) : bool :=
  let '(mode, has_obs, rows, runs) := c in
  forallb (fun p => check_agg (mode, has_obs, fst p, rows, snd p)) runs.
Definition show_dataset (c : dataset) :=
  let '(mode, has_obs, rows, runs) := c in
  map (fun p => let cc := (mode, has_obs, fst p, rows, snd p) in
                if check_agg cc then (fst p, true, None) else (fst p, false, Some (show_agg cc))) runs.

(* calendar validation stream: (day number, year, month, day) as Python's datetime says *)
Definition check_calendar (c : Z * Z * Z * Z) : bool :=
  let '(d, y, m, dd) := c in
  let '(y', m', d') := civil_from_days d in
  Z.eqb y y' && Z.eqb m m' && Z.eqb dd d' && Z.eqb (days_from_civil y m dd) d
  && Z.eqb (month_index d) (12 * y + (m - 1)) && Z.eqb (month_start_day (12 * y + (m - 1))) (d - (dd - 1)).

(* monomorphic constructors for the generated cases files *)
Definition qs (q : Q) : cell := Some q.
Definition qn : cell := None.
