(* C14 — a small statement language for the bodies of the pydantic model validators (mode="after"), and its
   interpreter over settled fields.  harness/translate_settings.py compiles the SOURCE of the daily-family validators
   (python `ast`) into programs of this language on every run (Generated/SettingsGen.v); Properties/C14.v proves that
   each regenerated program computes, for every field state, exactly the hand-written specification of
   Model/Settings.v (v_devmode, v_alpha_final, v_final_bounds, v_init_step, v_reduce_std) that the theorems and the
   correspondence use.  Executable definitions only. *)
From Coq Require Import ZArith QArith List Bool String.
From V Require Import Model.Settings.
Import ListNotations.
Open Scope string_scope.

Inductive vterm :=
| TField (n : string)                   (* self.<n> *)
| TNum (q : Q) | TStr (s : string) | TNone
| TIndex (t : vterm) (i : nat)          (* t[i] *)
| TPrefix (t : vterm) (n : nat).        (* t[:n] *)

Inductive vcond :=
| CIsNone (t : vterm)                   (* t is None / t == None *)
| CIsFloat (t : vterm)                  (* isinstance(t, float) *)
| CIsStr (t : vterm)                    (* isinstance(t, str) *)
| CLe (a b : vterm) | CLt (a b : vterm) (* a <= b, a < b   (a > b is CLt b a) *)
| CEq (a b : vterm)
| CLenEq (t : vterm) (n : nat)          (* len(t) == n *)
| CTruthy (t : vterm)                   (* if t:  python truthiness *)
| CInStrs (t : vterm) (l : list string) (* t in [<str literals>] *)
| COr (a b : vcond) | CAnd (a b : vcond) | CNot (a : vcond).

Inductive vstmt :=
| SRaise                                (* raise ValueError(...) *)
| SReturn                               (* return self *)
| SLock                                 (* _check_developer_mode(self) : the recursive walk *)
| SIf (c : vcond) (a b : list vstmt).

Fixpoint eval_term (f : list (string * sval)) (t : vterm) : result jv :=
  match t with
  | TField n => match get_leaf n f with Some v => Accept v | None => Reject RCrash end
  | TNum q => Accept (JNum q)
  | TStr s => Accept (JStr s)
  | TNone => Accept JNull
  | TIndex t i => match eval_term f t with
                  | Accept (JList l) => match nth_error l i with Some v => Accept v | None => Reject RCrash end
                  | Accept _ => Reject RCrash
                  | Reject r => Reject r
                  end
  | TPrefix t n => match eval_term f t with
                   | Accept (JStr s) => Accept (JStr (substring 0 n s))
                   | Accept _ => Reject RType                   (* None[:5] : TypeError *)
                   | Reject r => Reject r
                   end
  end.

Definition num_cmp (cmp : Q -> Q -> bool) (a b : result jv) : result bool :=
  match a, b with
  | Accept (JNum x), Accept (JNum y) => Accept (cmp x y)
  | Reject r, _ => Reject r
  | _, Reject r => Reject r
  | _, _ => Reject RCrash                 (* not reachable on validated fields: comparison of a non-number *)
  end.

Fixpoint eval_cond (f : list (string * sval)) (c : vcond) : result bool :=
  match c with
  | CIsNone t => match eval_term f t with Accept v => Accept (is_null v) | Reject r => Reject r end
  | CIsFloat t => match eval_term f t with Accept (JNum _) => Accept true | Accept _ => Accept false | Reject r => Reject r end
  | CIsStr t => match eval_term f t with Accept (JStr _) => Accept true | Accept _ => Accept false | Reject r => Reject r end
  | CLe a b => num_cmp Qle_bool (eval_term f a) (eval_term f b)
  | CLt a b => num_cmp Qlt_b (eval_term f a) (eval_term f b)
  | CEq a b => match eval_term f a, eval_term f b with
               | Accept x, Accept y => Accept (jv_eqb x y)
               | Reject r, _ => Reject r
               | _, Reject r => Reject r
               end
  | CLenEq t n => match eval_term f t with
                  | Accept (JList l) => Accept (Nat.eqb (List.length l) n)
                  | Accept _ => Reject RCrash
                  | Reject r => Reject r
                  end
  | CTruthy t => match eval_term f t with Accept v => Accept (truthy v) | Reject r => Reject r end
  | CInStrs t l => match eval_term f t with
                   | Accept (JStr s) => Accept (mem s l)
                   | Accept _ => Accept false
                   | Reject r => Reject r
                   end
  | COr a b => match eval_cond f a with
               | Accept true => Accept true
               | Accept false => eval_cond f b
               | Reject r => Reject r
               end
  | CAnd a b => match eval_cond f a with
                | Accept false => Accept false
                | Accept true => eval_cond f b
                | Reject r => Reject r
                end
  | CNot a => match eval_cond f a with Accept b => Accept (negb b) | Reject r => Reject r end
  end.

Inductive flow := FNext | FStop (r : option reason).

Fixpoint eval_stmt (gov : list stree) (f : list (string * sval)) (s : vstmt) {struct s} : flow :=
  match s with
  | SRaise => FStop (Some RCross)
  | SReturn => FStop None
  | SLock => if check_dev gov f then FNext else FStop (Some RDeveloper)
  | SIf c a b =>
      let blk := fix blk (l : list vstmt) : flow :=
                   match l with
                   | [] => FNext
                   | s' :: r => match eval_stmt gov f s' with FNext => blk r | st => st end
                   end in
      match eval_cond f c with
      | Reject r => FStop (Some r)
      | Accept true => blk a
      | Accept false => blk b
      end
  end.
Fixpoint eval_block (gov : list stree) (f : list (string * sval)) (l : list vstmt) : flow :=
  match l with
  | [] => FNext
  | s :: r => match eval_stmt gov f s with FNext => eval_block gov f r | st => st end
  end.
(* the validator's answer: None = returned self, Some r = raised *)
Definition run_prog (gov : list stree) (f : list (string * sval)) (p : list vstmt) : option reason :=
  match eval_block gov f p with FNext => None | FStop r => r end.

(* every field a validator reads holds a leaf value *)
Definition present (names : list string) (f : list (string * sval)) : bool :=
  forallb (fun n => match get_leaf n f with Some _ => true | None => false end) names.
