(* C19 — the aggregation stage of BillingModel.predict / BillingWeightedModel.predict
   (opendsm/eemeter/models/billing/model.py:110-152, weighted_model.py:131-175).  Executable definitions only;
   lemmas are in Proofs/BillingAggProofs.v.

       df_res = self._predict(df)                                   (rows of the un-aggregated frame: the input here)
       aggregation None / any case of "none" -> df_res ; "monthly" -> "MS" ; "bimonthly" -> "2MS" ; else ValueError
       season/model_split/model_type .resample(agg).first()   temperature .mean()
       observed/predicted/heating_load/cooling_load .resample(agg).sum()
       predicted_unc .resample(agg).apply(lambda x: np.sqrt(np.sum(np.square(x))))

   What is modelled
     * the argument parsing, in the order of the code (it runs after _predict; a non-string argument dies in
       `aggregation.lower()` with AttributeError, which is also a rejection);
     * pandas `resample("MS")` / `resample("2MS")` on a tz-aware index, re-specified on local civil day numbers:
       bins are k = 1 / 2 calendar months wide, anchored at the month of the earliest row, every bin from the first
       to the last is returned (empty ones too), a row falls into the bin of its local calendar month;
     * pandas' NaN conventions: sum skips NaN and is 0 on an empty / all-NaN bin, mean and first are NaN on it,
       np.sum(np.square(x)) on a Series skips NaN as well (it dispatches to Series.sum);
     * the civil calendar (day number -> year, month; month -> day number of its first day), Hinnant's algorithm;
     * the `observed` column being required by the code as it is (KeyError when the reporting data carried no usage).
   A cell is [option Q]: None = NaN.  The uncertainty is kept squared (no square root over Q); the R-level statement
   with the root is in Proofs/BillingAggProofs.v.
   Not modelled: +-inf cells (C07 is about them), the other columns, the sub-model curve (the rows already carry
   predicted / heating / cooling), duplicate index labels are allowed and simply fall into their bin. *)
From Coq Require Import ZArith QArith List Bool String Ascii.
Import ListNotations.
Open Scope Z_scope.

(* ---------------------------------------------------------------- civil calendar (Hinnant) *)
(* days since 1970-01-01 -> (year, month 1..12, day 1..31); floor division everywhere (Z./ is floor for positive divisors) *)
Definition civil_from_days (z0 : Z) : Z * Z * Z :=
  let z := z0 + 719468 in
  let era := z / 146097 in
  let doe := z - era * 146097 in
  let yoe := (doe - doe / 1460 + doe / 36524 - doe / 146096) / 365 in
  let y := yoe + era * 400 in
  let doy := doe - (365 * yoe + yoe / 4 - yoe / 100) in
  let mp := (5 * doy + 2) / 153 in
  let d := doy - (153 * mp + 2) / 5 + 1 in
  let m := if mp <? 10 then mp + 3 else mp - 9 in
  ((if m <=? 2 then y + 1 else y), m, d).

Definition days_from_civil (y0 m d : Z) : Z :=
  let y := if m <=? 2 then y0 - 1 else y0 in
  let era := y / 400 in
  let yoe := y - era * 400 in
  let doy := (153 * (if 2 <? m then m - 3 else m + 9) + 2) / 5 + d - 1 in
  let doe := yoe * 365 + yoe / 4 - yoe / 100 + doy in
  era * 146097 + doe - 719468.

(* calendar months counted from year 0: 12*year + (month-1) *)
Definition month_index (day : Z) : Z := let '(y, m, _) := civil_from_days day in 12 * y + (m - 1).
Definition month_start_day (mi : Z) : Z := days_from_civil (mi / 12) (mi mod 12 + 1) 1.

(* ---------------------------------------------------------------- frames *)
Open Scope Q_scope.
Definition cell := option Q.

(* one row of the frame returned by _predict: local civil day number of its index label + the columns that are aggregated;
   the three label columns are codes (season: 0 summer 1 shoulder 2 winter; model_split: index of the sub-model;
   model_type: 0 tidd, 1 hdd_tidd_cdd, ...) *)
Record drow := mkdrow {
  d_day : Z;
  d_temp : cell; d_obs : cell; d_pred : cell; d_unc : cell; d_heat : cell; d_cool : cell;
  d_season : option Z; d_split : option Z; d_mtype : option Z }.

(* one row of the aggregated frame; a_label = month index of the bin's first month (the index label is the first
   instant of that local month); sums are plain numbers (never NaN) *)
Record arow := mkarow {
  a_label : Z;
  a_temp : cell; a_obs : Q; a_pred : Q; a_uncsq : Q; a_heat : Q; a_cool : Q;
  a_season : option Z; a_split : option Z; a_mtype : option Z }.

(* ---- pandas reductions ---- *)
Definition cval (c : cell) : Q := match c with Some q => q | None => 0 end.
Definition nansum (l : list cell) : Q := fold_right (fun c acc => Qred (cval c + acc)) 0 l.
Definition count (l : list cell) : Z := fold_right (fun c acc => match c with Some _ => (1 + acc)%Z | None => acc end) 0%Z l.
Definition nanmean (l : list cell) : cell :=
  let n := count l in if (n =? 0)%Z then None else Some (Qred (nansum l / inject_Z n)).
Definition sq (c : cell) : cell := match c with Some q => Some (q * q) | None => None end.
Definition sumsq (l : list cell) : Q := nansum (map sq l).
Fixpoint first_some {B : Type} (l : list (option B)) : option B :=
  match l with
  | [] => None
  | Some b :: _ => Some b
  | None :: l' => first_some l'
  end.

(* ---- resample("MS") / resample("2MS") ---- *)
Definition row_month (r : drow) : Z := month_index (d_day r).
Definition min_month (rows : list drow) : option Z :=
  match rows with
  | [] => None
  | r :: l => Some (fold_right (fun x acc => Z.min (row_month x) acc) (row_month r) l)
  end.
Definition max_month (rows : list drow) : option Z :=
  match rows with
  | [] => None
  | r :: l => Some (fold_right (fun x acc => Z.max (row_month x) acc) (row_month r) l)
  end.

(* bin number of a row: (month - first month) / k *)
Definition bin_of (k m0 : Z) (r : drow) : Z := ((row_month r - m0) / k)%Z.
Definition in_bin (k m0 j : Z) (r : drow) : bool := (bin_of k m0 r =? j)%Z.
Definition days_of (k m0 j : Z) (rows : list drow) : list drow := filter (in_bin k m0 j) rows.

(* the rows of the calendar period of k months that starts at month [label] — the property's "daily rows in that
   period", stated without reference to the binning arithmetic *)
Definition period_rows (k label : Z) (rows : list drow) : list drow :=
  filter (fun r => ((label <=? row_month r) && (row_month r <? label + k))%Z) rows.

(* bins 0 .. (last month - first month) / k *)
Definition bins (k m0 m1 : Z) : list Z := map Z.of_nat (seq 0 (Z.to_nat ((m1 - m0) / k + 1))).

Definition agg_row (k m0 j : Z) (g : list drow) : arow :=
  mkarow (m0 + k * j)%Z
         (nanmean (map d_temp g)) (nansum (map d_obs g)) (nansum (map d_pred g)) (sumsq (map d_unc g))
         (nansum (map d_heat g)) (nansum (map d_cool g))
         (first_some (map d_season g)) (first_some (map d_split g)) (first_some (map d_mtype g)).

Definition aggregate (k : Z) (rows : list drow) : list arow :=
  match min_month rows, max_month rows with
  | Some m0, Some m1 => map (fun j => agg_row k m0 j (days_of k m0 j rows)) (bins k m0 m1)
  | _, _ => []
  end.

(* ---------------------------------------------------------------- the argument *)
(* what the caller passes: Python None, a string, or some other object *)
Inductive agg_arg := ArgNone | ArgStr (s : string) | ArgOther.
Inductive err := ValueErr | AttributeErr | KeyErr.
Inductive parsed := NoAgg | Months (k : Z) | Bad (e : err).

Definition lower_ascii (a : ascii) : ascii :=
  let n := nat_of_ascii a in if (Nat.leb 65 n && Nat.leb n 90)%bool then ascii_of_nat (n + 32) else a.
Fixpoint lower (s : string) : string :=
  match s with
  | EmptyString => EmptyString
  | String a s' => String (lower_ascii a) (lower s')
  end.

Definition parse_arg (a : agg_arg) : parsed :=
  match a with
  | ArgNone => NoAgg
  | ArgOther => Bad AttributeErr                                   (* `aggregation.lower()` on a non-string *)
  | ArgStr s =>
      if String.eqb (lower s) "none" then NoAgg
      else if String.eqb s "monthly" then Months 1
      else if String.eqb s "bimonthly" then Months 2
      else Bad ValueErr
  end.

(* ---------------------------------------------------------------- predict(..., aggregation=a), after _predict *)
Inductive outcome := Daily (rows : list drow) | Aggregated (k : Z) (rows : list arow) | Rejected (e : err).

(* obs_mode: how the code treats reporting data without an observed column when it aggregates
     ObsRequired   the code as it is: df_res["observed"] raises KeyError
     ObsOptional   the proposed repair (/var/tmp/proposed-fixes/C19-1.diff): the column is aggregated only when present *)
Inductive obs_mode := ObsRequired | ObsOptional.

Definition predict_agg (mode : obs_mode) (has_obs : bool) (a : agg_arg) (rows : list drow) : outcome :=
  match parse_arg a with
  | NoAgg => Daily rows
  | Bad e => Rejected e
  | Months k =>
      match mode, has_obs with
      | ObsRequired, false => Rejected KeyErr
      | _, _ => Aggregated k (aggregate k rows)
      end
  end.

(* totals of a column over a frame *)
Definition qsum (l : list Q) : Q := fold_right (fun x acc => Qred (x + acc)) 0 l.

(* ---------------------------------------------------------------- the source's tables, interpreted
   harness/translate_billing_agg.py reads, with `ast`, from BillingModel.predict / BillingWeightedModel.predict
     * the if/elif chain on `aggregation` (which test, on what literal, which resample rule it selects, what the else raises)
     * the block under `if agg is not None:` (which column of df_res is reduced by which function, of the pd.concat list; `observed` guarded by `"observed" in df_res.columns`)
   and writes them to Generated/BillingAggGen.v as values of the types below.  The interpreters below give those tables
   a meaning; Proofs/BillingAggGenProofs.v proves that the tables of the source are the model's tables and hence that the
   interpreted source tables compute exactly [parse_arg] and [aggregate], for every argument and every frame. *)
Inductive aggfn := FSum | FMean | FFirst | FRss | FOther.
(* (column of df_res, reducer, aggregated only when the column is present), sorted by column name: the order in which
   the columns are returned is not part of the property; columns other than these nine are outside the model *)
Definition agg_table := list (string * aggfn * bool).

Definition model_agg_table : agg_table :=
  [ ("cooling_load", FSum, false); ("heating_load", FSum, false); ("model_split", FFirst, false);
    ("model_type", FFirst, false); ("observed", FSum, true); ("predicted", FSum, false);
    ("predicted_unc", FRss, false); ("season", FFirst, false); ("temperature", FMean, false) ]%string.

Definition table_fn (t : agg_table) (c : string) : option aggfn :=
  match find (fun e => String.eqb (fst (fst e)) c) t with Some e => Some (snd (fst e)) | None => None end.

(* a numeric column reduced by f (FRss: kept squared, as everywhere in this model); None = not a reducer of this model *)
Definition num_agg (f : aggfn) (l : list cell) : option cell :=
  match f with
  | FSum => Some (Some (nansum l))
  | FMean => Some (nanmean l)
  | FRss => Some (Some (sumsq l))
  | FFirst => Some (first_some l)
  | FOther => None
  end.
Definition lab_agg (f : aggfn) (l : list (option Z)) : option (option Z) :=
  match f with FFirst => Some (first_some l) | _ => None end.

Definition obind {B C : Type} (x : option B) (f : B -> option C) : option C :=
  match x with Some b => f b | None => None end.

Definition col_num (t : agg_table) (c : string) (l : list cell) : option cell :=
  obind (table_fn t c) (fun f => num_agg f l).
Definition col_lab (t : agg_table) (c : string) (l : list (option Z)) : option (option Z) :=
  obind (table_fn t c) (fun f => lab_agg f l).

Definition agg_row_by (t : agg_table) (k m0 j : Z) (g : list drow) : option arow :=
  obind (col_num t "temperature" (map d_temp g)) (fun vt =>
  obind (col_num t "observed" (map d_obs g)) (fun vo =>
  obind (col_num t "predicted" (map d_pred g)) (fun vp =>
  obind (col_num t "predicted_unc" (map d_unc g)) (fun vu =>
  obind (col_num t "heating_load" (map d_heat g)) (fun vh =>
  obind (col_num t "cooling_load" (map d_cool g)) (fun vc =>
  obind (col_lab t "season" (map d_season g)) (fun ls =>
  obind (col_lab t "model_split" (map d_split g)) (fun lp =>
  obind (col_lab t "model_type" (map d_mtype g)) (fun lm =>
  Some (mkarow (m0 + k * j)%Z vt (cval vo) (cval vp) (cval vu) (cval vh) (cval vc) ls lp lm)))))))))).

Fixpoint sequence {B : Type} (l : list (option B)) : option (list B) :=
  match l with
  | [] => Some []
  | x :: l' => obind x (fun b => obind (sequence l') (fun bs => Some (b :: bs)))
  end.

Definition aggregate_by (t : agg_table) (k : Z) (rows : list drow) : option (list arow) :=
  match min_month rows, max_month rows with
  | Some m0, Some m1 => sequence (map (fun j => agg_row_by t k m0 j (days_of k m0 j rows)) (bins k m0 m1))
  | _, _ => Some []
  end.

(* ---- the if/elif chain on `aggregation` ---- *)
Inductive arg_test := TIsNone | TLowerEq (s : string) | TEq (s : string).   (* is None | .lower() == s | == s *)
Inductive arg_res := RNoAgg | RFreq (s : string).                            (* agg = None | agg = "<pandas rule>" *)
Definition arg_chain := list (arg_test * arg_res).

Definition model_arg_chain : arg_chain :=
  [ (TIsNone, RNoAgg); (TLowerEq "none", RNoAgg); (TEq "monthly", RFreq "MS"); (TEq "bimonthly", RFreq "2MS") ]%string.

(* pandas offset aliases this model gives a meaning to: month-start bins of 1 and 2 months *)
Definition freq_months (s : string) : option Z :=
  if String.eqb s "MS" then Some 1%Z else if String.eqb s "2MS" then Some 2%Z else None.

Inductive test_out := Hit | Miss | Raises (e : err).
Definition eval_test (t : arg_test) (a : agg_arg) : test_out :=
  match t, a with
  | TIsNone, ArgNone => Hit
  | TIsNone, _ => Miss
  | TLowerEq s, ArgStr x => if String.eqb (lower x) s then Hit else Miss
  | TLowerEq _, _ => Raises AttributeErr               (* None.lower() / (5).lower() *)
  | TEq s, ArgStr x => if String.eqb x s then Hit else Miss
  | TEq _, _ => Miss
  end.

(* None = the chain selects a resample rule outside this model *)
Fixpoint parse_arg_by (chain : arg_chain) (else_raises : err) (a : agg_arg) : option parsed :=
  match chain with
  | [] => Some (Bad else_raises)
  | (t, r) :: rest =>
      match eval_test t a with
      | Hit => match r with
               | RNoAgg => Some NoAgg
               | RFreq s => match freq_months s with Some k => Some (Months k) | None => None end
               end
      | Miss => parse_arg_by rest else_raises a
      | Raises e => Some (Bad e)
      end
  end.

(* how the source treats reporting data without usage, read off its table: the observed column is aggregated
   unconditionally (obs flag false: df_res["observed"] raises KeyError) or only when present *)
Definition table_obs_mode (t : agg_table) : obs_mode :=
  match find (fun e => String.eqb (fst (fst e)) "observed") t with
  | Some (_, _, true) => ObsOptional
  | _ => ObsRequired
  end.

(* predict(..., aggregation=a) after _predict, driven by the source's tables only; None = outside this model *)
Definition predict_agg_by (chain : arg_chain) (else_raises : err) (t : agg_table) (has_obs : bool) (a : agg_arg)
           (rows : list drow) : option outcome :=
  match parse_arg_by chain else_raises a with
  | None => None
  | Some NoAgg => Some (Daily rows)
  | Some (Bad e) => Some (Rejected e)
  | Some (Months k) =>
      match table_obs_mode t, has_obs with
      | ObsRequired, false => Some (Rejected KeyErr)
      | _, _ => match aggregate_by t k rows with Some out => Some (Aggregated k out) | None => None end
      end
  end.
