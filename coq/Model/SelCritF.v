(* IEEE binary64 instance of Model/SelCrit.v and the comparison helpers of the C13 correspondence.
   ln and pow are NOT bit-exact with libm (the correspondence compares within 1e-9 relative):
     fln   x = e*ln2 + 2*atanh((m-1)/(m+1)),  x = m*2^e with m in [sqrt(1/2), sqrt(2)), 13 series terms
               (|z| <= 0.172: truncation below 1e-20);  ln 0 = -inf, ln of a negative number = NaN
     fpow  x y = exp(y * ln x) with the exact special cases numpy has: y = 0 -> 1, x = 0 -> 0 (y > 0),
               y = 1 -> x, y = 2 -> x*x; a negative base otherwise gives NaN (as numpy does for a
               non-integer exponent; integer exponents other than 1, 2 on a negative base are not mirrored)
   sqrt is the primitive (correctly rounded, as numpy's).  This file must not import Reals. *)
From Coq Require Import PrimFloat Uint63 List Bool.
From V Require Import Model.Num Model.NumF Model.SelCrit.
Import ListNotations.

Definition f_ln2 : float := 0x1.62e42fefa39efp-1%float.
Definition f_sqrt_half : float := 0x1.6a09e667f3bcdp-1%float.

Definition fln_series (z : float) : float :=
  let w := fmul z z in
  let h (d : float) (acc : float) : float := fadd (fdiv 1%float d) (fmul w acc) in
  fmul (fmul 2%float z)
    (h 1%float (h 3%float (h 5%float (h 7%float (h 9%float (h 11%float (h 13%float (h 15%float
      (h 17%float (h 19%float (h 21%float (h 23%float (fdiv 1%float 25%float))))))))))))).

Definition fln (x : float) : float :=
  if f_is_nan x then nan
  else if PrimFloat.ltb x 0%float then nan
  else if PrimFloat.eqb x 0%float then neg_infinity
  else if PrimFloat.eqb x infinity then infinity
  else
    let '(m, se) := PrimFloat.frshiftexp x in               (* x = m * 2^(se - 2101), 0.5 <= m < 1 *)
    let e := fsub (PrimFloat.of_uint63 se) 2101%float in
    let '(m', e') := if PrimFloat.ltb m f_sqrt_half then (fmul m 2%float, fsub e 1%float) else (m, e) in
    fadd (fmul e' f_ln2) (fln_series (fdiv (fsub m' 1%float) (fadd m' 1%float))).

Definition fsqrt (x : float) : float := PrimFloat.sqrt x.

Definition fpow (x y : float) : float :=
  if PrimFloat.eqb y 0%float then 1%float
  else if PrimFloat.eqb y 1%float then x
  else if PrimFloat.eqb y 2%float then fmul x x
  else if PrimFloat.eqb x 0%float then (if PrimFloat.ltb 0%float y then 0%float else infinity)
  else if PrimFloat.eqb x 1%float then 1%float
  else fexp (fmul y (fln x)).

Definition f_two_pi : float := 0x1.921fb54442d18p+2%float.     (* 2 * np.pi *)
Definition f_tiny : float := 0x1.0c6f7a0b5ed8dp-20%float.      (* 1e-6 *)

(* -inf + penalty *)
Definition f_absorb (pen : float) : ext float :=
  if f_is_nan pen || PrimFloat.eqb pen infinity then Fin nan else NInf.

Definition f_selection_criteria : crit_type -> float -> float -> float -> float -> float -> float -> ext float :=
  selection_criteria FNum fln fsqrt fpow f_two_pi f_tiny f_absorb.
Definition f_combo_criterion : crit_type -> float -> float -> list (cfit float) -> list (cfit float) -> ext float :=
  combo_criterion FNum fln fsqrt fpow f_two_pi f_tiny f_absorb.

Definition ext_float (c : ext float) : float :=
  match c with Fin v => v | NInf => neg_infinity | PInf => infinity end.

(* correspondence cases *)
(* np.log / np.sqrt / ** on their own: (which, x, y, expected) *)
Definition prim_case : Type := (nat * float * float * float)%type.
Definition check_prim (c : prim_case) : bool :=
  let '(which, x, y, expected) := c in
  match which with
  | O => f_close (fln x) expected
  | S O => f_same (fsqrt x) expected
  | _ => f_close (fpow x y) expected
  end.

(* selection_criteria(loss, TSS, N, num_coeffs, type, c0, d0) = expected *)
Definition crit_case : Type := (crit_type * float * float * float * float * float * float * float)%type.
Definition check_crit (c : crit_case) : bool :=
  let '(ty, c0, d0, loss, tss, n, k, expected) := c in
  f_close (ext_float (f_selection_criteria ty c0 d0 loss tss n k)) expected.

(* _combination_selection_criteria(combo) on a real fit: components of the unsplit model, components of the
   combination, expected criterion *)
Definition fit_crit_case : Type := (crit_type * float * float * list (cfit float) * list (cfit float) * float)%type.
Definition check_fit_crit (c : fit_crit_case) : bool :=
  let '(ty, c0, d0, base, l, expected) := c in
  f_close (ext_float (f_combo_criterion ty c0 d0 base l)) expected.

Definition mk_fit (n tss wsse : float) : cfit float := {| f_n := n; f_tss := tss; f_wsse := wsse |}.
