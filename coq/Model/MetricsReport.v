(* ReportingMetrics.total_savings_uncertainty, fsu and predicted_data_point_unc (opendsm/common/metrics.py:471-509)
   over the constants the SOURCE holds: the hourly factor, the daily / billing polynomial coefficients and the constant
   of the ASHRAE approximation factor are read from Generated/MetricsGen.v, which harness/translate_metrics.py
   regenerates from the source on every run.  Also: the table of which BaselineMetrics ratio divides what by what,
   interpreted over the model of Model/Metrics.v.  Executable definitions only. *)
From Coq Require Import ZArith QArith Qabs List Bool.
From V Require Import Model.Metrics Generated.MetricsGen.
Import ListNotations.
Open Scope Q_scope.

(* ------------------------------------------------------------------ frequency factor *)

Inductive freq := Hourly | Daily | Billing.

(* np.polyval: highest power first *)
Definition polyval (c : list Q) (x : Q) : Q := fold_left (fun acc a => acc * x + a) c 0.

(* M = len(self._df.index.month.unique()): distinct calendar months (1..12, on the rows' own clock) of the rows
   whose observed and predicted cells are both finite *)
Fixpoint finite_months (rows : list (cell * cell)) (months : list Z) : list Z :=
  match rows, months with
  | (Some _, Some _) :: r, m :: ms => m :: finite_months r ms
  | _ :: r, _ :: ms => finite_months r ms
  | _, _ => []
  end.
Definition month_count (rows : list (cell * cell)) (months : list Z) : Z :=
  Z.of_nat (length (nodup Z.eq_dec (finite_months rows months))).

Definition freq_factor (f : freq) (M : Z) : Q :=
  match f with
  | Hourly => gen_hourly_factor
  | Daily => Qred (polyval gen_daily_coefs (inject_Z M))
  | Billing => Qred (polyval gen_billing_coefs (inject_Z M))
  end.

(* ------------------------------------------------------------------ the three uncertainty figures *)

(* total_savings_uncertainty = factor * E * t * cvrmse_autocorr_adj * sqrt(n / (m n') * (1 + K / n')), K from the source;
   [t] is scipy's t quantile (an input); defined for m > 0, n' > 0 and a cvrmse_autocorr_adj that is a root *)
Definition total_savings_uncertainty (f : freq) (M : Z) (E t : Q) (cv : val) (n m : Z) (np : Q) : val :=
  match cv with
  | Root neg s =>
      if (0 <? m)%Z && Qltb 0 np then
        let a := inject_Z n / (inject_Z m * np) * (1 + gen_approx_const / np) in
        let lin := freq_factor f M * E * t in
        Root (xorb neg (Qltb lin 0)) (Qred (sqr lin * s * a))
      else Undef
  | _ => Undef
  end.

(* fsu = total_savings_uncertainty / savings (a plain division: +-inf / nan over zero savings) *)
Definition fsu (u : val) (savings : Q) : val :=
  match u with
  | Root neg s =>
      if Qeq_bool savings 0 then (if Qeq_bool s 0 then NaN else Inf neg)
      else Root (xorb neg (Qltb savings 0)) (Qred (s / sqr savings))
  | _ => Undef
  end.

(* predicted_data_point_unc = total_savings_uncertainty / sqrt(m) *)
Definition predicted_data_point_unc (u : val) (m : Z) : val :=
  match u with
  | Root neg s => if (0 <? m)%Z then Root neg (Qred (s / inject_Z m)) else Undef
  | _ => Undef
  end.

Record uncertainty := { u_M : Z; u_total : val; u_fsu : val; u_point : val }.
Definition reporting_uncertainty (f : freq) (rows : list (cell * cell)) (months : list Z) (t : Q) (cv : val) (n : Z) (np : Q)
  : uncertainty :=
  let r := reporting rows in
  let M := month_count rows months in
  let u := total_savings_uncertainty f M (r_predicted_sum r) t cv n (r_n r) np in
  {| u_M := M; u_total := u; u_fsu := fsu u (r_savings r); u_point := predicted_data_point_unc u (r_n r) |}.

(* ------------------------------------------------------------------ the ratio table of BaselineMetrics *)

(* what the source's table entry (field, numerator attribute, denominator attribute) denotes in the model *)
Definition ratio_entry_value (pl : policy) (m : bmetrics) (np : Q) (p : Z) (mn : Q) (e : ratio_field * ratio_num * ratio_den) : val :=
  let '(_, nu, de) := e in
  let den := match de with DObservedMean => c_mean (b_obs m) | DObservedIqr => c_iqr (b_obs m) end in
  match nu with
  | NMae => ratio_val (sdiv pl (b_mae m) den mn)
  | NMbe => ratio_val (sdiv pl (b_mbe m) den mn)
  | NRmse => sdiv_root pl (b_mse m) den mn
  | NRmseAdj => sdiv_root pl (b_rmse_adj_sq m) den mn
  | NRmseAutocorrAdj => sdiv_root pl (rmse_autocorr_adj_sq m np p) den mn
  end.
(* the model's own field *)
Definition ratio_field_value (pl : policy) (m : bmetrics) (np : Q) (p : Z) (mn : Q) (f : ratio_field) : val :=
  match f with
  | Fnmae => b_nmae m | Fpnmae => b_pnmae m | Fnmbe => b_nmbe m | Fpnmbe => b_pnmbe m
  | Fcvrmse => b_cvrmse m | Fcvrmse_adj => b_cvrmse_adj m | Fcvrmse_autocorr_adj => cvrmse_autocorr_adj pl m np p mn
  | Fpnrmse => b_pnrmse m | Fpnrmse_adj => b_pnrmse_adj m | Fpnrmse_autocorr_adj => pnrmse_autocorr_adj pl m np p mn
  end.

(* the constants the hand-written model of Model/Metrics.v builds in, to be compared with the generated ones *)
Record source_constants := {
  k_min_denominator : Q; k_safe_divide_default_min : Q; k_variance_ddof : Q; k_iqr_levels : Q * Q;
  k_ddof_floor : Q * Q; k_ddof_autocorr_floor : Q * Q; k_autocorr_lag : Q; k_nprime_fallback : Q;
  k_daily_pnrmse_levels : Q * Q; k_numerator_factor : Q
}.
Definition generated_constants : source_constants :=
  {| k_min_denominator := gen_min_denominator; k_safe_divide_default_min := gen_safe_divide_default_min;
     k_variance_ddof := gen_variance_ddof; k_iqr_levels := gen_iqr_levels; k_ddof_floor := gen_ddof_floor;
     k_ddof_autocorr_floor := gen_ddof_autocorr_floor; k_autocorr_lag := gen_autocorr_lag;
     k_nprime_fallback := gen_nprime_fallback; k_daily_pnrmse_levels := gen_daily_pnrmse_levels;
     k_numerator_factor := match gen_safe_divide_policy with AsCoded => gen_safe_divide_numerator_factor | Repaired => 10 end |}.
(* iqr = q(3/4) - q(1/4); variance with ddof 0; ddof floors "< 1 -> 1"; lag-1 autocorrelation; fallback n' = 1;
   _min_denominator = 1e-3; PNRMSE range 5-95 %; the old guard's factor 10 *)
Definition modelled_constants : source_constants :=
  {| k_min_denominator := 1 # 1000; k_safe_divide_default_min := 1 # 1000; k_variance_ddof := 0; k_iqr_levels := (1 # 4, 3 # 4);
     k_ddof_floor := (1, 1); k_ddof_autocorr_floor := (1, 1); k_autocorr_lag := 1; k_nprime_fallback := 1;
     k_daily_pnrmse_levels := (1 # 20, 19 # 20); k_numerator_factor := 10 |}.

Definition qpair_eqb (a b : Q * Q) : bool := Qeq_bool (fst a) (fst b) && Qeq_bool (snd a) (snd b).
Definition constants_eqb (a b : source_constants) : bool :=
  Qeq_bool (k_min_denominator a) (k_min_denominator b) && Qeq_bool (k_safe_divide_default_min a) (k_safe_divide_default_min b) &&
  Qeq_bool (k_variance_ddof a) (k_variance_ddof b) && qpair_eqb (k_iqr_levels a) (k_iqr_levels b) &&
  qpair_eqb (k_ddof_floor a) (k_ddof_floor b) && qpair_eqb (k_ddof_autocorr_floor a) (k_ddof_autocorr_floor b) &&
  Qeq_bool (k_autocorr_lag a) (k_autocorr_lag b) && Qeq_bool (k_nprime_fallback a) (k_nprime_fallback b) &&
  qpair_eqb (k_daily_pnrmse_levels a) (k_daily_pnrmse_levels b) && Qeq_bool (k_numerator_factor a) (k_numerator_factor b).

(* the frequency factor is positive and grows with the number of months, M = 1 .. 12 *)
Definition months_1_12 : list Z := [1; 2; 3; 4; 5; 6; 7; 8; 9; 10; 11; 12]%Z.
Definition factor_table_ok : bool :=
  Qltb 0 gen_hourly_factor &&
  forallb (fun M => Qltb 0 (freq_factor Daily M) && Qltb 0 (freq_factor Billing M)) months_1_12 &&
  forallb (fun M => Qltb (freq_factor Daily M) (freq_factor Daily (M + 1)) && Qltb (freq_factor Billing M) (freq_factor Billing (M + 1)))
          (removelast months_1_12).
