(* Model of the temperature side of the daily / billing data classes of opendsm/eemeter (property C09):
     models/daily/data.py   : _DailyData._compute_temperature_features
     models/billing/data.py : _BillingData._compute_temperature_features
     common/features.py     : compute_temperature_features (daily/billing route, data_quality=True), _matching_groups
     common/data_processor_utilities.py : as_freq (series_type = "instantaneous")
   Time is Z = whole minutes since the Unix epoch (UTC); temperatures are exact rationals, None = NaN.
   The meter index (the stamps of the meter days, what _compute_meter_value_df returned) is DATA: local midnights, or
   the meter's own reading hour.  Executable definitions only; lemmas are in Proofs/TempAggProofs.v. *)
From Coq Require Import ZArith QArith List Bool.
From V Require Import Model.Resample.
Import ListNotations.
Open Scope Z_scope.

(* ------------------------------------------------------------------------------------------------ *)
(* 1. hourly feed: merge_asof day matching, per-day mean / counts, half rule                         *)
(* ------------------------------------------------------------------------------------------------ *)

(* pd.merge_asof(left = temperatures, right = meter index, backward, allow_exact_matches, tolerance).groupby(index):
   a reading belongs to the index entry lo (the next entry being hi, None after the last one) iff
   lo <= t < hi, and t - lo <= tolerance when one is given *)
Definition in_group (tol : option Z) (lo : Z) (hi : option Z) (r : reading) : bool :=
  (lo <=? stamp r) &&
  (match hi with Some h => stamp r <? h | None => true end) &&
  (match tol with Some d => stamp r - lo <=? d | None => true end).

Definition group (tol : option Z) (lo : Z) (hi : option Z) (temps : list reading) : list reading :=
  filter (in_group tol lo hi) temps.

(* the non-null values of a group *)
Definition present (g : list reading) : list Q :=
  flat_map (fun r => match rval r with Some v => [v] | None => [] end) g.

Definition zlen {A} (l : list A) : Z := Z.of_nat (length l).

(* one row of the feature frame: temperature_mean, temperature_not_null, temperature_null *)
Record trow := mkT { t_mean : option Q; t_notnull : option Z; t_null : option Z }.
Definition blank : trow := mkT None None None.

(* agg({"temp": [count, isnull().sum(), mean]}) followed by overwrite_partial_rows_with_nan: a group without rows is
   absent from the groupby (NaN everywhere after the concat); a group without a single non-null value has a NaN
   mean, and a row with any NaN is blanked as a whole - counts included *)
Definition agg (g : list reading) : trow :=
  match present g with
  | [] => blank
  | p => mkT (Some (qsum p / inject_Z (zlen p))%Q) (Some (zlen p)) (Some (zlen g - zlen p))
  end.

(* the rows of compute_temperature_features for the index entries: entry j is closed by entry j+1, the last one is
   open-ended *)
Fixpoint rows_for (tol : option Z) (idx : list Z) (temps : list reading) : list trow :=
  match idx with
  | [] => []
  | lo :: rest =>
      agg (group tol lo (match rest with h :: _ => Some h | [] => None end) temps) :: rows_for tol rest temps
  end.

Definition total (r : trow) : option Z :=
  match t_notnull r, t_null r with Some a, Some b => Some (a + b) | _, _ => None end.

Definition somes {A} (l : list (option A)) : list A :=
  flat_map (fun o => match o with Some x => [x] | None => [] end) l.

(* "more than 50 % of the high frequency temperature data is missing": not_null / (not_null + null) <= 0.5;
   the billing class also blanks not_null <= median(total) * 0.5.  m2 = twice the median of the totals. *)
Definition invalid_row (billing : bool) (m2 : Z) (r : trow) : bool :=
  match t_notnull r, total r with
  | Some a, Some t => (2 * a <=? t) || (billing && (4 * a <=? m2))
  | _, _ => false
  end.

Definition apply_half (billing : bool) (rows : list trow) : list trow :=
  match median2 (somes (map total rows)) with
  | Some m2 =>
      if 2 <? m2                                     (* median > 1 : "high frequency temperature data exists" *)
      then map (fun r => if invalid_row billing m2 r then mkT None (t_notnull r) (t_null r) else r) rows
      else rows
  | None => rows
  end.

Inductive temp_result := TRows (rows : list trow) | TErrAllNaN.

(* _compute_temperature_features, hourly feed.  midx = the meter index (one stamp per meter day).
   The buffer entry max + 24 h is appended, compute_temperature_features blanks its own last row (the buffer), the
   class drops it and applies the half rule. *)
Definition hourly_path (billing : bool) (tol : option Z) (midx : list Z) (temps : list reading) : temp_result :=
  match midx with
  | [] => TRows []
  | _ =>
    let idx := midx ++ [last midx 0 + 1440] in
    let rows := removelast (rows_for tol idx temps) in      (* the buffer row is blanked, then dropped *)
    if forallb (fun r => negb (is_some (t_mean r))) rows then TErrAllNaN       (* "All rows are NaN." *)
    else TRows (apply_half billing rows)
  end.

(* what the sufficiency test makes of a row: valid iff not_null / (not_null + null) > 1/2 (NaN compares false) *)
Definition valid_temperature_day (r : trow) : bool :=
  match t_notnull r, total r with
  | Some a, Some t => t <? 2 * a
  | _, _ => false
  end.

(* ------------------------------------------------------------------------------------------------ *)
(* 2. other feeds (30-minute, 15-minute, ...): as_freq instantaneous, coverage, value / coverage     *)
(* ------------------------------------------------------------------------------------------------ *)

(* series.asfreq("1 Min", method="ffill"): reading i holds on [t_i, t_i+1); the atomic index ends AT the last stamp,
   so the last reading holds for one minute.  A NaN reading leaves its minutes NaN (pad copies the row, NaN or not). *)
Fixpoint last_reading (rs : list reading) : option reading :=
  match rs with [] => None | [r] => Some r | _ :: rest => last_reading rest end.

Definition intervals_inst (rs : list reading) : list interval :=
  intervals rs ++ match last_reading rs with Some r => [mkI (stamp r) (stamp r + 1) (rval r)] | None => [] end.

(* sum over the minutes of the bucket of the value held *)
Definition inst_contrib (lo hi : Z) (iv : interval) : Q :=
  match ival iv with
  | Some v => (v * inject_Z (overlap (ilo iv) (ihi iv) lo hi))%Q
  | None => 0%Q
  end.
Definition inst_sum (lo hi : Z) (ivs : list interval) : Q := qsum (map (inst_contrib lo hi) ivs).

(* resample(...).mean(): NaN when the bucket holds no non-null minute *)
Definition inst_mean (lo hi : Z) (ivs : list interval) : option Q :=
  let c := bucket_count lo hi ivs in
  if c =? 0 then None else Some (inst_sum lo hi ivs / inject_Z c)%Q.

Fixpoint inst_rows_of (ivs : list interval) (bk : list (Z * Z)) : list drow :=
  match bk with
  | [] => []
  | (lo, hi) :: rest =>
      let last := match rest with [] => true | _ => false end in
      mkD lo hi (inst_mean lo hi ivs) (coverage lo hi ivs last) :: inst_rows_of ivs rest
  end.

(* as_freq(temp, "D", series_type="instantaneous", include_coverage=True) *)
Definition as_freq_inst (rs : list reading) (bs : list Z) : list drow :=
  inst_rows_of (intervals_inst rs) (filter (relevant rs) (pairs bs)).

(* the class: coverage > 0.5 -> value / coverage (scale = true: the code as it is; scale = false: the repair, an
   instantaneous mean is not divided by its coverage), else NaN *)
Definition temp_value (scale : bool) (v : option Q) (c : Q) : option Q :=
  if qltb half c then option_map (fun x => if scale then (x / c)%Q else x) v else None.

(* temperature_null / temperature_not_null of the class on this path:  temp_series.isnull().astype(int) assigned to
   the DAILY frame aligns on the index, i.e. each day gets the flag of the one reading stamped at its start
   (exact = false: the code as it is).  exact = true: the repair, per-day counts of the readings in the day. *)
Definition flag_counts (rs : list reading) (lo : Z) : option Z * option Z :=
  match find (fun r => stamp r =? lo) rs with
  | Some r => if is_some (rval r) then (Some 1, Some 0) else (Some 0, Some 1)
  | None => (None, None)
  end.
Definition day_counts_exact (rs : list reading) (lo hi : Z) : option Z * option Z :=
  let g := group None lo (Some hi) rs in
  (Some (zlen (present g)), Some (zlen g - zlen (present g))).

Definition subhourly_path (scale exact : bool) (rs : list reading) (bs : list Z) : list (Z * trow) :=
  map (fun r =>
         let cnt := if exact then day_counts_exact rs (d_lo r) (d_hi r) else flag_counts rs (d_lo r) in
         (d_lo r, mkT (temp_value scale (d_val r) (d_cov r)) (fst cnt) (snd cnt)))
      (as_freq_inst rs bs).

(* the statement's reference for a day of a regular feed: mean of the readings present, missing when half or fewer
   are present *)
Definition day_reference (g : list reading) : option Q :=
  let p := present g in
  if 2 * zlen p <=? zlen g then None else Some (qsum p / inject_Z (zlen p))%Q.

(* ------------------------------------------------------------------------------------------------ *)
(* 3. the frame the classes receive, and _set_data's zero rule                                        *)
(* ------------------------------------------------------------------------------------------------ *)

(* one row of the input frame: stamp, observed (usage), temperature *)
Definition frow := (Z * option Q * option Q)%type.
Definition f_stamp (r : frow) : Z := fst (fst r).
Definition f_obs (r : frow) : option Q := snd (fst r).
Definition f_temp (r : frow) : option Q := snd r.

(* "Electricity data with 0 meter values are converted to NaNs": df.loc[df["observed"] == 0, "observed"] = NaN.
   The rule applies to the USAGE column of electricity meters only: a temperature of exactly 0.0 F is a reading,
   and a gas usage of exactly 0 stays 0. *)
Definition zero_cell (v : option Q) : option Q :=
  match v with Some x => if Qeq_bool x 0 then None else Some x | None => None end.
Definition set_data (elec : bool) (fr : list frow) : list frow :=
  if elec then map (fun r => (f_stamp r, zero_cell (f_obs r), f_temp r)) fr else fr.

Definition temps_of (fr : list frow) : list reading := map (fun r => (f_stamp r, f_temp r)) fr.
Definition usage_of (fr : list frow) : list reading := map (fun r => (f_stamp r, f_obs r)) fr.

(* the temperature side of the classes, from the frame *)
Definition class_hourly (elec billing : bool) (tol : option Z) (midx : list Z) (fr : list frow) : temp_result :=
  hourly_path billing tol midx (temps_of (set_data elec fr)).
Definition class_subhourly (elec scale exact : bool) (fr : list frow) (bs : list Z) : list (Z * trow) :=
  subhourly_path scale exact (temps_of (set_data elec fr)) bs.
