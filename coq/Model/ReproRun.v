(* C03 — comparison helpers for the correspondence by histories and schedules (Cases files).
   The implementation's observations are SHA-256 digests; the harness numbers distinct digests 0,1,2,... per kind.
   The model predicts WHICH observations must coincide: two operations (in the same or in different processes, under any
   schedule) whose symbolic results are the same term must have produced the same serialised model and the same fixed
   prediction; two generator states that are the same term must have the same digest; the shared default list stays empty. *)
From Coq Require Import ZArith List Bool.
From V Require Import Model.CasesLib Model.Repro.
Import ListNotations.
Open Scope Z_scope.

Definition family_eqb (a b : family) : bool :=
  match a, b with Daily, Daily | Billing, Billing | Hourly, Hourly | CalTrack, CalTrack => true | _, _ => false end.

Definition sd_eqb (a b : sd) : bool :=
  match a, b with
  | SdLit x, SdLit y => x =? y
  | SdDraw x, SdDraw y => rng_eqb x y
  | _, _ => false
  end.
Definition rs_eqb (a b : option (sd * Z)) : bool :=
  match a, b with
  | Some (x, i), Some (y, j) => sd_eqb x y && (i =? j)
  | None, None => true
  | _, _ => false
  end.
Definition consumer_eqb (a b : consumer) : bool :=
  match a, b with
  | CElasticNet x, CElasticNet y => rs_eqb x y
  | CKMeans x, CKMeans y => rs_eqb x y
  | _, _ => false
  end.
Fixpoint res_eqb (a b : res) : bool :=
  match a, b with
  | RFit f d c t cs, RFit f' d' c' t' cs' =>
      family_eqb f f' && (d =? d') && (c =? c') && (t =? t') && list_eqb consumer_eqb cs cs'
  | RPredict x, RPredict y => res_eqb x y
  | RNothing, RNothing => true
  | _, _ => false
  end.

(* json digest, json digest without the settings.seed field, prediction digest, generator-state digest after the
   operation, length of the shared default list after the operation; -1 = not observed *)
Definition obs := (Z * Z * Z * Z * Z)%type.

(* process number, pool size, what populated the JIT cache the process starts with, hash salt (PYTHONHASHSEED, -1 = random),
   digest of the generator state at start, operations, observations *)
Definition hist := (Z * Z * list (family * Z) * Z * Z * list op * list obs)%type.

Definition seed_given (st : gstate) (o : op) : option Z :=
  match o with
  | FitHourly _ _ s => s
  | FitObj k _ => match nth_error (g_objs st) k with Some ob => ob_seed ob | None => None end
  | _ => None
  end.

(* what the model says about every operation: result, seed as given (it is echoed in the JSON), generator after, default list length *)
Fixpoint mtrace (s : gstate) (h : list op) : list (res * option Z * rng * Z) :=
  match h with
  | [] => []
  | o :: rest =>
      let '(s', r) := step s o in
      (r, seed_given s o, g_rng s', Z.of_nat (length (g_ct_default s'))) :: mtrace s' rest
  end.

Definition agree (x y : Z) : bool := (x <? 0) || (y <? 0) || (x =? y).

Definition pair_ok (tbl : list (rng * Z)) (a b : (res * option Z * rng * Z) * obs) : bool :=
  let '((ra, sa, ga, _), (ja, na, pa, qa, _)) := a in
  let '((rb, sb, gb, _), (jb, nb, pb, qb, _)) := b in
  (match norm_res tbl ra with
   | RNothing => true
   | ra' => if res_eqb ra' (norm_res tbl rb)
            then agree na nb && agree pa pb && (if opt_eqb Z.eqb sa sb then agree ja jb else true)
            else true
   end) &&
  (if rng_eqb ga gb then agree qa qb else true).

Definition self_ok (a : (res * option Z * rng * Z) * obs) : bool :=
  let '((_, _, _, n), (_, _, _, _, m)) := a in agree n m.

Definition zip_trace (h : hist) : list ((res * option Z * rng * Z) * obs) :=
  let '(pid, threads, cache, salt, q0, ops, os) := h in
  (* the start state takes part in the generator comparison as a pseudo operation *)
  ((RNothing, None, rng_start pid, 0), (-1, -1, -1, q0, 0)) :: combine (mtrace (init_full pid threads cache salt) ops) os.

Definition check_pair (tbl : list (rng * Z)) (c : hist * hist) : bool :=
  let '(a, b) := c in
  let ta := zip_trace a in
  let tb := zip_trace b in
  let '(_, _, _, _, _, opsa, osa) := a in
  let '(_, _, _, _, _, opsb, osb) := b in
  (length opsa =? length osa)%nat && (length opsb =? length osb)%nat &&
  forallb self_ok ta && forallb self_ok tb &&
  forallb (fun x => forallb (pair_ok tbl x) tb) ta.
