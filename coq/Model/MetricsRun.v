(* Executable comparison used by the C16 correspondence (harness/c16.py).
   The implementation's observations are exact rationals (a binary64 value is a dyadic rational),
   None / NaN / +-inf / raised are tags.  Numbers are compared within
       |a - b| <= 1e-9 * max(scale, |a|, |b|)
   where [scale] is 0 (purely relative) for quantities the implementation computes without
   cancellation and the natural magnitude of the intermediate otherwise; roots are compared squared. *)
From Coq Require Import ZArith QArith Qabs Qminmax Qround List Bool PrimFloat FloatOps SpecFloat.
From V Require Import Model.CasesLib Model.Metrics.
Import ListNotations.
Open Scope Q_scope.

Inductive obsv := ONum (q : Q) | ONone | ONaN | OInf (neg : bool) | ORaise.

(* observations are written as binary64 literals (exact, and parsed natively); a finite binary64 value is
   the dyadic rational (-1)^s * m * 2^e *)
Definition q_of_sf (s : bool) (m : positive) (e : Z) : Q :=
  let z := if s then Zneg m else Zpos m in
  match e with
  | Z0 => inject_Z z
  | Zpos p => inject_Z (z * Z.pow_pos 2 p)
  | Zneg p => Qmake z (Pos.pow 2 p)
  end.
Definition obsv_of_float (f : float) : obsv :=
  match Prim2SF f with
  | S754_zero _ => ONum 0
  | S754_infinity s => OInf s
  | S754_nan => ONaN
  | S754_finite s m e => ONum (q_of_sf s m e)
  end.
Definition q_of_float (f : float) : Q := match obsv_of_float f with ONum q => q | _ => 0 end.
Inductive xobs := XF (f : float) | XNone | XRaise.
Definition to_obsv (x : xobs) : obsv := match x with XF f => obsv_of_float f | XNone => ONone | XRaise => ORaise end.
(* binary64 cells over one common power-of-two denominator (so that sums only add numerators) *)
Definition sf_exp (f : float) : Z := match Prim2SF f with S754_finite _ _ e => e | _ => 0%Z end.
Definition min_exp (l : list float) : Z := fold_right (fun f acc => Z.min (sf_exp f) acc) 0%Z l.
Definition cell_of_float (emin : Z) (f : float) : cell :=
  match Prim2SF f with
  | S754_zero _ => Some (Qmake 0 (Z.to_pos (2 ^ (- emin))))
  | S754_finite s m e => let z := (Zpos m * 2 ^ (e - emin))%Z in Some (Qmake (if s then (- z)%Z else z) (Z.to_pos (2 ^ (- emin))))
  | _ => None
  end.

Definition tol : Q := 1 # 1000000000.
Definition close (scale a b : Q) : bool :=
  Qle_bool (Qabs (a - b)) (tol * Qmax scale (Qmax (Qabs a) (Qabs b))).

Definition val_match (scale : Q) (v : val) (o : obsv) : bool :=
  match v, o with
  | Num q, ONum f => close scale q f
  | Root neg s, ONum f => (if neg then Qle_bool f 0 else Qle_bool 0 f) && close scale s (sqr f)
  | Undef, ONone => true
  | NaN, ONaN => true
  | Inf a, OInf b => Bool.eqb a b
  | _, _ => false
  end.
Definition num_match (scale : Q) (q : Q) (o : obsv) : bool := val_match scale (Num q) o.
(* r_squared_adj over a zero denominator: (1 - R^2)(n - 1) / 0 is NaN for R^2 = 1 exactly and +-inf for a
   binary64 R^2 one ulp away from 1; both are accepted when R^2 is 1 within the tolerance *)
Definition rsq_adj_match (scale : Q) (r2 : option Q) (v : val) (o : obsv) : bool :=
  val_match scale v o ||
  match v, o, r2 with
  | NaN, OInf _, Some r => close 1 r 1
  | Inf _, ONaN, Some r => close 1 r 1
  | _, _, _ => false
  end.
Definition int_match (z : Z) (o : obsv) : bool :=
  match o with ONum f => Qeq_bool (inject_Z z) f | _ => false end.

Definition mk_cell (den : positive) (c : option Z) : cell :=
  match c with Some z => Some (Qmake z den) | None => None end.
Definition mk_rows (den : positive) (l : list (option Z * option Z)) : list (cell * cell) :=
  map (fun r => (mk_cell den (fst r), mk_cell den (snd r))) l.
Definition mk_list (den : positive) (l : list Z) : list Q := map (fun z => Qmake z den) l.

Definition maxabs (l : list Q) : Q := fold_right (fun x acc => Qmax (Qabs x) acc) 0 l.

Fixpoint zipcheck (fs : list (obsv -> bool)) (os : list obsv) : list bool :=
  match fs, os with
  | [], [] => []
  | f :: fs', o :: os' => f o :: zipcheck fs' os'
  | _, _ => [false]
  end.

(* ColumnMetrics: sum mean variance std cvstd sum_squared median MAD_scaled iqr *)
Definition column_checks (c : colstats) (l : list Q) (k : Q) : list (obsv -> bool) :=
  let msq := c_sum_sq c / qlen l in
  let mx := maxabs l in
  [ num_match 0 (c_sum c); num_match 0 (c_mean c); num_match msq (c_var c); val_match msq (c_std c);
    val_match (msq / sqr (c_mean c)) (c_cvstd c); num_match 0 (c_sum_sq c); num_match mx (c_median c);
    num_match (k * mx) (k * c_mad c); num_match mx (c_iqr c) ].

(* mape with every quotient truncated to a multiple of 2^-80 (keeps the sum dyadic; the error is below
   n * 2^-80, far inside the comparison tolerance) *)
Definition two80 : positive := (2 ^ 80)%positive.
Definition qtrunc (x : Q) : Q := Qmake (Qfloor (x * inject_Z (Zpos two80))) two80.
Definition mape_trunc (d : list (Q * Q)) (mn : Q) : val :=
  let nz := filter (fun r => Qle_bool mn (Qabs (fst r))) d in
  match nz with
  | [] => Undef
  | _ => Num (Qred (qsum (map (fun r => qtrunc (Qabs ((fst r - snd r) / fst r))) nz) / qlen nz))
  end.

(* n' : tolerance version of [nprime_exact]; when rho is (within tolerance) -1 the implementation may
   take the fallback 1 or report a huge value, both are accepted *)
Definition nprime_ok (n : Z) (rho : option (bool * Q)) (o : obsv) : bool :=
  match o with
  | ONum np =>
      match rho with
      | None => Qeq_bool np 1
      | Some (neg, r2) =>
          let r := rho_of_nprime n np in
          (neg && close 1 r2 1 && Qeq_bool np 1) ||
          (negb (Qeq_bool (inject_Z n + np) 0) && close 1 (sqr r) r2 &&
           (if neg then Qle_bool r tol else Qle_bool (- tol) r))
      end
  | _ => false
  end.

Record bcase := {
  bc_pl : policy;           (* which division policy the code under test was found to implement *)
  bc_den : positive;
  bc_rows : list (option Z * option Z);
  bc_p : Z;
  bc_mn : float;
  bc_k : float;             (* MAD_k as the implementation holds it *)
  bc_exp : list xobs        (* BaselineMetrics.model_dump(), flattened in field order *)
}.

Definition baseline_checks (pl : policy) (m : bmetrics) (d : list (Q * Q)) (p : Z) (mn k : Q) (npo : obsv) : list (obsv -> bool) :=
  let np := match npo with ONum q => q | _ => 1 end in
  let n := b_n m in
  [ int_match n; nprime_ok n (b_rho m); int_match (b_ddof m); num_match 0 (ddof_autocorr_of np p) ]
  ++ column_checks (b_obs m) (observed_of d) k
  ++ column_checks (b_pred m) (predicted_of d) k
  ++ column_checks (b_res m) (residuals_of d) k
  ++ [ num_match 0 (b_mae m); val_match 0 (b_nmae m); val_match 0 (b_pnmae m);
       num_match 0 (b_mbe m); val_match 0 (b_nmbe m); val_match 0 (b_pnmbe m);
       num_match 0 (b_sse m); num_match 0 (b_mse m);
       val_match 0 (b_rmse m); val_match 0 (b_rmse_adj m); val_match 0 (Root false (rmse_autocorr_adj_sq m np p));
       val_match 0 (b_cvrmse m); val_match 0 (b_cvrmse_adj m); val_match 0 (cvrmse_autocorr_adj pl m np p mn);
       val_match 0 (b_pnrmse m); val_match 0 (b_pnrmse_adj m); val_match 0 (pnrmse_autocorr_adj pl m np p mn);
       val_match 1 (b_r_squared m);
       rsq_adj_match (Qmax 1 (inject_Z (n - 1) / inject_Z (b_ddof m - 1))) (b_r2 m) (b_r_squared_adj m);
       (* MAPE: exact for short series, terms truncated to 2^-80 for long ones (the exact sum of quotients over
          many different denominators is huge) *)
       val_match 0 (if (zlen d <=? 12)%Z then mape_of d mn else mape_trunc d mn) ].

Definition baseline_fields (c : bcase) : list bool :=
  let rows := mk_rows (bc_den c) (bc_rows c) in
  let e := map to_obsv (bc_exp c) in
  let mn := q_of_float (bc_mn c) in
  match finite_pairs rows with
  | [] => match e with ONum f :: _ => [Qeq_bool f 0] | _ => [false] end
  | d => let m := baseline_p (bc_pl c) d (bc_p c) mn in
         zipcheck (baseline_checks (bc_pl c) m d (bc_p c) mn (q_of_float (bc_k c)) (nth 1 e ONone)) e
  end.
Definition check_baseline (c : bcase) : bool := forallb (fun b => b) (baseline_fields c).
(* diagnostics: indices of the fields that do not match *)
Definition baseline_bad (c : bcase) : list N := mismatches (baseline_fields c).

(* _safe_divide called directly with Python / numpy scalars *)
Definition check_safe_divide (c : policy * float * float * float * xobs) : bool :=
  let '(pl, num, den, mn, o) := c in
  match sdiv pl (q_of_float num) (q_of_float den) (q_of_float mn), to_obsv o with
  | RNone, ONone => true
  | RNum q, ONum f => close 0 q f
  | RDivZero _, ORaise => true
  | RDivZero s, OInf neg => if neg then (s <? 0)%Z else (0 <? s)%Z
  | RDivZero s, ONaN => (s =? 0)%Z
  | _, _ => false
  end.

(* hourly gate: BaselineMetrics of the rows put on an HourlyModel, thresholds, observed verdict *)
Record gcase := {
  gc_pl : policy; gc_den : positive; gc_rows : list (option Z * option Z * bool); gc_p : Z; gc_mn : float;
  gc_tcv : float; gc_tpn : float; gc_acceptable : bool
}.
Definition mk_hrows (den : positive) (l : list (option Z * option Z * bool)) : list hrow :=
  map (fun r => (mk_cell den (fst (fst r)), mk_cell den (snd (fst r)), snd r)) l.
Definition check_gate (c : gcase) : bool :=
  match hourly_baseline_metrics_p (gc_pl c) (mk_hrows (gc_den c) (gc_rows c)) (gc_p c) (q_of_float (gc_mn c)) with
  | None => false
  | Some m => Bool.eqb (negb (hourly_disqualified m (q_of_float (gc_tcv c)) (q_of_float (gc_tpn c)))) (gc_acceptable c)
  end.

(* hourly fit: the stored baseline_metrics are those of the measured rows of predict(baseline) *)
Record hcase := {
  hc_pl : policy; hc_den : positive; hc_rows : list (option Z * option Z * bool);
  hc_frows : list (float * float * bool);      (* used instead of hc_rows when not empty (real fits: binary64 cells) *)
  hc_p : Z; hc_mn : float; hc_k : float;
  hc_exp : list xobs
}.
Definition hc_hrows (c : hcase) : list hrow :=
  match hc_frows c with
  | [] => mk_hrows (hc_den c) (hc_rows c)
  | fr => let emin := Z.min (min_exp (map (fun r => fst (fst r)) fr)) (min_exp (map (fun r => snd (fst r)) fr)) in
          map (fun r => (cell_of_float emin (fst (fst r)), cell_of_float emin (snd (fst r)), snd r)) fr
  end.
Definition hourly_fields (c : hcase) : list bool :=
  let e := map to_obsv (hc_exp c) in
  let mn := q_of_float (hc_mn c) in
  match finite_pairs (measured_rows (hc_hrows c)) with
  | [] => [false]
  | d => let m := baseline_p (hc_pl c) d (hc_p c) mn in
         zipcheck (baseline_checks (hc_pl c) m d (hc_p c) mn (q_of_float (hc_k c)) (nth 1 e ONone)) e
  end.
Definition check_hourly (c : hcase) : bool := forallb (fun b => b) (hourly_fields c).
Definition hourly_bad (c : hcase) : list N := mismatches (hourly_fields c).

(* daily: _get_error_metrics (RMSE, MAE, CVRMSE, PNRMSE) and the gate *)
Record dcase := {
  dc_den : positive; dc_resid : list Z; dc_obs : list Z;
  dc_fresid : list float; dc_fobs : list float;     (* used instead when not empty (real fits) *)
  dc_thr : float;
  dc_exp : list xobs; dc_dq : bool
}.
Definition qlist_of_floats (l : list float) : list Q :=
  let emin := min_exp l in map (fun f => match cell_of_float emin f with Some q => q | None => 0 end) l.
Definition daily_fields (c : dcase) : list bool :=
  let resid := match dc_fresid c with [] => mk_list (dc_den c) (dc_resid c) | l => qlist_of_floats l end in
  let obs := match dc_fobs c with [] => mk_list (dc_den c) (dc_obs c) | l => qlist_of_floats l end in
  let e := daily_error resid obs in
  zipcheck [ val_match 0 (d_rmse e); num_match 0 (d_mae e); val_match 0 (d_cvrmse e); val_match (maxabs obs) (d_pnrmse e) ]
           (map to_obsv (dc_exp c))
  ++ [ Bool.eqb (daily_disqualified e (q_of_float (dc_thr c))) (dc_dq c) ].
Definition check_daily (c : dcase) : bool := forallb (fun b => b) (daily_fields c).
Definition daily_bad (c : dcase) : list N := mismatches (daily_fields c).

(* ReportingMetrics: n, observed_sum, predicted_sum, savings, total_savings_uncertainty *)
Record rcase := {
  rc_den : positive; rc_rows : list (option Z * option Z);
  rc_t_factor : float * float; (* t quantile (scipy) and frequency factor, as the implementation holds them *)
  rc_cv : xobs;                (* the baseline's cvrmse_autocorr_adj *)
  rc_n : Z; rc_np : xobs;      (* baseline n and n' *)
  rc_exp : list xobs
}.
Definition reporting_fields (c : rcase) : list bool :=
  let r := reporting (mk_rows (rc_den c) (rc_rows c)) in
  let '(tf, ff) := rc_t_factor c in
  let t := q_of_float tf in let f := q_of_float ff in
  let cv := match to_obsv (rc_cv c) with ONum q => Root (Qltb q 0) (sqr q) | _ => Undef end in
  let np := match to_obsv (rc_np c) with ONum q => q | _ => 0 end in
  let u := savings_uncertainty (r_predicted_sum r) t f cv (rc_n c) (r_n r) np in
  zipcheck [ int_match (r_n r); num_match 0 (r_observed_sum r); num_match 0 (r_predicted_sum r);
             num_match (Qmax (Qabs (r_observed_sum r)) (Qabs (r_predicted_sum r))) (r_savings r);
             (fun o => match u with Undef => true | _ => val_match 0 u o end) ]
           (map to_obsv (rc_exp c)).
Definition check_reporting (c : rcase) : bool := forallb (fun b => b) (reporting_fields c).
Definition reporting_bad (c : rcase) : list N := mismatches (reporting_fields c).
