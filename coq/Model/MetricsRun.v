(* Executable comparison used by the C16 correspondence (harness/c16.py).
   The implementation's observations are exact rationals (a binary64 value is a dyadic rational),
   None / NaN / +-inf / raised are tags.  Numbers are compared within
       |a - b| <= 1e-9 * max(scale, |a|, |b|)
   where [scale] is 0 (purely relative) for quantities the implementation computes without
   cancellation and the natural magnitude of the intermediate otherwise; roots are compared squared. *)
From Coq Require Import ZArith QArith Qabs Qminmax Qround List Bool.
From V Require Import Model.CasesLib Model.Metrics.
Import ListNotations.
Open Scope Q_scope.

Inductive obsv := ONum (q : Q) | ONone | ONaN | OInf (neg : bool) | ORaise.

Definition tol : Q := 1 # 1000000000.
Definition close (scale a b : Q) : bool :=
  Qle_bool (Qabs (a - b)) (tol * Qmax scale (Qmax (Qabs a) (Qabs b))).

Definition val_match (scale : Q) (v : val) (o : obsv) : bool :=
  match v, o with
  | Num q, ONum f => close scale q f
  | Root neg s, ONum f => (if neg then Qle_bool f 0 else Qle_bool 0 f) && close scale s (sqr f)
  | Undef, ONone => true
  | NaN, ONaN => true
  | Inf a, OInf b => Bool.eqb a b
  | _, _ => false
  end.
Definition num_match (scale : Q) (q : Q) (o : obsv) : bool := val_match scale (Num q) o.
Definition int_match (z : Z) (o : obsv) : bool :=
  match o with ONum f => Qeq_bool (inject_Z z) f | _ => false end.

Definition mk_cell (den : positive) (c : option Z) : cell :=
  match c with Some z => Some (Qmake z den) | None => None end.
Definition mk_rows (den : positive) (l : list (option Z * option Z)) : list (cell * cell) :=
  map (fun r => (mk_cell den (fst r), mk_cell den (snd r))) l.
Definition mk_list (den : positive) (l : list Z) : list Q := map (fun z => Qmake z den) l.

Definition maxabs (l : list Q) : Q := fold_right (fun x acc => Qmax (Qabs x) acc) 0 l.

Fixpoint zipcheck (fs : list (obsv -> bool)) (os : list obsv) : list bool :=
  match fs, os with
  | [], [] => []
  | f :: fs', o :: os' => f o :: zipcheck fs' os'
  | _, _ => [false]
  end.

(* ColumnMetrics: sum mean variance std cvstd sum_squared median MAD_scaled iqr *)
Definition column_checks (c : colstats) (l : list Q) (k : Q) : list (obsv -> bool) :=
  let msq := c_sum_sq c / qlen l in
  let mx := maxabs l in
  [ num_match 0 (c_sum c); num_match 0 (c_mean c); num_match msq (c_var c); val_match msq (c_std c);
    val_match (msq / sqr (c_mean c)) (c_cvstd c); num_match 0 (c_sum_sq c); num_match mx (c_median c);
    num_match (k * mx) (k * c_mad c); num_match mx (c_iqr c) ].

(* mape with every quotient truncated to a multiple of 2^-80 (keeps the sum dyadic; the error is below
   n * 2^-80, far inside the comparison tolerance) *)
Definition two80 : positive := (2 ^ 80)%positive.
Definition qtrunc (x : Q) : Q := Qmake (Qfloor (x * inject_Z (Zpos two80))) two80.
Definition mape_trunc (d : list (Q * Q)) (mn : Q) : val :=
  let nz := filter (fun r => Qle_bool mn (Qabs (fst r))) d in
  match nz with
  | [] => Undef
  | _ => Num (Qred (qsum (map (fun r => qtrunc (Qabs ((fst r - snd r) / fst r))) nz) / qlen nz))
  end.

(* n' : tolerance version of [nprime_exact]; when rho is (within tolerance) -1 the implementation may
   take the fallback 1 or report a huge value, both are accepted *)
Definition nprime_ok (n : Z) (rho : option (bool * Q)) (o : obsv) : bool :=
  match o with
  | ONum np =>
      match rho with
      | None => Qeq_bool np 1
      | Some (neg, r2) =>
          let r := rho_of_nprime n np in
          (neg && close 1 r2 1 && Qeq_bool np 1) ||
          (negb (Qeq_bool (inject_Z n + np) 0) && close 1 (sqr r) r2 &&
           (if neg then Qle_bool r tol else Qle_bool (- tol) r))
      end
  | _ => false
  end.

Record bcase := {
  bc_den : positive;
  bc_rows : list (option Z * option Z);
  bc_p : Z;
  bc_mn : Q;
  bc_k : Q;                 (* MAD_k as the implementation holds it *)
  bc_exp : list obsv        (* BaselineMetrics.model_dump(), flattened in field order *)
}.

Definition baseline_checks (m : bmetrics) (d : list (Q * Q)) (p : Z) (mn k : Q) (npo : obsv) : list (obsv -> bool) :=
  let np := match npo with ONum q => q | _ => 1 end in
  let n := b_n m in
  [ int_match n; nprime_ok n (b_rho m); int_match (b_ddof m); num_match 0 (ddof_autocorr_of np p) ]
  ++ column_checks (b_obs m) (observed_of d) k
  ++ column_checks (b_pred m) (predicted_of d) k
  ++ column_checks (b_res m) (residuals_of d) k
  ++ [ num_match 0 (b_mae m); val_match 0 (b_nmae m); val_match 0 (b_pnmae m);
       num_match 0 (b_mbe m); val_match 0 (b_nmbe m); val_match 0 (b_pnmbe m);
       num_match 0 (b_sse m); num_match 0 (b_mse m);
       val_match 0 (b_rmse m); val_match 0 (b_rmse_adj m); val_match 0 (Root false (rmse_autocorr_adj_sq m np p));
       val_match 0 (b_cvrmse m); val_match 0 (b_cvrmse_adj m); val_match 0 (cvrmse_autocorr_adj m np p mn);
       val_match 0 (b_pnrmse m); val_match 0 (b_pnrmse_adj m); val_match 0 (pnrmse_autocorr_adj m np p mn);
       val_match 1 (b_r_squared m);
       val_match (Qmax 1 (inject_Z (n - 1) / inject_Z (b_ddof m - 1))) (b_r_squared_adj m);
       val_match 0 (mape_trunc d mn) ].

Definition baseline_fields (c : bcase) : list bool :=
  let rows := mk_rows (bc_den c) (bc_rows c) in
  match finite_pairs rows with
  | [] => match bc_exp c with ONum f :: _ => [Qeq_bool f 0] | _ => [false] end
  | d => let m := baseline d (bc_p c) (bc_mn c) in
         zipcheck (baseline_checks m d (bc_p c) (bc_mn c) (bc_k c) (nth 1 (bc_exp c) ONone)) (bc_exp c)
  end.
Definition check_baseline (c : bcase) : bool := forallb (fun b => b) (baseline_fields c).
(* diagnostics: indices of the fields that do not match *)
Definition baseline_bad (c : bcase) : list N := mismatches (baseline_fields c).

(* _safe_divide called directly with Python / numpy scalars *)
Inductive sdobs := SDNone | SDNum (q : Q) | SDRaise | SDInf (neg : bool) | SDNaN.
Definition check_safe_divide (c : Q * Q * Q * sdobs) : bool :=
  let '(num, den, mn, o) := c in
  match safe_divide num den mn, o with
  | RNone, SDNone => true
  | RNum q, SDNum f => close 0 q f
  | RDivZero _, SDRaise => true
  | RDivZero s, SDInf neg => if neg then (s <? 0)%Z else (0 <? s)%Z
  | RDivZero s, SDNaN => (s =? 0)%Z
  | _, _ => false
  end.

(* hourly gate: BaselineMetrics of the rows put on an HourlyModel, thresholds, observed verdict *)
Record gcase := {
  gc_den : positive; gc_rows : list (option Z * option Z * bool); gc_p : Z; gc_mn : Q;
  gc_tcv : Q; gc_tpn : Q; gc_acceptable : bool
}.
Definition mk_hrows (den : positive) (l : list (option Z * option Z * bool)) : list hrow :=
  map (fun r => (mk_cell den (fst (fst r)), mk_cell den (snd (fst r)), snd r)) l.
Definition check_gate (c : gcase) : bool :=
  match hourly_baseline_metrics (mk_hrows (gc_den c) (gc_rows c)) (gc_p c) (gc_mn c) with
  | None => false
  | Some m => Bool.eqb (negb (hourly_disqualified m (gc_tcv c) (gc_tpn c))) (gc_acceptable c)
  end.

(* hourly fit: the stored baseline_metrics are those of the measured rows of predict(baseline) *)
Record hcase := {
  hc_den : positive; hc_rows : list (option Z * option Z * bool); hc_p : Z; hc_mn : Q; hc_k : Q;
  hc_exp : list obsv
}.
Definition hourly_fields (c : hcase) : list bool :=
  match finite_pairs (measured_rows (mk_hrows (hc_den c) (hc_rows c))) with
  | [] => [false]
  | d => let m := baseline d (hc_p c) (hc_mn c) in
         zipcheck (baseline_checks m d (hc_p c) (hc_mn c) (hc_k c) (nth 1 (hc_exp c) ONone)) (hc_exp c)
  end.
Definition check_hourly (c : hcase) : bool := forallb (fun b => b) (hourly_fields c).
Definition hourly_bad (c : hcase) : list N := mismatches (hourly_fields c).

(* daily: _get_error_metrics (RMSE, MAE, CVRMSE, PNRMSE) and the gate *)
Record dcase := {
  dc_den : positive; dc_resid : list Z; dc_obs : list Z; dc_thr : Q;
  dc_exp : list obsv; dc_dq : bool
}.
Definition daily_fields (c : dcase) : list bool :=
  let resid := mk_list (dc_den c) (dc_resid c) in
  let obs := mk_list (dc_den c) (dc_obs c) in
  let e := daily_error resid obs in
  zipcheck [ val_match 0 (d_rmse e); num_match 0 (d_mae e); val_match 0 (d_cvrmse e); val_match 0 (d_pnrmse e) ]
           (dc_exp c)
  ++ [ Bool.eqb (daily_disqualified e (dc_thr c)) (dc_dq c) ].
Definition check_daily (c : dcase) : bool := forallb (fun b => b) (daily_fields c).
Definition daily_bad (c : dcase) : list N := mismatches (daily_fields c).

(* ReportingMetrics: n, observed_sum, predicted_sum, savings, total_savings_uncertainty *)
Record rcase := {
  rc_den : positive; rc_rows : list (option Z * option Z);
  rc_E_t_factor : Q * Q;       (* t quantile (scipy) and frequency factor, as the implementation holds them *)
  rc_cv : option (bool * Q);   (* the baseline's cvrmse_autocorr_adj as (negative?, value^2) ; None = not a number *)
  rc_n : Z; rc_np : Q;         (* baseline n and n' *)
  rc_exp : list obsv
}.
Definition reporting_fields (c : rcase) : list bool :=
  let r := reporting (mk_rows (rc_den c) (rc_rows c)) in
  let '(t, f) := rc_E_t_factor c in
  let cv := match rc_cv c with Some (neg, s) => Root neg s | None => Undef end in
  let u := savings_uncertainty (r_predicted_sum r) t f cv (rc_n c) (r_n r) (rc_np c) in
  zipcheck [ int_match (r_n r); num_match 0 (r_observed_sum r); num_match 0 (r_predicted_sum r);
             num_match (Qmax (Qabs (r_observed_sum r)) (Qabs (r_predicted_sum r))) (r_savings r);
             (fun o => match u with Undef => true | _ => val_match 0 u o end) ]
           (rc_exp c).
Definition check_reporting (c : rcase) : bool := forallb (fun b => b) (reporting_fields c).
Definition reporting_bad (c : rcase) : list N := mismatches (reporting_fields c).
