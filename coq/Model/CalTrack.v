(* Model of the CalTRACK hourly feature / segmentation code (property C18).

   - segment weights and month routing: opendsm/eemeter/models/hourly_caltrack/segmentation.py
     (_segment_weights_*, segment_time_series, SegmentedModel.predict) and model.py (_PredictionSegmentInfo),
     over the tables regenerated from the source on every run (Generated/CalTrackTables.v);
   - temperature bin features: opendsm/eemeter/common/features.py compute_temperature_bin_features,
     written once over an arbitrary number type and instantiated at Q (theorems, exact execution) and at
     binary64 (bit-exact execution against numpy);
   - hour of week, occupancy split: features.py compute_time_features / compute_occupancy_feature and the
     two caltrack_hourly_*_feature_processor functions of model.py.
   Definitions only; proofs are in Proofs/CalTrackProofs.v. *)
From Coq Require Import ZArith QArith Qminmax List Bool String Ascii PrimFloat.
From Coq Require Uint63.
From V Require Import Generated.CalTrackTables.
Import ListNotations.

(* ------------------------------------------------------------------------------------------------ *)
(* 1. segment weights                                                                                *)
(* ------------------------------------------------------------------------------------------------ *)

Definition seg_name (s : seg) : string := fst (fst s).
Definition seg_entries (s : seg) : list (Z * Q) := snd (fst s).
Definition seg_default (s : seg) : Q := snd s.

(* `index.month == n`, `i in months`, `weights.get(str(i), default)`: the explicit entry of the month if there
   is one, the default otherwise *)
Fixpoint lookup_month (m : Z) (l : list (Z * Q)) (d : Q) : Q :=
  match l with
  | [] => d
  | (k, w) :: r => if Z.eqb k m then w else lookup_month m r d
  end.
Definition seg_weight (s : seg) (m : Z) : Q := lookup_month m (seg_entries s) (seg_default s).

Fixpoint assoc {A} (k : string) (l : list (string * A)) : option A :=
  match l with
  | [] => None
  | (k', v) :: r => if String.eqb k' k then Some v else assoc k r
  end.

Definition table_of (type : string) : option (list seg) := assoc type segment_tables.

(* one row of segment_time_series(index, type): column name -> weight, for an hour whose local month is m *)
Definition row_weights (t : list seg) (m : Z) : list (string * Q) := map (fun s => (seg_name s, seg_weight s m)) t.
Definition segment_weights (type : string) (m : Z) : option (list (string * Q)) :=
  option_map (fun t => row_weights t m) (table_of type).

Definition months : list Z := [1; 2; 3; 4; 5; 6; 7; 8; 9; 10; 11; 12]%Z.
Definition prev_month (m : Z) : Z := if Z.eqb m 1 then 12%Z else (m - 1)%Z.
Definition next_month (m : Z) : Z := if Z.eqb m 12 then 1%Z else (m + 1)%Z.

Definition singleton {A} (l : list A) : option A := match l with [x] => Some x | _ => None end.

(* the segment in which month m carries full weight, when there is exactly one *)
Definition own_segment (t : list seg) (m : Z) : option string :=
  singleton (map seg_name (filter (fun s => Qeq_bool (seg_weight s m) 1%Q) t)).

(* the segment whose months of non-zero weight are exactly m and its two neighbours, each with full weight
   (used for the unweighted three-month tables, where full weight does not single out a segment) *)
Definition centred_on (s : seg) (c : Z) : bool :=
  forallb (fun m => Qeq_bool (seg_weight s m)
                      (if Z.eqb m c || Z.eqb m (prev_month c) || Z.eqb m (next_month c) then 1%Q else 0%Q)) months.
Definition centre_segment (t : list seg) (c : Z) : option string :=
  singleton (map seg_name (filter (fun s => centred_on s c) t)).

Definition tbl (type : string) : list seg := match table_of type with Some t => t | None => [] end.

(* ------------------------------------------------------------------------------------------------ *)
(* 2. month routing of predictions (SegmentedModel.predict with the _PredictionSegmentInfo of the fit type) *)
(* ------------------------------------------------------------------------------------------------ *)

(* model_lookup = { pred_name : fitted.get(fit_name) } or the fitted names themselves when there is no mapping *)
Definition fitted_name (mapping : option (list (string * string))) (pred_name : string) : option string :=
  match mapping with
  | None => Some pred_name
  | Some mp => assoc pred_name mp
  end.

(* the (fitted segment model, weight) products that are summed into the prediction of an hour of month m:
   one per prediction segment whose weight is > 0 at that hour and for which model_lookup has an entry *)
Definition prediction_terms (fit_type : string) (m : Z) : list (string * Q) :=
  match assoc fit_type prediction_info with
  | None => []
  | Some (ptype, mapping) =>
      flat_map (fun s =>
                  let w := seg_weight s m in
                  if Qle_bool w 0%Q then []
                  else match fitted_name mapping (seg_name s) with
                       | Some f => [(f, w)]
                       | None => []
                       end) (tbl ptype)
  end.

Definition prediction_segment (fit_type : string) (m : Z) : option string :=
  option_map fst (singleton (prediction_terms fit_type m)).

(* the same with the two things SegmentedModel.predict also depends on:
   - `present`: the local months that occur in the index handed to predict -- segment_time_series(...,
     drop_zero_weight_segments=True) keeps only the columns whose weights sum to more than zero over that index;
   - `fitted`: the names of the segment models the fitted model holds -- model_lookup.get(name) is None for a
     prediction segment whose fitted model is absent, and such a segment is skipped *)
Definition mem_str (x : string) (l : list string) : bool := existsb (String.eqb x) l.
Definition kept_segment (present : list Z) (s : seg) : bool :=
  existsb (fun m' => negb (Qle_bool (seg_weight s m') 0%Q)) present.
(* segment_time_series(index, type, drop_zero_weight_segments): with the flag, only the columns whose weights sum to more
   than zero over the index stay; `present` = the local months that occur in the index *)
Definition dropped_table (present : list Z) (t : list seg) : list seg := filter (kept_segment present) t.
Definition segment_weights_on (type : string) (drop : bool) (present : list Z) (m : Z) : option (list (string * Q)) :=
  option_map (fun t => row_weights (if drop then dropped_table present t else t) m) (table_of type).
(* the entries of a weight row that are above zero *)
Definition positive_row (t : list seg) (m : Z) : list (string * Q) :=
  filter (fun nw => negb (Qle_bool (snd nw) 0%Q)) (row_weights t m).

Definition prediction_terms_on (present : list Z) (fitted : list string) (fit_type : string) (m : Z) : list (string * Q) :=
  match assoc fit_type prediction_info with
  | None => []
  | Some (ptype, mapping) =>
      flat_map (fun s =>
                  let w := seg_weight s m in
                  if Qle_bool w 0%Q then []
                  else match fitted_name mapping (seg_name s) with
                       | Some f => if mem_str f fitted then [(f, w)] else []
                       | None => []
                       end) (filter (kept_segment present) (tbl ptype))
  end.
Definition prediction_segment_on (present : list Z) (fitted : list string) (fit_type : string) (m : Z) : option string :=
  option_map fst (singleton (prediction_terms_on present fitted fit_type m)).

Section PredictValue.
  (* what a fitted segment model answers for an hour is left abstract *)
  Variable V : Type.
  Variable vzero : V.
  Variable vadd : V -> V -> V.
  Variable vscale : Q -> V -> V.
  Variable models : string -> V.            (* value of the named fitted segment model at the hour in question *)
  (* predictions.sum(axis=1, min_count=1) over the per-segment columns; None = NaN (no column has a value) *)
  Definition predict_hour (fit_type : string) (m : Z) : option V :=
    match prediction_terms fit_type m with
    | [] => None
    | (f, w) :: rest => Some (fold_left (fun acc fw => vadd acc (vscale (snd fw) (models (fst fw)))) rest (vscale w (models f)))
    end.
End PredictValue.

(* ------------------------------------------------------------------------------------------------ *)
(* 3. temperature bin features                                                                       *)
(* ------------------------------------------------------------------------------------------------ *)

Record numops := {
  num : Type;
  nzero : num;
  nadd : num -> num -> num;
  nsub : num -> num -> num;
  nltb : num -> num -> bool;      (* a < b *)
  nleb : num -> num -> bool       (* a <= b *)
}.

Section Bins.
  Variable N : numops.
  Notation A := (num N).
  Notation zero := (nzero N).
  Notation add := (nadd N).
  Notation sub := (nsub N).
  Notation ltb := (nltb N).
  Notation leb := (nleb N).

  (* bin 0 = (-inf, e1]: temps_in_bin + temps_out_of_bin, each expanded with 0 *)
  Definition first_bin (T e1 : A) : A :=
    add (if leb T e1 then T else zero) (if leb T e1 then zero else e1).
  (* bin i = (l, r]: temps_in_bin (T - l) + temps_gt_bin (r - l), each expanded with 0 *)
  Definition mid_bin (T l r : A) : A :=
    add (if ltb l T && leb T r then sub T l else zero) (if ltb r T then sub r l else zero).
  (* last bin = (l, +inf]: every T > l is in the bin, none is beyond it *)
  Definition last_bin (T l : A) : A :=
    add (if ltb l T then sub T l else zero) zero.

  Fixpoint later_bins (T l : A) (rest : list A) : list A :=
    match rest with
    | [] => [last_bin T l]
    | r :: rest' => mid_bin T l r :: later_bins T r rest'
    end.

  (* finite temperature *)
  Definition bin_features (T : A) (e : list A) : list A :=
    match e with
    | [] => [add T zero]                       (* the single bin (-inf, +inf] *)
    | e1 :: rest => first_bin T e1 :: later_bins T e1 rest
    end.

  (* None = NaN: _mask_nans puts NaN into every bin of a row whose temperature is NaN *)
  Definition bin_features_opt (T : option A) (e : list A) : list (option A) :=
    match T with
    | Some t => map Some (bin_features t e)
    | None => map (fun _ => None) (bin_features zero e)
    end.

  (* occupancy split of the two feature processors:
       occupied[occupancy_feature == 0] = 0 ; unoccupied[occupancy_feature == 1] = 0
     occ = None stands for a NaN occupancy feature (hour of week absent from the lookup) *)
  Definition zeros (l : list (option A)) : list (option A) := map (fun _ => Some zero) l.
  Definition occupancy_split (occ : option bool) (T : option A) (e_occ e_unocc : list A)
    : list (option A) * list (option A) :=
    let o := bin_features_opt T e_occ in
    let u := bin_features_opt T e_unocc in
    (match occ with Some false => zeros o | _ => o end,
     match occ with Some true => zeros u | _ => u end).

  (* merge_features(...) at the end of both processors: a row with any NaN cell becomes all NaN
     (overwrite_partial_rows_with_nan); `others` says whether the remaining columns of the row
     (hour_of_week, weight, meter_value) are all present *)
  Definition present (o : option A) : bool := match o with Some _ => true | None => false end.
  Definition feature_row (others : bool) (occ : option bool) (T : option A) (e_occ e_unocc : list A)
    : list (option A) * list (option A) :=
    let ou := occupancy_split occ T e_occ e_unocc in
    if others && forallb present (fst ou) && forallb present (snd ou) then ou
    else (map (fun _ => None) (fst ou), map (fun _ => None) (snd ou)).

  Definition sum (l : list A) : A := fold_right add zero l.
End Bins.

(* the endpoint list a feature processor uses: bins[segment].index[bins[segment]].tolist(), i.e. the candidate
   endpoints (fit_temperature_bins default_bins, regenerated) whose keep-flag is set, in candidate order *)
Fixpoint select {A} (flags : list bool) (l : list A) : list A :=
  match flags, l with
  | b :: flags', x :: l' => if b then x :: select flags' l' else select flags' l'
  | _, _ => []
  end.
Definition endpoints_of_flags (flags : list bool) : list Q := select flags default_bins.
Definition endpoints_of_flags_f (flags : list bool) : list float := select flags default_bins_f.
(* the binary64 value of a rational num/den (exact when the rational is a double with a numerator below 2^53):
   used to state that the two regenerated candidate lists are the same numbers *)
Definition Z2F (z : Z) : float :=
  if Z.ltb z 0 then PrimFloat.opp (PrimFloat.of_uint63 (Uint63.of_Z (Z.opp z))) else PrimFloat.of_uint63 (Uint63.of_Z z).
Definition Q2F (q : Q) : float := PrimFloat.div (Z2F (Qnum q)) (Z2F (Zpos (Qden q))).

(* exact rationals *)
Definition Qltb (a b : Q) : bool := negb (Qle_bool b a).
Definition QOps : numops :=
  {| num := Q; nzero := 0%Q; nadd := Qplus; nsub := Qminus; nltb := Qltb; nleb := Qle_bool |}.

(* IEEE binary64; every primitive eta-expanded *)
Definition fadd (a b : float) : float := PrimFloat.add a b.
Definition fsub (a b : float) : float := PrimFloat.sub a b.
Definition fltb (a b : float) : bool := PrimFloat.ltb a b.
Definition fleb (a b : float) : bool := PrimFloat.leb a b.
Definition FOps : numops :=
  {| num := float; nzero := PrimFloat.zero; nadd := fadd; nsub := fsub; nltb := fltb; nleb := fleb |}.

Local Open Scope Q_scope.

(* the closed form the property text describes: first bin min(T, e1), later bins clamp(T - l, 0, r - l),
   last bin max(T - l, 0) *)
Definition Qclamp (x lo hi : Q) : Q := Qmax lo (Qmin x hi).
Fixpoint later_spec (T l : Q) (rest : list Q) : list Q :=
  match rest with
  | [] => [Qmax 0 (T - l)]
  | r :: rest' => Qclamp (T - l) 0 (r - l) :: later_spec T r rest'
  end.
Definition bin_spec (T : Q) (e : list Q) : list Q :=
  match e with
  | [] => [T]
  | e1 :: rest => Qmin T e1 :: later_spec T e1 rest
  end.

(* capacities of the bins that have one: e1 for the first, r - l for the inner ones (the last has none) *)
Fixpoint widths (l : Q) (rest : list Q) : list Q :=
  match rest with
  | [] => []
  | r :: rest' => (r - l) :: widths r rest'
  end.
Definition capacities (e : list Q) : list Q :=
  match e with [] => [] | e1 :: rest => e1 :: widths e1 rest end.

(* "each bin filled in order up to its width": no bin exceeds its capacity, and a bin holds something only
   when the one before it is full *)
Fixpoint filled_in_order (caps bins : list Q) : Prop :=
  match caps, bins with
  | [], [_] => True
  | c :: caps', b :: ((b' :: _) as bins') => b <= c /\ (0 < b' -> b == c) /\ filled_in_order caps' bins'
  | _, _ => False
  end.

Fixpoint increasing (e : list Q) : Prop :=
  match e with
  | [] => True
  | a :: rest => match rest with [] => True | b :: _ => a <= b end /\ increasing rest
  end.

(* ------------------------------------------------------------------------------------------------ *)
(* 4. hour of week                                                                                   *)
(* ------------------------------------------------------------------------------------------------ *)

(* compute_time_features: dow_feature * 24 + hod_feature (dayofweek: Monday = 0) *)
Definition hour_of_week (dow hour : Z) : Z := (dow * 24 + hour)%Z.

(* ------------------------------------------------------------------------------------------------ *)
(* 5. the month under which the wrapper files a fitted segment's uncertainty figures                 *)
(* ------------------------------------------------------------------------------------------------ *)

(* str.replace(a, b): every non-overlapping occurrence, left to right (fuel = length of the string) *)
Fixpoint drop_chars (n : nat) (s : string) : string :=
  match n, s with
  | S n', String _ r => drop_chars n' r
  | _, _ => s
  end.
Fixpoint replace_fuel (fuel : nat) (a b s : string) : string :=
  match fuel with
  | O => s
  | S fuel' =>
      match s with
      | EmptyString => EmptyString
      | String c r =>
          if String.prefix a s then String.append b (replace_fuel fuel' a b (drop_chars (String.length a) s))
          else String c (replace_fuel fuel' a b r)
      end
  end.
Definition str_replace (a b s : string) : string :=
  match a with EmptyString => s | _ => replace_fuel (String.length s) a b s end.
(* str.split(sep) for a one-character separator *)
Fixpoint str_split (sep : ascii) (s : string) : list string :=
  match s with
  | EmptyString => [EmptyString]
  | String c r =>
      if Ascii.eqb c sep then EmptyString :: str_split sep r
      else match str_split sep r with
           | [] => [String c EmptyString]
           | h :: t => String c h :: t
           end
  end.
(* k.replace(A, B).split(SEP)[I]; None = IndexError *)
Definition month_key (k : string) : option string :=
  nth_error (str_split wrapper_key_sep (str_replace (fst wrapper_key_replace) (snd wrapper_key_replace) k)) wrapper_key_index.
(* model_month_dict = {month_key k : k for k in fitted names} (a later k overwrites an earlier one with the same key);
   _autocorr_unc_vars[month_dict[abbr]] takes n and n_prime from model_metrics[model_month_dict[abbr]] and the mean
   and MSE from the hours of that calendar month.  The fitted segment filed under month m: *)
Definition unc_segment (names : list string) (m : Z) : option string :=
  fold_left (fun acc k => match month_key k with
                          | Some a => match assoc a wrapper_month_dict with
                                      | Some n => if Z.eqb n m then Some k else acc
                                      | None => acc
                                      end
                          | None => acc
                          end) names None.
