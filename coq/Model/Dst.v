(* C06 — clock normalisation of the hourly model (opendsm/eemeter/models/hourly/model.py).

   Executable definitions only.  A reporting frame is a list of local calendar days, a day is the list of
   its rows in chronological order, and a row carries its UTC instant (minutes), its local clock hour and
   whether the `observed` cell is non-null.  UTC offsets are data: the harness reads them from the tz database
   (zoneinfo, independently of pandas) and hands the model the local hour of every row; nothing here knows what
   a time zone is.  The model only sees days with 23, 24, 25 (or any other number of) rows, and, per day, whether
   the label lookup `df.loc["YYYY-MM-DD"]` can be resolved (`d_loc`): pandas has to localise the wall-clock
   readings 00:00:00 and 23:59:59.999999999 of the date, which raises KeyError when the first one does not exist
   or is ambiguous, and ValueError when the second one is (zones whose clock changes at local midnight).

   Mirrored literally:
     _get_contiguous_datetime data.py:200-221     contiguous_index
     _get_dst_indices        model.py:1409-1442   get_dst_indices
     correct_dst (closure)   model.py:980-996     correct_dst   (one feature column at a time, see below)
     np.array(agg_x)/reshape model.py:1002-1006   feature_matrix (ragged -> ValueError)
     _transform_dst          model.py:1445-1477   transform_dst (fence-post slicing)
     the commented loop      model.py:1479-1493   loop_spec     (its specification)
     _predict                model.py:382-418     hourly_predict (assignment needs equal length, reindex)

   Python lists of features: `agg[date]` is a list of per-feature lists and the closure treats every feature
   with the same index arithmetic (`agg[date-1][feature_idx]` is the same feature of the previous day), so the
   model is written for one feature; the correspondence runs it on every feature of the real call. *)
From Coq Require Import ZArith List Bool Arith Lia.
Import ListNotations.

Record hour_stamp := { hs_utc : Z; hs_hour : nat; hs_obs : bool }.

(* exception classes of the mirrored code *)
Inductive err :=
| EValue      (* ValueError("too many missing hours"); ValueError from tz localisation of the end of a date *)
| EKey        (* KeyError: df.loc["YYYY-MM-DD"] when local midnight of the date does not exist / is ambiguous *)
| EIndex      (* IndexError: list / array index out of range *)
| EUnbound    (* UnboundLocalError: `hour` read before assignment in the 25-hour loop *)
| ERagged     (* ValueError: np.array on day lists of unequal length *)
| EShape      (* ValueError: feature matrix with a width other than 24 slots per day (sklearn predict) *)
| ELength     (* ValueError: df["predicted"] = y with len(y) <> len(df) *)
| EDupIndex.  (* ValueError: cannot reindex on an axis with duplicate labels *)

Record day := { d_rows : list hour_stamp; d_loc : option err }.   (* d_loc = Some e: df.loc[date label] raises e *)

Inductive res (A : Type) : Type := Ok (a : A) | Err (e : err).
Arguments Ok {A} a.
Arguments Err {A} e.

Definition bind {A B} (r : res A) (f : A -> res B) : res B :=
  match r with Ok a => f a | Err e => Err e end.

(* ------------------------------------------------------------------ _get_contiguous_datetime (data.py:200-221)
   pd.date_range(start = first stamp at local 00:00, end = last stamp at local 23:00, freq = "h"): one stamp every
   60 minutes of real time from s up to (and including, when it is on the grid) e; the frame is re-indexed onto it.
   s and e are data (local wall-clock readings resolved through the tz database). *)
Definition contiguous_index (s e : Z) : list Z :=
  if (e <? s)%Z then [] else map (fun k => (s + 60 * Z.of_nat k)%Z) (seq 0 (S (Z.to_nat ((e - s) / 60)))).

(* ------------------------------------------------------------------ _get_dst_indices *)

(* The two places where the code as it is breaks the property are switches of the model, so that the same text
   describes the code of round 1 (`as_coded`), the code after the repair of D11 (`d11_repaired`) and after the
   proposed repair of D18 as well (`repaired`); the harness
   detects which one the implementation shows (probe) and the theorems are stated for both.
     count_rows   false: counts = df.groupby(date).count()["observed"]  (non-null usage cells: D11)
                  true : rows of the date (groupby(date).size())
     loc_by_mask  false: month = df.loc[date.isoformat()]  (label lookup, fails at midnight changes: D18)
                  true : month = df[df.index.date == date] *)
Record policy := { count_rows : bool; loc_by_mask : bool }.
Definition as_coded : policy := {| count_rows := false; loc_by_mask := false |}.
Definition d11_repaired : policy := {| count_rows := true; loc_by_mask := false |}.   (* /repo since commit 1e1d6b17 *)
Definition repaired : policy := {| count_rows := true; loc_by_mask := true |}.

(* counts = df.groupby(df.index.date).count(); counts["observed"] : non-null `observed` cells of the date *)
Definition count_obs (d : day) : nat := length (filter hs_obs (d_rows d)).
Definition day_count (pol : policy) (d : day) : nat := if count_rows pol then length (d_rows d) else count_obs d.
Definition day_loc (pol : policy) (d : day) : option err := if loc_by_mask pol then None else d_loc d.
Definition hours (d : day) : list nat := map hs_hour (d_rows d).

(* set(range(24)) - set(month.index.hour) *)
Definition missing_of (hs : list nat) : list nat :=
  filter (fun h => negb (existsb (Nat.eqb h) hs)) (seq 0 24).
Definition missing_hours (d : day) : list nat := missing_of (hours d).

(* for i in month.index: if i.hour in seen: hour = i.hour; break; seen.add(i.hour) *)
Fixpoint first_repeat (seen : list nat) (hs : list nat) : option nat :=
  match hs with
  | [] => None
  | h :: t => if existsb (Nat.eqb h) seen then Some h else first_repeat (h :: seen) t
  end.

Definition dst_indices := (list (nat * nat) * list (nat * nat))%type.   (* (interp, mean) : (date_idx, hour) *)

(* first loop; `last` is the Python variable `hour`, which survives into the second loop *)
Fixpoint interp_loop (pol : policy) (i : nat) (days : list day) (last : option nat)
  : res (list (nat * nat) * option nat) :=
  match days with
  | [] => Ok ([], last)
  | d :: rest =>
      if day_count pol d =? 23 then
        match day_loc pol d with
        | Some e => Err e                               (* month = df.loc[idx.isoformat()] *)
        | None =>
            match missing_hours d with
            | [h] => bind (interp_loop pol (S i) rest (Some h)) (fun '(l, last') => Ok ((i, h) :: l, last'))
            | _ => Err EValue
            end
        end
      else interp_loop pol (S i) rest last
  end.

Fixpoint mean_loop (pol : policy) (i : nat) (days : list day) (last : option nat) : res (list (nat * nat)) :=
  match days with
  | [] => Ok []
  | d :: rest =>
      if day_count pol d =? 25 then
        match day_loc pol d with
        | Some e => Err e
        | None =>
            let last' := match first_repeat [] (hours d) with Some h => Some h | None => last end in
            match last' with
            | None => Err EUnbound
            | Some h => bind (mean_loop pol (S i) rest last') (fun l => Ok ((i, h) :: l))
            end
        end
      else mean_loop pol (S i) rest last
  end.

Definition get_dst_indices (pol : policy) (days : list day) : res dst_indices :=
  bind (interp_loop pol 0 days None) (fun '(interp, last) =>
  bind (mean_loop pol 0 days last) (fun mean => Ok (interp, mean))).

(* ------------------------------------------------------------------ operations of _transform_dst *)

Inductive opkind := REMOVE | INTERPOLATE.
Definition op := (opkind * nat)%type.

Definition is_interp (o : op) : bool := match fst o with INTERPOLATE => true | REMOVE => false end.
Definition is_remove (o : op) : bool := negb (is_interp o).

Definition remove_ops (interp : list (nat * nat)) : list op :=
  map (fun dh => (REMOVE, fst dh * 24 + snd dh)) interp.
Definition interp_ops (mean : list (nat * nat)) : list op :=
  map (fun dh => (INTERPOLATE, fst dh * 24 + snd dh + 1)) mean.

(* sorted(remove_idx + interp_idx, key=lambda t: t[1]) — Python's sort is stable *)
Fixpoint insert_op (x : op) (l : list op) : list op :=
  match l with
  | [] => [x]
  | y :: t => if snd x <=? snd y then x :: l else y :: insert_op x t
  end.
Definition sort_ops (l : list op) : list op := fold_right insert_op [] l.

Section Values.
  Context {V : Type}.
  Variable mean2 : V -> V -> V.          (* (a + b) / 2, arguments in the order the code evaluates them *)

  (* -------------------------------------------------------------- correct_dst *)

  Definition nth_res (l : list V) (n : nat) : res V :=
    match nth_error l n with Some v => Ok v | None => Err EIndex end.
  (* l[-1] *)
  Definition last_res (l : list V) : res V := nth_res l (length l - 1).

  Definition insert_at (n : nat) (x : V) (l : list V) : list V := firstn n l ++ x :: skipn n l.  (* list.insert *)
  Definition delete_at (n : nat) (l : list V) : list V := firstn n l ++ skipn (S n) l.           (* list.pop / np.delete *)
  Definition set_at (n : nat) (x : V) (l : list V) : list V := firstn n l ++ x :: skipn (S n) l. (* l[n] = x, n < len *)

  Fixpoint replace_day (n : nat) (f : list V) (agg : list (list V)) : list (list V) :=
    match agg, n with
    | [], _ => []
    | _ :: t, O => f :: t
    | x :: t, S m => x :: replace_day m f t
    end.

  (* one iteration of `for date, hour in interp` *)
  Definition interp_day (agg : list (list V)) (date hour : nat) : res (list (list V)) :=
    match nth_error agg date with
    | None => Err EIndex
    | Some feature =>
        let prev :=
          if hour =? 0 then
            (* agg[date - 1][feature_idx][-1]; for date = 0 Python's agg[-1] is the LAST day *)
            match nth_error agg (if date =? 0 then length agg - 1 else date - 1) with
            | Some p => last_res p
            | None => Err EIndex
            end
          else nth_res feature (hour - 1) in
        bind prev (fun a =>
        bind (nth_res feature hour) (fun b =>
        Ok (replace_day date (insert_at hour (mean2 a b) feature) agg)))
    end.

  (* one iteration of `for date, hour in mean`:  mean = (feature[hour+1] + feature.pop(hour)) / 2; feature[hour] = mean *)
  Definition mean_day (agg : list (list V)) (date hour : nat) : res (list (list V)) :=
    match nth_error agg date with
    | None => Err EIndex
    | Some feature =>
        bind (nth_res feature (hour + 1)) (fun a =>
        bind (nth_res feature hour) (fun b =>
        let popped := delete_at hour feature in
        if hour <? length popped then Ok (replace_day date (set_at hour (mean2 a b) popped) agg)
        else Err EIndex))
    end.

  Fixpoint fold_days (step : list (list V) -> nat -> nat -> res (list (list V)))
           (l : list (nat * nat)) (agg : list (list V)) : res (list (list V)) :=
    match l with
    | [] => Ok agg
    | (d, h) :: t => bind (step agg d h) (fold_days step t)
    end.

  Definition correct_dst (agg : list (list V)) (idx : dst_indices) : res (list (list V)) :=
    bind (fold_days interp_day (fst idx) agg) (fold_days mean_day (snd idx)).

  (* np.array(agg_x): day lists of unequal length cannot be stacked *)
  Definition uniform (agg : list (list V)) : bool :=
    match agg with
    | [] => true
    | f :: t => forallb (fun g => length g =? length f) t
    end.

  Definition feature_matrix (agg : list (list V)) (idx : dst_indices) : res (list (list V)) :=
    bind (correct_dst agg idx) (fun a => if uniform a then Ok a else Err ERagged).

  (* -------------------------------------------------------------- _transform_dst *)

  (* prediction[slice(a, b)] for 0 <= a, b *)
  Definition slice (a b : nat) (l : list V) : list V := firstn (b - a) (skipn a l).

  (* interpolated_vals, in the order of `mean` *)
  Fixpoint interp_vals (pred : list V) (idxs : list nat) : res (list V) :=
    match idxs with
    | [] => Ok []
    | i :: t =>
        match nth_error pred (i - 1), nth_error pred i with
        | Some a, Some b => bind (interp_vals pred t) (fun l => Ok (mean2 a b :: l))
        | _, _ => Err EIndex
        end
    end.

  (* the loop over `pairs`; prev = None stands for the fence post (START_END, 0), the closing post
     (START_END, None) is the [] case.  `vals` is the iterator `interpolation`. *)
  Fixpoint slices (pred : list V) (prev : option op) (ops : list op) (vals : list V) : list V :=
    let start_i := match prev with
                   | None => 0
                   | Some (REMOVE, i) => i + 1
                   | Some (INTERPOLATE, i) => i
                   end in
    let '(ins, vals') := match prev with
                         | Some (INTERPOLATE, _) =>
                             match vals with v :: vs => ([v], vs) | [] => ([], []) end
                         | _ => ([], vals)
                         end in
    match ops with
    | [] => ins ++ skipn start_i pred
    | o :: rest => ins ++ slice start_i (snd o) pred ++ slices pred (Some o) rest vals'
    end.

  Definition transform_dst (pred : list V) (idx : dst_indices) : res (list V) :=
    let rem := remove_ops (fst idx) in
    let ins := interp_ops (snd idx) in
    bind (interp_vals pred (map snd ins)) (fun vals =>
    Ok (slices pred None (sort_ops (rem ++ ins)) vals)).

  (* the commented "equivalent" block of the source, lines 1479-1493; None = np.delete / np.insert / indexing
     outside the array (the loop has no meaning there) *)
  Fixpoint loop_spec (p : list V) (shift : Z) (ops : list op) : option (list V) :=
    match ops with
    | [] => Some p
    | (REMOVE, i) :: rest =>
        let idx := (Z.of_nat i + shift)%Z in
        if ((idx <? 0) || (Z.of_nat (length p) <=? idx))%Z then None
        else loop_spec (delete_at (Z.to_nat idx) p) (shift - 1)%Z rest
    | (INTERPOLATE, i) :: rest =>
        let idx := (Z.of_nat i + shift)%Z in
        if (idx <? 1)%Z then None
        else match nth_error p (Z.to_nat idx - 1), nth_error p (Z.to_nat idx) with
             | Some a, Some b => loop_spec (insert_at (Z.to_nat idx) (mean2 a b) p) (shift + 1)%Z rest
             | _, _ => None
             end
    end.

  Definition transform_spec (pred : list V) (idx : dst_indices) : option (list V) :=
    loop_spec pred 0%Z (sort_ops (remove_ops (fst idx) ++ interp_ops (snd idx))).

  (* -------------------------------------------------------------- _predict *)

  Variable feat : hour_stamp -> V.               (* the (normalised) feature value of a row *)
  Variable regress : list (list V) -> list V.    (* self._model.predict + inverse scaling + flatten: not modelled *)

  Definition rows_of (days : list day) : list hour_stamp := concat (map d_rows days).
  Definition index_of (days : list day) : list Z := map hs_utc (rows_of days).

  Fixpoint has_dup (l : list Z) : bool :=
    match l with
    | [] => false
    | x :: t => existsb (Z.eqb x) t || has_dup t
    end.

  Definition lookup (rows : list (Z * V)) (t : Z) : option V :=
    match find (fun r => Z.eqb (fst r) t) rows with Some r => Some (snd r) | None => None end.

  (* DataFrame.reindex(target): one row per target label, NaN (None) where the label is absent *)
  Definition reindex (rows : list (Z * V)) (target : list Z) : res (list (Z * option V)) :=
    if has_dup (map fst rows) then Err EDupIndex
    else Ok (map (fun t => (t, lookup rows t)) target).

  Definition all24 (agg : list (list V)) : bool := forallb (fun f => length f =? 24) agg.

  Definition hourly_predict (pol : policy) (days : list day) : res (list (Z * option V)) :=
    bind (get_dst_indices pol days) (fun idx =>
    bind (feature_matrix (map (fun d => map feat (d_rows d)) days) idx) (fun agg =>
    if negb (all24 agg) then Err EShape else
    bind (transform_dst (regress agg) idx) (fun y =>
    let index := index_of days in
    if negb (length y =? length index) then Err ELength
    else reindex (combine index y) index))).

End Values.

(* ------------------------------------------------------------------ specification side: clock patterns
   A reporting frame as the theorems see it: every local day is a regular day (24 clock hours), a short day (the
   clock skips hour h: 23 rows) or a long day (hour h occurs twice in a row: 25 rows), for ANY h in 0..23 — the
   theorems quantify over all such patterns rather than over time zones. *)
Inductive daykind := Reg | Short (h : nat) | Long (h : nat).

Definition clock_hours (k : daykind) : list nat :=
  match k with
  | Reg => seq 0 24
  | Short h => seq 0 h ++ seq (S h) (23 - h)
  | Long h => seq 0 (S h) ++ seq h (24 - h)
  end.

Definition kind_ok (k : daykind) : bool :=
  match k with Reg => true | Short h => h <? 24 | Long h => h <? 24 end.

(* the indices _get_dst_indices is expected to return on such a frame, day numbering starting at i *)
Fixpoint interp_of (i : nat) (pat : list daykind) : list (nat * nat) :=
  match pat with
  | [] => []
  | Short h :: p => (i, h) :: interp_of (S i) p
  | _ :: p => interp_of (S i) p
  end.
Fixpoint mean_of (i : nat) (pat : list daykind) : list (nat * nat) :=
  match pat with
  | [] => []
  | Long h :: p => (i, h) :: mean_of (S i) p
  | _ :: p => mean_of (S i) p
  end.
Definition indices_of (pat : list daykind) : dst_indices := (interp_of 0 pat, mean_of 0 pat).

(* the operations of _transform_dst in calendar order *)
Fixpoint ops_of (i : nat) (pat : list daykind) : list op :=
  match pat with
  | [] => []
  | Reg :: p => ops_of (S i) p
  | Short h :: p => (REMOVE, i * 24 + h) :: ops_of (S i) p
  | Long h :: p => (INTERPOLATE, i * 24 + h + 1) :: ops_of (S i) p
  end.

(* guards of the theorems (each excluded region is a `_refuted` witness in Properties/C06.v):
   - a short day that skips hour 23: correct_dst reads feature[23] of a 23-element list
   - a long day that repeats hour 23 as the LAST day: _transform_dst reads prediction[24*n]
   - a long day repeating hour 23 directly followed by a short day skipping hour 0: REMOVE and INTERPOLATE fall on
     the same index and the fence-post slicing differs from the insert/delete loop *)
Fixpoint pattern_ok (pat : list daykind) : bool :=
  match pat with
  | [] => true
  | Short h :: p => (h <? 23) && pattern_ok p
  | Long h :: p =>
      (h <? 24) && pattern_ok p &&
      (if h =? 23 then match p with [] => false | Short 0 :: _ => false | _ => true end else true)
  | Reg :: p => pattern_ok p
  end.

Definition total_rows (pat : list daykind) : nat := length (concat (map clock_hours pat)).

Section BySpec.
  Context {V : Type}.
  Variable mean2 : V -> V -> V.

  (* what _transform_dst has to deliver, day by day, from 24 slots per day:
     regular day: its 24 slots; short day: the synthesised slot h removed; long day: slot h (the merged hour) is the
     first occurrence of hour h, the second occurrence receives the mean of slot h and the following slot *)
  Fixpoint by_day (pat : list daykind) (pred : list V) : option (list V) :=
    match pat with
    | [] => Some []
    | k :: p =>
        let s := firstn 24 pred in
        match by_day p (skipn 24 pred) with
        | None => None
        | Some out =>
            match k with
            | Reg => Some (s ++ out)
            | Short h => Some (delete_at h s ++ out)
            | Long h =>
                match nth_error pred h, nth_error pred (S h) with
                | Some a, Some b => Some (firstn (S h) s ++ mean2 a b :: skipn (S h) s ++ out)
                | _, _ => None
                end
            end
        end
    end.
End BySpec.
