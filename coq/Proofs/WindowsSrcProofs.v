(* C20: what each field of [modelled_wsrc] means on the functions of Model/Windows.v. *)
From Coq Require Import ZArith List Bool Lia.
From V Require Import Model.Windows Model.WindowsSrc.
Import ListNotations.
Open Scope Z_scope.

Lemma modelled_day_unit_l : day_ns (w_day_unit modelled_wsrc) = Some DAY.
Proof. reflexivity. Qed.

Lemma modelled_slices_l : forall e d r,
  (In r (slice_to e d) <-> In r d /\ cmpz CLe (ts r) e = true) /\
  (In r (slice_from e d) <-> In r d /\ cmpz CLe e (ts r) = true).
Proof. intros e d r; unfold slice_to, slice_from, cmpz; rewrite !filter_In; tauto. Qed.

Lemma modelled_max_days_l : forall o before e m,
  b_end o = Some e -> b_ignore_gap o = false -> b_max_days o = Some m ->
  baseline_start_target o before = Some (e - m * DAY).
Proof.
  intros o before e m He Hi Hm. unfold baseline_start_target, baseline_end_limit.
  rewrite He, Hi, Hm. reflexivity.
Qed.

Lemma modelled_max_days_reporting_l : forall o after s m,
  r_start o = Some s -> r_ignore_gap o = false -> r_max_days o = Some m ->
  reporting_end_target o after = Some (s + m * DAY).
Proof.
  intros o after s m Hs Hi Hm. unfold reporting_end_target, reporting_start_limit.
  rewrite Hs, Hi, Hm. reflexivity.
Qed.

(* max_days = 0 is a limit like any other (the guard is `is not None`) *)
Lemma modelled_max_days_zero_l : forall o before e,
  b_end o = Some e -> b_ignore_gap o = false -> b_max_days o = Some 0 ->
  baseline_start_target o before = Some e.
Proof. intros o before e He Hi Hm. rewrite (modelled_max_days_l o before e 0 He Hi Hm). f_equal. lia. Qed.

Lemma modelled_overshoot_tolerance_l : forall o before e n,
  b_end o = Some e -> b_ignore_gap o = true -> b_n_over o = Some n ->
  baseline_end_limit o before =
    if cmpz (w_overshoot_tolerance_cmp modelled_wsrc) (e - n * DAY) (last_ts before e)
    then Some (last_ts before e) else Some e.
Proof. intros o before e n He Hi Hn. unfold baseline_end_limit. rewrite He, Hi, Hn. reflexivity. Qed.

Definition lookup_fn (l : lookup) : list row -> Z -> option Z :=
  match l with Nearest => nearest | Pad => pad | Backfill => backfill end.

Lemma modelled_lookup_l : lookup_fn (w_boundary_lookup modelled_wsrc) = nearest.
Proof. reflexivity. Qed.
