(* Lemmas about Model/BillingAgg.v (C19). *)
From Coq Require Import ZArith QArith Qabs List Bool String Ascii Lia FinFun.
From V Require Import Model.BillingAgg.
Import ListNotations.

(* ---------------------------------------------------------------- sums *)
Open Scope Q_scope.

Lemma nansum_nil : nansum [] == 0.
Proof. reflexivity. Qed.

Lemma nansum_cons : forall c l, nansum (c :: l) == cval c + nansum l.
Proof. intros. unfold nansum. cbn [fold_right]. apply Qred_correct. Qed.

Lemma qsum_cons : forall x l, qsum (x :: l) == x + qsum l.
Proof. intros. unfold qsum. cbn [fold_right]. apply Qred_correct. Qed.

Lemma qsum_ext : forall (B : Type) (f h : B -> Q) l,
  (forall j, In j l -> f j == h j) -> qsum (map f l) == qsum (map h l).
Proof.
  intros B f h. induction l as [|j l IH]; intros H; [reflexivity|].
  cbn [map]. rewrite !qsum_cons. rewrite (H j (or_introl eq_refl)), IH; [reflexivity|].
  intros x Hx. apply H. right. exact Hx.
Qed.

Lemma qsum_add : forall (B : Type) (f h : B -> Q) l,
  qsum (map (fun j => f j + h j) l) == qsum (map f l) + qsum (map h l).
Proof.
  intros B f h. induction l as [|j l IH]; [reflexivity|].
  cbn [map]. rewrite !qsum_cons, IH. ring.
Qed.

Lemma qsum_zero : forall (B : Type) (l : list B), qsum (map (fun _ => 0) l) == 0.
Proof.
  intros B. induction l as [|j l IH]; [reflexivity|]. cbn [map]. rewrite qsum_cons, IH. ring.
Qed.

(* a NoDup list of keys: the indicator of one of them sums to the value *)
Lemma qsum_indicator : forall (v : Q) (k : Z) (js : list Z), NoDup js ->
  qsum (map (fun j => if (k =? j)%Z then v else 0) js) == (if existsb (Z.eqb k) js then v else 0).
Proof.
  intros v k. induction js as [|j js IH]; intros Hnd; [reflexivity|].
  inversion Hnd as [|? ? Hj Hnd']; subst. cbn [map existsb]. rewrite qsum_cons, (IH Hnd').
  destruct (k =? j)%Z eqn:E; cbn [orb].
  - apply Z.eqb_eq in E. subst j.
    assert (Hn : existsb (Z.eqb k) js = false).
    { destruct (existsb (Z.eqb k) js) eqn:E2; [|reflexivity]. apply existsb_exists in E2.
      destruct E2 as [x [Hx Ex]]. apply Z.eqb_eq in Ex. subst x. contradiction. }
    rewrite Hn. ring.
  - ring.
Qed.

Lemma existsb_In_Z : forall k js, In k js -> existsb (Z.eqb k) js = true.
Proof. intros k js H. apply existsb_exists. exists k. split; [exact H | apply Z.eqb_refl]. Qed.

(* the partition lemma: grouping rows by a key into NoDup bins that cover every key conserves any NaN-skipping sum *)
Section Partition.
  Variable key : drow -> Z.
  Variable col : drow -> cell.

  Lemma nansum_filter_cons : forall j r rows,
    nansum (map col (filter (fun x => (key x =? j)%Z) (r :: rows)))
    == (if (key r =? j)%Z then cval (col r) else 0) + nansum (map col (filter (fun x => (key x =? j)%Z) rows)).
  Proof.
    intros. cbn [filter]. destruct (key r =? j)%Z; cbn [map]; [apply nansum_cons | ring].
  Qed.

  Lemma partition_conserves : forall js rows, NoDup js -> (forall r, In r rows -> In (key r) js) ->
    qsum (map (fun j => nansum (map col (filter (fun x => (key x =? j)%Z) rows))) js) == nansum (map col rows).
  Proof.
    intros js rows Hnd. induction rows as [|r rows IH]; intros Hin.
    - cbn [filter map]. rewrite qsum_zero. reflexivity.
    - rewrite (qsum_ext _ _ (fun j => (if (key r =? j)%Z then cval (col r) else 0)
                                      + nansum (map col (filter (fun x => (key x =? j)%Z) rows)))).
      2:{ intros j _. apply nansum_filter_cons. }
      rewrite qsum_add, IH. 2:{ intros x Hx. apply Hin. right. exact Hx. }
      rewrite (qsum_indicator _ _ _ Hnd), (existsb_In_Z _ _ (Hin r (or_introl eq_refl))).
      cbn [map]. rewrite nansum_cons. reflexivity.
  Qed.
End Partition.

(* ---------------------------------------------------------------- bins *)
Open Scope Z_scope.

Lemma min_month_le : forall rows m0 r, min_month rows = Some m0 -> In r rows -> m0 <= row_month r.
Proof.
  intros [|x l] m0 r H Hin; [destruct Hin|]. cbn [min_month] in H. inversion H; subst m0. clear H.
  assert (G : forall l a, fold_right (fun x acc => Z.min (row_month x) acc) a l <= a /\
                          (forall y, In y l -> fold_right (fun x acc => Z.min (row_month x) acc) a l <= row_month y)).
  { induction l0 as [|y l0 IH]; intros a; cbn [fold_right]; [split; [lia | intros ? []]|].
    destruct (IH a) as [H1 H2]. split; [lia|]. intros z [E|Hz]; [subst; lia | specialize (H2 z Hz); lia]. }
  destruct (G l (row_month x)) as [H1 H2]. destruct Hin as [E|Hin]; [subst; exact H1 | apply H2; exact Hin].
Qed.

Lemma max_month_ge : forall rows m1 r, max_month rows = Some m1 -> In r rows -> row_month r <= m1.
Proof.
  intros [|x l] m1 r H Hin; [destruct Hin|]. cbn [max_month] in H. inversion H; subst m1. clear H.
  assert (G : forall l a, a <= fold_right (fun x acc => Z.max (row_month x) acc) a l /\
                          (forall y, In y l -> row_month y <= fold_right (fun x acc => Z.max (row_month x) acc) a l)).
  { induction l0 as [|y l0 IH]; intros a; cbn [fold_right]; [split; [lia | intros ? []]|].
    destruct (IH a) as [H1 H2]. split; [lia|]. intros z [E|Hz]; [subst; lia | specialize (H2 z Hz); lia]. }
  destruct (G l (row_month x)) as [H1 H2]. destruct Hin as [E|Hin]; [subst; exact H1 | apply H2; exact Hin].
Qed.

(* the earliest and the latest month are months of rows of the frame *)
Lemma min_month_attained : forall rows m0, min_month rows = Some m0 -> exists r, In r rows /\ row_month r = m0.
Proof.
  intros [|x l] m0 H; [discriminate|]. cbn [min_month] in H. inversion H; subst m0. clear H.
  induction l as [|y l IH]; cbn [fold_right].
  - exists x. split; [left; reflexivity | reflexivity].
  - destruct IH as [r [Hr Er]].
    destruct (Z.min_spec (row_month y) (fold_right (fun x0 acc => Z.min (row_month x0) acc) (row_month x) l)) as [[_ E]|[_ E]];
      rewrite E.
    + exists y. split; [right; left; reflexivity | reflexivity].
    + exists r. split; [|exact Er]. destruct Hr as [Hr|Hr]; [left; exact Hr | right; right; exact Hr].
Qed.

Lemma max_month_attained : forall rows m1, max_month rows = Some m1 -> exists r, In r rows /\ row_month r = m1.
Proof.
  intros [|x l] m1 H; [discriminate|]. cbn [max_month] in H. inversion H; subst m1. clear H.
  induction l as [|y l IH]; cbn [fold_right].
  - exists x. split; [left; reflexivity | reflexivity].
  - destruct IH as [r [Hr Er]].
    destruct (Z.max_spec (row_month y) (fold_right (fun x0 acc => Z.max (row_month x0) acc) (row_month x) l)) as [[_ E]|[_ E]];
      rewrite E.
    + exists r. split; [|exact Er]. destruct Hr as [Hr|Hr]; [left; exact Hr | right; right; exact Hr].
    + exists y. split; [right; left; reflexivity | reflexivity].
Qed.

Lemma bins_In : forall k m0 m1 j, 0 <= (m1 - m0) / k -> (In j (bins k m0 m1) <-> 0 <= j <= (m1 - m0) / k).
Proof.
  intros k m0 m1 j Hp. unfold bins. rewrite in_map_iff. split.
  - intros [n [E Hn]]. apply in_seq in Hn. subst j. lia.
  - intros H. exists (Z.to_nat j). split; [lia | apply in_seq; lia].
Qed.

Lemma bins_NoDup : forall k m0 m1, NoDup (bins k m0 m1).
Proof.
  intros. unfold bins. apply Injective_map_NoDup; [|apply seq_NoDup].
  intros a b E. lia.
Qed.

Lemma bins_length : forall k m0 m1, List.length (bins k m0 m1) = Z.to_nat ((m1 - m0) / k + 1).
Proof. intros. unfold bins. rewrite map_length, seq_length. reflexivity. Qed.

(* a row belongs to bin j exactly when its calendar month lies in the k months starting at  m0 + k*j *)
Lemma in_bin_spec : forall k m0 j r, 0 < k ->
  (in_bin k m0 j r = true <-> m0 + k * j <= row_month r < m0 + k * (j + 1)).
Proof.
  intros k m0 j r Hk. unfold in_bin, bin_of. rewrite Z.eqb_eq. split; intros H.
  - subst j. pose proof (Z.mul_div_le (row_month r - m0) k Hk).
    pose proof (Z.mul_succ_div_gt (row_month r - m0) k Hk). lia.
  - symmetry. apply (Z.div_unique_pos (row_month r - m0) k j (row_month r - m0 - k * j)); lia.
Qed.

Lemma bin_of_in_bins : forall k rows m0 m1 r, 0 < k ->
  min_month rows = Some m0 -> max_month rows = Some m1 -> In r rows -> In (bin_of k m0 r) (bins k m0 m1).
Proof.
  intros k rows m0 m1 r Hk H0 H1 Hin.
  pose proof (min_month_le _ _ _ H0 Hin) as L0. pose proof (max_month_ge _ _ _ H1 Hin) as L1.
  assert (0 <= (m1 - m0) / k) by (apply Z.div_pos; lia).
  apply bins_In; [assumption|]. unfold bin_of. split.
  - apply Z.div_pos; lia.
  - apply Z.div_le_mono; lia.
Qed.

Lemma days_of_period_rows : forall k m0 j rows, 0 < k -> days_of k m0 j rows = period_rows k (m0 + k * j) rows.
Proof.
  intros k m0 j rows Hk. unfold days_of, period_rows. apply filter_ext. intros r.
  pose proof (in_bin_spec k m0 j r Hk) as H.
  destruct (in_bin k m0 j r); destruct ((m0 + k * j <=? row_month r) && (row_month r <? m0 + k * j + k)) eqn:E;
    try reflexivity.
  - exfalso. destruct H as [H _]. specialize (H eq_refl). apply andb_false_iff in E. destruct E as [E|E]; lia.
  - exfalso. apply andb_true_iff in E. destruct E as [E1 E2]. destruct H as [_ H].
    assert (false = true) by (apply H; lia). discriminate.
Qed.

(* ---------------------------------------------------------------- the theorems' bodies *)
Lemma aggregate_unfold : forall k rows m0 m1, min_month rows = Some m0 -> max_month rows = Some m1 ->
  aggregate k rows = map (fun j => agg_row k m0 j (days_of k m0 j rows)) (bins k m0 m1).
Proof. intros k rows m0 m1 H0 H1. unfold aggregate. rewrite H0, H1. reflexivity. Qed.

Lemma aggregate_nil : forall k, aggregate k [] = [].
Proof. reflexivity. Qed.

(* one output row per calendar period: labels m0, m0+k, m0+2k, ... up to the period that holds the last month *)
Lemma aggregate_labels : forall k rows m0 m1, min_month rows = Some m0 -> max_month rows = Some m1 ->
  map a_label (aggregate k rows) = map (fun n => m0 + k * Z.of_nat n) (seq 0 (Z.to_nat ((m1 - m0) / k + 1))).
Proof.
  intros k rows m0 m1 H0 H1. rewrite (aggregate_unfold _ _ _ _ H0 H1). unfold bins. rewrite !map_map.
  apply map_ext. intros n. reflexivity.
Qed.

Lemma aggregate_length : forall k rows m0 m1, min_month rows = Some m0 -> max_month rows = Some m1 ->
  Z.of_nat (List.length (aggregate k rows)) = Z.max 0 ((m1 - m0) / k + 1).
Proof.
  intros k rows m0 m1 H0 H1. rewrite (aggregate_unfold _ _ _ _ H0 H1), map_length, bins_length. lia.
Qed.

Lemma aggregate_labels_NoDup : forall k rows, 0 < k -> NoDup (map a_label (aggregate k rows)).
Proof.
  intros k rows Hk. destruct (min_month rows) as [m0|] eqn:H0.
  2:{ destruct rows; [constructor | discriminate]. }
  destruct (max_month rows) as [m1|] eqn:H1.
  2:{ destruct rows; [constructor | discriminate]. }
  rewrite (aggregate_labels _ _ _ _ H0 H1). apply Injective_map_NoDup; [|apply seq_NoDup].
  intros a b E. nia.
Qed.

(* the first period starts at the month of the earliest row and the last one contains the month of the latest row *)
Lemma aggregate_span : forall k rows m0 m1, 0 < k -> min_month rows = Some m0 -> max_month rows = Some m1 ->
  let jl := (m1 - m0) / k in
  In jl (bins k m0 m1) /\ m0 + k * jl <= m1 < m0 + k * (jl + 1).
Proof.
  intros k rows m0 m1 Hk H0 H1 jl.
  destruct (min_month_attained _ _ H0) as [r0 [Hr0 E0]].
  pose proof (max_month_ge _ _ _ H1 Hr0) as L. rewrite E0 in L.
  assert (Hp : 0 <= (m1 - m0) / k) by (apply Z.div_pos; lia).
  split; [apply bins_In; [exact Hp | unfold jl; lia]|].
  unfold jl. pose proof (Z.mul_div_le (m1 - m0) k Hk). pose proof (Z.mul_succ_div_gt (m1 - m0) k Hk). lia.
Qed.

(* every row of the frame lies in exactly one period *)
Lemma row_in_exactly_one_period : forall k rows m0 m1 r, 0 < k ->
  min_month rows = Some m0 -> max_month rows = Some m1 -> In r rows ->
  exists j, In j (bins k m0 m1) /\ In r (days_of k m0 j rows) /\
            forall j', In r (days_of k m0 j' rows) -> j' = j.
Proof.
  intros k rows m0 m1 r Hk H0 H1 Hin. exists (bin_of k m0 r). split; [eapply bin_of_in_bins; eauto|]. split.
  - unfold days_of. apply filter_In. split; [exact Hin | unfold in_bin; apply Z.eqb_refl].
  - intros j' H. unfold days_of in H. apply filter_In in H. destruct H as [_ H]. unfold in_bin in H.
    apply Z.eqb_eq in H. symmetry. exact H.
Qed.

(* each output row is the stated aggregate of the rows of its period *)
Lemma aggregate_group_values : forall k rows m0 m1 o, min_month rows = Some m0 -> max_month rows = Some m1 ->
  In o (aggregate k rows) ->
  exists j, In j (bins k m0 m1) /\
    let g := days_of k m0 j rows in
    a_label o = m0 + k * j /\
    a_obs o = nansum (map d_obs g) /\ a_pred o = nansum (map d_pred g) /\
    a_heat o = nansum (map d_heat g) /\ a_cool o = nansum (map d_cool g) /\
    a_temp o = nanmean (map d_temp g) /\ a_uncsq o = sumsq (map d_unc g) /\
    a_season o = first_some (map d_season g) /\ a_split o = first_some (map d_split g) /\
    a_mtype o = first_some (map d_mtype g).
Proof.
  intros k rows m0 m1 o H0 H1 Ho. rewrite (aggregate_unfold _ _ _ _ H0 H1) in Ho. apply in_map_iff in Ho.
  destruct Ho as [j [E Hj]]. exists j. split; [exact Hj|]. subst o. cbn. repeat split; reflexivity.
Qed.

(* the same, with the period named by its calendar months only *)
Lemma aggregate_group_values_calendar : forall k rows o, 0 < k -> In o (aggregate k rows) ->
  let g := period_rows k (a_label o) rows in
  a_obs o = nansum (map d_obs g) /\ a_pred o = nansum (map d_pred g) /\
  a_heat o = nansum (map d_heat g) /\ a_cool o = nansum (map d_cool g) /\
  a_temp o = nanmean (map d_temp g) /\ a_uncsq o = sumsq (map d_unc g) /\
  a_season o = first_some (map d_season g) /\ a_split o = first_some (map d_split g) /\
  a_mtype o = first_some (map d_mtype g).
Proof.
  intros k rows o Hk Ho. destruct (min_month rows) as [m0|] eqn:H0.
  2:{ destruct rows; [destruct Ho | discriminate]. }
  destruct (max_month rows) as [m1|] eqn:H1.
  2:{ destruct rows; [destruct Ho | discriminate]. }
  destruct (aggregate_group_values k rows m0 m1 o H0 H1 Ho) as [j [_ H]]. cbv zeta in H.
  destruct H as [HL H]. cbv zeta. rewrite HL, <- (days_of_period_rows k m0 j rows Hk). exact H.
Qed.

Open Scope Q_scope.

(* totals: any NaN-skipping column sum is the same before and after aggregation *)
Lemma aggregate_conserves : forall (col : drow -> cell) (acol : arow -> Q) k rows, (0 < k)%Z ->
  (forall m0 j g, acol (agg_row k m0 j g) = nansum (map col g)) ->
  qsum (map acol (aggregate k rows)) == nansum (map col rows).
Proof.
  intros col acol k rows Hk Hcol. destruct (min_month rows) as [m0|] eqn:H0.
  2:{ destruct rows; [reflexivity | discriminate]. }
  destruct (max_month rows) as [m1|] eqn:H1.
  2:{ destruct rows; [reflexivity | discriminate]. }
  rewrite (aggregate_unfold _ _ _ _ H0 H1), map_map.
  rewrite (qsum_ext _ _ (fun j => nansum (map col (filter (fun x => (bin_of k m0 x =? j)%Z) rows)))).
  2:{ intros j _. rewrite Hcol. reflexivity. }
  apply partition_conserves; [apply bins_NoDup|].
  intros r Hr. eapply bin_of_in_bins; eauto.
Qed.

Lemma totals_observed : forall k rows, (0 < k)%Z -> qsum (map a_obs (aggregate k rows)) == nansum (map d_obs rows).
Proof. intros. apply aggregate_conserves; [assumption | reflexivity]. Qed.
Lemma totals_predicted : forall k rows, (0 < k)%Z -> qsum (map a_pred (aggregate k rows)) == nansum (map d_pred rows).
Proof. intros. apply aggregate_conserves; [assumption | reflexivity]. Qed.
Lemma totals_heating : forall k rows, (0 < k)%Z -> qsum (map a_heat (aggregate k rows)) == nansum (map d_heat rows).
Proof. intros. apply aggregate_conserves; [assumption | reflexivity]. Qed.
Lemma totals_cooling : forall k rows, (0 < k)%Z -> qsum (map a_cool (aggregate k rows)) == nansum (map d_cool rows).
Proof. intros. apply aggregate_conserves; [assumption | reflexivity]. Qed.

(* uncertainty: the squares add up, so the root-sum-square over the whole span is the same at every level *)
Lemma totals_uncertainty_sq : forall k rows, (0 < k)%Z ->
  qsum (map a_uncsq (aggregate k rows)) == sumsq (map d_unc rows).
Proof.
  intros k rows Hk. unfold sumsq. rewrite map_map.
  apply (aggregate_conserves (fun r => sq (d_unc r)) a_uncsq k rows Hk).
  intros m0 j g. cbn [agg_row a_uncsq]. unfold sumsq. rewrite map_map. reflexivity.
Qed.

(* squares are non-negative: the squared uncertainty of a period is >= 0, so its root exists *)
Lemma nansum_sq_nonneg : forall l, 0 <= sumsq l.
Proof.
  unfold sumsq. induction l as [|c l IH]; [cbn; discriminate|].
  cbn [map]. rewrite nansum_cons. destruct c as [q|]; cbn [sq cval].
  - assert (0 <= q * q) by (destruct (Qlt_le_dec q 0) as [L|L];
      [setoid_replace (q * q) with ((-q) * (-q)) by ring; apply Qmult_le_0_compat; apply (Qopp_le_compat q 0), Qlt_le_weak, L
      | apply Qmult_le_0_compat; exact L]).
    replace 0 with (0 + 0) by reflexivity. apply Qplus_le_compat; assumption.
  - rewrite Qplus_0_l. exact IH.
Qed.

(* temperature: the period means, weighted by the number of days that have a temperature, give back the daily total *)
Lemma count_nonneg : forall l, (0 <= count l)%Z.
Proof. induction l as [|c l IH]; cbn [count fold_right]; [lia|]. fold (count l). destruct c; lia. Qed.

Lemma count_zero_nansum : forall l, count l = 0%Z -> nansum l == 0.
Proof.
  induction l as [|c l IH]; intros H; [reflexivity|]. cbn [count fold_right] in H. fold (count l) in H.
  pose proof (count_nonneg l). destruct c as [q|]; [lia|]. rewrite nansum_cons. cbn [cval]. rewrite (IH H). ring.
Qed.

Lemma nanmean_weighted : forall l,
  inject_Z (count l) * cval (nanmean l) == nansum l.
Proof.
  intros l. unfold nanmean. destruct (count l =? 0)%Z eqn:E.
  - apply Z.eqb_eq in E. rewrite E. cbn [cval]. rewrite (count_zero_nansum l E). ring.
  - apply Z.eqb_neq in E. cbn [cval]. rewrite Qred_correct. field.
    intros H. apply E. unfold Qeq in H. cbn in H. lia.
Qed.

Lemma temperature_weighted_mean_conserved : forall k rows m0 m1, (0 < k)%Z ->
  min_month rows = Some m0 -> max_month rows = Some m1 ->
  qsum (map (fun j => let g := map d_temp (days_of k m0 j rows) in inject_Z (count g) * cval (nanmean g)) (bins k m0 m1))
  == nansum (map d_temp rows).
Proof.
  intros k rows m0 m1 Hk H0 H1.
  rewrite (qsum_ext _ _ (fun j => nansum (map d_temp (filter (fun x => (bin_of k m0 x =? j)%Z) rows)))).
  2:{ intros j _. cbv zeta. rewrite nanmean_weighted. reflexivity. }
  apply partition_conserves; [apply bins_NoDup|].
  intros r Hr. eapply bin_of_in_bins; eauto.
Qed.

(* ---------------------------------------------------------------- the argument *)
Lemma parse_none : parse_arg ArgNone = NoAgg.
Proof. reflexivity. Qed.

Lemma parse_accepts_iff : forall a,
  (exists k, parse_arg a = Months k) <-> (a = ArgStr "monthly" \/ a = ArgStr "bimonthly").
Proof.
  intros a. split.
  - intros [k H]. destruct a as [|s|]; cbn [parse_arg] in H; try discriminate.
    destruct (String.eqb (lower s) "none"); [discriminate|].
    destruct (String.eqb s "monthly") eqn:E1; [apply String.eqb_eq in E1; subst; left; reflexivity|].
    destruct (String.eqb s "bimonthly") eqn:E2; [apply String.eqb_eq in E2; subst; right; reflexivity|].
    discriminate.
  - intros [E|E]; subst a; [exists 1%Z | exists 2%Z]; reflexivity.
Qed.

Lemma parse_months_values : forall a k, parse_arg a = Months k ->
  (a = ArgStr "monthly" /\ k = 1%Z) \/ (a = ArgStr "bimonthly" /\ k = 2%Z).
Proof.
  intros a k H. destruct a as [|s|]; cbn [parse_arg] in H; try discriminate.
  destruct (String.eqb (lower s) "none"); [discriminate|].
  destruct (String.eqb s "monthly") eqn:E1.
  - apply String.eqb_eq in E1. subst. inversion H. left. split; reflexivity.
  - destruct (String.eqb s "bimonthly") eqn:E2; [|discriminate].
    apply String.eqb_eq in E2. subst. inversion H. right. split; reflexivity.
Qed.

(* anything that is not None, not a spelling of "none", not "monthly", not "bimonthly" is rejected *)
Lemma bad_argument_rejected : forall mode has_obs a rows,
  a <> ArgNone -> (forall s, a = ArgStr s -> lower s <> "none"%string /\ s <> "monthly"%string /\ s <> "bimonthly"%string) ->
  exists e, predict_agg mode has_obs a rows = Rejected e.
Proof.
  intros mode has_obs a rows Hn Hs. unfold predict_agg. destruct a as [|s|]; [contradiction| |].
  - destruct (Hs s eq_refl) as [H1 [H2 H3]]. cbn [parse_arg].
    apply String.eqb_neq in H1, H2, H3. rewrite H1, H2, H3. exists ValueErr. reflexivity.
  - exists AttributeErr. reflexivity.
Qed.

(* conversely: what is not rejected is one of the documented arguments *)
Lemma not_rejected_is_documented : forall mode has_obs a rows,
  (forall e, predict_agg mode has_obs a rows <> Rejected e) ->
  a = ArgNone \/ (exists s, a = ArgStr s /\ lower s = "none"%string) \/ a = ArgStr "monthly" \/ a = ArgStr "bimonthly".
Proof.
  intros mode has_obs a rows H. unfold predict_agg in H. destruct a as [|s|].
  - left. reflexivity.
  - cbn [parse_arg] in H. destruct (String.eqb (lower s) "none") eqn:E0.
    + right. left. exists s. split; [reflexivity | apply String.eqb_eq; exact E0].
    + destruct (String.eqb s "monthly") eqn:E1; [apply String.eqb_eq in E1; subst; tauto|].
      destruct (String.eqb s "bimonthly") eqn:E2; [apply String.eqb_eq in E2; subst; tauto|].
      exfalso. apply (H ValueErr). reflexivity.
  - exfalso. apply (H AttributeErr). reflexivity.
Qed.

Lemma none_returns_frame : forall mode has_obs a rows,
  (a = ArgNone \/ exists s, a = ArgStr s /\ lower s = "none"%string) ->
  predict_agg mode has_obs a rows = Daily rows.
Proof.
  intros mode has_obs a rows [E|[s [E H]]]; subst a; unfold predict_agg; cbn [parse_arg]; [reflexivity|].
  rewrite H. reflexivity.
Qed.

(* with an observed column (or with the repaired code) the documented aggregations aggregate *)
Lemma monthly_aggregates : forall mode has_obs rows, (mode = ObsOptional \/ has_obs = true) ->
  predict_agg mode has_obs (ArgStr "monthly") rows = Aggregated 1 (aggregate 1 rows) /\
  predict_agg mode has_obs (ArgStr "bimonthly") rows = Aggregated 2 (aggregate 2 rows).
Proof.
  intros mode has_obs rows [E|E]; subst; split; unfold predict_agg; cbn; try reflexivity; destruct mode; reflexivity.
Qed.

(* ---------------------------------------------------------------- calendar, closed by computation on 2000..2049 *)
Open Scope Z_scope.
Fixpoint all_from (n : nat) (z : Z) (p : Z -> bool) : bool :=
  match n with
  | O => true
  | S n' => p z && all_from n' (z + 1) p
  end.

Lemma all_from_spec : forall n z p, all_from n z p = true -> forall x, z <= x < z + Z.of_nat n -> p x = true.
Proof.
  induction n as [|n IH]; intros z p H x Hx; [lia|].
  cbn [all_from] in H. apply andb_true_iff in H. destruct H as [H1 H2].
  destruct (Z.eq_dec x z) as [E|E]; [subst; exact H1|]. apply (IH (z + 1) p H2). lia.
Qed.

(* day d lies in its own month: first day of month_index d <= d < first day of the next month; and the first day of a
   month is day 1 of that month *)
Definition calendar_ok (d : Z) : bool :=
  let mi := month_index d in
  (month_start_day mi <=? d) && (d <? month_start_day (mi + 1)) &&
  (let '(y, m, dd) := civil_from_days (month_start_day mi) in (12 * y + (m - 1) =? mi) && (dd =? 1)) &&
  (let '(_, m, dd) := civil_from_days d in (1 <=? m) && (m <=? 12) && (1 <=? dd) && (dd <=? 31)
                                           && (d - month_start_day mi =? dd - 1)).

(* 10957 = 2000-01-01, 29220 = 2050-01-01 *)
Lemma calendar_all_from : all_from (Z.to_nat 18263) 10957 calendar_ok = true.
Proof. vm_cast_no_check (eq_refl true). Qed.

Lemma calendar_2000_2050 : forall d, 10957 <= d < 29220 -> calendar_ok d = true.
Proof.
  intros d Hd. apply (all_from_spec _ _ _ calendar_all_from). rewrite Z2Nat.id; lia.
Qed.
