(* Lemmas about Model/SelCrit.v at the real-number instance (property C13): the coded selection
   criterion, its monotonicity for the default type (BIC), and the selection of the split that
   minimises it.  This file is in the Reals style. *)
From Coq Require Import Reals Lra List Bool String.
From V Require Import Model.Num Model.NumR Model.SelCrit Model.Splits Proofs.SplitsProofs.
Import ListNotations.
Local Open Scope R_scope.

(* ** as numpy computes it for a non-negative base: y = 0 -> 1, 0 ** y = 0, otherwise exp(y ln x) *)
Definition Rpow (x y : R) : R :=
  if Req_EM_T y 0 then 1 else if Req_EM_T x 0 then 0 else Rpower x y.

Definition R_two_pi : R := 2 * PI.
Definition R_tiny : R := / 1000000.
Definition R_absorb (_ : R) : ext R := NInf.

Definition R_selection_criteria : crit_type -> R -> R -> R -> R -> R -> R -> ext R :=
  selection_criteria RNum ln sqrt Rpow R_two_pi R_tiny R_absorb.
Definition R_combo_criterion : crit_type -> R -> R -> list (cfit R) -> list (cfit R) -> ext R :=
  combo_criterion RNum ln sqrt Rpow R_two_pi R_tiny R_absorb.
Definition R_combo_loss : list (cfit R) -> list (cfit R) -> R := combo_loss RNum sqrt.
Definition R_sum_n (l : list (cfit R)) : R := sum_of RNum f_n l.
Definition R_count (l : list (cfit R)) : R := count_of RNum l.

Definition R_ext_ltb : ext R -> ext R -> bool := ext_ltb Rltb.

(* ------------------------------------------------------------------ the order on extended reals *)
Lemma R_ext_irrefl : forall a, R_ext_ltb a a = false.
Proof.
  intros [x| |]; cbn; try reflexivity. apply Rltb_false. apply Rle_refl.
Qed.

Lemma R_ext_chain : forall a b x, R_ext_ltb a b = true -> R_ext_ltb x b = false -> R_ext_ltb x a = false.
Proof.
  intros [p| |] [q| |] [r| |]; cbn; intros H1 H2; try discriminate; try reflexivity.
  apply Rltb_true in H1. apply Rltb_false in H2. apply Rltb_false. lra.
Qed.

(* ------------------------------------------------------------------ pow *)
Lemma Rpow_nonneg : forall x y, 0 <= x -> 0 <= Rpow x y.
Proof.
  intros x y Hx. unfold Rpow. destruct (Req_EM_T y 0); [lra|].
  destruct (Req_EM_T x 0); [lra|]. unfold Rpower. left. apply exp_pos.
Qed.

Lemma Rpow_pos : forall x y, 0 < x -> 0 < Rpow x y.
Proof.
  intros x y Hx. unfold Rpow. destruct (Req_EM_T y 0); [lra|].
  destruct (Req_EM_T x 0); [lra|]. unfold Rpower. apply exp_pos.
Qed.

Lemma ln_nonneg : forall n, 1 <= n -> 0 <= ln n.
Proof.
  intros n H. destruct (Rle_lt_or_eq_dec _ _ H) as [H1|H1].
  - left. rewrite <- ln_1. apply ln_increasing; lra.
  - subst n. rewrite ln_1. lra.
Qed.

Lemma ln_pos : forall n, 1 < n -> 0 < ln n.
Proof. intros n H. rewrite <- ln_1. apply ln_increasing; lra. Qed.

(* ------------------------------------------------------------------ the default criterion in closed form *)
(* (-2 * (-N/2 * (ln 2pi + ln(loss/N) + 1)) + c0*K*ln(N)**d0) / N, simplified *)
Definition bic_closed (c0 d0 loss n k : R) : R :=
  ln R_two_pi + ln (loss / n) + 1 + (c0 * k * Rpow (ln n) d0) / n.

Lemma bic_value : forall c0 d0 loss tss n k, 0 < loss -> 0 < n ->
  R_selection_criteria C_BIC c0 d0 loss tss n k = Fin (bic_closed c0 d0 loss n k).
Proof.
  intros c0 d0 loss tss n k Hl Hn.
  unfold R_selection_criteria, selection_criteria, normalise, info_criterion, neg_log_likelihood, pen_bic.
  cbn [RNum RNumOf n_leb n_zero n_one n_add n_sub n_mul n_div n_opp carrier].
  rewrite (proj2 (Rleb_false loss 0) Hl), (proj2 (Rleb_false n 0) Hn). cbn [orb].
  f_equal. unfold bic_closed, n_two. cbn [RNum RNumOf n_add n_one carrier]. field. lra.
Qed.

Lemma bic_nonpositive_loss : forall c0 d0 loss tss n k, loss <= 0 ->
  R_selection_criteria C_BIC c0 d0 loss tss n k = NInf.
Proof.
  intros c0 d0 loss tss n k Hl.
  unfold R_selection_criteria, selection_criteria, normalise, info_criterion, neg_log_likelihood.
  cbn [RNum RNumOf n_leb n_zero carrier].
  rewrite (proj2 (Rleb_true loss 0) Hl). cbn [orb]. reflexivity.
Qed.

(* N fixed: strictly increasing in the loss *)
Theorem bic_loss_increasing_l : forall c0 d0 tss1 tss2 n k l1 l2, 0 < n -> l1 < l2 -> 0 < l2 ->
  R_ext_ltb (R_selection_criteria C_BIC c0 d0 l1 tss1 n k) (R_selection_criteria C_BIC c0 d0 l2 tss2 n k) = true.
Proof.
  intros c0 d0 tss1 tss2 n k l1 l2 Hn Hlt Hl2.
  rewrite (bic_value c0 d0 l2 tss2 n k Hl2 Hn).
  destruct (Rle_lt_dec l1 0) as [H1|H1].
  - rewrite (bic_nonpositive_loss _ _ _ _ _ _ H1). reflexivity.
  - rewrite (bic_value c0 d0 l1 tss1 n k H1 Hn). cbn. apply Rltb_true. unfold bic_closed.
    assert (Hi : 0 < / n) by (apply Rinv_0_lt_compat; exact Hn).
    assert (H : ln (l1 / n) < ln (l2 / n)).
    { apply ln_increasing; unfold Rdiv; [apply Rmult_lt_0_compat; assumption|].
      apply Rmult_lt_compat_r; assumption. }
    lra.
Qed.

(* N >= 1, penalty multiplier >= 0: increasing in the number of coefficients *)
Theorem bic_k_increasing_l : forall c0 d0 tss1 tss2 n loss k1 k2, 1 <= n -> 0 <= c0 -> k1 <= k2 ->
  R_ext_ltb (R_selection_criteria C_BIC c0 d0 loss tss2 n k2) (R_selection_criteria C_BIC c0 d0 loss tss1 n k1) = false.
Proof.
  intros c0 d0 tss1 tss2 n loss k1 k2 Hn Hc Hk.
  destruct (Rle_lt_dec loss 0) as [H1|H1].
  - rewrite !(bic_nonpositive_loss _ _ _ _ _ _ H1). reflexivity.
  - assert (Hn0 : 0 < n) by lra. rewrite !(bic_value _ _ _ _ _ _ H1 Hn0). cbn. apply Rltb_false.
    unfold bic_closed. pose proof (Rpow_nonneg (ln n) d0 (ln_nonneg n Hn)) as HP.
    assert (Hi : 0 < / n) by (apply Rinv_0_lt_compat; exact Hn0).
    assert (H : c0 * k1 * Rpow (ln n) d0 / n <= c0 * k2 * Rpow (ln n) d0 / n).
    { unfold Rdiv. apply Rmult_le_compat_r; [lra|]. apply Rmult_le_compat_r; [exact HP|].
      apply Rmult_le_compat_l; assumption. }
    lra.
Qed.

(* N > 1, penalty multiplier > 0: strictly *)
Theorem bic_k_strict_l : forall c0 d0 tss1 tss2 n loss k1 k2, 1 < n -> 0 < c0 -> 0 < loss -> k1 < k2 ->
  R_ext_ltb (R_selection_criteria C_BIC c0 d0 loss tss1 n k1) (R_selection_criteria C_BIC c0 d0 loss tss2 n k2) = true.
Proof.
  intros c0 d0 tss1 tss2 n loss k1 k2 Hn Hc Hl Hk.
  assert (Hn0 : 0 < n) by lra. rewrite !(bic_value _ _ _ _ _ _ Hl Hn0). cbn. apply Rltb_true.
  unfold bic_closed. pose proof (Rpow_pos (ln n) d0 (ln_pos n Hn)) as HP.
  assert (Hi : 0 < / n) by (apply Rinv_0_lt_compat; exact Hn0).
  assert (H : c0 * k1 * Rpow (ln n) d0 / n < c0 * k2 * Rpow (ln n) d0 / n).
  { unfold Rdiv. apply Rmult_lt_compat_r; [exact Hi|]. apply Rmult_lt_compat_r; [exact HP|].
    apply Rmult_lt_compat_l; assumption. }
  lra.
Qed.

(* no larger loss and fewer coefficients: strictly smaller criterion *)
Lemma bic_lt_combined : forall c0 d0 tss1 tss2 n l1 l2 k1 k2, 1 < n -> 0 < c0 -> 0 < l1 -> l1 <= l2 -> k1 < k2 ->
  R_ext_ltb (R_selection_criteria C_BIC c0 d0 l1 tss1 n k1) (R_selection_criteria C_BIC c0 d0 l2 tss2 n k2) = true.
Proof.
  intros c0 d0 tss1 tss2 n l1 l2 k1 k2 Hn Hc Hl1 Hle Hk.
  assert (Hn0 : 0 < n) by lra. assert (Hl2 : 0 < l2) by lra.
  rewrite (bic_value _ _ _ _ _ _ Hl1 Hn0), (bic_value _ _ _ _ _ _ Hl2 Hn0). cbn. apply Rltb_true.
  unfold bic_closed. pose proof (Rpow_pos (ln n) d0 (ln_pos n Hn)) as HP.
  assert (Hi : 0 < / n) by (apply Rinv_0_lt_compat; exact Hn0).
  assert (H : c0 * k1 * Rpow (ln n) d0 / n < c0 * k2 * Rpow (ln n) d0 / n).
  { unfold Rdiv. apply Rmult_lt_compat_r; [exact Hi|]. apply Rmult_lt_compat_r; [exact HP|].
    apply Rmult_lt_compat_l; assumption. }
  assert (L : ln (l1 / n) <= ln (l2 / n)).
  { destruct (Rle_lt_or_eq_dec _ _ Hle) as [Hlt|Heq]; [|subst l2; lra].
    left. apply ln_increasing; unfold Rdiv; [apply Rmult_lt_0_compat; assumption|].
    apply Rmult_lt_compat_r; assumption. }
  lra.
Qed.

(* ------------------------------------------------------------------ the penalty terms, as coded *)
Theorem penalties_as_coded_l : forall c0 d0 n k,
  pen_aic RNum Rpow c0 d0 k = c0 * 2 * Rpow k d0 /\
  pen_caic RNum ln Rpow c0 d0 n k = c0 * k * Rpow (ln n + 1) d0 /\
  pen_bic RNum ln Rpow c0 d0 n k = c0 * k * Rpow (ln n) d0 /\
  pen_sabic RNum ln Rpow c0 d0 n k = c0 * k * Rpow (ln ((n + 2) / 24)) d0 /\
  (0 < n - k - 1 ->
   pen_aicc RNum Rpow R_tiny c0 d0 n k = c0 * Rpow (2 * k + 2 * k * (k + 1) / (n - k - 1)) d0) /\
  (n - k - 1 <= 0 ->
   pen_aicc RNum Rpow R_tiny c0 d0 n k = c0 * Rpow (2 * k + 2 * k * (k + 1) / R_tiny) d0).
Proof.
  intros c0 d0 n k.
  unfold pen_aic, pen_caic, pen_bic, pen_sabic, pen_aicc, df_penalized, n_24, n_three, n_two.
  cbn [RNum RNumOf n_leb n_zero n_one n_add n_sub n_mul n_div n_opp carrier].
  repeat split.
  - replace ((1 + 1) * (1 + 1) * (1 + 1) * (1 + 1 + 1)) with 24 by ring.
    replace (1 + 1) with 2 by ring. reflexivity.
  - intros H. rewrite (proj2 (Rleb_false (n - k - 1) 0) H). replace (1 + 1) with 2 by ring. reflexivity.
  - intros H. rewrite (proj2 (Rleb_true (n - k - 1) 0) H). replace (1 + 1) with 2 by ring. reflexivity.
Qed.

(* ------------------------------------------------------------------ the selected split minimises the coded criterion *)
Section Selected.
  Variable ty : crit_type.
  Variable c0 d0 : R.
  Variable base : list (cfit R).                 (* components of the unsplit model *)
  Variable fits : string -> list (cfit R).       (* components of each candidate *)

  Definition crit_of (s : string) : ext R := R_combo_criterion ty c0 d0 base (fits s).
  Definition table (combos : list string) : list (string * ext R) := map (fun s => (s, crit_of s)) combos.

  Theorem selected_minimises_l : forall combos s,
    best (ext R) R_ext_ltb PInf (table combos) = Some s ->
    In s combos /\ crit_of s <> PInf /\
    forall s', In s' combos -> R_ext_ltb (crit_of s') (crit_of s) = false.
  Proof.
    intros combos s H.
    destruct (best_is_argmin_g (ext R) R_ext_ltb PInf R_ext_irrefl R_ext_chain (table combos) s H)
      as (c & Hin & Hlt & Hmin).
    unfold table in Hin. apply in_map_iff in Hin. destruct Hin as (s0 & E & Hs0).
    injection E as E1 E2. subst s0 c. split; [exact Hs0|]. split.
    - intros K. rewrite K in Hlt. discriminate.
    - intros s' Hs'. apply (Hmin s'). unfold table. apply in_map_iff. exists s'. split; [reflexivity|exact Hs'].
  Qed.
End Selected.

(* default criterion: among candidates with the same number of components (and the same days) the selected one
   has the smallest loss, and no candidate with fewer components has a loss as small *)
Theorem selected_bic_smallest_loss_l : forall c0 d0 base fits combos s s',
  best (ext R) R_ext_ltb PInf (table C_BIC c0 d0 base fits combos) = Some s -> In s' combos ->
  0 < R_sum_n (fits s) -> R_sum_n (fits s') = R_sum_n (fits s) -> R_count (fits s') = R_count (fits s) ->
  0 < R_combo_loss base (fits s') ->
  R_combo_loss base (fits s) <= R_combo_loss base (fits s').
Proof.
  intros c0 d0 base fits combos s s' H Hs' Hn En Ek Hl'.
  destruct (selected_minimises_l C_BIC c0 d0 base fits combos s H) as (_ & _ & Hmin).
  specialize (Hmin s' Hs'). apply Rnot_lt_le. intros Hlt.
  unfold crit_of, R_combo_criterion, combo_criterion in Hmin.
  fold (R_selection_criteria) in Hmin.
  change (combo_loss RNum sqrt base (fits s')) with (R_combo_loss base (fits s')) in Hmin.
  change (combo_loss RNum sqrt base (fits s)) with (R_combo_loss base (fits s)) in Hmin.
  change (sum_of RNum f_n (fits s')) with (R_sum_n (fits s')) in Hmin.
  change (sum_of RNum f_n (fits s)) with (R_sum_n (fits s)) in Hmin.
  change (count_of RNum (fits s')) with (R_count (fits s')) in Hmin.
  change (count_of RNum (fits s)) with (R_count (fits s)) in Hmin.
  rewrite En, Ek in Hmin.
  assert (Hl : 0 < R_combo_loss base (fits s)) by lra.
  rewrite (bic_loss_increasing_l c0 d0 _ _ _ _ _ _ Hn Hlt Hl) in Hmin. discriminate.
Qed.

Theorem selected_bic_simplest_l : forall c0 d0 base fits combos s s',
  best (ext R) R_ext_ltb PInf (table C_BIC c0 d0 base fits combos) = Some s -> In s' combos ->
  0 < c0 -> 1 < R_sum_n (fits s) -> R_sum_n (fits s') = R_sum_n (fits s) ->
  0 < R_combo_loss base (fits s') -> R_combo_loss base (fits s') <= R_combo_loss base (fits s) ->
  R_count (fits s) <= R_count (fits s').
Proof.
  intros c0 d0 base fits combos s s' H Hs' Hc Hn En Hl' Hle.
  destruct (selected_minimises_l C_BIC c0 d0 base fits combos s H) as (_ & _ & Hmin).
  specialize (Hmin s' Hs'). apply Rnot_lt_le. intros Hlt.
  unfold crit_of, R_combo_criterion, combo_criterion in Hmin.
  fold (R_selection_criteria) in Hmin.
  change (combo_loss RNum sqrt base (fits s')) with (R_combo_loss base (fits s')) in Hmin.
  change (combo_loss RNum sqrt base (fits s)) with (R_combo_loss base (fits s)) in Hmin.
  change (sum_of RNum f_n (fits s')) with (R_sum_n (fits s')) in Hmin.
  change (sum_of RNum f_n (fits s)) with (R_sum_n (fits s)) in Hmin.
  change (count_of RNum (fits s')) with (R_count (fits s')) in Hmin.
  change (count_of RNum (fits s)) with (R_count (fits s)) in Hmin.
  rewrite En in Hmin.
  rewrite (bic_lt_combined c0 d0 _ _ _ _ _ _ _ Hn Hc Hl' Hle Hlt) in Hmin. discriminate.
Qed.
