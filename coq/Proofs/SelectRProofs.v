(* The criterion rebuilt from the source text, at the real-number instance: it inherits the theorems of
   Proofs/SelCritProofs.v.  Reals style. *)
From Coq Require Import Reals List Bool String.
From V Require Import Model.Num Model.NumR Model.SelCrit Model.SelectShape Proofs.SelCritProofs Proofs.SelectProofs.
Local Open Scope R_scope.

Definition R_tables_criterion (t : sel_tables) : crit_type -> R -> R -> R -> R -> R -> R -> ext R :=
  tables_criterion RNum ln sqrt Rpow R_two_pi R_tiny R_absorb t.

Lemma R_tables_is_model : forall t, t = reference_tables -> forall ty c0 d0 loss tss n k,
  R_tables_criterion t ty c0 d0 loss tss n k = R_selection_criteria ty c0 d0 loss tss n k.
Proof.
  intros t Ht ty c0 d0 loss tss n k. unfold R_tables_criterion, R_selection_criteria.
  exact (criterion_as_model_l RNum ln sqrt Rpow R_two_pi R_tiny R_absorb t Ht ty c0 d0 loss tss n k).
Qed.

Theorem coded_bic_increasing_in_loss_l : forall t, t = reference_tables ->
  forall c0 d0 tss1 tss2 n k l1 l2, 0 < n -> l1 < l2 -> 0 < l2 ->
  R_ext_ltb (R_tables_criterion t C_BIC c0 d0 l1 tss1 n k) (R_tables_criterion t C_BIC c0 d0 l2 tss2 n k) = true.
Proof. intros t Ht; intros. rewrite !(R_tables_is_model t Ht). apply bic_loss_increasing_l; assumption. Qed.

Theorem coded_bic_increasing_in_coefficients_l : forall t, t = reference_tables ->
  forall c0 d0 tss1 tss2 n loss k1 k2, 1 <= n -> 0 <= c0 -> k1 <= k2 ->
  R_ext_ltb (R_tables_criterion t C_BIC c0 d0 loss tss2 n k2) (R_tables_criterion t C_BIC c0 d0 loss tss1 n k1) = false.
Proof. intros t Ht; intros. rewrite !(R_tables_is_model t Ht). apply bic_k_increasing_l; assumption. Qed.
