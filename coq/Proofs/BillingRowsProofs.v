(* Lemmas about Model/BillingRows.v (C10, daily / hourly rows handed to the billing data classes). *)
From Coq Require Import ZArith QArith List Bool Lia Field.
From V Require Import Model.BillingRows.
Import ListNotations.
Open Scope Z_scope.

Lemma spread_length : forall mc l, length (spread mc l) = length l.
Proof. intros. unfold spread. apply map_length. Qed.

Lemma month_has_value_iff : forall k l,
  existsb has_val (filter (in_key k) l) = true <-> exists r, In r l /\ d_key r = k /\ has_val r = true.
Proof.
  intros k l. rewrite existsb_exists. split.
  - intros [r [Hin Hv]]. apply filter_In in Hin. destruct Hin as [Hin Hk]. unfold in_key in Hk. apply Z.eqb_eq in Hk.
    exists r. tauto.
  - intros [r [Hin [Hk Hv]]]. exists r. split; [|exact Hv]. apply filter_In. split; [exact Hin|].
    unfold in_key. apply Z.eqb_eq. exact Hk.
Qed.

(* with min_count = 1: a day carries usage exactly when some day of its calendar month has a value *)
Lemma spread_present_iff_l : forall l r,
  (exists q, spread_day true l r = Some q) <-> exists r', In r' l /\ d_key r' = d_key r /\ has_val r' = true.
Proof.
  intros l r. unfold spread_day, month_total. cbn [andb].
  rewrite <- month_has_value_iff.
  destruct (existsb has_val (filter (in_key (d_key r)) l)); cbn [negb].
  - split; [reflexivity|]. intros _. eexists. reflexivity.
  - split; [intros [q H]; discriminate H|discriminate].
Qed.

(* ... so a calendar month has usage on all of its days or on none *)
Lemma spread_whole_month_l : forall l r1 r2, d_key r1 = d_key r2 ->
  ((exists q, spread_day true l r1 = Some q) <-> (exists q, spread_day true l r2 = Some q)).
Proof. intros l r1 r2 H. rewrite !spread_present_iff_l, H. tauto. Qed.

Lemma spread_none_l : forall l r, (forall r', In r' l -> d_key r' = d_key r -> d_val r' = None) ->
  spread_day true l r = None.
Proof.
  intros l r H. destruct (spread_day true l r) as [q|] eqn:E; [|reflexivity].
  assert (Hex : exists q, spread_day true l r = Some q) by (exists q; exact E).
  apply spread_present_iff_l in Hex. destruct Hex as [r' [Hin [Hk Hv]]].
  unfold has_val in Hv. rewrite (H r' Hin Hk) in Hv. discriminate Hv.
Qed.

(* without min_count every day carries usage, whatever was supplied: the statement above fails *)
Lemma spread_no_min_count_l : forall l r, exists q, spread_day false l r = Some q.
Proof. intros l r. unfold spread_day, month_total. cbn [andb]. eexists. reflexivity. Qed.

(* conservation: the shares of the days of a month add up to the month's total *)
Lemma qsum_shares : forall (t : Q) (L : Z) (m : list dayrow), ~ (L # 1 == 0)%Q ->
  (qsum (map (fun r => share t r L) m) == t * (zsum (map d_len m) # 1) / (L # 1))%Q.
Proof.
  intros t L m HL. induction m as [|r m IH]; cbn [map qsum zsum].
  - field. exact HL.
  - rewrite IH. unfold share.
    assert (E : ((d_len r + zsum (map d_len m)) # 1 == (d_len r # 1) + (zsum (map d_len m) # 1))%Q)
      by (unfold Qeq, Qplus; cbn [Qnum Qden Pos.mul]; ring).
    rewrite E. field. exact HL.
Qed.

Lemma spread_conserves_l : forall mc l k t, month_total mc k l = Some t -> 0 < month_len k l ->
  (qsum (map (fun r => share t r (month_len k l)) (filter (in_key k) l)) == t)%Q.
Proof.
  intros mc l k t _ Hpos.
  assert (HL : ~ (month_len k l # 1 == 0)%Q).
  { unfold Qeq. cbn [Qnum Qden]. lia. }
  rewrite (qsum_shares t (month_len k l) (filter (in_key k) l) HL).
  unfold month_len. field. exact HL.
Qed.

(* the month's total is the sum of the values supplied for its days *)
Lemma month_total_is_sum_l : forall mc k l t, month_total mc k l = Some t -> t = qsum (vals (filter (in_key k) l)).
Proof.
  intros mc k l t H. unfold month_total in H.
  destruct (mc && negb (existsb has_val (filter (in_key k) l))); [discriminate H|]. injection H as <-. reflexivity.
Qed.

(* witnesses *)
Definition ex_days : list dayrow :=
  [mkday 1 86400 (Some (2 # 1)%Q); mkday 1 82800 (Some (3 # 1)%Q); mkday 1 86400 None;
   mkday 2 86400 None; mkday 2 86400 None;
   mkday 3 90000 (Some (7 # 2)%Q); mkday 3 86400 None].

Lemma ex_spread :
  map (fun o => match o with Some q => Some (Qred q) | None => None end) (spread true ex_days)
  = [Some (120 # 71)%Q; Some (115 # 71)%Q; Some (120 # 71)%Q; None; None; Some (25 # 14)%Q; Some (12 # 7)%Q] /\
  map (fun o => match o with Some _ => true | None => false end) (spread false ex_days)
  = [true; true; true; true; true; true; true].
Proof. split; vm_compute; reflexivity. Qed.
