(* C19 — the tables read from the source (Generated/BillingAggGen.v) against the model (Model/BillingAgg.v).
   Two kinds of lemma:
     * for all inputs: interpreting the MODEL's tables gives exactly parse_arg / aggregate / predict_agg;
     * closed by computation on the regenerated file: the SOURCE's tables are the model's tables.
   A source edit that changes which test is made on `aggregation`, which rule a branch selects, which column is reduced
   by which function, the order of the returned columns, or the guard on `observed` changes the generated file and one
   of the [source_*] lemmas below stops checking. *)
From Coq Require Import ZArith QArith List Bool String.
From V Require Import Model.BillingAgg Proofs.BillingAggProofs Generated.BillingAggGen.
Import ListNotations.

(* ---------------------------------------------------------------- model tables, for all inputs *)
Lemma parse_arg_by_model : forall a, parse_arg_by model_arg_chain ValueErr a = Some (parse_arg a).
Proof.
  intros [|s|]; [reflexivity| |reflexivity].
  cbn [model_arg_chain parse_arg_by eval_test parse_arg].
  destruct (String.eqb (lower s) "none"); [reflexivity|].
  destruct (String.eqb s "monthly"); [reflexivity|].
  destruct (String.eqb s "bimonthly"); reflexivity.
Qed.

Lemma agg_row_by_model : forall k m0 j g, agg_row_by model_agg_table k m0 j g = Some (agg_row k m0 j g).
Proof. intros. reflexivity. Qed.

Lemma sequence_map_some : forall (B C : Type) (f : B -> option C) (h : B -> C) l,
  (forall x, f x = Some (h x)) -> sequence (map f l) = Some (map h l).
Proof.
  intros B C f h l H. induction l as [|x l IH]; [reflexivity|].
  cbn [map sequence]. rewrite H, IH. reflexivity.
Qed.

Lemma aggregate_by_model : forall k rows, aggregate_by model_agg_table k rows = Some (aggregate k rows).
Proof.
  intros k rows. unfold aggregate_by, aggregate.
  destruct (min_month rows) as [m0|]; [|reflexivity]. destruct (max_month rows) as [m1|]; [|reflexivity].
  apply sequence_map_some. intros j. apply agg_row_by_model.
Qed.

Lemma table_obs_mode_model : table_obs_mode model_agg_table = ObsOptional.
Proof. reflexivity. Qed.

Lemma predict_agg_by_model : forall has_obs a rows,
  predict_agg_by model_arg_chain ValueErr model_agg_table has_obs a rows = Some (predict_agg ObsOptional has_obs a rows).
Proof.
  intros has_obs a rows. unfold predict_agg_by, predict_agg. rewrite parse_arg_by_model, table_obs_mode_model.
  destruct (parse_arg a) as [| k | e]; [reflexivity| |reflexivity].
  rewrite aggregate_by_model. destruct has_obs; reflexivity.
Qed.

(* what a wrong table does: a reducer outside the model is refused, never silently read as a sum *)
Lemma other_reducer_refused : forall t k m0 j g, table_fn t "observed" = Some FOther -> agg_row_by t k m0 j g = None.
Proof.
  intros t k m0 j g H. unfold agg_row_by. destruct (col_num t "temperature" (map d_temp g)); [|reflexivity].
  cbn [obind]. unfold col_num at 1. rewrite H. reflexivity.
Qed.

(* ---------------------------------------------------------------- the source's tables (regenerated on every run) *)
Lemma source_arg_chain_billing : gen_arg_chain_billing = model_arg_chain /\ gen_arg_else_billing = ValueErr.
Proof. split; vm_compute; reflexivity. Qed.
Lemma source_arg_chain_weighted : gen_arg_chain_weighted = model_arg_chain /\ gen_arg_else_weighted = ValueErr.
Proof. split; vm_compute; reflexivity. Qed.
Lemma source_agg_table_billing : gen_agg_table_billing = model_agg_table.
Proof. vm_compute. reflexivity. Qed.
Lemma source_agg_table_weighted : gen_agg_table_weighted = model_agg_table.
Proof. vm_compute. reflexivity. Qed.

(* hence, for every argument and every frame, the source's tables compute the model *)
Lemma source_parse_billing : forall a, parse_arg_by gen_arg_chain_billing gen_arg_else_billing a = Some (parse_arg a).
Proof. intros a. destruct source_arg_chain_billing as [E1 E2]. rewrite E1, E2. apply parse_arg_by_model. Qed.
Lemma source_parse_weighted : forall a, parse_arg_by gen_arg_chain_weighted gen_arg_else_weighted a = Some (parse_arg a).
Proof. intros a. destruct source_arg_chain_weighted as [E1 E2]. rewrite E1, E2. apply parse_arg_by_model. Qed.

Lemma source_aggregate_billing : forall k rows, aggregate_by gen_agg_table_billing k rows = Some (aggregate k rows).
Proof. intros. rewrite source_agg_table_billing. apply aggregate_by_model. Qed.
Lemma source_aggregate_weighted : forall k rows, aggregate_by gen_agg_table_weighted k rows = Some (aggregate k rows).
Proof. intros. rewrite source_agg_table_weighted. apply aggregate_by_model. Qed.

Lemma source_predict_billing : forall has_obs a rows,
  predict_agg_by gen_arg_chain_billing gen_arg_else_billing gen_agg_table_billing has_obs a rows
  = Some (predict_agg ObsOptional has_obs a rows).
Proof.
  intros. destruct source_arg_chain_billing as [E1 E2]. rewrite E1, E2, source_agg_table_billing. apply predict_agg_by_model.
Qed.
Lemma source_predict_weighted : forall has_obs a rows,
  predict_agg_by gen_arg_chain_weighted gen_arg_else_weighted gen_agg_table_weighted has_obs a rows
  = Some (predict_agg ObsOptional has_obs a rows).
Proof.
  intros. destruct source_arg_chain_weighted as [E1 E2]. rewrite E1, E2, source_agg_table_weighted. apply predict_agg_by_model.
Qed.
