(* Facts about the regenerated candidate endpoints that tie Model/CalTrackFit.v to the feature processors
   (property C18, extension). Finite, re-established by computation on every run. *)
From Coq Require Import ZArith QArith List Bool String.
From V Require Import Generated.CalTrackTables Model.CalTrack Model.CalTrackFit Proofs.CalTrackProofs Proofs.CalTrackFitProofs.
Import ListNotations.

(* sorted(set(default_bins)) is default_bins itself: the candidates are written sorted and without repetition *)
Lemma candidates_normal_l : normalize default_bins = default_bins.
Proof. vm_compute. reflexivity. Qed.

Lemma candidates_strict_l : strictly_increasing default_bins.
Proof. cbn. repeat split; repeat constructor. Qed.

(* the endpoint list a feature processor selects with the keep-flag column of fit_temperature_bins is exactly the
   list _fit_temperature_bins returned *)
Lemma fitted_endpoints_l : forall temps minc,
  endpoints_of_flags (fit_flags temps default_bins minc) = fit_temperature_bins_list temps default_bins minc.
Proof. intros temps minc. unfold endpoints_of_flags. apply fit_flags_select; [ exact candidates_normal_l | exact candidates_strict_l ]. Qed.

(* ... hence its bins each hold the minimum count, or there is a single bin *)
Lemma fitted_endpoints_min_count_l : forall temps minc,
  let e := endpoints_of_flags (fit_flags temps default_bins minc) in
  e = [] \/ Forall (fun c => (minc <= c)%nat) (bin_counts temps e).
Proof.
  intros temps minc. cbv zeta. rewrite fitted_endpoints_l. unfold fit_temperature_bins_list. apply fit_bins_min_count.
Qed.
