(* Facts about the regenerated candidate endpoints that tie Model/CalTrackFit.v to the feature processors
   (property C18, extension). Finite, re-established by computation on every run. *)
From Coq Require Import ZArith QArith List Bool String PrimFloat.
From V Require Import Generated.CalTrackTables Model.CalTrack Model.CalTrackFit Proofs.CalTrackProofs Proofs.CalTrackFitProofs.
Import ListNotations.

(* sorted(set(default_bins)) is default_bins itself: the candidates are written sorted and without repetition *)
Lemma candidates_normal_l : normalize default_bins = default_bins.
Proof. vm_compute. reflexivity. Qed.

Lemma candidates_strict_l : strictly_increasing default_bins.
Proof. cbn. repeat split; repeat constructor. Qed.

(* the endpoint list a feature processor selects with the keep-flag column of fit_temperature_bins is exactly the
   list _fit_temperature_bins returned *)
Lemma fitted_endpoints_l : forall temps minc,
  endpoints_of_flags (fit_flags temps default_bins minc) = fit_temperature_bins_list temps default_bins minc.
Proof. intros temps minc. unfold endpoints_of_flags. apply fit_flags_select; [ exact candidates_normal_l | exact candidates_strict_l ]. Qed.

(* ... hence its bins each hold the minimum count, or there is a single bin *)
Lemma fitted_endpoints_min_count_l : forall temps minc,
  let e := endpoints_of_flags (fit_flags temps default_bins minc) in
  e = [] \/ Forall (fun c => (minc <= c)%nat) (bin_counts temps e).
Proof.
  intros temps minc. cbv zeta. rewrite fitted_endpoints_l. unfold fit_temperature_bins_list. apply fit_bins_min_count.
Qed.

(* the binary64 evaluation of the occupancy rule (what the correspondence executes) and the exact rule (what the theorems
   are about) give the same flag at the default threshold, for every count of residuals up to 250 per hour of week *)
Definition agree_upto (bound : nat) : bool :=
  forallb (fun n => forallb (fun p => Bool.eqb (flag_f default_occupancy_threshold_f p n) (flag_q default_occupancy_threshold p n))
                            (seq 0 (S n))) (seq 0 (S bound)).
(* for an abstract bound (so that nothing is evaluated while the statement is unfolded) ... *)
Lemma agree_upto_spec : forall bound, agree_upto bound = true -> forall n p, (n <= bound)%nat -> (p <= n)%nat ->
  flag_f default_occupancy_threshold_f p n = flag_q default_occupancy_threshold p n.
Proof.
  intros bound H n p Hn Hp. unfold agree_upto in H. rewrite forallb_forall in H.
  assert (In n (seq 0 (S bound))) as Hin by (apply in_seq; split; [ apply Nat.le_0_l | apply le_n_S; exact Hn ]).
  specialize (H n Hin). rewrite forallb_forall in H.
  assert (In p (seq 0 (S n))) as Hip by (apply in_seq; split; [ apply Nat.le_0_l | apply le_n_S; exact Hp ]).
  specialize (H p Hip). apply eqb_prop in H. exact H.
Qed.
(* ... and the computation for 250, by the VM *)
Lemma agree_250 : agree_upto 250 = true.
Proof. vm_compute. reflexivity. Qed.

Lemma occupancy_float_rule_agrees_l : forall n p, (n <= 250)%nat -> (p <= n)%nat ->
  flag_f default_occupancy_threshold_f p n = flag_q default_occupancy_threshold p n.
Proof. exact (agree_upto_spec 250 agree_250). Qed.

Lemma default_threshold_same_l : Q2F default_occupancy_threshold = default_occupancy_threshold_f.
Proof. vm_compute. reflexivity. Qed.
