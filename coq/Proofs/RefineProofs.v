(* Lemmas about Model/Refine.v (what happens to the optimiser's result before it is stored) at the real-number
   instance [RNumOf lo hi].  The theorems of Properties/C12.v are these lemmas.
   The optimiser is not modelled: every statement quantifies over ALL raw vectors of the box. *)
From Coq Require Import Reals Lra List Bool Sorted Permutation Lia Arith.
From V Require Import Model.Num Model.NumR Model.DailyCurve Model.Refine Proofs.DailyCurveProofs.
Import ListNotations.
Local Open Scope R_scope.

Section RefineFacts.
Variables lo hi : R.
Hypothesis Hlo : lo <= 0.
Hypothesis Hhi : 0 <= hi.
Notation N := (RNumOf lo hi).

Local Arguments fix_full_model_x : simpl never.
Local Arguments get_smooth_coeffs : simpl never.
Local Arguments full_model1 : simpl never.
Local Arguments get_k : simpl never.

(* decide the comparisons that occur in a goal, using the hypotheses *)
Ltac dec_R :=
  repeat match goal with
         | |- context [Rlt_dec ?a ?b] => destruct (Rlt_dec a b); try lra
         | |- context [Rle_dec ?a ?b] => destruct (Rle_dec a b); try lra
         | |- context [Req_EM_T ?a ?b] => destruct (Req_EM_T a b); try lra
         end.

Lemma pos_of_ne : forall a : R, 0 <= a -> a <> 0 -> 0 < a.
Proof. intros a [H|H] Hn; [exact H | exfalso; apply Hn; symmetry; exact H]. Qed.

Ltac rq := repeat match goal with
  | H : ?a = 0 |- context [Reqb ?a 0] => rewrite (proj2 (Reqb_true a 0) H)
  | H : ?a <> 0 |- context [Reqb ?a 0] => rewrite (proj2 (Reqb_false a 0) H)
  | |- context [Reqb 0 0] => rewrite (proj2 (Reqb_true 0 0) eq_refl)
  end.

(* ---------------- get_k *)
Lemma get_k_spec : forall hbp ph cbp pc Tminseg Tmaxseg : R, hbp <= cbp -> 0 <= ph -> 0 <= pc ->
  exists hbp' hk cbp' ck : R,
    get_k N hbp ph cbp pc Tminseg Tmaxseg = (hbp', hk, cbp', ck) /\
    hbp <= hbp' /\ hbp' <= cbp' /\ cbp' <= cbp /\ 0 <= hk /\ 0 <= ck /\
    (pc = 0 -> ck = 0) /\ (ph = 0 -> hk = 0).
Proof.
  intros hbp ph cbp pc Tminseg Tmaxseg Ho Hph Hpc. unfold get_k.
  destruct (smooth_coeffs_spec lo hi hbp ph cbp pc Ho Hph Hpc) as (hk & ck & Hs & S1 & S2 & S3 & Z1 & Z2 & _).
  rewrite Hs. cbn. unfold n_geb. cbn. unfold Rleb, Reqb.
  repeat (match goal with
          | |- context [Rle_dec ?a ?b] => destruct (Rle_dec a b)
          | |- context [Req_EM_T ?a ?b] => destruct (Req_EM_T a b)
          end; cbn);
  do 4 eexists; (split; [reflexivity|]); repeat split; intros; try lra; auto.
Qed.

(* ---------------- fix_full_model_x on any sign-correct vector (crossed balance points are swapped first) *)
Lemma fix_any : forall hb hbeta hk cb cbeta ck i Tlo Thi : R,
  0 <= hbeta -> 0 <= cbeta -> 0 <= hk -> 0 <= ck ->
  exists x : fullx N,
    fix_full_model_x N (mkfx N hb hbeta hk cb cbeta ck i) Tlo Thi = x /\
    x_hdd_bp x = Rmin hb cb /\ x_cdd_bp x = Rmax hb cb /\
    0 <= x_hdd_beta x /\ 0 <= x_cdd_beta x /\ 0 <= x_hdd_k x /\ 0 <= x_cdd_k x /\
    (x_hdd_beta x = 0 -> x_hdd_k x = 0) /\ (x_cdd_beta x = 0 -> x_cdd_k x = 0) /\
    x_intercept x = i /\
    (hb = cb -> x_hdd_beta x = hbeta /\ x_cdd_beta x = cbeta).
Proof.
  intros hb hbeta hk cb cbeta ck i Tlo Thi H1 H2 H3 H4.
  destruct (Rlt_dec cb hb) as [Hc|Hc].
  - assert (E : fix_full_model_x N (mkfx N hb hbeta hk cb cbeta ck i) Tlo Thi =
                fix_full_model_x N (mkfx N cb cbeta ck hb hbeta hk i) Tlo Thi).
    { unfold fix_full_model_x, order_bps, mkfx. cbn. unfold Rltb.
      destruct (Rlt_dec cb hb); [|lra]. destruct (Rlt_dec hb cb); [lra|]. reflexivity. }
    rewrite E.
    destruct (fix_ordered lo hi cb cbeta ck hb hbeta hk i Tlo Thi) as
      (b1 & k1 & b2 & k2 & Hf & Fb1 & Fb2 & Fk1 & Fk2 & Z1 & Z2 & _ & _ & Fint); [lra|].
    unfold mkx in Hf. unfold mkfx. rewrite Hf. eexists; split; [reflexivity|]. cbn.
    rewrite Rmin_right by lra. rewrite Rmax_left by lra.
    repeat split; auto; try (destruct Fb1, Fb2, Fk1, Fk2; lra); try (intros; lra).
  - destruct (fix_ordered lo hi hb hbeta hk cb cbeta ck i Tlo Thi) as
      (b1 & k1 & b2 & k2 & Hf & Fb1 & Fb2 & Fk1 & Fk2 & Z1 & Z2 & _ & _ & Fint); [lra|].
    unfold mkx in Hf. unfold mkfx. rewrite Hf. eexists; split; [reflexivity|]. cbn.
    rewrite Rmin_left by lra. rewrite Rmax_right by lra.
    repeat split; auto; try (destruct Fb1, Fb2, Fk1, Fk2; lra); try (intros E'; apply Fint; left; exact E').
Qed.

(* ---------------- the statement's list on one stored sub-model *)
Section WF.
Variables Tmin Tmax Tminseg Tmaxseg : R.
Notation tc := (Build_tconstr N Tmin Tmax Tminseg Tmaxseg).
Variables qlo qhi : R.

Definition wellformed (c : coeffs N) : Prop :=
  qlo <= intercept c <= qhi /\
  match model_type c, hdd_bp c, hdd_beta c, hdd_k c, cdd_bp c, cdd_beta c, cdd_k c with
  | HddTiddCddSmooth, Some hb, Some hbeta, Some hk, Some cb, Some cbeta, Some ck =>
      T_min tc <= hb /\ hb <= cb /\ cb <= T_max tc /\ 0 < hbeta /\ 0 < cbeta /\ 0 <= hk /\ 0 <= ck /\ (hk <> 0 \/ ck <> 0)
  | HddTiddCdd, Some hb, Some hbeta, None, Some cb, Some cbeta, None =>
      T_min tc <= hb /\ hb <= cb /\ cb <= T_max tc /\ 0 < hbeta /\ 0 < cbeta
  | HddTiddSmooth, Some hb, Some hbeta, Some hk, None, None, None =>
      T_min tc <= hb <= T_max tc /\ hbeta < 0 /\ 0 < hk
  | TiddCddSmooth, None, None, None, Some cb, Some cbeta, Some ck =>
      T_min tc <= cb <= T_max tc /\ 0 < cbeta /\ 0 < ck
  | HddTidd, Some hb, Some hbeta, None, None, None, None => T_min tc <= hb <= T_max_seg tc /\ hbeta < 0
  | TiddCdd, None, None, None, Some cb, Some cbeta, None => T_min_seg tc <= cb <= T_max tc /\ 0 < cbeta
  | Tidd, None, None, None, None, None, None => True
  | _, _, _, _, _, _, _ => False
  end.

(* the 7-vector after get_full_model_x, for a raw vector of the box *)
Definition fixed_ok (x : fullx N) : Prop :=
  x_hdd_bp x <= x_cdd_bp x /\
  ((x_hdd_beta x <> 0 \/ x_cdd_beta x <> 0) -> T_min tc <= x_hdd_bp x /\ x_cdd_bp x <= T_max tc) /\
  0 <= x_hdd_beta x /\ 0 <= x_cdd_beta x /\ 0 <= x_hdd_k x /\ 0 <= x_cdd_k x /\
  (x_hdd_beta x = 0 -> x_hdd_k x = 0) /\ (x_cdd_beta x = 0 -> x_cdd_k x = 0) /\
  qlo <= x_intercept x <= qhi.

Definition good_result (r : option (model_key * list R)) : Prop :=
  exists id x' c, r = Some (id, x') /\ from_np_arrays N id x' = Some c /\ wellformed c.

Hypothesis Hb : bounds_ok lo hi tc.

Lemma reduce_step_ok : forall (rec : fullx N -> option (model_key * list R)) (key : model_key) (x : fullx N),
  fixed_ok x ->
  (key = KFullSmooth -> forall y, fixed_ok y -> x_hdd_k y = 0 -> x_cdd_k y = 0 -> good_result (rec y)) ->
  good_result (reduce_step N rec x (T_min_seg tc) (T_max_seg tc) key).
Proof.
  intros rec key [hbp hbeta ph cbp cbeta pc i] (F1 & F2 & F3 & F4 & F5 & F6 & F7 & F8 & F9) Hrec.
  cbn in F1, F2, F3, F4, F5, F6, F7, F8, F9.
  destruct Hb as (B1 & B2 & B3). cbn in B1, B2, B3. cbn [T_min T_max T_min_seg T_max_seg] in *. change (carrier N) with R in *.
  unfold reduce_step. cbn [x_hdd_bp x_hdd_beta x_hdd_k x_cdd_bp x_cdd_beta x_cdd_k x_intercept].
  unfold n_neqb. change (@n_eqb N) with Reqb. change (@n_zero N) with 0.
  destruct (Req_EM_T hbeta 0) as [Eh|Eh]; destruct (Req_EM_T cbeta 0) as [Ec|Ec].
  - (* both slopes zero: tidd *)
    subst. rewrite (proj2 (Reqb_true 0 0) eq_refl). cbn.
    exists KTidd, [i], (Build_coeffs N Tidd i None None None None None None).
    split; [reflexivity|]. split; [reflexivity|]. split; [exact F9 | exact I].
  - (* cooling only *)
    assert (Hph : ph = 0) by auto. subst hbeta ph.
    destruct (F2 (or_intror Ec)) as [R1 R2]. pose proof (pos_of_ne cbeta F4 Ec) as Pc.
    rq. cbn [negb andb orb].
    destruct (Req_EM_T pc 0) as [Ek|Ek]; [|pose proof (pos_of_ne pc F6 Ek) as Pk]; rq; cbn [negb andb orb].
    + (* unsmoothed *)
      unfold n_leb. cbn. unfold Rleb.
      eexists KC, _, _. split; [reflexivity|]. cbn. unfold Rltb. destruct (Rlt_dec cbeta 0); [exfalso; lra|].
      split; [reflexivity|]. split; [exact F9|]. cbn.
      destruct (Rle_dec cbp Tminseg); lra.
    + destruct key; try (
        eexists KCSmooth, _, _; split; [reflexivity|]; cbn; unfold Rltb; destruct (Rlt_dec cbeta 0); [exfalso; lra|];
        split; [reflexivity|]; split; [exact F9|]; cbn; lra).
      destruct (get_k_spec hbp 0 cbp pc Tminseg Tmaxseg F1 (Rle_refl 0) F6)
        as (hbp' & hk & cbp' & ck & Hg & G1 & G2 & G3 & G4 & G5 & G6 & G7).
      rewrite Hg. assert (hk = 0) by auto. subst hk. rq. cbn [andb].
      destruct (Req_EM_T ck 0) as [Ek2|Ek2]; [|pose proof (pos_of_ne ck G5 Ek2) as Pk2]; rq.
      * apply (Hrec eq_refl); [|reflexivity|exact Ek2]. unfold fixed_ok; cbn. subst ck.
        repeat split; try lra; auto.
      * eexists KCSmooth, _, _; split; [reflexivity|]; cbn; unfold Rltb; destruct (Rlt_dec cbeta 0); [exfalso; lra|].
        split; [reflexivity|]; split; [exact F9|]; cbn; lra.
  - (* heating only *)
    assert (Hpc : pc = 0) by auto. subst cbeta pc.
    destruct (F2 (or_introl Eh)) as [R1 R2]. pose proof (pos_of_ne hbeta F3 Eh) as Ph.
    rq. cbn [negb andb orb].
    destruct (Req_EM_T ph 0) as [Ek|Ek]; [|pose proof (pos_of_ne ph F5 Ek) as Pk]; rq; cbn [negb andb orb].
    + unfold n_geb, n_leb. cbn. unfold Rleb.
      eexists KC, _, _. split; [reflexivity|]. cbn. unfold Rltb. destruct (Rlt_dec (- hbeta) 0); [|exfalso; lra].
      split; [reflexivity|]. split; [exact F9|]. cbn.
      destruct (Rle_dec Tmaxseg hbp); lra.
    + destruct key; try (
        eexists KCSmooth, _, _; split; [reflexivity|]; cbn; unfold Rltb; destruct (Rlt_dec (- hbeta) 0); [|exfalso; lra];
        split; [reflexivity|]; split; [exact F9|]; cbn; lra).
      destruct (get_k_spec hbp ph cbp 0 Tminseg Tmaxseg F1 F5 (Rle_refl 0))
        as (hbp' & hk & cbp' & ck & Hg & G1 & G2 & G3 & G4 & G5 & G6 & G7).
      rewrite Hg. assert (ck = 0) by auto. subst ck.
      destruct (Req_EM_T hk 0) as [Ek2|Ek2]; [|pose proof (pos_of_ne hk G4 Ek2) as Pk2]; rq; cbn [andb].
      * apply (Hrec eq_refl); [|exact Ek2|reflexivity]. unfold fixed_ok; cbn. subst hk.
        repeat split; try lra; auto.
      * eexists KCSmooth, _, _; split; [reflexivity|]; cbn; unfold Rltb; destruct (Rlt_dec (- hbeta) 0); [|exfalso; lra].
        split; [reflexivity|]; split; [exact F9|]; cbn; lra.
  - (* both slopes *)
    destruct (F2 (or_introl Eh)) as [R1 R2]. pose proof (pos_of_ne hbeta F3 Eh) as Ph. pose proof (pos_of_ne cbeta F4 Ec) as Pc.
    rq. cbn [negb andb orb].
    destruct (Req_EM_T ph 0) as [Ek|Ek]; destruct (Req_EM_T pc 0) as [Ek'|Ek']; rq; cbn [negb andb orb].
    + eexists KFull, _, _. split; [reflexivity|]. cbn. unfold Rltb. destruct (Rlt_dec cbp hbp); [exfalso; lra|].
      split; [reflexivity|]. split; [exact F9|]. cbn. lra.
    + eexists KFullSmooth, _, _. split; [reflexivity|]. cbn. unfold Rltb. destruct (Rlt_dec cbp hbp); [exfalso; lra|].
      split; [reflexivity|]. split; [exact F9|]. cbn. repeat split; try lra; try (right; exact Ek').
    + eexists KFullSmooth, _, _. split; [reflexivity|]. cbn. unfold Rltb. destruct (Rlt_dec cbp hbp); [exfalso; lra|].
      split; [reflexivity|]. split; [exact F9|]. cbn. repeat split; try lra; try (left; exact Ek).
    + eexists KFullSmooth, _, _. split; [reflexivity|]. cbn. unfold Rltb. destruct (Rlt_dec cbp hbp); [exfalso; lra|].
      split; [reflexivity|]. split; [exact F9|]. cbn. repeat split; try lra; try (left; exact Ek).
Qed.


Lemma reduce_model_ok : forall (key : model_key) (x : fullx N), fixed_ok x ->
  good_result (reduce_model N x Tminseg Tmaxseg key).
Proof.
  intros key x F. unfold reduce_model. apply reduce_step_ok; [exact F|].
  intros _ y Fy _ _. apply reduce_step_ok; [exact Fy|]. intros E; discriminate E.
Qed.


(* ---------------- the box of the fit functions (widest form: balance points anywhere in the observed range) *)
Definition box_spec (key : model_key) (raw : list R) : Prop :=
  match key, raw with
  | KFullSmooth, [hb; hbeta; ph; cb; cbeta; pc; i] =>
      Tmin <= hb <= Tmax /\ Tmin <= cb <= Tmax /\ 0 <= hbeta /\ 0 <= cbeta /\ 0 <= ph /\ 0 <= pc /\ qlo <= i <= qhi
  | KFull, [hb; hbeta; cb; cbeta; i] =>
      Tmin <= hb <= Tmax /\ Tmin <= cb <= Tmax /\ 0 <= hbeta /\ 0 <= cbeta /\ qlo <= i <= qhi
  | KCSmooth, [bp; beta; k; i] => Tmin <= bp <= Tmax /\ 0 <= k /\ qlo <= i <= qhi
  | KC, [bp; beta; i] => Tmin <= bp <= Tmax /\ qlo <= i <= qhi
  | KTidd, [i] => qlo <= i <= qhi
  | _, _ => False
  end.

Lemma get_full_model_x_ok : forall key raw, box_spec key raw ->
  exists x, get_full_model_x N key raw Tmin Tmax Tminseg Tmaxseg = Some x /\ fixed_ok x.
Proof.
  intros key raw B. destruct Hb as (B1 & B2 & B3). cbn in B1, B2, B3.
  destruct key; cbn in B.
  - destruct raw as [|hb [|hbeta [|ph [|cb [|cbeta [|pc [|i [|]]]]]]]]; try contradiction.
    destruct B as (P1 & P2 & P3 & P4 & P5 & P6 & P7).
    unfold get_full_model_x.
    destruct (fix_any hb hbeta ph cb cbeta pc i Tmin Tmax P3 P4 P5 P6) as (x & Hx & X1 & X2 & X3 & X4 & X5 & X6 & X7 & X8 & X9 & _).
    unfold mkfx in Hx. rewrite Hx. exists x. split; [reflexivity|]. unfold fixed_ok. cbn [T_min T_max].
    rewrite X1, X2, X9.
    pose proof (Rmin_l hb cb). pose proof (Rmin_r hb cb). pose proof (Rmax_l hb cb). pose proof (Rmax_r hb cb).
    assert (Rmin hb cb = hb \/ Rmin hb cb = cb) by (unfold Rmin; destruct (Rle_dec hb cb); auto).
    assert (Rmax hb cb = hb \/ Rmax hb cb = cb) by (unfold Rmax; destruct (Rle_dec hb cb); auto).
    repeat split; auto; try lra; try (destruct H3, H4; lra).
  - destruct raw as [|hb [|hbeta [|cb [|cbeta [|i [|]]]]]]; try contradiction.
    destruct B as (P1 & P2 & P3 & P4 & P7).
    unfold get_full_model_x. change (@n_zero N) with 0.
    destruct (fix_any hb hbeta 0 cb cbeta 0 i Tmin Tmax P3 P4 (Rle_refl 0) (Rle_refl 0)) as (x & Hx & X1 & X2 & X3 & X4 & X5 & X6 & X7 & X8 & X9 & _).
    unfold mkfx in Hx. rewrite Hx. exists x. split; [reflexivity|]. unfold fixed_ok. cbn [T_min T_max].
    rewrite X1, X2, X9.
    pose proof (Rmin_l hb cb). pose proof (Rmin_r hb cb). pose proof (Rmax_l hb cb). pose proof (Rmax_r hb cb).
    assert (Rmin hb cb = hb \/ Rmin hb cb = cb) by (unfold Rmin; destruct (Rle_dec hb cb); auto).
    assert (Rmax hb cb = hb \/ Rmax hb cb = cb) by (unfold Rmax; destruct (Rle_dec hb cb); auto).
    repeat split; auto; try lra; try (destruct H3, H4; lra).
  - destruct raw as [|bp [|beta [|k [|i [|]]]]]; try contradiction.
    destruct B as (P1 & P2 & P7).
    unfold get_full_model_x. change (@n_zero N) with 0. change (@n_ltb N beta 0) with (Rltb beta 0). unfold Rltb.
    destruct (Rlt_dec beta 0) as [Hn|Hn].
    + destruct (fix_any bp (- beta) k bp 0 0 i Tmin Tmax) as (x & Hx & X1 & X2 & X3 & X4 & X5 & X6 & X7 & X8 & X9 & _); try lra.
      unfold mkfx in Hx. change (@n_opp N beta) with (- beta). rewrite Hx. exists x. split; [reflexivity|].
      unfold fixed_ok. cbn [T_min T_max]. rewrite X1, X2, X9. rewrite Rmin_left, Rmax_left by lra.
      repeat split; auto; lra.
    + destruct (fix_any bp 0 0 bp beta k i Tmin Tmax) as (x & Hx & X1 & X2 & X3 & X4 & X5 & X6 & X7 & X8 & X9 & _); try lra.
      unfold mkfx in Hx. rewrite Hx. exists x. split; [reflexivity|].
      unfold fixed_ok. cbn [T_min T_max]. rewrite X1, X2, X9. rewrite Rmin_left, Rmax_left by lra.
      repeat split; auto; lra.
  - destruct raw as [|bp [|beta [|i [|]]]]; try contradiction.
    destruct B as (P1 & P7).
    unfold get_full_model_x. change (@n_zero N) with 0. unfold n_gtb.
    change (@n_ltb N) with Rltb. unfold Rltb.
    set (bp' := if (if Rlt_dec bp Tminseg then true else false) then Tminseg
                else if (if Rlt_dec Tmaxseg bp then true else false) then Tmaxseg else bp).
    assert (Hbp' : Tmin <= bp' <= Tmax).
    { unfold bp'. destruct (Rlt_dec bp Tminseg); [lra|]. destruct (Rlt_dec Tmaxseg bp); lra. }
    destruct (Rlt_dec beta 0) as [Hn|Hn].
    + destruct (fix_any bp' (- beta) 0 bp' 0 0 i Tmin Tmax) as (x & Hx & X1 & X2 & X3 & X4 & X5 & X6 & X7 & X8 & X9 & _); try lra.
      unfold mkfx in Hx. change (@n_opp N beta) with (- beta). exists x. split; [apply f_equal; exact Hx|].
      unfold fixed_ok. cbn [T_min T_max]. rewrite X1, X2, X9. rewrite Rmin_left, Rmax_left by lra.
      repeat split; auto; lra.
    + destruct (fix_any bp' 0 0 bp' beta 0 i Tmin Tmax) as (x & Hx & X1 & X2 & X3 & X4 & X5 & X6 & X7 & X8 & X9 & _); try lra.
      unfold mkfx in Hx. exists x. split; [apply f_equal; exact Hx|].
      unfold fixed_ok. cbn [T_min T_max]. rewrite X1, X2, X9. rewrite Rmin_left, Rmax_left by lra.
      repeat split; auto; lra.
  - destruct raw as [|i [|]]; try contradiction.
    unfold get_full_model_x. change (@n_zero N) with 0.
    destruct (fix_any 0 0 0 0 0 0 i Tmin Tmax) as (x & Hx & X1 & X2 & X3 & X4 & X5 & X6 & X7 & X8 & X9 & Xe); try lra.
    unfold mkfx in Hx. rewrite Hx. exists x. split; [reflexivity|].
    destruct (Xe eq_refl) as [Z1 Z2].
    unfold fixed_ok. cbn [T_min T_max]. rewrite X1, X2, X9, Z1, Z2. rewrite Rmin_left, Rmax_left by lra.
    repeat split; auto; try lra; intros [Hne|Hne]; exfalso; apply Hne; reflexivity.
Qed.

(* C12: the stored sub-model of ANY optimiser outcome inside the box is admissible and well formed *)
Theorem refine_admissible : forall key raw, box_spec key raw ->
  exists c, named_coeffs N key raw tc = Some c /\ wellformed c.
Proof.
  intros key raw B. destruct (get_full_model_x_ok key raw B) as (x & Hx & F).
  destruct (reduce_model_ok key x F) as (id & x' & c & Hr & Hc & W).
  exists c. split; [|exact W].
  unfold named_coeffs, refine. cbn [T_min T_max T_min_seg T_max_seg]. rewrite Hx, Hr. exact Hc.
Qed.


(* ---------------- the box the fit functions hand to the optimiser implies box_spec *)
Section BoxSound.
(* first for ANY row fix-up that leaves non-degenerate rows alone; instantiated with fix_identical_bnds as coded below *)
Variable fix_identical : R * R -> R * R.
Hypothesis fix_identical_nondegenerate : forall r : R * R, fst r < snd r -> fix_identical r = r.
Variables Tlo Thi : R.
Hypothesis HT : Tmin <= Tlo /\ Tlo <= Thi /\ Thi <= Tmax.
Hypothesis Hq : qlo < qhi.

Lemma f_sorted_row : forall a b : R, a < b -> fix_identical (sort_row N (a, b)) = (a, b).
Proof.
  intros a b H. unfold sort_row. cbn. unfold Rltb. destruct (Rlt_dec b a); [lra|].
  apply fix_identical_nondegenerate. cbn. exact H.
Qed.

Lemma clip_lower_0_nonneg : forall r : R * R, 0 <= fst (clip_lower_0 N r).
Proof.
  intros [a b]. unfold clip_lower_0. cbn. unfold Rltb. destruct (Rlt_dec a 0); cbn; lra.
Qed.

Lemma in_box_cons : forall (lo' hi' v : R) bs xs,
  in_box N ((lo', hi') :: bs) (v :: xs) = true -> lo' <= v <= hi' /\ in_box N bs xs = true.
Proof.
  intros lo' hi' v bs xs H. cbn in H. apply andb_true_iff in H. destruct H as [H H3].
  apply andb_true_iff in H. destruct H as [H1 H2].
  change (@n_leb N lo' v) with (Rleb lo' v) in H1. change (@n_leb N v hi') with (Rleb v hi') in H2.
  apply Rleb_true in H1, H2. auto.
Qed.

Lemma in_box_cons' : forall (r : R * R) (v : R) bs xs,
  in_box N (r :: bs) (v :: xs) = true -> fst r <= v <= snd r /\ in_box N bs xs = true.
Proof. intros [a b] v bs xs H. apply in_box_cons in H. exact H. Qed.

Lemma in_box_length : forall bs xs, in_box N bs xs = true -> length xs = length bs.
Proof.
  induction bs as [|[a b] bs IH]; intros [|v xs] H; cbn in H; try discriminate; try reflexivity.
  apply andb_true_iff in H. destruct H as [_ H]. cbn. f_equal. apply IH. exact H.
Qed.

Theorem box_sound_full_smooth : forall nb r1 r2 r4 r5 B raw, Tlo < Thi ->
  update_bnds_full_smooth N fix_identical nb [(Tlo, Thi); r1; r2; (Tlo, Thi); r4; r5; (qlo, qhi)] = Some B ->
  in_box N B raw = true -> box_spec KFullSmooth raw.
Proof.
  intros nb r1 r2 r4 r5 B raw Hlt HB Hin. unfold update_bnds_full_smooth in HB.
  destruct nb as [|n0 [|n1 [|n2 [|n3 [|n4 [|n5 [|n6 [|]]]]]]]]; try discriminate.
  injection HB as HB. subst B. rewrite !f_sorted_row in Hin by assumption.
  pose proof (in_box_length _ _ Hin) as HL.
  destruct raw as [|hb [|hbeta [|ph [|cb [|cbeta [|pc [|i [|]]]]]]]]; try discriminate HL.
  apply in_box_cons in Hin. destruct Hin as [I0 Hin].
  apply in_box_cons' in Hin. destruct Hin as [I1 Hin].
  apply in_box_cons' in Hin. destruct Hin as [I2 Hin].
  apply in_box_cons in Hin. destruct Hin as [I3 Hin].
  apply in_box_cons' in Hin. destruct Hin as [I4 Hin].
  apply in_box_cons' in Hin. destruct Hin as [I5 Hin].
  apply in_box_cons in Hin. destruct Hin as [I6 _].
  pose proof (clip_lower_0_nonneg (fix_identical (sort_row N n1))).
  pose proof (clip_lower_0_nonneg (fix_identical (sort_row N n2))).
  pose proof (clip_lower_0_nonneg (fix_identical (sort_row N n4))).
  pose proof (clip_lower_0_nonneg (fix_identical (sort_row N n5))).
  destruct HT as (HT1 & HT2 & HT3). cbn in *. repeat split; lra.
Qed.

Theorem box_sound_full : forall nb r1 r3 B raw, Tlo < Thi ->
  update_bnds_full N fix_identical nb [(Tlo, Thi); r1; (Tlo, Thi); r3; (qlo, qhi)] = Some B ->
  in_box N B raw = true -> box_spec KFull raw.
Proof.
  intros nb r1 r3 B raw Hlt HB Hin. unfold update_bnds_full in HB.
  destruct nb as [|n0 [|n1 [|n2 [|n3 [|n4 [|]]]]]]; try discriminate.
  injection HB as HB. subst B. rewrite !f_sorted_row in Hin by assumption.
  pose proof (in_box_length _ _ Hin) as HL.
  destruct raw as [|hb [|hbeta [|cb [|cbeta [|i [|]]]]]]; try discriminate HL.
  apply in_box_cons in Hin. destruct Hin as [I0 Hin].
  apply in_box_cons' in Hin. destruct Hin as [I1 Hin].
  apply in_box_cons in Hin. destruct Hin as [I2 Hin].
  apply in_box_cons' in Hin. destruct Hin as [I3 Hin].
  apply in_box_cons in Hin. destruct Hin as [I4 _].
  pose proof (clip_lower_0_nonneg (fix_identical (sort_row N n1))).
  pose proof (clip_lower_0_nonneg (fix_identical (sort_row N n3))).
  destruct HT as (HT1 & HT2 & HT3). cbn in *. repeat split; lra.
Qed.

(* one-sided layouts: also when the balance point is pinned by identical bounds (Tlo = Thi) *)
Lemma keep_pinned_row : keep_pinned N (Tlo, Thi) (fix_identical (sort_row N (Tlo, Thi))) = (Tlo, Thi).
Proof.
  unfold keep_pinned. cbn. unfold Reqb. destruct (Req_EM_T Tlo Thi) as [E|E]; [reflexivity|].
  apply f_sorted_row. lra.
Qed.

Theorem box_sound_c_smooth : forall nb r1 r2 B raw,
  update_bnds_c_smooth N fix_identical nb [(Tlo, Thi); r1; r2; (qlo, qhi)] = Some B ->
  in_box N B raw = true -> box_spec KCSmooth raw.
Proof.
  intros nb r1 r2 B raw HB Hin. unfold update_bnds_c_smooth in HB.
  destruct nb as [|n0 [|n1 [|n2 [|n3 [|]]]]]; try discriminate.
  injection HB as HB. subst B. rewrite keep_pinned_row in Hin. rewrite f_sorted_row in Hin by assumption.
  pose proof (in_box_length _ _ Hin) as HL.
  destruct raw as [|bp [|beta [|k [|i [|]]]]]; try discriminate HL.
  apply in_box_cons in Hin. destruct Hin as [I0 Hin].
  apply in_box_cons' in Hin. destruct Hin as [I1 Hin].
  apply in_box_cons' in Hin. destruct Hin as [I2 Hin].
  apply in_box_cons in Hin. destruct Hin as [I3 _].
  pose proof (clip_lower_0_nonneg (fix_identical (sort_row N n2))).
  destruct HT as (HT1 & HT2 & HT3). cbn in *. repeat split; lra.
Qed.

Theorem box_sound_c : forall nb r1 B raw,
  update_bnds_c N fix_identical nb [(Tlo, Thi); r1; (qlo, qhi)] = Some B ->
  in_box N B raw = true -> box_spec KC raw.
Proof.
  intros nb r1 B raw HB Hin. unfold update_bnds_c in HB.
  destruct nb as [|n0 [|n1 [|n2 [|]]]]; try discriminate.
  injection HB as HB. subst B. rewrite keep_pinned_row in Hin. rewrite f_sorted_row in Hin by assumption.
  pose proof (in_box_length _ _ Hin) as HL.
  destruct raw as [|bp [|beta [|i [|]]]]; try discriminate HL.
  apply in_box_cons in Hin. destruct Hin as [I0 Hin].
  apply in_box_cons' in Hin. destruct Hin as [I1 Hin].
  apply in_box_cons in Hin. destruct Hin as [I2 _].
  destruct HT as (HT1 & HT2 & HT3). cbn in *. repeat split; lra.
Qed.

Theorem box_sound_tidd : forall B raw,
  update_bnds_tidd N fix_identical [(qlo, qhi)] = Some B -> in_box N B raw = true -> box_spec KTidd raw.
Proof.
  intros B raw HB Hin. unfold update_bnds_tidd in HB. injection HB as HB. subst B.
  rewrite f_sorted_row in Hin by assumption.
  pose proof (in_box_length _ _ Hin) as HL.
  destruct raw as [|i [|]]; try discriminate HL.
  apply in_box_cons in Hin. destruct Hin as [I0 _]. cbn. lra.
Qed.
End BoxSound.

(* ---------------- the same with fix_identical_bnds AS CODED (no contract left): every start vector, every row pattern *)
Lemma fix_identical_row_nondegenerate : forall r : R * R, fst r < snd r -> fix_identical_row N r = r.
Proof.
  intros [a b] H. unfold fix_identical_row. cbn [fst snd] in *. change (@n_eqb N a b) with (Reqb a b).
  unfold Reqb. destruct (Req_EM_T a b); [lra | reflexivity].
Qed.

(* the lower end of every slope / smoothing row is >= 0, also when the start vector has zero slopes, zero k, equal
   balance points or values on the limits (degenerate rows are widened symmetrically first and clamped afterwards) *)
Lemma slope_rows_nonneg_full_smooth : forall nb b0 B,
  update_bnds_full_smooth N (fix_identical_row N) nb b0 = Some B ->
  exists r0 r1 r2 r3 r4 r5 r6, B = [r0; r1; r2; r3; r4; r5; r6] /\ 0 <= fst r1 /\ 0 <= fst r2 /\ 0 <= fst r4 /\ 0 <= fst r5.
Proof.
  intros nb b0 B H. unfold update_bnds_full_smooth in H.
  destruct nb as [|n0 [|n1 [|n2 [|n3 [|n4 [|n5 [|n6 [|]]]]]]]]; try discriminate.
  destruct b0 as [|c0 [|c1 [|c2 [|c3 [|c4 [|c5 [|c6 [|]]]]]]]]; try discriminate.
  injection H as H. subst B. do 7 eexists. split; [reflexivity|].
  repeat split; apply clip_lower_0_nonneg.
Qed.

Lemma slope_rows_nonneg_full : forall nb b0 B,
  update_bnds_full N (fix_identical_row N) nb b0 = Some B ->
  exists r0 r1 r2 r3 r4, B = [r0; r1; r2; r3; r4] /\ 0 <= fst r1 /\ 0 <= fst r3.
Proof.
  intros nb b0 B H. unfold update_bnds_full in H.
  destruct nb as [|n0 [|n1 [|n2 [|n3 [|n4 [|]]]]]]; try discriminate.
  destruct b0 as [|c0 [|c1 [|c2 [|c3 [|c4 [|]]]]]]; try discriminate.
  injection H as H. subst B. do 5 eexists. split; [reflexivity|].
  repeat split; apply clip_lower_0_nonneg.
Qed.

Lemma k_row_nonneg_c_smooth : forall nb b0 B,
  update_bnds_c_smooth N (fix_identical_row N) nb b0 = Some B ->
  exists r0 r1 r2 r3, B = [r0; r1; r2; r3] /\ 0 <= fst r2.
Proof.
  intros nb b0 B H. unfold update_bnds_c_smooth in H.
  destruct nb as [|n0 [|n1 [|n2 [|n3 [|]]]]]; try discriminate.
  destruct b0 as [|c0 [|c1 [|c2 [|c3 [|]]]]]; try discriminate.
  injection H as H. subst B. do 4 eexists. split; [reflexivity|]. apply clip_lower_0_nonneg.
Qed.

Definition box_sound_full_smooth_coded := box_sound_full_smooth (fix_identical_row N) fix_identical_row_nondegenerate.
Definition box_sound_full_coded := box_sound_full (fix_identical_row N) fix_identical_row_nondegenerate.
Definition box_sound_c_smooth_coded := box_sound_c_smooth (fix_identical_row N) fix_identical_row_nondegenerate.
Definition box_sound_c_coded := box_sound_c (fix_identical_row N) fix_identical_row_nondegenerate.
Definition box_sound_tidd_coded := box_sound_tidd (fix_identical_row N) fix_identical_row_nondegenerate.


(* ---------------- the pinned one-sided balance point (fit_c_hdd_tidd gives the optimiser the degenerate bounds
   [T_max, T_max] for a building that heats over its whole range; reduce_model stores T_max_seg instead) *)
Lemma pinned_named : forall beta i : R, beta < 0 -> Tminseg <= Tmaxseg -> Tmaxseg <= Tmax ->
  named_coeffs N KC [Tmax; beta; i] tc = Some (Build_coeffs N HddTidd i (Some Tmaxseg) (Some beta) None None None None).
Proof.
  intros beta i Hbeta S1 S2.
  unfold named_coeffs, refine, get_full_model_x. cbn [T_min T_max T_min_seg T_max_seg].
  change (@n_zero N) with 0. unfold n_gtb. change (@n_ltb N) with Rltb. change (@n_opp N beta) with (- beta).
  unfold Rltb. destruct (Rlt_dec Tmax Tminseg); [lra|]. destruct (Rlt_dec beta 0); [|lra].
  destruct (Rlt_dec Tmaxseg Tmax) as [Hs|Hs].
  - destruct (fix_ordered lo hi Tmaxseg (- beta) 0 Tmaxseg 0 0 i Tmin Tmax (Rle_refl _))
      as (b1 & k1 & b2 & k2 & Hf & Fb1 & Fb2 & Fk1 & Fk2 & Z1 & Z2 & _ & _ & Fint).
    unfold mkx in Hf. rewrite Hf. destruct (Fint (or_introl eq_refl)) as [I1 I2].
    assert (k1 = 0) by (destruct Fk1; assumption). assert (k2 = 0) by (destruct Fk2; assumption). subst b1 b2 k1 k2.
    unfold reduce_model, reduce_step. cbn [x_hdd_bp x_hdd_beta x_hdd_k x_cdd_bp x_cdd_beta x_cdd_k x_intercept].
    unfold n_neqb, n_geb. change (@n_eqb N) with Reqb. change (@n_leb N) with Rleb. change (@n_zero N) with 0.
    assert (Hne : - beta <> 0) by lra. rq. cbn [negb andb orb].
    unfold Rleb. destruct (Rle_dec Tmaxseg Tmaxseg); [|lra].
    cbn. change (@n_opp N (- beta)) with (- - beta). unfold Rltb. destruct (Rlt_dec (- - beta) 0); [|lra].
    rewrite Ropp_involutive. reflexivity.
  - assert (Tmaxseg = Tmax) by lra. subst Tmaxseg.
    destruct (fix_ordered lo hi Tmax (- beta) 0 Tmax 0 0 i Tmin Tmax (Rle_refl _))
      as (b1 & k1 & b2 & k2 & Hf & Fb1 & Fb2 & Fk1 & Fk2 & Z1 & Z2 & _ & _ & Fint).
    unfold mkx in Hf. rewrite Hf. destruct (Fint (or_introl eq_refl)) as [I1 I2].
    assert (k1 = 0) by (destruct Fk1; assumption). assert (k2 = 0) by (destruct Fk2; assumption). subst b1 b2 k1 k2.
    unfold reduce_model, reduce_step. cbn [x_hdd_bp x_hdd_beta x_hdd_k x_cdd_bp x_cdd_beta x_cdd_k x_intercept].
    unfold n_neqb, n_geb. change (@n_eqb N) with Reqb. change (@n_leb N) with Rleb. change (@n_zero N) with 0.
    assert (Hne : - beta <> 0) by lra. rq. cbn [negb andb orb].
    unfold Rleb. destruct (Rle_dec Tmax Tmax); [|lra].
    cbn. change (@n_opp N (- beta)) with (- - beta). unfold Rltb. destruct (Rlt_dec (- - beta) 0); [|lra].
    rewrite Ropp_involutive. reflexivity.
Qed.

(* what the optimiser scored: the heating line through (T_max, intercept), on both sides *)
Lemma pinned_scored : forall beta i T : R, beta < 0 ->
  scored_curve N KC [Tmax; beta; i] tc T = Some (i + - beta * (Tmax - T)).
Proof.
  intros beta i T Hbeta. unfold scored_curve, scored_x. change (@n_zero N) with 0.
  change (@n_ltb N beta 0) with (Rltb beta 0). unfold Rltb. destruct (Rlt_dec beta 0); [|lra].
  cbn [T_min T_max]. f_equal. change (@n_opp N beta) with (- beta).
  apply (full_model1_corner_unsmoothed lo hi Tmax (- beta) 0 0 i Tmin Tmax T (Rle_refl _)). lra.
Qed.

(* what is stored: a hinge at T_max_seg with the same intercept *)
Lemma pinned_stored : forall beta i T : R, beta < 0 -> Tmin <= Tminseg -> Tminseg <= Tmaxseg -> Tmaxseg < Tmax ->
  stored_curve N KC [Tmax; beta; i] tc T = Some (i + - beta * pos (Tmaxseg - T)).
Proof.
  intros beta i T Hbeta S0 S1 S2. unfold stored_curve. rewrite pinned_named by lra.
  set (c := Build_coeffs N HddTidd i (Some Tmaxseg) (Some beta) None None None None).
  assert (A : admissible lo hi c tc).
  { unfold admissible, bounds_ok, c. cbn. lra. }
  assert (O : off_corner lo hi c tc).
  { apply upper_below_Tmax_off_corner; [exact A | unfold upper_bp, c; cbn; lra]. }
  rewrite (predict_closed lo hi Hlo Hhi c tc A O T).
  destruct (effective_good lo hi c tc A) as (x & Hx & G & I & L & U & S1' & S2' & Sint & Hbp & Hk).
  unfold eff. rewrite Hx.
  assert (Hi : interior lo hi c tc) by (left; reflexivity).
  destruct (Sint Hi) as [E1 E2]. cbn in Hbp, Hk. destruct Hbp as [P1 P2]. destruct Hk as [K1 K2].
  unfold heat_part, cool_part. rewrite E1, E2, P1, P2, K1, K2.
  unfold heat_slope, cool_slope, lower_bp, upper_bp, c. cbn.
  f_equal. rewrite !branch_k0. ring.
Qed.

(* hence on the fitted days at or below T_max_seg the stored curve is the scored one shifted down by a constant *)
Theorem pinned_readback : forall beta i T : R, beta < 0 -> Tmin <= Tminseg -> Tminseg <= Tmaxseg -> Tmaxseg < Tmax ->
  T <= Tmaxseg ->
  exists sc st, scored_curve N KC [Tmax; beta; i] tc T = Some sc /\ stored_curve N KC [Tmax; beta; i] tc T = Some st /\
                sc - st = - beta * (Tmax - Tmaxseg) /\ 0 < sc - st.
Proof.
  intros beta i T Hbeta S0 S1 S2 HT.
  exists (i + - beta * (Tmax - T)), (i + - beta * pos (Tmaxseg - T)).
  split; [apply pinned_scored; exact Hbeta|]. split; [apply pinned_stored; assumption|].
  rewrite pos_of_nonneg by lra.
  assert (0 < - beta * (Tmax - Tmaxseg)) by (apply Rmult_lt_0_compat; lra).
  split; [ring | lra].
Qed.
End WF.
End RefineFacts.

(* ------------------------------------------------------------------------------------------ *)
(* Read-back: when do the kept coefficients describe the curve the optimiser scored?            *)
(* ------------------------------------------------------------------------------------------ *)

Section Readback.
Variables lo hi : R.
Hypothesis Hlo : lo <= 0.
Hypothesis Hhi : 0 <= hi.
Notation N := (RNumOf lo hi).
Local Arguments fix_full_model_x : simpl never.
Local Arguments get_smooth_coeffs : simpl never.
Local Arguments full_model1 : simpl never.
Local Arguments get_k : simpl never.

Ltac rq := repeat match goal with
  | H : ?a = 0 |- context [Reqb ?a 0] => rewrite (proj2 (Reqb_true a 0) H)
  | H : ?a <> 0 |- context [Reqb ?a 0] => rewrite (proj2 (Reqb_false a 0) H)
  | |- context [Reqb 0 0] => rewrite (proj2 (Reqb_true 0 0) eq_refl)
  end.

(* fix_full_model_x leaves an interior, sign-correct vector alone *)
Lemma fix_identity : forall hb hbeta hk cb cbeta ck i Tlo Thi : R,
  hb <= cb -> (hb = cb \/ (Tlo < hb /\ cb < Thi)) -> (hbeta = 0 -> hk = 0) -> (cbeta = 0 -> ck = 0) ->
  fix_full_model_x N (mkfx N hb hbeta hk cb cbeta ck i) Tlo Thi = mkfx N hb hbeta hk cb cbeta ck i.
Proof.
  intros hb hbeta hk cb cbeta ck i Tlo Thi Ho Hint Z1 Z2.
  destruct (fix_ordered lo hi hb hbeta hk cb cbeta ck i Tlo Thi Ho)
    as (b1 & k1 & b2 & k2 & Hf & Fb1 & Fb2 & Fk1 & Fk2 & Y1 & Y2 & K1 & K2 & Fint).
  unfold mkx in Hf. unfold mkfx. rewrite Hf. destruct (Fint Hint) as [I1 I2]. subst b1 b2.
  assert (k1 = hk). { destruct (Req_EM_T hbeta 0) as [E|E]; [rewrite (Y1 E), (Z1 E); reflexivity | exact (K1 E)]. }
  assert (k2 = ck). { destruct (Req_EM_T cbeta 0) as [E|E]; [rewrite (Y2 E), (Z2 E); reflexivity | exact (K2 E)]. }
  subst. reflexivity.
Qed.

(* two sign-correct ordered vectors outside the corner with the same live sides have the same curve *)
Definition same_sides (x y : fullx N) : Prop :=
  x_intercept x = x_intercept y /\
  x_hdd_beta x = x_hdd_beta y /\ (x_hdd_beta x <> 0 -> x_hdd_bp x = x_hdd_bp y /\ x_hdd_k x = x_hdd_k y) /\
  x_cdd_beta x = x_cdd_beta y /\ (x_cdd_beta x <> 0 -> x_cdd_bp x = x_cdd_bp y /\ x_cdd_k x = x_cdd_k y).

Lemma branch_beta0 : forall k d : R, branch lo 0 k d = 0.
Proof. intros. unfold branch. ring. Qed.

Lemma same_sides_curve : forall (x y : fullx N) (Tmin Tmax T : R),
  good lo hi x -> good lo hi y -> x_cdd_bp x < Tmax -> x_cdd_bp y < Tmax -> same_sides x y ->
  full_model1 N x Tmin Tmax T = full_model1 N y Tmin Tmax T.
Proof.
  intros [a1 b1 k1 c1 d1 l1 i1] [a2 b2 k2 c2 d2 l2 i2] Tmin Tmax T
         (G1 & G2 & G3 & G4 & G5) (H1 & H2 & H3 & H4 & H5) O1 O2 (S0 & S1 & S2 & S3 & S4).
  cbn in *.
  pose proof (full_model1_curve lo hi Hlo Hhi a1 b1 k1 c1 d1 l1 i1 Tmin Tmax T G1 G2 G3 G4 G5) as P1.
  pose proof (full_model1_curve lo hi Hlo Hhi a2 b2 k2 c2 d2 l2 i2 Tmin Tmax T H1 H2 H3 H4 H5) as P2.
  unfold mkx in P1, P2. rewrite P1 by (left; intros; lra). rewrite P2 by (left; intros; lra).
  unfold curve. subst i2 b2 d2.
  assert (E1 : branch lo b1 k1 (pos (a1 - T)) = branch lo b1 k2 (pos (a2 - T))).
  { destruct (Req_EM_T b1 0) as [E|E]; [subst; rewrite !branch_beta0; reflexivity|].
    destruct (S2 E) as [-> ->]. reflexivity. }
  assert (E2 : branch lo d1 l1 (pos (T - c1)) = branch lo d1 l2 (pos (T - c2))).
  { destruct (Req_EM_T d1 0) as [E|E]; [subst; rewrite !branch_beta0; reflexivity|].
    destruct (S4 E) as [-> ->]. reflexivity. }
  rewrite E1, E2. reflexivity.
Qed.

(* ---------------- reduce_step, branch by branch *)
Section Branches.
Variable rec : fullx N -> option (model_key * list R).
Variables hb hbeta ph cb cbeta pc i s1 s2 : R.
Notation x := (mkfx N hb hbeta ph cb cbeta pc i).

Ltac rs := unfold reduce_step, mkfx;
  cbn [x_hdd_bp x_hdd_beta x_hdd_k x_cdd_bp x_cdd_beta x_cdd_k x_intercept];
  unfold n_neqb; change (@n_eqb N) with Reqb; change (@n_zero N) with 0; rq; cbn [negb andb orb].

Lemma rs_full_smooth : forall key, hbeta <> 0 -> cbeta <> 0 -> (ph <> 0 \/ pc <> 0) ->
  reduce_step N rec x s1 s2 key = Some (KFullSmooth, [hb; hbeta; ph; cb; cbeta; pc; i]).
Proof.
  intros key H1 H2 [H3|H3]; rs.
  - destruct (Req_EM_T pc 0); rq; reflexivity.
  - reflexivity.
Qed.

Lemma rs_full : forall key, hbeta <> 0 -> cbeta <> 0 -> ph = 0 -> pc = 0 ->
  reduce_step N rec x s1 s2 key = Some (KFull, [hb; hbeta; cb; cbeta; i]).
Proof. intros key H1 H2 H3 H4. rs. reflexivity. Qed.

Lemma rs_heat_smooth_other : forall key, key <> KFullSmooth -> hbeta <> 0 -> cbeta = 0 -> ph <> 0 ->
  reduce_step N rec x s1 s2 key = Some (KCSmooth, [hb; - hbeta; ph; i]).
Proof. intros key Hk H1 H2 H3. rs. destruct key; try reflexivity. contradiction Hk; reflexivity. Qed.

Lemma rs_cool_smooth_other : forall key, key <> KFullSmooth -> hbeta = 0 -> cbeta <> 0 -> pc <> 0 ->
  reduce_step N rec x s1 s2 key = Some (KCSmooth, [cb; cbeta; pc; i]).
Proof. intros key Hk H1 H2 H3. rs. destruct key; try reflexivity. contradiction Hk; reflexivity. Qed.

Lemma rs_heat_smooth_full : forall hb' hk cb' ck, hbeta <> 0 -> cbeta = 0 -> ph <> 0 ->
  get_k N hb ph cb pc s1 s2 = (hb', hk, cb', ck) ->
  reduce_step N rec x s1 s2 KFullSmooth =
    if Reqb hk 0 && Reqb ck 0 then rec (mkfx N hb' hbeta hk cb' cbeta ck i) else Some (KCSmooth, [hb'; - hbeta; hk; i]).
Proof. intros hb' hk cb' ck H1 H2 H3 Hg. rs. rewrite Hg. reflexivity. Qed.

Lemma rs_cool_smooth_full : forall hb' hk cb' ck, hbeta = 0 -> cbeta <> 0 -> pc <> 0 ->
  get_k N hb ph cb pc s1 s2 = (hb', hk, cb', ck) ->
  reduce_step N rec x s1 s2 KFullSmooth =
    if Reqb hk 0 && Reqb ck 0 then rec (mkfx N hb' hbeta hk cb' cbeta ck i) else Some (KCSmooth, [cb'; cbeta; ck; i]).
Proof. intros hb' hk cb' ck H1 H2 H3 Hg. rs. rewrite Hg. reflexivity. Qed.

Lemma rs_heat : forall key, hbeta <> 0 -> cbeta = 0 -> ph = 0 ->
  reduce_step N rec x s1 s2 key = Some (KC, [(if Rle_dec s2 hb then s2 else hb); - hbeta; i]).
Proof.
  intros key H1 H2 H3. rs. unfold n_geb. change (@n_leb N) with Rleb. unfold Rleb.
  destruct (Rle_dec s2 hb); reflexivity.
Qed.

Lemma rs_cool : forall key, hbeta = 0 -> cbeta <> 0 -> pc = 0 ->
  reduce_step N rec x s1 s2 key = Some (KC, [(if Rle_dec cb s1 then s1 else cb); cbeta; i]).
Proof.
  intros key H1 H2 H3. rs. change (@n_leb N) with Rleb. unfold Rleb.
  destruct (Rle_dec cb s1); reflexivity.
Qed.

Lemma rs_tidd : forall key, hbeta = 0 -> cbeta = 0 -> reduce_step N rec x s1 s2 key = Some (KTidd, [i]).
Proof.
  intros key H1 H2. rs.
  destruct (Req_EM_T ph 0); destruct (Req_EM_T pc 0); rq; cbn; reflexivity.
Qed.
End Branches.

(* ---------------- stored documents strictly inside the segment range: the vector handed to the kernel *)
Section Guarded.
Variables Tmin Tmax Tminseg Tmaxseg : R.
Notation tc := (Build_tconstr N Tmin Tmax Tminseg Tmaxseg).
Hypothesis HB : Tmin <= Tminseg /\ Tminseg <= Tmaxseg /\ Tmaxseg <= Tmax.

Lemma stored_of_eff : forall key raw c y T,
  named_coeffs N key raw tc = Some c -> effective_x N c tc = Some y ->
  stored_curve N key raw tc T = Some (full_model1 N y Tmin Tmax T).
Proof.
  intros key raw c y T Hn He. unfold stored_curve. rewrite Hn. unfold predict_submodel. rewrite He.
  unfold loads_of. reflexivity.
Qed.

Lemma eff_full_smooth : forall hb hbeta ph cb cbeta pc i hb' hk cb' ck : R,
  hb <= cb -> (hb = cb \/ (Tmin < hb /\ cb < Tmax)) -> (hbeta = 0 -> ph = 0) -> (cbeta = 0 -> pc = 0) ->
  get_smooth_coeffs N hb ph cb pc = (hb', hk, cb', ck) ->
  effective_x N (Build_coeffs N HddTiddCddSmooth i (Some hb) (Some hbeta) (Some ph) (Some cb) (Some cbeta) (Some pc)) tc
  = Some (mkfx N hb' hbeta hk cb' cbeta ck i).
Proof.
  intros * Ho Hi Z1 Z2 Hs. unfold effective_x, get_full_model_x. cbn.
  pose proof (fix_identity hb hbeta ph cb cbeta pc i Tmin Tmax Ho Hi Z1 Z2) as Hf. unfold mkfx in Hf. rewrite Hf.
  cbn. rewrite Hs. reflexivity.
Qed.

Lemma eff_full : forall hb hbeta cb cbeta i : R,
  hb <= cb -> (hb = cb \/ (Tmin < hb /\ cb < Tmax)) ->
  effective_x N (Build_coeffs N HddTiddCdd i (Some hb) (Some hbeta) None (Some cb) (Some cbeta) None) tc
  = Some (mkfx N hb hbeta 0 cb cbeta 0 i).
Proof.
  intros * Ho Hi. unfold effective_x, get_full_model_x. cbn. change (@n_zero N) with 0.
  pose proof (fix_identity hb hbeta 0 cb cbeta 0 i Tmin Tmax Ho Hi (fun _ => eq_refl) (fun _ => eq_refl)) as Hf.
  unfold mkfx in Hf. rewrite Hf. reflexivity.
Qed.

Lemma eff_heat_smooth : forall bp beta k i : R, beta < 0 ->
  effective_x N (Build_coeffs N HddTiddSmooth i (Some bp) (Some beta) (Some k) None None None) tc
  = Some (mkfx N bp (- beta) k bp 0 0 i).
Proof.
  intros * Hb. unfold effective_x, get_full_model_x. cbn. change (@n_zero N) with 0. unfold Rltb.
  destruct (Rlt_dec beta 0); [|lra].
  assert (Z : - beta = 0 -> k = 0) by (intros; lra).
  pose proof (fix_identity bp (- beta) k bp 0 0 i Tmin Tmax (Rle_refl _) (or_introl eq_refl) Z (fun _ => eq_refl)) as Hf.
  unfold mkfx in Hf. rewrite Hf. reflexivity.
Qed.

Lemma eff_cool_smooth : forall bp beta k i : R, 0 < beta ->
  effective_x N (Build_coeffs N TiddCddSmooth i None None None (Some bp) (Some beta) (Some k)) tc
  = Some (mkfx N bp 0 0 bp beta k i).
Proof.
  intros * Hb. unfold effective_x, get_full_model_x. cbn. change (@n_zero N) with 0. unfold Rltb.
  destruct (Rlt_dec beta 0); [lra|].
  assert (Z : beta = 0 -> k = 0) by (intros; lra).
  pose proof (fix_identity bp 0 0 bp beta k i Tmin Tmax (Rle_refl _) (or_introl eq_refl) (fun _ => eq_refl) Z) as Hf.
  unfold mkfx in Hf. rewrite Hf. reflexivity.
Qed.

Lemma eff_heat : forall bp beta i : R, beta < 0 -> Tminseg <= bp <= Tmaxseg ->
  effective_x N (Build_coeffs N HddTidd i (Some bp) (Some beta) None None None None) tc
  = Some (mkfx N bp (- beta) 0 bp 0 0 i).
Proof.
  intros * Hb Hr. unfold effective_x, get_full_model_x. cbn. change (@n_zero N) with 0. unfold n_gtb. cbn. unfold Rltb.
  destruct (Rlt_dec bp Tminseg); [lra|]. destruct (Rlt_dec Tmaxseg bp); [lra|]. destruct (Rlt_dec beta 0); [|lra].
  pose proof (fix_identity bp (- beta) 0 bp 0 0 i Tmin Tmax (Rle_refl _) (or_introl eq_refl) (fun _ => eq_refl) (fun _ => eq_refl)) as Hf.
  unfold mkfx in Hf. rewrite Hf. reflexivity.
Qed.

Lemma eff_cool : forall bp beta i : R, 0 < beta -> Tminseg <= bp <= Tmaxseg ->
  effective_x N (Build_coeffs N TiddCdd i None None None (Some bp) (Some beta) None) tc
  = Some (mkfx N bp 0 0 bp beta 0 i).
Proof.
  intros * Hb Hr. unfold effective_x, get_full_model_x. cbn. change (@n_zero N) with 0. unfold n_gtb. cbn. unfold Rltb.
  destruct (Rlt_dec bp Tminseg); [lra|]. destruct (Rlt_dec Tmaxseg bp); [lra|]. destruct (Rlt_dec beta 0); [lra|].
  pose proof (fix_identity bp 0 0 bp beta 0 i Tmin Tmax (Rle_refl _) (or_introl eq_refl) (fun _ => eq_refl) (fun _ => eq_refl)) as Hf.
  unfold mkfx in Hf. rewrite Hf. reflexivity.
Qed.

Lemma eff_tidd : forall i : R,
  effective_x N (Build_coeffs N Tidd i None None None None None None) tc = Some (mkfx N 0 0 0 0 0 0 i).
Proof.
  intros. unfold effective_x, get_full_model_x. cbn. change (@n_zero N) with 0.
  pose proof (fix_identity 0 0 0 0 0 0 i Tmin Tmax (Rle_refl _) (or_introl eq_refl) (fun _ => eq_refl) (fun _ => eq_refl)) as Hf.
  unfold mkfx in Hf. rewrite Hf. reflexivity.
Qed.

Lemma full_model1_flat : forall hb hk cb ck i T : R,
  full_model1 N (mkfx N hb 0 hk cb 0 ck i) Tmin Tmax T = 1 * i.
Proof.
  intros. unfold full_model1, mkfx. cbn. unfold Reqb. destruct (Req_EM_T 0 0); [reflexivity | lra].
Qed.

Ltac fin := f_equal; apply same_sides_curve; try assumption;
  try (unfold good, mkfx; cbn; repeat split; lra); try (cbn; lra);
  unfold same_sides, mkfx; cbn; repeat split; intros; try lra; try contradiction.

Lemma get_k_interior : forall hb ph cb pc : R, hb < Tmaxseg -> Tminseg < cb ->
  get_k N hb ph cb pc Tminseg Tmaxseg = get_smooth_coeffs N hb ph cb pc.
Proof.
  intros hb ph cb pc H1 H2. unfold get_k.
  destruct (get_smooth_coeffs N hb ph cb pc) as [[[a b] c] d].
  unfold n_geb. change (@n_leb N) with Rleb. unfold Rleb.
  destruct (Rle_dec Tmaxseg hb); [lra|]. destruct (Rle_dec cb Tminseg); [lra|]. reflexivity.
Qed.

(* C12, read-back: smoothed two-sided layout, optimiser's balance points ordered and strictly inside the segment range *)
Theorem readback_full_smooth : forall hb hbeta ph cb cbeta pc i T : R,
  Tminseg < hb -> hb <= cb -> cb < Tmaxseg -> 0 <= hbeta -> 0 <= cbeta -> 0 <= ph -> 0 <= pc ->
  (hbeta = 0 -> ph = 0) -> (cbeta = 0 -> pc = 0) ->
  stored_curve N KFullSmooth [hb; hbeta; ph; cb; cbeta; pc; i] tc T =
  scored_curve N KFullSmooth [hb; hbeta; ph; cb; cbeta; pc; i] tc T.
Proof.
  intros hb hbeta ph cb cbeta pc i T G1 G2 G3 B1 B2 P1 P2 Z1 Z2.
  destruct HB as (HB1 & HB2 & HB3).
  assert (Hint : hb = cb \/ (Tmin < hb /\ cb < Tmax)) by (right; lra).
  destruct (smooth_coeffs_spec lo hi hb ph cb pc G2 P1 P2) as (hk & ck & Hs & S1 & S2 & S3 & Y1 & Y2 & _).
  (* what was scored *)
  unfold scored_curve, scored_x. rewrite Hs. cbn [T_min T_max].
  (* the refined vector *)
  assert (Hx : get_full_model_x N KFullSmooth [hb; hbeta; ph; cb; cbeta; pc; i] Tmin Tmax Tminseg Tmaxseg =
               Some (mkfx N hb hbeta ph cb cbeta pc i)).
  { unfold get_full_model_x. f_equal. apply (fix_identity hb hbeta ph cb cbeta pc i Tmin Tmax G2 Hint Z1 Z2). }
  assert (Hgood : good lo hi (mkfx N (hb + hk) hbeta hk (cb - ck) cbeta ck i)).
  { unfold good, mkfx; cbn. repeat split; lra. }
  destruct (Req_EM_T hbeta 0) as [Eh|Eh]; destruct (Req_EM_T cbeta 0) as [Ec|Ec].
  - (* tidd *)
    assert (Hn : named_coeffs N KFullSmooth [hb; hbeta; ph; cb; cbeta; pc; i] tc =
                 Some (Build_coeffs N Tidd i None None None None None None)).
    { unfold named_coeffs, refine. cbn [T_min T_max T_min_seg T_max_seg]. rewrite Hx. unfold reduce_model.
      rewrite rs_tidd by assumption. reflexivity. }
    rewrite (stored_of_eff _ _ _ _ T Hn (eff_tidd i)). subst hbeta cbeta. f_equal. rewrite !full_model1_flat. reflexivity.
  - (* cooling only *)
    assert (ph = 0) by auto. subst hbeta ph. assert (hk = 0) by auto. subst hk.
    assert (Pc : 0 < cbeta) by (apply pos_of_ne; assumption).
    destruct (Req_EM_T pc 0) as [Ek|Ek].
    + subst pc. assert (ck = 0) by auto. subst ck.
      assert (Hn : named_coeffs N KFullSmooth [hb; 0; 0; cb; cbeta; 0; i] tc =
                   Some (Build_coeffs N TiddCdd i None None None (Some cb) (Some cbeta) None)).
      { unfold named_coeffs, refine. cbn [T_min T_max T_min_seg T_max_seg]. rewrite Hx. unfold reduce_model.
        rewrite rs_cool by auto. destruct (Rle_dec cb Tminseg); [lra|].
        cbn. unfold Rltb. destruct (Rlt_dec cbeta 0); [lra | reflexivity]. }
      rewrite (stored_of_eff _ _ _ _ T Hn (eff_cool cb cbeta i Pc ltac:(lra))).
      fin.
    + assert (Hgk : get_k N hb 0 cb pc Tminseg Tmaxseg = (hb + 0, 0, cb - ck, ck))
        by (rewrite get_k_interior by lra; exact Hs).
      assert (Pk : 0 < pc) by (apply pos_of_ne; assumption).
      destruct (Req_EM_T ck 0) as [Ek2|Ek2].
      * subst ck.
        assert (Hn : named_coeffs N KFullSmooth [hb; 0; 0; cb; cbeta; pc; i] tc =
                     Some (Build_coeffs N TiddCdd i None None None (Some (cb - 0)) (Some cbeta) None)).
        { unfold named_coeffs, refine. cbn [T_min T_max T_min_seg T_max_seg]. rewrite Hx. unfold reduce_model.
          rewrite (rs_cool_smooth_full _ _ _ _ _ _ _ _ _ _ _ _ _ _ eq_refl Ec Ek Hgk). rq. cbn [andb].
          rewrite rs_cool by auto. destruct (Rle_dec (cb - 0) Tminseg); [lra|].
          cbn. unfold Rltb. destruct (Rlt_dec cbeta 0); [lra | reflexivity]. }
        rewrite (stored_of_eff _ _ _ _ T Hn (eff_cool (cb - 0) cbeta i Pc ltac:(lra))).
        fin.
      * assert (Hn : named_coeffs N KFullSmooth [hb; 0; 0; cb; cbeta; pc; i] tc =
                     Some (Build_coeffs N TiddCddSmooth i None None None (Some (cb - ck)) (Some cbeta) (Some ck))).
        { unfold named_coeffs, refine. cbn [T_min T_max T_min_seg T_max_seg]. rewrite Hx. unfold reduce_model.
          rewrite (rs_cool_smooth_full _ _ _ _ _ _ _ _ _ _ _ _ _ _ eq_refl Ec Ek Hgk). rq. cbn [andb].
          cbn. unfold Rltb. destruct (Rlt_dec cbeta 0); [lra | reflexivity]. }
        rewrite (stored_of_eff _ _ _ _ T Hn (eff_cool_smooth (cb - ck) cbeta ck i Pc)).
        fin.
  - (* heating only *)
    assert (pc = 0) by auto. subst cbeta pc. assert (ck = 0) by auto. subst ck.
    assert (Ph : 0 < hbeta) by (apply pos_of_ne; assumption).
    assert (Nh : - hbeta < 0) by lra.
    destruct (Req_EM_T ph 0) as [Ek|Ek].
    + subst ph. assert (hk = 0) by auto. subst hk.
      assert (Hn : named_coeffs N KFullSmooth [hb; hbeta; 0; cb; 0; 0; i] tc =
                   Some (Build_coeffs N HddTidd i (Some hb) (Some (- hbeta)) None None None None)).
      { unfold named_coeffs, refine. cbn [T_min T_max T_min_seg T_max_seg]. rewrite Hx. unfold reduce_model.
        rewrite rs_heat by auto. destruct (Rle_dec Tmaxseg hb); [lra|].
        cbn. unfold Rltb. destruct (Rlt_dec (- hbeta) 0); [reflexivity | lra]. }
      rewrite (stored_of_eff _ _ _ _ T Hn (eff_heat hb (- hbeta) i Nh ltac:(lra))). rewrite Ropp_involutive.
      fin.
    + assert (Hgk : get_k N hb ph cb 0 Tminseg Tmaxseg = (hb + hk, hk, cb - 0, 0))
        by (rewrite get_k_interior by lra; exact Hs).
      destruct (Req_EM_T hk 0) as [Ek2|Ek2].
      * subst hk.
        assert (Hn : named_coeffs N KFullSmooth [hb; hbeta; ph; cb; 0; 0; i] tc =
                     Some (Build_coeffs N HddTidd i (Some (hb + 0)) (Some (- hbeta)) None None None None)).
        { unfold named_coeffs, refine. cbn [T_min T_max T_min_seg T_max_seg]. rewrite Hx. unfold reduce_model.
          rewrite (rs_heat_smooth_full _ _ _ _ _ _ _ _ _ _ _ _ _ _ Eh eq_refl Ek Hgk). rq. cbn [andb].
          rewrite rs_heat by auto. destruct (Rle_dec Tmaxseg (hb + 0)); [lra|].
          cbn. unfold Rltb. destruct (Rlt_dec (- hbeta) 0); [reflexivity | lra]. }
        rewrite (stored_of_eff _ _ _ _ T Hn (eff_heat (hb + 0) (- hbeta) i Nh ltac:(lra))). rewrite Ropp_involutive.
        fin.
      * assert (Hn : named_coeffs N KFullSmooth [hb; hbeta; ph; cb; 0; 0; i] tc =
                     Some (Build_coeffs N HddTiddSmooth i (Some (hb + hk)) (Some (- hbeta)) (Some hk) None None None)).
        { unfold named_coeffs, refine. cbn [T_min T_max T_min_seg T_max_seg]. rewrite Hx. unfold reduce_model.
          rewrite (rs_heat_smooth_full _ _ _ _ _ _ _ _ _ _ _ _ _ _ Eh eq_refl Ek Hgk). rq. cbn [andb].
          cbn. unfold Rltb. destruct (Rlt_dec (- hbeta) 0); [reflexivity | lra]. }
        rewrite (stored_of_eff _ _ _ _ T Hn (eff_heat_smooth (hb + hk) (- hbeta) hk i Nh)). rewrite Ropp_involutive.
        fin.
  - (* both slopes *)
    destruct (Req_EM_T ph 0) as [Ek|Ek]; [destruct (Req_EM_T pc 0) as [Ek'|Ek']|].
    + subst ph pc. assert (hk = 0) by auto. assert (ck = 0) by auto. subst hk ck.
      assert (Hn : named_coeffs N KFullSmooth [hb; hbeta; 0; cb; cbeta; 0; i] tc =
                   Some (Build_coeffs N HddTiddCdd i (Some hb) (Some hbeta) None (Some cb) (Some cbeta) None)).
      { unfold named_coeffs, refine. cbn [T_min T_max T_min_seg T_max_seg]. rewrite Hx. unfold reduce_model.
        rewrite rs_full by auto. cbn. unfold Rltb. destruct (Rlt_dec cb hb); [lra | reflexivity]. }
      rewrite (stored_of_eff _ _ _ _ T Hn (eff_full hb hbeta cb cbeta i G2 Hint)).
      fin.
    + assert (Hn : named_coeffs N KFullSmooth [hb; hbeta; ph; cb; cbeta; pc; i] tc =
                   Some (Build_coeffs N HddTiddCddSmooth i (Some hb) (Some hbeta) (Some ph) (Some cb) (Some cbeta) (Some pc))).
      { unfold named_coeffs, refine. cbn [T_min T_max T_min_seg T_max_seg]. rewrite Hx. unfold reduce_model.
        rewrite rs_full_smooth by auto. cbn. unfold Rltb. destruct (Rlt_dec cb hb); [lra | reflexivity]. }
      rewrite (stored_of_eff _ _ _ _ T Hn (eff_full_smooth hb hbeta ph cb cbeta pc i _ _ _ _ G2 Hint Z1 Z2 Hs)).
      reflexivity.
    + assert (Hn : named_coeffs N KFullSmooth [hb; hbeta; ph; cb; cbeta; pc; i] tc =
                   Some (Build_coeffs N HddTiddCddSmooth i (Some hb) (Some hbeta) (Some ph) (Some cb) (Some cbeta) (Some pc))).
      { unfold named_coeffs, refine. cbn [T_min T_max T_min_seg T_max_seg]. rewrite Hx. unfold reduce_model.
        rewrite rs_full_smooth by auto. cbn. unfold Rltb. destruct (Rlt_dec cb hb); [lra | reflexivity]. }
      rewrite (stored_of_eff _ _ _ _ T Hn (eff_full_smooth hb hbeta ph cb cbeta pc i _ _ _ _ G2 Hint Z1 Z2 Hs)).
      reflexivity.
Qed.


(* unsmoothed two-sided layout *)
Theorem readback_full : forall hb hbeta cb cbeta i T : R,
  Tminseg < hb -> hb <= cb -> cb < Tmaxseg -> 0 <= hbeta -> 0 <= cbeta ->
  stored_curve N KFull [hb; hbeta; cb; cbeta; i] tc T = scored_curve N KFull [hb; hbeta; cb; cbeta; i] tc T.
Proof.
  intros hb hbeta cb cbeta i T G1 G2 G3 B1 B2.
  destruct HB as (HB1 & HB2 & HB3).
  assert (Hint : hb = cb \/ (Tmin < hb /\ cb < Tmax)) by (right; lra).
  unfold scored_curve, scored_x. change (@n_zero N) with 0. cbn [T_min T_max].
  assert (Hx : get_full_model_x N KFull [hb; hbeta; cb; cbeta; i] Tmin Tmax Tminseg Tmaxseg =
               Some (mkfx N hb hbeta 0 cb cbeta 0 i)).
  { unfold get_full_model_x. change (@n_zero N) with 0. f_equal.
    apply (fix_identity hb hbeta 0 cb cbeta 0 i Tmin Tmax G2 Hint (fun _ => eq_refl) (fun _ => eq_refl)). }
  assert (Hgood : good lo hi (mkfx N hb hbeta 0 cb cbeta 0 i)) by (unfold good, mkfx; cbn; repeat split; lra).
  destruct (Req_EM_T hbeta 0) as [Eh|Eh]; destruct (Req_EM_T cbeta 0) as [Ec|Ec].
  - assert (Hn : named_coeffs N KFull [hb; hbeta; cb; cbeta; i] tc = Some (Build_coeffs N Tidd i None None None None None None)).
    { unfold named_coeffs, refine. cbn [T_min T_max T_min_seg T_max_seg]. rewrite Hx. unfold reduce_model.
      rewrite rs_tidd by assumption. reflexivity. }
    rewrite (stored_of_eff _ _ _ _ T Hn (eff_tidd i)). subst hbeta cbeta. f_equal. rewrite !full_model1_flat. reflexivity.
  - subst hbeta. assert (Pc : 0 < cbeta) by (apply pos_of_ne; assumption).
    assert (Hn : named_coeffs N KFull [hb; 0; cb; cbeta; i] tc =
                 Some (Build_coeffs N TiddCdd i None None None (Some cb) (Some cbeta) None)).
    { unfold named_coeffs, refine. cbn [T_min T_max T_min_seg T_max_seg]. rewrite Hx. unfold reduce_model.
      rewrite rs_cool by auto. destruct (Rle_dec cb Tminseg); [lra|].
      cbn. unfold Rltb. destruct (Rlt_dec cbeta 0); [lra | reflexivity]. }
    rewrite (stored_of_eff _ _ _ _ T Hn (eff_cool cb cbeta i Pc ltac:(lra))). fin.
  - subst cbeta. assert (Ph : 0 < hbeta) by (apply pos_of_ne; assumption). assert (Nh : - hbeta < 0) by lra.
    assert (Hn : named_coeffs N KFull [hb; hbeta; cb; 0; i] tc =
                 Some (Build_coeffs N HddTidd i (Some hb) (Some (- hbeta)) None None None None)).
    { unfold named_coeffs, refine. cbn [T_min T_max T_min_seg T_max_seg]. rewrite Hx. unfold reduce_model.
      rewrite rs_heat by auto. destruct (Rle_dec Tmaxseg hb); [lra|].
      cbn. unfold Rltb. destruct (Rlt_dec (- hbeta) 0); [reflexivity | lra]. }
    rewrite (stored_of_eff _ _ _ _ T Hn (eff_heat hb (- hbeta) i Nh ltac:(lra))). rewrite Ropp_involutive. fin.
  - assert (Hn : named_coeffs N KFull [hb; hbeta; cb; cbeta; i] tc =
                 Some (Build_coeffs N HddTiddCdd i (Some hb) (Some hbeta) None (Some cb) (Some cbeta) None)).
    { unfold named_coeffs, refine. cbn [T_min T_max T_min_seg T_max_seg]. rewrite Hx. unfold reduce_model.
      rewrite rs_full by auto. cbn. unfold Rltb. destruct (Rlt_dec cb hb); [lra | reflexivity]. }
    rewrite (stored_of_eff _ _ _ _ T Hn (eff_full hb hbeta cb cbeta i G2 Hint)). reflexivity.
Qed.

(* one-sided layouts: the sign of the slope decides heating / cooling *)
Theorem readback_c_smooth : forall bp beta k i T : R,
  Tminseg < bp -> bp < Tmaxseg -> 0 <= k -> (beta = 0 -> k = 0) ->
  stored_curve N KCSmooth [bp; beta; k; i] tc T = scored_curve N KCSmooth [bp; beta; k; i] tc T.
Proof.
  intros bp beta k i T G1 G2 K Z.
  destruct HB as (HB1 & HB2 & HB3).
  unfold scored_curve, scored_x. change (@n_zero N) with 0. change (@n_ltb N beta 0) with (Rltb beta 0).
  change (@n_opp N beta) with (- beta). cbn [T_min T_max].
  unfold Rltb. destruct (Rlt_dec beta 0) as [Hn0|Hn0].
  - assert (Hx : get_full_model_x N KCSmooth [bp; beta; k; i] Tmin Tmax Tminseg Tmaxseg =
                 Some (mkfx N bp (- beta) k bp 0 0 i)).
    { unfold get_full_model_x. change (@n_zero N) with 0. change (@n_ltb N beta 0) with (Rltb beta 0).
      change (@n_opp N beta) with (- beta). unfold Rltb. destruct (Rlt_dec beta 0); [|lra]. f_equal.
      apply (fix_identity bp (- beta) k bp 0 0 i Tmin Tmax (Rle_refl _) (or_introl eq_refl)); intros; lra. }
    assert (Eh : - beta <> 0) by lra. assert (Nh : - - beta < 0) by lra.
    destruct (Req_EM_T k 0) as [Ek|Ek].
    + subst k.
      assert (Hn : named_coeffs N KCSmooth [bp; beta; 0; i] tc =
                   Some (Build_coeffs N HddTidd i (Some bp) (Some (- - beta)) None None None None)).
      { unfold named_coeffs, refine. cbn [T_min T_max T_min_seg T_max_seg]. rewrite Hx. unfold reduce_model.
        rewrite rs_heat by auto. destruct (Rle_dec Tmaxseg bp); [lra|].
        cbn. unfold Rltb. destruct (Rlt_dec (- - beta) 0); [reflexivity | lra]. }
      rewrite (stored_of_eff _ _ _ _ T Hn (eff_heat bp (- - beta) i Nh ltac:(lra))). rewrite Ropp_involutive. reflexivity.
    + assert (Hn : named_coeffs N KCSmooth [bp; beta; k; i] tc =
                   Some (Build_coeffs N HddTiddSmooth i (Some bp) (Some (- - beta)) (Some k) None None None)).
      { unfold named_coeffs, refine. cbn [T_min T_max T_min_seg T_max_seg]. rewrite Hx. unfold reduce_model.
        rewrite rs_heat_smooth_other by (auto; discriminate).
        cbn. unfold Rltb. destruct (Rlt_dec (- - beta) 0); [reflexivity | lra]. }
      rewrite (stored_of_eff _ _ _ _ T Hn (eff_heat_smooth bp (- - beta) k i Nh)). rewrite Ropp_involutive. reflexivity.
  - assert (Hb0 : 0 <= beta) by lra.
    assert (Hx : get_full_model_x N KCSmooth [bp; beta; k; i] Tmin Tmax Tminseg Tmaxseg =
                 Some (mkfx N bp 0 0 bp beta k i)).
    { unfold get_full_model_x. change (@n_zero N) with 0. change (@n_ltb N beta 0) with (Rltb beta 0).
      unfold Rltb. destruct (Rlt_dec beta 0); [lra|]. f_equal.
      apply (fix_identity bp 0 0 bp beta k i Tmin Tmax (Rle_refl _) (or_introl eq_refl)); auto. }
    destruct (Req_EM_T beta 0) as [Eb|Eb].
    + assert (k = 0) by auto. subst beta k.
      assert (Hn : named_coeffs N KCSmooth [bp; 0; 0; i] tc = Some (Build_coeffs N Tidd i None None None None None None)).
      { unfold named_coeffs, refine. cbn [T_min T_max T_min_seg T_max_seg]. rewrite Hx. unfold reduce_model.
        rewrite rs_tidd by reflexivity. reflexivity. }
      rewrite (stored_of_eff _ _ _ _ T Hn (eff_tidd i)). f_equal. rewrite !full_model1_flat. reflexivity.
    + assert (Pc : 0 < beta) by lra.
      destruct (Req_EM_T k 0) as [Ek|Ek].
      * subst k.
        assert (Hn : named_coeffs N KCSmooth [bp; beta; 0; i] tc =
                     Some (Build_coeffs N TiddCdd i None None None (Some bp) (Some beta) None)).
        { unfold named_coeffs, refine. cbn [T_min T_max T_min_seg T_max_seg]. rewrite Hx. unfold reduce_model.
          rewrite rs_cool by auto. destruct (Rle_dec bp Tminseg); [lra|].
          cbn. unfold Rltb. destruct (Rlt_dec beta 0); [lra | reflexivity]. }
        rewrite (stored_of_eff _ _ _ _ T Hn (eff_cool bp beta i Pc ltac:(lra))). reflexivity.
      * assert (Hn : named_coeffs N KCSmooth [bp; beta; k; i] tc =
                     Some (Build_coeffs N TiddCddSmooth i None None None (Some bp) (Some beta) (Some k))).
        { unfold named_coeffs, refine. cbn [T_min T_max T_min_seg T_max_seg]. rewrite Hx. unfold reduce_model.
          rewrite rs_cool_smooth_other by (auto; discriminate).
          cbn. unfold Rltb. destruct (Rlt_dec beta 0); [lra | reflexivity]. }
        rewrite (stored_of_eff _ _ _ _ T Hn (eff_cool_smooth bp beta k i Pc)). reflexivity.
Qed.

Theorem readback_c : forall bp beta i T : R, Tminseg < bp -> bp < Tmaxseg ->
  stored_curve N KC [bp; beta; i] tc T = scored_curve N KC [bp; beta; i] tc T.
Proof.
  intros bp beta i T G1 G2.
  destruct HB as (HB1 & HB2 & HB3).
  unfold scored_curve, scored_x. change (@n_zero N) with 0. change (@n_ltb N beta 0) with (Rltb beta 0).
  change (@n_opp N beta) with (- beta). cbn [T_min T_max].
  assert (Hclamp : forall b, get_full_model_x N KC [bp; beta; i] Tmin Tmax Tminseg Tmaxseg =
           Some (fix_full_model_x N (if Rlt_dec beta 0 then mkfx N bp (- beta) 0 bp 0 0 i else mkfx N bp 0 0 bp beta 0 i) Tmin Tmax)
           \/ b = true).
  { intros b. left. unfold get_full_model_x. change (@n_zero N) with 0. unfold n_gtb. change (@n_ltb N) with Rltb.
    change (@n_opp N beta) with (- beta). unfold Rltb.
    destruct (Rlt_dec bp Tminseg); [lra|]. destruct (Rlt_dec Tmaxseg bp); [lra|].
    destruct (Rlt_dec beta 0); reflexivity. }
  destruct (Hclamp false) as [Hx0|Hx0]; [|discriminate]. clear Hclamp.
  unfold Rltb. destruct (Rlt_dec beta 0) as [Hn0|Hn0].
  - rewrite (fix_identity bp (- beta) 0 bp 0 0 i Tmin Tmax (Rle_refl _) (or_introl eq_refl) (fun _ => eq_refl) (fun _ => eq_refl)) in Hx0.
    assert (Eh : - beta <> 0) by lra. assert (Nh : - - beta < 0) by lra.
    assert (Hn : named_coeffs N KC [bp; beta; i] tc =
                 Some (Build_coeffs N HddTidd i (Some bp) (Some (- - beta)) None None None None)).
    { unfold named_coeffs, refine. cbn [T_min T_max T_min_seg T_max_seg]. rewrite Hx0. unfold reduce_model.
      rewrite rs_heat by auto. destruct (Rle_dec Tmaxseg bp); [lra|].
      cbn. unfold Rltb. destruct (Rlt_dec (- - beta) 0); [reflexivity | lra]. }
    rewrite (stored_of_eff _ _ _ _ T Hn (eff_heat bp (- - beta) i Nh ltac:(lra))). rewrite Ropp_involutive. reflexivity.
  - rewrite (fix_identity bp 0 0 bp beta 0 i Tmin Tmax (Rle_refl _) (or_introl eq_refl) (fun _ => eq_refl) (fun _ => eq_refl)) in Hx0.
    destruct (Req_EM_T beta 0) as [Eb|Eb].
    + subst beta.
      assert (Hn : named_coeffs N KC [bp; 0; i] tc = Some (Build_coeffs N Tidd i None None None None None None)).
      { unfold named_coeffs, refine. cbn [T_min T_max T_min_seg T_max_seg]. rewrite Hx0. unfold reduce_model.
        rewrite rs_tidd by reflexivity. reflexivity. }
      rewrite (stored_of_eff _ _ _ _ T Hn (eff_tidd i)). f_equal. rewrite !full_model1_flat. reflexivity.
    + assert (Pc : 0 < beta) by lra.
      assert (Hn : named_coeffs N KC [bp; beta; i] tc =
                   Some (Build_coeffs N TiddCdd i None None None (Some bp) (Some beta) None)).
      { unfold named_coeffs, refine. cbn [T_min T_max T_min_seg T_max_seg]. rewrite Hx0. unfold reduce_model.
        rewrite rs_cool by auto. destruct (Rle_dec bp Tminseg); [lra|].
        cbn. unfold Rltb. destruct (Rlt_dec beta 0); [lra | reflexivity]. }
      rewrite (stored_of_eff _ _ _ _ T Hn (eff_cool bp beta i Pc ltac:(lra))). reflexivity.
Qed.

Theorem readback_tidd : forall i T : R,
  stored_curve N KTidd [i] tc T = scored_curve N KTidd [i] tc T.
Proof.
  intros i T. unfold scored_curve, scored_x. change (@n_zero N) with 0. cbn [T_min T_max].
  assert (Hn : named_coeffs N KTidd [i] tc = Some (Build_coeffs N Tidd i None None None None None None)).
  { unfold named_coeffs, refine, get_full_model_x. cbn [T_min T_max T_min_seg T_max_seg]. change (@n_zero N) with 0.
    pose proof (fix_identity 0 0 0 0 0 0 i Tmin Tmax (Rle_refl _) (or_introl eq_refl) (fun _ => eq_refl) (fun _ => eq_refl)) as Hf.
    unfold mkfx in Hf. rewrite Hf. unfold reduce_model.
    rewrite (rs_tidd _ 0 0 0 0 0 0 i) by reflexivity. reflexivity. }
  rewrite (stored_of_eff _ _ _ _ T Hn (eff_tidd i)). reflexivity.
Qed.
End Guarded.

End Readback.

(* ---------------- refinement is idempotent on what it stores *)
Section Idem.
Variables lo hi : R.
Notation N := (RNumOf lo hi).
Variables Tmin Tmax Tminseg Tmaxseg : R.
Notation tc := (Build_tconstr N Tmin Tmax Tminseg Tmaxseg).
Local Arguments fix_full_model_x : simpl never.
Local Arguments get_smooth_coeffs : simpl never.
Local Arguments get_k : simpl never.

(* a stored document on which OptimizedResult's refinement has nothing left to do *)
Definition stable (c : coeffs N) : Prop :=
  match model_type c, hdd_bp c, hdd_beta c, hdd_k c, cdd_bp c, cdd_beta c, cdd_k c with
  | HddTiddCddSmooth, Some hb, Some hbeta, Some hk, Some cb, Some cbeta, Some ck =>
      hb <= cb /\ (hb = cb \/ (Tmin < hb /\ cb < Tmax)) /\ 0 < hbeta /\ 0 < cbeta /\ (hk <> 0 \/ ck <> 0)
  | HddTiddCdd, Some hb, Some hbeta, None, Some cb, Some cbeta, None =>
      hb <= cb /\ (hb = cb \/ (Tmin < hb /\ cb < Tmax)) /\ 0 < hbeta /\ 0 < cbeta
  | HddTiddSmooth, Some hb, Some hbeta, Some hk, None, None, None => hbeta < 0 /\ hk <> 0
  | TiddCddSmooth, None, None, None, Some cb, Some cbeta, Some ck => 0 < cbeta /\ ck <> 0
  | HddTidd, Some hb, Some hbeta, None, None, None, None => hbeta < 0 /\ Tminseg <= hb < Tmaxseg
  | TiddCdd, None, None, None, Some cb, Some cbeta, None => 0 < cbeta /\ Tminseg < cb <= Tmaxseg
  | Tidd, None, None, None, None, None, None => True
  | _, _, _, _, _, _, _ => False
  end.

Theorem refine_idempotent : forall c, stable c ->
  exists arr, to_np_array N c = Some arr /\ named_coeffs N (key_of_shape (model_type c)) arr tc = Some c.
Proof.
  intros [s i hb hbeta hk cb cbeta ck] S. unfold stable in S. cbn in S.
  destruct s; destruct hb as [hb|], hbeta as [hbeta|], hk as [hk|], cb as [cb|], cbeta as [cbeta|], ck as [ck|];
    try contradiction; cbn [model_type key_of_shape]; eexists; (split; [reflexivity|]);
    unfold named_coeffs, refine, get_full_model_x; cbn [T_min T_max T_min_seg T_max_seg];
    cbn [intercept]; change (@n_zero N) with 0.
  - destruct S as (S1 & S2 & S3 & S4 & S5).
    pose proof (fix_identity lo hi hb hbeta hk cb cbeta ck i Tmin Tmax S1 S2) as Hf. unfold mkfx in Hf.
    rewrite Hf by (intros; lra). unfold reduce_model.
    rewrite (rs_full_smooth lo hi) by (try lra; exact S5).
    cbn. unfold Rltb. destruct (Rlt_dec cb hb); [lra | reflexivity].
  - destruct S as (S1 & S2 & S3 & S4).
    pose proof (fix_identity lo hi hb hbeta 0 cb cbeta 0 i Tmin Tmax S1 S2 (fun _ => eq_refl) (fun _ => eq_refl)) as Hf.
    unfold mkfx in Hf. rewrite Hf. unfold reduce_model.
    rewrite (rs_full lo hi) by (try lra; reflexivity).
    cbn. unfold Rltb. destruct (Rlt_dec cb hb); [lra | reflexivity].
  - destruct S as (S1 & S2). change (@n_ltb N hbeta 0) with (Rltb hbeta 0). unfold Rltb.
    destruct (Rlt_dec hbeta 0); [|lra]. change (@n_opp N hbeta) with (- hbeta).
    pose proof (fix_identity lo hi hb (- hbeta) hk hb 0 0 i Tmin Tmax (Rle_refl _) (or_introl eq_refl)) as Hf.
    unfold mkfx in Hf. rewrite Hf by (intros; lra). unfold reduce_model.
    rewrite (rs_heat_smooth_other lo hi) by (try lra; try discriminate; try reflexivity; exact S2).
    cbn. unfold Rltb. destruct (Rlt_dec (- - hbeta) 0); [|lra]. rewrite Ropp_involutive. reflexivity.
  - destruct S as (S1 & S2). change (@n_ltb N cbeta 0) with (Rltb cbeta 0). unfold Rltb.
    destruct (Rlt_dec cbeta 0); [lra|].
    pose proof (fix_identity lo hi cb 0 0 cb cbeta ck i Tmin Tmax (Rle_refl _) (or_introl eq_refl)) as Hf.
    unfold mkfx in Hf. rewrite Hf by (intros; lra). unfold reduce_model.
    rewrite (rs_cool_smooth_other lo hi) by (try lra; try discriminate; try reflexivity; exact S2).
    cbn. unfold Rltb. destruct (Rlt_dec cbeta 0); [lra | reflexivity].
  - destruct S as (S1 & S2). unfold n_gtb. change (@n_ltb N) with Rltb. unfold Rltb.
    destruct (Rlt_dec hb Tminseg); [lra|]. destruct (Rlt_dec Tmaxseg hb); [lra|].
    destruct (Rlt_dec hbeta 0); [|lra]. change (@n_opp N hbeta) with (- hbeta).
    pose proof (fix_identity lo hi hb (- hbeta) 0 hb 0 0 i Tmin Tmax (Rle_refl _) (or_introl eq_refl) (fun _ => eq_refl) (fun _ => eq_refl)) as Hf.
    unfold mkfx in Hf. rewrite Hf. unfold reduce_model.
    rewrite (rs_heat lo hi) by (try lra; reflexivity). destruct (Rle_dec Tmaxseg hb); [lra|].
    cbn. unfold Rltb. destruct (Rlt_dec (- - hbeta) 0); [|lra]. rewrite Ropp_involutive. reflexivity.
  - destruct S as (S1 & S2). unfold n_gtb. change (@n_ltb N) with Rltb. unfold Rltb.
    destruct (Rlt_dec cb Tminseg); [lra|]. destruct (Rlt_dec Tmaxseg cb); [lra|].
    destruct (Rlt_dec cbeta 0); [lra|].
    pose proof (fix_identity lo hi cb 0 0 cb cbeta 0 i Tmin Tmax (Rle_refl _) (or_introl eq_refl) (fun _ => eq_refl) (fun _ => eq_refl)) as Hf.
    unfold mkfx in Hf. rewrite Hf. unfold reduce_model.
    rewrite (rs_cool lo hi) by (try lra; reflexivity). destruct (Rle_dec cb Tminseg); [lra|].
    cbn. unfold Rltb. destruct (Rlt_dec cbeta 0); [lra | reflexivity].
  - pose proof (fix_identity lo hi 0 0 0 0 0 0 i Tmin Tmax (Rle_refl _) (or_introl eq_refl) (fun _ => eq_refl) (fun _ => eq_refl)) as Hf.
    unfold mkfx in Hf. rewrite Hf. unfold reduce_model.
    rewrite (rs_tidd lo hi _ 0 0 0 0 0 0 i) by reflexivity. reflexivity.
Qed.
End Idem.

(* ---------------- get_T_bnds: the recorded temperature limits *)
Section TBnds.
Variables lo hi : R.
Notation N := (RNumOf lo hi).

Lemma insert_sorted_perm : forall (x : R) (l : list R), Permutation (x :: l) (insert_sorted N x l).
Proof.
  intros x l. induction l as [|y r IH]; cbn; [reflexivity|].
  destruct (Rleb x y); [reflexivity|]. rewrite perm_swap. apply perm_skip. exact IH.
Qed.

Lemma sort_list_perm : forall l : list R, Permutation l (sort_list N l).
Proof.
  induction l as [|x l IH]; cbn; [reflexivity|]. rewrite <- insert_sorted_perm. apply perm_skip. exact IH.
Qed.

Lemma insert_sorted_sorted : forall (x : R) (l : list R), StronglySorted Rle l -> StronglySorted Rle (insert_sorted N x l).
Proof.
  intros x l H. induction H as [|y r Hr IH Hy]; cbn.
  - constructor; constructor.
  - destruct (Rleb x y) eqn:E.
    + apply Rleb_true in E. constructor; [constructor; assumption|].
      constructor; [exact E|]. eapply Forall_impl; [|exact Hy]. intros a Ha. cbn in Ha. lra.
    + apply Rleb_false in E. constructor; [exact IH|].
      apply (Permutation_Forall (insert_sorted_perm x r)). constructor; [lra | exact Hy].
Qed.

Lemma sort_list_sorted : forall l : list R, StronglySorted Rle (sort_list N l).
Proof. induction l as [|x l IH]; cbn; [constructor | apply insert_sorted_sorted; exact IH]. Qed.

Lemma sort_list_length : forall l : list R, @length R (sort_list N l) = length l.
Proof. intros l. symmetry. apply Permutation_length. apply sort_list_perm. Qed.

Lemma sort_list_length' : forall l : list R, @length N (sort_list N l) = length l.
Proof. exact sort_list_length. Qed.

Lemma sorted_nth_le : forall (l : list R) d i j, StronglySorted Rle l -> (i <= j)%nat -> (j < length l)%nat ->
  nth i l d <= nth j l d.
Proof.
  intros l d i j H. revert i j. induction H as [|y r Hr IH Hy]; intros i j Hij Hj; cbn in Hj; [lia|].
  destruct i as [|i]; destruct j as [|j]; cbn; try lra; try lia.
  - rewrite Forall_forall in Hy. apply Hy. apply nth_In. lia.
  - apply IH; lia.
Qed.

(* shape of a successful call *)
Lemma get_T_bnds_some : forall (T : list R) n tc, get_T_bnds N T n = Some tc ->
  let s := sort_list N T in
  (n < length T)%nat /\
  tc = Build_tconstr N (nth 0 s 0) (nth (length T - 1) s 0) (nth n s 0)
                       (nth (match n with O => O | _ => length T - n end) s 0).
Proof.
  intros T n tc H. unfold get_T_bnds in H. cbv zeta in H. rewrite sort_list_length in H.
  destruct (sort_list N T) as [|t0 r] eqn:Es; [discriminate|].
  destruct (Nat.ltb n (length T)) eqn:El; [|discriminate]. apply Nat.ltb_lt in El.
  injection H as H. split; [exact El|]. subst tc.
  assert (Hlen : length (t0 :: r) = length T) by (rewrite <- Es; apply sort_list_length).
  rewrite !(nth_indep (t0 :: r) 0 t0) by (rewrite Hlen; destruct n; lia). reflexivity.
Qed.

(* the limits are ordered as soon as the two outer segments do not overlap: 2 n <= number of fitted days *)
Theorem get_T_bnds_ordered : forall (T : list R) n tc, get_T_bnds N T n = Some tc -> (2 * n <= length T)%nat ->
  bounds_ok lo hi tc.
Proof.
  intros T n tc H Hn. destruct (get_T_bnds_some T n tc H) as [Hlt Htc]. subst tc.
  pose proof (sort_list_sorted T) as Hs. pose proof (sort_list_length T) as Hl.
  unfold bounds_ok. cbn [T_min T_max T_min_seg T_max_seg].
  repeat split; apply sorted_nth_le; try exact Hs; rewrite ?Hl; destruct n; lia.
Qed.

(* every recorded limit is the temperature of a fitted day *)
Theorem get_T_bnds_members : forall (T : list R) n tc, get_T_bnds N T n = Some tc ->
  In (T_min tc) T /\ In (T_max tc) T /\ In (T_min_seg tc) T /\ In (T_max_seg tc) T.
Proof.
  intros T n tc H. destruct (get_T_bnds_some T n tc H) as [Hlt Htc]. subst tc.
  pose proof (sort_list_length T) as Hl. cbn [T_min T_max T_min_seg T_max_seg].
  assert (Hin : forall i, (i < length T)%nat -> In (nth i (sort_list N T) 0) T).
  { intros i Hi. apply (Permutation_in _ (Permutation_sym (sort_list_perm T))). apply nth_In. rewrite ?Hl, ?(sort_list_length' T). exact Hi. }
  repeat split; apply Hin; destruct n; lia.
Qed.

(* T_min / T_max bound every fitted day; T_min_seg / T_max_seg leave at least n days outside on either side *)
Theorem get_T_bnds_range : forall (T : list R) n tc, get_T_bnds N T n = Some tc ->
  forall t, In t T -> T_min tc <= t <= T_max tc.
Proof.
  intros T n tc H t Ht. destruct (get_T_bnds_some T n tc H) as [Hlt Htc]. subst tc.
  pose proof (sort_list_sorted T) as Hs. pose proof (sort_list_length T) as Hl.
  cbn [T_min T_max].
  apply (Permutation_in _ (sort_list_perm T)) in Ht.
  destruct (In_nth _ _ 0 Ht) as (i & Hi & Hnth). rewrite ?Hl, ?(sort_list_length' T) in Hi. rewrite <- Hnth.
  split; apply sorted_nth_le; try exact Hs; rewrite ?Hl; lia.
Qed.

(* composition with refine_admissible: no hypothesis on the limits is left, they come from the fitted days *)
Theorem fitted_component_admissible : forall (T : list R) n tc qlo qhi key raw,
  get_T_bnds N T n = Some tc -> (2 * n <= length T)%nat ->
  box_spec (T_min tc) (T_max tc) qlo qhi key raw ->
  exists c, named_coeffs N key raw tc = Some c /\
            wellformed lo hi (T_min tc) (T_max tc) (T_min_seg tc) (T_max_seg tc) qlo qhi c.
Proof.
  intros T n tc qlo qhi key raw H Hn B.
  pose proof (get_T_bnds_ordered T n tc H Hn) as Hb. destruct tc as [a b c d]. cbn [T_min T_max T_min_seg T_max_seg] in *.
  exact (refine_admissible lo hi a b c d qlo qhi Hb key raw B).
Qed.
End TBnds.
