(* Lemmas about Model/Refine.v at the real-number instance. *)
From Coq Require Import Reals Lra List Bool.
From V Require Import Model.Num Model.NumR Model.DailyCurve Model.Refine Proofs.DailyCurveProofs.
Import ListNotations.
Local Open Scope R_scope.
