(* Lemmas about stored CalTRACK hourly models (Model/CalTrackDoc.v).  The CalTRACK theorems of Properties/C01.v. *)
From Coq Require Import ZArith List Bool String PrimFloat Lia.
From V Require Import Model.Json Model.DailyDoc Model.CalTrackDoc Proofs.DailyDocProofs Proofs.HourlyDocProofs.
Import ListNotations.
Open Scope string_scope.

(* ---------------------------------------------------------------- generic *)

Lemma opt_all_map_compose : forall {A B C} (f : A -> option B) (g : B -> option C) (h : A -> C) (l : list A) (ys : list B),
  (forall x y, In x l -> f x = Some y -> g y = Some (h x)) ->
  opt_all (map f l) = Some ys -> opt_all (map g ys) = Some (map h l).
Proof.
  intros A B C f g h l. induction l as [|x l IH]; intros ys H Hys; cbn in *.
  - injection Hys as <-. reflexivity.
  - destruct (f x) as [y|] eqn:Ex; [|discriminate].
    destruct (opt_all (map f l)) as [r|] eqn:Er; [|discriminate]. injection Hys as <-. cbn.
    rewrite (H x y (or_introl eq_refl) Ex). rewrite (IH r); [reflexivity | | reflexivity].
    intros x' y' Hin. apply H. right. exact Hin.
Qed.

(* month numbers never print as "all" *)
Lemma small_keys_not_all :
  forallb (fun n => negb (String.eqb (string_of_Z n) "all")) small_keys = true.
Proof. vm_compute. reflexivity. Qed.

Lemma key_not_all : forall n : Z, (0 <= n < 1000)%Z -> String.eqb (string_of_Z n) "all" = false.
Proof.
  intros n Hn. pose proof small_keys_not_all as H. rewrite forallb_forall in H.
  assert (Hin : In n small_keys).
  { unfold small_keys. replace n with (Z.of_nat (Z.to_nat n)) by lia. apply in_map. apply in_seq. lia. }
  apply negb_true_iff. apply H. exact Hin.
Qed.

(* ---------------------------------------------------------------- the reloaded image of a fitted state *)

Definition raw_of (w : warns) : warns :=
  match w with WTyped l => WRaw (map warning_doc l) | WRaw l => WRaw l end.

Definition reload_seg (g : seg_model) : seg_model :=
  {| sg_name := sg_name g; sg_formula := sg_formula g; sg_params := sg_params g; sg_warnings := raw_of (sg_warnings g) |}.

Definition reload_metrics (m : metrics) : metrics :=
  match m with MNone => MNone | MNative [] => MNone | MNative l => MReloaded l | MReloaded [] => MNone | MReloaded l => MReloaded l end.

Definition reloaded_of (repaired : bool) (s : ct_state) : ct_state :=
  {| ct_status := ct_status s; ct_method := ct_method s; ct_segments := map reload_seg (ct_segments s);
     ct_pred_type := ct_pred_type s; ct_mapping := ct_mapping s; ct_processor := ct_processor s;
     ct_occupancy := ct_occupancy s; ct_occ_bins := ct_occ_bins s; ct_unocc_bins := ct_unocc_bins s;
     ct_segment_type := ct_segment_type s;
     ct_unc := map (fun kv => (read_ukey repaired (ukey_string (fst kv)), snd kv)) (ct_unc s);
     ct_warnings := raw_of (ct_warnings s); ct_metadata := ct_metadata s; ct_settings := ct_settings s;
     ct_totals := reload_metrics (ct_totals s); ct_avgs := reload_metrics (ct_avgs s) |}.

(* a fitted CalTRACK state, as the fit produces it *)
Definition typed_wf (w : warns) : Prop := match w with WTyped l => Forall wf_warning l | WRaw _ => False end.
Definition native_metrics (m : metrics) : Prop :=
  match m with MNone => True | MNative (_ :: _) => True | _ => False end.

Definition wf_ct (s : ct_state) : Prop :=
  typed_wf (ct_warnings s) /\ Forall (fun g => typed_wf (sg_warnings g)) (ct_segments s) /\
  native_metrics (ct_totals s) /\ native_metrics (ct_avgs s) /\
  segment_info (ct_segment_type s) = Some (ct_pred_type s, ct_mapping s) /\
  ct_processor s = "caltrack_hourly_prediction_feature_processor".

Lemma warns_doc_raw : forall w j, typed_wf w -> warns_doc w = Some j -> raw_warns (Some j) = Some (raw_of w).
Proof. intros [l|l] j H Hj; [|contradiction]. cbn in Hj. injection Hj as <-. reflexivity. Qed.

Lemma parse_params_doc : forall ps : list (string * float),
  opt_all (map parse_param (map (fun p => (fst p, JNum (snd p))) ps)) = Some ps.
Proof. intros ps. apply opt_all_map_inv. intros [k v] _. reflexivity. Qed.

Lemma parse_seg_doc : forall g j, typed_wf (sg_warnings g) -> seg_doc g = Some j -> parse_seg j = Some (reload_seg g).
Proof.
  intros [name f ps w] j Hw Hj. unfold seg_doc in Hj. cbn [sg_warnings sg_name sg_formula sg_params] in *.
  destruct (warns_doc w) as [wj|] eqn:Ew; [|discriminate]. injection Hj as <-.
  unfold parse_seg. cbn [field get String.eqb Ascii.eqb Bool.eqb bind as_string as_obj].
  rewrite parse_params_doc. cbn [bind]. rewrite (warns_doc_raw w wj Hw Ew). cbn [bind].
  unfold reload_seg. cbn. destruct f; reflexivity.
Qed.

Lemma parse_metrics_doc : forall m j, native_metrics m -> metrics_doc m = Some j ->
  parse_metrics (Some j) = Some (reload_metrics m).
Proof.
  intros [|l|l] j H Hj; cbn in *; try contradiction.
  - injection Hj as <-. reflexivity.
  - destruct l; [contradiction|]. injection Hj as <-. reflexivity.
Qed.

(* an uncertainty entry -- NaN included -- is read back as it was written *)
Lemma parse_uentry_doc : forall e, parse_uentry (uentry_doc e) = Some e.
Proof.
  intros e. unfold parse_uentry, uentry_doc. rewrite map_map. cbn [fst snd].
  induction e as [|[k v] e IH]; [reflexivity|]. cbn [map fst snd]. destruct v; cbn; rewrite IH; reflexivity.
Qed.

Lemma parse_unc_doc : forall (u : list (ukey * uentry)),
  opt_all (map (fun kv : string * json => option_map (fun e => (fst kv, e)) (parse_uentry (snd kv)))
               (map (fun kv : ukey * uentry => (ukey_string (fst kv), uentry_doc (snd kv))) u))
  = Some (map (fun kv => (ukey_string (fst kv), snd kv)) u).
Proof.
  intros u. induction u as [|[k e] u IH]; [reflexivity|]. cbn [map fst snd]. rewrite parse_uentry_doc. cbn [option_map opt_all].
  rewrite IH. reflexivity.
Qed.

(* ---------------------------------------------------------------- from_dict (to_dict s) *)

Lemma ct_from_to : forall repaired s d, wf_ct s -> ct_to_doc_objects s = Some d ->
  ct_from_doc_gen repaired d = Some (reloaded_of repaired s).
Proof.
  intros repaired s d (Hw & Hsegs & Htm & Ham & Hsi & Hproc) Hd. unfold ct_to_doc_objects in Hd.
  destruct (opt_all (map seg_doc (ct_segments s))) as [segs|] eqn:Esegs; [|discriminate]. cbn [bind] in Hd.
  destruct (lookup_doc (ct_segments s) (ct_mapping s)) as [lk|]; [|discriminate]. cbn [bind] in Hd.
  destruct (warns_doc (ct_warnings s)) as [ws|] eqn:Ews; [|discriminate]. cbn [bind] in Hd.
  destruct (metrics_doc (ct_totals s)) as [tm|] eqn:Etm; [|discriminate]. cbn [bind] in Hd.
  destruct (metrics_doc (ct_avgs s)) as [am|] eqn:Eam; [|discriminate]. cbn [bind] in Hd.
  injection Hd as <-. unfold ct_from_doc_gen.
  cbn [field get String.eqb Ascii.eqb Bool.eqb bind as_string as_arr as_obj].
  rewrite (opt_all_map_compose seg_doc parse_seg reload_seg (ct_segments s) segs); [|
    intros g j Hin Hj; apply parse_seg_doc; [rewrite Forall_forall in Hsegs; apply Hsegs; exact Hin | exact Hj] | exact Esegs].
  cbn [bind]. rewrite Hsi. cbn [bind fst snd]. rewrite parse_unc_doc. cbn [bind].
  rewrite (warns_doc_raw _ _ Hw Ews). cbn [bind].
  rewrite (parse_metrics_doc _ _ Htm Etm). cbn [bind]. rewrite (parse_metrics_doc _ _ Ham Eam). cbn [bind].
  unfold reloaded_of. rewrite Hproc. rewrite map_map. reflexivity.
Qed.

(* what the regression prediction reads is restored *)
Lemma ct_inputs_restored : forall r s, ct_inputs_of (reloaded_of r s) = ct_inputs_of s.
Proof. intros r s. unfold ct_inputs_of, reloaded_of. cbn. rewrite map_map. reflexivity. Qed.

(* ---------------------------------------------------------------- the uncertainty map *)

Definition month_keys (u : list (ukey * uentry)) : Prop :=
  Forall (fun kv => match fst kv with KAll => True | KMonth n => (0 <= n < 1000)%Z | KText _ => False end) u.

Lemma read_ukey_repaired : forall k,
  match k with KAll => True | KMonth n => (0 <= n < 1000)%Z | KText _ => False end ->
  read_ukey true (ukey_string k) = k.
Proof.
  intros [|n|t] H; try contradiction; [reflexivity|]. unfold read_ukey. cbn [ukey_string].
  rewrite (key_not_all n H), (key_roundtrip n H). reflexivity.
Qed.

Lemma unc_restored_repaired : forall s, month_keys (ct_unc s) -> ct_unc (reloaded_of true s) = ct_unc s.
Proof.
  intros s H. unfold reloaded_of. cbn [ct_unc]. induction (ct_unc s) as [|[k v] u IH]; [reflexivity|].
  inversion H as [|? ? Hk Hu]; subst. cbn [map fst snd]. rewrite (read_ukey_repaired k Hk), (IH Hu). reflexivity.
Qed.

(* as coded: a model with the single key "all" keeps its uncertainty inputs ... *)
Lemma unc_restored_all : forall s, Forall (fun kv => fst kv = KAll) (ct_unc s) -> ct_unc (reloaded_of false s) = ct_unc s.
Proof.
  intros s H. unfold reloaded_of. cbn [ct_unc]. induction (ct_unc s) as [|[k v] u IH]; [reflexivity|].
  inversion H as [|? ? Hk Hu]; subst. cbn in Hk. subst k. cbn [map fst snd]. rewrite (IH Hu). reflexivity.
Qed.

(* ... and a model keyed by month numbers loses every one of them *)
Lemma fold_none : forall (u : list (ukey * uentry)) m,
  Forall (fun kv => key_applies (fst kv) m = false) u ->
  fold_left (fun acc kv => if key_applies (fst kv) m then Some (snd kv) else acc) u None = None.
Proof.
  induction u as [|kv u IH]; intros m H; [reflexivity|]. inversion H as [|? ? Hk Hu]; subst. cbn. rewrite Hk. apply IH. exact Hu.
Qed.

Lemma unc_lost_months : forall s m,
  Forall (fun kv => match fst kv with KMonth n => (0 <= n < 1000)%Z | _ => False end) (ct_unc s) ->
  unc_lookup (ct_unc (reloaded_of false s)) m = None.
Proof.
  intros s m H. unfold unc_lookup, reloaded_of. cbn [ct_unc]. apply fold_none.
  rewrite Forall_forall in *. intros kv Hin. apply in_map_iff in Hin. destruct Hin as ([k v] & <- & Hin).
  specialize (H _ Hin). cbn [fst snd] in *. destruct k as [|n|t]; try contradiction.
  unfold read_ukey. cbn [ukey_string]. rewrite (key_not_all n H). reflexivity.
Qed.

(* ---------------------------------------------------------------- serialising the reloaded model *)

Lemma relax_raw_of : forall w, typed_wf w -> relax_warns (raw_of w) = w.
Proof.
  intros [l|l] H; [|contradiction]. cbn.
  rewrite (opt_all_map_inv parse_warning warning_doc l); [reflexivity|].
  intros w Hw. apply parse_warning_doc. cbn in H. rewrite Forall_forall in H. apply H. exact Hw.
Qed.

Lemma relax_reload_metrics : forall m, native_metrics m -> relax_metrics (reload_metrics m) = m.
Proof. intros [|[|x l]|l] H; cbn in *; try contradiction; reflexivity. Qed.

Definition with_unc (s : ct_state) (u : list (ukey * uentry)) : ct_state :=
  {| ct_status := ct_status s; ct_method := ct_method s; ct_segments := ct_segments s; ct_pred_type := ct_pred_type s;
     ct_mapping := ct_mapping s; ct_processor := ct_processor s; ct_occupancy := ct_occupancy s;
     ct_occ_bins := ct_occ_bins s; ct_unocc_bins := ct_unocc_bins s; ct_segment_type := ct_segment_type s;
     ct_unc := u; ct_warnings := ct_warnings s; ct_metadata := ct_metadata s; ct_settings := ct_settings s;
     ct_totals := ct_totals s; ct_avgs := ct_avgs s |}.

Lemma relax_reloaded : forall r s, wf_ct s ->
  relax (reloaded_of r s) = with_unc s (map (fun kv => (read_ukey r (ukey_string (fst kv)), snd kv)) (ct_unc s)).
Proof.
  intros r s (Hw & Hsegs & Htm & Ham & _ & _). unfold relax, reloaded_of, with_unc. cbn.
  rewrite (relax_raw_of _ Hw), (relax_reload_metrics _ Htm), (relax_reload_metrics _ Ham).
  assert (E : map (fun g => {| sg_name := sg_name g; sg_formula := sg_formula g; sg_params := sg_params g;
                               sg_warnings := relax_warns (sg_warnings g) |}) (map reload_seg (ct_segments s)) = ct_segments s).
  { induction (ct_segments s) as [|g l IH]; [reflexivity|]. inversion Hsegs as [|? ? Hg Hl]; subst. cbn [map].
    rewrite (IH Hl). f_equal. destruct g as [n f p w]. unfold reload_seg. cbn. rewrite (relax_raw_of w Hg). reflexivity. }
  rewrite E. reflexivity.
Qed.

(* keys whose text is what str(int) prints (every key to_dict writes) *)
Definition canonical (k : ukey) : Prop :=
  match k with KAll => True | KMonth n => (0 <= n < 1000)%Z | KText t => t <> "all" /\ Z_of_string t = None end.

Lemma ukey_string_read : forall r k, canonical k -> ukey_string (read_ukey r (ukey_string k)) = ukey_string k.
Proof.
  intros r [|n|t] H; cbn in H; [reflexivity| |].
  - unfold read_ukey. cbn [ukey_string]. rewrite (key_not_all n H). destruct r; [|reflexivity].
    rewrite (key_roundtrip n H). reflexivity.
  - destruct H as [H1 H2]. unfold read_ukey. cbn [ukey_string].
    destruct (String.eqb t "all") eqn:E; [apply String.eqb_eq in E; contradiction|].
    destruct r; [rewrite H2|]; reflexivity.
Qed.

Lemma ct_to_doc_with_unc : forall s u, map (fun kv => (ukey_string (fst kv), uentry_doc (snd kv))) u =
                                       map (fun kv => (ukey_string (fst kv), uentry_doc (snd kv))) (ct_unc s) ->
  ct_to_doc_objects (with_unc s u) = ct_to_doc_objects s.
Proof. intros s u H. unfold ct_to_doc_objects, with_unc. cbn. rewrite H. reflexivity. Qed.

(* with the proposed serialiser the reloaded model writes the very same document *)
Lemma ct_reserialise_repaired : forall r s, wf_ct s -> Forall (fun kv => canonical (fst kv)) (ct_unc s) ->
  ct_to_doc (reloaded_of r s) = ct_to_doc_objects s.
Proof.
  intros r s Hwf Hk. unfold ct_to_doc. rewrite (relax_reloaded r s Hwf). apply ct_to_doc_with_unc.
  rewrite map_map. cbn [fst snd]. induction (ct_unc s) as [|[k v] u IH]; [reflexivity|].
  inversion Hk as [|? ? Hk1 Hk2]; subst. cbn [map fst snd]. rewrite (ukey_string_read r k Hk1), (IH Hk2). reflexivity.
Qed.

(* as coded, a reloaded model with metrics cannot be written at all *)
Lemma ct_reserialise_fails : forall r s x l, ct_totals s = MNative (x :: l) -> ct_to_doc_objects (reloaded_of r s) = None.
Proof.
  intros r s x l H. unfold ct_to_doc_objects.
  destruct (opt_all (map seg_doc (ct_segments (reloaded_of r s)))); [|reflexivity]. cbn [bind].
  destruct (lookup_doc (ct_segments (reloaded_of r s)) (ct_mapping (reloaded_of r s))); [|reflexivity]. cbn [bind].
  destruct (warns_doc (ct_warnings (reloaded_of r s))); [|reflexivity]. cbn [bind].
  unfold reloaded_of at 1. cbn [ct_totals]. rewrite H. reflexivity.
Qed.

(* on a fitted state the two serialisers agree (nothing to relax) *)
Lemma relax_native : forall s, wf_ct s -> relax s = s.
Proof.
  intros s (Hw & Hsegs & Htm & Ham & _ & _). destruct s as [st me segs pt mp pr oc ob ub sty unc ws md se tm am].
  unfold relax. cbn in *.
  assert (E : map (fun g => {| sg_name := sg_name g; sg_formula := sg_formula g; sg_params := sg_params g;
                               sg_warnings := relax_warns (sg_warnings g) |}) segs = segs).
  { induction segs as [|g l IH]; [reflexivity|]. inversion Hsegs as [|? ? Hg Hl]; subst. cbn [map]. rewrite (IH Hl). f_equal.
    destruct g as [n f p w]. cbn in *. destruct w; [reflexivity | contradiction]. }
  rewrite E. destruct ws; [|contradiction]. destruct tm as [|[|x1 l1]|l1]; try contradiction; destruct am as [|[|x2 l2]|l2]; try contradiction; reflexivity.
Qed.

Lemma ct_to_doc_native : forall s, wf_ct s -> ct_to_doc s = ct_to_doc_objects s.
Proof. intros s H. unfold ct_to_doc. rewrite (relax_native s H). reflexivity. Qed.

(* ---------------------------------------------------------------- prediction as a function of its inputs *)
Section Predict.
Variable data result : Type.
Variable predict_fn : ct_inputs -> data -> result.

Lemma ct_predict_restored_l : forall r s d, wf_ct s -> ct_to_doc_objects s = Some d ->
  exists s', ct_from_doc_gen r d = Some s' /\ forall x, predict_fn (ct_inputs_of s') x = predict_fn (ct_inputs_of s) x.
Proof.
  intros r s d Hwf Hd. exists (reloaded_of r s). split; [apply ct_from_to; assumption|].
  intros x. rewrite ct_inputs_restored. reflexivity.
Qed.
End Predict.
