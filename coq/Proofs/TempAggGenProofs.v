(* The hand-written model of Model/TempAgg.v against the table harness/translate_resample.py extracts from
   _DailyData / _BillingData._compute_temperature_features on every run (Generated/TempAggGen.v). *)
From Coq Require Import ZArith QArith List Bool Lia.
From V Require Import Model.Resample Model.Cmp Model.TempAgg Generated.TempAggGen Proofs.ResampleProofs Proofs.TempAggProofs.
Import ListNotations.
Open Scope Z_scope.

(* both classes follow the same variant of the model (scale = is the sub-hourly mean divided by its coverage) *)
Lemma classes_same_variant_l :
  gen_daily_scaled = gen_billing_scaled /\ gen_daily_keep = gen_billing_keep /\ gen_daily_median = gen_billing_median /\
  gen_daily_ratio = gen_billing_ratio /\ gen_daily_buffer = gen_billing_buffer.
Proof. repeat split; reflexivity. Qed.

(* other feeds: the day value the class keeps, with the source's own test on the coverage and the source's own
   (absence of a) division by the coverage *)
Lemma temp_value_generated_l : forall v c,
  temp_value gen_daily_scaled v c =
  if cmpq gen_daily_keep c then (if gen_daily_scaled then option_map (fun x => (x / c)%Q) v else v) else None.
Proof. intros v c. rewrite temp_value_l. reflexivity. Qed.

Lemma temperature_warning_complement_l : forall c, cmpq gen_daily_warn c = negb (cmpq gen_daily_keep c).
Proof. intros c. unfold cmpq, gen_daily_warn, gen_daily_keep. cbn [fst snd]. rewrite negb_involutive. reflexivity. Qed.

(* hourly feed: "high frequency data exists" = median of the per-day totals <op> c; m2 is twice that median *)
Lemma median_test_generated_l : forall m2, (2 <? m2) = cmpq gen_daily_median (m2 # 2).
Proof.
  intros m2. unfold cmpq, gen_daily_median, Qle_bool. cbn [fst snd Qnum Qden].
  destruct (Z.ltb_spec 2 m2); destruct (Z.leb_spec (m2 * 1) (1 * 2)); cbn; try reflexivity; lia.
Qed.

(* the share of present readings: not_null / (not_null + null) <op> c, on integers *)
Lemma ratio_test_generated_l : forall a t, 0 < t -> (2 * a <=? t) = cmpq gen_daily_ratio (a # Z.to_pos t).
Proof.
  intros a t Ht. unfold cmpq, gen_daily_ratio, Qle_bool. cbn [fst snd Qnum Qden]. rewrite Z2Pos.id by exact Ht.
  destruct (Z.leb_spec (2 * a) t); destruct (Z.leb_spec (a * 2) (1 * t)); try reflexivity; lia.
Qed.

(* the billing class' extra test not_null <op> median * c; absent from the daily class *)
Definition share_test (s : option (cop * Q)) (a m2 : Z) : bool :=
  match s with Some t => cmpq (fst t, ((m2 # 2) * snd t)%Q) (inject_Z a) | None => false end.

Lemma share_test_generated_l : forall a m2,
  share_test gen_daily_median_share a m2 = false /\ share_test gen_billing_median_share a m2 = (4 * a <=? m2).
Proof.
  intros a m2. split; [reflexivity|].
  unfold share_test, gen_billing_median_share, cmpq, Qle_bool. cbn [fst snd Qnum Qden Qmult inject_Z].
  destruct (Z.leb_spec (4 * a) m2); destruct (Z.leb_spec (a * Z.pos (2 * 2)) (m2 * 1 * 1)); try reflexivity; lia.
Qed.

(* the row test of the half rule, as the source states it *)
Lemma invalid_row_generated_l : forall billing m2 m a b, 0 < a + b ->
  invalid_row billing m2 (mkT m (Some a) (Some b)) =
  cmpq gen_daily_ratio (a # Z.to_pos (a + b)) ||
  share_test (if billing then gen_billing_median_share else gen_daily_median_share) a m2.
Proof.
  intros billing m2 m a b Ht. unfold invalid_row, total. cbn [t_notnull t_null].
  rewrite <- (ratio_test_generated_l a (a + b) Ht).
  destruct (share_test_generated_l a m2) as [Hd Hb]. destruct billing; cbn [andb]; [rewrite Hb|rewrite Hd]; reflexivity.
Qed.

(* the buffer day that closes the last meter day *)
Definition hourly_path_buf (buf : Z) (billing : bool) (tol : option Z) (midx : list Z) (temps : list reading) : temp_result :=
  match midx with
  | [] => TRows []
  | _ =>
    let idx := midx ++ [last midx 0 + buf] in
    let rows := removelast (rows_for tol idx temps) in
    if forallb (fun r => negb (is_some (t_mean r))) rows then TErrAllNaN else TRows (apply_half billing rows)
  end.

Lemma buffer_generated_l : forall billing tol midx temps,
  hourly_path billing tol midx temps = hourly_path_buf gen_daily_buffer billing tol midx temps.
Proof. intros. reflexivity. Qed.
