(* Lemmas about Model/TempAgg.v (property C09). *)
From Coq Require Import ZArith QArith List Bool Lia.
From V Require Import Model.Resample Model.TempAgg Proofs.ResampleProofs.
Import ListNotations.
Open Scope Z_scope.

(* ------------------------------------------------------------------------------------------------ *)
(* 1. day matching                                                                                   *)
(* ------------------------------------------------------------------------------------------------ *)

(* merge_asof backward + groupby, as a set: the readings of entry lo are those stamped in [lo, hi) (and within the
   tolerance, when there is one) *)
Lemma matching_groups_l : forall tol lo hi temps r,
  In r (group tol lo hi temps) <->
  In r temps /\ lo <= stamp r /\ (forall h, hi = Some h -> stamp r < h) /\ (forall d, tol = Some d -> stamp r - lo <= d).
Proof.
  intros tol lo hi temps r. unfold group. rewrite filter_In. unfold in_group.
  rewrite !andb_true_iff, Z.leb_le. split.
  - intros (Hin & (H1 & H2) & H3). repeat split; try assumption.
    + intros h ->. apply Z.ltb_lt. exact H2.
    + intros d ->. apply Z.leb_le. exact H3.
  - intros (Hin & H1 & H2 & H3). repeat split; try assumption.
    + destruct hi as [h|]; [apply Z.ltb_lt; apply H2; reflexivity|reflexivity].
    + destruct tol as [d|]; [apply Z.leb_le; apply H3; reflexivity|reflexivity].
Qed.

(* the groups of two different index entries of a sorted index are disjoint: every reading is counted once *)
Lemma groups_disjoint_l : forall tol lo hi lo' hi' temps r, hi = Some lo' ->
  In r (group tol lo hi temps) -> ~ In r (group tol lo' hi' temps).
Proof.
  intros tol lo hi lo' hi' temps r -> H1 H2.
  apply matching_groups_l in H1. apply matching_groups_l in H2.
  destruct H1 as (_ & _ & Hlt & _). destruct H2 as (_ & Hge & _). specialize (Hlt lo' eq_refl). lia.
Qed.

(* ------------------------------------------------------------------------------------------------ *)
(* 2. per-day aggregates                                                                             *)
(* ------------------------------------------------------------------------------------------------ *)

Definition n_present (g : list reading) : Z := zlen (filter (fun r => is_some (rval r)) g).
Definition n_absent (g : list reading) : Z := zlen (filter (fun r => negb (is_some (rval r))) g).

Lemma present_length : forall g, zlen (present g) = n_present g.
Proof.
  unfold zlen, n_present, present. induction g as [|r g IH]; [reflexivity|].
  cbn [flat_map filter]. destruct (rval r); cbn [is_some app length]; unfold zlen in *; cbn [length]; lia.
Qed.

Lemma present_absent_total : forall g, n_present g + n_absent g = zlen g.
Proof.
  unfold n_present, n_absent, zlen. induction g as [|r g IH]; [reflexivity|].
  cbn [filter]. destruct (is_some (rval r)); cbn [negb length]; lia.
Qed.

Lemma present_nil_iff : forall g, present g = [] <-> n_present g = 0.
Proof.
  intros g. rewrite <- present_length. unfold zlen. split; [intros ->; reflexivity|].
  destruct (present g); [reflexivity|cbn [length]; lia].
Qed.

(* hourly_day_mean / counts_exact: a day with at least one present reading gets the mean of its present readings
   and the exact numbers of present / absent readings *)
Lemma agg_present_l : forall g, 0 < n_present g ->
  t_mean (agg g) = Some (qsum (present g) / inject_Z (n_present g))%Q /\
  t_notnull (agg g) = Some (n_present g) /\ t_null (agg g) = Some (n_absent g).
Proof.
  intros g H. unfold agg. rewrite <- present_length in *.
  destruct (present g) as [|x p] eqn:E; [unfold zlen in H; cbn in H; lia|].
  cbn [t_mean t_notnull t_null]. repeat split.
  f_equal. rewrite <- E, present_length. pose proof (present_absent_total g). rewrite <- E, present_length in *. lia.
Qed.

(* a day without a single present reading: the whole row is blank (mean and counts NaN) ... *)
Lemma agg_blank_l : forall g, n_present g = 0 -> agg g = blank.
Proof. intros g H. apply present_nil_iff in H. unfold agg. rewrite H. reflexivity. Qed.

(* ... which the sufficiency test reads exactly like the exact counts (0, n): an invalid temperature day *)
Lemma blank_row_is_invalid_day_l :
  valid_temperature_day blank = false /\ forall m n, 0 <= n -> valid_temperature_day (mkT m (Some 0) (Some n)) = false.
Proof. split; [reflexivity|]. intros m n Hn. unfold valid_temperature_day, total. cbn. apply Z.ltb_ge. lia. Qed.

Lemma valid_day_iff_l : forall m a b, valid_temperature_day (mkT m (Some a) (Some b)) = true <-> a + b < 2 * a.
Proof. intros. unfold valid_temperature_day, total. cbn. apply Z.ltb_lt. Qed.

(* ------------------------------------------------------------------------------------------------ *)
(* 3. half rule                                                                                      *)
(* ------------------------------------------------------------------------------------------------ *)

Definition after_half (billing : bool) (m2 : Z) (r : trow) : trow :=
  if invalid_row billing m2 r then mkT None (t_notnull r) (t_null r) else r.

Lemma apply_half_l : forall billing rows m2,
  median2 (somes (map total rows)) = Some m2 -> 2 < m2 -> apply_half billing rows = map (after_half billing m2) rows.
Proof.
  intros billing rows m2 Hm H. unfold apply_half. rewrite Hm.
  assert (2 <? m2 = true) as -> by (apply Z.ltb_lt; exact H). reflexivity.
Qed.

Lemma apply_half_counts_l : forall billing rows,
  map t_notnull (apply_half billing rows) = map t_notnull rows /\ map t_null (apply_half billing rows) = map t_null rows.
Proof.
  intros billing rows. unfold apply_half. destruct (median2 (somes (map total rows))) as [m2|]; [|split; reflexivity].
  destruct (2 <? m2); [|split; reflexivity]. rewrite !map_map.
  split; apply map_ext; intros r; destruct (invalid_row billing m2 r); reflexivity.
Qed.

(* half_rule: the daily class reports, for the readings g of a day, the mean of the present ones when more than half
   are present and nothing otherwise - the statement's day_reference *)
Lemma half_rule_l : forall g m2, t_mean (after_half false m2 (agg g)) = day_reference g.
Proof.
  intros g m2. unfold after_half, day_reference, invalid_row, total.
  pose proof (present_absent_total g) as Ht. rewrite present_length.
  destruct (Z_lt_le_dec 0 (n_present g)) as [Hp|Hp].
  - destruct (agg_present_l g Hp) as (Hm & Ha & Hb). rewrite Ha, Hb. cbn [andb orb].
    rewrite orb_false_r. replace (n_present g + n_absent g) with (zlen g) by lia.
    destruct (2 * n_present g <=? zlen g); [reflexivity|]. exact Hm.
  - assert (n_present g = 0) as H0.
    { unfold n_present, zlen in *. lia. }
    rewrite (agg_blank_l g H0). cbn [blank t_notnull t_null t_mean]. rewrite H0.
    assert (2 * 0 <=? zlen g = true) as -> by (apply Z.leb_le; unfold zlen; lia). reflexivity.
Qed.

(* the billing class blanks more: also not_null <= median / 2 (m2 = twice the median of the row totals) *)
Lemma half_rule_billing_l : forall g m2, 0 < n_present g ->
  t_mean (after_half true m2 (agg g)) =
  if (2 * n_present g <=? zlen g) || (4 * n_present g <=? m2) then None else t_mean (agg g).
Proof.
  intros g m2 Hp. unfold after_half, invalid_row, total.
  destruct (agg_present_l g Hp) as (Hm & Ha & Hb). rewrite Ha, Hb. cbn [andb].
  pose proof (present_absent_total g) as Ht. replace (n_present g + n_absent g) with (zlen g) by lia.
  destruct ((2 * n_present g <=? zlen g) || (4 * n_present g <=? m2)); reflexivity.
Qed.

(* ------------------------------------------------------------------------------------------------ *)
(* 4. the rows of the hourly path                                                                    *)
(* ------------------------------------------------------------------------------------------------ *)

Lemma rows_for_pairs : forall tol temps idx,
  removelast (rows_for tol idx temps) =
  map (fun p => agg (group tol (fst p) (Some (snd p)) temps)) (pairs idx).
Proof.
  intros tol temps. induction idx as [|lo [|h rest] IH]; [reflexivity|reflexivity|].
  change (pairs (lo :: h :: rest)) with ((lo, h) :: pairs (h :: rest)).
  change (rows_for tol (lo :: h :: rest) temps) with
    (agg (group tol lo (Some h) temps) :: rows_for tol (h :: rest) temps).
  assert (exists x l, rows_for tol (h :: rest) temps = x :: l) as (x & l & E) by (cbn [rows_for]; eauto).
  rewrite E in *. change (removelast (?a :: x :: l)) with (a :: removelast (x :: l)).
  cbn [map fst snd]. rewrite IH. reflexivity.
Qed.

(* one row per meter day: day j is closed by day j+1, the last day by its start + 24 h *)
Lemma hourly_path_rows_l : forall billing tol midx temps out,
  hourly_path billing tol midx temps = TRows out -> midx <> [] ->
  out = apply_half billing
          (map (fun p => agg (group tol (fst p) (Some (snd p)) temps)) (pairs (midx ++ [last midx 0 + 1440]))).
Proof.
  intros billing tol midx temps out H Hne. unfold hourly_path in H.
  destruct midx as [|m rest]; [congruence|]. cbv zeta in H.
  rewrite rows_for_pairs in H.
  destruct (forallb _ _) in H; [discriminate|]. injection H as <-. reflexivity.
Qed.

Lemma pairs_length_app1 : forall l x, l <> [] -> length (pairs (l ++ [x])) = length l.
Proof.
  induction l as [|a [|b l] IH]; intros x Hne; [congruence|reflexivity|].
  change ((a :: b :: l) ++ [x]) with (a :: (b :: l) ++ [x]).
  assert (exists y t, (b :: l) ++ [x] = y :: t) as (y & t & E) by (cbn [app]; eauto).
  rewrite E. change (pairs (a :: y :: t)) with ((a, y) :: pairs (y :: t)). rewrite <- E.
  cbn [length]. rewrite IH by discriminate. reflexivity.
Qed.

Lemma hourly_path_length_l : forall billing tol midx temps out,
  hourly_path billing tol midx temps = TRows out -> length out = length midx.
Proof.
  intros billing tol midx temps out H. destruct midx as [|m rest] eqn:E.
  - unfold hourly_path in H. injection H as <-. reflexivity.
  - rewrite <- E in *. assert (midx <> []) as Hne by (rewrite E; discriminate).
    rewrite (hourly_path_rows_l _ _ _ _ _ H Hne).
    assert (forall rows, length (apply_half billing rows) = length rows) as Hl.
    { intros rows. unfold apply_half. destruct (median2 _) as [m2|]; [|reflexivity].
      destruct (2 <? m2); [apply map_length|reflexivity]. }
    rewrite Hl, map_length. apply pairs_length_app1. exact Hne.
Qed.

(* ------------------------------------------------------------------------------------------------ *)
(* 5. offset invariance: only the timing of the feed relative to the meter days matters              *)
(* ------------------------------------------------------------------------------------------------ *)

Definition shift (d : Z) (rs : list reading) : list reading := map (fun r => (stamp r + d, rval r)) rs.

Lemma group_shift : forall tol lo hi d temps,
  group tol (lo + d) (option_map (fun h => h + d) hi) (shift d temps) = shift d (group tol lo hi temps).
Proof.
  intros tol lo hi d temps. unfold group, shift. induction temps as [|r temps IH]; [reflexivity|].
  cbn [map filter]. rewrite IH.
  assert (in_group tol (lo + d) (option_map (fun h => h + d) hi) (stamp r + d, rval r) = in_group tol lo hi r) as ->.
  { unfold in_group, stamp. cbn [fst]. f_equal; [f_equal|].
    - destruct (lo <=? fst r) eqn:E; [apply Z.leb_le in E; apply Z.leb_le; lia|apply Z.leb_gt in E; apply Z.leb_gt; lia].
    - destruct hi as [h|]; cbn [option_map]; [|reflexivity].
      destruct (fst r <? h) eqn:E; [apply Z.ltb_lt in E; apply Z.ltb_lt; lia|apply Z.ltb_ge in E; apply Z.ltb_ge; lia].
    - destruct tol as [t|]; [|reflexivity]. f_equal. lia. }
  destruct (in_group tol lo hi r); reflexivity.
Qed.

Lemma present_shift : forall d g, present (shift d g) = present g.
Proof. intros d. induction g as [|r g IH]; [reflexivity|]. cbn [shift map present flat_map rval snd] in *. unfold present, shift in IH. rewrite IH. reflexivity. Qed.

Lemma agg_shift : forall d g, agg (shift d g) = agg g.
Proof. intros. unfold agg. rewrite present_shift. unfold zlen, shift. rewrite map_length. reflexivity. Qed.

Lemma rows_for_shift : forall tol d temps idx,
  rows_for tol (map (fun x => x + d) idx) (shift d temps) = rows_for tol idx temps.
Proof.
  intros tol d temps. induction idx as [|lo rest IH]; [reflexivity|].
  cbn [map rows_for]. rewrite IH. f_equal.
  destruct rest as [|h rest']; cbn [map].
  - pose proof (group_shift tol lo None d temps) as H. cbn [option_map] in H. rewrite H. apply agg_shift.
  - pose proof (group_shift tol lo (Some h) d temps) as H. cbn [option_map] in H. rewrite H. apply agg_shift.
Qed.

Lemma last_map_add : forall d l a, last (map (fun x => x + d) (a :: l)) 0 = last (a :: l) 0 + d.
Proof.
  intros d. induction l as [|b l IHl]; intros a; [reflexivity|].
  change (last (map (fun x => x + d) (a :: b :: l)) 0) with (last (map (fun x => x + d) (b :: l)) 0).
  change (last (a :: b :: l) 0) with (last (b :: l) 0). apply IHl.
Qed.

(* offset_invariance: moving the meter days and the feed together (another UTC offset of the site) changes nothing *)
Lemma hourly_path_shift_l : forall billing tol d midx temps,
  hourly_path billing tol (map (fun x => x + d) midx) (shift d temps) = hourly_path billing tol midx temps.
Proof.
  intros billing tol d midx temps. destruct midx as [|m rest]; [reflexivity|].
  assert (map (fun x => x + d) (m :: rest) ++ [last (map (fun x => x + d) (m :: rest)) 0 + 1440] =
          map (fun x => x + d) ((m :: rest) ++ [last (m :: rest) 0 + 1440])) as E.
  { rewrite last_map_add, map_app. f_equal. cbn [map]. f_equal. lia. }
  unfold hourly_path.
  change (map (fun x => x + d) (m :: rest)) with (m + d :: map (fun x => x + d) rest) at 1.
  cbv iota zeta. rewrite E, rows_for_shift. reflexivity.
Qed.

(* ------------------------------------------------------------------------------------------------ *)
(* 6. other feeds: the instantaneous bucket mean                                                     *)
(* ------------------------------------------------------------------------------------------------ *)

Lemma inst_sum_sumQ : forall lo hi ivs, (inst_sum lo hi ivs == sumQ (map (inst_contrib lo hi) ivs))%Q.
Proof. intros. unfold inst_sum. apply qsum_sumQ. Qed.

(* aligned readings of one common length: the minutes of the day hold step minutes of each present reading *)
Lemma inst_sum_regular : forall lo hi ivs step, lo <= hi -> no_straddle lo hi ivs ->
  (forall iv, In iv ivs -> inside lo hi iv = true -> ihi iv = ilo iv + step) ->
  (inst_sum lo hi ivs == inject_Z step * readings_in lo hi ivs)%Q.
Proof.
  intros lo hi ivs step Hle. rewrite inst_sum_sumQ. unfold readings_in.
  induction ivs as [|iv ivs IH]; intros Hn Hreg; [cbn; ring|].
  cbn [map sumQ filter].
  rewrite (IH (no_straddle_tail _ _ _ _ Hn)) by (intros x Hx; apply Hreg; right; exact Hx).
  destruct (Hn iv (or_introl eq_refl)) as [Hlen Hpos].
  destruct (inside lo hi iv) eqn:Ein.
  - unfold inside in Ein. apply andb_true_iff in Ein. destruct Ein as [E1 E2]. apply Z.leb_le in E1, E2.
    cbn [map sumQ]. unfold inst_contrib. pose proof (Hreg iv (or_introl eq_refl)) as Hs.
    destruct (ival iv) as [v|]; cbn [oq0].
    + rewrite overlap_inside by lia. rewrite Hs by (unfold inside; apply andb_true_iff; split; apply Z.leb_le; lia).
      replace (ilo iv + step - ilo iv) with step by lia. ring.
    + ring.
  - assert (inst_contrib lo hi iv == 0)%Q as ->; [|ring].
    unfold inst_contrib. destruct (ival iv) as [v|]; [|reflexivity].
    unfold inside in Ein. apply andb_false_iff in Ein.
    rewrite overlap_disjoint; [change (inject_Z 0) with 0%Q; ring|].
    destruct Hpos as [H|[H|[H1 H2]]]; [left; exact H|right; exact H|].
    destruct Ein as [E|E]; [apply Z.leb_gt in E|apply Z.leb_gt in E]; lia.
Qed.

Definition n_present_in (lo hi : Z) (ivs : list interval) : Z :=
  zlen (filter (fun iv => is_some (ival iv)) (filter (inside lo hi) ivs)).

Lemma bucket_count_regular : forall lo hi ivs step, lo <= hi -> no_straddle lo hi ivs ->
  (forall iv, In iv ivs -> inside lo hi iv = true -> ihi iv = ilo iv + step) ->
  bucket_count lo hi ivs = step * n_present_in lo hi ivs.
Proof.
  intros lo hi ivs step Hle Hn Hreg. rewrite (bucket_count_inside lo hi ivs Hle Hn). unfold n_present_in, zlen.
  assert (forall l, (forall iv, In iv l -> ihi iv = ilo iv + step) ->
            zsum (map present_len l) = step * Z.of_nat (length (filter (fun iv => is_some (ival iv)) l))) as H.
  { induction l as [|iv l IH]; intros Hl; [cbn; lia|].
    cbn [map zsum fold_right filter]. fold (zsum (map present_len l)).
    rewrite IH by (intros x Hx; apply Hl; right; exact Hx).
    unfold present_len, ilen. rewrite (Hl iv (or_introl eq_refl)).
    destruct (is_some (ival iv)); cbn [length]; lia. }
  apply H. intros iv Hiv. apply filter_In in Hiv. apply Hreg; tauto.
Qed.

(* the bucket mean of an aligned regular feed is the plain mean of the readings present in the day *)
Lemma inst_mean_regular_l : forall lo hi ivs step, lo <= hi -> 0 < step -> no_straddle lo hi ivs ->
  (forall iv, In iv ivs -> inside lo hi iv = true -> ihi iv = ilo iv + step) ->
  0 < n_present_in lo hi ivs ->
  oq_eq (inst_mean lo hi ivs) (Some (readings_in lo hi ivs / inject_Z (n_present_in lo hi ivs))%Q).
Proof.
  intros lo hi ivs step Hle Hstep Hn Hreg Hk. unfold inst_mean.
  rewrite (bucket_count_regular lo hi ivs step Hle Hn Hreg).
  destruct (step * n_present_in lo hi ivs =? 0) eqn:E; [apply Z.eqb_eq in E; nia|].
  cbn [oq_eq]. rewrite (inst_sum_regular lo hi ivs step Hle Hn Hreg). rewrite inject_Z_mult.
  field. split; apply inject_Z_nonzero; lia.
Qed.

(* the coverage of such a day is the share of present readings among the slots of the day *)
Lemma coverage_regular_l : forall lo hi ivs step, lo < hi -> no_straddle lo hi ivs ->
  (forall iv, In iv ivs -> inside lo hi iv = true -> ihi iv = ilo iv + step) ->
  (coverage lo hi ivs false == inject_Z (step * n_present_in lo hi ivs) / inject_Z (hi - lo))%Q.
Proof.
  intros lo hi ivs step Hlt Hn Hreg. rewrite coverage_day.
  rewrite (bucket_count_regular lo hi ivs step) by (try lia; assumption). reflexivity.
Qed.

(* the class' value: as the code is, the mean is divided by the coverage; repaired, it is the mean itself *)
Lemma temp_value_l : forall scale v c,
  temp_value scale v c =
  if qltb half c then (if scale then option_map (fun x => (x / c)%Q) v else v) else None.
Proof.
  intros scale v c. unfold temp_value. destruct (qltb half c); [|reflexivity].
  destruct scale; [reflexivity|]. destruct v; reflexivity.
Qed.

Lemma inst_rows_of_spec : forall ivs bk,
  map (fun r => (d_lo r, d_hi r, d_val r)) (inst_rows_of ivs bk) =
  map (fun p => (fst p, snd p, inst_mean (fst p) (snd p) ivs)) bk.
Proof.
  induction bk as [|[lo hi] bk IH]; [reflexivity|].
  cbn [inst_rows_of map d_lo d_hi d_val fst snd]. rewrite IH. reflexivity.
Qed.

(* ------------------------------------------------------------------------------------------------ *)
(* 7. the zero rule of _set_data                                                                     *)
(* ------------------------------------------------------------------------------------------------ *)

(* temperature cells are never altered by the zero rule, whatever the fuel ... *)
Lemma zero_rule_keeps_temperature_l : forall elec fr, temps_of (set_data elec fr) = temps_of fr.
Proof.
  intros [|] fr; [|reflexivity]. unfold set_data, temps_of. rewrite map_map. apply map_ext. intros r. reflexivity.
Qed.

(* ... so the temperature side of the classes does not depend on the fuel *)
Lemma class_hourly_fuel_l : forall elec billing tol midx fr,
  class_hourly elec billing tol midx fr = hourly_path billing tol midx (temps_of fr).
Proof. intros. unfold class_hourly. rewrite zero_rule_keeps_temperature_l. reflexivity. Qed.

Lemma class_subhourly_fuel_l : forall elec scale exact fr bs,
  class_subhourly elec scale exact fr bs = subhourly_path scale exact (temps_of fr) bs.
Proof. intros. unfold class_subhourly. rewrite zero_rule_keeps_temperature_l. reflexivity. Qed.

(* the usage column: untouched for gas (a usage of exactly 0 stays 0), zero -> NaN for electricity - the rule of
   Model/Resample.v's zero_to_nan, and nothing else *)
Lemma zero_rule_usage_l : forall elec fr, usage_of (set_data elec fr) = zero_to_nan elec (usage_of fr).
Proof.
  intros [|] fr; [|reflexivity]. unfold set_data, usage_of, zero_to_nan. rewrite !map_map. apply map_ext.
  intros r. unfold zero_cell, f_obs, f_stamp, stamp, rval. cbn [fst snd]. destruct (snd (fst r)); reflexivity.
Qed.

Lemma zero_rule_keeps_stamps_l : forall elec fr, map f_stamp (set_data elec fr) = map f_stamp fr.
Proof. intros [|] fr; [|reflexivity]. unfold set_data. rewrite map_map. apply map_ext. intros r. reflexivity. Qed.
