(* Lemmas about Model/Gate.v (C04). *)
From Coq Require Import ZArith List Bool Lia.
From V Require Import Model.Gate.
Import ListNotations.
Open Scope Z_scope.

Lemma nonempty_false : forall (A : Type) (l : list A), nonempty l = false <-> l = [].
Proof. intros A [|a l]; cbn; split; congruence. Qed.
Lemma nonempty_true : forall (A : Type) (l : list A), nonempty l = true <-> l <> [].
Proof. intros A [|a l]; cbn; split; congruence. Qed.

Lemma family_eqb_refl : forall f, family_eqb f f = true.
Proof. destruct f; reflexivity. Qed.
Lemma family_eqb_eq : forall f g, family_eqb f g = true <-> f = g.
Proof. destruct f, g; cbn; split; congruence. Qed.

Section GateProofs.
  Variable poor : dobj -> bool.

  (* ---- fit ---- *)

  Lemma fit_err_keeps_state : forall f s d i e,
    snd (fit poor f s d i) = Err e -> fst (fit poor f s d i) = s.
  Proof.
    intros f s d i e. unfold fit.
    destruct (negb (is_baseline_of f (d_kind d))); [reflexivity|].
    destruct (nonempty (d_dq d) && negb i); [reflexivity|].
    destruct (family_eqb f Hourly && m_ghi s && negb (d_ghi d)); [reflexivity|].
    cbn. discriminate.
  Qed.

  Lemma fit_err_state : forall f s d i e, snd (fit poor f s d i) = Err e ->
    fst (fit poor f s d i) = s \/ fitted (fst (fit poor f s d i)) = false.
  Proof.
    intros f s d i e. unfold fit.
    destruct (negb (is_baseline_of f (d_kind d))); [left; reflexivity|].
    destruct (nonempty (d_dq d) && negb i); [left; reflexivity|].
    destruct (family_eqb f Hourly && m_ghi s && negb (d_ghi d)); [left; reflexivity|].
    cbn. discriminate.
  Qed.

  Lemma fit_gate_l : forall f s d i, is_baseline_of f (d_kind d) = true ->
    (snd (fit poor f s d i) = Err DataSufficiency <-> (d_dq d <> [] /\ i = false)) /\
    (snd (fit poor f s d i) = Fitted \/ snd (fit poor f s d i) = Err DataSufficiency \/
     (f = Hourly /\ m_ghi s = true /\ d_ghi d = false /\ snd (fit poor f s d i) = Err ValueMissingFeature)).
  Proof.
    intros f s d i Hb. unfold fit. rewrite Hb. cbn [negb].
    destruct (nonempty (d_dq d)) eqn:Hq; destruct i; cbn [negb andb].
    - apply nonempty_true in Hq.
      destruct (family_eqb f Hourly && m_ghi s && negb (d_ghi d)) eqn:Hg; cbn [snd].
      + split; [split; [discriminate | intros [_ H]; discriminate]|].
        right; right. apply andb_prop in Hg. destruct Hg as [Hg Hg3]. apply andb_prop in Hg.
        destruct Hg as [Hg1 Hg2]. apply family_eqb_eq in Hg1. apply negb_true_iff in Hg3. tauto.
      + split; [split; [discriminate | intros [_ H]; discriminate] | left; reflexivity].
    - apply nonempty_true in Hq. cbn [snd]. split; [tauto | right; left; reflexivity].
    - apply nonempty_false in Hq.
      destruct (family_eqb f Hourly && m_ghi s && negb (d_ghi d)) eqn:Hg; cbn [snd].
      + split; [split; [discriminate | intros [H _]; congruence]|].
        right; right. apply andb_prop in Hg. destruct Hg as [Hg Hg3]. apply andb_prop in Hg.
        destruct Hg as [Hg1 Hg2]. apply family_eqb_eq in Hg1. apply negb_true_iff in Hg3. tauto.
      + split; [split; [discriminate | intros [H _]; congruence] | left; reflexivity].
    - apply nonempty_false in Hq.
      destruct (family_eqb f Hourly && m_ghi s && negb (d_ghi d)) eqn:Hg; cbn [snd].
      + split; [split; [discriminate | intros [H _]; congruence]|].
        right; right. apply andb_prop in Hg. destruct Hg as [Hg Hg3]. apply andb_prop in Hg.
        destruct Hg as [Hg1 Hg2]. apply family_eqb_eq in Hg1. apply negb_true_iff in Hg3. tauto.
      + split; [split; [discriminate | intros [H _]; congruence] | left; reflexivity].
  Qed.

  Lemma fit_wrong_type_l : forall f s d i, is_baseline_of f (d_kind d) = false ->
    fit poor f s d i = (s, Err TypeErr).
  Proof. intros f s d i H. unfold fit. rewrite H. reflexivity. Qed.

  Lemma fit_ok_state : forall f s d i, snd (fit poor f s d i) = Fitted ->
    let s' := fst (fit poor f s d i) in
    fitted s' = true /\ m_tz s' = d_tz d /\
    m_dq s' = d_dq d ++ (if poor d then [POOR_FIT] else []) /\
    (d_dq d = [] \/ i = true).
  Proof.
    intros f s d i. unfold fit.
    destruct (negb (is_baseline_of f (d_kind d))); [discriminate|].
    destruct (nonempty (d_dq d) && negb i) eqn:Hq; [discriminate|].
    destruct (family_eqb f Hourly && m_ghi s && negb (d_ghi d)); [discriminate|].
    cbn. intros _. repeat split.
    apply andb_false_iff in Hq. destruct Hq as [Hq|Hq].
    - left. apply nonempty_false. exact Hq.
    - right. apply negb_false_iff. exact Hq.
  Qed.

  (* ---- predict ---- *)

  Definition guards_ok (f : family) (s : mstate) (d : dobj) : Prop :=
    fitted s = true /\ is_data_of f (d_kind d) = true /\ m_tz s = d_tz d /\
    (f = Hourly -> m_ghi s = true -> d_ghi d = true).

  Lemma is_data_has_attrs : forall f k, is_data_of f k = true -> has_attrs k = true.
  Proof. intros f [g|g|]; cbn; congruence. Qed.

  Lemma predict_gate_l : forall f s d i, guards_ok f s d ->
    (predict f s d i = Err Disqualified <-> (m_dq s <> [] /\ i = false)) /\
    (predict f s d i = Frame <-> (m_dq s = [] \/ i = true)).
  Proof.
    intros f s d i [Hf [Ht [Hz Hg]]].
    pose proof (is_data_has_attrs _ _ Ht) as Ha.
    assert (Hzb : (m_tz s =? d_tz d) = true) by (apply Z.eqb_eq; exact Hz).
    destruct f; unfold predict; rewrite Hf, Ht, Hzb; cbn [negb]; try rewrite Ha; cbn [negb].
    - destruct (nonempty (m_dq s)) eqn:Hq; destruct i; cbn [negb andb];
        [apply nonempty_true in Hq | apply nonempty_true in Hq | apply nonempty_false in Hq | apply nonempty_false in Hq];
        (split; split; try discriminate; try tauto; try (intros [H|H]; congruence); try (intros [H1 H2]; congruence)).
    - destruct (nonempty (m_dq s)) eqn:Hq; destruct i; cbn [negb andb];
        [apply nonempty_true in Hq | apply nonempty_true in Hq | apply nonempty_false in Hq | apply nonempty_false in Hq];
        (split; split; try discriminate; try tauto; try (intros [H|H]; congruence); try (intros [H1 H2]; congruence)).
    - assert (Hghi : (m_ghi s && negb (d_ghi d)) = false).
      { destruct (m_ghi s) eqn:E; [|reflexivity]. rewrite (Hg eq_refl eq_refl). reflexivity. }
      rewrite Hghi.
      destruct (nonempty (m_dq s)) eqn:Hq; destruct i; cbn [negb andb];
        [apply nonempty_true in Hq | apply nonempty_true in Hq | apply nonempty_false in Hq | apply nonempty_false in Hq];
        (split; split; try discriminate; try tauto; try (intros [H|H]; congruence); try (intros [H1 H2]; congruence)).
  Qed.

  (* a frame is returned only behind every guard *)
  Lemma frame_only_if_l : forall f s d i, predict f s d i = Frame ->
    guards_ok f s d /\ (m_dq s = [] \/ i = true).
  Proof.
    intros f s d i. unfold guards_ok.
    destruct f; unfold predict.
    - destruct (fitted s); cbn [negb]; [|discriminate].
      destruct (nonempty (m_dq s) && negb i) eqn:Hq; [discriminate|].
      destruct (has_attrs (d_kind d)); cbn [negb]; [|discriminate].
      destruct (m_tz s =? d_tz d) eqn:Hz; cbn [negb]; [|discriminate].
      destruct (is_data_of Daily (d_kind d)); cbn [negb]; [|discriminate].
      intros _. apply Z.eqb_eq in Hz. repeat split; try assumption; try discriminate.
      apply andb_false_iff in Hq. destruct Hq as [Hq|Hq];
        [left; apply nonempty_false; exact Hq | right; apply negb_false_iff; exact Hq].
    - destruct (fitted s); cbn [negb]; [|discriminate].
      destruct (nonempty (m_dq s) && negb i) eqn:Hq; [discriminate|].
      destruct (is_data_of Billing (d_kind d)); cbn [negb]; [|discriminate].
      destruct (m_tz s =? d_tz d) eqn:Hz; cbn [negb]; [|discriminate].
      intros _. apply Z.eqb_eq in Hz. repeat split; try assumption; try discriminate.
      apply andb_false_iff in Hq. destruct Hq as [Hq|Hq];
        [left; apply nonempty_false; exact Hq | right; apply negb_false_iff; exact Hq].
    - destruct (fitted s); cbn [negb]; [|discriminate].
      destruct (has_attrs (d_kind d)); cbn [negb]; [|discriminate].
      destruct (m_ghi s && negb (d_ghi d)) eqn:Hg; [discriminate|].
      destruct (m_tz s =? d_tz d) eqn:Hz; cbn [negb]; [|discriminate].
      destruct (nonempty (m_dq s) && negb i) eqn:Hq; [discriminate|].
      destruct (is_data_of Hourly (d_kind d)); cbn [negb]; [|discriminate].
      intros _. apply Z.eqb_eq in Hz. repeat split; try assumption.
      + intros _ Hm. rewrite Hm in Hg. cbn in Hg. apply negb_false_iff in Hg. exact Hg.
      + apply andb_false_iff in Hq. destruct Hq as [Hq|Hq];
          [left; apply nonempty_false; exact Hq | right; apply negb_false_iff; exact Hq].
  Qed.

  Lemma never_predicts_when_bad_l : forall f s d i,
    fitted s = false \/ is_data_of f (d_kind d) = false \/ m_tz s <> d_tz d ->
    exists e, predict f s d i = Err e.
  Proof.
    intros f s d i H.
    destruct (predict f s d i) eqn:E.
    - apply frame_only_if_l in E. destruct E as [[H1 [H2 [H3 _]]] _].
      destruct H as [H|[H|H]]; congruence.
    - exfalso. destruct f; unfold predict in E;
        repeat match type of E with (if ?c then _ else _) = _ => destruct c end; discriminate.
    - exists e. reflexivity.
  Qed.

  (* ---- storage ---- *)

  Lemma gate_survives_storage_l : forall f s d i, fitted s = true ->
    predict f (reload s) d i = predict f s d i /\
    m_dq (reload s) = m_dq s /\ m_tz (reload s) = m_tz s /\ fitted (reload s) = true.
  Proof.
    intros f s d i Hf. unfold reload. split; [|repeat split].
    destruct f; unfold predict; cbn [fitted m_dq m_tz m_ghi]; rewrite Hf; reflexivity.
  Qed.

  (* ---- histories ---- *)

  (* the model object's disqualifications are exactly those of the data it was last fitted on,
     plus the poor-fit one *)
  Definition Inv (s : mstate) : Prop :=
    fitted s = false \/
    exists d, m_dq s = d_dq d ++ (if poor d then [POOR_FIT] else []) /\ m_tz s = d_tz d.

  Lemma step_inv : forall f s o, Inv s -> Inv (fst (step poor f s o)).
  Proof.
    intros f s o H. destruct o as [d i|d i|]; cbn [step].
    - destruct (fit poor f s d i) as [s' r] eqn:E. cbn [fst].
      destruct r as [| |e].
      + assert (Hs : snd (fit poor f s d i) = Frame) by (rewrite E; reflexivity).
        exfalso. unfold fit in Hs.
        repeat match type of Hs with snd (if ?c then _ else _) = _ => destruct c end; discriminate.
      + assert (Hs : snd (fit poor f s d i) = Fitted) by (rewrite E; reflexivity).
        pose proof (fit_ok_state f s d i Hs) as Hok. rewrite E in Hok. cbn [fst] in Hok.
        destruct Hok as [_ [H2 [H3 _]]]. right. exists d. split; assumption.
      + assert (Hs : snd (fit poor f s d i) = Err e) by (rewrite E; reflexivity).
        apply fit_err_state in Hs. rewrite E in Hs. cbn [fst] in Hs.
        destruct Hs as [->|Hs]; [exact H | left; exact Hs].
    - exact H.
    - destruct (fitted s) eqn:Hf; cbn [fst]; [|exact H].
      destruct H as [H|[d [H1 H2]]]; [congruence|]. right. exists d. split; assumption.
  Qed.

  Lemma run_inv : forall f ops s, Inv s -> Inv (fst (run poor f s ops)).
  Proof.
    intros f. induction ops as [|o ops IH]; intros s H; [exact H|].
    cbn [run]. destruct (step poor f s o) as [s' r] eqn:E.
    assert (Hs' : Inv s') by (pose proof (step_inv f s o H) as X; rewrite E in X; exact X).
    specialize (IH s' Hs'). destruct (run poor f s' ops) as [s'' rs]. exact IH.
  Qed.

  Lemma run_app : forall f ops1 ops2 s,
    run poor f s (ops1 ++ ops2) =
    let '(s1, r1) := run poor f s ops1 in
    let '(s2, r2) := run poor f s1 ops2 in (s2, r1 ++ r2).
  Proof.
    intros f. induction ops1 as [|o ops1 IH]; intros ops2 s.
    - cbn [app run]. destruct (run poor f s ops2); reflexivity.
    - cbn [app run]. destruct (step poor f s o) as [s' r]. rewrite IH.
      destruct (run poor f s' ops1) as [s1 r1]. destruct (run poor f s1 ops2) as [s2 r2]. reflexivity.
  Qed.

  (* whatever was done before with the object (fits of other meters, predictions, store/load),
     a prediction is handed out only behind every guard, by a state that still carries the
     disqualifications of the data it was last fitted on *)
  Lemma history_frame_guarded_l : forall f g ops d i,
    let s := fst (run poor f (unfitted g) ops) in
    snd (step poor f s (OPredict d i)) = Some Frame ->
    guards_ok f s d /\ (m_dq s = [] \/ i = true) /\
    exists d0, m_dq s = d_dq d0 ++ (if poor d0 then [POOR_FIT] else []) /\ m_tz s = d_tz d0.
  Proof.
    intros f g ops d i s H. cbn [step snd] in H. injection H as H.
    pose proof (frame_only_if_l f s d i H) as [Hg Hq]. split; [exact Hg|]. split; [exact Hq|].
    assert (HI : Inv s) by (apply run_inv; left; reflexivity).
    destruct HI as [HI|HI]; [destruct Hg as [Hf _]; congruence | exact HI].
  Qed.
End GateProofs.
