(* Lemmas about Model/MetricsReport.v (exact rationals; no axioms). *)
From Coq Require Import ZArith QArith Qabs List Bool Lia Lqa.
From V Require Import Model.Metrics Generated.MetricsGen Model.MetricsReport Proofs.MetricsProofs.
Import ListNotations.
Open Scope Q_scope.

(* every entry (field, numerator, denominator) of the table read from the source denotes, in the model, exactly the
   value the model reports for that field *)
Lemma ratio_table_entries : forall pl d p mn np,
  let m := baseline_p pl d p mn in
  forall e, In e [(Fnmae, NMae, DObservedMean); (Fpnmae, NMae, DObservedIqr); (Fnmbe, NMbe, DObservedMean); (Fpnmbe, NMbe, DObservedIqr);
                  (Fcvrmse, NRmse, DObservedMean); (Fcvrmse_adj, NRmseAdj, DObservedMean); (Fcvrmse_autocorr_adj, NRmseAutocorrAdj, DObservedMean);
                  (Fpnrmse, NRmse, DObservedIqr); (Fpnrmse_adj, NRmseAdj, DObservedIqr); (Fpnrmse_autocorr_adj, NRmseAutocorrAdj, DObservedIqr)] ->
  ratio_entry_value pl m np p mn e = ratio_field_value pl m np p mn (fst (fst e)).
Proof.
  intros pl d p mn np m e H. cbn [In] in H.
  repeat (destruct H as [<-|H]; [reflexivity|]). contradiction.
Qed.

Lemma tsu_spec : forall f M E t neg s n m np neg' s',
  total_savings_uncertainty f M E t (Root neg s) n m np = Root neg' s' ->
  (0 < m)%Z /\ 0 < np /\
  s' == sqr (freq_factor f M * E * t) * s * (inject_Z n / (inject_Z m * np) * (1 + gen_approx_const / np)) /\
  neg' = xorb neg (Qltb (freq_factor f M * E * t) 0).
Proof.
  intros f M E t neg s n m np neg' s' H. unfold total_savings_uncertainty in H.
  destruct ((0 <? m)%Z) eqn:Em; [|discriminate]. destruct (Qltb 0 np) eqn:En; [|discriminate]. cbn [andb] in H.
  injection H as <- <-. apply Z.ltb_lt in Em. apply Qltb_true in En.
  split; [exact Em|]. split; [exact En|]. split; [apply Qred_correct|reflexivity].
Qed.

Lemma tsu_undefined : forall f M E t cv n m np,
  total_savings_uncertainty f M E t cv n m np = Undef <->
  ((forall neg s, cv <> Root neg s) \/ (m <= 0)%Z \/ np <= 0).
Proof.
  intros f M E t cv n m np. unfold total_savings_uncertainty. destruct cv as [q|neg s| | |b].
  - split; [intros _; left; intros; discriminate|reflexivity].
  - destruct ((0 <? m)%Z) eqn:Em; destruct (Qltb 0 np) eqn:En; cbn [andb].
    + apply Z.ltb_lt in Em. apply Qltb_true in En. split; [discriminate|]. intros [H|[H|H]]; [exfalso; apply (H neg s); reflexivity|lia|lra].
    + apply Qltb_false in En. split; [intros _; right; right; exact En|reflexivity].
    + apply Z.ltb_ge in Em. split; [intros _; right; left; exact Em|reflexivity].
    + apply Z.ltb_ge in Em. split; [intros _; right; left; exact Em|reflexivity].
  - split; [intros _; left; intros; discriminate|reflexivity].
  - split; [intros _; left; intros; discriminate|reflexivity].
  - split; [intros _; left; intros; discriminate|reflexivity].
Qed.

(* fsu * savings = total_savings_uncertainty (squared, with the sign) *)
Lemma fsu_spec : forall neg s sv neg' s', fsu (Root neg s) sv = Root neg' s' ->
  ~ sv == 0 /\ s' * (sv * sv) == s /\ neg' = xorb neg (Qltb sv 0).
Proof.
  intros neg s sv neg' s' H. unfold fsu in H. destruct (Qeq_bool sv 0) eqn:Z.
  - destruct (Qeq_bool s 0); discriminate.
  - injection H as <- <-. apply Qeq_bool_false in Z. split; [exact Z|]. split; [|reflexivity].
    rewrite Qred_correct. unfold sqr. field. exact Z.
Qed.

Lemma fsu_zero_savings : forall neg s sv, sv == 0 -> fsu (Root neg s) sv = if Qeq_bool s 0 then NaN else Inf neg.
Proof. intros neg s sv H. unfold fsu. apply Qeq_bool_iff in H. rewrite H. reflexivity. Qed.

(* predicted_data_point_unc^2 * m = total_savings_uncertainty^2 *)
Lemma point_unc_spec : forall neg s m neg' s', predicted_data_point_unc (Root neg s) m = Root neg' s' ->
  (0 < m)%Z /\ s' * inject_Z m == s /\ neg' = neg.
Proof.
  intros neg s m neg' s' H. unfold predicted_data_point_unc in H. destruct ((0 <? m)%Z) eqn:E; [|discriminate].
  injection H as <- <-. apply Z.ltb_lt in E. split; [exact E|]. split; [|reflexivity].
  rewrite Qred_correct. field. intros Z. assert (P : 0 < inject_Z m) by (replace 0 with (inject_Z 0) by reflexivity; rewrite <- Zlt_Qlt; exact E).
  rewrite Z in P. apply (Qlt_irrefl 0). exact P.
Qed.

(* M: only rows with two finite cells count, every counted month is a month of such a row, and there are at most
   twelve of them when the months are calendar months *)
Lemma finite_months_in : forall rows months x, In x (finite_months rows months) -> In x months.
Proof.
  induction rows as [|[[a|] [b|]] rows IH]; intros [|m ms] x H; cbn [finite_months] in H; try contradiction.
  - destruct H as [<-|H]; [left; reflexivity|right; apply IH; exact H].
  - right. apply IH. exact H.
  - right. apply IH. exact H.
  - right. apply IH. exact H.
Qed.

Lemma month_count_le_12 : forall rows months, (forall x, In x months -> (1 <= x <= 12)%Z) ->
  (0 <= month_count rows months <= 12)%Z.
Proof.
  intros rows months H. unfold month_count. split; [lia|].
  assert (L : (length (nodup Z.eq_dec (finite_months rows months)) <= length months_1_12)%nat).
  { apply NoDup_incl_length; [apply NoDup_nodup|]. intros x Hx. apply nodup_In in Hx. apply finite_months_in in Hx.
    specialize (H x Hx). unfold months_1_12. cbn [In].
    assert (x = 1 \/ x = 2 \/ x = 3 \/ x = 4 \/ x = 5 \/ x = 6 \/ x = 7 \/ x = 8 \/ x = 9 \/ x = 10 \/ x = 11 \/ x = 12)%Z by lia.
    intuition. }
  cbn [months_1_12 length] in L. lia.
Qed.

Lemma finite_months_nonfinite : forall a r b ma mr mb, nonfinite r -> length a = length ma ->
  finite_months (a ++ r :: b) (ma ++ mr :: mb) = finite_months (a ++ b) (ma ++ mb).
Proof.
  induction a as [|[[x|] [y|]] a IH]; intros [o q] b [|m ma] mr mb Hr Hl; cbn [length] in Hl; try discriminate.
  - cbn [app finite_months]. destruct Hr as [Hr|Hr]; cbn in Hr; subst; [reflexivity|destruct o; reflexivity].
  - cbn [app finite_months]. f_equal. apply IH; [exact Hr|lia].
  - cbn [app finite_months]. apply IH; [exact Hr|lia].
  - cbn [app finite_months]. apply IH; [exact Hr|lia].
  - cbn [app finite_months]. apply IH; [exact Hr|lia].
Qed.
