(* C02 on the life-cycle machine of Model/Gate.v (shared with C04): predict has no effect on the model object;
   after any history without a re-fit the outcome of a prediction is the one of the fresh object. *)
From Coq Require Import ZArith List Bool.
From V Require Import Model.Gate Proofs.GateProofs.
Import ListNotations.
Open Scope Z_scope.

Section SideEffects.
  Variable poor : dobj -> bool.

  Lemma gate_predict_pure : forall f s d i, fst (step poor f s (OPredict d i)) = s.
  Proof. reflexivity. Qed.

  Definition no_fit (ops : list op) : bool :=
    forallb (fun o => match o with OFit _ _ => false | _ => true end) ops.

  (* what a prediction depends on *)
  Definition same_model (a b : mstate) : Prop :=
    fitted a = fitted b /\ m_dq a = m_dq b /\ m_tz a = m_tz b /\ m_ghi a = m_ghi b.

  Lemma predict_same_model : forall f a b d i, same_model a b -> predict f a d i = predict f b d i.
  Proof.
    intros f a b d i (H1 & H2 & H3 & H4). unfold predict. rewrite H1, H2, H3, H4. reflexivity.
  Qed.

  Lemma step_no_fit_same_model : forall f s o,
    match o with OFit _ _ => False | _ => True end -> same_model (fst (step poor f s o)) s.
  Proof.
    intros f s o H. destruct o as [d i|d i|]; [contradiction | repeat split |].
    cbn [step]. destruct (fitted s) eqn:E; cbn [fst]; [|repeat split].
    unfold reload, same_model. cbn [fitted m_dq m_tz m_ghi]. rewrite E. repeat split.
  Qed.

  Lemma run_no_fit_same_model : forall f ops s, no_fit ops = true -> same_model (fst (run poor f s ops)) s.
  Proof.
    intros f. induction ops as [|o ops IH]; intros s H; [repeat split|].
    cbn [no_fit forallb] in H. apply andb_prop in H. destruct H as [Ho Hr].
    cbn [run]. destruct (step poor f s o) as [s' r] eqn:E.
    assert (Hs : same_model s' s).
    { pose proof (step_no_fit_same_model f s o) as X. rewrite E in X. apply X. destruct o; [discriminate | exact I | exact I]. }
    specialize (IH s' Hr). destruct (run poor f s' ops) as [s'' rs]. cbn [fst] in *.
    destruct IH as (A1 & A2 & A3 & A4). destruct Hs as (B1 & B2 & B3 & B4).
    repeat split; congruence.
  Qed.

  Lemma gate_history_independent : forall f ops s d i, no_fit ops = true ->
    predict f (fst (run poor f s ops)) d i = predict f s d i.
  Proof. intros. apply predict_same_model, run_no_fit_same_model. assumption. Qed.
End SideEffects.
