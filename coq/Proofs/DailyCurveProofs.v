(* Lemmas about the daily curve (Model/DailyCurve.v) at the real-number instance [RNumOf lo hi],
   for every pair of exp-clip bounds lo <= 0 <= hi.  The theorems of Properties/C11.v are these lemmas. *)
From Coq Require Import Reals Lra Psatz List Bool.
From V Require Import Model.Num Model.NumR Model.DailyCurve.
Import ListNotations.
Local Open Scope R_scope.

(* ------------------------------------------------------------------------------------------ *)
(* Part 1: one side of the curve, as a function of the distance d >= 0 beyond its balance point  *)
(* ------------------------------------------------------------------------------------------ *)

Section Branch.
Variable lo : R.
Hypothesis Hlo : lo <= 0.

(* the (clipped) exponential factor of the smoothed kernel, at distance d beyond the balance point *)
Definition sm (k d : R) : R := exp (Rmax (- (d / k)) lo).

(* load of one side at distance d beyond its balance point:
   beta d when k = 0 (the product beta k vanishes), beta d + beta k (e^(-d/k) - 1) when smoothed *)
Definition branch (beta k d : R) : R := beta * d + beta * k * (sm k d - 1).

Lemma exp_le : forall a b, a <= b -> exp a <= exp b.
Proof.
  intros a b [H|H].
  - left. apply exp_increasing. exact H.
  - right. rewrite H. reflexivity.
Qed.

Lemma sm_pos : forall k d, 0 < sm k d.
Proof. intros. unfold sm. apply exp_pos. Qed.

Lemma sm_le_1 : forall k d, 0 < k -> 0 <= d -> sm k d <= 1.
Proof.
  intros k d Hk Hd. unfold sm. rewrite <- exp_0. apply exp_le.
  apply Rmax_lub; [|exact Hlo].
  assert (0 <= d / k) by (apply Rmult_le_pos; [exact Hd | left; apply Rinv_0_lt_compat; exact Hk]).
  lra.
Qed.

Lemma branch_0 : forall beta k, branch beta k 0 = 0.
Proof.
  intros. unfold branch, sm.
  replace (- (0 / k)) with 0 by (unfold Rdiv; ring).
  rewrite Rmax_left by exact Hlo. rewrite exp_0. ring.
Qed.

Lemma branch_k0 : forall beta d, branch beta 0 d = beta * d.
Proof. intros. unfold branch. ring. Qed.

(* exact remainder against the asymptote  beta (d - k) *)
Lemma branch_remainder : forall beta k d, branch beta k d - beta * (d - k) = beta * k * sm k d.
Proof. intros. unfold branch. ring. Qed.

Lemma sm_unclipped : forall k d, lo <= - (d / k) -> sm k d = exp (- (d / k)).
Proof. intros. unfold sm. rewrite Rmax_left by assumption. reflexivity. Qed.

(* the two clipped exponents of d1 <= d2 *)
Lemma clipped_gap : forall u1 u2, u1 <= u2 ->
  Rmax (- u2) lo <= Rmax (- u1) lo /\ Rmax (- u1) lo - Rmax (- u2) lo <= u2 - u1.
Proof.
  intros u1 u2 H. unfold Rmax.
  destruct (Rle_dec (- u2) lo), (Rle_dec (- u1) lo); lra.
Qed.

Lemma div_le_div : forall k d1 d2, 0 < k -> d1 <= d2 -> d1 / k <= d2 / k.
Proof.
  intros k d1 d2 Hk H. unfold Rdiv. apply Rmult_le_compat_r; [left; apply Rinv_0_lt_compat; exact Hk | exact H].
Qed.

(* key inequality: for a2 <= a1 <= 0,  0 <= e^a1 - e^a2 <= a1 - a2   (only 1 + x <= e^x is used) *)
Lemma exp_gap : forall a1 a2, a2 <= a1 -> a1 <= 0 -> 0 <= exp a1 - exp a2 <= a1 - a2.
Proof.
  intros a1 a2 H21 H1. split.
  - pose proof (exp_le a2 a1 H21). lra.
  - replace (exp a2) with (exp a1 * exp (a2 - a1)) by (rewrite <- exp_plus; f_equal; ring).
    pose proof (Rpower.exp_ineq1_le (a2 - a1)) as Hin.
    pose proof (exp_pos a1) as Hp.
    assert (Hle1 : exp a1 <= 1) by (rewrite <- exp_0; apply exp_le; exact H1).
    (* e^a1 (1 - e^(a2-a1)) <= e^a1 (a1 - a2) <= a1 - a2 *)
    assert (H1' : exp a1 * (1 - exp (a2 - a1)) <= exp a1 * (a1 - a2)).
    { apply Rmult_le_compat_l; lra. }
    assert (H2' : exp a1 * (a1 - a2) <= 1 * (a1 - a2)).
    { apply Rmult_le_compat_r; lra. }
    lra.
Qed.

(* monotone and beta-Lipschitz in the distance *)
Lemma branch_increment : forall beta k d1 d2, 0 <= beta -> 0 <= k -> 0 <= d1 -> d1 <= d2 ->
  0 <= branch beta k d2 - branch beta k d1 <= beta * (d2 - d1).
Proof.
  intros beta k d1 d2 Hb Hk Hd1 Hd.
  destruct Hk as [Hk|Hk].
  2:{ subst k. rewrite !branch_k0. split; [|lra].
      assert (0 <= beta * (d2 - d1)) by (apply Rmult_le_pos; lra). lra. }
  pose proof (div_le_div k d1 d2 Hk Hd) as Hu.
  destruct (clipped_gap (d1 / k) (d2 / k) Hu) as [Ha Hg].
  assert (Ha1 : Rmax (- (d1 / k)) lo <= 0).
  { apply Rmax_lub; [|exact Hlo].
    assert (0 <= d1 / k) by (apply Rmult_le_pos; [exact Hd1 | left; apply Rinv_0_lt_compat; exact Hk]). lra. }
  destruct (exp_gap _ _ Ha Ha1) as [G0 G1].
  fold (sm k d1) in G0, G1. fold (sm k d2) in G0, G1.
  assert (Hkk : k * (d2 / k - d1 / k) = d2 - d1) by (field; lra).
  assert (E : branch beta k d2 - branch beta k d1 = beta * ((d2 - d1) - k * (sm k d1 - sm k d2)))
    by (unfold branch; ring).
  rewrite E.
  assert (Hk1 : 0 <= k * (sm k d1 - sm k d2)) by (apply Rmult_le_pos; lra).
  assert (Hk2 : k * (sm k d1 - sm k d2) <= k * (d2 / k - d1 / k)) by (apply Rmult_le_compat_l; lra).
  split.
  - apply Rmult_le_pos; lra.
  - apply Rmult_le_compat_l; lra.
Qed.

Lemma branch_nonneg : forall beta k d, 0 <= beta -> 0 <= k -> 0 <= d -> 0 <= branch beta k d.
Proof.
  intros beta k d Hb Hk Hd.
  pose proof (branch_increment beta k 0 d Hb Hk (Rle_refl 0) Hd) as [H _].
  rewrite branch_0 in H. lra.
Qed.

Lemma branch_le_line : forall beta k d, 0 <= beta -> 0 <= k -> 0 <= d -> branch beta k d <= beta * d.
Proof.
  intros beta k d Hb Hk Hd.
  pose proof (branch_increment beta k 0 d Hb Hk (Rle_refl 0) Hd) as [_ H].
  rewrite branch_0 in H. lra.
Qed.

(* ------------------------------------------------------------------------------------------ *)
(* Part 2: the whole curve of a 7-vector in closed form                                         *)
(* ------------------------------------------------------------------------------------------ *)

Definition pos (a : R) : R := Rmax a 0.

Lemma pos_nonneg : forall a, 0 <= pos a.
Proof. intros. unfold pos. apply Rmax_r. Qed.
Lemma pos_of_nonneg : forall a, 0 <= a -> pos a = a.
Proof. intros. unfold pos. apply Rmax_left. assumption. Qed.
Lemma pos_of_nonpos : forall a, a <= 0 -> pos a = 0.
Proof. intros. unfold pos. apply Rmax_right. assumption. Qed.

(* closed form: base load + heating side at distance (bp_h - T)+ + cooling side at distance (T - bp_c)+ *)
Definition curve (hbp hbeta hk cbp cbeta ck icpt T : R) : R :=
  icpt + branch hbeta hk (pos (hbp - T)) + branch cbeta ck (pos (T - cbp)).

Section CurveFacts.
Variables hbp hbeta hk cbp cbeta ck icpt : R.
Hypothesis Hord : hbp <= cbp.
Hypothesis Hhb : 0 <= hbeta.
Hypothesis Hcb : 0 <= cbeta.
Hypothesis Hhk : 0 <= hk.
Hypothesis Hck : 0 <= ck.
Notation E := (curve hbp hbeta hk cbp cbeta ck icpt).

Lemma curve_heating_side : forall T, T <= hbp -> E T = icpt + branch hbeta hk (hbp - T).
Proof.
  intros T H. unfold curve. rewrite (pos_of_nonneg (hbp - T)) by lra.
  rewrite (pos_of_nonpos (T - cbp)) by lra. rewrite branch_0. ring.
Qed.

Lemma curve_cooling_side : forall T, cbp <= T -> E T = icpt + branch cbeta ck (T - cbp).
Proof.
  intros T H. unfold curve. rewrite (pos_of_nonpos (hbp - T)) by lra.
  rewrite (pos_of_nonneg (T - cbp)) by lra. rewrite branch_0. ring.
Qed.

Lemma curve_flat : forall T, hbp <= T <= cbp -> E T = icpt.
Proof.
  intros T [H1 H2]. unfold curve. rewrite (pos_of_nonpos (hbp - T)) by lra.
  rewrite (pos_of_nonpos (T - cbp)) by lra. rewrite !branch_0. ring.
Qed.

Lemma curve_ge_base : forall T, icpt <= E T.
Proof.
  intros T. unfold curve.
  pose proof (branch_nonneg hbeta hk (pos (hbp - T)) Hhb Hhk (pos_nonneg _)).
  pose proof (branch_nonneg cbeta ck (pos (T - cbp)) Hcb Hck (pos_nonneg _)).
  lra.
Qed.

Lemma curve_heating_monotone : forall T1 T2, T1 <= T2 -> T2 <= hbp -> E T2 <= E T1.
Proof.
  intros T1 T2 H12 H2. rewrite !curve_heating_side by lra.
  pose proof (branch_increment hbeta hk (hbp - T2) (hbp - T1) Hhb Hhk) as H.
  destruct H; lra.
Qed.

Lemma curve_cooling_monotone : forall T1 T2, cbp <= T1 -> T1 <= T2 -> E T1 <= E T2.
Proof.
  intros T1 T2 H1 H12. rewrite !curve_cooling_side by lra.
  pose proof (branch_increment cbeta ck (T1 - cbp) (T2 - cbp) Hcb Hck) as H.
  destruct H; lra.
Qed.

Lemma pos_gaps : forall T1 T2, T1 <= T2 ->
  pos (hbp - T2) <= pos (hbp - T1) /\ pos (T1 - cbp) <= pos (T2 - cbp) /\
  (pos (hbp - T1) - pos (hbp - T2)) + (pos (T2 - cbp) - pos (T1 - cbp)) <= T2 - T1.
Proof.
  intros T1 T2 H. unfold pos, Rmax.
  destruct (Rle_dec (hbp - T2) 0), (Rle_dec (hbp - T1) 0), (Rle_dec (T1 - cbp) 0), (Rle_dec (T2 - cbp) 0); lra.
Qed.

Lemma curve_lipschitz_ordered : forall T1 T2, T1 <= T2 ->
  Rabs (E T1 - E T2) <= Rmax hbeta cbeta * (T2 - T1).
Proof.
  intros T1 T2 H.
  destruct (pos_gaps T1 T2 H) as [Hp [Hq Hs]].
  pose proof (branch_increment hbeta hk _ _ Hhb Hhk (pos_nonneg (hbp - T2)) Hp) as [A0 A1].
  pose proof (branch_increment cbeta ck _ _ Hcb Hck (pos_nonneg (T1 - cbp)) Hq) as [B0 B1].
  set (a := pos (hbp - T1) - pos (hbp - T2)) in *.
  set (b := pos (T2 - cbp) - pos (T1 - cbp)) in *.
  assert (Ha : 0 <= a) by (unfold a; lra).
  assert (Hb : 0 <= b) by (unfold b; lra).
  set (M := Rmax hbeta cbeta).
  assert (HM1 : hbeta <= M) by apply Rmax_l.
  assert (HM2 : cbeta <= M) by apply Rmax_r.
  assert (HM0 : 0 <= M) by lra.
  assert (U1 : hbeta * a <= M * a) by (apply Rmult_le_compat_r; lra).
  assert (U2 : cbeta * b <= M * b) by (apply Rmult_le_compat_r; lra).
  assert (U3 : M * a + M * b <= M * (T2 - T1)).
  { rewrite <- Rmult_plus_distr_l. apply Rmult_le_compat_l; lra. }
  assert (P1 : 0 <= M * a) by (apply Rmult_le_pos; lra).
  assert (P2 : 0 <= M * b) by (apply Rmult_le_pos; lra).
  unfold curve. apply Rabs_le. lra.
Qed.

Lemma curve_lipschitz : forall T1 T2, Rabs (E T1 - E T2) <= Rmax hbeta cbeta * Rabs (T1 - T2).
Proof.
  intros T1 T2. destruct (Rle_dec T1 T2) as [H|H].
  - rewrite (Rabs_left1 (T1 - T2)) by lra.
    replace (- (T1 - T2)) with (T2 - T1) by ring. apply curve_lipschitz_ordered. exact H.
  - assert (H' : T2 <= T1) by lra.
    rewrite (Rabs_minus_sym (E T1)). rewrite (Rabs_right (T1 - T2)) by lra.
    apply curve_lipschitz_ordered. exact H'.
Qed.

Lemma curve_continuous : continuity E.
Proof.
  intros x eps Heps.
  set (M := Rmax hbeta cbeta).
  assert (HM0 : 0 <= M) by (unfold M; pose proof (Rmax_l hbeta cbeta); lra).
  exists (eps / (M + 1)). split.
  - apply Rdiv_lt_0_compat; lra.
  - intros y [_ Hd]. simpl in *. unfold R_dist in *.
    pose proof (curve_lipschitz y x) as HL. fold M in HL.
    assert (Hlt : M * Rabs (y - x) < eps).
    { apply Rle_lt_trans with ((M + 1) * Rabs (y - x)).
      - apply Rmult_le_compat_r; [apply Rabs_pos | lra].
      - apply Rlt_le_trans with ((M + 1) * (eps / (M + 1))).
        + apply Rmult_lt_compat_l; lra.
        + right. field. lra. }
    lra.
Qed.

(* beyond the balance points: exact line when unsmoothed, exact remainder when smoothed *)
Lemma curve_heating_remainder : forall T, T <= hbp ->
  E T - (icpt + hbeta * ((hbp - hk) - T)) = hbeta * hk * sm hk (hbp - T).
Proof.
  intros T H. rewrite curve_heating_side by exact H.
  pose proof (branch_remainder hbeta hk (hbp - T)). lra.
Qed.

Lemma curve_cooling_remainder : forall T, cbp <= T ->
  E T - (icpt + cbeta * (T - (cbp + ck))) = cbeta * ck * sm ck (T - cbp).
Proof.
  intros T H. rewrite curve_cooling_side by exact H.
  pose proof (branch_remainder cbeta ck (T - cbp)). lra.
Qed.

End CurveFacts.

(* asymptote: the smoothing factor is below eps + e^lo as soon as d > k / eps
   (the bound on d does not depend on the clip; e^lo is the floor the clip leaves) *)
Lemma sm_small : forall k eps d, 0 < k -> 0 < eps -> k / eps < d -> sm k d < eps + exp lo.
Proof.
  intros k eps d Hk Heps Hd.
  pose proof (exp_pos lo) as Hpl.
  unfold sm, Rmax. destruct (Rle_dec (- (d / k)) lo) as [Hc|Hc]; [lra|].
  assert (Hu : / eps < d / k).
  { apply Rmult_lt_reg_r with k; [exact Hk|]. unfold Rdiv at 1. unfold Rdiv.
    rewrite (Rmult_assoc d), Rinv_l by lra. rewrite Rmult_1_r.
    rewrite Rmult_comm. exact Hd. }
  assert (He : / eps < exp (d / k)) by (pose proof (Rpower.exp_ineq1_le (d / k)); lra).
  rewrite exp_Ropp.
  pose proof (exp_pos (d / k)) as Hp.
  assert (H1 : / exp (d / k) < eps).
  { apply Rmult_lt_reg_r with (exp (d / k)); [exact Hp|].
    rewrite Rinv_l by lra.
    apply Rle_lt_trans with (eps * / eps).
    - rewrite Rinv_r by lra. lra.
    - apply Rmult_lt_compat_l; lra. }
  lra.
Qed.

End Branch.
