(* Lemmas about the daily curve (Model/DailyCurve.v) at the real-number instance [RNumOf lo hi],
   for every pair of exp-clip bounds lo <= 0 <= hi.  The theorems of Properties/C11.v are these lemmas. *)
From Coq Require Import Reals Lra Psatz List Bool.
From V Require Import Model.Num Model.NumR Model.DailyCurve.
Import ListNotations.
Local Open Scope R_scope.

(* ------------------------------------------------------------------------------------------ *)
(* Part 1: one side of the curve, as a function of the distance d >= 0 beyond its balance point  *)
(* ------------------------------------------------------------------------------------------ *)

Section Branch.
Variable lo : R.
Hypothesis Hlo : lo <= 0.

(* the (clipped) exponential factor of the smoothed kernel, at distance d beyond the balance point *)
Definition sm (k d : R) : R := exp (Rmax (- (d / k)) lo).

(* load of one side at distance d beyond its balance point:
   beta d when k = 0 (the product beta k vanishes), beta d + beta k (e^(-d/k) - 1) when smoothed *)
Definition branch (beta k d : R) : R := beta * d + beta * k * (sm k d - 1).

Lemma exp_le : forall a b, a <= b -> exp a <= exp b.
Proof.
  intros a b [H|H].
  - left. apply exp_increasing. exact H.
  - right. rewrite H. reflexivity.
Qed.

Lemma sm_pos : forall k d, 0 < sm k d.
Proof. intros. unfold sm. apply exp_pos. Qed.

Lemma sm_le_1 : forall k d, 0 < k -> 0 <= d -> sm k d <= 1.
Proof.
  intros k d Hk Hd. unfold sm. rewrite <- exp_0. apply exp_le.
  apply Rmax_lub; [|exact Hlo].
  assert (0 <= d / k) by (apply Rmult_le_pos; [exact Hd | left; apply Rinv_0_lt_compat; exact Hk]).
  lra.
Qed.

Lemma branch_0 : forall beta k, branch beta k 0 = 0.
Proof.
  intros. unfold branch, sm.
  replace (- (0 / k)) with 0 by (unfold Rdiv; ring).
  rewrite Rmax_left by exact Hlo. rewrite exp_0. ring.
Qed.

Lemma branch_k0 : forall beta d, branch beta 0 d = beta * d.
Proof. intros. unfold branch. ring. Qed.

(* exact remainder against the asymptote  beta (d - k) *)
Lemma branch_remainder : forall beta k d, branch beta k d - beta * (d - k) = beta * k * sm k d.
Proof. intros. unfold branch. ring. Qed.

Lemma sm_unclipped : forall k d, lo <= - (d / k) -> sm k d = exp (- (d / k)).
Proof. intros. unfold sm. rewrite Rmax_left by assumption. reflexivity. Qed.

(* the two clipped exponents of d1 <= d2 *)
Lemma clipped_gap : forall u1 u2, u1 <= u2 ->
  Rmax (- u2) lo <= Rmax (- u1) lo /\ Rmax (- u1) lo - Rmax (- u2) lo <= u2 - u1.
Proof.
  intros u1 u2 H. unfold Rmax.
  destruct (Rle_dec (- u2) lo), (Rle_dec (- u1) lo); lra.
Qed.

Lemma div_le_div : forall k d1 d2, 0 < k -> d1 <= d2 -> d1 / k <= d2 / k.
Proof.
  intros k d1 d2 Hk H. unfold Rdiv. apply Rmult_le_compat_r; [left; apply Rinv_0_lt_compat; exact Hk | exact H].
Qed.

(* key inequality: for a2 <= a1 <= 0,  0 <= e^a1 - e^a2 <= a1 - a2   (only 1 + x <= e^x is used) *)
Lemma exp_gap : forall a1 a2, a2 <= a1 -> a1 <= 0 -> 0 <= exp a1 - exp a2 <= a1 - a2.
Proof.
  intros a1 a2 H21 H1. split.
  - pose proof (exp_le a2 a1 H21). lra.
  - replace (exp a2) with (exp a1 * exp (a2 - a1)) by (rewrite <- exp_plus; f_equal; ring).
    pose proof (Rpower.exp_ineq1_le (a2 - a1)) as Hin.
    pose proof (exp_pos a1) as Hp.
    assert (Hle1 : exp a1 <= 1) by (rewrite <- exp_0; apply exp_le; exact H1).
    (* e^a1 (1 - e^(a2-a1)) <= e^a1 (a1 - a2) <= a1 - a2 *)
    assert (H1' : exp a1 * (1 - exp (a2 - a1)) <= exp a1 * (a1 - a2)).
    { apply Rmult_le_compat_l; lra. }
    assert (H2' : exp a1 * (a1 - a2) <= 1 * (a1 - a2)).
    { apply Rmult_le_compat_r; lra. }
    lra.
Qed.

(* monotone and beta-Lipschitz in the distance *)
Lemma branch_increment : forall beta k d1 d2, 0 <= beta -> 0 <= k -> 0 <= d1 -> d1 <= d2 ->
  0 <= branch beta k d2 - branch beta k d1 <= beta * (d2 - d1).
Proof.
  intros beta k d1 d2 Hb Hk Hd1 Hd.
  destruct Hk as [Hk|Hk].
  2:{ subst k. rewrite !branch_k0. split; [|lra].
      assert (0 <= beta * (d2 - d1)) by (apply Rmult_le_pos; lra). lra. }
  pose proof (div_le_div k d1 d2 Hk Hd) as Hu.
  destruct (clipped_gap (d1 / k) (d2 / k) Hu) as [Ha Hg].
  assert (Ha1 : Rmax (- (d1 / k)) lo <= 0).
  { apply Rmax_lub; [|exact Hlo].
    assert (0 <= d1 / k) by (apply Rmult_le_pos; [exact Hd1 | left; apply Rinv_0_lt_compat; exact Hk]). lra. }
  destruct (exp_gap _ _ Ha Ha1) as [G0 G1].
  fold (sm k d1) in G0, G1. fold (sm k d2) in G0, G1.
  assert (Hkk : k * (d2 / k - d1 / k) = d2 - d1) by (field; lra).
  assert (E : branch beta k d2 - branch beta k d1 = beta * ((d2 - d1) - k * (sm k d1 - sm k d2)))
    by (unfold branch; ring).
  rewrite E.
  assert (Hk1 : 0 <= k * (sm k d1 - sm k d2)) by (apply Rmult_le_pos; lra).
  assert (Hk2 : k * (sm k d1 - sm k d2) <= k * (d2 / k - d1 / k)) by (apply Rmult_le_compat_l; lra).
  split.
  - apply Rmult_le_pos; lra.
  - apply Rmult_le_compat_l; lra.
Qed.

Lemma branch_nonneg : forall beta k d, 0 <= beta -> 0 <= k -> 0 <= d -> 0 <= branch beta k d.
Proof.
  intros beta k d Hb Hk Hd.
  pose proof (branch_increment beta k 0 d Hb Hk (Rle_refl 0) Hd) as [H _].
  rewrite branch_0 in H. lra.
Qed.

Lemma branch_le_line : forall beta k d, 0 <= beta -> 0 <= k -> 0 <= d -> branch beta k d <= beta * d.
Proof.
  intros beta k d Hb Hk Hd.
  pose proof (branch_increment beta k 0 d Hb Hk (Rle_refl 0) Hd) as [_ H].
  rewrite branch_0 in H. lra.
Qed.

(* ------------------------------------------------------------------------------------------ *)
(* Part 2: the whole curve of a 7-vector in closed form                                         *)
(* ------------------------------------------------------------------------------------------ *)

Definition pos (a : R) : R := Rmax a 0.

Lemma pos_nonneg : forall a, 0 <= pos a.
Proof. intros. unfold pos. apply Rmax_r. Qed.
Lemma pos_of_nonneg : forall a, 0 <= a -> pos a = a.
Proof. intros. unfold pos. apply Rmax_left. assumption. Qed.
Lemma pos_of_nonpos : forall a, a <= 0 -> pos a = 0.
Proof. intros. unfold pos. apply Rmax_right. assumption. Qed.

(* closed form: base load + heating side at distance (bp_h - T)+ + cooling side at distance (T - bp_c)+ *)
Definition curve (hbp hbeta hk cbp cbeta ck icpt T : R) : R :=
  icpt + branch hbeta hk (pos (hbp - T)) + branch cbeta ck (pos (T - cbp)).

Section CurveFacts.
Variables hbp hbeta hk cbp cbeta ck icpt : R.
Hypothesis Hord : hbp <= cbp.
Hypothesis Hhb : 0 <= hbeta.
Hypothesis Hcb : 0 <= cbeta.
Hypothesis Hhk : 0 <= hk.
Hypothesis Hck : 0 <= ck.
Notation E := (curve hbp hbeta hk cbp cbeta ck icpt).

Lemma curve_heating_side : forall T, T <= hbp -> E T = icpt + branch hbeta hk (hbp - T).
Proof.
  intros T H. unfold curve. rewrite (pos_of_nonneg (hbp - T)) by lra.
  rewrite (pos_of_nonpos (T - cbp)) by lra. rewrite branch_0. ring.
Qed.

Lemma curve_cooling_side : forall T, cbp <= T -> E T = icpt + branch cbeta ck (T - cbp).
Proof.
  intros T H. unfold curve. rewrite (pos_of_nonpos (hbp - T)) by lra.
  rewrite (pos_of_nonneg (T - cbp)) by lra. rewrite branch_0. ring.
Qed.

Lemma curve_flat : forall T, hbp <= T <= cbp -> E T = icpt.
Proof.
  intros T [H1 H2]. unfold curve. rewrite (pos_of_nonpos (hbp - T)) by lra.
  rewrite (pos_of_nonpos (T - cbp)) by lra. rewrite !branch_0. ring.
Qed.

Lemma curve_ge_base : forall T, icpt <= E T.
Proof.
  intros T. unfold curve.
  pose proof (branch_nonneg hbeta hk (pos (hbp - T)) Hhb Hhk (pos_nonneg _)).
  pose proof (branch_nonneg cbeta ck (pos (T - cbp)) Hcb Hck (pos_nonneg _)).
  lra.
Qed.

Lemma curve_heating_monotone : forall T1 T2, T1 <= T2 -> T2 <= hbp -> E T2 <= E T1.
Proof.
  intros T1 T2 H12 H2. rewrite !curve_heating_side by lra.
  pose proof (branch_increment hbeta hk (hbp - T2) (hbp - T1) Hhb Hhk) as H.
  destruct H; lra.
Qed.

Lemma curve_cooling_monotone : forall T1 T2, cbp <= T1 -> T1 <= T2 -> E T1 <= E T2.
Proof.
  intros T1 T2 H1 H12. rewrite !curve_cooling_side by lra.
  pose proof (branch_increment cbeta ck (T1 - cbp) (T2 - cbp) Hcb Hck) as H.
  destruct H; lra.
Qed.

Lemma pos_gaps : forall T1 T2, T1 <= T2 ->
  pos (hbp - T2) <= pos (hbp - T1) /\ pos (T1 - cbp) <= pos (T2 - cbp) /\
  (pos (hbp - T1) - pos (hbp - T2)) + (pos (T2 - cbp) - pos (T1 - cbp)) <= T2 - T1.
Proof.
  intros T1 T2 H. unfold pos, Rmax.
  destruct (Rle_dec (hbp - T2) 0), (Rle_dec (hbp - T1) 0), (Rle_dec (T1 - cbp) 0), (Rle_dec (T2 - cbp) 0); lra.
Qed.

Lemma curve_lipschitz_ordered : forall T1 T2, T1 <= T2 ->
  Rabs (E T1 - E T2) <= Rmax hbeta cbeta * (T2 - T1).
Proof.
  intros T1 T2 H.
  destruct (pos_gaps T1 T2 H) as [Hp [Hq Hs]].
  pose proof (branch_increment hbeta hk _ _ Hhb Hhk (pos_nonneg (hbp - T2)) Hp) as [A0 A1].
  pose proof (branch_increment cbeta ck _ _ Hcb Hck (pos_nonneg (T1 - cbp)) Hq) as [B0 B1].
  set (a := pos (hbp - T1) - pos (hbp - T2)) in *.
  set (b := pos (T2 - cbp) - pos (T1 - cbp)) in *.
  assert (Ha : 0 <= a) by (unfold a; lra).
  assert (Hb : 0 <= b) by (unfold b; lra).
  set (M := Rmax hbeta cbeta).
  assert (HM1 : hbeta <= M) by apply Rmax_l.
  assert (HM2 : cbeta <= M) by apply Rmax_r.
  assert (HM0 : 0 <= M) by lra.
  assert (U1 : hbeta * a <= M * a) by (apply Rmult_le_compat_r; lra).
  assert (U2 : cbeta * b <= M * b) by (apply Rmult_le_compat_r; lra).
  assert (U3 : M * a + M * b <= M * (T2 - T1)).
  { rewrite <- Rmult_plus_distr_l. apply Rmult_le_compat_l; lra. }
  assert (P1 : 0 <= M * a) by (apply Rmult_le_pos; lra).
  assert (P2 : 0 <= M * b) by (apply Rmult_le_pos; lra).
  unfold curve. apply Rabs_le. lra.
Qed.

Lemma curve_lipschitz : forall T1 T2, Rabs (E T1 - E T2) <= Rmax hbeta cbeta * Rabs (T1 - T2).
Proof.
  intros T1 T2. destruct (Rle_dec T1 T2) as [H|H].
  - rewrite (Rabs_left1 (T1 - T2)) by lra.
    replace (- (T1 - T2)) with (T2 - T1) by ring. apply curve_lipschitz_ordered. exact H.
  - assert (H' : T2 <= T1) by lra.
    rewrite (Rabs_minus_sym (E T1)). rewrite (Rabs_right (T1 - T2)) by lra.
    apply curve_lipschitz_ordered. exact H'.
Qed.

Lemma curve_continuous : continuity E.
Proof.
  intros x eps Heps.
  set (M := Rmax hbeta cbeta).
  assert (HM0 : 0 <= M) by (unfold M; pose proof (Rmax_l hbeta cbeta); lra).
  exists (eps / (M + 1)). split.
  - apply Rdiv_lt_0_compat; lra.
  - intros y [_ Hd]. simpl in *. unfold R_dist in *.
    pose proof (curve_lipschitz y x) as HL. fold M in HL.
    assert (Hlt : M * Rabs (y - x) < eps).
    { apply Rle_lt_trans with ((M + 1) * Rabs (y - x)).
      - apply Rmult_le_compat_r; [apply Rabs_pos | lra].
      - apply Rlt_le_trans with ((M + 1) * (eps / (M + 1))).
        + apply Rmult_lt_compat_l; lra.
        + right. field. lra. }
    lra.
Qed.

(* beyond the balance points: exact line when unsmoothed, exact remainder when smoothed *)
Lemma curve_heating_remainder : forall T, T <= hbp ->
  E T - (icpt + hbeta * ((hbp - hk) - T)) = hbeta * hk * sm hk (hbp - T).
Proof.
  intros T H. rewrite curve_heating_side by exact H.
  pose proof (branch_remainder hbeta hk (hbp - T)). lra.
Qed.

Lemma curve_cooling_remainder : forall T, cbp <= T ->
  E T - (icpt + cbeta * (T - (cbp + ck))) = cbeta * ck * sm ck (T - cbp).
Proof.
  intros T H. rewrite curve_cooling_side by exact H.
  pose proof (branch_remainder cbeta ck (T - cbp)). lra.
Qed.

End CurveFacts.

(* asymptote: the smoothing factor is below eps + e^lo as soon as d > k / eps
   (the bound on d does not depend on the clip; e^lo is the floor the clip leaves) *)
Lemma sm_small : forall k eps d, 0 < k -> 0 < eps -> k / eps < d -> sm k d < eps + exp lo.
Proof.
  intros k eps d Hk Heps Hd.
  pose proof (exp_pos lo) as Hpl.
  unfold sm, Rmax. destruct (Rle_dec (- (d / k)) lo) as [Hc|Hc]; [lra|].
  assert (Hu : / eps < d / k).
  { apply Rmult_lt_reg_r with k; [exact Hk|]. unfold Rdiv at 1. unfold Rdiv.
    rewrite (Rmult_assoc d), Rinv_l by lra. rewrite Rmult_1_r.
    rewrite Rmult_comm. exact Hd. }
  assert (He : / eps < exp (d / k)) by (pose proof (Rpower.exp_ineq1_le (d / k)); lra).
  rewrite exp_Ropp.
  pose proof (exp_pos (d / k)) as Hp.
  assert (H1 : / exp (d / k) < eps).
  { apply Rmult_lt_reg_r with (exp (d / k)); [exact Hp|].
    rewrite Rinv_l by lra.
    apply Rle_lt_trans with (eps * / eps).
    - rewrite Rinv_r by lra. lra.
    - apply Rmult_lt_compat_l; lra. }
  lra.
Qed.

End Branch.

(* ------------------------------------------------------------------------------------------ *)
(* Part 3: the model text of Model/DailyCurve.v at the real instance equals the closed form     *)
(* ------------------------------------------------------------------------------------------ *)

Section ModelFacts.
Variables lo hi : R.
Hypothesis Hlo : lo <= 0.
Hypothesis Hhi : 0 <= hi.
Notation N := (RNumOf lo hi).

Lemma clip_nonpos : forall a : R, a <= 0 -> @n_clip N a lo hi = Rmax a lo.
Proof.
  intros a Ha. unfold n_clip. cbn.
  unfold Rltb. destruct (Rlt_dec a lo) as [H|H].
  - destruct (Rlt_dec hi lo); [lra|]. rewrite Rmax_right by lra. reflexivity.
  - destruct (Rlt_dec hi a); [lra|]. rewrite Rmax_left by lra. reflexivity.
Qed.

Lemma evaluate_heating : forall icpt hbeta hk hbp T : R, 0 <= hbeta -> 0 <= hk -> T <= hbp ->
  evaluate N icpt (- hbeta, hk, hbp) T = icpt + branch lo hbeta hk (hbp - T).
Proof.
  intros icpt hbeta hk hbp T Hb Hk HT. unfold evaluate. cbn.
  unfold Reqb. destruct (Req_EM_T (- hbeta) 0) as [E|E].
  - assert (hbeta = 0) by lra. subst. unfold branch. ring.
  - destruct (Req_EM_T hk 0) as [E2|E2].
    + subst hk. rewrite branch_k0. ring.
    + assert (Hkpos : 0 < hk) by lra.
      assert (Harg : 1 / hk * (T - hbp) <= 0).
      { assert (0 <= (hbp - T) / hk) by (apply Rmult_le_pos; [lra | left; apply Rinv_0_lt_compat; lra]).
        replace (1 / hk * (T - hbp)) with (- ((hbp - T) / hk)) by (field; lra). lra. }
      rewrite (clip_nonpos _ Harg).
      unfold branch, sm.
      replace (1 / hk * (T - hbp)) with (- ((hbp - T) / hk)) by (field; lra).
      replace (- hbeta * hk) with (- (hbeta * hk)) by ring. rewrite Rabs_Ropp.
      rewrite Rabs_right by (apply Rle_ge, Rmult_le_pos; lra).
      ring.
Qed.

Lemma evaluate_cooling : forall icpt cbeta ck cbp T : R, 0 <= cbeta -> 0 <= ck -> cbp <= T ->
  evaluate N icpt (cbeta, - ck, cbp) T = icpt + branch lo cbeta ck (T - cbp).
Proof.
  intros icpt cbeta ck cbp T Hb Hk HT. unfold evaluate. cbn.
  unfold Reqb. destruct (Req_EM_T cbeta 0) as [E|E].
  - subst. unfold branch. ring.
  - destruct (Req_EM_T (- ck) 0) as [E2|E2].
    + assert (ck = 0) by lra. subst ck. rewrite branch_k0. ring.
    + assert (Hkpos : 0 < ck) by lra.
      assert (Harg : 1 / - ck * (T - cbp) <= 0).
      { assert (0 <= (T - cbp) / ck) by (apply Rmult_le_pos; [lra | left; apply Rinv_0_lt_compat; lra]).
        replace (1 / - ck * (T - cbp)) with (- ((T - cbp) / ck)) by (field; lra). lra. }
      rewrite (clip_nonpos _ Harg).
      unfold branch, sm.
      replace (1 / - ck * (T - cbp)) with (- ((T - cbp) / ck)) by (field; lra).
      replace (cbeta * - ck) with (- (cbeta * ck)) by ring. rewrite Rabs_Ropp.
      rewrite Rabs_right by (apply Rle_ge, Rmult_le_pos; lra).
      ring.
Qed.

Definition mkx (hb hbeta hk cb cbeta ck i : R) : fullx N := Build_fullx N hb hbeta hk cb cbeta ck i.


Lemma order_bps_id : forall hbp hbeta hk cbp cbeta ck icpt : R, hbp <= cbp ->
  order_bps N (mkx hbp hbeta hk cbp cbeta ck icpt) = mkx hbp hbeta hk cbp cbeta ck icpt.
Proof.
  intros. unfold order_bps. cbn. unfold Rltb. destruct (Rlt_dec cbp hbp); [lra | reflexivity].
Qed.

Lemma regime_heating : forall hbp hbeta hk cbp cbeta ck icpt Tmin Tmax T : R, T < hbp ->
  regime N (mkx hbp hbeta hk cbp cbeta ck icpt) Tmin Tmax T = (- hbeta, hk, hbp).
Proof.
  intros. unfold regime. cbn. unfold Rltb. destruct (Rlt_dec T hbp); [reflexivity | lra].
Qed.

Lemma regime_cooling : forall hbp hbeta hk cbp cbeta ck icpt Tmin Tmax T : R,
  hbp <= cbp -> (hbp = cbp -> cbp < Tmax) -> cbp < T ->
  regime N (mkx hbp hbeta hk cbp cbeta ck icpt) Tmin Tmax T = (cbeta, - ck, cbp).
Proof.
  intros * Ho Hreg HT. unfold regime. cbn. unfold n_geb, n_gtb. cbn. unfold Rltb, Reqb, Rleb.
  destruct (Rlt_dec T hbp); [lra|]. cbn [orb].
  destruct (Req_EM_T hbp cbp) as [He|He]; cbn [andb].
  - destruct (Rle_dec Tmax cbp); [specialize (Hreg He); lra|].
    destruct (Rlt_dec cbp T); [reflexivity | lra].
  - destruct (Rlt_dec cbp T); [reflexivity | lra].
Qed.

(* between the balance points: no load, or (equal balance points at or below T_min) the cooling
   branch at distance 0 *)
Lemma regime_between : forall hbp hbeta hk cbp cbeta ck icpt Tmin Tmax T : R,
  (hbp = cbp -> cbp < Tmax) -> hbp <= T <= cbp ->
  let r := regime N (mkx hbp hbeta hk cbp cbeta ck icpt) Tmin Tmax T in
  r = (0, 0, 0) \/ (r = (cbeta, - ck, cbp) /\ T = cbp).
Proof.
  intros * Hreg [H1 H2]. unfold regime. cbn. unfold n_geb, n_gtb. cbn. unfold Rltb, Reqb, Rleb.
  destruct (Rlt_dec T hbp); [lra|]. cbn [orb].
  destruct (Rlt_dec cbp T); [lra|]. cbn [orb].
  destruct (Req_EM_T hbp cbp) as [He|He]; cbn [andb].
  - destruct (Rle_dec Tmax cbp); [specialize (Hreg He); lra|].
    destruct (Rle_dec hbp Tmin); [right; split; [reflexivity | lra] | left; reflexivity].
  - left; reflexivity.
Qed.

Lemma evaluate_tidd : forall icpt T : R, evaluate N icpt (0, 0, 0) T = icpt.
Proof. intros. unfold evaluate. cbn. unfold Reqb. destruct (Req_EM_T 0 0); [reflexivity | lra]. Qed.

(* the kernel on an ordered, sign-correct 7-vector outside the regime-switch corner *)
Lemma full_model1_curve : forall hbp hbeta hk cbp cbeta ck icpt Tmin Tmax T : R,
  hbp <= cbp -> 0 <= hbeta -> 0 <= cbeta -> 0 <= hk -> 0 <= ck ->
  (hbp = cbp -> cbp < Tmax) \/ (hbeta = 0 /\ cbeta = 0) ->
  full_model1 N (mkx hbp hbeta hk cbp cbeta ck icpt) Tmin Tmax T = curve lo hbp hbeta hk cbp cbeta ck icpt T.
Proof.
  intros hbp hbeta hk cbp cbeta ck icpt Tmin Tmax T Hord Hhb Hcb Hhk Hck Hreg.
  unfold full_model1. rewrite order_bps_id by exact Hord.
  change (x_hdd_beta (mkx hbp hbeta hk cbp cbeta ck icpt)) with hbeta.
  change (x_cdd_beta (mkx hbp hbeta hk cbp cbeta ck icpt)) with cbeta.
  change (x_intercept (mkx hbp hbeta hk cbp cbeta ck icpt)) with icpt.
  change (@n_eqb N hbeta n_zero) with (Reqb hbeta 0). change (@n_eqb N cbeta n_zero) with (Reqb cbeta 0).
  change (@n_mul N n_one icpt) with (1 * icpt).
  destruct (Reqb hbeta 0 && Reqb cbeta 0) eqn:Eb.
  - apply andb_true_iff in Eb. destruct Eb as [E1 E2]. apply Reqb_true in E1, E2. subst.
    unfold curve, branch. change (carrier N) with R. ring.
  - destruct Hreg as [Hreg|[Z1 Z2]].
    2:{ subst. unfold Reqb in Eb. destruct (Req_EM_T 0 0); [discriminate | lra]. }
    clear Eb. destruct (Rlt_dec T hbp) as [H1|H1].
    + rewrite regime_heating by exact H1. rewrite evaluate_heating by lra.
      rewrite curve_heating_side by lra. reflexivity.
    + destruct (Rlt_dec cbp T) as [H2|H2].
      * rewrite regime_cooling by assumption. rewrite evaluate_cooling by lra.
        rewrite curve_cooling_side by lra. reflexivity.
      * assert (Hb : hbp <= T <= cbp) by lra.
        destruct (regime_between hbp hbeta hk cbp cbeta ck icpt Tmin Tmax T Hreg Hb) as [Hr|[Hr Ht]];
          rewrite Hr.
        -- rewrite evaluate_tidd. rewrite curve_flat by lra. reflexivity.
        -- rewrite evaluate_cooling by lra. rewrite curve_cooling_side by lra. reflexivity.
Qed.

(* ---------------- fix_full_model_x on an ordered vector *)
Definition good (x : fullx N) : Prop :=
  x_hdd_bp x <= x_cdd_bp x /\ 0 <= x_hdd_beta x /\ 0 <= x_cdd_beta x /\ 0 <= x_hdd_k x /\ 0 <= x_cdd_k x.

Lemma fix_ordered : forall hbp hbeta hk cbp cbeta ck icpt Tlo Thi : R, hbp <= cbp ->
  exists hbeta' hk' cbeta' ck',
    fix_full_model_x N (mkx hbp hbeta hk cbp cbeta ck icpt) Tlo Thi = mkx hbp hbeta' hk' cbp cbeta' ck' icpt /\
    (hbeta' = hbeta \/ hbeta' = 0) /\ (cbeta' = cbeta \/ cbeta' = 0) /\
    (hk' = hk \/ hk' = 0) /\ (ck' = ck \/ ck' = 0) /\
    (hbeta' = 0 -> hk' = 0) /\ (cbeta' = 0 -> ck' = 0) /\
    (hbeta' <> 0 -> hk' = hk) /\ (cbeta' <> 0 -> ck' = ck) /\
    ((hbp = cbp \/ (Tlo < hbp /\ cbp < Thi)) -> hbeta' = hbeta /\ cbeta' = cbeta).
Proof.
  intros * Hord. unfold fix_full_model_x. rewrite order_bps_id by exact Hord. cbn.
  unfold n_neqb, n_geb. cbn. unfold Reqb, Rleb.
  destruct (Req_EM_T hbp cbp) as [He|He]; cbn [negb].
  - cbn [fst snd]. destruct (Req_EM_T hbeta 0), (Req_EM_T cbeta 0);
    do 4 eexists; (split; [reflexivity|]); repeat split; auto; intros; try lra; try contradiction.
  - destruct (Rle_dec Thi cbp) as [H1|H1]; [|destruct (Rle_dec hbp Tlo) as [H2|H2]]; cbn [fst snd].
    + destruct (Req_EM_T hbeta 0), (Req_EM_T 0 0); try lra;
      do 4 eexists; (split; [reflexivity|]); repeat split; auto; intros; try lra; try contradiction;
      try (destruct H as [H|[H H']]; lra).
    + destruct (Req_EM_T 0 0), (Req_EM_T cbeta 0); try lra;
      do 4 eexists; (split; [reflexivity|]); repeat split; auto; intros; try lra; try contradiction;
      try (destruct H as [H|[H H']]; lra).
    + destruct (Req_EM_T hbeta 0), (Req_EM_T cbeta 0);
      do 4 eexists; (split; [reflexivity|]); repeat split; auto; intros; try lra; try contradiction.
Qed.

(* ---------------- get_smooth_coeffs *)
Lemma tup4_eq : forall a b c d a' b' c' d' : R, a = a' -> b = b' -> c = c' -> d = d' ->
  (a, b, c, d) = (a', b', c', d').
Proof. intros; subst; reflexivity. Qed.

Lemma min_pct_k_R : min_pct_k N = 1 / 100.
Proof. unfold min_pct_k, n_hundred, n_ten, n_two. cbn. f_equal. ring. Qed.

Lemma smooth_coeffs_spec : forall hbp ph cbp pc : R, hbp <= cbp -> 0 <= ph -> 0 <= pc ->
  exists hk ck : R,
    get_smooth_coeffs N hbp ph cbp pc = (hbp + hk, hk, cbp - ck, ck) /\
    0 <= hk /\ 0 <= ck /\ hk + ck <= cbp - hbp /\
    (ph = 0 -> hk = 0) /\ (pc = 0 -> ck = 0) /\
    (ph + pc <= 1 -> (hk = 0 /\ ck = 0) \/ (hk = ph * (cbp - hbp) /\ ck = pc * (cbp - hbp))) /\
    (1 < ph + pc -> hk = ph / (ph + pc) * (cbp - hbp) /\ ck = pc / (ph + pc) * (cbp - hbp)).
Proof.
  intros hbp ph cbp pc Hord Hph Hpc. unfold get_smooth_coeffs.
  destruct (@n_ltb N ph (min_pct_k N) && @n_ltb N pc (min_pct_k N)) eqn:Emin.
  - exists 0, 0. change (@n_zero N) with 0. split; [apply tup4_eq; ring|].
    apply andb_true_iff in Emin. destruct Emin as [E1 E2].
    change (@n_ltb N ph (min_pct_k N)) with (Rltb ph (min_pct_k N)) in E1.
    change (@n_ltb N pc (min_pct_k N)) with (Rltb pc (min_pct_k N)) in E2.
    apply Rltb_true in E1, E2. rewrite min_pct_k_R in E1, E2.
    split; [lra|]. split; [lra|]. split; [lra|]. split; [reflexivity|]. split; [reflexivity|].
    split; [intros _; left; split; reflexivity | intros; lra].
  - clear Emin. cbn. unfold n_gtb. cbn. unfold Rltb, Rleb.
    assert (Hw : 0 <= cbp - hbp) by lra.
    destruct (Rle_dec hbp cbp) as [_|Hno]; [|lra]. cbn [andb].
    destruct (Rlt_dec 1 (ph + pc)) as [Hs|Hs]; cbn [fst snd].
    + assert (Hsp : 0 < ph + pc) by lra.
      assert (Q1 : 0 <= ph / (ph + pc)) by (apply Rmult_le_pos; [lra | left; apply Rinv_0_lt_compat; lra]).
      assert (Q2 : 0 <= pc / (ph + pc)) by (apply Rmult_le_pos; [lra | left; apply Rinv_0_lt_compat; lra]).
      assert (Qs : ph / (ph + pc) * (cbp - hbp) + pc / (ph + pc) * (cbp - hbp) = cbp - hbp) by (field; lra).
      exists (ph / (ph + pc) * (cbp - hbp)), (pc / (ph + pc) * (cbp - hbp)).
      split.
      { match goal with |- context [Rlt_dec ?a ?b] =>
          assert (Ea : a = cbp - pc / (ph + pc) * (cbp - hbp)) by (field; lra);
          assert (Eb : b = hbp + ph / (ph + pc) * (cbp - hbp)) by (field; lra);
          destruct (Rlt_dec a b) as [Hc|Hc]; [exfalso; rewrite Ea, Eb in Hc; lra|]
        end.
        apply tup4_eq; field; lra. }
      split; [apply Rmult_le_pos; lra|]. split; [apply Rmult_le_pos; lra|].
      split. { right. exact Qs. }
      split. { intros ->. unfold Rdiv. ring. }
      split. { intros ->. unfold Rdiv. ring. }
      split; [intros; lra | intros _; split; reflexivity].
    + assert (Qs : ph * (cbp - hbp) + pc * (cbp - hbp) <= cbp - hbp).
      { replace (ph * (cbp - hbp) + pc * (cbp - hbp)) with ((ph + pc) * (cbp - hbp)) by ring.
        rewrite <- (Rmult_1_l (cbp - hbp)) at 2. apply Rmult_le_compat_r; lra. }
      exists (ph * (cbp - hbp)), (pc * (cbp - hbp)).
      split.
      { match goal with |- context [Rlt_dec ?a ?b] =>
          assert (Ea : a = cbp - pc * (cbp - hbp)) by (field; lra);
          assert (Eb : b = hbp + ph * (cbp - hbp)) by (field; lra);
          destruct (Rlt_dec a b) as [Hc|Hc]; [exfalso; rewrite Ea, Eb in Hc; lra|]
        end.
        apply tup4_eq; field; lra. }
      split; [apply Rmult_le_pos; lra|]. split; [apply Rmult_le_pos; lra|].
      split. { exact Qs. }
      split. { intros ->. ring. }
      split. { intros ->. ring. }
      split; [intros _; right; split; reflexivity | intros; lra].
Qed.

Local Arguments fix_full_model_x : simpl never.
Local Arguments get_smooth_coeffs : simpl never.
Local Arguments full_model1 : simpl never.
(* ---------------- admissible stored coefficients and the vector handed to the kernel *)
Definition bounds_ok (tc : tconstr N) : Prop :=
  T_min tc <= T_min_seg tc /\ T_min_seg tc <= T_max_seg tc /\ T_max_seg tc <= T_max tc.

Definition admissible (c : coeffs N) (tc : tconstr N) : Prop :=
  bounds_ok tc /\
  match model_type c, hdd_bp c, hdd_beta c, hdd_k c, cdd_bp c, cdd_beta c, cdd_k c with
  | HddTiddCddSmooth, Some hb, Some hbeta, Some hk, Some cb, Some cbeta, Some ck =>
      T_min_seg tc <= hb /\ hb <= cb /\ cb <= T_max_seg tc /\ 0 <= hbeta /\ 0 <= cbeta /\
      0 <= hk <= 1 /\ 0 <= ck <= 1
  | HddTiddCdd, Some hb, Some hbeta, _, Some cb, Some cbeta, _ =>
      T_min_seg tc <= hb /\ hb <= cb /\ cb <= T_max_seg tc /\ 0 <= hbeta /\ 0 <= cbeta
  | HddTiddSmooth, Some hb, Some hbeta, Some hk, _, _, _ =>
      T_min_seg tc <= hb <= T_max_seg tc /\ hbeta <= 0 /\ 0 <= hk
  | TiddCddSmooth, _, _, _, Some cb, Some cbeta, Some ck =>
      T_min_seg tc <= cb <= T_max_seg tc /\ 0 <= cbeta /\ 0 <= ck
  | HddTidd, Some hb, Some hbeta, _, _, _, _ => T_min_seg tc <= hb <= T_max_seg tc /\ hbeta <= 0
  | TiddCdd, _, _, _, Some cb, Some cbeta, _ => T_min_seg tc <= cb <= T_max_seg tc /\ 0 <= cbeta
  | Tidd, _, _, _, _, _, _ => True
  | _, _, _, _, _, _, _ => False
  end.

Definition getR (o : option R) : R := match o with Some v => v | None => 0 end.

(* the stored lower / upper balance point of a shape (0 for tidd, as in get_full_model_x) *)
Definition lower_bp (c : coeffs N) : R :=
  match model_type c with
  | HddTiddCddSmooth | HddTiddCdd | HddTiddSmooth | HddTidd => getR (hdd_bp c)
  | TiddCddSmooth | TiddCdd => getR (cdd_bp c)
  | Tidd => 0
  end.
Definition upper_bp (c : coeffs N) : R :=
  match model_type c with
  | HddTiddCddSmooth | HddTiddCdd | TiddCddSmooth | TiddCdd => getR (cdd_bp c)
  | HddTiddSmooth | HddTidd => getR (hdd_bp c)
  | Tidd => 0
  end.
(* the stored slopes as magnitudes *)
Definition heat_slope (c : coeffs N) : R :=
  match model_type c with
  | HddTiddCddSmooth | HddTiddCdd => getR (hdd_beta c)
  | HddTiddSmooth | HddTidd => - getR (hdd_beta c)
  | _ => 0
  end.
Definition cool_slope (c : coeffs N) : R :=
  match model_type c with
  | HddTiddCddSmooth | HddTiddCdd | TiddCddSmooth | TiddCdd => getR (cdd_beta c)
  | _ => 0
  end.

Definition interior (c : coeffs N) (tc : tconstr N) : Prop :=
  lower_bp c = upper_bp c \/ (T_min tc < lower_bp c /\ upper_bp c < T_max tc).

Lemma effective_good : forall c tc, admissible c tc ->
  exists x, effective_x N c tc = Some x /\ good x /\ x_intercept x = intercept c /\
            lower_bp c <= x_hdd_bp x /\ x_cdd_bp x <= upper_bp c /\
            (x_hdd_beta x = heat_slope c \/ x_hdd_beta x = 0) /\
            (x_cdd_beta x = cool_slope c \/ x_cdd_beta x = 0) /\
            (interior c tc -> x_hdd_beta x = heat_slope c /\ x_cdd_beta x = cool_slope c) /\
            match model_type c with
            | HddTiddCddSmooth => x_hdd_bp x - x_hdd_k x = lower_bp c /\ x_cdd_bp x + x_cdd_k x = upper_bp c
            | _ => x_hdd_bp x = lower_bp c /\ x_cdd_bp x = upper_bp c
            end /\
            match model_type c with
            | HddTiddCdd | HddTidd | TiddCdd | Tidd => x_hdd_k x = 0 /\ x_cdd_k x = 0
            | _ => True
            end.
Proof.
  intros [s i hb hbeta hk cb cbeta ck] [Tmin Tmax Tminseg Tmaxseg] [[B1 [B2 B3]] A].
  unfold admissible, interior, lower_bp, upper_bp, heat_slope, cool_slope in *. cbn in *.
  destruct s.
  - (* hdd_tidd_cdd_smooth *)
    destruct hb as [hb|], hbeta as [hbeta|], hk as [hk|], cb as [cb|], cbeta as [cbeta|], ck as [ck|];
      try contradiction.
    destruct A as (A1 & A2 & A3 & A4 & A5 & [A6 A6'] & [A7 A7']).
    unfold effective_x. cbn.
    destruct (fix_ordered hb hbeta hk cb cbeta ck i Tmin Tmax A2)
      as (hbeta' & hk' & cbeta' & ck' & Hfix & Fb1 & Fb2 & Fk1 & Fk2 & Z1 & Z2 & _ & _ & Fint).
    unfold mkx in Hfix. rewrite Hfix. cbn.
    assert (Hhk' : 0 <= hk') by (destruct Fk1; lra).
    assert (Hck' : 0 <= ck') by (destruct Fk2; lra).
    destruct (smooth_coeffs_spec hb hk' cb ck' A2 Hhk' Hck') as (k1 & k2 & Hs & S1 & S2 & S3 & _).
    rewrite Hs. cbn. eexists. split; [reflexivity|]. unfold good. cbn.
    repeat split; try lra; auto; try (destruct Fb1, Fb2; lra); apply Fint; assumption.
  - (* hdd_tidd_cdd *)
    destruct hb as [hb|], hbeta as [hbeta|], cb as [cb|], cbeta as [cbeta|]; try contradiction.
    destruct A as (A1 & A2 & A3 & A4 & A5).
    unfold effective_x. cbn.
    destruct (fix_ordered hb hbeta 0 cb cbeta 0 i Tmin Tmax A2)
      as (hbeta' & hk' & cbeta' & ck' & Hfix & Fb1 & Fb2 & Fk1 & Fk2 & Z1 & Z2 & _ & _ & Fint).
    unfold mkx in Hfix. change (@n_zero N) with 0. rewrite Hfix.
    eexists. split; [reflexivity|]. unfold good. cbn.
    repeat split; try lra; auto; try (destruct Fb1, Fb2, Fk1, Fk2; lra); apply Fint; assumption.
  - (* hdd_tidd_smooth *)
    destruct hb as [hb|], hbeta as [hbeta|], hk as [hk|]; try contradiction.
    destruct A as ([A1 A2] & A3 & A4).
    unfold effective_x, get_full_model_x. cbn. change (@n_zero N) with 0. unfold Rltb.
    destruct (Rlt_dec hbeta 0) as [Hn|Hn].
    + destruct (fix_ordered hb (- hbeta) hk hb 0 0 i Tmin Tmax (Rle_refl hb))
        as (hbeta' & hk' & cbeta' & ck' & Hfix & Fb1 & Fb2 & Fk1 & Fk2 & Z1 & Z2 & _ & _ & Fint).
      unfold mkx in Hfix. rewrite Hfix.
      eexists. split; [reflexivity|]. unfold good. cbn.
      destruct (Fint (or_introl eq_refl)) as [I1 I2].
      repeat split; try lra; auto; try (destruct Fb1, Fb2, Fk1, Fk2; lra).
    + assert (hbeta = 0) by lra. subst hbeta.
      destruct (fix_ordered hb 0 0 hb 0 hk i Tmin Tmax (Rle_refl hb))
        as (hbeta' & hk' & cbeta' & ck' & Hfix & Fb1 & Fb2 & Fk1 & Fk2 & Z1 & Z2 & _ & _ & Fint).
      unfold mkx in Hfix. rewrite Hfix.
      eexists. split; [reflexivity|]. unfold good. cbn.
      destruct (Fint (or_introl eq_refl)) as [I1 I2].
      repeat split; try lra; auto; try (destruct Fb1, Fb2, Fk1, Fk2; lra).
  - (* tidd_cdd_smooth *)
    destruct cb as [cb|], cbeta as [cbeta|], ck as [ck|]; try contradiction.
    destruct A as ([A1 A2] & A3 & A4).
    unfold effective_x, get_full_model_x. cbn. change (@n_zero N) with 0. unfold Rltb.
    destruct (Rlt_dec cbeta 0) as [Hn|Hn]; [lra|].
    destruct (fix_ordered cb 0 0 cb cbeta ck i Tmin Tmax (Rle_refl cb))
      as (hbeta' & hk' & cbeta' & ck' & Hfix & Fb1 & Fb2 & Fk1 & Fk2 & Z1 & Z2 & _ & _ & Fint).
    unfold mkx in Hfix. rewrite Hfix.
    eexists. split; [reflexivity|]. unfold good. cbn.
    destruct (Fint (or_introl eq_refl)) as [I1 I2].
    repeat split; try lra; auto; try (destruct Fb1, Fb2, Fk1, Fk2; lra).
  - (* hdd_tidd *)
    destruct hb as [hb|], hbeta as [hbeta|]; try contradiction.
    destruct A as ([A1 A2] & A3).
    unfold effective_x, get_full_model_x. cbn. change (@n_zero N) with 0. unfold n_gtb. cbn. unfold Rltb.
    destruct (Rlt_dec hb Tminseg) as [Hc1|Hc1]; [lra|]. destruct (Rlt_dec Tmaxseg hb) as [Hc2|Hc2]; [lra|].
    destruct (Rlt_dec hbeta 0) as [Hn|Hn].
    + destruct (fix_ordered hb (- hbeta) 0 hb 0 0 i Tmin Tmax (Rle_refl hb))
        as (hbeta' & hk' & cbeta' & ck' & Hfix & Fb1 & Fb2 & Fk1 & Fk2 & Z1 & Z2 & _ & _ & Fint).
      unfold mkx in Hfix. rewrite Hfix.
      eexists. split; [reflexivity|]. unfold good. cbn.
      destruct (Fint (or_introl eq_refl)) as [I1 I2].
      repeat split; try lra; auto; try (destruct Fb1, Fb2, Fk1, Fk2; lra).
    + assert (hbeta = 0) by lra. subst hbeta.
      destruct (fix_ordered hb 0 0 hb 0 0 i Tmin Tmax (Rle_refl hb))
        as (hbeta' & hk' & cbeta' & ck' & Hfix & Fb1 & Fb2 & Fk1 & Fk2 & Z1 & Z2 & _ & _ & Fint).
      unfold mkx in Hfix. rewrite Hfix.
      eexists. split; [reflexivity|]. unfold good. cbn.
      destruct (Fint (or_introl eq_refl)) as [I1 I2].
      repeat split; try lra; auto; try (destruct Fb1, Fb2, Fk1, Fk2; lra).
  - (* tidd_cdd *)
    destruct cb as [cb|], cbeta as [cbeta|]; try contradiction.
    destruct A as ([A1 A2] & A3).
    unfold effective_x, get_full_model_x. cbn. change (@n_zero N) with 0. unfold n_gtb. cbn. unfold Rltb.
    destruct (Rlt_dec cb Tminseg) as [Hc1|Hc1]; [lra|]. destruct (Rlt_dec Tmaxseg cb) as [Hc2|Hc2]; [lra|].
    destruct (Rlt_dec cbeta 0) as [Hn|Hn]; [lra|].
    destruct (fix_ordered cb 0 0 cb cbeta 0 i Tmin Tmax (Rle_refl cb))
      as (hbeta' & hk' & cbeta' & ck' & Hfix & Fb1 & Fb2 & Fk1 & Fk2 & Z1 & Z2 & _ & _ & Fint).
    unfold mkx in Hfix. rewrite Hfix.
    eexists. split; [reflexivity|]. unfold good. cbn.
    destruct (Fint (or_introl eq_refl)) as [I1 I2].
    repeat split; try lra; auto; try (destruct Fb1, Fb2, Fk1, Fk2; lra).
  - (* tidd *)
    unfold effective_x. cbn. change (@n_zero N) with 0.
    destruct (fix_ordered 0 0 0 0 0 0 i Tmin Tmax (Rle_refl 0))
      as (hbeta' & hk' & cbeta' & ck' & Hfix & Fb1 & Fb2 & Fk1 & Fk2 & Z1 & Z2 & _ & _ & Fint).
    unfold mkx in Hfix. rewrite Hfix.
    eexists. split; [reflexivity|]. unfold good. cbn.
    destruct (Fint (or_introl eq_refl)) as [I1 I2].
    repeat split; try lra; auto; try (destruct Fb1, Fb2, Fk1, Fk2; lra).
Qed.

(* ---------------- the three columns of _predict_submodel in closed form *)
Definition off_corner_x (x : fullx N) (tc : tconstr N) : Prop :=
  (x_hdd_bp x = x_cdd_bp x -> x_cdd_bp x < T_max tc) \/ (x_hdd_beta x = 0 /\ x_cdd_beta x = 0).

Definition heat_part (x : fullx N) (T : R) : R := branch lo (x_hdd_beta x) (x_hdd_k x) (pos (x_hdd_bp x - T)).
Definition cool_part (x : fullx N) (T : R) : R := branch lo (x_cdd_beta x) (x_cdd_k x) (pos (T - x_cdd_bp x)).

Lemma loads_of_closed : forall (x : fullx N) (tc : tconstr N) (T : R), good x -> off_corner_x x tc ->
  loads_of N x (T_min tc) (T_max tc) T =
    (x_intercept x + heat_part x T + cool_part x T, heat_part x T, cool_part x T).
Proof.
  intros [hbp hbeta hk cbp cbeta ck icpt] tc T (G1 & G2 & G3 & G4 & G5) Hoff.
  unfold good, off_corner_x, heat_part, cool_part in *. cbn in *.
  unfold loads_of.
  pose proof (full_model1_curve hbp hbeta hk cbp cbeta ck icpt (T_min tc) (T_max tc) T G1 G2 G3 G4 G5 Hoff) as HE.
  unfold mkx in HE. rewrite HE. cbn. unfold n_geb. cbn. unfold Rleb.
  assert (HT : curve lo hbp hbeta hk cbp cbeta ck icpt T =
               icpt + branch lo hbeta hk (pos (hbp - T)) + branch lo cbeta ck (pos (T - cbp))) by reflexivity.
  destruct (Rle_dec T hbp) as [H1|H1]; destruct (Rle_dec cbp T) as [H2|H2].
  - assert (T = hbp) by lra. assert (T = cbp) by lra. subst hbp. subst cbp.
    rewrite HT. replace (T - T) with 0 by ring. rewrite (pos_of_nonneg 0) by lra. rewrite !branch_0 by lra.
    apply f_equal2; [apply f_equal2|]; ring.
  - rewrite HT. rewrite (pos_of_nonpos (T - cbp)) by lra. rewrite !branch_0 by lra.
    apply f_equal2; [apply f_equal2|]; ring.
  - rewrite HT. rewrite (pos_of_nonpos (hbp - T)) by lra. rewrite !branch_0 by lra.
    apply f_equal2; [apply f_equal2|]; ring.
  - rewrite HT. rewrite (pos_of_nonpos (hbp - T)) by lra. rewrite (pos_of_nonpos (T - cbp)) by lra.
    rewrite !branch_0 by lra. apply f_equal2; [apply f_equal2|]; ring.
Qed.

(* observation functions (total: 0 where the document does not evaluate, excluded by [admissible]) *)
Definition zero_x : fullx N := mkx 0 0 0 0 0 0 0.
Definition eff (c : coeffs N) (tc : tconstr N) : fullx N :=
  match effective_x N c tc with Some x => x | None => zero_x end.
Definition predicted (c : coeffs N) (tc : tconstr N) (T : R) : R :=
  match predict_submodel N c tc T with Some (p, _, _) => p | None => 0 end.
Definition heating_load (c : coeffs N) (tc : tconstr N) (T : R) : R :=
  match predict_submodel N c tc T with Some (_, h, _) => h | None => 0 end.
Definition cooling_load (c : coeffs N) (tc : tconstr N) (T : R) : R :=
  match predict_submodel N c tc T with Some (_, _, k) => k | None => 0 end.

Definition off_corner (c : coeffs N) (tc : tconstr N) : Prop := off_corner_x (eff c tc) tc.

Lemma eff_good : forall c tc, admissible c tc ->
  effective_x N c tc = Some (eff c tc) /\ good (eff c tc) /\ x_intercept (eff c tc) = intercept c.
Proof.
  intros c tc A. destruct (effective_good c tc A) as (x & Hx & G & I & _). unfold eff. rewrite Hx. auto.
Qed.

Lemma upper_below_Tmax_off_corner : forall c tc, admissible c tc -> upper_bp c < T_max tc -> off_corner c tc.
Proof.
  intros c tc A H. destruct (effective_good c tc A) as (x & Hx & G & I & L & U & _).
  unfold off_corner, eff. rewrite Hx. left. intros _. lra.
Qed.

Lemma slopes_nonneg : forall c tc, admissible c tc -> 0 <= heat_slope c /\ 0 <= cool_slope c.
Proof.
  intros [s i hb hbeta hk cb cbeta ck] tc [_ A]. unfold admissible, heat_slope, cool_slope in *. cbn in *.
  destruct s, hb, hbeta, hk, cb, cbeta, ck; cbn; try contradiction; lra.
Qed.

Section Curve.
Variable c : coeffs N.
Variable tc : tconstr N.
Hypothesis Hadm : admissible c tc.
Hypothesis Hoff : off_corner c tc.
Notation x := (eff c tc).
Notation E := (predicted c tc).

Lemma predict_closed : forall T : R,
  predict_submodel N c tc T = Some (intercept c + heat_part x T + cool_part x T, heat_part x T, cool_part x T).
Proof.
  intros T. destruct (eff_good c tc Hadm) as (Hx & G & I).
  unfold predict_submodel. rewrite Hx. rewrite loads_of_closed by assumption. rewrite I. reflexivity.
Qed.

Lemma predicted_curve : forall T : R,
  E T = curve lo (x_hdd_bp x) (x_hdd_beta x) (x_hdd_k x) (x_cdd_bp x) (x_cdd_beta x) (x_cdd_k x) (intercept c) T.
Proof. intros T. unfold predicted. rewrite predict_closed. reflexivity. Qed.

Lemma heating_load_closed : forall T : R, heating_load c tc T = heat_part x T.
Proof. intros T. unfold heating_load. rewrite predict_closed. reflexivity. Qed.
Lemma cooling_load_closed : forall T : R, cooling_load c tc T = cool_part x T.
Proof. intros T. unfold cooling_load. rewrite predict_closed. reflexivity. Qed.

Lemma E_ext : E = curve lo (x_hdd_bp x) (x_hdd_beta x) (x_hdd_k x) (x_cdd_bp x) (x_cdd_beta x) (x_cdd_k x) (intercept c).
Proof. apply FunctionalExtensionality.functional_extensionality. exact predicted_curve. Qed.

Lemma p_continuous : continuity E.
Proof.
  destruct (eff_good c tc Hadm) as (_ & (G1 & G2 & G3 & G4 & G5) & _).
  rewrite E_ext. apply curve_continuous; assumption.
Qed.

Lemma p_lipschitz : forall T1 T2 : R,
  Rabs (E T1 - E T2) <= Rmax (x_hdd_beta x) (x_cdd_beta x) * Rabs (T1 - T2).
Proof.
  destruct (eff_good c tc Hadm) as (_ & (G1 & G2 & G3 & G4 & G5) & _).
  intros. rewrite !predicted_curve. apply curve_lipschitz; assumption.
Qed.

Lemma p_flat : forall T : R, x_hdd_bp x <= T <= x_cdd_bp x -> E T = intercept c.
Proof.
  destruct (eff_good c tc Hadm) as (_ & (G1 & G2 & G3 & G4 & G5) & _).
  intros. rewrite predicted_curve. apply curve_flat; assumption.
Qed.

Lemma p_ge_base : forall T : R, intercept c <= E T.
Proof.
  destruct (eff_good c tc Hadm) as (_ & (G1 & G2 & G3 & G4 & G5) & _).
  intros. rewrite predicted_curve. apply curve_ge_base; assumption.
Qed.

Lemma p_heating_monotone : forall T1 T2 : R, T1 <= T2 -> T2 <= x_hdd_bp x -> E T2 <= E T1.
Proof.
  destruct (eff_good c tc Hadm) as (_ & (G1 & G2 & G3 & G4 & G5) & _).
  intros. rewrite !predicted_curve. apply curve_heating_monotone; assumption.
Qed.

Lemma p_cooling_monotone : forall T1 T2 : R, x_cdd_bp x <= T1 -> T1 <= T2 -> E T1 <= E T2.
Proof.
  destruct (eff_good c tc Hadm) as (_ & (G1 & G2 & G3 & G4 & G5) & _).
  intros. rewrite !predicted_curve. apply curve_cooling_monotone; assumption.
Qed.

Lemma p_heating_remainder : forall T : R, T <= x_hdd_bp x ->
  E T - (intercept c + x_hdd_beta x * ((x_hdd_bp x - x_hdd_k x) - T)) =
  x_hdd_beta x * x_hdd_k x * sm lo (x_hdd_k x) (x_hdd_bp x - T).
Proof.
  destruct (eff_good c tc Hadm) as (_ & (G1 & G2 & G3 & G4 & G5) & _).
  intros. rewrite predicted_curve. apply curve_heating_remainder; assumption.
Qed.

Lemma p_cooling_remainder : forall T : R, x_cdd_bp x <= T ->
  E T - (intercept c + x_cdd_beta x * (T - (x_cdd_bp x + x_cdd_k x))) =
  x_cdd_beta x * x_cdd_k x * sm lo (x_cdd_k x) (T - x_cdd_bp x).
Proof.
  destruct (eff_good c tc Hadm) as (_ & (G1 & G2 & G3 & G4 & G5) & _).
  intros. rewrite predicted_curve. apply curve_cooling_remainder; assumption.
Qed.

Lemma p_heating_linear : forall T : R, x_hdd_k x = 0 -> T <= x_hdd_bp x ->
  E T = intercept c + x_hdd_beta x * (x_hdd_bp x - T).
Proof.
  intros T Hk HT. pose proof (p_heating_remainder T HT) as H. rewrite Hk in H.
  rewrite Rmult_0_r, Rmult_0_l, Rminus_0_r in H. lra.
Qed.

Lemma p_cooling_linear : forall T : R, x_cdd_k x = 0 -> x_cdd_bp x <= T ->
  E T = intercept c + x_cdd_beta x * (T - x_cdd_bp x).
Proof.
  intros T Hk HT. pose proof (p_cooling_remainder T HT) as H. rewrite Hk in H.
  rewrite Rmult_0_r, Rmult_0_l, Rplus_0_r in H. lra.
Qed.

(* smoothed: the distance to the asymptote is beta k e^(-d/k) as long as the exponent is not clipped *)
Lemma p_heating_remainder_exp : forall T : R, T <= x_hdd_bp x -> lo <= - ((x_hdd_bp x - T) / x_hdd_k x) ->
  E T - (intercept c + x_hdd_beta x * ((x_hdd_bp x - x_hdd_k x) - T)) =
  x_hdd_beta x * x_hdd_k x * exp (- ((x_hdd_bp x - T) / x_hdd_k x)).
Proof. intros T HT Hc. rewrite p_heating_remainder by exact HT. rewrite sm_unclipped by exact Hc. reflexivity. Qed.

Lemma p_cooling_remainder_exp : forall T : R, x_cdd_bp x <= T -> lo <= - ((T - x_cdd_bp x) / x_cdd_k x) ->
  E T - (intercept c + x_cdd_beta x * (T - (x_cdd_bp x + x_cdd_k x))) =
  x_cdd_beta x * x_cdd_k x * exp (- ((T - x_cdd_bp x) / x_cdd_k x)).
Proof. intros T HT Hc. rewrite p_cooling_remainder by exact HT. rewrite sm_unclipped by exact Hc. reflexivity. Qed.

(* ... and it vanishes far from the balance point, down to the floor e^lo that the clip leaves *)
Lemma p_heating_asymptote : forall eps : R, 0 < eps -> exists M : R, forall T : R, T < M ->
  0 <= E T - (intercept c + x_hdd_beta x * ((x_hdd_bp x - x_hdd_k x) - T))
    <= x_hdd_beta x * x_hdd_k x * (eps + exp lo).
Proof.
  destruct (eff_good c tc Hadm) as (_ & (G1 & G2 & G3 & G4 & G5) & _).
  intros eps Heps. exists (x_hdd_bp x - x_hdd_k x / eps). intros T HT.
  assert (Hq : 0 <= x_hdd_k x / eps) by (apply Rmult_le_pos; [exact G4 | left; apply Rinv_0_lt_compat; exact Heps]).
  rewrite p_heating_remainder by lra.
  pose proof (sm_pos lo (x_hdd_k x) (x_hdd_bp x - T)) as Hp.
  pose proof (exp_pos lo) as Hel.
  assert (Hbk : 0 <= x_hdd_beta x * x_hdd_k x) by (apply Rmult_le_pos; assumption).
  destruct G4 as [G4|G4].
  - split; [apply Rmult_le_pos; lra|].
    apply Rmult_le_compat_l; [exact Hbk|]. left. apply sm_small; try assumption. lra.
  - rewrite <- G4. rewrite Rmult_0_r, !Rmult_0_l. lra.
Qed.

Lemma p_cooling_asymptote : forall eps : R, 0 < eps -> exists M : R, forall T : R, M < T ->
  0 <= E T - (intercept c + x_cdd_beta x * (T - (x_cdd_bp x + x_cdd_k x)))
    <= x_cdd_beta x * x_cdd_k x * (eps + exp lo).
Proof.
  destruct (eff_good c tc Hadm) as (_ & (G1 & G2 & G3 & G4 & G5) & _).
  intros eps Heps. exists (x_cdd_bp x + x_cdd_k x / eps). intros T HT.
  assert (Hq : 0 <= x_cdd_k x / eps) by (apply Rmult_le_pos; [exact G5 | left; apply Rinv_0_lt_compat; exact Heps]).
  rewrite p_cooling_remainder by lra.
  pose proof (sm_pos lo (x_cdd_k x) (T - x_cdd_bp x)) as Hp.
  pose proof (exp_pos lo) as Hel.
  assert (Hbk : 0 <= x_cdd_beta x * x_cdd_k x) by (apply Rmult_le_pos; assumption).
  destruct G5 as [G5|G5].
  - split; [apply Rmult_le_pos; lra|].
    apply Rmult_le_compat_l; [exact Hbk|]. left. apply sm_small; try assumption. lra.
  - rewrite <- G5. rewrite Rmult_0_r, !Rmult_0_l. lra.
Qed.

(* loads *)
Lemma loads_nonneg : forall T : R, 0 <= heating_load c tc T /\ 0 <= cooling_load c tc T.
Proof.
  destruct (eff_good c tc Hadm) as (_ & (G1 & G2 & G3 & G4 & G5) & _).
  intros T. rewrite heating_load_closed, cooling_load_closed. unfold heat_part, cool_part.
  split; apply branch_nonneg; try assumption; apply pos_nonneg.
Qed.

Lemma loads_exclusive : forall T : R, heating_load c tc T = 0 \/ cooling_load c tc T = 0.
Proof.
  destruct (eff_good c tc Hadm) as (_ & (G1 & G2 & G3 & G4 & G5) & _).
  intros T. rewrite heating_load_closed, cooling_load_closed. unfold heat_part, cool_part.
  destruct (Rle_dec (x_hdd_bp x) T) as [H|H].
  - left. rewrite pos_of_nonpos by lra. apply branch_0. exact Hlo.
  - right. rewrite pos_of_nonpos by lra. apply branch_0. exact Hlo.
Qed.

Lemma loads_add_up : forall T : R, intercept c + heating_load c tc T + cooling_load c tc T = E T.
Proof.
  intros T. unfold heating_load, cooling_load, predicted. rewrite predict_closed. reflexivity.
Qed.

(* a load is carried only on its own side of its balance point *)
Lemma heating_load_zero_above : forall T : R, x_hdd_bp x <= T -> heating_load c tc T = 0.
Proof.
  intros T H. rewrite heating_load_closed. unfold heat_part. rewrite pos_of_nonpos by lra. apply branch_0. exact Hlo.
Qed.
Lemma cooling_load_zero_below : forall T : R, T <= x_cdd_bp x -> cooling_load c tc T = 0.
Proof.
  intros T H. rewrite cooling_load_closed. unfold cool_part. rewrite pos_of_nonpos by lra. apply branch_0. exact Hlo.
Qed.


Lemma p_lipschitz_stored : forall T1 T2 : R,
  Rabs (E T1 - E T2) <= Rmax (heat_slope c) (cool_slope c) * Rabs (T1 - T2).
Proof.
  intros T1 T2. destruct (slopes_nonneg c tc Hadm) as [N1 N2].
  destruct (effective_good c tc Hadm) as (x0 & Hx & (G1 & G2 & G3 & G4 & G5) & I & L & U & S1 & S2 & _).
  pose proof (p_lipschitz T1 T2) as HL. unfold eff in HL. rewrite Hx in HL.
  eapply Rle_trans; [exact HL|]. apply Rmult_le_compat_r; [apply Rabs_pos|].
  pose proof (Rmax_l (heat_slope c) (cool_slope c)). pose proof (Rmax_r (heat_slope c) (cool_slope c)).
  apply Rmax_lub; [destruct S1 as [S1|S1] | destruct S2 as [S2|S2]]; rewrite ?S1, ?S2; lra.
Qed.
End Curve.

(* ---------------- get_smooth_coeffs keeps the order, so full_model's swap never fires on admissible documents *)
Lemma smooth_coeffs_order : forall hbp ph cbp pc : R, hbp <= cbp -> 0 <= ph -> 0 <= pc ->
  let '(hbp', hk, cbp', ck) := get_smooth_coeffs N hbp ph cbp pc in
  hbp <= hbp' /\ hbp' <= cbp' /\ cbp' <= cbp /\ 0 <= hk /\ 0 <= ck.
Proof.
  intros hbp ph cbp pc H1 H2 H3.
  destruct (smooth_coeffs_spec hbp ph cbp pc H1 H2 H3) as (hk & ck & Hs & S1 & S2 & S3 & _).
  rewrite Hs. repeat split; lra.
Qed.

Lemma effective_ordered : forall c tc, admissible c tc ->
  order_bps N (eff c tc) = eff c tc.
Proof.
  intros c tc A. destruct (eff_good c tc A) as (_ & (G1 & _) & _).
  destruct (eff c tc) as [a b d e f g h]. cbn in G1. apply (order_bps_id a b d e f g h G1).
Qed.

(* ---------------- the regime-switch corner: equal balance points at or above T_max *)
Lemma regime_corner : forall hbp hbeta hk cbeta ck icpt Tmin Tmax T : R, Tmax <= hbp ->
  regime N (mkx hbp hbeta hk hbp cbeta ck icpt) Tmin Tmax T = (- hbeta, hk, hbp).
Proof.
  intros * H. unfold regime. cbn. unfold n_geb. cbn. unfold Rltb, Reqb, Rleb.
  destruct (Rlt_dec T hbp); [reflexivity|]. destruct (Req_EM_T hbp hbp); [|lra].
  destruct (Rle_dec Tmax hbp); [reflexivity | lra].
Qed.

(* the heating line is evaluated on both sides of the balance point *)
Lemma full_model1_corner_unsmoothed : forall hbp hbeta cbeta ck icpt Tmin Tmax T : R,
  Tmax <= hbp -> hbeta <> 0 ->
  full_model1 N (mkx hbp hbeta 0 hbp cbeta ck icpt) Tmin Tmax T = icpt + hbeta * (hbp - T).
Proof.
  intros * H Hb. unfold full_model1. rewrite order_bps_id by lra.
  change (x_hdd_beta (mkx hbp hbeta 0 hbp cbeta ck icpt)) with hbeta.
  change (@n_eqb N hbeta n_zero) with (Reqb hbeta 0).
  assert (Hz : Reqb hbeta 0 = false) by (apply Reqb_false; exact Hb). rewrite Hz. cbn [andb].
  rewrite regime_corner by exact H. unfold evaluate. cbn. unfold Reqb.
  destruct (Req_EM_T (- hbeta) 0); [lra|]. destruct (Req_EM_T 0 0); [|lra]. ring.
Qed.

(* a heating-only unsmoothed document whose balance point is T_max: the heating line on BOTH sides *)
Lemma corner_hdd_tidd : forall (i bp beta Tmin Tminseg T : R),
  Tminseg <= bp -> beta < 0 -> bp < T ->
  predict_submodel N (Build_coeffs N HddTidd i (Some bp) (Some beta) None None None None)
                     (Build_tconstr N Tmin bp Tminseg bp) T
  = Some (i + - beta * (bp - T), 0, - beta * (bp - T)).
Proof.
  intros i bp beta Tmin Tminseg T H1 H2 H3.
  unfold predict_submodel, effective_x, get_full_model_x. cbn.
  unfold n_gtb. cbn. unfold Rltb.
  destruct (Rlt_dec bp Tminseg); [lra|]. destruct (Rlt_dec bp bp); [lra|]. destruct (Rlt_dec beta 0); [|lra].
  change (@n_zero N) with 0.
  destruct (fix_ordered bp (- beta) 0 bp 0 0 i Tmin bp (Rle_refl bp))
    as (hbeta' & hk' & cbeta' & ck' & Hfix & Fb1 & Fb2 & Fk1 & Fk2 & Z1 & Z2 & _ & _ & Fint).
  unfold mkx in Hfix. rewrite Hfix.
  destruct (Fint (or_introl eq_refl)) as [I1 I2].
  assert (hk' = 0) by (destruct Fk1; assumption). assert (ck' = 0) by (destruct Fk2; assumption).
  subst hbeta' cbeta' hk' ck'.
  unfold loads_of.
  pose proof (full_model1_corner_unsmoothed bp (- beta) 0 0 i Tmin bp T (Rle_refl bp)) as HE.
  unfold mkx in HE. rewrite HE by lra. cbn. unfold n_geb. cbn. unfold Rleb.
  destruct (Rle_dec T bp); [lra|]. destruct (Rle_dec bp T); [|lra].
  f_equal. apply f_equal2; [reflexivity | ring].
Qed.
End ModelFacts.

(* the floor the clip leaves under the smoothing factor is below 2^-331 *)
Lemma exp_nat_ge : forall n : nat, 2 ^ n <= exp (INR n).
Proof.
  induction n as [|n IH].
  - simpl. rewrite exp_0. lra.
  - rewrite S_INR, exp_plus. simpl pow.
    pose proof (Rpower.exp_ineq1_le 1) as H1. pose proof (exp_pos (INR n)) as Hp.
    assert (H2 : 2 <= exp 1) by lra.
    assert (Hpow : 0 <= 2 ^ n) by (apply pow_le; lra).
    rewrite Rmult_comm. apply Rmult_le_compat; lra.
Qed.

Lemma exp_ln_min_tiny : exp R_ln_min <= / 2 ^ 331.
Proof.
  assert (H : R_ln_min <= - INR 331).
  { rewrite INR_IZR_INZ. unfold R_ln_min. simpl Z.of_nat.
    apply Ropp_le_contravar. apply Rmult_le_reg_r with 17592186044416; [lra|].
    unfold Rdiv. rewrite Rmult_assoc, Rinv_l by lra. lra. }
  apply Rle_trans with (exp (- INR 331)).
  - destruct H as [H|H]; [left; apply exp_increasing; exact H | right; rewrite H; reflexivity].
  - rewrite exp_Ropp. apply Rinv_le_contravar; [apply pow_lt; lra | apply exp_nat_ge].
Qed.

(* ------------------------------------------------------------------------------------------ *)
(* Part 4: the shifted balance points never cross, for ANY numeric instance                     *)
(* ------------------------------------------------------------------------------------------ *)
(* get_smooth_coeffs as coded (with the guard of /repo 742a3de4): for an ordered input the shifted cooling balance
   point is never below the shifted heating one, whatever the arithmetic does -- only two order-theoretic facts
   about the comparisons of the instance are used (both hold for IEEE binary64, NaN included, and for R). *)
Section AnyNum.
Variable N : num.
Hypothesis ltb_irrefl : forall x : N, @n_ltb N x x = false.
Hypothesis leb_not_gt : forall a b : N, @n_leb N a b = true -> @n_ltb N b a = false.

Lemma smooth_coeffs_never_cross : forall hb ph cb pc : N, @n_leb N hb cb = true ->
  let '(hb', _, cb', _) := get_smooth_coeffs N hb ph cb pc in @n_ltb N cb' hb' = false.
Proof.
  intros hb ph cb pc Hle. unfold get_smooth_coeffs.
  destruct (@n_ltb N ph (min_pct_k N) && @n_ltb N pc (min_pct_k N)).
  - apply leb_not_gt. exact Hle.
  - cbv zeta. rewrite Hle. cbn [andb].
    match goal with |- context [if @n_ltb N ?a ?b then _ else _] => destruct (@n_ltb N a b) eqn:E end.
    + apply ltb_irrefl.
    + exact E.
Qed.

(* hence the swap that opens full_model does not fire on the vector get_smooth_coeffs produced *)
Lemma smooth_vector_not_swapped : forall (hb ph cb pc hbeta cbeta i : N), @n_leb N hb cb = true ->
  let '(hb', hk, cb', ck) := get_smooth_coeffs N hb ph cb pc in
  order_bps N (Build_fullx N hb' hbeta hk cb' cbeta ck i) = Build_fullx N hb' hbeta hk cb' cbeta ck i.
Proof.
  intros hb ph cb pc hbeta cbeta i Hle.
  pose proof (smooth_coeffs_never_cross hb ph cb pc Hle) as H.
  destruct (get_smooth_coeffs N hb ph cb pc) as [[[hb' hk] cb'] ck].
  unfold order_bps. cbn. rewrite H. reflexivity.
Qed.
End AnyNum.

Lemma Rltb_irrefl : forall x : R, Rltb x x = false.
Proof. intros x. apply Rltb_false. apply Rle_refl. Qed.
Lemma Rleb_not_gt : forall a b : R, Rleb a b = true -> Rltb b a = false.
Proof. intros a b H. apply Rleb_true in H. apply Rltb_false. exact H. Qed.

(* ------------------------------------------------------------------------------------------ *)
(* Part 5: the stored temperature constraints are read BY KEY, so key order is immaterial       *)
(* ------------------------------------------------------------------------------------------ *)
(* DailySubmodelParameters.temperature_constraints is a JSON object (Dict[str, float]); _predict_submodel reads its four
   entries by key.  Reading by key from a duplicate-free association list is invariant under any permutation of the
   list, hence so are the constraints record and the three prediction columns, for every numeric instance. *)
From Coq Require Import String Permutation.

Section ByKey.
Variable A : Type.

Fixpoint lookup (k : string) (l : list (string * A)) : option A :=
  match l with
  | [] => None
  | (k', v) :: rest => if String.eqb k k' then Some v else lookup k rest
  end.

Lemma lookup_not_in : forall k l, ~ In k (map fst l) -> lookup k l = None.
Proof.
  intros k l. induction l as [|[k' v] l IH]; intros H; [reflexivity|]. cbn in *.
  destruct (String.eqb k k') eqn:E.
  - apply String.eqb_eq in E. exfalso. apply H. left. symmetry. exact E.
  - apply IH. intros Hin. apply H. right. exact Hin.
Qed.

Lemma lookup_permutation : forall (l l' : list (string * A)), Permutation l l' -> NoDup (map fst l) ->
  forall k, lookup k l = lookup k l'.
Proof.
  intros l l' P. induction P as [|[k0 v0] l l' P IH|[k1 v1] [k2 v2] l|l1 l2 l3 P1 IH1 P2 IH2]; intros ND k.
  - reflexivity.
  - cbn. cbn in ND. inversion ND as [|? ? Hn ND']; subst. rewrite (IH ND' k). reflexivity.
  - cbn. cbn in ND. inversion ND as [|? ? Hn ND']; subst.
    destruct (String.eqb k k2) eqn:E2; destruct (String.eqb k k1) eqn:E1; try reflexivity.
    apply String.eqb_eq in E1, E2. subst. exfalso. apply Hn. left. reflexivity.
  - rewrite (IH1 ND k). apply IH2.
    apply (Permutation_NoDup (Permutation_map fst P1) ND).
Qed.
End ByKey.

Section ConstraintsByKey.
Variable N : num.

Definition tconstr_of_assoc (l : list (string * N)) : option (tconstr N) :=
  match lookup N "T_min" l, lookup N "T_max" l, lookup N "T_min_seg" l, lookup N "T_max_seg" l with
  | Some a, Some b, Some c, Some d => Some (Build_tconstr N a b c d)
  | _, _, _, _ => None
  end.

Definition predict_submodel_doc (c : coeffs N) (tcdoc : list (string * N)) (Ti : N) : option (N * N * N) :=
  match tconstr_of_assoc tcdoc with
  | Some tc => predict_submodel N c tc Ti
  | None => None
  end.

Lemma tconstr_of_assoc_permutation : forall l l', Permutation l l' -> NoDup (map fst l) ->
  tconstr_of_assoc l = tconstr_of_assoc l'.
Proof.
  intros l l' P ND. unfold tconstr_of_assoc.
  rewrite !(lookup_permutation N l l' P ND). reflexivity.
Qed.

Lemma predict_key_order_irrelevant : forall c l l' Ti, Permutation l l' -> NoDup (map fst l) ->
  predict_submodel_doc c l Ti = predict_submodel_doc c l' Ti.
Proof.
  intros c l l' Ti P ND. unfold predict_submodel_doc. rewrite (tconstr_of_assoc_permutation l l' P ND). reflexivity.
Qed.
End ConstraintsByKey.
