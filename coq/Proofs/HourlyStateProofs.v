(* Lemmas about Model/HourlyState.v (C02). *)
From Coq Require Import ZArith List Bool Lia.
From V Require Import Model.HourlyState.
Import ListNotations.
Open Scope Z_scope.

Lemma combo_eqb_refl : forall c, combo_eqb c c = true.
Proof. intros [a b]. unfold combo_eqb. cbn. rewrite !Z.eqb_refl. reflexivity. Qed.

Lemma combo_eqb_eq : forall a b, combo_eqb a b = true <-> a = b.
Proof.
  intros [a1 a2] [b1 b2]. unfold combo_eqb. cbn. rewrite andb_true_iff, !Z.eqb_eq.
  split; [intros [-> ->]; reflexivity | intros H; inversion H; auto].
Qed.

Lemma combo_eqb_neq : forall a b, a <> b -> combo_eqb a b = false.
Proof.
  intros a b H. destruct (combo_eqb a b) eqn:E; [|reflexivity]. apply combo_eqb_eq in E. contradiction.
Qed.

(* ---- the pure configuration: predict leaves the state alone ---- *)

Lemma next_state_pure : forall fill s d, next_state pure_cfg fill s d = s.
Proof.
  intros fill [t f w h] d. unfold next_state. cbn [assigns_back appends_warning extends_features writes_other_state pure_cfg andb].
  destruct (missing_features _ d); [reflexivity|].
  cbn [clusters ts_features warnings hidden]. destruct (corrected fill t d); reflexivity.
Qed.

Lemma hrun_pure : forall ops s, hrun pure_cfg s ops = s.
Proof.
  unfold hrun. induction ops as [|o ops IH]; intros s; cbn [fold_left]; [reflexivity|].
  rewrite <- (IH s) at 2. f_equal. destruct o; cbn [hstep]; [apply next_state_pure | reflexivity ..].
Qed.

Lemma predict_pure_l : forall fill s d,
  abs (fst (predict_step pure_cfg fill s d)) = abs s /\
  snd (predict_step pure_cfg fill s d) = spec_predict fill s d.
Proof. intros. unfold predict_step. cbn [fst snd]. rewrite next_state_pure. split; reflexivity. Qed.

Lemma history_independent_pure : forall s ops d fill,
  snd (predict_step pure_cfg fill (hrun pure_cfg s ops) d) = snd (predict_step pure_cfg fill s d).
Proof. intros. rewrite hrun_pure. reflexivity. Qed.

(* ---- what the result depends on ---- *)

Lemma predict_out_ext : forall cfg fill s s' d, writes_other_state cfg = false ->
  clusters s = clusters s' -> ts_features s = ts_features s' ->
  predict_out cfg fill s d = predict_out cfg fill s' d.
Proof.
  intros cfg fill s s' d Ho Hc Ht. unfold predict_out, missing_features, new_supp. rewrite Hc, Ht, Ho. reflexivity.
Qed.

Lemma next_state_keeps : forall cfg fill s d,
  assigns_back cfg = false -> extends_features cfg = false ->
  clusters (next_state cfg fill s d) = clusters s /\ ts_features (next_state cfg fill s d) = ts_features s.
Proof.
  intros cfg fill s d Ha He. unfold next_state. rewrite Ha, He.
  destruct (missing_features s d); [split; reflexivity|].
  destruct (corrected fill (clusters s) d); cbn [clusters ts_features]; split; reflexivity.
Qed.

Lemma hrun_keeps : forall cfg ops s,
  assigns_back cfg = false -> extends_features cfg = false ->
  clusters (hrun cfg s ops) = clusters s /\ ts_features (hrun cfg s ops) = ts_features s.
Proof.
  intros cfg ops. unfold hrun. induction ops as [|o ops IH]; intros s Ha He; cbn [fold_left]; [split; reflexivity|].
  destruct (IH (hstep cfg s o) Ha He) as [H1 H2]. rewrite H1, H2.
  destruct o; cbn [hstep]; [apply next_state_keeps; assumption | split; reflexivity ..].
Qed.

Lemma history_independent_guarded : forall cfg s ops d fill,
  assigns_back cfg = false -> extends_features cfg = false -> writes_other_state cfg = false ->
  snd (predict_step cfg fill (hrun cfg s ops) d) = snd (predict_step cfg fill s d).
Proof.
  intros cfg s ops d fill Ha He Ho. unfold predict_step. cbn [snd].
  destruct (hrun_keeps cfg ops s Ha He) as [H1 H2]. apply predict_out_ext; assumption.
Qed.

(* ---- as coded: a data set that covers exactly the fitted table leaves it alone ---- *)

Lemma get_head : forall k v r, get ((k, v) :: r) k = v.
Proof. intros. unfold get. cbn [lookup]. rewrite combo_eqb_refl. reflexivity. Qed.

Lemma get_tail : forall k v r c, k <> c -> get ((k, v) :: r) c = get r c.
Proof. intros. unfold get. cbn [lookup]. rewrite combo_eqb_neq by assumption. reflexivity. Qed.

Lemma reindex_self : forall t, NoDup (map fst t) -> reindex t (map fst t) = t.
Proof.
  induction t as [|[k v] r IH]; intros Hn; [reflexivity|].
  cbn [map fst] in *. inversion Hn as [|? ? Hk Hr]; subst.
  unfold reindex. cbn [map]. rewrite get_head. f_equal.
  rewrite <- (IH Hr) at 2. unfold reindex. apply map_ext_in.
  intros c Hc. f_equal. apply get_tail. intros ->. contradiction.
Qed.

Definition all_known (t : table) : bool := forallb (fun e => negb (is_missing e)) t.

Lemma all_known_no_missing : forall t, all_known t = true -> has_missing t = false.
Proof.
  induction t as [|e r IH]; [reflexivity|]. cbn [all_known forallb has_missing existsb]. intros H.
  apply andb_prop in H. destruct H as [H1 H2]. apply negb_true_iff in H1. rewrite H1. apply IH, H2.
Qed.

Lemma covering_keeps_table : forall fill t d,
  NoDup (map fst t) -> all_known t = true -> ds_combos d = map fst t -> corrected fill t d = Some t.
Proof.
  intros fill t d Hn Hk Hc. unfold corrected. rewrite Hc, reindex_self by assumption.
  rewrite (all_known_no_missing t Hk). reflexivity.
Qed.

Definition covers (s : hstate) (d : dsum) : Prop :=
  NoDup (map fst (clusters s)) /\ all_known (clusters s) = true /\ ds_combos d = map fst (clusters s) /\
  (ds_ghi d = true -> mem GHI (ts_features s) = true) /\ new_supp s d = [].

Lemma covering_next_state : forall cfg fill s d, writes_other_state cfg = false -> covers s d -> next_state cfg fill s d = s.
Proof.
  intros cfg fill [t f w h] d Ho (Hn & Hk & Hc & Hg & Hs). cbn [clusters ts_features warnings hidden] in *.
  unfold next_state. rewrite Ho. destruct (missing_features _ d); [reflexivity|]. cbn [clusters ts_features warnings hidden].
  rewrite (covering_keeps_table fill t d Hn Hk Hc). rewrite Hs, app_nil_r.
  assert (Hw : (appends_warning cfg && ds_ghi d && negb (mem GHI f)) = false).
  { destruct (ds_ghi d); [rewrite (Hg eq_refl)|]; destruct (appends_warning cfg); reflexivity. }
  rewrite Hw. destruct (assigns_back cfg), (extends_features cfg); reflexivity.
Qed.

(* ---- refutations: each of the three statements alone breaks the property ---- *)

Definition w_table : table := [((1, 0), Some 0); ((2, 0), Some 1)].
Definition w_state : hstate := {| clusters := w_table; ts_features := [TEMPERATURE]; warnings := []; hidden := 0 |}.
(* a week of January with observed usage; the same week offering a GHI column; January+February without observed;
   a week offering a column the settings declare as supplemental *)
Definition w_jan : dsum :=
  {| ds_id := 1; ds_combos := [(1, 0)]; ds_observed := true; ds_columns := [TEMPERATURE]; ds_supp := []; ds_late_exc := false |}.
Definition w_jan_ghi : dsum :=
  {| ds_id := 2; ds_combos := [(1, 0); (2, 0)]; ds_observed := true; ds_columns := [TEMPERATURE; GHI]; ds_supp := [];
     ds_late_exc := false |}.
Definition w_janfeb : dsum :=
  {| ds_id := 3; ds_combos := [(1, 0); (2, 0)]; ds_observed := false; ds_columns := [TEMPERATURE]; ds_supp := [];
     ds_late_exc := false |}.
Definition w_supp : dsum :=
  {| ds_id := 4; ds_combos := [(1, 0); (2, 0)]; ds_observed := true; ds_columns := [TEMPERATURE; 10]; ds_supp := [10];
     ds_late_exc := false |}.
Definition w_fill (c : combo) : Z := 0.

Lemma assigns_back_changes_state : forall cfg, assigns_back cfg = true ->
  clusters (next_state cfg w_fill w_state w_jan) <> clusters w_state.
Proof. intros [a b c e] H. cbn in H. subst a. destruct b, c, e; vm_compute; discriminate. Qed.

Lemma appends_warning_changes_state : forall cfg, appends_warning cfg = true ->
  warnings (next_state cfg w_fill w_state w_jan_ghi) <> warnings w_state.
Proof. intros [a b c e] H. cbn in H. subst b. destruct a, c, e; vm_compute; discriminate. Qed.

Lemma extends_features_changes_state : forall cfg, extends_features cfg = true ->
  ts_features (next_state cfg w_fill w_state w_supp) <> ts_features w_state.
Proof. intros [a b c e] H. cbn in H. subst c. destruct a, b, e; vm_compute; discriminate. Qed.

Lemma writes_other_state_changes_state : forall cfg, writes_other_state cfg = true ->
  hidden (next_state cfg w_fill w_state w_jan) <> hidden w_state.
Proof. intros [a b c e] H. cbn in H. subst e. destruct a, b, c; vm_compute; discriminate. Qed.

Lemma state_unchanged_iff : forall cfg,
  (forall fill s d, next_state cfg fill s d = s) <->
  (assigns_back cfg = false /\ appends_warning cfg = false /\ extends_features cfg = false /\ writes_other_state cfg = false).
Proof.
  intros cfg. split.
  - intros H. repeat split.
    4: { destruct (writes_other_state cfg) eqn:E; [|reflexivity]. exfalso.
         apply (writes_other_state_changes_state cfg E). rewrite H. reflexivity. }
    + destruct (assigns_back cfg) eqn:E; [|reflexivity]. exfalso.
      apply (assigns_back_changes_state cfg E). rewrite H. reflexivity.
    + destruct (appends_warning cfg) eqn:E; [|reflexivity]. exfalso.
      apply (appends_warning_changes_state cfg E). rewrite H. reflexivity.
    + destruct (extends_features cfg) eqn:E; [|reflexivity]. exfalso.
      apply (extends_features_changes_state cfg E). rewrite H. reflexivity.
  - intros (Ha & Hw & He & Ho) fill s d. destruct cfg as [a b c e]. cbn in Ha, Hw, He, Ho. subst. apply next_state_pure.
Qed.

(* the prediction for January+February after a January week differs from the prediction of a fresh copy *)
Lemma assigns_back_history_dependent : forall cfg, assigns_back cfg = true ->
  snd (predict_step cfg w_fill (hrun cfg w_state [HPredict w_jan w_fill]) w_janfeb) <>
  snd (predict_step cfg w_fill w_state w_janfeb).
Proof. intros [a b c e] H. cbn in H. subst a. destruct b, c, e; vm_compute; discriminate. Qed.

(* after a failed call on data with a new supplemental column, ordinary data is rejected *)
Lemma extends_features_history_dependent : forall cfg, extends_features cfg = true ->
  snd (predict_step cfg w_fill (hrun cfg w_state [HPredict w_supp w_fill]) w_jan_ghi) <>
  snd (predict_step cfg w_fill w_state w_jan_ghi).
Proof. intros [a b c e] H. cbn in H. subst c. destruct a, b, e; vm_compute; discriminate. Qed.

Lemma writes_other_state_history_dependent : forall cfg, writes_other_state cfg = true ->
  snd (predict_step cfg w_fill (hrun cfg w_state [HPredict w_jan w_fill]) w_janfeb) <>
  snd (predict_step cfg w_fill w_state w_janfeb).
Proof. intros [a b c e] H. cbn in H. subst e. destruct a, b, c; vm_compute; discriminate. Qed.

Lemma history_independent_iff : forall cfg,
  (forall s ops d fill, snd (predict_step cfg fill (hrun cfg s ops) d) = snd (predict_step cfg fill s d)) <->
  (assigns_back cfg = false /\ extends_features cfg = false /\ writes_other_state cfg = false).
Proof.
  intros cfg. split.
  - intros H. repeat split.
    + destruct (assigns_back cfg) eqn:E; [|reflexivity]. exfalso.
      exact (assigns_back_history_dependent cfg E (H _ _ _ _)).
    + destruct (extends_features cfg) eqn:E; [|reflexivity]. exfalso.
      exact (extends_features_history_dependent cfg E (H _ _ _ _)).
    + destruct (writes_other_state cfg) eqn:E; [|reflexivity]. exfalso.
      exact (writes_other_state_history_dependent cfg E (H _ _ _ _)).
  - intros (Ha & He & Ho) s ops d fill. apply history_independent_guarded; assumption.
Qed.

(* ---- the corrected table never invents a label (given the oracle's contract) ---- *)

Definition labels_of (t : table) : list Z := flat_map (fun e => match snd e with Some v => [v] | None => [] end) t.
Definition lab_in (x : label) (l : list Z) : Prop := match x with Some v => In v l | None => True end.

Lemma labels_of_in : forall t c v, In (c, Some v) t -> In v (labels_of t).
Proof.
  intros t c v H. unfold labels_of. apply in_flat_map. exists (c, Some v). split; [assumption | left; reflexivity].
Qed.

Lemma lookup_in : forall t c v, lookup t c = Some v -> In (c, v) t.
Proof.
  induction t as [|[k u] r IH]; intros c v H; [discriminate|]. cbn [lookup] in H.
  destruct (combo_eqb k c) eqn:E.
  - apply combo_eqb_eq in E. subst. inversion H; subst. left; reflexivity.
  - right. apply IH, H.
Qed.

Lemma get_lab_in : forall t c, lab_in (get t c) (labels_of t).
Proof.
  intros t c. unfold get. destruct (lookup t c) as [[v|]|] eqn:E; cbn; auto.
  eapply labels_of_in, lookup_in, E.
Qed.

Lemma labels_reindex : forall t cs, incl (labels_of (reindex t cs)) (labels_of t).
Proof.
  intros t cs v H. unfold labels_of, reindex in H. apply in_flat_map in H. destruct H as [[c x] [H1 H2]].
  apply in_map_iff in H1. destruct H1 as [c' [H1 _]]. inversion H1; subst. cbn [snd] in H2.
  pose proof (get_lab_in t c) as G. destruct (get t c); cbn in H2; [|contradiction].
  destruct H2 as [<-|[]]. exact G.
Qed.

Lemma labels_fill_nearest : forall fill t, (forall c, In (fill c) (labels_of t)) ->
  incl (labels_of (fill_nearest fill t)) (labels_of t).
Proof.
  intros fill t Hf v H. unfold labels_of, fill_nearest in H. apply in_flat_map in H. destruct H as [e [H1 H2]].
  apply in_map_iff in H1. destruct H1 as [[c x] [H1 H3]]. unfold is_missing in H1. cbn [snd fst] in H1.
  destruct x as [u|]; subst e; cbn [snd] in H2.
  - destruct H2 as [<-|[]]. eapply labels_of_in, H3.
  - destruct H2 as [<-|[]]. apply Hf.
Qed.

(* ---- the refinement statement, for every configuration ---- *)

Lemma abs_inj : forall a b, abs a = abs b -> a = b.
Proof. intros [t f w h] [t' f' w' h'] H. unfold abs in H. cbn in H. inversion H. reflexivity. Qed.

Lemma predict_pure_iff : forall cfg,
  (forall fill s d, abs (fst (predict_step cfg fill s d)) = abs s /\
                    snd (predict_step cfg fill s d) = spec_predict fill s d) <->
  (assigns_back cfg = false /\ appends_warning cfg = false /\ extends_features cfg = false /\ writes_other_state cfg = false).
Proof.
  intros cfg. split.
  - intros H. apply state_unchanged_iff. intros fill s d. apply abs_inj. exact (proj1 (H fill s d)).
  - intros (Ha & Hw & He & Ho). destruct cfg as [a b c e]. cbn in Ha, Hw, He, Ho. subst. apply predict_pure_l.
Qed.

(* ---- the unstack / ffill / bfill / stack branch never invents a label either ---- *)

Definition cells_in (S : list Z) (l : list label) : Prop := Forall (fun x => lab_in x S) l.
Definition grid_in (S : list Z) (g : grid) : Prop := Forall (cells_in S) g.

Lemma orelse_in : forall S x p, lab_in x S -> lab_in p S -> lab_in (orelse x p) S.
Proof. intros S [v|] p Hx Hp; cbn; assumption. Qed.

Lemma ffill_from_in : forall S l prev, lab_in prev S -> cells_in S l -> cells_in S (ffill_from prev l).
Proof.
  intros S. induction l as [|x r IH]; intros prev Hp Hl; cbn [ffill_from]; [constructor|].
  inversion Hl; subst. constructor; [apply orelse_in; assumption|]. apply IH; [apply orelse_in; assumption | assumption].
Qed.

Lemma ffill_in : forall S l, cells_in S l -> cells_in S (ffill l).
Proof. intros. apply ffill_from_in; [exact I | assumption]. Qed.

Lemma bfill_in : forall S l, cells_in S l -> cells_in S (bfill l).
Proof. intros S l H. unfold bfill. apply Forall_rev, ffill_in, Forall_rev, H. Qed.

Lemma zip_orelse_in : forall S row prev, cells_in S row -> cells_in S prev -> cells_in S (zip_orelse row prev).
Proof.
  intros S. induction row as [|x r IH]; intros prev Hr Hp; cbn [zip_orelse]; [constructor|].
  destruct prev as [|p q]; [assumption|]. inversion Hr; inversion Hp; subst.
  constructor; [apply orelse_in; assumption | apply IH; assumption].
Qed.

Lemma ffill_rows_from_in : forall S g prev, cells_in S prev -> grid_in S g -> grid_in S (ffill_rows_from prev g).
Proof.
  intros S. induction g as [|row rest IH]; intros prev Hp Hg; cbn [ffill_rows_from]; [constructor|].
  inversion Hg; subst. constructor; [apply zip_orelse_in; assumption|].
  apply IH; [apply zip_orelse_in; assumption | assumption].
Qed.

Lemma ffill_rows_in : forall S g, grid_in S g -> grid_in S (ffill_rows g).
Proof. intros. apply ffill_rows_from_in; [constructor | assumption]. Qed.

Lemma bfill_rows_in : forall S g, grid_in S g -> grid_in S (bfill_rows g).
Proof. intros S g H. unfold bfill_rows. apply Forall_rev, ffill_rows_in, Forall_rev, H. Qed.

Lemma map_rows_in : forall S (f : list label -> list label) g,
  (forall l, cells_in S l -> cells_in S (f l)) -> grid_in S g -> grid_in S (map f g).
Proof.
  intros S f g Hf Hg. unfold grid_in in *. rewrite Forall_forall in *. intros l Hl.
  apply in_map_iff in Hl. destruct Hl as [l0 [<- H0]]. apply Hf, Hg, H0.
Qed.

Lemma fill_grid_in : forall S g, grid_in S g -> grid_in S (fill_grid g).
Proof.
  intros S g H. unfold fill_grid. apply bfill_rows_in, ffill_rows_in.
  apply map_rows_in; [apply bfill_in|]. apply map_rows_in; [apply ffill_in | assumption].
Qed.

Lemma unstack_in : forall t, grid_in (labels_of t) (unstack t).
Proof.
  intros t. unfold grid_in, unstack. rewrite Forall_forall. intros row Hr.
  apply in_map_iff in Hr. destruct Hr as [m [<- _]]. unfold cells_in. rewrite Forall_forall. intros x Hx.
  apply in_map_iff in Hx. destruct Hx as [w [<- _]]. apply get_lab_in.
Qed.

Lemma stack_row_labels : forall S m ws row, cells_in S row -> incl (labels_of (stack_row m ws row)) S.
Proof.
  intros S m. induction ws as [|w ws IH]; intros row Hr v Hv; [contradiction|].
  destruct row as [|x row]; [contradiction|]. inversion Hr; subst. cbn [stack_row] in Hv.
  unfold labels_of in Hv. cbn [flat_map snd] in Hv. apply in_app_or in Hv. destruct Hv as [Hv|Hv].
  - destruct x as [u|]; [|contradiction]. destruct Hv as [<-|[]]. assumption.
  - apply (IH row); assumption.
Qed.

Lemma labels_of_app : forall a b, labels_of (a ++ b) = labels_of a ++ labels_of b.
Proof. intros. unfold labels_of. apply flat_map_app. Qed.

Lemma stack_labels : forall S ws ms g, grid_in S g -> incl (labels_of (stack ms ws g)) S.
Proof.
  intros S ws. induction ms as [|m ms IH]; intros g Hg v Hv; [contradiction|].
  destruct g as [|row g]; [contradiction|]. inversion Hg; subst. cbn [stack] in Hv.
  rewrite labels_of_app in Hv. apply in_app_or in Hv. destruct Hv as [Hv|Hv].
  - eapply stack_row_labels; eassumption.
  - eapply IH; eassumption.
Qed.

Lemma labels_fill_unstacked : forall t, incl (labels_of (fill_unstacked t)) (labels_of t).
Proof. intros t. unfold fill_unstacked. apply stack_labels, fill_grid_in, unstack_in. Qed.

(* every label of the table a call works with was learned by fit *)
Lemma corrected_no_new_label : forall fill t d t',
  (forall c, In (fill c) (labels_of (reindex t (ds_combos d)))) ->
  corrected fill t d = Some t' -> incl (labels_of t') (labels_of t).
Proof.
  intros fill t d t' Hf H. unfold corrected in H.
  pose proof (labels_reindex t (ds_combos d)) as R.
  destruct (negb (has_missing (reindex t (ds_combos d)))).
  - inversion H; subst. exact R.
  - destruct (ds_observed d).
    + destruct (has_known (reindex t (ds_combos d))); [|discriminate]. inversion H; subst.
      eapply incl_tran; [apply labels_fill_nearest, Hf | exact R].
    + inversion H; subst. eapply incl_tran; [apply labels_fill_unstacked | exact R].
Qed.
