(* The hand-written model of Model/Resample.v against the tables that harness/translate_resample.py extracts from the
   source on every run (Generated/ResampleGen.v): the model's constants, comparison operators and decision tables ARE
   the ones the source literally contains.  A source edit changes the generated file and breaks a lemma here. *)
From Coq Require Import ZArith QArith List Bool Lia.
From V Require Import Model.Resample Model.Cmp Generated.ResampleGen Proofs.ResampleProofs.
Import ListNotations.
Open Scope Z_scope.

(* ---- downsample_and_clean_daily_data ---- *)

Lemma clean_value_generated_l : forall v c,
  clean_value v c =
  if cmpq gen_ds_keep c then (if gen_ds_scaled then option_map (fun x => (x / c)%Q) v else v) else None.
Proof. intros. reflexivity. Qed.

(* the "more than 50 % missing" warning is issued exactly for the days that are dropped *)
Lemma downsample_warning_complement_l : forall c, cmpq gen_ds_warn c = negb (cmpq gen_ds_keep c).
Proof. intros c. unfold cmpq, gen_ds_warn, gen_ds_keep. cbn [fst snd]. rewrite negb_involutive. reflexivity. Qed.

(* ---- clean_billing_data ---- *)

Definition gen_lo (g : gran) : cop * Z := match g with BillingBimonthly => gen_bimonthly_lo | _ => gen_monthly_lo end.
Definition gen_hi (g : gran) : cop * Z := match g with BillingBimonthly => gen_bimonthly_hi | _ => gen_monthly_hi end.
Definition gen_warn_lo (g : gran) : cop * Z := match g with BillingBimonthly => gen_bimonthly_warn_lo | _ => gen_monthly_warn_lo end.
Definition gen_warn_hi (g : gran) : cop * Z := match g with BillingBimonthly => gen_bimonthly_warn_hi | _ => gen_monthly_warn_hi end.

Lemma valid_len_generated_l : forall g d, valid_len g d = cmpz (gen_hi g) d && cmpz (gen_lo g) d.
Proof. intros g d. unfold valid_len. rewrite andb_comm. destruct g; reflexivity. Qed.

(* the off-cycle warning lists exactly the periods the window drops *)
Lemma offcycle_warning_complement_l : forall g d,
  cmpz (gen_warn_hi g) d || cmpz (gen_warn_lo g) d = negb (valid_len g d).
Proof.
  intros g d. unfold valid_len, max_days.
  destruct g; cbn [gen_warn_hi gen_warn_lo cmpz fst snd gen_monthly_warn_hi gen_monthly_warn_lo gen_bimonthly_warn_hi gen_bimonthly_warn_lo];
    destruct (Z.ltb_spec 35 d); destruct (Z.ltb_spec 70 d); destruct (Z.ltb_spec d 25);
    destruct (Z.leb_spec 25 d); destruct (Z.leb_spec d 35); destruct (Z.leb_spec d 70); cbn; try reflexivity; lia.
Qed.

(* ---- compute_minimum_granularity as an interpreter of the generated tables ---- *)

(* thresholds of the median table are in days; m2 = twice the median spacing in minutes *)
Definition upper_ok (t : cop * Z) (m2 : Z) : bool := cmpz (fst t, 2 * 1440 * snd t) m2.          (* m <op> c *)
Definition lower_ok (t : cop * Z) (m2 : Z) : bool :=                                              (* c <op> m *)
  match fst t with CLt => 2 * 1440 * snd t <? m2 | CLe => 2 * 1440 * snd t <=? m2 | _ => false end.
Definition in_rule (m2 : Z) (r : option (cop * Z) * (cop * Z) * gran) : bool :=
  let '(lo, hi, _) := r in (match lo with Some t => lower_ok t m2 | None => true end) && upper_ok hi m2.

(* a dict literal with boolean keys followed by .get(True, default): the LAST true key holds the value *)
Definition gran_by_median (rules : list (option (cop * Z) * (cop * Z) * gran)) (dflt : gran) (m2 : Z) : gran :=
  match fold_left (fun acc r => if in_rule m2 r then Some (snd r) else acc) rules None with Some g => g | None => dflt end.

(* an if / elif chain: the first rule that holds *)
Fixpoint gran_by_fixed (rules : list (Z * gran)) (dflt : gran) (m : Z) : gran :=
  match rules with [] => dflt | (k, g) :: rest => if m <=? k then g else gran_by_fixed rest dflt m end.

Definition granularity_tbl (inf : inferred) (ts : list Z) (dflt : gran) : option gran :=
  if (Nat.leb (length ts) 1) then Some dflt else
  match inf with
  | NoFreq => match median2 (deltas ts) with
              | None => Some dflt
              | Some m2 => Some (gran_by_median gen_median_rules dflt m2)
              end
  | Months n => Some (if n =? 1 then gen_month_one else gen_month_many)
  | Fixed m => Some (gran_by_fixed gen_fixed_rules gen_fixed_default m)
  | OtherFreq => None
  end.

Lemma granularity_generated_l : forall inf ts dflt, granularity inf ts dflt = granularity_tbl inf ts dflt.
Proof.
  intros inf ts dflt. unfold granularity, granularity_tbl.
  destruct (Nat.leb (length ts) 1); [reflexivity|].
  destruct inf as [|m|n|]; try reflexivity.
  3:{ destruct (n =? 1); reflexivity. }
  - destruct (median2 (deltas ts)) as [m2|]; [|reflexivity]. f_equal.
    unfold gran_by_median, gen_median_rules, in_rule, upper_ok, lower_ok, cmpz. cbn [fold_left fst snd andb].
    change (2 * 1440 * 1) with 2880. change (2 * 1440 * 35) with 100800. change (2 * 1440 * 70) with 201600.
    change (2 * 1440) with 2880. change (2 * 35 * 1440) with 100800. change (2 * 70 * 1440) with 201600.
    destruct (Z.ltb_spec m2 2880); destruct (Z.eqb_spec m2 2880); destruct (Z.leb_spec m2 100800);
      destruct (Z.leb_spec m2 201600); destruct (Z.ltb_spec 2880 m2); destruct (Z.ltb_spec 100800 m2);
      cbn; try reflexivity; lia.
  - unfold gran_by_fixed, gen_fixed_rules, gen_fixed_default. change (30 * 1440) with 43200.
    destruct (m <=? 60); [reflexivity|]. destruct (m <=? 1440); [reflexivity|]. destruct (m <=? 43200); reflexivity.
Qed.

(* the ranges of the median table exclude one another: reading the dict as "first true key" or "last true key" is the same *)
Lemma median_rules_exclusive_l : forall m2 r1 r2 pre mid post,
  gen_median_rules = pre ++ r1 :: mid ++ r2 :: post -> in_rule m2 r1 = true -> in_rule m2 r2 = false.
Proof.
  intros m2 r1 r2 pre mid post E H1.
  assert (forall a b : option (cop * Z) * (cop * Z) * gran, In a gen_median_rules -> In b gen_median_rules -> a <> b ->
            in_rule m2 a = true -> in_rule m2 b = false) as Hex.
  { intros a b Ha Hb Hne Hta. unfold gen_median_rules in Ha, Hb. cbn [In] in Ha, Hb.
    destruct Ha as [<-|[<-|[<-|[<-|[]]]]]; destruct Hb as [<-|[<-|[<-|[<-|[]]]]]; try congruence;
      unfold in_rule, upper_ok, lower_ok, cmpz in *; cbn [fst snd] in *;
      repeat match goal with
             | H : _ && _ = true |- _ => apply andb_true_iff in H; destruct H
             | H : (_ <? _) = true |- _ => apply Z.ltb_lt in H
             | H : (_ <=? _) = true |- _ => apply Z.leb_le in H
             | H : (_ =? _) = true |- _ => apply Z.eqb_eq in H
             end;
      try (apply andb_false_iff);
      first [ apply Z.ltb_ge; lia | apply Z.eqb_neq; lia | right; apply Z.leb_gt; lia | right; apply Z.ltb_ge; lia
            | left; apply Z.ltb_ge; lia | left; apply Z.leb_gt; lia | right; apply Z.eqb_neq; lia ]. }
  apply (Hex r1 r2); try assumption.
  - rewrite E. apply in_or_app. right. left. reflexivity.
  - rewrite E. apply in_or_app. right. right. apply in_or_app. right. left. reflexivity.
  - intro Heq. subst r2.
    assert (NoDup gen_median_rules) as Hnd by (unfold gen_median_rules; repeat constructor; cbn; intuition congruence).
    rewrite E in Hnd. apply NoDup_remove_2 in Hnd. apply Hnd. apply in_or_app. right. apply in_or_app. right. left. reflexivity.
Qed.
