(* Lemmas for C15 (Model/Recovery.v at the real-number instance).  The theorems of Properties/C15.v are these.

   Part A  l2 geometry over lists: triangle inequality, the certificate bound, the noise bound
   Part B  the statement's decisions (nrmse_ok, load_ok) against RMSE / sums
   Part C  the generating building as a stored document: it evaluates to the generating curve
   Part D  order statistics of the insertion sort; the generator is feasible for the optimiser's box
   Part E  a temperature-independent document reports no load
   Part F  stored parameters close to the generating ones => curves close at every temperature of a range
   Part G  the final fit's box as a function of the initial fit's result (get_bnds) *)
From Coq Require Import Reals Lra Psatz List Bool Arith Lia NArith.
From V Require Import Model.Num Model.NumR Model.DailyCurve Model.Recovery Proofs.DailyCurveProofs.
Import ListNotations.
Local Open Scope R_scope.

Notation NR := RNum.

(* ------------------------------------------------------------------------------------------ *)
(* Part A: l2 geometry                                                                          *)
(* ------------------------------------------------------------------------------------------ *)

Lemma sq_nonneg : forall x : R, 0 <= x * x.
Proof. intros. nra. Qed.

Lemma sse_cons : forall (a b : R) (f g : list R), (sse NR (a :: f) (b :: g) = (a - b) * (a - b) + sse NR f g :> R).
Proof. reflexivity. Qed.

Lemma sse_nil_l : forall g : list R, (sse NR [] g = 0 :> R).
Proof. reflexivity. Qed.

Lemma sse_nil_r : forall f : list R, (sse NR f [] = 0 :> R).
Proof. destruct f; reflexivity. Qed.

Lemma sse_nonneg : forall f g : list R, 0 <= sse NR f g.
Proof.
  induction f as [|a f IH]; intros g.
  - rewrite sse_nil_l. lra.
  - destruct g as [|b g]; [rewrite sse_nil_r; lra|]. rewrite sse_cons. specialize (IH g). pose proof (sq_nonneg (a - b)). lra.
Qed.

Lemma sse_sym : forall f g : list R, (sse NR f g = sse NR g f :> R).
Proof.
  induction f as [|a f IH]; intros g.
  - destruct g; reflexivity.
  - destruct g as [|b g]; [reflexivity|]. rewrite !sse_cons, IH. ring.
Qed.

Lemma sumsq_cons : forall (a : R) (l : list R), (sumsq NR (a :: l) = a * a + sumsq NR l :> R).
Proof. reflexivity. Qed.

Lemma sumsq_nonneg : forall l : list R, 0 <= sumsq NR l.
Proof. induction l as [|a l IH]; [cbn; lra|]. rewrite sumsq_cons. pose proof (sq_nonneg a). lra. Qed.

Lemma nsum_cons : forall (a : R) (l : list R), (nsum NR (a :: l) = a + nsum NR l :> R).
Proof. reflexivity. Qed.

Lemma of_nat_INR : forall n, (of_nat NR n = INR n :> R).
Proof.
  induction n as [|n IH]; [reflexivity|].
  rewrite S_INR. cbn [of_nat]. rewrite IH. reflexivity.
Qed.

(* sqrt facts *)
Lemma sqrt_le_sum : forall a b, 0 <= a -> 0 <= b -> sqrt (a + b) <= sqrt a + sqrt b.
Proof.
  intros a b Ha Hb.
  pose proof (sqrt_pos a) as Pa. pose proof (sqrt_pos b) as Pb.
  rewrite <- (sqrt_square (sqrt a + sqrt b)) by lra.
  apply sqrt_le_1_alt.
  pose proof (sqrt_sqrt a Ha) as Sa. pose proof (sqrt_sqrt b Hb) as Sb. nra.
Qed.

Lemma sqrt_le_of_sq : forall u v, 0 <= v -> u <= v * v -> sqrt u <= v.
Proof.
  intros u v Hv H. rewrite <- (sqrt_square v) by exact Hv. apply sqrt_le_1_alt. exact H.
Qed.

(* Minkowski in the plane, with the second coordinates given as non-negative lengths *)
Lemma minkowski2 : forall x y p q, 0 <= p -> 0 <= q ->
  sqrt ((x + y) * (x + y) + (p + q) * (p + q)) <= sqrt (x * x + p * p) + sqrt (y * y + q * q).
Proof.
  intros x y p q Hp Hq.
  pose proof (sq_nonneg x) as Qx. pose proof (sq_nonneg y) as Qy.
  pose proof (sq_nonneg p) as Qp. pose proof (sq_nonneg q) as Qq.
  set (A := sqrt (x * x + p * p)). set (B := sqrt (y * y + q * q)).
  assert (HA : 0 <= A) by apply sqrt_pos. assert (HB : 0 <= B) by apply sqrt_pos.
  assert (SA : A * A = x * x + p * p) by (apply sqrt_sqrt; lra).
  assert (SB : B * B = y * y + q * q) by (apply sqrt_sqrt; lra).
  assert (HAB : 0 <= A * B) by (apply Rmult_le_pos; assumption).
  apply sqrt_le_of_sq; [lra|].
  (* x y + p q <= A B  (Cauchy-Schwarz in the plane) *)
  assert (CS : x * y + p * q <= A * B).
  { apply Rsqr_incr_0_var; [|exact HAB]. unfold Rsqr.
    replace ((A * B) * (A * B)) with ((A * A) * (B * B)) by ring. rewrite SA, SB.
    pose proof (sq_nonneg (x * q - p * y)) as Hd.
    replace ((x * x + p * p) * (y * y + q * q))
      with ((x * y + p * q) * (x * y + p * q) + (x * q - p * y) * (x * q - p * y)) by ring.
    lra. }
  replace ((A + B) * (A + B)) with (A * A + B * B + 2 * (A * B)) by ring. rewrite SA, SB.
  replace ((x + y) * (x + y) + (p + q) * (p + q))
    with (x * x + p * p + (y * y + q * q) + 2 * (x * y + p * q)) by ring.
  lra.
Qed.

(* triangle inequality of the l2 distance over lists of equal length *)
Lemma dist_triangle : forall f y g : list R, length f = length y -> length y = length g ->
  sqrt (sse NR f g) <= sqrt (sse NR f y) + sqrt (sse NR y g).
Proof.
  induction f as [|a f IH]; intros y g L1 L2.
  - destruct y; [|discriminate]. destruct g; [|discriminate]. cbn. rewrite sqrt_0. lra.
  - destruct y as [|b y]; [discriminate|]. destruct g as [|c g]; [discriminate|].
    injection L1 as L1. injection L2 as L2. specialize (IH y g L1 L2).
    rewrite !sse_cons.
    pose proof (sse_nonneg f g) as N1. pose proof (sse_nonneg f y) as N2. pose proof (sse_nonneg y g) as N3.
    set (r := sqrt (sse NR f g)) in *. set (p := sqrt (sse NR f y)) in *. set (q := sqrt (sse NR y g)) in *.
    assert (Hr : 0 <= r) by apply sqrt_pos. assert (Hp : 0 <= p) by apply sqrt_pos.
    assert (Hq : 0 <= q) by apply sqrt_pos.
    assert (Sr : sse NR f g = r * r) by (symmetry; apply sqrt_sqrt; exact N1).
    assert (Sp : sse NR f y = p * p) by (symmetry; apply sqrt_sqrt; exact N2).
    assert (Sq : sse NR y g = q * q) by (symmetry; apply sqrt_sqrt; exact N3).
    rewrite Sr, Sp, Sq.
    apply Rle_trans with (sqrt (((a - b) + (b - c)) * ((a - b) + (b - c)) + (p + q) * (p + q))).
    + apply sqrt_le_1_alt. replace (a - c) with ((a - b) + (b - c)) by ring. nra.
    + apply minkowski2; assumption.
Qed.

(* the certificate bound, as distances *)
Lemma certificate_dist : forall (f y g : list R) (s : R),
  length f = length y -> length y = length g -> 0 <= s ->
  sse NR f y <= sse NR g y + s ->
  sqrt (sse NR f g) <= 2 * sqrt (sse NR y g) + sqrt s.
Proof.
  intros f y g s L1 L2 Hs Hc.
  pose proof (dist_triangle f y g L1 L2) as Tr.
  assert (H1 : sqrt (sse NR f y) <= sqrt (sse NR g y) + sqrt s).
  { apply Rle_trans with (sqrt (sse NR g y + s)).
    - apply sqrt_le_1_alt. exact Hc.
    - apply sqrt_le_sum; [apply sse_nonneg | exact Hs]. }
  rewrite (sse_sym g y) in H1. lra.
Qed.

Definition RMSE (f g : list R) : R := sqrt (sse NR f g / INR (length f)).
Definition RMS (g : list R) : R := sqrt (sumsq NR g / INR (length g)).

Lemma RMSE_split : forall f g : list R, (0 < length f)%nat ->
  RMSE f g = sqrt (sse NR f g) / sqrt (INR (length f)).
Proof. intros f g H. unfold RMSE. apply sqrt_div_alt. apply lt_0_INR. exact H. Qed.

Lemma certificate_rmse : forall (f y g : list R) (s : R),
  (0 < length f)%nat -> length f = length y -> length y = length g -> 0 <= s ->
  sse NR f y <= sse NR g y + s ->
  RMSE f g <= 2 * RMSE y g + sqrt (s / INR (length f)).
Proof.
  intros f y g s Hn L1 L2 Hs Hc.
  pose proof (certificate_dist f y g s L1 L2 Hs Hc) as D.
  assert (Hn' : 0 < INR (length f)) by (apply lt_0_INR; exact Hn).
  assert (Hq : 0 < sqrt (INR (length f))) by (apply sqrt_lt_R0; exact Hn').
  rewrite (RMSE_split f g Hn). rewrite (RMSE_split y g) by (rewrite <- L1; exact Hn).
  rewrite <- L1. rewrite (sqrt_div_alt s _ Hn').
  unfold Rdiv. apply Rmult_le_reg_r with (sqrt (INR (length f))); [exact Hq|].
  rewrite Rmult_assoc, Rinv_l by lra.
  replace ((2 * (sqrt (sse NR y g) * / sqrt (INR (length f))) + sqrt s * / sqrt (INR (length f))) *
           sqrt (INR (length f)))
    with ((2 * sqrt (sse NR y g) + sqrt s) * (/ sqrt (INR (length f)) * sqrt (INR (length f)))) by ring.
  rewrite Rinv_l by lra. lra.
Qed.

(* noise: every observation within the fraction eps of the generating value *)
Lemma noise_sse : forall (eps : R) (y g : list R), 0 <= eps ->
  Forall2 (fun yi gi => Rabs (yi - gi) <= eps * gi) y g ->
  sse NR y g <= eps * eps * sumsq NR g.
Proof.
  intros eps y g He H. induction H as [|yi gi y g Hi _ IH].
  - cbn. lra.
  - rewrite sse_cons, sumsq_cons.
    assert ((yi - gi) * (yi - gi) <= (eps * gi) * (eps * gi)).
    { pose proof (Rabs_pos (yi - gi)) as P.
      replace ((yi - gi) * (yi - gi)) with (Rabs (yi - gi) * Rabs (yi - gi)).
      - nra.
      - unfold Rabs. destruct (Rcase_abs (yi - gi)); ring. }
    nra.
Qed.

Lemma Forall2_len : forall (A B : Type) (P : A -> B -> Prop) (l1 : list A) (l2 : list B),
  Forall2 P l1 l2 -> length l1 = length l2.
Proof. intros A B P l1 l2 H. induction H; [reflexivity | cbn; congruence]. Qed.

Lemma noise_rmse : forall (eps : R) (y g : list R), 0 <= eps ->
  Forall2 (fun yi gi => Rabs (yi - gi) <= eps * gi) y g ->
  RMSE y g <= eps * RMS g.
Proof.
  intros eps y g He H.
  pose proof (noise_sse eps y g He H) as Hsse.
  assert (L : length y = length g) by (eapply Forall2_len; exact H).
  unfold RMSE, RMS. rewrite L.
  destruct (length g) as [|n] eqn:En.
  - (* empty: division by INR 0 = 0; x / 0 = x * / 0 in Coq, both sides are sqrt of (.. * /0) *)
    destruct g; [|discriminate]. inversion H; subst. cbn. unfold Rdiv. rewrite !Rmult_0_l, sqrt_0. lra.
  - assert (Hn : 0 < INR (S n)) by (apply lt_0_INR; lia).
    rewrite <- (sqrt_square eps) at 1 by exact He.
    rewrite <- sqrt_mult_alt by nra.
    apply sqrt_le_1_alt. unfold Rdiv.
    assert (0 < / INR (S n)) by (apply Rinv_0_lt_compat; exact Hn).
    pose proof (sumsq_nonneg g). nra.
Qed.

(* the two together: distance of the fit from the generating curve, from the measured certificate s *)
Lemma rmse_from_certificate : forall (eps s : R) (f y g : list R),
  (0 < length f)%nat -> length f = length y -> 0 <= eps -> 0 <= s ->
  Forall2 (fun yi gi => Rabs (yi - gi) <= eps * gi) y g ->
  sse NR f y <= sse NR g y + s ->
  RMSE f g <= 2 * eps * RMS g + sqrt (s / INR (length f)).
Proof.
  intros eps s f y g Hn L1 He Hs Hnoise Hc.
  assert (L2 : length y = length g) by (eapply Forall2_len; exact Hnoise).
  pose proof (certificate_rmse f y g s Hn L1 L2 Hs Hc) as C.
  pose proof (noise_rmse eps y g He Hnoise) as Nz. lra.
Qed.

(* ------------------------------------------------------------------------------------------ *)
(* Part B: the statement's decisions                                                            *)
(* ------------------------------------------------------------------------------------------ *)

Lemma mse_R : forall f g : list R, (mse NR f g = sse NR f g / INR (length f) :> R).
Proof. intros. unfold mse. rewrite of_nat_INR. reflexivity. Qed.

Lemma nrmse_ok_spec : forall (lim m : R) (f g : list R), 0 <= lim -> 0 <= m ->
  nrmse_ok NR lim f g m = true <-> RMSE f g <= lim * m.
Proof.
  intros lim m f g Hl Hm. unfold nrmse_ok. rewrite mse_R.
  change (@n_leb NR) with Rleb. change (@n_mul NR) with Rmult. rewrite Rleb_true.
  assert (Hlm : 0 <= lim * m) by nra.
  unfold RMSE. split; intros H.
  - apply sqrt_le_of_sq; assumption.
  - assert (Hq : 0 <= sse NR f g / INR (length f)).
    { unfold Rdiv. destruct (length f) as [|n].
      - cbn. rewrite Rinv_0. lra.
      - pose proof (sse_nonneg f g). assert (0 < / INR (S n)) by (apply Rinv_0_lt_compat, lt_0_INR; lia). nra. }
    rewrite <- (sqrt_sqrt _ Hq).
    pose proof (sqrt_pos (sse NR f g / INR (length f))). nra.
Qed.

Lemma five_pct_R : (five_pct NR = 5 / 100 :> R).
Proof. unfold five_pct, n_hundred, n_ten, n_two. cbn. field. Qed.

Lemma one_pct_R : (one_pct NR = 1 / 100 :> R).
Proof. unfold one_pct, n_hundred, n_ten, n_two. cbn. field. Qed.

Lemma load_ok_spec : forall (lim : R) (load usage : list R),
  load_ok NR lim load usage = true <-> nsum NR load <= lim * nsum NR usage.
Proof. intros. unfold load_ok. change (@n_leb NR) with Rleb. rewrite Rleb_true. reflexivity. Qed.

(* the in-sample half of the statement, reduced to the measured certificate *)
Lemma in_sample_from_certificate : forall (s m : R) (f y g : list R),
  (0 < length f)%nat -> length f = length y -> 0 <= s -> 0 <= m ->
  Forall2 (fun yi gi => Rabs (yi - gi) <= one_pct NR * gi) y g ->
  sse NR f y <= sse NR g y + s ->
  2 * (1 / 100) * RMS g + sqrt (s / INR (length f)) <= 5 / 100 * m ->
  nrmse_ok NR (five_pct NR) f g m = true.
Proof.
  intros s m f y g Hn L1 Hs Hm Hnoise Hc Hb.
  apply nrmse_ok_spec; [rewrite five_pct_R; lra | exact Hm |].
  rewrite five_pct_R. rewrite one_pct_R in Hnoise.
  pose proof (rmse_from_certificate (1 / 100) s f y g Hn L1 ltac:(lra) Hs Hnoise Hc). lra.
Qed.

(* ------------------------------------------------------------------------------------------ *)
(* Part C: the generating building as a stored document                                         *)
(* ------------------------------------------------------------------------------------------ *)

Notation lo := R_ln_min.
Notation hi := R_ln_max.
Definition Hlo : lo <= 0 := proj1 R_ln_bounds.
Definition Hhi : 0 <= hi := proj2 R_ln_bounds.

Lemma triple_eq : forall a b c a' b' c' : R, a = a' -> b = b' -> c = c' -> (a, b, c) = (a', b', c').
Proof. intros; subst; reflexivity. Qed.

Lemma npos_pos : forall a : R, npos NR a = pos a.
Proof.
  intros a. unfold npos, pos. change (@n_ltb NR a n_zero) with (Rltb a 0). unfold Rltb.
  destruct (Rlt_dec a 0); [rewrite Rmax_right by lra | rewrite Rmax_left by lra]; reflexivity.
Qed.

Definition inside (p : building NR) (tc : tconstr NR) : Prop :=
  bounds_ok lo hi tc /\ 0 <= b_hbeta p /\ 0 <= b_cbeta p /\
  match shape_of NR p with
  | HddTiddCdd => T_min tc < b_hbp p /\ T_min_seg tc <= b_hbp p /\ b_hbp p <= b_cbp p /\
                  b_cbp p <= T_max_seg tc /\ b_cbp p < T_max tc
  | HddTidd => T_min_seg tc <= b_hbp p <= T_max_seg tc /\ b_hbp p < T_max tc
  | TiddCdd => T_min_seg tc <= b_cbp p <= T_max_seg tc /\ b_cbp p < T_max tc
  | _ => True
  end.

Local Arguments fix_full_model_x : simpl never.
Local Arguments full_model1 : simpl never.
Local Arguments loads_of : simpl never.


Lemma predict_both : forall base bh bph bc bpc Tmin Tmax Tminseg Tmaxseg T : R,
  0 <= bh -> 0 <= bc -> Tmin < bph -> bph <= bpc -> bpc < Tmax ->
  predict_submodel NR (Build_coeffs NR HddTiddCdd base (Some bph) (Some bh) None (Some bpc) (Some bc) None)
                      (Build_tconstr NR Tmin Tmax Tminseg Tmaxseg) T
  = Some (base + bh * pos (bph - T) + bc * pos (T - bpc), bh * pos (bph - T), bc * pos (T - bpc)).
Proof.
  intros * Hh Hc I1 I3 I5.
  unfold predict_submodel, effective_x. cbn. unfold RNum.
  destruct (fix_ordered lo hi bph bh 0 bpc bc 0 base Tmin Tmax I3)
    as (hb' & hk' & cb' & ck' & E & _ & _ & K1 & K2 & _ & _ & _ & _ & Keep).
  unfold mkx in E. rewrite E.
  destruct Keep as [Eb1 Eb2]; [right; lra|]. subst hb' cb'.
  assert (hk' = 0) by (destruct K1; assumption). assert (ck' = 0) by (destruct K2; assumption). subst hk' ck'.
  pose proof (loads_of_closed lo hi Hlo Hhi (mkx lo hi bph bh 0 bpc bc 0 base)
                (Build_tconstr (RNumOf lo hi) Tmin Tmax Tminseg Tmaxseg) T) as L.
  unfold mkx in L. cbn [T_min T_max] in L. rewrite L.
  - unfold heat_part, cool_part. cbn [x_hdd_bp x_hdd_beta x_hdd_k x_cdd_bp x_cdd_beta x_cdd_k x_intercept].
    rewrite !branch_k0. reflexivity.
  - unfold good. cbn. lra.
  - unfold off_corner_x. cbn. left. intros _. lra.
Qed.

Lemma predict_heat : forall base bh bph Tmin Tmax Tminseg Tmaxseg T : R,
  0 < bh -> Tminseg <= bph <= Tmaxseg -> bph < Tmax ->
  predict_submodel NR (Build_coeffs NR HddTidd base (Some bph) (Some (- bh)) None None None None)
                      (Build_tconstr NR Tmin Tmax Tminseg Tmaxseg) T
  = Some (base + bh * pos (bph - T) + 0 * pos (T - bph), bh * pos (bph - T), 0 * pos (T - bph)).
Proof.
  intros * Hh [I1 I2] I3.
  unfold predict_submodel, effective_x. cbn. unfold get_full_model_x, n_gtb. cbn. unfold Rltb.
  destruct (Rlt_dec bph Tminseg); [lra|]. destruct (Rlt_dec Tmaxseg bph); [lra|].
  destruct (Rlt_dec (- bh) 0); [|lra]. unfold RNum.
  destruct (fix_ordered lo hi bph (- - bh) 0 bph 0 0 base Tmin Tmax (Rle_refl bph))
    as (hb' & hk' & cb' & ck' & E & _ & _ & K1 & K2 & _ & _ & _ & _ & Keep).
  unfold mkx in E. rewrite E.
  destruct Keep as [Eb1 Eb2]; [left; reflexivity|]. subst hb' cb'.
  assert (hk' = 0) by (destruct K1; assumption). assert (ck' = 0) by (destruct K2; assumption). subst hk' ck'.
  pose proof (loads_of_closed lo hi Hlo Hhi (mkx lo hi bph (- - bh) 0 bph 0 0 base)
                (Build_tconstr (RNumOf lo hi) Tmin Tmax Tminseg Tmaxseg) T) as L.
  unfold mkx in L. cbn [T_min T_max] in L. rewrite L.
  - unfold heat_part, cool_part. cbn [x_hdd_bp x_hdd_beta x_hdd_k x_cdd_bp x_cdd_beta x_cdd_k x_intercept].
    rewrite !branch_k0. rewrite Ropp_involutive. reflexivity.
  - unfold good. cbn. lra.
  - unfold off_corner_x. cbn. left. intros _. lra.
Qed.

Lemma predict_cool : forall base bc bpc Tmin Tmax Tminseg Tmaxseg T : R,
  0 < bc -> Tminseg <= bpc <= Tmaxseg -> bpc < Tmax ->
  predict_submodel NR (Build_coeffs NR TiddCdd base None None None (Some bpc) (Some bc) None)
                      (Build_tconstr NR Tmin Tmax Tminseg Tmaxseg) T
  = Some (base + 0 * pos (bpc - T) + bc * pos (T - bpc), 0 * pos (bpc - T), bc * pos (T - bpc)).
Proof.
  intros * Hc [I1 I2] I3.
  unfold predict_submodel, effective_x. cbn. unfold get_full_model_x, n_gtb. cbn. unfold Rltb.
  destruct (Rlt_dec bpc Tminseg); [lra|]. destruct (Rlt_dec Tmaxseg bpc); [lra|].
  destruct (Rlt_dec bc 0); [lra|]. unfold RNum.
  destruct (fix_ordered lo hi bpc 0 0 bpc bc 0 base Tmin Tmax (Rle_refl bpc))
    as (hb' & hk' & cb' & ck' & E & _ & _ & K1 & K2 & _ & _ & _ & _ & Keep).
  unfold mkx in E. rewrite E.
  destruct Keep as [Eb1 Eb2]; [left; reflexivity|]. subst hb' cb'.
  assert (hk' = 0) by (destruct K1; assumption). assert (ck' = 0) by (destruct K2; assumption). subst hk' ck'.
  pose proof (loads_of_closed lo hi Hlo Hhi (mkx lo hi bpc 0 0 bpc bc 0 base)
                (Build_tconstr (RNumOf lo hi) Tmin Tmax Tminseg Tmaxseg) T) as L.
  unfold mkx in L. cbn [T_min T_max] in L. rewrite L.
  - unfold heat_part, cool_part. cbn [x_hdd_bp x_hdd_beta x_hdd_k x_cdd_bp x_cdd_beta x_cdd_k x_intercept].
    rewrite !branch_k0. reflexivity.
  - unfold good. cbn. lra.
  - unfold off_corner_x. cbn. left. intros _. lra.
Qed.

(* a temperature-independent document: prediction = intercept, no load, at every temperature and whatever the
   other stored fields and the temperature constraints are *)
Lemma predict_tidd : forall (c : coeffs NR) (tc : tconstr NR) (T : R), model_type c = Tidd ->
  predict_submodel NR c tc T = Some (intercept c, 0, 0).
Proof.
  intros [s i hb hbeta hk cb cbeta ck] [Tmin Tmax Tminseg Tmaxseg] T E. cbn in E. subst s.
  unfold predict_submodel, effective_x. cbn. unfold RNum.
  destruct (fix_ordered lo hi 0 0 0 0 0 0 i Tmin Tmax (Rle_refl 0))
    as (hb' & hk' & cb' & ck' & E & _ & _ & K1 & K2 & _ & _ & _ & _ & Keep).
  unfold mkx in E. rewrite E.
  destruct Keep as [Eb1 Eb2]; [left; reflexivity|]. subst hb' cb'.
  assert (hk' = 0) by (destruct K1; assumption). assert (ck' = 0) by (destruct K2; assumption). subst hk' ck'.
  pose proof (loads_of_closed lo hi Hlo Hhi (mkx lo hi 0 0 0 0 0 0 i)
                (Build_tconstr (RNumOf lo hi) Tmin Tmax Tminseg Tmaxseg) T) as L.
  unfold mkx in L. cbn [T_min T_max] in L. rewrite L.
  - unfold heat_part, cool_part. cbn [x_hdd_bp x_hdd_beta x_hdd_k x_cdd_bp x_cdd_beta x_cdd_k x_intercept].
    rewrite !branch_k0. apply f_equal. apply triple_eq; ring.
  - unfold good. cbn. lra.
  - unfold off_corner_x. cbn. right. split; reflexivity.
Qed.

Lemma generator_document : forall p tc, inside p tc -> forall T,
  predict_submodel NR (doc_of NR p) tc T = Some (gen_curve NR p T, gen_heat NR p T, gen_cool NR p T).
Proof.
  intros [base bh bph bc bpc] [Tmin Tmax Tminseg Tmaxseg] (B & Hh & Hc & I) T.
  unfold inside, doc_of, gen_curve, gen_heat, gen_cool in *. unfold shape_of in *.
  cbn [b_base b_hbeta b_hbp b_cbeta b_cbp] in *.
  rewrite !npos_pos.
  change (@n_eqb NR bh n_zero) with (Reqb bh 0) in *. change (@n_eqb NR bc n_zero) with (Reqb bc 0) in *.
  change (@n_add NR) with Rplus. change (@n_mul NR) with Rmult. change (@n_sub NR) with Rminus.
  change (@n_opp NR) with Ropp.
  destruct (Reqb bh 0) eqn:Eh; destruct (Reqb bc 0) eqn:Ec; cbn iota in *; change (carrier NR) with R in *.
  - apply Reqb_true in Eh, Ec. subst bh bc. rewrite predict_tidd by reflexivity. cbn [intercept].
    apply f_equal. apply triple_eq; ring.
  - apply Reqb_true in Eh. apply Reqb_false in Ec. subst bh. destruct I as [I1 I2].
    rewrite predict_cool by (try assumption; lra).
    apply f_equal. apply triple_eq; ring.
  - apply Reqb_false in Eh. apply Reqb_true in Ec. subst bc. destruct I as [I1 I2].
    rewrite predict_heat by (try assumption; lra).
    apply f_equal. apply triple_eq; ring.
  - destruct I as (I1 & I2 & I3 & I4 & I5).
    rewrite predict_both by assumption. reflexivity.
Qed.

(* ------------------------------------------------------------------------------------------ *)
(* Part D: order statistics of the insertion sort; the optimiser's box                          *)
(* ------------------------------------------------------------------------------------------ *)

Fixpoint sorted (l : list R) : Prop :=
  match l with [] => True | x :: r => (forall y, In y r -> x <= y) /\ sorted r end.

Lemma insert_cons : forall (x y : R) (r : list R),
  insert NR x (y :: r) = if Rle_dec x y then x :: y :: r else y :: insert NR x r.
Proof.
  intros. cbn [insert]. change (@n_leb NR x y) with (Rleb x y). unfold Rleb.
  destruct (Rle_dec x y); reflexivity.
Qed.

Lemma In_insert : forall (x y : R) (l : list R), In y (insert NR x l) <-> y = x \/ In y l.
Proof.
  intros x y l. induction l as [|z r IH].
  - cbn. intuition.
  - rewrite insert_cons. destruct (Rle_dec x z).
    + cbn. intuition.
    + cbn [In]. rewrite IH. intuition.
Qed.

Lemma insert_sorted : forall (x : R) (l : list R), sorted l -> sorted (insert NR x l).
Proof.
  intros x l. induction l as [|z r IH]; intros S.
  - cbn. split; [intros y []|exact I].
  - rewrite insert_cons. destruct S as [Hz Sr]. destruct (Rle_dec x z) as [H|H].
    + split; [|split; assumption]. intros y [<-|Hy]; [exact H|]. specialize (Hz y Hy). lra.
    + split; [|apply IH; exact Sr]. intros y Hy. apply In_insert in Hy. destruct Hy as [->|Hy]; [lra|].
      apply Hz. exact Hy.
Qed.

Lemma sort_cons : forall (x : R) (r : list R), sort NR (x :: r) = insert NR x (sort NR r).
Proof. reflexivity. Qed.

Lemma sort_sorted : forall l : list R, sorted (sort NR l).
Proof. induction l as [|x r IH]; [exact I|]. rewrite sort_cons. apply insert_sorted. exact IH. Qed.

Lemma count_cons : forall (f : R -> bool) (x : R) (r : list R),
  count NR f (x :: r) = if f x then S (count NR f r) else count NR f r.
Proof. intros. unfold count. cbn [filter]. destruct (f x); reflexivity. Qed.

Lemma count_insert : forall (f : R -> bool) (x : R) (l : list R), count NR f (insert NR x l) = count NR f (x :: l).
Proof.
  intros f x l. induction l as [|z r IH]; [reflexivity|].
  rewrite insert_cons. destruct (Rle_dec x z); [reflexivity|].
  rewrite count_cons, IH, !count_cons. destruct (f z), (f x); reflexivity.
Qed.

Lemma count_sort : forall (f : R -> bool) (l : list R), count NR f (sort NR l) = count NR f l.
Proof.
  intros f l. induction l as [|x r IH]; [reflexivity|].
  rewrite sort_cons, count_insert, !count_cons, IH. reflexivity.
Qed.

Lemma length_insert : forall (x : R) (l : list R), length (insert NR x l) = S (length l).
Proof.
  intros x l. induction l as [|z r IH]; [reflexivity|].
  rewrite insert_cons. destruct (Rle_dec x z); [reflexivity|]. cbn [length]. rewrite IH. reflexivity.
Qed.

Lemma length_sort : forall l : list R, length (sort NR l) = length l.
Proof.
  induction l as [|x r IH]; [reflexivity|]. rewrite sort_cons, length_insert. cbn [length]. f_equal. exact IH.
Qed.

Lemma count_le_length : forall (f : R -> bool) (l : list R), (count NR f l <= length l)%nat.
Proof.
  intros f l. induction l as [|x r IH]; [cbn; lia|]. rewrite count_cons. cbn [length]. destruct (f x); lia.
Qed.

Lemma count_mono : forall (f g : R -> bool) (l : list R), (forall t, f t = true -> g t = true) ->
  (count NR f l <= count NR g l)%nat.
Proof.
  intros f g l H. induction l as [|x r IH]; [cbn; lia|]. rewrite !count_cons.
  destruct (f x) eqn:E; [rewrite (H x E); lia | destruct (g x); lia].
Qed.

Lemma count_zero : forall (f : R -> bool) (l : list R), (forall y, In y l -> f y = false) -> count NR f l = 0%nat.
Proof.
  intros f l H. induction l as [|x r IH]; [reflexivity|]. rewrite count_cons.
  rewrite (H x (or_introl eq_refl)). apply IH. intros y Hy. apply H. right. exact Hy.
Qed.

(* the k-th smallest is at most b as soon as more than k values are at most b *)
Lemma nth_le_of_count : forall (b : R) (l : list R) (k : nat), sorted l ->
  (k < count_le NR b l)%nat -> nth k l 0 <= b.
Proof.
  intros b l. induction l as [|x r IH]; intros k S Hc.
  - cbn in Hc. lia.
  - destruct S as [Hx Sr]. unfold count_le in *. rewrite count_cons in Hc.
    change (@n_leb NR x b) with (Rleb x b) in Hc. destruct k as [|k].
    + cbn [nth]. destruct (Rleb x b) eqn:E; [apply Rleb_true; exact E|].
      apply Rleb_false in E. rewrite count_zero in Hc; [lia|].
      intros y Hy. change (@n_leb NR y b) with (Rleb y b). apply Rleb_false. specialize (Hx y Hy). lra.
    + cbn [nth]. apply IH; [exact Sr|]. destruct (Rleb x b); lia.
Qed.

(* the k-th largest is at least b as soon as at least k values are at least b *)
Lemma nth_ge_of_count : forall (b : R) (l : list R) (k : nat), sorted l ->
  (1 <= k)%nat -> (k <= count_ge NR b l)%nat -> b <= nth (length l - k) l 0.
Proof.
  intros b l. induction l as [|x r IH]; intros k S H1 Hc.
  - cbn in Hc. lia.
  - destruct S as [Hx Sr]. unfold count_ge in *. rewrite count_cons in Hc.
    change (@n_leb NR b x) with (Rleb b x) in Hc.
    destruct (Rleb b x) eqn:E.
    + apply Rleb_true in E.
      assert (Hall : forall y, In y (x :: r) -> b <= y).
      { intros y [<-|Hy]; [exact E|]. specialize (Hx y Hy). lra. }
      apply Hall. apply nth_In. cbn [length]. lia.
    + assert (Hlen : (k <= length r)%nat) by (eapply Nat.le_trans; [exact Hc | apply count_le_length]).
      cbn [length]. replace (S (length r) - k)%nat with (S (length r - k)) by lia.
      cbn [nth]. apply IH; assumption.
Qed.

Lemma seg_bounds_R : forall (nmin : nat) (T : list R),
  seg_bounds NR nmin T = (nth nmin (sort NR T) 0, nth (length T - nmin) (sort NR T) 0).
Proof. reflexivity. Qed.

Lemma seg_lo_le : forall (b : R) (nmin : nat) (T : list R),
  (nmin < count_le NR b T)%nat -> fst (seg_bounds NR nmin T) <= b.
Proof.
  intros b nmin T H. rewrite seg_bounds_R. cbn [fst].
  apply nth_le_of_count; [apply sort_sorted|]. unfold count_le in *. rewrite count_sort. exact H.
Qed.

Lemma seg_hi_ge : forall (b : R) (nmin : nat) (T : list R),
  (1 <= nmin)%nat -> (nmin <= count_ge NR b T)%nat -> b <= snd (seg_bounds NR nmin T).
Proof.
  intros b nmin T H1 H. rewrite seg_bounds_R. cbn [snd]. rewrite <- (length_sort T).
  apply nth_ge_of_count; [apply sort_sorted | exact H1 |]. unfold count_ge in *. rewrite count_sort. exact H.
Qed.

(* ---------------- rows *)

Lemma sort_row_in : forall (r : R * R) (v : R), fst r <= v <= snd r ->
  fst (sort_row NR r) <= v <= snd (sort_row NR r).
Proof.
  intros [a b] v H. cbn [fst snd] in H. unfold sort_row. cbn [fst snd].
  change (@n_ltb NR b a) with (Rltb b a). unfold Rltb. destruct (Rlt_dec b a); cbn [fst snd]; split; lra.
Qed.

Lemma clip0_in : forall (r : R * R) (v : R), 0 <= v -> fst r <= v <= snd r ->
  fst (clip0 NR r) <= v <= snd (clip0 NR r).
Proof.
  intros [a b] v Hv H. cbn [fst snd] in H. unfold clip0. cbn [fst snd].
  change (@n_ltb NR a n_zero) with (Rltb a 0). change (@n_zero NR) with 0.
  unfold Rltb. destruct (Rlt_dec a 0); cbn [fst snd]; split; lra.
Qed.

Lemma in_box_cons : forall (r : R * R) (b : list (R * R)) (v : R) (x : list R),
  fst r <= v <= snd r -> in_box NR b x = true -> in_box NR (r :: b) (v :: x) = true.
Proof.
  intros [l h] b v x [H1 H2] Hb. cbn [fst snd] in *. cbn [in_box].
  change (@n_leb NR l v) with (Rleb l v). change (@n_leb NR v h) with (Rleb v h).
  rewrite (proj2 (Rleb_true l v) H1), (proj2 (Rleb_true v h) H2), Hb. reflexivity.
Qed.

Lemma in_box_nil : in_box NR [] [] = true.
Proof. reflexivity. Qed.

(* the quantile of a single observation (used by the non-vacuity example) *)
Lemma quantile_singleton : forall (pct : nat) (x : R), (quantile_pct NR pct [x] = x :> R).
Proof.
  intros pct x. unfold quantile_pct, lerp.
  change (N.of_nat (length [x] - 1) * N.of_nat pct)%N with 0%N.
  change (N.to_nat (0 / 100)) with 0%nat. change (N.to_nat (0 mod 100)) with 0%nat.
  cbn [length Nat.sub Nat.min nth sort fold_right insert of_nat].
  change (@n_add NR) with Rplus. change (@n_sub NR) with Rminus. change (@n_mul NR) with Rmult.
  destruct (@n_ltb NR (n_div n_zero n_hundred) (half NR)); ring.
Qed.

(* ---------------- the generator is feasible *)

(* enough days on both sides of each active balance point for the segment bounds of get_T_bnds *)
Definition days_ok (p : building NR) (nmin : nat) (T : list R) : Prop :=
  (b_hbeta p <> 0 -> (nmin < count_le NR (b_hbp p) T)%nat /\ (1 <= nmin <= count_ge NR (b_hbp p) T)%nat) /\
  (b_cbeta p <> 0 -> (nmin < count_le NR (b_cbp p) T)%nat /\ (1 <= nmin <= count_ge NR (b_cbp p) T)%nat).

(* the slope rows handed to the final fit (x0 +- 10^OoM(x0) around the initial fit) contain the generating slopes *)
Definition slope_rows_ok (p : building NR) (incoming : list (R * R)) : Prop :=
  match shape_of NR p, incoming with
  | HddTiddCdd, [_; hb; _; cb; _] => fst hb <= b_hbeta p <= snd hb /\ fst cb <= b_cbeta p <= snd cb
  | HddTidd, [_; b; _] => fst b <= - b_hbeta p <= snd b
  | TiddCdd, [_; b; _] => fst b <= b_cbeta p <= snd b
  | Tidd, [_] => True
  | _, _ => False
  end.

(* the base load lies between the 1 % and 99 % quantiles of the observed usage *)
Definition icpt_ok (p : building NR) (obs : list R) : Prop :=
  quantile_pct NR 1 obs <= b_base p <= quantile_pct NR 99 obs.

Lemma bp_row_ok : forall (b : R) (nmin : nat) (T : list R),
  (nmin < count_le NR b T)%nat -> (1 <= nmin <= count_ge NR b T)%nat ->
  fst (sort_row NR (seg_bounds NR nmin T)) <= b <= snd (sort_row NR (seg_bounds NR nmin T)).
Proof.
  intros b nmin T H1 [H2 H3]. apply sort_row_in. split; [apply seg_lo_le | apply seg_hi_ge]; assumption.
Qed.

Lemma icpt_row_ok : forall (p : building NR) (obs : list R), icpt_ok p obs ->
  fst (sort_row NR (icpt_bounds NR obs)) <= b_base p <= snd (sort_row NR (icpt_bounds NR obs)).
Proof. intros p obs H. apply sort_row_in. exact H. Qed.

Lemma generator_in_box : forall (p : building NR) (nmin : nat) (T obs : list R) (incoming : list (R * R)),
  0 <= b_hbeta p -> 0 <= b_cbeta p ->
  days_ok p nmin T -> slope_rows_ok p incoming -> icpt_ok p obs ->
  exists box, final_box NR (key_of_shape (shape_of NR p)) nmin T obs incoming = Some box /\
              in_box NR box (raw_of NR p) = true.
Proof.
  intros p nmin T obs incoming Hh Hc [Dh Dc] Hs Hi.
  pose proof (icpt_row_ok p obs Hi) as Ri.
  destruct p as [base bh bph bc bpc]. unfold slope_rows_ok, raw_of, doc_of in *. unfold shape_of in *.
  cbn [b_base b_hbeta b_hbp b_cbeta b_cbp] in *.
  change (@n_eqb NR bh n_zero) with (Reqb bh 0) in *. change (@n_eqb NR bc n_zero) with (Reqb bc 0) in *.
  destruct (Reqb bh 0) eqn:Eh; destruct (Reqb bc 0) eqn:Ec; cbn iota in *.
  - (* flat *)
    destruct incoming as [|r0 [|r1 rest]]; try contradiction.
    eexists. split; [reflexivity|]. cbn [to_np_array model_type opt_list intercept].
    apply in_box_cons; [exact Ri | apply in_box_nil].
  - (* cooling only *)
    apply Reqb_false in Ec. destruct (Dc Ec) as [C1 C2].
    destruct incoming as [|r0 [|r1 [|r2 [|r3 rest]]]]; try contradiction.
    eexists. split; [reflexivity|]. cbn [to_np_array model_type opt_list intercept cdd_bp cdd_beta].
    apply in_box_cons; [apply bp_row_ok; assumption|].
    apply in_box_cons; [apply sort_row_in; exact Hs|].
    apply in_box_cons; [exact Ri | apply in_box_nil].
  - (* heating only *)
    apply Reqb_false in Eh. destruct (Dh Eh) as [H1 H2].
    destruct incoming as [|r0 [|r1 [|r2 [|r3 rest]]]]; try contradiction.
    eexists. split; [reflexivity|]. cbn [to_np_array model_type opt_list intercept hdd_bp hdd_beta].
    apply in_box_cons; [apply bp_row_ok; assumption|].
    apply in_box_cons; [apply sort_row_in; exact Hs|].
    apply in_box_cons; [exact Ri | apply in_box_nil].
  - (* both *)
    apply Reqb_false in Eh, Ec. destruct (Dh Eh) as [H1 H2]. destruct (Dc Ec) as [C1 C2].
    destruct incoming as [|r0 [|r1 [|r2 [|r3 [|r4 [|r5 rest]]]]]]; try contradiction.
    destruct Hs as [S1 S2].
    eexists. split; [reflexivity|].
    cbn [to_np_array model_type opt_list intercept hdd_bp hdd_beta cdd_bp cdd_beta].
    apply in_box_cons; [apply bp_row_ok; assumption|].
    apply in_box_cons; [apply clip0_in; [exact Hh | apply sort_row_in; exact S1]|].
    apply in_box_cons; [apply bp_row_ok; assumption|].
    apply in_box_cons; [apply clip0_in; [exact Hc | apply sort_row_in; exact S2]|].
    apply in_box_cons; [exact Ri | apply in_box_nil].
Qed.

(* the statement's words: a month of days in each regime, more than the segment minimum *)
Lemma thirty_days_suffice : forall (p : building NR) (nmin d : nat) (T : list R),
  (1 <= nmin < d)%nat -> family_days NR d p T = true -> days_ok p nmin T.
Proof.
  intros [base bh bph bc bpc] nmin d T Hn F. unfold family_days, cold_days, hot_days, flat_days, days_ok in *.
  cbn [b_base b_hbeta b_hbp b_cbeta b_cbp] in *.
  change (@n_eqb NR bh n_zero) with (Reqb bh 0) in *. change (@n_eqb NR bc n_zero) with (Reqb bc 0) in *.
  apply andb_true_iff in F. destruct F as [F Fflat]. apply andb_true_iff in F. destruct F as [Fc Fh].
  apply Nat.leb_le in Fflat.
  split.
  - intros Hb. assert (E : Reqb bh 0 = false) by (apply Reqb_false; exact Hb). rewrite E in Fc. cbn [orb] in Fc.
    apply Nat.leb_le in Fc. split.
    + apply Nat.lt_le_trans with d; [lia|]. eapply Nat.le_trans; [exact Fc|].
      apply count_mono. intros t Ht. change (@n_ltb NR t bph) with (Rltb t bph) in Ht.
      change (@n_leb NR t bph) with (Rleb t bph). apply Rltb_true in Ht. apply Rleb_true. lra.
    + split; [lia|]. apply Nat.le_trans with d; [lia|]. eapply Nat.le_trans; [exact Fflat|].
      apply count_mono. intros t Ht. unfold in_flat in Ht. cbn [b_hbeta b_hbp b_cbeta b_cbp] in Ht.
      change (@n_eqb NR bh n_zero) with (Reqb bh 0) in Ht. rewrite E in Ht. cbn [orb] in Ht.
      apply andb_true_iff in Ht. exact (proj1 Ht).
  - intros Hb. assert (E : Reqb bc 0 = false) by (apply Reqb_false; exact Hb). rewrite E in Fh. cbn [orb] in Fh.
    apply Nat.leb_le in Fh. split.
    + apply Nat.lt_le_trans with d; [lia|]. eapply Nat.le_trans; [exact Fflat|].
      apply count_mono. intros t Ht. unfold in_flat in Ht. cbn [b_hbeta b_hbp b_cbeta b_cbp] in Ht.
      change (@n_eqb NR bc n_zero) with (Reqb bc 0) in Ht. rewrite E in Ht. rewrite orb_false_l in Ht.
      apply andb_true_iff in Ht. exact (proj2 Ht).
    + split; [lia|]. apply Nat.le_trans with d; [lia|]. eapply Nat.le_trans; [exact Fh|].
      apply count_mono. intros t Ht. change (@n_ltb NR bpc t) with (Rltb bpc t) in Ht.
      change (@n_leb NR bpc t) with (Rleb bpc t). apply Rltb_true in Ht. apply Rleb_true. lra.
Qed.


(* ------------------------------------------------------------------------------------------ *)
(* Part E: a document without a heating (cooling) slope reports no heating (cooling) load       *)
(* ------------------------------------------------------------------------------------------ *)

Lemma branch_zero_slope : forall k d : R, branch lo 0 k d = 0.
Proof. intros. unfold branch. ring. Qed.

Lemma no_heat_slope_no_heat_load : forall (c : coeffs NR) (tc : tconstr NR),
  admissible lo hi c tc -> off_corner lo hi c tc -> heat_slope lo hi c = 0 ->
  forall T : R, heating_load lo hi c tc T = 0.
Proof.
  intros c tc A O Hs T.
  rewrite (heating_load_closed lo hi Hlo Hhi c tc A O T).
  destruct (effective_good lo hi c tc A) as (x & Hx & _ & _ & _ & _ & Hb & _).
  unfold heat_part, eff. unfold RNum in *. rewrite Hx.
  assert (E : x_hdd_beta x = 0) by (destruct Hb as [Hb|Hb]; [rewrite Hb; exact Hs | exact Hb]).
  rewrite E. apply branch_zero_slope.
Qed.

Lemma no_cool_slope_no_cool_load : forall (c : coeffs NR) (tc : tconstr NR),
  admissible lo hi c tc -> off_corner lo hi c tc -> cool_slope lo hi c = 0 ->
  forall T : R, cooling_load lo hi c tc T = 0.
Proof.
  intros c tc A O Hs T.
  rewrite (cooling_load_closed lo hi Hlo Hhi c tc A O T).
  destruct (effective_good lo hi c tc A) as (x & Hx & _ & _ & _ & _ & _ & Hb & _).
  unfold cool_part, eff. unfold RNum in *. rewrite Hx.
  assert (E : x_cdd_beta x = 0) by (destruct Hb as [Hb|Hb]; [rewrite Hb; exact Hs | exact Hb]).
  rewrite E. apply branch_zero_slope.
Qed.

(* ------------------------------------------------------------------------------------------ *)
(* Part F: stored parameters close to the generating ones => curves close at EVERY temperature  *)
(* ------------------------------------------------------------------------------------------ *)

Lemma pos_lipschitz : forall u v : R, Rabs (pos u - pos v) <= Rabs (u - v).
Proof.
  intros u v. unfold pos, Rmax. destruct (Rle_dec u 0), (Rle_dec v 0); unfold Rabs;
    repeat match goal with |- context [Rcase_abs ?x] => destruct (Rcase_abs x) end; lra.
Qed.

Lemma Rabs_mult_nonneg : forall a b : R, 0 <= a -> Rabs (a * b) = a * Rabs b.
Proof. intros a b Ha. rewrite Rabs_mult, (Rabs_right a) by lra. reflexivity. Qed.

Lemma hinge_close : forall b b' u u' : R, 0 <= b' ->
  Rabs (b * pos u - b' * pos u') <= Rabs (b - b') * pos u + b' * Rabs (u - u').
Proof.
  intros b b' u u' Hb'.
  replace (b * pos u - b' * pos u') with ((b - b') * pos u + b' * (pos u - pos u')) by ring.
  eapply Rle_trans; [apply Rabs_triang|].
  rewrite Rabs_mult, (Rabs_right (pos u)) by (apply Rle_ge, pos_nonneg).
  rewrite (Rabs_mult_nonneg b' _ Hb').
  pose proof (pos_lipschitz u u'). 
  assert (b' * Rabs (pos u - pos u') <= b' * Rabs (u - u')) by (apply Rmult_le_compat_l; assumption).
  lra.
Qed.

(* a smoothed side stays within beta k of the hinge through its asymptote's balance point *)
Lemma smooth_close : forall beta k d : R, 0 <= beta -> 0 <= k ->
  Rabs (branch lo beta k (pos d) - beta * pos (d - k)) <= beta * k.
Proof.
  intros beta k d Hb Hk.
  assert (Hbk : 0 <= beta * k) by (apply Rmult_le_pos; assumption).
  destruct (Req_dec k 0) as [K0|K0].
  - subst k. rewrite branch_k0. replace (d - 0) with d by ring.
    replace (beta * pos d - beta * pos d) with 0 by ring. rewrite Rabs_R0. lra.
  - assert (Kpos : 0 < k) by lra.
    destruct (Rle_dec d 0) as [D0|D0].
    + rewrite (pos_of_nonpos d D0), (pos_of_nonpos (d - k)) by lra. rewrite (branch_0 lo Hlo).
      replace (0 - beta * 0) with 0 by ring. rewrite Rabs_R0. lra.
    + assert (Dpos : 0 <= d) by lra. rewrite (pos_of_nonneg d Dpos).
      destruct (Rle_dec k d) as [KD|KD].
      * rewrite (pos_of_nonneg (d - k)) by lra. rewrite branch_remainder.
        pose proof (sm_pos lo k d) as S0. pose proof (sm_le_1 lo Hlo k d Kpos Dpos) as S1.
        rewrite Rabs_right by (apply Rle_ge, Rmult_le_pos; lra).
        replace (beta * k) with (beta * k * 1) at 2 by ring. apply Rmult_le_compat_l; assumption.
      * rewrite (pos_of_nonpos (d - k)) by lra.
        pose proof (branch_nonneg lo Hlo beta k d Hb Hk Dpos) as B0.
        pose proof (branch_le_line lo Hlo beta k d Hb Hk Dpos) as B1.
        replace (branch lo beta k d - beta * 0) with (branch lo beta k d) by ring.
        rewrite Rabs_right by lra.
        assert (beta * d <= beta * k) by (apply Rmult_le_compat_l; lra). lra.
Qed.

(* distance of a stored curve (closed form of C11: balance points after the smoothing shift) from a generating
   building, at one temperature *)
Definition side_gap (beta k bp_ref b_beta b_bp dist : R) : R :=
  Rabs (b_beta - beta) * dist + beta * Rabs (b_bp - bp_ref) + beta * k.

Lemma curve_vs_generator : forall (hbp hbeta hk cbp cbeta ck icpt : R) (p : building NR) (T : R),
  0 <= hbeta -> 0 <= cbeta -> 0 <= hk -> 0 <= ck ->
  Rabs (curve lo hbp hbeta hk cbp cbeta ck icpt T - gen_curve NR p T) <=
    Rabs (icpt - b_base p)
    + side_gap hbeta hk (hbp - hk) (b_hbeta p) (b_hbp p) (pos (b_hbp p - T))
    + side_gap cbeta ck (cbp + ck) (b_cbeta p) (b_cbp p) (pos (T - b_cbp p)).
Proof.
  intros hbp hbeta hk cbp cbeta ck icpt [base bh bph bc bpc] T Hh Hc Hhk Hck.
  unfold curve, gen_curve, gen_heat, gen_cool, side_gap. cbn [b_base b_hbeta b_hbp b_cbeta b_cbp].
  rewrite !npos_pos.
  change (@n_add NR) with Rplus. change (@n_mul NR) with Rmult. change (@n_sub NR) with Rminus.
  set (H1 := branch lo hbeta hk (pos (hbp - T))). set (C1 := branch lo cbeta ck (pos (T - cbp))).
  replace (icpt + H1 + C1 - (base + bh * pos (bph - T) + bc * pos (T - bpc)))
    with ((icpt - base) + (H1 - bh * pos (bph - T)) + (C1 - bc * pos (T - bpc))) by ring.
  eapply Rle_trans; [apply Rabs_triang|]. apply Rplus_le_compat.
  - eapply Rle_trans; [apply Rabs_triang|]. apply Rplus_le_compat_l.
    (* heating side *)
    replace (H1 - bh * pos (bph - T))
      with ((H1 - hbeta * pos (hbp - T - hk)) + - (bh * pos (bph - T) - hbeta * pos (hbp - hk - T))).
    2:{ replace (hbp - hk - T) with (hbp - T - hk) by ring. ring. }
    eapply Rle_trans; [apply Rabs_triang|]. rewrite Rabs_Ropp.
    pose proof (smooth_close hbeta hk (hbp - T) Hh Hhk) as S1. fold H1 in S1.
    pose proof (hinge_close bh hbeta (bph - T) (hbp - hk - T) Hh) as S2.
    replace (bph - T - (hbp - hk - T)) with (bph - (hbp - hk)) in S2 by ring. lra.
  - (* cooling side *)
    replace (C1 - bc * pos (T - bpc))
      with ((C1 - cbeta * pos (T - cbp - ck)) + - (bc * pos (T - bpc) - cbeta * pos (T - (cbp + ck)))).
    2:{ replace (T - (cbp + ck)) with (T - cbp - ck) by ring. ring. }
    eapply Rle_trans; [apply Rabs_triang|]. rewrite Rabs_Ropp.
    pose proof (smooth_close cbeta ck (T - cbp) Hc Hck) as S1. fold C1 in S1.
    pose proof (hinge_close bc cbeta (T - bpc) (T - (cbp + ck)) Hc) as S2.
    replace (T - bpc - (T - (cbp + ck))) with (- (bpc - (cbp + ck))) in S2 by ring. rewrite Rabs_Ropp in S2. lra.
Qed.

Lemma pos_mono : forall a b : R, a <= b -> pos a <= pos b.
Proof. intros a b H. unfold pos, Rmax. destruct (Rle_dec a 0), (Rle_dec b 0); lra. Qed.

Lemma side_gap_n_R : forall beta k bp_ref b_beta b_bp dist : R,
  side_gap_n NR beta k bp_ref b_beta b_bp dist = side_gap beta k bp_ref b_beta b_bp dist.
Proof. reflexivity. Qed.

Lemma side_gap_mono : forall beta k bp_ref b_beta b_bp d1 d2 : R, d1 <= d2 ->
  side_gap beta k bp_ref b_beta b_bp d1 <= side_gap beta k bp_ref b_beta b_bp d2.
Proof.
  intros. unfold side_gap. pose proof (Rabs_pos (b_beta - beta)).
  assert (Rabs (b_beta - beta) * d1 <= Rabs (b_beta - beta) * d2) by (apply Rmult_le_compat_l; assumption). lra.
Qed.

(* uniform over a temperature range *)
Lemma uniform_gap : forall (x : fullx NR) (p : building NR) (Tlo Thi T : R),
  good lo hi x -> Tlo <= T <= Thi ->
  Rabs (curve lo (x_hdd_bp x) (x_hdd_beta x) (x_hdd_k x) (x_cdd_bp x) (x_cdd_beta x) (x_cdd_k x) (x_intercept x) T
        - gen_curve NR p T) <= param_gap NR x p Tlo Thi.
Proof.
  intros x p Tlo Thi T (G1 & G2 & G3 & G4 & G5) [H1 H2].
  eapply Rle_trans; [apply curve_vs_generator; assumption|].
  unfold param_gap. change (side_gap_n NR) with side_gap. rewrite !npos_pos.
  change (@n_add NR) with Rplus. change (@n_sub NR) with Rminus. change (@n_abs NR) with Rabs.
  apply Rplus_le_compat; [apply Rplus_le_compat_l|].
  - apply side_gap_mono. apply pos_mono. lra.
  - apply side_gap_mono. apply pos_mono. lra.
Qed.

(* ... for a stored document (C11: admissible, off the corner): its prediction at every temperature of the range *)
Lemma document_gap : forall (c : coeffs NR) (tc : tconstr NR) (p : building NR) (Tlo Thi T : R),
  admissible lo hi c tc -> off_corner lo hi c tc -> Tlo <= T <= Thi ->
  Rabs (predicted lo hi c tc T - gen_curve NR p T) <= param_gap NR (eff lo hi c tc) p Tlo Thi.
Proof.
  intros c tc p Tlo Thi T A O HT.
  rewrite (predicted_curve lo hi Hlo Hhi c tc A O T).
  destruct (eff_good lo hi c tc A) as (_ & G & I). unfold RNum in *. rewrite <- I.
  apply uniform_gap; assumption.
Qed.

(* the generating curve does not depend on the balance point of a side without load *)
Lemma free_bp_same_curve : forall (p : building NR) (x : fullx NR) (T : R),
  (gen_curve NR (free_bp NR p x) T = gen_curve NR p T :> R).
Proof.
  intros [base bh bph bc bpc] x T. unfold free_bp, gen_curve, gen_heat, gen_cool.
  cbn [b_base b_hbeta b_hbp b_cbeta b_cbp].
  change (@n_eqb NR bh n_zero) with (Reqb bh 0). change (@n_eqb NR bc n_zero) with (Reqb bc 0).
  change (@n_add NR) with Rplus. change (@n_mul NR) with Rmult.
  destruct (Reqb bh 0) eqn:Eh; destruct (Reqb bc 0) eqn:Ec;
    try (apply Reqb_true in Eh; subst bh); try (apply Reqb_true in Ec; subst bc); ring.
Qed.

(* pointwise within D  ->  RMSE within D *)
Lemma sse_pointwise : forall (D : R) (f g : list R), 0 <= D ->
  Forall2 (fun a b => Rabs (a - b) <= D) f g -> sse NR f g <= INR (length f) * (D * D).
Proof.
  intros D f g HD H. induction H as [|a b f g Hab _ IH].
  - cbn. lra.
  - rewrite sse_cons. cbn [length]. rewrite S_INR.
    assert ((a - b) * (a - b) <= D * D).
    { pose proof (Rabs_pos (a - b)) as P.
      replace ((a - b) * (a - b)) with (Rabs (a - b) * Rabs (a - b)).
      - apply Rmult_le_compat; assumption.
      - unfold Rabs. destruct (Rcase_abs (a - b)); ring. }
    lra.
Qed.

Lemma rmse_pointwise : forall (D : R) (f g : list R), 0 <= D ->
  Forall2 (fun a b => Rabs (a - b) <= D) f g -> RMSE f g <= D.
Proof.
  intros D f g HD H. pose proof (sse_pointwise D f g HD H) as S0. unfold RMSE.
  apply sqrt_le_of_sq; [exact HD|].
  destruct (length f) as [|n] eqn:En.
  - unfold Rdiv. cbn [INR]. rewrite Rinv_0, Rmult_0_r. pose proof (sq_nonneg D). lra.
  - assert (Hn : 0 < INR (S n)) by (apply lt_0_INR; lia).
    apply Rmult_le_reg_r with (INR (S n)); [exact Hn|].
    unfold Rdiv. rewrite Rmult_assoc, Rinv_l by lra. lra.
Qed.

(* the out-of-sample half from the stored parameters: every weather year inside the range *)
Lemma out_of_sample_from_parameters : forall (c : coeffs NR) (tc : tconstr NR) (p : building NR)
    (Tlo Thi lim m : R) (T2 : list R),
  admissible lo hi c tc -> off_corner lo hi c tc -> 0 <= lim -> 0 <= m ->
  Forall (fun t => Tlo <= t <= Thi) T2 ->
  param_gap NR (eff lo hi c tc) (free_bp NR p (eff lo hi c tc)) Tlo Thi <= lim * m ->
  nrmse_ok NR lim (map (predicted lo hi c tc) T2) (map (gen_curve NR p) T2) m = true.
Proof.
  intros c tc p Tlo Thi lim m T2 A O Hl Hm HT HD.
  apply nrmse_ok_spec; [exact Hl | exact Hm |].
  set (D := param_gap NR (eff lo hi c tc) (free_bp NR p (eff lo hi c tc)) Tlo Thi) in *.
  assert (D0 : 0 <= D).
  { destruct T2 as [|t0 T2'].
    - (* no day at all: the gap is a sum of non-negative terms; use any temperature of the range if there is one *)
      unfold D, param_gap. change (side_gap_n NR) with side_gap. unfold side_gap. rewrite !npos_pos.
      destruct (eff_good lo hi c tc A) as (_ & (G1 & G2 & G3 & G4 & G5) & _). unfold RNum in *.
      change (@n_add NR) with Rplus. change (@n_abs NR) with Rabs.
      repeat apply Rplus_le_le_0_compat; try apply Rabs_pos;
        try (apply Rmult_le_pos; try apply Rabs_pos; try apply pos_nonneg; assumption).
    - inversion HT as [|? ? Ht0 _]; subst.
      eapply Rle_trans; [apply Rabs_pos|].
      apply (document_gap c tc (free_bp NR p (eff lo hi c tc)) Tlo Thi t0 A O Ht0). }
  eapply Rle_trans; [|exact HD]. apply rmse_pointwise; [exact D0|].
  induction T2 as [|t T2 IH]; [constructor|].
  inversion HT as [|? ? Ht HT']; subst. cbn [map]. constructor; [|apply IH; exact HT'].
  rewrite <- (free_bp_same_curve p (eff lo hi c tc) t).
  apply document_gap; assumption.
Qed.

(* the 7-vector of a two-sided unsmoothed document strictly inside the temperature range *)
Lemma effective_both : forall base bh bph bc bpc Tmin Tmax Tminseg Tmaxseg : R,
  Tmin < bph -> bph <= bpc -> bpc < Tmax ->
  effective_x NR (Build_coeffs NR HddTiddCdd base (Some bph) (Some bh) None (Some bpc) (Some bc) None)
                 (Build_tconstr NR Tmin Tmax Tminseg Tmaxseg)
  = Some (Build_fullx NR bph bh 0 bpc bc 0 base).
Proof.
  intros * I1 I3 I5. unfold effective_x. cbn. unfold RNum.
  destruct (fix_ordered lo hi bph bh 0 bpc bc 0 base Tmin Tmax I3)
    as (hb' & hk' & cb' & ck' & E & _ & _ & K1 & K2 & _ & _ & _ & _ & Keep).
  unfold mkx in E. rewrite E.
  destruct Keep as [Eb1 Eb2]; [right; lra|]. subst hb' cb'.
  assert (hk' = 0) by (destruct K1; assumption). assert (ck' = 0) by (destruct K2; assumption). subst hk' ck'.
  reflexivity.
Qed.

(* ------------------------------------------------------------------------------------------ *)
(* Part G: the final box as a function of the initial fit's result (fit_final_model.get_bnds)   *)
(* ------------------------------------------------------------------------------------------ *)

Lemma n_ten_R : (@n_ten NR = 10 :> R).
Proof. unfold n_ten, n_two. cbn. ring. Qed.

Lemma get_bnds_row_R : forall s x : R,
  get_bnds_row NR s x = if Req_EM_T x 0 then (- (10 * s), 10 * s) else (x - Rabs x * s, x + Rabs x * s).
Proof.
  intros s x. unfold get_bnds_row. change (@n_eqb NR x n_zero) with (Reqb x 0). unfold Reqb.
  destruct (Req_EM_T x 0); [|reflexivity].
  change (@n_opp NR) with Ropp. change (@n_mul NR) with Rmult. rewrite n_ten_R. reflexivity.
Qed.

(* v is within the relative distance s of x0 (within 10 s of a zero x0) *)
Definition near (s x0 v : R) : Prop :=
  (x0 = 0 -> Rabs v <= 10 * s) /\ (x0 <> 0 -> Rabs (v - x0) <= Rabs x0 * s).

Lemma get_bnds_row_in : forall s x0 v : R, near s x0 v ->
  fst (get_bnds_row NR s x0) <= v <= snd (get_bnds_row NR s x0).
Proof.
  intros s x0 v [H0 H1]. rewrite get_bnds_row_R. destruct (Req_EM_T x0 0) as [E|E]; cbn [fst snd].
  - specialize (H0 E). unfold Rabs in H0. destruct (Rcase_abs v); split; lra.
  - specialize (H1 E). revert H1. generalize (Rabs x0 * s). intros d H1.
    unfold Rabs in H1. destruct (Rcase_abs (v - x0)); split; lra.
Qed.

(* the initial fit's reduced vector has the generator's model class and slopes near the generating ones *)
Definition initial_near (p : building NR) (s : R) (x0 : list R) : Prop :=
  match shape_of NR p, x0 with
  | HddTiddCdd, [_; hb0; _; cb0; _] => near s hb0 (b_hbeta p) /\ near s cb0 (b_cbeta p)
  | HddTidd, [_; b0; _] => near s b0 (- b_hbeta p)
  | TiddCdd, [_; b0; _] => near s b0 (b_cbeta p)
  | Tidd, [_] => True
  | _, _ => False
  end.

Lemma slope_rows_from_initial : forall (p : building NR) (s : R) (x0 : list R),
  initial_near p s x0 -> slope_rows_ok p (map (get_bnds_row NR s) x0).
Proof.
  intros p s x0 H. unfold initial_near, slope_rows_ok in *.
  destruct (shape_of NR p); try contradiction.
  - destruct x0 as [|a0 [|a1 [|a2 [|a3 [|a4 [|a5 r]]]]]]; try contradiction. cbn [map].
    destruct H as [H1 H2]. split; apply get_bnds_row_in; assumption.
  - destruct x0 as [|a0 [|a1 [|a2 [|a3 r]]]]; try contradiction. cbn [map]. apply get_bnds_row_in; exact H.
  - destruct x0 as [|a0 [|a1 [|a2 [|a3 r]]]]; try contradiction. cbn [map]. apply get_bnds_row_in; exact H.
  - destruct x0 as [|a0 [|a1 r]]; try contradiction. cbn [map]. exact I.
Qed.

(* the generating building is feasible for the final fit's box as the code derives it from the initial fit *)
Lemma generator_in_box_from_initial : forall (p : building NR) (nmin : nat) (T obs : list R) (s : R) (x0 : list R),
  0 <= b_hbeta p -> 0 <= b_cbeta p ->
  days_ok p nmin T -> initial_near p s x0 -> icpt_ok p obs ->
  exists box, final_box_from_initial NR (key_of_shape (shape_of NR p)) nmin T obs s x0 = Some box /\
              in_box NR box (raw_of NR p) = true.
Proof.
  intros p nmin T obs s x0 Hh Hc Hd Hn Hi. unfold final_box_from_initial.
  apply generator_in_box; try assumption. apply slope_rows_from_initial. exact Hn.
Qed.

(* with the method's final_bounds_scalar = 1: the initial slope must be at least half the generating one *)
Lemma near_scalar_one : forall x0 v : R, 0 < x0 -> 0 <= v <= 2 * x0 -> near 1 x0 v.
Proof.
  intros x0 v Hx [H1 H2]. split; [intros E; lra|]. intros _.
  rewrite (Rabs_right x0) by lra. unfold Rabs. destruct (Rcase_abs (v - x0)); lra.
Qed.
