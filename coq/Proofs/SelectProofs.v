(* The structure of the selection code as it is modelled ([reference_tables]: the loop shape of _best_combination,
   the guards and expressions of selection_criteria.py, the three expressions of _combination_selection_criteria /
   _get_error_metrics - written down here once, in the vocabulary of Model/SelectShape.v) means exactly the
   hand-written models: Model/SelCrit.v (for every numeric instance and every input) and Model/Splits.v (best).
   Every lemma is stated for any tables equal to the reference, so that Properties/C13.v can apply it to the tables
   harness/translate_select.py regenerates from the source text on every run (Generated/SelectGen.v) by [eq_refl]:
   a source edit then breaks that obligation, at the end of Properties/C13.v.  No Reals here. *)
From Coq Require Import ZArith List Bool String.
From V Require Import Model.Num Model.SelCrit Model.Splits Model.SelectShape Proofs.SplitsProofs.
Import ListNotations.
Open Scope string_scope.

(* DailyModel._best_combination: start from +inf; `new < incumbent` alone; both fields updated; the name returned *)
Definition ref_best_loop : loop_shape :=
  {| ls_init := InitPosInf; ls_iter := "self.combinations"%string; ls_crit_call := "self._combination_selection_criteria"%string; ls_cmp := CmpLt; ls_new_on_left := true;
     ls_extra_conditions := 0%nat; ls_updates_name := true; ls_updates_crit := true; ls_other_statements := 0%nat;
     ls_returns_name := true |}.

(* DailyModel._combination_selection_criteria / _get_error_metrics *)
Definition ref_components_src : string := "combination.split('__')"%string.
Definition ref_num_coeffs : expr := (ELen "components"%string).
Definition ref_loss : expr := (EDiv (EVar "wRMSE"%string) (EVar "self.wRMSE_base"%string)).
Definition ref_wrmse : expr := (ESqrt (EDiv (EVar "wSSE"%string) (EVar "N"%string))).
Definition ref_call_args : list string := ["loss"%string; "TSS"%string; "N"%string; "num_coeffs"%string; "criteria_type"%string; "penalty_multiplier"%string; "penalty_power"%string].

(* selection_criteria.py *)
Definition ref_nll_guards : list (string * cmp_op * Z) := [("loss"%string, CmpLe, 0%Z); ("N"%string, CmpLe, 0%Z)].
Definition ref_nll : expr := (EMul (EDiv (ENeg (EVar "N"%string)) (EConst 2%Z)) (EAdd (EAdd (ELog ETwoPi) (ELog (EDiv (EVar "loss"%string) (EVar "N"%string)))) (EConst 1%Z))).
Definition ref_crit_args : list string := ["loss"%string; "TSS"%string; "N"%string; "num_coeffs"%string; "model_selection_criteria"%string; "penalty_multiplier"%string; "penalty_power"%string].
Definition ref_dfp : expr := (ESub (ESub (EVar "N"%string) (EVar "num_coeffs"%string)) (EConst 1%Z)).
Definition ref_dfp_guard : string * cmp_op * Z := ("df_penalized"%string, CmpLe, 0%Z).
Definition ref_dfp_fallback : expr := ETiny.
Definition ref_branches : list (string * expr) :=
  [
   ("rmse"%string, (ESqrt (EDiv (EVar "loss"%string) (EVar "N"%string)))); 
   ("rmse_adj"%string, (ESqrt (EDiv (EVar "loss"%string) (EVar "df_penalized"%string)))); 
   ("r_squared"%string, (EMul (ESub (EConst 1%Z) (ESub (EConst 1%Z) (EDiv (EVar "loss"%string) (EVar "TSS"%string)))) (EConst 100%Z))); 
   ("r_squared_adj"%string, (EMul (ESub (EConst 1%Z) (ESub (EConst 1%Z) (EMul (ESub (EConst 1%Z) (ESub (EConst 1%Z) (EDiv (EVar "loss"%string) (EVar "TSS"%string)))) (EDiv (ESub (EVar "N"%string) (EConst 1%Z)) (EVar "df_penalized"%string))))) (EConst 100%Z))); 
   ("fpe"%string, (EDiv (EMul (EVar "loss"%string) (EAdd (EAdd (EVar "N"%string) (EVar "num_coeffs"%string)) (EConst 1%Z))) (EVar "df_penalized"%string))); 
   ("aic"%string, (EAdd (EMul (ENeg (EConst 2%Z)) (ECall "neg_log_likelihood"%string ["loss"%string; "N"%string])) (EMul (EMul (EVar "penalty_multiplier"%string) (EConst 2%Z)) (EPow (EVar "num_coeffs"%string) (EVar "penalty_power"%string))))); 
   ("aicc"%string, (EAdd (EMul (ENeg (EConst 2%Z)) (ECall "neg_log_likelihood"%string ["loss"%string; "N"%string])) (EMul (EVar "penalty_multiplier"%string) (EPow (EAdd (EMul (EConst 2%Z) (EVar "num_coeffs"%string)) (EDiv (EMul (EMul (EConst 2%Z) (EVar "num_coeffs"%string)) (EAdd (EVar "num_coeffs"%string) (EConst 1%Z))) (EVar "df_penalized"%string))) (EVar "penalty_power"%string))))); 
   ("caic"%string, (EAdd (EMul (ENeg (EConst 2%Z)) (ECall "neg_log_likelihood"%string ["loss"%string; "N"%string])) (EMul (EMul (EVar "penalty_multiplier"%string) (EVar "num_coeffs"%string)) (EPow (EAdd (ELog (EVar "N"%string)) (EConst 1%Z)) (EVar "penalty_power"%string))))); 
   ("bic"%string, (EAdd (EMul (ENeg (EConst 2%Z)) (ECall "neg_log_likelihood"%string ["loss"%string; "N"%string])) (EMul (EMul (EVar "penalty_multiplier"%string) (EVar "num_coeffs"%string)) (EPow (ELog (EVar "N"%string)) (EVar "penalty_power"%string))))); 
   ("sabic"%string, (EAdd (EMul (ENeg (EConst 2%Z)) (ECall "neg_log_likelihood"%string ["loss"%string; "N"%string])) (EMul (EMul (EVar "penalty_multiplier"%string) (EVar "num_coeffs"%string)) (EPow (ELog (EDiv (EAdd (EVar "N"%string) (EConst 2%Z)) (EConst 24%Z))) (EVar "penalty_power"%string)))))].
Definition ref_unnormalised : list string := ["rmse"%string; "rmse_adj"%string].
Definition ref_normalise_by : string := "N"%string.

Definition reference_tables : sel_tables :=
  {| t_loop := ref_best_loop; t_components_src := ref_components_src; t_num_coeffs := ref_num_coeffs; t_loss := ref_loss;
     t_wrmse := ref_wrmse; t_call_args := ref_call_args; t_nll_guards := ref_nll_guards; t_nll := ref_nll;
     t_crit_args := ref_crit_args; t_dfp := ref_dfp; t_dfp_guard := ref_dfp_guard; t_dfp_fallback := ref_dfp_fallback;
     t_branches := ref_branches; t_unnormalised := ref_unnormalised; t_normalise_by := ref_normalise_by |}.

(* ------------------------------------------------------------------ the selection loop *)
Theorem best_loop_as_coded_l : forall t, t = reference_tables ->
  exists f : loop_fn, loop_model (t_loop t) = Some f /\
    forall A lt top l, f A lt top l = best A lt top l.
Proof. intros t ->. eexists. split; [vm_compute; reflexivity|]. intros. reflexivity. Qed.

(* what the coded loop therefore guarantees (NaN and +inf never selected, first strict minimum) *)
Theorem coded_loop_is_argmin_l : forall t, t = reference_tables ->
  forall f : loop_fn, loop_model (t_loop t) = Some f ->
  forall l s, f xr xlt XPosInf l = Some s ->
  exists c, In (s, c) l /\ c <> XNaN /\ c <> XPosInf /\ forall s' c', In (s', c') l -> xlt c' c = false.
Proof.
  intros t Ht f Hf l s H. destruct (best_loop_as_coded_l t Ht) as (g & Hg & Eg). rewrite Hf in Hg. injection Hg as <-.
  rewrite Eg in H. apply best_is_argmin_l. exact H.
Qed.

(* a loop with "<=" instead of "<", or with a further condition, is not this model *)
Example other_loops_are_not_best :
  loop_model {| ls_init := InitPosInf; ls_iter := "self.combinations"; ls_crit_call := "self._combination_selection_criteria";
                ls_cmp := CmpLe; ls_new_on_left := true; ls_extra_conditions := 0; ls_updates_name := true;
                ls_updates_crit := true; ls_other_statements := 0; ls_returns_name := true |} = None /\
  loop_model {| ls_init := InitPosInf; ls_iter := "self.combinations"; ls_crit_call := "self._combination_selection_criteria";
                ls_cmp := CmpLt; ls_new_on_left := true; ls_extra_conditions := 1; ls_updates_name := true;
                ls_updates_crit := true; ls_other_statements := 0; ls_returns_name := true |} = None.
Proof. split; reflexivity. Qed.

(* ------------------------------------------------------------------ the criterion *)
Section Criterion.
  Variable N : num.
  Variable x_ln x_sqrt : N -> N.
  Variable x_pow : N -> N -> N.
  Variable two_pi tiny : N.
  Variable absorb : N -> ext N.

  Lemma ref_nll_as_model : forall c0 d0 loss tss n k,
    interp_nll N x_ln x_sqrt x_pow two_pi tiny ref_nll_guards ref_nll (base_env N c0 d0 loss tss n k)
    = neg_log_likelihood N x_ln two_pi loss n.
  Proof.
    intros. unfold interp_nll, neg_log_likelihood, ref_nll_guards. cbn [existsb guard_holds cmp_holds base_env].
    cbn. rewrite orb_false_r. reflexivity.
  Qed.

  Lemma ref_dfp_as_model : forall c0 d0 loss tss n k,
    interp_dfp N x_ln x_sqrt x_pow two_pi tiny ref_dfp ref_dfp_fallback ref_dfp_guard (base_env N c0 d0 loss tss n k)
    = df_penalized N tiny n k.
  Proof. intros. reflexivity. Qed.

  (* the coded criterion, rebuilt from the expressions of the source text, IS the model, for every criterion type,
     every input and every numeric instance *)
  Theorem criterion_as_model_l : forall t, t = reference_tables -> forall ty c0 d0 loss tss n k,
    tables_criterion N x_ln x_sqrt x_pow two_pi tiny absorb t ty c0 d0 loss tss n k
    = selection_criteria N x_ln x_sqrt x_pow two_pi tiny absorb ty c0 d0 loss tss n k.
  Proof.
    intros t -> ty c0 d0 loss tss n k. unfold tables_criterion, reference_tables, interp_criterion.
    cbn [t_nll_guards t_nll t_dfp t_dfp_fallback t_dfp_guard t_branches t_unnormalised t_normalise_by].
    destruct ty; cbn [crit_name lookup find ref_branches fst snd String.eqb Ascii.eqb Bool.eqb existsb ref_unnormalised orb];
      try reflexivity;
      rewrite ref_nll_as_model;
      unfold selection_criteria, info_criterion;
      destruct (neg_log_likelihood N x_ln two_pi loss n); reflexivity.
  Qed.

  (* the three small expressions of _combination_selection_criteria / _get_error_metrics *)
  Theorem combination_as_model_l : forall t, t = reference_tables -> forall (l base : list (cfit N)) (len : N),
    eval N x_ln x_sqrt x_pow two_pi tiny (env_wrmse N (sum_of N f_wsse l) (sum_of N f_n l)) (t_wrmse t) = wrmse N x_sqrt l /\
    eval N x_ln x_sqrt x_pow two_pi tiny (env_loss N (wrmse N x_sqrt l) (wrmse N x_sqrt base)) (t_loss t)
      = combo_loss N x_sqrt base l /\
    eval N x_ln x_sqrt x_pow two_pi tiny (env_len N "components" len) (t_num_coeffs t) = len /\
    t_components_src t = "combination.split('__')" /\
    t_call_args t = ["loss"; "TSS"; "N"; "num_coeffs"; "criteria_type"; "penalty_multiplier"; "penalty_power"] /\
    t_crit_args t = ["loss"; "TSS"; "N"; "num_coeffs"; "model_selection_criteria"; "penalty_multiplier"; "penalty_power"].
  Proof. intros t -> l base len. repeat split; reflexivity. Qed.
End Criterion.

(* every integer literal of the expressions is one the evaluator knows *)
Theorem constants_known_l : forall t, t = reference_tables -> tables_consts_known t = true.
Proof. intros t ->. vm_compute. reflexivity. Qed.
