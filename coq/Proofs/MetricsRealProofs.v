(* What the square-free model of Model/Metrics.v means over the reals: [Root neg s] denotes
   (-1)^neg * sqrt s.  The comparisons, quotients and inequalities the model performs on squares are
   the ones of the actual roots.  (Reals: the standard-library axioms appear under Print Assumptions.) *)
From Coq Require Import ZArith QArith Qabs Qreals Reals Lra Bool List.
From V Require Import Model.Metrics Proofs.MetricsProofs.
Import ListNotations.
Local Open Scope R_scope.

Definition root_R (neg : bool) (s : Q) : R := (if neg then -1 else 1) * sqrt (Q2R s).

Definition val_R (v : val) : option R :=
  match v with
  | Num q => Some (Q2R q)
  | Root neg s => Some (root_R neg s)
  | Undef | NaN | Inf _ => None
  end.

Lemma Q2R_sqr : forall t, Q2R (sqr t) = Q2R t * Q2R t.
Proof. intros t. unfold sqr. apply Q2R_mult. Qed.

Lemma Qltb_Rlt : forall a b, Qltb a b = true <-> Q2R a < Q2R b.
Proof.
  intros a b. rewrite Qltb_true. split; [apply Qlt_Rlt|apply Rlt_Qlt].
Qed.

Lemma Qltb_Rle : forall a b, Qltb a b = false <-> Q2R b <= Q2R a.
Proof.
  intros a b. rewrite Qltb_false. split; [apply Qle_Rle|apply Rle_Qle].
Qed.

Lemma Q2R_0 : Q2R 0 = 0.
Proof. unfold Q2R. cbn. lra. Qed.

Lemma Q2R_abs : forall q, Q2R (Qabs q) = Rabs (Q2R q).
Proof.
  intros q. destruct (Qlt_le_dec q 0) as [H|H].
  - rewrite (Qeq_eqR _ _ (Qabs_neg q (Qlt_le_weak _ _ H))). apply Qlt_Rlt in H. rewrite Q2R_0 in H.
    rewrite Q2R_opp. rewrite Rabs_left by exact H. reflexivity.
  - rewrite (Qeq_eqR _ _ (Qabs_pos q H)). apply Qle_Rle in H. rewrite Q2R_0 in H.
    rewrite Rabs_right by lra. reflexivity.
Qed.

(* sqrt s < t  <->  s < t^2   for t > 0, s >= 0 *)
Lemma sqrt_lt_iff : forall s t, 0 <= s -> 0 < t -> (sqrt s < t <-> s < t * t).
Proof.
  intros s t Hs Ht. split; intros H.
  - pose proof (sqrt_pos s) as Hp. pose proof (sqrt_sqrt s Hs) as E.
    assert (sqrt s * sqrt s < t * t) by (apply Rmult_le_0_lt_compat; assumption). lra.
  - rewrite <- (sqrt_square t) by lra. apply sqrt_lt_1_alt. lra.
Qed.

(* sqrt s > t  <->  s > t^2   for t >= 0, s >= 0 *)
Lemma sqrt_gt_iff : forall s t, 0 <= s -> 0 <= t -> (t < sqrt s <-> t * t < s).
Proof.
  intros s t Hs Ht. split; intros H.
  - pose proof (sqrt_sqrt s Hs) as E.
    assert (t * t < sqrt s * sqrt s) by (apply Rmult_le_0_lt_compat; assumption). lra.
  - rewrite <- (sqrt_square t) by lra. apply sqrt_lt_1_alt. pose proof (Rle_0_sqr t) as P. unfold Rsqr in P. lra.
Qed.

(* the model's "<" on a root kept as its square is "<" on the root *)
Theorem val_ltb_root_R : forall neg s t, (0 <= s)%Q ->
  (val_ltb (Root neg s) t = true <-> root_R neg s < Q2R t).
Proof.
  intros neg s t Hs. apply Qle_Rle in Hs. rewrite Q2R_0 in Hs.
  pose proof (sqrt_pos (Q2R s)) as Hp. cbn [val_ltb]. unfold root_R.
  destruct (Qltb 0 t) eqn:T.
  - apply Qltb_Rlt in T. rewrite Q2R_0 in T. rewrite orb_true_iff, Qltb_Rlt, Q2R_sqr.
    destruct neg.
    + split; [intros _; lra|intros _; left; reflexivity].
    + rewrite Rmult_1_l. rewrite (sqrt_lt_iff _ _ Hs T). split; [intros [F|F]; [discriminate|exact F]|intros F; right; exact F].
  - apply Qltb_Rle in T. rewrite Q2R_0 in T. rewrite andb_true_iff, Qltb_Rlt, Q2R_sqr.
    destruct neg.
    + assert (E : -1 * sqrt (Q2R s) < Q2R t <-> - Q2R t < sqrt (Q2R s)) by (split; intros; lra).
      rewrite E. rewrite (sqrt_gt_iff (Q2R s) (- Q2R t)) by lra.
      replace (- Q2R t * - Q2R t) with (Q2R t * Q2R t) by ring. split; [intros [_ F]; exact F|intros F; split; [reflexivity|exact F]].
    + split; [intros [F _]; discriminate|intros F; lra].
Qed.

Theorem val_gtb_root_R : forall neg s t, (0 <= s)%Q ->
  (val_gtb (Root neg s) t = true <-> Q2R t < root_R neg s).
Proof.
  intros neg s t Hs. apply Qle_Rle in Hs. rewrite Q2R_0 in Hs.
  pose proof (sqrt_pos (Q2R s)) as Hp. cbn [val_gtb]. unfold root_R.
  destruct (Qltb t 0) eqn:T.
  - apply Qltb_Rlt in T. rewrite Q2R_0 in T. rewrite orb_true_iff, negb_true_iff, Qltb_Rlt, Q2R_sqr.
    destruct neg.
    + assert (E : Q2R t < -1 * sqrt (Q2R s) <-> sqrt (Q2R s) < - Q2R t) by (split; intros; lra).
      rewrite E. rewrite (sqrt_lt_iff (Q2R s) (- Q2R t)) by lra.
      replace (- Q2R t * - Q2R t) with (Q2R t * Q2R t) by ring.
      split; [intros [F|F]; [discriminate|exact F]|intros F; right; exact F].
    + split; [intros _; lra|intros _; left; reflexivity].
  - apply Qltb_Rle in T. rewrite Q2R_0 in T. rewrite andb_true_iff, negb_true_iff, Qltb_Rlt, Q2R_sqr.
    destruct neg.
    + split; [intros [F _]; discriminate|intros F; lra].
    + rewrite Rmult_1_l. rewrite (sqrt_gt_iff _ _ Hs T). split; [intros [_ F]; exact F|intros F; split; [reflexivity|exact F]].
Qed.

(* a reported root ratio is the quotient of the root by the denominator *)
Theorem root_div_R : forall msq den neg s, (0 <= msq)%Q ->
  root_div msq den = Root neg s -> root_R neg s = sqrt (Q2R msq) / Q2R den /\ Q2R den <> 0.
Proof.
  intros msq den neg s Hm H. unfold root_div in H.
  destruct (Qeq_bool den 0) eqn:Z; [destruct (Qeq_bool msq 0); discriminate|].
  injection H as <- <-. apply Qeq_bool_false in Z.
  assert (Hd : Q2R den <> 0).
  { intros E. apply Z. apply eqR_Qeq. rewrite E, Q2R_0. reflexivity. }
  split; [|exact Hd].
  apply Qle_Rle in Hm. rewrite Q2R_0 in Hm. unfold root_R.
  assert (Es : Q2R (Qred (msq / sqr den)) = Q2R msq / (Q2R den * Q2R den)).
  { rewrite (Qeq_eqR _ _ (Qred_correct _)). rewrite Q2R_div.
    - rewrite Q2R_sqr. reflexivity.
    - unfold sqr. intros E. apply Z. destruct (Qmult_integral _ _ E); assumption. }
  rewrite Es.
  destruct (Qltb den 0) eqn:N.
  - apply Qltb_Rlt in N. rewrite Q2R_0 in N.
    replace (Q2R den * Q2R den) with ((- Q2R den) * (- Q2R den)) by ring.
    rewrite sqrt_div_alt by (apply Rmult_lt_0_compat; lra). rewrite sqrt_square by lra. field. lra.
  - apply Qltb_Rle in N. rewrite Q2R_0 in N.
    assert (P : 0 < Q2R den) by lra.
    rewrite sqrt_div_alt by (apply Rmult_lt_0_compat; lra). rewrite sqrt_square by lra. field. lra.
Qed.

Section BaselineR.
  Variable pl : policy.
  Variable d : list (Q * Q).
  Variable p : Z.
  Variable mn : Q.
  Hypothesis Hd : d <> [].
  Let m := baseline_p pl d p mn.

  (* CVRMSE, when reported, is RMSE / mean(observed) *)
  Theorem cvrmse_is_quotient_R : forall neg s,
    b_cvrmse m = Root neg s ->
    root_R neg s = sqrt (Q2R (b_mse m)) / Q2R (c_mean (b_obs m)) /\ Q2R (c_mean (b_obs m)) <> 0.
  Proof.
    intros neg s H. pose proof (mse_nonneg pl d p mn Hd) as Hm. fold m in Hm.
    unfold m, baseline_p in H. cbn [b_cvrmse] in H.
    assert (R : root_div (b_mse m) (c_mean (b_obs m)) = Root neg s).
    { unfold m, baseline_p. cbn [b_mse b_obs]. destruct pl; cbn [sdiv_root] in H.
      - unfold safe_divide_root in H. destruct (_ && _); [discriminate|exact H].
      - unfold safe_divide_root_spec in H. destruct (Qle_bool _ _); [discriminate|exact H]. }
    apply root_div_R; assumption.
  Qed.

  (* MAE <= RMSE and |bias| <= MAE, over the reals *)
  Theorem mae_le_rmse_R : Rabs (Q2R (b_mbe m)) <= Q2R (b_mae m) /\ Q2R (b_mae m) <= sqrt (Q2R (b_mse m)).
  Proof.
    pose proof (abs_mbe_le_mae pl d p mn Hd) as A. pose proof (mae_sq_le_mse_b pl d p mn Hd) as B.
    pose proof (mae_nonneg pl d p mn Hd) as C. fold m in A, B, C.
    apply Qle_Rle in A. apply Qle_Rle in B. apply Qle_Rle in C. rewrite Q2R_0 in C. rewrite Q2R_mult in B.
    split.
    - rewrite Q2R_abs in A. exact A.
    - rewrite <- (sqrt_square (Q2R (b_mae m))) by exact C. apply sqrt_le_1_alt. exact B.
  Qed.

  (* |R| <= 1 and |rho| <= 1 *)
  Theorem r_abs_le_1_R : forall r, b_r2 m = Some r -> sqrt (Q2R r) <= 1.
  Proof.
    intros r H. destruct (r2_bounds pl d p mn r H) as [_ B]. apply Qle_Rle in B.
    replace (Q2R 1) with 1 in B by (unfold Q2R; cbn; lra).
    rewrite <- sqrt_1. apply sqrt_le_1_alt. exact B.
  Qed.
End BaselineR.

(* the daily / billing gate: disqualified exactly when RMSE / mean(observed) > threshold *)
Theorem daily_dq_R : forall resid obs t, resid <> [] -> ~ (mean obs == 0)%Q ->
  (daily_disqualified (daily_error resid obs) t = true <->
   Q2R t < sqrt (Q2R (d_mse (daily_error resid obs))) / Q2R (mean obs)).
Proof.
  intros resid obs t Hr Hm. unfold daily_disqualified.
  assert (Hmse : (0 <= d_mse (daily_error resid obs))%Q).
  { unfold daily_error. cbn [d_mse]. rewrite Qred_correct. pose proof (sum_sq_nonneg resid). pose proof (qlen_pos _ resid Hr).
    apply Qle_shift_div_l; [assumption|]. rewrite Qmult_0_l. assumption. }
  remember (d_cvrmse (daily_error resid obs)) as v eqn:Ev.
  unfold daily_error in Ev. cbn [d_cvrmse] in Ev.
  assert (R : exists neg s, v = Root neg s /\ (0 <= s)%Q).
  { subst v. unfold root_div. destruct (Qeq_bool (mean obs) 0) eqn:Z; [apply Qeq_bool_iff in Z; contradiction|].
    eexists _, _. split; [reflexivity|]. rewrite Qred_correct. apply Qeq_bool_false in Z.
    unfold daily_error in Hmse. cbn [d_mse] in Hmse.
    apply Qle_shift_div_l.
    - unfold sqr. destruct (Qlt_le_dec (mean obs) 0); [|destruct (Qlt_le_dec 0 (mean obs))].
      + setoid_replace (mean obs * mean obs)%Q with ((- mean obs) * (- mean obs))%Q by ring.
        apply Qmult_lt_0_compat; apply Qlt_minus_iff in q; ring_simplify in q; setoid_replace (- mean obs)%Q with ((-1 # 1) * mean obs)%Q by ring; exact q.
      + apply Qmult_lt_0_compat; assumption.
      + exfalso. apply Z. apply Qle_antisym; assumption.
    - rewrite Qmult_0_l. exact Hmse. }
  destruct R as [neg [s [Es Hs]]]. rewrite Es. rewrite (val_gtb_root_R neg s t Hs).
  assert (Q : root_R neg s = sqrt (Q2R (d_mse (daily_error resid obs))) / Q2R (mean obs)).
  { apply (root_div_R _ (mean obs)); [exact Hmse|]. rewrite <- Es. subst v. reflexivity. }
  rewrite Q. reflexivity.
Qed.
