(* C04: the hand-written decision functions of Model/Gate.v are the interpretation of the guard lists that
   harness/translate_gate.py reads from /repo's source on every run (Generated/GateGen.v). *)
From Coq Require Import ZArith List Bool.
From V Require Import Model.Gate Generated.GateGen.
Import ListNotations.
Open Scope Z_scope.

Lemma predict_is_guard_sequence_l : forall f s d i,
  predict f s d i = interp_predict f (predict_guards f) s d i.
Proof.
  intros f s d i. destruct f; unfold predict, predict_guards; cbn [interp_predict];
  destruct (fitted s); cbn [negb]; try reflexivity;
  destruct (has_attrs (d_kind d)) eqn:Ha; cbn [negb];
  destruct (nonempty (m_dq s) && negb i); try reflexivity;
  destruct (m_tz s =? d_tz d); cbn [negb]; try reflexivity;
  destruct (m_ghi s && negb (d_ghi d)); try reflexivity;
  destruct (d_kind d) as [g|g|]; cbn in *; try discriminate; try reflexivity.
Qed.

Lemma fit_is_guard_sequence_l : forall poor f s d i,
  match interp_fit f (fit_guards f) s d i with
  | Some e => fit poor f s d i = (s, Err e)
  | None => snd (fit poor f s d i) = Fitted
  end.
Proof.
  intros poor f s d i. destruct f; unfold fit, fit_guards; cbn [interp_fit family_eqb andb];
  destruct (is_baseline_of _ (d_kind d)); cbn [negb]; try reflexivity;
  destruct (nonempty (d_dq d) && negb i); try reflexivity;
  destruct (m_ghi s && negb (d_ghi d)); reflexivity.
Qed.
