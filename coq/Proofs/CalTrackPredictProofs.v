(* Lemmas about Model/CalTrackPredict.v (property C18, extension): the value predicted for an hour.
   Part 1 is for arbitrary parameters / frames and does not look inside the tables; part 2 uses the month routing
   theorem over the regenerated tables (Proofs/CalTrackTableProofs.v). *)
From Coq Require Import ZArith QArith Qminmax List Bool String Lia Lqa.
From V Require Import Generated.CalTrackTables Model.CalTrack Model.CalTrackPredict Proofs.CalTrackProofs Proofs.CalTrackTableProofs.
Import ListNotations.
Local Open Scope Q_scope.

(* ---- 1. one segment model on one feature row ---------------------------------------------------------------------- *)
Lemma all_some_map_Some : forall l, all_some (map Some l) = Some l.
Proof. induction l as [ | x l IH ]; [ reflexivity | ]. cbn [map all_some]. rewrite IH. reflexivity. Qed.

Lemma all_some_const : forall (A : Type) z (l : list A), all_some (map (fun _ => Some z) l) = Some (map (fun _ => z) l).
Proof. induction l as [ | x l IH ]; [ reflexivity | ]. cbn [map all_some]. rewrite IH. reflexivity. Qed.

Lemma dot_zeros : forall (A : Type) coefs (l : list A), dot coefs (map (fun _ => 0) l) == 0.
Proof.
  intros A coefs l. revert coefs. induction l as [ | x l IH ]; intros [ | c coefs ]; cbn [map dot]; try reflexivity.
  rewrite IH. destruct c; lra.
Qed.

Lemma dot_const : forall b xs, dot (repeat (Some b) (List.length xs)) xs == b * sum QOps xs.
Proof.
  induction xs as [ | x xs IH ]; cbn [List.length repeat dot]; [ cbn; lra | ].
  rewrite IH. change (sum QOps (x :: xs)) with (x + sum QOps xs). lra.
Qed.

Lemma forallb_present_Some : forall l : list Q, forallb (present QOps) (map Some l) = true.
Proof. induction l as [ | x l IH ]; [ reflexivity | ]. cbn [map forallb present]. exact IH. Qed.

(* an occupied hour with a finite temperature: the feature row is (bins of T over the occupied endpoints, zeros) *)
Lemma occupied_row : forall t eo eu,
  feature_row QOps true (Some true) (Some t) eo eu =
  (map Some (bin_features QOps t eo), map Some (map (fun _ => 0) (bin_features QOps t eu))).
Proof.
  intros t eo eu. unfold feature_row, occupancy_split, zeros, bin_features_opt. cbn [fst snd andb].
  rewrite forallb_present_Some. rewrite !map_map. rewrite <- (map_map (fun _ => 0) Some). rewrite forallb_present_Some.
  rewrite map_map. reflexivity.
Qed.

Lemma unoccupied_row : forall t eo eu,
  feature_row QOps true (Some false) (Some t) eo eu =
  (map Some (map (fun _ => 0) (bin_features QOps t eo)), map Some (bin_features QOps t eu)).
Proof.
  intros t eo eu. unfold feature_row, occupancy_split, zeros, bin_features_opt. cbn [fst snd andb].
  rewrite !map_map. rewrite <- (map_map (fun _ => 0) Some). rewrite !forallb_present_Some.
  rewrite map_map. reflexivity.
Qed.

(* the closed form of the prediction of an occupied hour: c_h + coefficients . bins of T; the unoccupied group adds nothing *)
Lemma occupied_value_l : forall p how c t eo eu, lookup_how how (sp_how p) = Some c ->
  let r := feature_row QOps true (Some true) (Some t) eo eu in
  exists v, segment_predict p how (fst r) (snd r) = Some v /\ v == c + dot (sp_occ p) (bin_features QOps t eo).
Proof.
  intros p how c t eo eu Hc. cbv zeta. rewrite occupied_row. cbn [fst snd]. unfold segment_predict.
  rewrite !all_some_map_Some. rewrite Hc. eexists. split; [ reflexivity | ]. rewrite dot_zeros. lra.
Qed.

Lemma unoccupied_value_l : forall p how c t eo eu, lookup_how how (sp_how p) = Some c ->
  let r := feature_row QOps true (Some false) (Some t) eo eu in
  exists v, segment_predict p how (fst r) (snd r) = Some v /\ v == c + dot (sp_unocc p) (bin_features QOps t eu).
Proof.
  intros p how c t eo eu Hc. cbv zeta. rewrite unoccupied_row. cbn [fst snd]. unfold segment_predict.
  rewrite !all_some_map_Some. rewrite Hc. eexists. split; [ reflexivity | ]. rewrite dot_zeros. lra.
Qed.

(* with one slope b on all occupied bins the prediction is c_h + b * T: the bins hold the temperature exactly once *)
Lemma occupied_linear_l : forall p how c b t eo eu, lookup_how how (sp_how p) = Some c ->
  sp_occ p = repeat (Some b) (S (List.length eo)) -> increasing eo ->
  let r := feature_row QOps true (Some true) (Some t) eo eu in
  exists v, segment_predict p how (fst r) (snd r) = Some v /\ v == c + b * t.
Proof.
  intros p how c b t eo eu Hc Hp Hinc. destruct (occupied_value_l p how c t eo eu Hc) as [v [Hv Hq]].
  exists v. split; [ exact Hv | ]. rewrite Hq. rewrite Hp.
  replace (S (List.length eo)) with (List.length (bin_features QOps t eo)) by (apply (bins_length_l QOps t eo)). rewrite dot_const.
  rewrite (bins_sum_to_T_l t eo Hinc). reflexivity.
Qed.

(* no prediction without a known hour-of-week parameter, or for a NaN temperature *)
Lemma no_how_parameter_l : forall p how o u, lookup_how how (sp_how p) = None -> segment_predict p how o u = None.
Proof. intros p how o u H. unfold segment_predict. rewrite H. destruct (all_some o); [ destruct (all_some u) | ]; reflexivity. Qed.

Lemma all_some_none : forall l, l <> [] -> Forall (fun x : option Q => x = None) l -> all_some l = None.
Proof. intros [ | x l ] Hne HF; [ congruence | ]. inversion HF; subst. reflexivity. Qed.

Lemma segment_predict_nan_o : forall p how o u, all_some o = None -> segment_predict p how o u = None.
Proof. intros p how o u H. unfold segment_predict. rewrite H. reflexivity. Qed.
Lemma segment_predict_nan_u : forall p how o u, all_some u = None -> segment_predict p how o u = None.
Proof. intros p how o u H. unfold segment_predict. rewrite H. destruct (all_some o); reflexivity. Qed.

Lemma nan_temperature_l : forall p how occ eo eu,
  let r := feature_row QOps true occ None eo eu in segment_predict p how (fst r) (snd r) = None.
Proof.
  intros p how occ eo eu. cbv zeta.
  destruct (feature_row_cases_l QOps true occ None eo eu) as [E | [F _]].
  - rewrite E. unfold occupancy_split. rewrite !bins_nan_l.
    destruct occ as [ [ | ] | ]; cbn [fst snd].
    + apply segment_predict_nan_o. reflexivity.
    + apply segment_predict_nan_u. reflexivity.
    + apply segment_predict_nan_o. reflexivity.
  - apply segment_predict_nan_o. apply all_some_none; [ | exact F ].
    pose proof (occupancy_split_lengths_l QOps occ None eo eu) as [L _].
    unfold feature_row. intros Hnil.
    destruct (true && forallb (present QOps) (fst (occupancy_split QOps occ None eo eu))
                   && forallb (present QOps) (snd (occupancy_split QOps occ None eo eu))); cbn [fst] in Hnil.
    + rewrite Hnil in L. discriminate L.
    + apply (f_equal (@List.length _)) in Hnil. rewrite map_length in Hnil. rewrite L in Hnil. discriminate Hnil.
Qed.

(* ---- 2. the whole model on one hour ----------------------------------------------------------------------------------- *)
Lemma nansum_single : forall x, nansum [x] = x.
Proof. intros x. reflexivity. Qed.

Lemma assoc_mem : forall (A : Type) k (l : list (string * A)),
  mem_str k (map fst l) = match assoc k l with Some _ => true | None => false end.
Proof.
  intros A k l. unfold mem_str. induction l as [ | [k' v] l IH ]; [ reflexivity | ].
  cbn [map fst existsb assoc]. rewrite String.eqb_sym. destruct (String.eqb k' k); [ reflexivity | exact IH ].
Qed.

(* the prediction of an hour is the value of its own month's segment model on that hour's features -- nothing else
   enters: not the other segment models, not their occupancy lookups or endpoints *)
Lemma hour_prediction_own_l : forall frames models present m how T, In m months -> In m present ->
  exists own, own_segment (tbl "three_month_weighted") m = Some own /\
    hour_prediction frames models present "three_month_weighted" m how T =
    (if mem_str own (map fst models) then option_map (Qmult 1) (segment_value frames models own how T) else None).
Proof.
  intros frames models present m how T Hm Hp.
  destruct (predict_on_l present (map fst models) m Hm Hp) as [own [Ho Ht]].
  exists own. split; [ exact Ho | ]. unfold hour_prediction. rewrite Ht.
  destruct (mem_str own (map fst models)); reflexivity.
Qed.

Lemma hour_prediction_independent_l : forall frames models frames' models' present present' m how T,
  In m months -> In m present -> In m present' ->
  exists own, own_segment (tbl "three_month_weighted") m = Some own /\
    (assoc own frames = assoc own frames' -> assoc own models = assoc own models' ->
     hour_prediction frames models present "three_month_weighted" m how T =
     hour_prediction frames' models' present' "three_month_weighted" m how T).
Proof.
  intros frames models frames' models' present present' m how T Hm Hp Hp'.
  destruct (hour_prediction_own_l frames models present m how T Hm Hp) as [own [Ho H1]].
  destruct (hour_prediction_own_l frames' models' present' m how T Hm Hp') as [own' [Ho' H2]].
  rewrite Ho in Ho'. inversion Ho'; subst own'.
  exists own. split; [ exact Ho | ]. intros Ef Em. rewrite H1, H2. rewrite !assoc_mem. unfold segment_value. rewrite Ef, Em. reflexivity.
Qed.
