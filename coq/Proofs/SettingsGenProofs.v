(* C14 — facts about the REGENERATED settings trees (Generated/SettingsGen.v), closed by vm_compute. *)
From Coq Require Import ZArith QArith List Bool String.
From V Require Import Model.Settings Generated.SettingsGen.
Import ListNotations.
Open Scope string_scope.

Definition class_tree (c : string) : option stree :=
  match lookup_reg c reg with Some (_, t) => Some t | None => None end.

Definition defaults_ok (c : string) : bool :=
  match class_tree c with Some t => defaults_eqb (flat_defaults t) (approved_of c) | None => false end.
Definition locks_ok (c : string) : bool :=
  match class_tree c with
  | Some t => locks_eqb (flat_defaults t) (approved_of c) && locked_or_open open_fields (approved_of c) && has_lock t
  | None => false
  end.
Definition domains_ok (c : string) : bool :=
  match class_tree c with Some t => domains_eqb (flat_domains t) (approved_dom_of c) | None => false end.

Lemma defaults_all : forallb defaults_ok top_classes = true.
Proof. vm_compute. reflexivity. Qed.
Lemma locks_all : forallb locks_ok locked_families = true.
Proof. vm_compute. reflexivity. Qed.
Lemma domains_all : forallb domains_ok top_classes = true.
Proof. vm_compute. reflexivity. Qed.

Lemma defaults_are_approved_l : forall c, In c top_classes -> defaults_ok c = true.
Proof. intros c H. exact (proj1 (forallb_forall _ _) defaults_all c H). Qed.
Lemma every_method_constant_is_dev_locked_l : forall c, In c locked_families -> locks_ok c = true.
Proof. intros c H. exact (proj1 (forallb_forall _ _) locks_all c H). Qed.
Lemma domains_are_approved_l : forall c, In c top_classes -> domains_ok c = true.
Proof. intros c H. exact (proj1 (forallb_forall _ _) domains_all c H). Qed.
