(* C14 — decision procedures over the REGENERATED settings trees (Generated/SettingsGen.v); no computation here. *)
From Coq Require Import ZArith QArith List Bool String.
From V Require Import Model.Settings Generated.SettingsGen.
Import ListNotations.
Open Scope string_scope.

Definition class_tree (c : string) : option stree :=
  match lookup_reg c reg with Some (_, t) => Some t | None => None end.

Definition defaults_ok (c : string) : bool :=
  match class_tree c with Some t => defaults_eqb (flat_defaults t) (approved_of c) | None => false end.
Definition locks_ok (c : string) : bool :=
  match class_tree c with
  | Some t => locks_eqb (flat_defaults t) (approved_of c) && locked_or_open open_fields (approved_of c) && has_lock t
  | None => false
  end.
Definition domains_ok (c : string) : bool :=
  match class_tree c with Some t => domains_eqb (flat_domains t) (approved_dom_of c) | None => false end.

(* a finite enumeration closed by computation, lifted to the quantified statement; the computations themselves
   (forallb ... = true by vm_compute) are done in Properties/C14.v so that a regenerated tree that breaks one of
   them fails THERE, after the generic theorems have been re-checked *)
Lemma lift_forallb : forall (f : string -> bool) l, forallb f l = true -> forall c, In c l -> f c = true.
Proof. intros f l H c Hc. exact (proj1 (forallb_forall f l) H c Hc). Qed.

(* every leaf of the three locked trees x the model-side alternatives: exhaustive, inside Coq *)
Definition singles_ok (c : string) : bool :=
  match class_tree c with Some t => all_single_overrides_ok reg t | None => false end.

(* hourly trees: no developer flags, no lock (vacuous there); defaults and validity still compared above *)
Definition unlocked_ok (c : string) : bool :=
  match class_tree c with
  | Some t => negb (has_lock t) && forallb (fun x => negb (ldev (snd x))) (leaves_of_root t)
  | None => false
  end.
