(* Lemmas for property C05 about the daily / billing row pipeline and the CalTRACK hourly flow. *)
From Coq Require Import ZArith List Bool Arith Lia Permutation.
From V Require Import Model.Rows Model.PredictRows Model.CounterfactualFlows Proofs.RowsProofs.
Import ListNotations.
Open Scope Z_scope.

(* ------------------------------------------------------------------ generic *)
Lemma same_view_lookup : forall (B D : Type) (key : B -> Z) (view : B -> D) (a b : list B),
  (forall x y, view x = view y -> key x = key y) ->
  NoDup (map key a) -> map view a = map view b ->
  forall x y, In x a -> In y b -> key x = key y -> view x = view y.
Proof.
  intros B D key view a b Hk Hnd E x y Hx Hy Exy.
  assert (Hv : In (view y) (map view a)) by (rewrite E; apply in_map; exact Hy).
  apply in_map_iff in Hv. destruct Hv as [x0 [Ev Hx0]].
  assert (Ek : key x0 = key x) by (rewrite (Hk _ _ Ev); symmetry; exact Exy).
  assert (x0 = x).
  { clear - Hnd Hx Hx0 Ek. induction a as [|z a IH]; [destruct Hx|].
    cbn [map] in Hnd. inversion Hnd as [|? ? Hz Hnd']; subst.
    destruct Hx as [Hx|Hx], Hx0 as [Hx0|Hx0]; subst.
    - reflexivity.
    - exfalso. apply Hz. rewrite <- Ek. apply in_map. exact Hx0.
    - exfalso. apply Hz. rewrite Ek. apply in_map. exact Hx.
    - apply IH; assumption. }
  subst x0. exact Ev.
Qed.

(* ------------------------------------------------------------------ daily / billing over Model/Rows.v *)
Section DailyRowsNI.
  Variable A : Type.
  Variable f : Z -> A -> A.

  Lemma wc_of_ts : forall x y : row A, wc_of x = wc_of y -> ts x = ts y.
  Proof. intros x y H. unfold wc_of in H. inversion H. reflexivity. Qed.

  (* every timestamp predicted in both runs carries the same prediction — whatever the two usage columns are,
     present or absent, and whatever the masking policy *)
  Lemma daily_ni_l : forall pol pol' has_obs has_obs' (rows rows' : list (row A)),
    NoDup (map (@ts A) rows) -> same_weather_calendar_rows rows rows' ->
    forall t p p', predicted_at (predict_rows f pol has_obs rows) t p ->
                   predicted_at (predict_rows f pol' has_obs' rows') t p' -> p = p'.
  Proof.
    intros pol pol' ho ho' rows rows' Hnd E t p p' [o [Ho [Ht Hp]]] [o' [Ho' [Ht' Hp']]].
    assert (Hn : notna (o_pred o) = true) by (rewrite Hp; reflexivity).
    assert (Hn' : notna (o_pred o') = true) by (rewrite Hp'; reflexivity).
    destruct (predicted_is_complete A f pol ho rows o Ho Hn) as [r [Hr [Hc Eo]]].
    destruct (predicted_is_complete A f pol' ho' rows' o' Ho' Hn') as [r' [Hr' [Hc' Eo']]].
    subst o o'. cbn [predict_kept o_ts o_pred] in *.
    assert (Ev : wc_of r = wc_of r').
    { apply (same_view_lookup _ _ (@ts A) wc_of rows rows' wc_of_ts Hnd E r r' Hr Hr'). congruence. }
    unfold wc_of in Ev. inversion Ev as [[E1 E2 E3]]. rewrite E2, E3 in Hp.
    destruct (temp r'); try discriminate. inversion Hp; inversion Hp'; subst. reflexivity.
  Qed.

  (* who is predicted: exactly the rows with a finite temperature and, when a usage column is supplied, a finite
     usage value — so blanking usage removes predictions, it never changes one *)
  Lemma predicted_at_iff : forall pol has_obs (rows : list (row A)) t p,
    predicted_at (predict_rows f pol has_obs rows) t p <->
    exists r te, In r rows /\ ts r = t /\ complete has_obs r = true /\ temp r = V te /\ p = f (seg r) te.
  Proof.
    intros pol ho rows t p. split.
    - intros [o [Ho [Ht Hp]]].
      assert (Hn : notna (o_pred o) = true) by (rewrite Hp; reflexivity).
      destruct (predicted_is_complete A f pol ho rows o Ho Hn) as [r [Hr [Hc Eo]]]. subst o.
      cbn [predict_kept o_ts o_pred] in *. destruct (temp r) as [te| | |] eqn:Et; try discriminate.
      exists r, te. inversion Hp. auto.
    - intros [r [te [Hr [Ht [Hc [Et Ep]]]]]]. exists (predict_kept f ho r). split; [|split].
      + apply predict_rows_In. left. exists r. split; [apply kept_In; auto | reflexivity].
      + exact Ht.
      + cbn [predict_kept o_pred]. rewrite Et, Ep. reflexivity.
  Qed.

  (* omitting the usage column predicts every day the run with usage predicted, with the same value *)
  Lemma daily_absent_superset_l : forall pol pol' (rows rows' : list (row A)),
    NoDup (map (@ts A) rows) -> same_weather_calendar_rows rows rows' ->
    forall t p, predicted_at (predict_rows f pol true rows) t p -> predicted_at (predict_rows f pol' false rows') t p.
  Proof.
    intros pol pol' rows rows' Hnd E t p H. apply predicted_at_iff in H.
    destruct H as [r [te [Hr [Ht [Hc [Et Ep]]]]]].
    assert (Hv : In (wc_of r) (map wc_of rows')) by (rewrite <- E; apply in_map; exact Hr).
    apply in_map_iff in Hv. destruct Hv as [r' [Ev Hr']]. unfold wc_of in Ev. inversion Ev as [[E1 E2 E3]].
    apply predicted_at_iff. exists r', te. repeat split; try congruence.
    unfold complete. rewrite E3, Et. reflexivity.
  Qed.

  (* the named alterations keep weather and calendar *)
  Lemma blank_rows_same : forall rows : list (row A), same_weather_calendar_rows rows (blank_rows rows).
  Proof. intros. unfold same_weather_calendar_rows, blank_rows. rewrite map_map. apply map_ext. reflexivity. Qed.
  Lemma map_obs_same : forall g (rows : list (row A)), same_weather_calendar_rows rows (map_obs g rows).
  Proof. intros. unfold same_weather_calendar_rows, map_obs. rewrite map_map. apply map_ext. reflexivity. Qed.
  Lemma replace_obs_same : forall cells (rows : list (row A)), same_weather_calendar_rows rows (replace_obs cells rows).
  Proof.
    unfold same_weather_calendar_rows. intros cells rows. revert cells.
    induction rows as [|r rows IH]; intros [|c cs]; cbn [replace_obs map]; try reflexivity; f_equal; apply IH.
  Qed.
End DailyRowsNI.

(* ------------------------------------------------------------------ daily / billing over Model/PredictRows.v *)
Section DailyPipelineNI.
  Context {V K : Type}.
  Variable finite : V -> bool.
  Variable predict_sub : K -> V -> option V.
  Variable member : K -> @drow V -> bool.
  Variable keys : list K.
  (* _meter_segment reads the season and day_of_week columns, which _initialize_data derives from the index *)
  Hypothesis member_calendar : forall k r r', d_ts r = d_ts r' -> member k r = member k r'.

  Lemma insert_by_In : forall (B : Type) (key : B -> Z) x l y, In y (insert_by key x l) <-> y = x \/ In y l.
  Proof.
    intros B key x. induction l as [|z l IH]; intros y; cbn [insert_by].
    - cbn. intuition.
    - destruct (key x <=? key z)%Z; cbn [In]; [intuition|]. rewrite IH. intuition.
  Qed.

  Lemma sort_by_In' : forall (B : Type) (key : B -> Z) l y, In y (sort_by key l) <-> In y l.
  Proof.
    intros B key. induction l as [|x l IH]; intros y; [reflexivity|].
    unfold sort_by. cbn [fold_right]. fold (sort_by key l). rewrite insert_by_In, IH. cbn [In]. intuition.
  Qed.

  Lemma kept_In' : forall obs (rows : list (@drow V)) r,
    In r (fst (initialize_data finite obs rows)) <-> In r rows /\ keep finite obs r = true.
  Proof. intros. unfold initialize_data. cbn [fst]. rewrite filter_In, sort_by_In'. reflexivity. Qed.

  (* a (row, Some p) entry of the result comes from a sub-model that selects a kept row with the same label *)
  Lemma predicted_origin : forall obs (rows : list (@drow V)) r p,
    In (r, Some p) (daily_predict finite predict_sub member keys obs rows) ->
    In r rows /\ keep finite obs r = true /\
    exists k r2 t, In k keys /\ In r2 rows /\ keep finite obs r2 = true /\ member k r2 = true /\
                   d_ts r2 = d_ts r /\ d_temp r2 = Some t /\ predict_sub k t = Some p.
  Proof.
    intros obs rows r p H. unfold daily_predict in H.
    destruct (initialize_data finite obs rows) as [kept dropped] eqn:Ei.
    assert (Hk : forall x, In x kept <-> In x rows /\ keep finite obs x = true).
    { intros x. pose proof (kept_In' obs rows x) as X. rewrite Ei in X. exact X. }
    apply sort_by_In' in H. apply in_app_or in H. destruct H as [H|H].
    - unfold join_left in H. apply in_flat_map in H. destruct H as [r0 [Hr0 H]].
      destruct (filter (fun q => Z.eqb (fst q) (d_ts r0)) (segment_predictions predict_sub member keys kept)) as [|m ms] eqn:Ef.
      + destruct H as [H|[]]. inversion H.
      + rewrite <- Ef in H. apply in_map_iff in H. destruct H as [q [Eq Hq]]. inversion Eq; subst r0.
        apply filter_In in Hq. destruct Hq as [Hq Et]. apply Z.eqb_eq in Et.
        unfold segment_predictions in Hq. apply in_flat_map in Hq. destruct Hq as [k [Hkk Hq]].
        apply in_map_iff in Hq. destruct Hq as [r2 [E2 Hr2]]. apply filter_In in Hr2. destruct Hr2 as [Hr2 Hm].
        apply Hk in Hr0. apply Hk in Hr2. destruct Hr0 as [Hr0 Hkeep], Hr2 as [Hr2 Hkeep2].
        split; [exact Hr0|]. split; [exact Hkeep|].
        subst q. cbn [fst snd] in *. destruct (d_temp r2) as [t|] eqn:Et2; [|congruence].
        exists k, r2, t. repeat split; auto; congruence.
    - apply in_map_iff in H. destruct H as [x [E _]]. inversion E.
  Qed.

  Lemma filter_one : forall (B : Type) (q : B -> bool) (l : list B) a b,
    length (filter q l) = 1%nat -> In a l -> q a = true -> In b l -> q b = true -> a = b.
  Proof.
    intros B q l a b H Ha Qa Hb Qb.
    assert (Ia : In a (filter q l)) by (apply filter_In; auto).
    assert (Ib : In b (filter q l)) by (apply filter_In; auto).
    destruct (filter q l) as [|x [|y t]]; cbn in H; try discriminate.
    destruct Ia as [<-|[]], Ib as [<-|[]]. reflexivity.
  Qed.

  (* two runs whose frames differ only in the usage column (either may lack it): a row predicted in both gets the same
     value; exact_cover (C13: the sub-models partition the calendar) makes "the" prediction of a row well defined *)
  Lemma daily_pipeline_ni_l : forall obs obs' (rows rows' : list (@drow V)),
    NoDup (map d_ts rows) -> same_weather_calendar_drows rows rows' ->
    exact_cover finite member keys obs rows ->
    forall r p r' p',
      In (r, Some p) (daily_predict finite predict_sub member keys obs rows) ->
      In (r', Some p') (daily_predict finite predict_sub member keys obs' rows') ->
      d_ts r = d_ts r' -> p = p'.
  Proof.
    intros obs obs' rows rows' Hnd E Hcov r p r' p' H H' Et.
    destruct (predicted_origin _ _ _ _ H) as [Hr [Hkeep [k [r2 [t [Hk [Hr2 [Hk2 [Hm [E2 [Ht Hp]]]]]]]]]]].
    destruct (predicted_origin _ _ _ _ H') as [Hr' [Hkeep' [k' [r2' [t' [Hk' [Hr2' [Hk2' [Hm' [E2' [Ht' Hp']]]]]]]]]]].
    assert (Ev : dwc_of r2 = dwc_of r2').
    { apply (same_view_lookup _ _ d_ts dwc_of rows rows'); auto; [|congruence].
      intros x y Hxy. unfold dwc_of in Hxy. inversion Hxy. reflexivity. }
    unfold dwc_of in Ev. inversion Ev as [[Ets Etemp]].
    assert (t = t') by congruence. subst t'.
    assert (k = k').
    { apply (filter_one K (fun k => member k r2) keys k k'); auto.
      - rewrite (member_calendar k' r2 r2' Ets). exact Hm'. }
    subst k'. congruence.
  Qed.
End DailyPipelineNI.

(* ------------------------------------------------------------------ CalTRACK hourly *)
Section CalTrackNI.
  Context {T O Y U : Type}.
  Variable row_pred : Z -> Z -> option T -> option Y.
  Variable unc_of : Z -> list O -> nat -> option U.

  (* the predicted column is a function of index, calendar and temperature *)
  Lemma caltrack_ni_l : forall rows rows' : list (@crow T O),
    same_weather_calendar_crows rows rows' ->
    map (fun o => (co_utc o, co_pred o)) (caltrack_predict row_pred unc_of rows) =
    map (fun o => (co_utc o, co_pred o)) (caltrack_predict row_pred unc_of rows').
  Proof.
    intros rows rows' E. unfold caltrack_predict. rewrite !map_map. cbn [co_utc co_pred].
    transitivity (map (fun v : Z * Z * Z * option T => let '(u, m, h, te) := v in (u, row_pred m h te)) (map cwc_of rows)).
    - rewrite map_map. apply map_ext. intros r. reflexivity.
    - rewrite E, map_map. apply map_ext. intros r. reflexivity.
  Qed.
End CalTrackNI.

(* ------------------------------------------------------------------ daily data class: temperature of a meter day *)
From V Require Import Model.Resample Model.TempAgg.

Lemma temps_of_ni : forall a b : list frow, same_weather_frows a b -> temps_of a = temps_of b.
Proof. intros a b H. exact H. Qed.

Lemma stamps_ni : forall a b : list frow, same_weather_frows a b -> map f_stamp a = map f_stamp b.
Proof.
  intros a b H. unfold same_weather_frows in H.
  assert (X : forall l : list frow, map f_stamp l = map fst (map (fun r => (f_stamp r, f_temp r)) l))
    by (intros l; rewrite map_map; apply map_ext; reflexivity).
  rewrite !X, H. reflexivity.
Qed.

(* index from the stamps of the frame: the whole stage is a function of weather and calendar *)
Lemma daily_stage_ni_l : forall day_index tol (a b : list frow), same_weather_frows a b ->
  daily_stage day_index tol a = daily_stage day_index tol b.
Proof. intros day_index tol a b H. unfold daily_stage. rewrite (stamps_ni a b H), (temps_of_ni a b H). reflexivity. Qed.

(* as coded: unchanged as long as the same rows carry a reading (scaled, shuffled among the readings, negated) *)
Lemma daily_stage_as_coded_partial_l : forall fc tol (a b : list frow), same_weather_frows a b ->
  same_usage_presence a b -> daily_stage_as_coded fc tol a = daily_stage_as_coded fc tol b.
Proof.
  intros fc tol a b H P. unfold daily_stage_as_coded. unfold same_usage_presence in P.
  rewrite (stamps_ni a b H), (temps_of_ni a b H), P. reflexivity.
Qed.

(* the row of an index entry is the aggregate of the readings between it and its successor: whatever else the index
   contains *)
Lemma rows_for_entry : forall tol temps idx lo r, In (lo, r) (combine idx (rows_for tol idx temps)) ->
  exists hi, next_in idx lo hi /\ r = agg (group tol lo hi temps).
Proof.
  intros tol temps. induction idx as [|x idx IH]; intros lo r H; [destruct H|].
  cbn [rows_for combine] in H. destruct H as [H|H].
  - inversion H; subst. exists (match idx with h :: _ => Some h | [] => None end). split; [|reflexivity].
    exists [], idx. split; reflexivity.
  - destruct (IH lo r H) as [hi [[pre [rest [E1 E2]]] E3]]. exists hi. split; [|exact E3].
    exists (x :: pre), rest. split; [rewrite E1; reflexivity | exact E2].
Qed.

(* two meter-day indexes (with usage / without, or two null patterns): a day that is in both AND has the same successor
   in both gets the same temperature row *)
Lemma day_window_ni_l : forall tol temps idx idx' lo r r' hi,
  NoDup idx -> NoDup idx' ->
  In (lo, r) (day_temps tol idx temps) -> In (lo, r') (day_temps tol idx' temps) ->
  next_in idx lo hi -> next_in idx' lo hi -> r = r'.
Proof.
  intros tol temps idx idx' lo r r' hi Hn Hn' H H' N N'.
  destruct (rows_for_entry _ _ _ _ _ H) as [h1 [N1 E1]]. destruct (rows_for_entry _ _ _ _ _ H') as [h2 [N2 E2]].
  assert (U : forall l h h', NoDup l -> next_in l lo h -> next_in l lo h' -> h = h').
  { clear. intros l h h' Hn [p [q [E1 E2]]] [p' [q' [E1' E2']]]. subst h h'.
    assert (X : p = p' /\ q = q').
    { subst l. revert p' q' E1' Hn. induction p as [|a p IH]; intros p' q' E Hn.
      - destruct p' as [|a' p']; cbn [app] in E.
        + injection E as Eq. subst. auto.
        + injection E as Ea Eq. exfalso. cbn [app] in Hn. inversion Hn as [|? ? Hx _]. apply Hx. rewrite Eq.
          apply in_or_app. right. left. reflexivity.
      - destruct p' as [|a' p']; cbn [app] in E.
        + injection E as Ea Eq. exfalso. cbn [app] in Hn. inversion Hn as [|? ? Hx _]. apply Hx. subst a.
          apply in_or_app. right. left. reflexivity.
        + injection E as Ea Eq. cbn [app] in Hn. inversion Hn as [|? ? _ Hn2].
          destruct (IH p' q' Eq Hn2) as [-> ->]. subst. auto. }
    destruct X as [_ ->]. reflexivity. }
  rewrite E1, E2, (U idx h1 hi Hn N1 N), (U idx' h2 hi Hn' N2 N'). reflexivity.
Qed.
