(* Lemmas about Model/Splits.v (property C13). *)
From Coq Require Import ZArith List Bool String Ascii QArith Lia.
From V Require Import Model.Splits Model.SplitsCal Generated.SplitsGen.
Import ListNotations.
Open Scope list_scope.

(* ------------------------------------------------------------------ exactly one element of a list *)
Definition exactly_one {A} (p : A -> bool) (l : list A) : Prop :=
  exists l1 x l2, l = l1 ++ x :: l2 /\ p x = true /\
    (forall y, In y l1 -> p y = false) /\ (forall y, In y l2 -> p y = false).

Lemma count_true_zero : forall A (p : A -> bool) l,
  count_true p l = O <-> forall y, In y l -> p y = false.
Proof.
  induction l as [|a l IH]; cbn [count_true In].
  - split; [intros _ y []|reflexivity].
  - destruct (p a) eqn:E.
    + split; [discriminate|]. intros H. rewrite (H a) in E by (left; reflexivity). discriminate.
    + rewrite IH. split.
      * intros H y [<-|Hy]; [exact E|exact (H y Hy)].
      * intros H y Hy. apply H. right. exact Hy.
Qed.

Lemma count_true_one : forall A (p : A -> bool) l,
  count_true p l = 1%nat <-> exactly_one p l.
Proof.
  induction l as [|a l IH]; cbn [count_true].
  - split; [discriminate|]. intros (l1 & x & l2 & H & _). destruct l1; discriminate.
  - destruct (p a) eqn:E.
    + split.
      * intros H. injection H as H. pose proof (proj1 (count_true_zero _ _ _) H) as H0.
        exists [], a, l. cbn. repeat split; auto. intros y [].
      * intros (l1 & x & l2 & H & Hx & H1 & H2). f_equal. apply count_true_zero.
        destruct l1 as [|b l1]; cbn in H; injection H as Ha Hl; subst.
        -- exact H2.
        -- rewrite (H1 b) in E by (left; reflexivity). discriminate.
    + rewrite IH. split.
      * intros (l1 & x & l2 & Hl & Hx & H1 & H2). subst l. exists (a :: l1), x, l2. cbn. repeat split; auto.
        intros y [Hy|Hy]; [subst y; exact E|auto].
      * intros (l1 & x & l2 & H & Hx & H1 & H2).
        destruct l1 as [|b l1]; cbn in H; injection H as Ha Hl; subst.
        -- rewrite Hx in E. discriminate.
        -- exists l1, x, l2. repeat split; auto. intros y Hy. apply H1. right. exact Hy.
Qed.

Lemma count_true_ext : forall A (p q : A -> bool) l,
  (forall x, In x l -> p x = q x) -> count_true p l = count_true q l.
Proof.
  induction l as [|a l IH]; cbn [count_true]; intros H; [reflexivity|].
  rewrite (H a) by (left; reflexivity). rewrite IH; [reflexivity|].
  intros x Hx. apply H. right. exact Hx.
Qed.

Lemma exactly_one_ext : forall A (p q : A -> bool) l,
  (forall x, In x l -> p x = q x) -> exactly_one p l -> exactly_one q l.
Proof.
  intros A p q l H H1. apply count_true_one. rewrite <- (count_true_ext _ p q l H).
  apply count_true_one. exact H1.
Qed.

Lemma exactly_one_filter : forall A (p : A -> bool) l,
  exactly_one p l -> exists x, filter p l = [x] /\ In x l /\ p x = true.
Proof.
  intros A p l (l1 & x & l2 & -> & Hx & H1 & H2). exists x. repeat split; auto.
  - rewrite filter_app. cbn [filter]. rewrite Hx.
    assert (E : forall l0, (forall y, In y l0 -> p y = false) -> filter p l0 = []).
    { induction l0 as [|a l0 IH]; cbn [filter]; intros H; [reflexivity|].
      rewrite (H a) by (left; reflexivity). apply IH. intros y Hy. apply H. right. exact Hy. }
    rewrite (E l1 H1), (E l2 H2). reflexivity.
  - apply in_or_app. right. left. reflexivity.
Qed.

(* ------------------------------------------------------------------ exact cover *)
Definition exact_cover (s : split) : Prop :=
  forall x : cell, exactly_one (fun c => covers c x) s.

Lemma cells_complete : forall x : cell, In x cells.
Proof. intros [[] []]; cbn; tauto. Qed.

Lemma exact_coverb_spec : forall s, exact_coverb s = true <-> exact_cover s.
Proof.
  intros s. unfold exact_coverb, exact_cover. rewrite forallb_forall. split.
  - intros H x. apply count_true_one. apply Nat.eqb_eq. apply H. apply cells_complete.
  - intros H x _. apply Nat.eqb_eq. apply count_true_one. apply H.
Qed.

(* the cell of a day under the model's own maps; None when a map uses a name that is not one of the
   hard-wired ones (the option lists of the settings are open fields) *)
Definition std_season (n : sname) : option season :=
  match n with Summer => Some SU | Shoulder => Some SH | Winter => Some WI | OtherSeason => None end.
Definition cell_of (n : sname) (d : dname) : option cell :=
  match std_season n, d with
  | Some s, Weekday => Some (s, false)
  | Some s, Weekend => Some (s, true)
  | _, _ => None
  end.

Lemma existsb_ext_in : forall A (p q : A -> bool) l, (forall x, p x = q x) -> existsb p l = existsb q l.
Proof. induction l as [|a l IH]; cbn; intros H; [reflexivity|]. rewrite H, IH; auto. Qed.

Lemma routes_covers : forall c sm wm month dow x,
  cell_of (sm month) (wm dow) = Some x -> routes c sm wm month dow = covers c x.
Proof.
  intros [d g] sm wm month dow [s w] H. unfold routes, covers, mem_season. cbn [fst snd].
  unfold cell_of in H.
  assert (E1 : existsb (fun s0 => sname_eqb (season_name s0) (sm month)) g = existsb (season_eqb s) g
               /\ day_in d (wm dow) = day_covers d w).
  { destruct (sm month); cbn in H; try discriminate; destruct (wm dow); try discriminate;
      injection H as Hs Hw; subst s w;
      (split; [apply existsb_ext_in; intros []; reflexivity | destruct d; reflexivity]). }
  destruct E1 as [E1 E2]. rewrite E1, E2. reflexivity.
Qed.

Theorem routing_unique_l : forall s, exact_cover s ->
  forall sm wm month dow x, cell_of (sm month) (wm dow) = Some x ->
  exists c, receivers s sm wm month dow = [c] /\ In c s /\ covers c x = true.
Proof.
  intros s Hs sm wm month dow x Hx.
  assert (E : exactly_one (fun c => routes c sm wm month dow) s).
  { apply (exactly_one_ext _ (fun c => covers c x)); [|apply Hs].
    intros c _. symmetry. apply routes_covers. exact Hx. }
  destruct (exactly_one_filter _ _ _ E) as (c & Hf & Hin & Hr).
  exists c. repeat split; auto. rewrite <- (routes_covers c sm wm month dow x Hx). exact Hr.
Qed.

(* a month whose season name is not summer/shoulder/winter is received by no component at all *)
Lemma routes_foreign_season : forall c sm wm month dow,
  sm month = OtherSeason -> routes c sm wm month dow = false.
Proof.
  intros [d g] sm wm month dow H. unfold routes. cbn [fst snd]. rewrite H.
  replace (existsb _ g) with false; [reflexivity|].
  induction g as [|a g IH]; cbn; [reflexivity|]. rewrite <- IH. destruct a; reflexivity.
Qed.

Lemma receivers_foreign_season : forall s sm wm month dow,
  sm month = OtherSeason -> receivers s sm wm month dow = [].
Proof.
  intros s sm wm month dow H. unfold receivers. induction s as [|c s IH]; cbn [filter]; [reflexivity|].
  rewrite routes_foreign_season by exact H. exact IH.
Qed.

(* a day whose name is neither weekday nor weekend is received by full-week components only *)
Lemma routes_foreign_day : forall c sm wm month dow,
  wm dow = OtherDay -> fst c <> FW -> routes c sm wm month dow = false.
Proof.
  intros [d g] sm wm month dow H Hd. unfold routes. cbn [fst snd] in *. rewrite H.
  destruct d; [contradiction| |]; cbn; apply andb_false_r.
Qed.

(* ------------------------------------------------------------------ the regenerated candidate list *)
Definition parsed_exact_cover (str : string) : bool :=
  match parse_split str with Some s => exact_coverb s | None => false end.

Lemma generated_all_exact_cover_b : forallb parsed_exact_cover all_splits = true.
Proof. vm_compute. reflexivity. Qed.

Theorem generated_all_exact_cover_l :
  Forall (fun str => exists s, parse_split str = Some s /\ print_split s = str /\ exact_cover s) all_splits.
Proof.
  apply Forall_forall. intros str Hin.
  assert (H : forallb (fun str => match parse_split str with
                                  | Some s => exact_coverb s && (print_split s =? str)%string
                                  | None => false end) all_splits = true) by (vm_compute; reflexivity).
  rewrite forallb_forall in H. specialize (H str Hin).
  destruct (parse_split str) as [s|]; [|discriminate].
  apply andb_true_iff in H. destruct H as [H1 H2].
  exists s. repeat split; [apply String.eqb_eq; exact H2 | apply exact_coverb_spec; exact H1].
Qed.

Theorem model_generates_same_l :
  exists opts, parse_options seasonal_options = Some opts /\
               map print_split (candidates opts) = all_splits.
Proof. eexists. split; vm_compute; reflexivity. Qed.

(* combo_dictionary of the code = the model's naming *)
Definition sname_text (n : sname) : string :=
  match n with Summer => "summer" | Shoulder => "shoulder" | Winter => "winter" | OtherSeason => "?" end.
Theorem combo_dictionary_same_l :
  combo_seasons = map (fun s => (print_season s, sname_text (season_name s))) [SU; SH; WI] /\
  combo_days = map (fun d => (print_daytype d,
                              filter (fun n => day_in d (lookup_d default_weekday_map n))
                                     [1; 2; 3; 4; 5; 6; 7]%Z)) [FW; WD; WE].
Proof. split; vm_compute; reflexivity. Qed.

(* ------------------------------------------------------------------ trim *)
Definition n_season (c : counts) (s : season) : Z :=
  match s with SU => n_su c | SH => n_sh c | WI => n_wi c end.

Lemma effective_flags_season : forall f c s,
  allow_season (effective_flags f c) s = true ->
  allow_season f s = true /\ (split_min_days <= n_season c s)%Z.
Proof.
  intros f c s H. destruct s; cbn in H; apply andb_true_iff in H; destruct H as [H1 H2];
    (split; [exact H1|]); cbn [n_season]; apply negb_true_iff in H2; apply Z.ltb_ge in H2; exact H2.
Qed.

Lemma trim_keep_sound : forall f c s, trim_keep f c s = true -> print_split s <> print_split unsplit ->
  (has_wd s = true -> a_wdwe f = true) /\
  forall x, In x s ->
    (forall se, snd x = [se] -> allow_season f se = true /\ (split_min_days <= n_season c se)%Z) /\
    (4 * split_min_days <= 15 * we_count c (snd x))%Z.
Proof.
  intros f c s H Hne. unfold trim_keep in H.
  destruct (print_split s =? "fw-su_sh_wi")%string eqn:E.
  { apply String.eqb_eq in E. exfalso. apply Hne. rewrite E. reflexivity. }
  destruct (has_wd s && negb (a_wdwe f)) eqn:E2; [discriminate|].
  split.
  - intros Hw. rewrite Hw in E2. cbn in E2. apply negb_false_iff in E2. exact E2.
  - intros x Hx. rewrite forallb_forall in H. specialize (H x Hx). unfold comp_ok in H.
    apply andb_true_iff in H. destruct H as [Ha Hb]. split.
    + intros se Hse. rewrite Hse in Ha. apply negb_true_iff, negb_false_iff in Ha.
      apply effective_flags_season. exact Ha.
    + apply negb_true_iff in Hb. apply Z.ltb_ge in Hb. exact Hb.
Qed.

Theorem trim_sound_l : forall f c l,
  incl (trim f c l) l /\
  (In unsplit l -> In unsplit (trim f c l)) /\
  (forall s, In s (trim f c l) -> print_split s <> print_split unsplit ->
     (has_wd s = true -> a_wdwe f = true) /\
     forall x, In x s ->
       (forall se, snd x = [se] -> allow_season f se = true /\ (split_min_days <= n_season c se)%Z) /\
       (4 * split_min_days <= 15 * we_count c (snd x))%Z).
Proof.
  intros f c l. unfold trim. split; [|split].
  - intros s Hs. apply filter_In in Hs. tauto.
  - intros H. apply filter_In. split; [exact H|]. reflexivity.
  - intros s Hs Hne. apply filter_In in Hs. destruct Hs as [_ Hs]. apply trim_keep_sound; assumption.
Qed.

(* the unsplit model is a candidate whatever the settings, the maps and the data are *)
Theorem unsplit_always_candidate_l : forall opts, parse_options seasonal_options = Some opts ->
  forall f gauss sm wm h, In "fw-su_sh_wi"%string (combinations opts f gauss sm wm h).
Proof.
  intros opts Ho f gauss sm wm h.
  assert (Hc : In unsplit (candidates opts)).
  { assert (E : parse_options seasonal_options = Some opts) by exact Ho.
    vm_compute in E. injection E as <-. vm_compute. tauto. }
  unfold combinations.
  change "fw-su_sh_wi"%string with (print_split unsplit). apply in_map.
  apply (proj1 (proj2 (trim_sound_l _ _ _))). exact Hc.
Qed.

(* every text _combinations() can return is one of the regenerated candidates, hence an exact cover *)
Theorem combinations_exact_cover_l : forall opts, parse_options seasonal_options = Some opts ->
  forall f gauss sm wm h str, In str (combinations opts f gauss sm wm h) ->
  exists s, parse_split str = Some s /\ print_split s = str /\ exact_cover s.
Proof.
  intros opts Ho f gauss sm wm h str Hin.
  destruct model_generates_same_l as (opts' & Ho' & Hall). rewrite Ho in Ho'. injection Ho' as <-.
  unfold combinations in Hin. apply in_map_iff in Hin. destruct Hin as (s & <- & Hs).
  apply (proj1 (trim_sound_l _ _ _)) in Hs.
  assert (Hg : In (print_split s) all_splits) by (rewrite <- Hall; apply in_map; exact Hs).
  pose proof generated_all_exact_cover_l as HF. rewrite Forall_forall in HF. exact (HF _ Hg).
Qed.

(* ------------------------------------------------------------------ best *)
Section BestProofs.
  Variable A : Type.
  Variable lt : A -> A -> bool.
  Variable top : A.
  (* what is used of IEEE "<": irreflexive, and  a < b, not (x < b)  =>  not (x < a)  (NaN included) *)
  Hypothesis lt_irrefl : forall a, lt a a = false.
  Hypothesis lt_chain : forall a b x, lt a b = true -> lt x b = false -> lt x a = false.

  Lemma best_from_spec : forall l o m,
    (forall s c, In (s, c) l -> lt c (snd (best_from A lt (o, m) l)) = false) /\
    (forall x, lt x m = false -> lt x (snd (best_from A lt (o, m) l)) = false) /\
    ((best_from A lt (o, m) l = (o, m) /\ forall s c, In (s, c) l -> lt c m = false) \/
     (exists s, fst (best_from A lt (o, m) l) = Some s /\ In (s, snd (best_from A lt (o, m) l)) l /\
                lt (snd (best_from A lt (o, m) l)) m = true)).
  Proof.
    induction l as [|[s c] l IH]; intros o m; cbn [best_from].
    - cbn [snd]. split; [intros s c []|]. split; [auto|]. left. split; [reflexivity|]. intros s c [].
    - cbn [snd]. destruct (lt c m) eqn:E.
      + specialize (IH (Some s) c). destruct IH as (I1 & I2 & I3). split; [|split].
        * intros s' c' [H|H]; [injection H as Hs Hc; subst s' c'; apply I2, lt_irrefl | eapply I1; exact H].
        * intros x Hx. apply I2. eapply lt_chain; eassumption.
        * right. destruct I3 as [[Er _]|(s' & Hs & Hin & Hlt)].
          -- rewrite Er. exists s. cbn [fst snd]. split; [reflexivity|]. split; [left; reflexivity|exact E].
          -- exists s'. split; [exact Hs|]. split; [right; exact Hin|].
             destruct (lt (snd (best_from A lt (Some s, c) l)) m) eqn:E3; [reflexivity|].
             pose proof (lt_chain _ _ _ E E3) as K. rewrite K in Hlt. discriminate.
      + specialize (IH o m). destruct IH as (I1 & I2 & I3). split; [|split].
        * intros s' c' [H|H]; [injection H as Hs Hc; subst s' c'; apply I2, E | eapply I1; exact H].
        * exact I2.
        * destruct I3 as [[Er Hn]|(s' & Hs & Hin & Hlt)].
          -- left. split; [exact Er|]. intros s' c' [H|H]; [injection H as Hs Hc; subst s' c'; exact E | eapply Hn; exact H].
          -- right. exists s'. split; [exact Hs|]. split; [right; exact Hin|exact Hlt].
  Qed.

  Theorem best_is_argmin_g : forall l s, best A lt top l = Some s ->
    exists c, In (s, c) l /\ lt c top = true /\ forall s' c', In (s', c') l -> lt c' c = false.
  Proof.
    intros l s H. unfold best in H. destruct (best_from_spec l None top) as (S1 & _ & S3).
    destruct S3 as [[E _]|(s' & Hs & Hin & Hlt)].
    - rewrite E in H. discriminate.
    - rewrite Hs in H. injection H as H. subst s'.
      exists (snd (best_from A lt (None, top) l)). split; [exact Hin|]. split; [exact Hlt|exact S1].
  Qed.

  Theorem best_none_g : forall l, best A lt top l = None <-> forall s c, In (s, c) l -> lt c top = false.
  Proof.
    intros l. unfold best. destruct (best_from_spec l None top) as (S1 & _ & S3). split.
    - intros H. destruct S3 as [[_ Hn]|(s' & Hs & _)]; [exact Hn|]. rewrite Hs in H. discriminate.
    - intros H. destruct S3 as [[Er _]|(s' & Hs & Hin & Hlt)]; [rewrite Er; reflexivity|].
      rewrite (H _ _ Hin) in Hlt. discriminate.
  Qed.
End BestProofs.

Lemma Qltb_irrefl : forall q, Qltb q q = false.
Proof. intros q. unfold Qltb. apply negb_false_iff. apply Qle_bool_iff. apply Qle_refl. Qed.

Lemma Qltb_true : forall p q, Qltb p q = true <-> (p < q)%Q.
Proof.
  intros p q. unfold Qltb. rewrite negb_true_iff. split.
  - intros H. apply Qnot_le_lt. intros K. apply Qle_bool_iff in K. rewrite K in H. discriminate.
  - intros H. destruct (Qle_bool q p) eqn:E; [|reflexivity]. apply Qle_bool_iff in E.
    exfalso. exact (Qlt_not_le _ _ H E).
Qed.

Lemma Qltb_false : forall p q, Qltb p q = false <-> (q <= p)%Q.
Proof.
  intros p q. unfold Qltb. rewrite negb_false_iff. apply Qle_bool_iff.
Qed.

Lemma xlt_irrefl : forall a, xlt a a = false.
Proof. intros [| |q|]; cbn; auto. apply Qltb_irrefl. Qed.

Lemma xlt_chain : forall a b x, xlt a b = true -> xlt x b = false -> xlt x a = false.
Proof.
  intros [| |p|] [| |q|] [| |r|]; cbn; intros H1 H2; try discriminate; try reflexivity.
  apply Qltb_false. apply Qltb_true in H1. apply Qltb_false in H2.
  apply Qlt_le_weak. eapply Qlt_le_trans; eassumption.
Qed.

Theorem best_is_argmin_l : forall l s, best_x l = Some s ->
  exists c, In (s, c) l /\ c <> XNaN /\ c <> XPosInf /\
            forall s' c', In (s', c') l -> xlt c' c = false.
Proof.
  intros l s H. destruct (best_is_argmin_g xr xlt XPosInf xlt_irrefl xlt_chain l s H) as (c & Hin & Hlt & Hmin).
  exists c. repeat split; auto; intros ->; discriminate.
Qed.

Theorem best_none_l : forall l, best_x l = None <->
  forall s c, In (s, c) l -> c = XNaN \/ c = XPosInf.
Proof.
  intros l. unfold best_x. rewrite (best_none_g xr xlt XPosInf xlt_irrefl xlt_chain). split.
  - intros H s c Hin. specialize (H s c Hin). destruct c; cbn in H; auto; discriminate.
  - intros H s c Hin. destruct (H s c Hin) as [-> | ->]; reflexivity.
Qed.

(* ------------------------------------------------------------------ text level: slices and split *)
Lemma substring_all : forall s, substring 0 (String.length s) s = s.
Proof. induction s as [|c s IH]; cbn; [reflexivity|]. rewrite IH. reflexivity. Qed.

Lemma split_us_group : forall g, g <> [] ->
  all_some (map parse_season (split_us (print_group g))) = Some g.
Proof.
  induction g as [|a g IH]; intros H; [contradiction|].
  destruct g as [|b g].
  - destruct a; reflexivity.
  - assert (IH' : all_some (map parse_season (split_us (print_group (b :: g)))) = Some (b :: g))
      by (apply IH; discriminate).
    unfold print_group in *. cbn [map String.concat] in *.
    destruct a; cbn; cbn in IH'; rewrite IH'; reflexivity.
Qed.

Theorem meter_segment_str_print_l : forall c sm wm month dow, snd c <> [] ->
  meter_segment_str (print_comp c) sm wm month dow = Some (routes c sm wm month dow).
Proof.
  intros [d g] sm wm month dow H. cbn [snd] in H. unfold meter_segment_str, print_comp. cbn [fst snd].
  assert (E1 : drop 3 (print_daytype d ++ "-" ++ print_group g) = print_group g).
  { unfold drop. destruct d; cbn; rewrite Nat.sub_0_r; apply substring_all. }
  assert (E2 : take 2 (print_daytype d ++ "-" ++ print_group g) = print_daytype d).
  { unfold take. destruct d; cbn; destruct (print_group g); reflexivity. }
  rewrite E1, E2, (split_us_group g H). destruct d; reflexivity.
Qed.

(* ------------------------------------------------------------------ composition: the selected split *)
Theorem selected_exact_cover_l : forall opts, parse_options seasonal_options = Some opts ->
  forall f gauss sm wm h crit str,
  map fst crit = combinations opts f gauss sm wm h -> best_x crit = Some str ->
  exists s, parse_split str = Some s /\ print_split s = str /\ exact_cover s.
Proof.
  intros opts Ho f gauss sm wm h crit str Hk Hb.
  destruct (best_is_argmin_l _ _ Hb) as (c & Hin & _).
  apply (combinations_exact_cover_l opts Ho f gauss sm wm h). rewrite <- Hk.
  change str with (fst (str, c)). apply in_map. exact Hin.
Qed.

Theorem selected_routes_unique_l : forall opts, parse_options seasonal_options = Some opts ->
  forall f gauss sm wm h crit str,
  map fst crit = combinations opts f gauss sm wm h -> best_x crit = Some str ->
  forall month dow x, cell_of (sm month) (wm dow) = Some x ->
  exists s c, parse_split str = Some s /\ receivers s sm wm month dow = [c] /\ In c s /\ covers c x = true.
Proof.
  intros opts Ho f gauss sm wm h crit str Hk Hb month dow x Hx.
  destruct (selected_exact_cover_l opts Ho f gauss sm wm h crit str Hk Hb) as (s & Hp & _ & Hc).
  destruct (routing_unique_l s Hc sm wm month dow x Hx) as (c & H1 & H2 & H3).
  exists s, c. auto.
Qed.

Theorem routing_refuted_l :
  exists s sm wm month dow, exact_cover s /\ In s (map (fun x => x) [unsplit]) /\
    receivers s sm wm month dow = [].
Proof.
  exists unsplit, (fun _ => OtherSeason), (fun _ => Weekday), 7%Z, 1%Z. split; [|split].
  - apply exact_coverb_spec. vm_compute. reflexivity.
  - left. reflexivity.
  - reflexivity.
Qed.

(* ------------------------------------------------------------------ trim: exactly the stated conditions *)
Definition keep_spec (f : flags) (c : counts) (s : split) : Prop :=
  (has_wd s = true -> a_wdwe f = true) /\
  forall x, In x s ->
    (forall se, snd x = [se] -> allow_season f se = true /\ (split_min_days <= n_season c se)%Z) /\
    (4 * split_min_days <= 15 * we_count c (snd x))%Z.

Lemma effective_flags_season_conv : forall f c s,
  allow_season f s = true -> (split_min_days <= n_season c s)%Z ->
  allow_season (effective_flags f c) s = true.
Proof.
  intros f c s H1 H2. destruct s; cbn in *; rewrite H1; cbn;
    apply negb_true_iff; apply Z.ltb_ge; exact H2.
Qed.

Theorem trim_keep_iff_l : forall f c s, print_split s <> print_split unsplit ->
  (trim_keep f c s = true <-> keep_spec f c s).
Proof.
  intros f c s Hne. split.
  - intros H. apply trim_keep_sound; assumption.
  - intros [Hw Hx]. unfold trim_keep.
    destruct (print_split s =? "fw-su_sh_wi")%string eqn:E; [reflexivity|].
    destruct (has_wd s) eqn:W; cbn [andb].
    + rewrite (Hw eq_refl). cbn [negb]. apply forallb_forall. intros x Hin.
      destruct (Hx x Hin) as [Ha Hb]. unfold comp_ok. apply andb_true_iff. split.
      * destruct (snd x) as [|se [|se2 r]] eqn:Es; [reflexivity| |reflexivity].
        destruct (Ha se eq_refl) as [A1 A2].
        rewrite (effective_flags_season_conv f c se A1 A2). reflexivity.
      * apply negb_true_iff. apply Z.ltb_ge. exact Hb.
    + apply forallb_forall. intros x Hin.
      destruct (Hx x Hin) as [Ha Hb]. unfold comp_ok. apply andb_true_iff. split.
      * destruct (snd x) as [|se [|se2 r]] eqn:Es; [reflexivity| |reflexivity].
        destruct (Ha se eq_refl) as [A1 A2].
        rewrite (effective_flags_season_conv f c se A1 A2). reflexivity.
      * apply negb_true_iff. apply Z.ltb_ge. exact Hb.
Qed.

(* nothing that meets the conditions is removed *)
Theorem trim_complete_l : forall f c l s, In s l ->
  (print_split s = print_split unsplit \/ keep_spec f c s) -> In s (trim f c l).
Proof.
  intros f c l s Hin H. unfold trim. apply filter_In. split; [exact Hin|].
  destruct (string_dec (print_split s) (print_split unsplit)) as [E|E].
  - unfold trim_keep. change (print_split unsplit) with "fw-su_sh_wi"%string in E.
    rewrite E. reflexivity.
  - destruct H as [H|H]; [contradiction|]. apply trim_keep_iff_l; assumption.
Qed.

(* the selected split is the unsplit one or meets the conditions of the settings, the ellipsoid
   filter and the data *)
Theorem selected_allowed_l : forall opts, parse_options seasonal_options = Some opts ->
  forall f gauss sm wm h crit str,
  map fst crit = combinations opts f gauss sm wm h -> best_x crit = Some str ->
  str = "fw-su_sh_wi"%string \/
  exists s, In s (candidates opts) /\ print_split s = str /\
            keep_spec (match gauss with Some g => flags_and f g | None => f end) (counts_of sm wm h) s.
Proof.
  intros opts Ho f gauss sm wm h crit str Hk Hb.
  destruct (best_is_argmin_l _ _ Hb) as (c & Hin & _).
  assert (Hs : In str (combinations opts f gauss sm wm h)).
  { rewrite <- Hk. change str with (fst (str, c)). apply in_map. exact Hin. }
  unfold combinations in Hs. apply in_map_iff in Hs. destruct Hs as (s & Hp & Hs).
  destruct (string_dec (print_split s) (print_split unsplit)) as [E|E].
  - left. rewrite <- Hp. exact E.
  - right. exists s.
    destruct (trim_sound_l (match gauss with Some g => flags_and f g | None => f end) (counts_of sm wm h)
                           (candidates opts)) as (Hincl & _ & Hsound).
    split; [apply (Hincl s Hs)|]. split; [exact Hp|]. apply Hsound; assumption.
Qed.

(* ------------------------------------------------------------------ the candidate list has no two
   members that are the same partition written in another order (the duplicate removal of the code
   remembers the unsorted text but looks up the sorted one; on today's generator output that is
   enough) *)
Definition canon_text (s : split) : string := String.concat "__" (sort_strings (map print_comp s)).
Fixpoint nodup_strb (l : list string) : bool :=
  match l with [] => true | x :: r => negb (mem_string x r) && nodup_strb r end.

Lemma mem_string_In : forall x l, mem_string x l = true <-> In x l.
Proof.
  intros x l. unfold mem_string. rewrite existsb_exists. split.
  - intros (y & Hy & E). apply String.eqb_eq in E. subst y. exact Hy.
  - intros H. exists x. split; [exact H|apply String.eqb_refl].
Qed.

Lemma nodup_strb_spec : forall l, nodup_strb l = true -> NoDup l.
Proof.
  induction l as [|x l IH]; cbn [nodup_strb]; intros H; [constructor|].
  apply andb_true_iff in H. destruct H as [H1 H2]. constructor; [|apply IH; exact H2].
  intros Hin. apply mem_string_In in Hin. rewrite Hin in H1. discriminate.
Qed.

Theorem candidates_distinct_l :
  exists opts, parse_options seasonal_options = Some opts /\
    NoDup (map canon_text (candidates opts)) /\
    List.length (candidates opts) = List.length all_splits.
Proof.
  eexists. split; [vm_compute; reflexivity|]. split.
  - apply nodup_strb_spec. vm_compute. reflexivity.
  - vm_compute. reflexivity.
Qed.

(* ------------------------------------------------------------------ calendar: every date *)
Lemma all_from_spec : forall n z p, all_from n z p = true ->
  forall k, (0 <= k < Z.of_nat n)%Z -> p (z + k)%Z = true.
Proof.
  induction n as [|n IH]; intros z p H k Hk.
  - cbn in Hk. lia.
  - cbn [all_from] in H. destruct (p z) eqn:E; [|discriminate].
    destruct (Z.eq_dec k 0) as [->|Hne].
    + rewrite Z.add_0_r. exact E.
    + replace (z + k)%Z with ((z + 1) + (k - 1))%Z by lia. apply IH; [exact H|]. lia.
Qed.

Definition era_days : Z := 146097.

Lemma doe_of_range : forall z, (0 <= doe_of z < era_days)%Z.
Proof. intros z. unfold doe_of, era_days. apply Z.mod_pos_bound. reflexivity. Qed.

Section CalendarArith.
  Local Open Scope Z_scope.
  Ltac Zify.zify_post_hook ::= Z.to_euclidean_division_equations.

  (* Hinnant's day-of-year (counted from March 1st) stays inside one year *)
  Lemma doy_of_doe_range : forall doe, 0 <= doe < era_days -> 0 <= doy_of_doe doe <= 365.
  Proof. intros doe H. unfold era_days in H. unfold doy_of_doe, yoe_of_doe. lia. Qed.

  Lemma mp_of_doe_range : forall doe, 0 <= doe < era_days -> 0 <= mp_of_doe doe <= 11.
  Proof.
    intros doe H. pose proof (doy_of_doe_range doe H) as D. unfold mp_of_doe.
    generalize dependent (doy_of_doe doe). intros doy D. lia.
  Qed.

  Lemma month_of_doe_range : forall doe, 0 <= doe < era_days -> 1 <= month_of_doe doe <= 12.
  Proof.
    intros doe H. pose proof (mp_of_doe_range doe H) as M. unfold month_of_doe.
    destruct (mp_of_doe doe <? 10) eqn:E; [apply Z.ltb_lt in E|apply Z.ltb_ge in E]; lia.
  Qed.

  Lemma dom_of_doe_range : forall doe, 0 <= doe < era_days -> 1 <= dom_of_doe doe <= 31.
  Proof.
    intros doe H. pose proof (doy_of_doe_range doe H) as D. unfold dom_of_doe, mp_of_doe.
    generalize dependent (doy_of_doe doe). intros doy D. lia.
  Qed.
End CalendarArith.

Theorem month_of_range_l : forall z, (1 <= month_of z <= 12)%Z.
Proof. intros z. unfold month_of. apply month_of_doe_range. apply doe_of_range. Qed.

Theorem dom_of_range_l : forall z, (1 <= dom_of z <= 31)%Z.
Proof. intros z. unfold dom_of. apply dom_of_doe_range. apply doe_of_range. Qed.

Theorem dow_of_range_l : forall z, (1 <= dow_of z <= 7)%Z.
Proof.
  intros z. unfold dow_of. pose proof (Z.mod_pos_bound (z + 3) 7 eq_refl) as H. lia.
Qed.

(* the month repeats with the 400-year era, the weekday with the week *)
Theorem month_of_periodic_l : forall z, month_of (z + era_days)%Z = month_of z.
Proof.
  intros z. unfold month_of, doe_of, era_days.
  replace (z + 146097 + 719468)%Z with (z + 719468 + 1 * 146097)%Z by lia.
  rewrite Z.mod_add by discriminate. reflexivity.
Qed.

Theorem dow_of_next_l : forall z, dow_of (z + 1)%Z = (if (dow_of z =? 7)%Z then 1 else dow_of z + 1)%Z.
Proof.
  intros z. unfold dow_of.
  pose proof (Z.mod_pos_bound (z + 3) 7 eq_refl) as H.
  pose proof (Z.mod_pos_bound (z + 1 + 3) 7 eq_refl) as H'.
  pose proof (Z.div_mod (z + 3) 7) as D. pose proof (Z.div_mod (z + 1 + 3) 7) as D'.
  destruct ((z + 3) mod 7 + 1 =? 7)%Z eqn:E; [apply Z.eqb_eq in E|apply Z.eqb_neq in E]; lia.
Qed.

(* maps as the settings validators leave them: 12 months, 7 days, every name one of the hard-wired
   ones (empty seasons, no weekend day, ... allowed) *)
Definition std_maps (sm : list sname) (wm : list dname) : Prop :=
  List.length sm = 12%nat /\ List.length wm = 7%nat /\
  Forall (fun n => n <> OtherSeason) sm /\ Forall (fun d => d <> OtherDay) wm.

Lemma lookup_s_std : forall sm month, List.length sm = 12%nat -> Forall (fun n => n <> OtherSeason) sm ->
  (1 <= month <= 12)%Z -> lookup_s sm month <> OtherSeason.
Proof.
  intros sm month HL HF Hm. unfold lookup_s. rewrite Forall_forall in HF. apply HF. apply nth_In.
  rewrite HL. lia.
Qed.

Lemma lookup_d_std : forall wm dow, List.length wm = 7%nat -> Forall (fun d => d <> OtherDay) wm ->
  (1 <= dow <= 7)%Z -> lookup_d wm dow <> OtherDay.
Proof.
  intros wm dow HL HF Hm. unfold lookup_d. rewrite Forall_forall in HF. apply HF. apply nth_In.
  rewrite HL. lia.
Qed.

Lemma cell_of_std : forall n d, n <> OtherSeason -> d <> OtherDay -> exists x, cell_of n d = Some x.
Proof. intros [] [] H1 H2; try congruence; cbn; eauto. Qed.

Theorem date_routing_unique_l : forall s, exact_cover s -> forall sm wm, std_maps sm wm ->
  forall z : Z,
  exists c x, cell_of (lookup_s sm (month_of z)) (lookup_d wm (dow_of z)) = Some x /\
              receivers s (lookup_s sm) (lookup_d wm) (month_of z) (dow_of z) = [c] /\
              In c s /\ covers c x = true.
Proof.
  intros s Hs sm wm (L1 & L2 & F1 & F2) z.
  destruct (cell_of_std _ _ (lookup_s_std sm (month_of z) L1 F1 (month_of_range_l z))
                            (lookup_d_std wm (dow_of z) L2 F2 (dow_of_range_l z))) as (x & Hx).
  destruct (routing_unique_l s Hs (lookup_s sm) (lookup_d wm) (month_of z) (dow_of z) x Hx)
    as (c & H1 & H2 & H3).
  exists c, x. auto.
Qed.

(* no other component of the split receives the date *)
Corollary date_routing_only_l : forall s, exact_cover s -> forall sm wm, std_maps sm wm ->
  forall z c c', receivers s (lookup_s sm) (lookup_d wm) (month_of z) (dow_of z) = [c] ->
  In c' s -> routes c' (lookup_s sm) (lookup_d wm) (month_of z) (dow_of z) = true -> c' = c.
Proof.
  intros s _ sm wm _ z c c' Hr Hin Hroute.
  assert (H : In c' (receivers s (lookup_s sm) (lookup_d wm) (month_of z) (dow_of z))).
  { unfold receivers. apply filter_In. split; assumption. }
  rewrite Hr in H. destruct H as [H|[]]. symmetry. exact H.
Qed.

(* the full routing statement (any maps whatsoever) and its refutation *)
Definition routing_statement : Prop :=
  forall s, exact_cover s -> forall (sm : Z -> sname) (wm : Z -> dname) (month dow : Z),
  exists c, receivers s sm wm month dow = [c].

Theorem routing_statement_refuted_l : ~ routing_statement.
Proof.
  intros H. destruct routing_refuted_l as (s & sm & wm & month & dow & Hc & _ & Hr).
  destruct (H s Hc sm wm month dow) as (c & Hc'). rewrite Hr in Hc'. discriminate.
Qed.

Theorem calendar_ranges_l : forall z : Z,
  (1 <= month_of z <= 12)%Z /\ (1 <= dom_of z <= 31)%Z /\ (1 <= dow_of z <= 7)%Z.
Proof.
  intros z. split; [apply month_of_range_l|split; [apply dom_of_range_l|apply dow_of_range_l]].
Qed.

(* ------------------------------------------------------------------ completeness of the candidate list:
   every partition of the six cells into blocks "day type x set of seasons" is offered *)
Definition shape : Type := (daytype * (bool * bool * bool))%type.
Definition shape_of (c : comp) : shape :=
  (fst c, (mem_season SU (snd c), mem_season SH (snd c), mem_season WI (snd c))).
Definition shape_covers (sh : shape) (x : cell) : bool :=
  let '(d, (a, b, w)) := sh in
  (match fst x with SU => a | SH => b | WI => w end) && day_covers d (snd x).
Definition shape_eqb (p q : shape) : bool :=
  let '(d, (a, b, w)) := p in
  let '(d', (a', b', w')) := q in
  daytype_eqb d d' && Bool.eqb a a' && Bool.eqb b b' && Bool.eqb w w'.

Lemma shape_eqb_eq : forall p q, shape_eqb p q = true <-> p = q.
Proof.
  intros [d [[a b] w]] [d' [[a' b'] w']].
  destruct d, d', a, a', b, b', w, w'; cbn; split; intros H; try reflexivity; discriminate.
Qed.

Lemma covers_shape : forall c x, covers c x = shape_covers (shape_of c) x.
Proof. intros [d g] [[] w]; reflexivity. Qed.

Definition all_shapes : list shape :=
  flat_map (fun d => flat_map (fun a => flat_map (fun b => map (fun w => (d, (a, b, w))) [true; false])
                                                 [true; false]) [true; false]) [FW; WD; WE].

Lemma all_shapes_complete : forall sh, In sh all_shapes.
Proof.
  intros [d [[a b] w]]. destruct d, a, b, w; cbn; repeat (first [left; reflexivity | right]).
Qed.

Definition cover_shapes (x : cell) : list shape := filter (fun sh => shape_covers sh x) all_shapes.

(* the block that owns a cell: the shape of the only component covering it *)
Definition own (s : split) (x : cell) : option shape :=
  match filter (fun c => covers c x) s with [c] => Some (shape_of c) | _ => None end.
Definition owns (s : split) : list (option shape) := map (own s) cells.

Definition opt_shape_eqb (a b : option shape) : bool :=
  match a, b with Some p, Some q => shape_eqb p q | None, None => true | _, _ => false end.

Lemma opt_shape_eqb_eq : forall a b, opt_shape_eqb a b = true -> a = b.
Proof.
  intros [p|] [q|] H; cbn in H; try discriminate; [|reflexivity].
  apply shape_eqb_eq in H. subst. reflexivity.
Qed.

(* two cells with their owners: the owner of y is the owner of x exactly when the owner of x covers y,
   and the other way round (what an assignment of shapes to cells must satisfy to come from a
   partition) *)
Definition pair_ok (x : cell) (a : shape) (y : cell) (b : shape) : bool :=
  Bool.eqb (shape_covers a y) (shape_eqb b a) && Bool.eqb (shape_covers b x) (shape_eqb a b).

Definition tuple_offered (co : list (list (option shape))) (t : list shape) : bool :=
  existsb (fun o => list_eqb opt_shape_eqb o (map Some t)) co.

Definition x1 : cell := (SU, false).
Definition x2 : cell := (SU, true).
Definition x3 : cell := (SH, false).
Definition x4 : cell := (SH, true).
Definition x5 : cell := (WI, false).
Definition x6 : cell := (WI, true).

(* every pairwise-consistent assignment of covering shapes to the six cells is the assignment of some
   candidate (inconsistent prefixes are cut off early) *)
Definition complete_check (cands : list split) : bool :=
  let co := map owns cands in
  forallb (fun a1 =>
  forallb (fun a2 => if pair_ok x1 a1 x2 a2 then
  forallb (fun a3 => if pair_ok x1 a1 x3 a3 && pair_ok x2 a2 x3 a3 then
  forallb (fun a4 => if pair_ok x1 a1 x4 a4 && pair_ok x2 a2 x4 a4 && pair_ok x3 a3 x4 a4 then
  forallb (fun a5 => if pair_ok x1 a1 x5 a5 && pair_ok x2 a2 x5 a5 && pair_ok x3 a3 x5 a5
                        && pair_ok x4 a4 x5 a5 then
  forallb (fun a6 => if pair_ok x1 a1 x6 a6 && pair_ok x2 a2 x6 a6 && pair_ok x3 a3 x6 a6
                        && pair_ok x4 a4 x6 a6 && pair_ok x5 a5 x6 a6 then
    tuple_offered co [a1; a2; a3; a4; a5; a6]
  else true) (cover_shapes x6)
  else true) (cover_shapes x5)
  else true) (cover_shapes x4)
  else true) (cover_shapes x3)
  else true) (cover_shapes x2)) (cover_shapes x1).

Lemma complete_check_today : forall opts, parse_options seasonal_options = Some opts ->
  complete_check (candidates opts) = true.
Proof.
  intros opts H. vm_compute in H. injection H as <-. vm_compute. reflexivity.
Qed.

Lemma exact_cover_owner : forall s, exact_cover s -> forall x,
  exists c, filter (fun c => covers c x) s = [c] /\ In c s /\ covers c x = true.
Proof. intros s Hs x. apply exactly_one_filter. apply Hs. Qed.

Lemma pair_consistent : forall s y cx cy,
  filter (fun c => covers c y) s = [cy] -> In cx s -> covers cy y = true ->
  Bool.eqb (shape_covers (shape_of cx) y) (shape_eqb (shape_of cy) (shape_of cx)) = true.
Proof.
  intros s y cx cy Fy Hin Hy. rewrite <- covers_shape.
  destruct (covers cx y) eqn:E.
  - assert (H : In cx (filter (fun c => covers c y) s)) by (apply filter_In; split; assumption).
    rewrite Fy in H. destruct H as [H|[]]. subst cx.
    replace (shape_eqb (shape_of cy) (shape_of cy)) with true; [reflexivity|].
    symmetry. apply shape_eqb_eq. reflexivity.
  - destruct (shape_eqb (shape_of cy) (shape_of cx)) eqn:E2; [|reflexivity].
    apply shape_eqb_eq in E2. rewrite covers_shape in E. rewrite <- E2 in E.
    rewrite <- covers_shape in E. rewrite Hy in E. discriminate.
Qed.

Lemma own_of_filter : forall s x c, filter (fun c => covers c x) s = [c] -> own s x = Some (shape_of c).
Proof. intros s x c H. unfold own. rewrite H. reflexivity. Qed.

Lemma in_cover_shapes : forall c x, covers c x = true -> In (shape_of c) (cover_shapes x).
Proof.
  intros c x H. unfold cover_shapes. apply filter_In. split; [apply all_shapes_complete|].
  rewrite <- covers_shape. exact H.
Qed.

Lemma pair_ok_cover : forall s x y cx cy,
  filter (fun c => covers c x) s = [cx] -> filter (fun c => covers c y) s = [cy] ->
  In cx s -> In cy s -> covers cx x = true -> covers cy y = true ->
  pair_ok x (shape_of cx) y (shape_of cy) = true.
Proof.
  intros s x y cx cy Fx Fy Ix Iy Vx Vy. unfold pair_ok. apply andb_true_iff. split.
  - exact (pair_consistent s y cx cy Fy Ix Vy).
  - exact (pair_consistent s x cy cx Fx Iy Vx).
Qed.

Theorem candidates_complete_l : forall opts, parse_options seasonal_options = Some opts ->
  forall s, exact_cover s ->
  exists s', In s' (candidates opts) /\ forall x, own s' x = own s x.
Proof.
  intros opts Ho s Hs. pose proof (complete_check_today opts Ho) as CK.
  destruct (exact_cover_owner s Hs x1) as (c1 & F1 & I1 & V1).
  destruct (exact_cover_owner s Hs x2) as (c2 & F2 & I2 & V2).
  destruct (exact_cover_owner s Hs x3) as (c3 & F3 & I3 & V3).
  destruct (exact_cover_owner s Hs x4) as (c4 & F4 & I4 & V4).
  destruct (exact_cover_owner s Hs x5) as (c5 & F5 & I5 & V5).
  destruct (exact_cover_owner s Hs x6) as (c6 & F6 & I6 & V6).
  unfold complete_check in CK. cbv zeta in CK.
  rewrite forallb_forall in CK. specialize (CK _ (in_cover_shapes _ _ V1)).
  rewrite forallb_forall in CK. specialize (CK _ (in_cover_shapes _ _ V2)).
  rewrite (pair_ok_cover s _ _ _ _ F1 F2 I1 I2 V1 V2) in CK.
  rewrite forallb_forall in CK. specialize (CK _ (in_cover_shapes _ _ V3)).
  rewrite (pair_ok_cover s _ _ _ _ F1 F3 I1 I3 V1 V3), (pair_ok_cover s _ _ _ _ F2 F3 I2 I3 V2 V3) in CK.
  cbn [andb] in CK.
  rewrite forallb_forall in CK. specialize (CK _ (in_cover_shapes _ _ V4)).
  rewrite (pair_ok_cover s _ _ _ _ F1 F4 I1 I4 V1 V4), (pair_ok_cover s _ _ _ _ F2 F4 I2 I4 V2 V4),
          (pair_ok_cover s _ _ _ _ F3 F4 I3 I4 V3 V4) in CK.
  cbn [andb] in CK.
  rewrite forallb_forall in CK. specialize (CK _ (in_cover_shapes _ _ V5)).
  rewrite (pair_ok_cover s _ _ _ _ F1 F5 I1 I5 V1 V5), (pair_ok_cover s _ _ _ _ F2 F5 I2 I5 V2 V5),
          (pair_ok_cover s _ _ _ _ F3 F5 I3 I5 V3 V5), (pair_ok_cover s _ _ _ _ F4 F5 I4 I5 V4 V5) in CK.
  cbn [andb] in CK.
  rewrite forallb_forall in CK. specialize (CK _ (in_cover_shapes _ _ V6)).
  rewrite (pair_ok_cover s _ _ _ _ F1 F6 I1 I6 V1 V6), (pair_ok_cover s _ _ _ _ F2 F6 I2 I6 V2 V6),
          (pair_ok_cover s _ _ _ _ F3 F6 I3 I6 V3 V6), (pair_ok_cover s _ _ _ _ F4 F6 I4 I6 V4 V6),
          (pair_ok_cover s _ _ _ _ F5 F6 I5 I6 V5 V6) in CK.
  cbn [andb] in CK.
  unfold tuple_offered in CK. apply existsb_exists in CK.
  destruct CK as (o & Ho' & Eo). apply in_map_iff in Ho'. destruct Ho' as (s' & <- & Hs').
  exists s'. split; [exact Hs'|].
  unfold owns in Eo. cbn [map cells list_eqb] in Eo.
  repeat (apply andb_true_iff in Eo; let E := fresh "E" in destruct Eo as [E Eo]).
  intros [[] []].
  - transitivity (Some (shape_of c2)); [apply opt_shape_eqb_eq; assumption|symmetry; exact (own_of_filter _ _ _ F2)].
  - transitivity (Some (shape_of c1)); [apply opt_shape_eqb_eq; assumption|symmetry; exact (own_of_filter _ _ _ F1)].
  - transitivity (Some (shape_of c4)); [apply opt_shape_eqb_eq; assumption|symmetry; exact (own_of_filter _ _ _ F4)].
  - transitivity (Some (shape_of c3)); [apply opt_shape_eqb_eq; assumption|symmetry; exact (own_of_filter _ _ _ F3)].
  - transitivity (Some (shape_of c6)); [apply opt_shape_eqb_eq; assumption|symmetry; exact (own_of_filter _ _ _ F6)].
  - transitivity (Some (shape_of c5)); [apply opt_shape_eqb_eq; assumption|symmetry; exact (own_of_filter _ _ _ F5)].
Qed.
