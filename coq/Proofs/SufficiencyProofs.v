(* Lemmas about Model/Sufficiency.v (C10).  Statements of the property are in Properties/C10.v. *)
From Coq Require Import ZArith QArith List Bool Lia PrimFloat.
From V Require Import Model.Sufficiency Model.SufficiencyRun Generated.SufficiencyGen.
Import ListNotations.
Open Scope Z_scope.

(* ------------------------------------------------------------------ names *)

Lemma dq_eqb_eq : forall a b, dq_eqb a b = true <-> a = b.
Proof.
  intros a b; split.
  - destruct a, b; intro H; try reflexivity; vm_compute in H; discriminate H.
  - intros ->; destruct b; reflexivity.
Qed.

Lemma w_eqb_eq : forall a b, w_eqb a b = true <-> a = b.
Proof.
  intros a b; split.
  - destruct a, b; intro H; try reflexivity; vm_compute in H; discriminate H.
  - intros ->; destruct b; reflexivity.
Qed.

Lemma check_eqb_eq : forall a b, check_eqb a b = true <-> a = b.
Proof.
  intros a b; split.
  - destruct a, b; intro H; try reflexivity; vm_compute in H; discriminate H.
  - intros ->; destruct b; reflexivity.
Qed.

Lemma in_all_dqnames : forall n, In n all_dqnames.
Proof. destruct n; simpl; tauto. Qed.

Lemma in_all_warnnames : forall n, In n all_warnnames.
Proof. destruct n; simpl; tauto. Qed.

Lemma in_canon_dq : forall l n, In n (canon_dq l) <-> In n l.
Proof.
  intros l n. unfold canon_dq. rewrite filter_In, existsb_exists. split.
  - intros [_ [x [Hx He]]]. apply dq_eqb_eq in He. subst. exact Hx.
  - intro H. split; [apply in_all_dqnames|]. exists n. split; [exact H|]. apply dq_eqb_eq. reflexivity.
Qed.

Lemma in_canon_w : forall l n, In n (canon_w l) <-> In n l.
Proof.
  intros l n. unfold canon_w. rewrite filter_In, existsb_exists. split.
  - intros [_ [x [Hx He]]]. apply w_eqb_eq in He. subst. exact Hx.
  - intro H. split; [apply in_all_warnnames|]. exists n. split; [exact H|]. apply w_eqb_eq. reflexivity.
Qed.

Lemma nodup_all_dqnames : NoDup all_dqnames.
Proof.
  unfold all_dqnames.
  repeat (constructor; [simpl; intuition discriminate|]). constructor.
Qed.

Lemma nodup_canon_dq : forall l, NoDup (canon_dq l).
Proof. intro l. unfold canon_dq. apply NoDup_filter. exact nodup_all_dqnames. Qed.

(* ------------------------------------------------------------------ the checks, one by one *)

Definition check_name (k : check) : option dqname :=
  match k with
  | CNoData => Some NoData | CNegative => Some NegativeMeterValues | CLength => Some IncorrectNumberOfTotalDays
  | CValidDays => Some TooManyDaysMissingData | CValidMeter => Some TooManyDaysMissingMeter
  | CValidTemp => Some TooManyDaysMissingTemperature | CMonthlyTemp => Some MissingMonthlyTemperature
  | CMonthlyMeter => Some MissingMonthlyMeter | CMonthlyGhi => Some MissingMonthlyGhi
  | CExtreme => None | CEstimated => None
  end.

Definition check_cond (p : params) (is_rep electric : bool) (fr : frame) (c : counts) (k : check) : bool :=
  let rows := f_rows fr in
  match k with
  | CNoData => negb (is_some (c_total c))
  | CNegative => negb is_rep && negb electric && has_negative rows
  | CLength => length_bad p is_rep (c_total c)
  | CValidDays => under p (c_valid c) (c_total c)
  | CValidMeter => negb is_rep && under p (c_meter c) (c_total c)
  | CValidTemp => under p (c_temp c) (c_total c)
  | CMonthlyTemp => monthly_bad p r_temp rows
  | CMonthlyMeter => negb is_rep && monthly_bad p valid_meter_row rows
  | CMonthlyGhi => f_has_ghi fr && monthly_bad p r_ghi rows
  | CExtreme => false
  | CEstimated => false
  end.

Definition check_of (n : dqname) : option check :=
  match n with
  | NoData => Some CNoData | NegativeMeterValues => Some CNegative | IncorrectNumberOfTotalDays => Some CLength
  | TooManyDaysMissingData => Some CValidDays | TooManyDaysMissingMeter => Some CValidMeter
  | TooManyDaysMissingTemperature => Some CValidTemp | MissingMonthlyTemperature => Some CMonthlyTemp
  | MissingMonthlyMeter => Some CMonthlyMeter | MissingMonthlyGhi => Some CMonthlyGhi
  | OffcycleReads => None
  end.

Lemma run_check_fst : forall p is_rep el fr c k,
  fst (run_check p is_rep el fr c k) =
  match check_name k with
  | Some n => if check_cond p is_rep el fr c k then [n] else []
  | None => []
  end.
Proof. intros. destruct k; reflexivity. Qed.

Lemma check_name_of : forall k n, check_name k = Some n <-> check_of n = Some k.
Proof.
  intros k n; split; intro H; destruct k, n; simpl in *; try discriminate H; reflexivity.
Qed.

Lemma in_run_sequence_dq : forall p is_rep el fr c seq n,
  In n (fst (run_sequence p is_rep el fr c seq)) <->
  exists k, check_of n = Some k /\ In k seq /\ check_cond p is_rep el fr c k = true.
Proof.
  intros. unfold run_sequence. cbn [fst]. rewrite in_flat_map. split.
  - intros [k [Hk Hin]]. rewrite run_check_fst in Hin.
    destruct (check_name k) as [m|] eqn:En; [|contradiction].
    destruct (check_cond p is_rep el fr c k) eqn:Ec; [|contradiction].
    destruct Hin as [<-|[]]. exists k. split; [apply check_name_of; exact En|]. split; [exact Hk|exact Ec].
  - intros [k [Ho [Hk Hc]]]. exists k. split; [exact Hk|]. rewrite run_check_fst.
    apply check_name_of in Ho. rewrite Ho, Hc. left. reflexivity.
Qed.

(* ------------------------------------------------------------------ order of the checks is irrelevant *)

Lemma same_checks_in : forall a b, same_checks a b = true -> forall k, In k a <-> In k b.
Proof.
  intros a b H k. unfold same_checks in H. apply andb_true_iff in H. destruct H as [H1 H2].
  rewrite forallb_forall in H1, H2. split; intro Hin.
  - specialize (H1 k Hin). apply existsb_exists in H1. destruct H1 as [x [Hx He]].
    apply check_eqb_eq in He. subst. exact Hx.
  - specialize (H2 k Hin). apply existsb_exists in H2. destruct H2 as [x [Hx He]].
    apply check_eqb_eq in He. subst. exact Hx.
Qed.

Record params_facts (p : params) : Prop := {
  pf_max : p_max_len p = 365; pf_min : p_min_len p = 329;
  pf_cn : p_cov_num p = 9; pf_cd : p_cov_den p = 10; pf_tn : p_tcov_num p = 9; pf_td : p_tcov_den p = 10;
  pf_base : forall f k, In k (p_baseline_seq p f) <-> In k (canonical_baseline f);
  pf_rep : forall f k, In k (p_reporting_seq p f) <-> In k (canonical_reporting f)
}.

Lemma params_ok_facts : forall p, params_ok p = true -> params_facts p.
Proof.
  intros p H. unfold params_ok in H. rewrite !andb_true_iff in H.
  destruct H as [[[[[[[H1 H2] H3] H4] H5] H6] H7] H8].
  apply Z.eqb_eq in H1, H2, H3, H4, H5, H6. rewrite forallb_forall in H7, H8.
  constructor; try assumption.
  - intros f k. apply same_checks_in. apply H7. destruct f; simpl; tauto.
  - intros f k. apply same_checks_in. apply H8. destruct f; simpl; tauto.
Qed.

(* ------------------------------------------------------------------ arithmetic of the individual criteria *)

Lemma fold_max_ge : forall l t, t <= fold_left Z.max l t.
Proof. induction l as [|x l IH]; intro t; simpl; [lia|]. specialize (IH (Z.max t x)). lia. Qed.
Lemma fold_min_le : forall l t, fold_left Z.min l t <= t.
Proof. induction l as [|x l IH]; intro t; simpl; [lia|]. specialize (IH (Z.min t x)). lia. Qed.

Lemma span_of_pos : forall c rows d, span_of c rows = Some d -> 1 <= d.
Proof.
  intros c rows d H. unfold span_of in H. destruct (map r_ts (filter c rows)) as [|t l]; [discriminate|].
  injection H as <-. pose proof (fold_max_ge l t). pose proof (fold_min_le l t).
  unfold SECONDS_PER_DAY.
  assert (0 <= (fold_left Z.max l t - fold_left Z.min l t) / 86400) by (apply Z.div_pos; lia). lia.
Qed.

Lemma n_days_total_span : forall ign fr, n_days_total ign fr = span_of (complete ign fr) (f_rows fr).
Proof. reflexivity. Qed.

Lemma span_none_iff : forall c rows, span_of c rows = None <-> forall r, In r rows -> c r = false.
Proof.
  intros c rows. unfold span_of. split.
  - intros H r Hin. destruct (c r) eqn:E; [|reflexivity].
    assert (Hf : In r (filter c rows)) by (apply filter_In; tauto).
    destruct (filter c rows) as [|x l]; [contradiction|]. simpl in H. discriminate H.
  - intro H. assert (Hf : filter c rows = []).
    { induction rows as [|x l IH]; [reflexivity|]. simpl. rewrite (H x (or_introl eq_refl)).
      apply IH. intros r Hr. apply H. right. exact Hr. }
    rewrite Hf. reflexivity.
Qed.

Lemma span_ext : forall c c' rows, (forall r, In r rows -> c r = c' r) -> span_of c rows = span_of c' rows.
Proof.
  intros c c' rows H. unfold span_of. rewrite (filter_ext_in c c' rows H). reflexivity.
Qed.

Lemma under_spec : forall p n total, p_cov_num p = 9 -> p_cov_den p = 10 ->
  (forall d, total = Some d -> 1 <= d) -> (under p n total = true <-> under90 n total).
Proof.
  intros p n total Hn Hd Hpos. unfold under, under90. destruct total as [d|]; [|tauto].
  specialize (Hpos d eq_refl). rewrite Hn, Hd.
  destruct (0 <? d) eqn:E; [|apply Z.ltb_ge in E; lia].
  rewrite Z.ltb_lt. tauto.
Qed.

Lemma length_bad_spec : forall p total, p_max_len p = 365 -> p_min_len p = 329 ->
  (length_bad p false total = true <-> exists d, total = Some d /\ (d < 329 \/ 365 < d)).
Proof.
  intros p total Hmax Hmin. unfold length_bad. destruct total as [d|].
  - rewrite Hmax, Hmin. cbn [negb andb]. rewrite orb_true_iff, !Z.ltb_lt. split.
    + intro H. exists d. split; [reflexivity|]. tauto.
    + intros [d' [E H]]. injection E as <-. tauto.
  - split; [discriminate|]. intros [d [E _]]. discriminate E.
Qed.

Lemma has_negative_spec : forall rows,
  has_negative rows = true <-> exists r q, In r rows /\ r_obs r = Some q /\ (q < 0)%Q.
Proof.
  intro rows. unfold has_negative. rewrite existsb_exists. split.
  - intros [r [Hin H]]. destruct (r_obs r) as [q|] eqn:E; [|discriminate H].
    exists r, q. split; [exact Hin|]. split; [exact E|].
    apply negb_true_iff in H. apply Qnot_le_lt. intro Hle. apply Qle_bool_iff in Hle. congruence.
  - intros [r [q [Hin [E Hlt]]]]. exists r. split; [exact Hin|]. rewrite E. apply negb_true_iff.
    destruct (Qle_bool (0 # 1) q) eqn:B; [|reflexivity]. apply Qle_bool_iff in B.
    exfalso. exact (Qlt_not_le _ _ Hlt B).
Qed.

Lemma in_months12 : forall m, In m months12 <-> 1 <= m <= 12.
Proof. intro m. unfold months12. simpl. lia. Qed.

Lemma monthly_bad_spec : forall p present rows, p_cov_num p = 9 -> p_cov_den p = 10 ->
  (monthly_bad p present rows = true <-> some_month_under90 present rows).
Proof.
  intros p present rows Hn Hd. unfold monthly_bad, some_month_under90. rewrite existsb_exists. split.
  - intros [m [Hin H]]. exists m. split; [apply in_months12; exact Hin|].
    unfold month_under in H. rewrite Hn, Hd in H. apply Z.ltb_lt in H. exact H.
  - intros [m [Hm H]]. exists m. split; [apply in_months12; exact Hm|].
    unfold month_under. rewrite Hn, Hd. apply Z.ltb_lt. exact H.
Qed.

Lemma valid_temp_row_spec : forall p r, p_tcov_num p = 9 -> p_tcov_den p = 10 -> valid_temp_row p r = temp_valid90 r.
Proof. intros p r Hn Hd. unfold valid_temp_row, temp_valid90. rewrite Hn, Hd. reflexivity. Qed.

Lemma valid_secs_ext : forall v v' rows, (forall r, v r = v' r) -> valid_secs v rows = valid_secs v' rows.
Proof. intros v v' rows H. unfold valid_secs. rewrite (map_ext v v' H). reflexivity. Qed.

(* ------------------------------------------------------------------ membership in the reported set *)

Definition offcycle_dq (p : params) (f : family) (cx : ctx) : bool := is_billing f && x_offcycle cx && p_offcycle_dq p.

Lemma criteria_accepts : forall p f w el cx fr,
  is_reporting_flag p f w = true \/ f_has_obs fr = true ->
  exists dq ws, criteria p f w el cx fr = Accepted dq ws.
Proof.
  intros p f w el cx fr H. unfold criteria, dataclass_with_counts.
  assert (E : negb (is_reporting_flag p f w) && negb (f_has_obs fr) = false).
  { destruct H as [H|H]; rewrite H; simpl; [reflexivity|apply andb_false_r]. }
  rewrite E. destruct (run_sequence _ _ _ _ _ _) as [dq ws]. eexists. eexists. reflexivity.
Qed.

Lemma criteria_raises : forall p f w el cx fr e,
  criteria p f w el cx fr = Raised e <-> e = AttributeError /\ is_reporting_flag p f w = false /\ f_has_obs fr = false.
Proof.
  intros p f w el cx fr e. unfold criteria, dataclass_with_counts.
  destruct (is_reporting_flag p f w) eqn:Er; destruct (f_has_obs fr) eqn:Eo; cbn [negb andb];
    try (destruct (run_sequence _ _ _ _ _ _) as [dq ws]; split; [discriminate|intros [_ [? ?]]; discriminate]).
  split; [intro H; injection H as <-; tauto|intros [-> _]; reflexivity].
Qed.

Lemma in_dq_of_dataclass : forall p f w el cx fr n,
  is_reporting_flag p f w = true \/ f_has_obs fr = true ->
  (In n (dq_of (criteria p f w el cx fr)) <->
   (exists k, check_of n = Some k /\ In k (sequence_of p f w) /\
      check_cond p (is_reporting_flag p f w) (electric_flag f w el) fr
                 (compute_counts p (is_reporting_flag p f w) fr) k = true)
   \/ (n = OffcycleReads /\ offcycle_dq p f cx = true)).
Proof.
  intros p f w el cx fr n H. unfold criteria, dataclass_with_counts.
  assert (E : negb (is_reporting_flag p f w) && negb (f_has_obs fr) = false).
  { destruct H as [H|H]; rewrite H; simpl; [reflexivity|apply andb_false_r]. }
  rewrite E.
  pose proof (in_run_sequence_dq p (is_reporting_flag p f w) (electric_flag f w el) fr
                (compute_counts p (is_reporting_flag p f w) fr) (sequence_of p f w) n) as Hseq.
  destruct (run_sequence p (is_reporting_flag p f w) (electric_flag f w el) fr
              (compute_counts p (is_reporting_flag p f w) fr) (sequence_of p f w)) as [dq ws] eqn:Ers.
  cbn [fst] in Hseq. cbn [dq_of]. rewrite in_canon_dq, in_app_iff, Hseq.
  unfold offcycle_dq. split.
  - intros [Hl|Hr]; [left; exact Hl|]. right.
    destruct (is_billing f && x_offcycle cx && p_offcycle_dq p) eqn:Eo; [|contradiction].
    destruct Hr as [<-|[]]. split; reflexivity.
  - intros [Hl|[-> Ho]]; [left; exact Hl|]. right.
    rewrite Ho. left. reflexivity.
Qed.

Lemma nodup_dq_of_criteria : forall p f w el cx fr, NoDup (dq_of (criteria p f w el cx fr)).
Proof.
  intros. unfold criteria, dataclass_with_counts.
  destruct (negb (is_reporting_flag p f w) && negb (f_has_obs fr)); [constructor|].
  destruct (run_sequence _ _ _ _ _ _) as [dq ws]. cbn [dq_of]. apply nodup_canon_dq.
Qed.

(* ------------------------------------------------------------------ baseline: reported set = violated criteria *)

Lemma compute_counts_baseline : forall p fr, p_tcov_num p = 9 -> p_tcov_den p = 10 ->
  compute_counts p false fr =
  {| c_total := span_of (complete false fr) (f_rows fr);
     c_valid := whole_days (fun r => usage_present r && temp_valid90 r) (f_rows fr);
     c_meter := whole_days usage_present (f_rows fr);
     c_temp := whole_days temp_valid90 (f_rows fr) |}.
Proof.
  intros p fr Hn Hd. unfold compute_counts, whole_days. cbn [negb]. f_equal.
  - f_equal. apply valid_secs_ext. intro r. unfold valid_row, valid_meter_row, usage_present.
    rewrite (valid_temp_row_spec p r Hn Hd). reflexivity.
  - f_equal. apply valid_secs_ext. intro r. apply valid_temp_row_spec; assumption.
Qed.

Lemma compute_counts_reporting : forall p fr, p_tcov_num p = 9 -> p_tcov_den p = 10 ->
  compute_counts p true fr =
  {| c_total := span_of (complete (p_span_ignores_usage p) fr) (f_rows fr);
     c_valid := whole_days temp_valid90 (f_rows fr);
     c_meter := 0;
     c_temp := whole_days temp_valid90 (f_rows fr) |}.
Proof.
  intros p fr Hn Hd. unfold compute_counts, whole_days. cbn [andb]. f_equal.
  - f_equal. apply valid_secs_ext. intro r. unfold valid_row. apply valid_temp_row_spec; assumption.
  - f_equal. apply valid_secs_ext. intro r. apply valid_temp_row_spec; assumption.
Qed.

Lemma complete_baseline : forall fr, f_has_obs fr = true ->
  forall r, complete false fr r = has_data_baseline fr r.
Proof. intros fr H r. unfold complete, has_data_baseline, usage_present. rewrite H. reflexivity. Qed.

Lemma baseline_membership : forall p f el cx fr n,
  params_ok p = true -> f_has_obs fr = true ->
  (In n (dq_of (criteria p f Baseline el cx fr)) <->
   violates_baseline f el fr n \/ (n = OffcycleReads /\ offcycle_dq p f cx = true)).
Proof.
  intros p f el cx fr n Hok Hobs. pose proof (params_ok_facts p Hok) as F. destruct F as [pf_max0 pf_min0 pf_cn0 pf_cd0 pf_tn0 pf_td0 pf_base0 pf_rep0].
  rewrite (in_dq_of_dataclass p f Baseline el cx fr n (or_intror Hobs)).
  cbn [is_reporting_flag sequence_of electric_flag].
  assert (Eel : electric_flag f Baseline el = el) by (destruct f; reflexivity).
  rewrite (compute_counts_baseline p fr pf_tn0 pf_td0).
  assert (Espan : span_of (complete false fr) (f_rows fr) = span_of (has_data_baseline fr) (f_rows fr))
    by (apply span_ext; intros r _; apply complete_baseline; exact Hobs).
  rewrite Espan.
  assert (Hpos : forall d, span_of (has_data_baseline fr) (f_rows fr) = Some d -> 1 <= d) by (intros d; apply span_of_pos).
  apply or_iff_compat_r.
  unfold violates_baseline.
  split.
  - intros [k [Ho [Hin Hc]]]. apply pf_base0 in Hin.
    destruct n; simpl in Ho; try discriminate Ho; injection Ho as <-; cbn [check_cond c_total c_valid c_meter c_temp negb andb] in Hc.
    + apply negb_true_iff in Hc. apply span_none_iff.
      destruct (span_of (has_data_baseline fr) (f_rows fr)); [discriminate Hc|reflexivity].
    + apply andb_true_iff in Hc. destruct Hc as [He Hn]. apply negb_true_iff in He.
      split; [exact He|]. apply has_negative_spec. exact Hn.
    + apply (length_bad_spec p _ pf_max0 pf_min0). exact Hc.
    + apply (under_spec p _ _ pf_cn0 pf_cd0 Hpos). exact Hc.
    + apply (under_spec p _ _ pf_cn0 pf_cd0 Hpos). exact Hc.
    + apply (under_spec p _ _ pf_cn0 pf_cd0 Hpos). exact Hc.
    + apply (monthly_bad_spec p _ _ pf_cn0 pf_cd0). exact Hc.
    + split; [destruct f; simpl in Hin; intuition discriminate|].
      apply (monthly_bad_spec p _ _ pf_cn0 pf_cd0). exact Hc.
    + apply andb_true_iff in Hc. destruct Hc as [Hg Hm].
      split; [destruct f; simpl in Hin; intuition discriminate|]. split; [exact Hg|].
      apply (monthly_bad_spec p _ _ pf_cn0 pf_cd0). exact Hm.
  - intro V.
    destruct n; cbn [check_of]; try contradiction.
    + exists CNoData. split; [reflexivity|]. split; [apply pf_base0; destruct f; simpl; tauto|].
      cbn [check_cond c_total]. apply span_none_iff in V. rewrite V. reflexivity.
    + destruct V as [He Hn]. exists CNegative. split; [reflexivity|].
      split; [apply pf_base0; destruct f; simpl; tauto|]. cbn [check_cond negb andb].
      rewrite He. cbn [negb andb]. apply has_negative_spec. exact Hn.
    + exists CLength. split; [reflexivity|]. split; [apply pf_base0; destruct f; simpl; tauto|].
      cbn [check_cond c_total]. apply (length_bad_spec p _ pf_max0 pf_min0). exact V.
    + exists CValidDays. split; [reflexivity|]. split; [apply pf_base0; destruct f; simpl; tauto|].
      cbn [check_cond c_total c_valid]. apply (under_spec p _ _ pf_cn0 pf_cd0 Hpos). exact V.
    + exists CValidMeter. split; [reflexivity|]. split; [apply pf_base0; destruct f; simpl; tauto|].
      cbn [check_cond c_total c_meter negb andb]. apply (under_spec p _ _ pf_cn0 pf_cd0 Hpos). exact V.
    + exists CValidTemp. split; [reflexivity|]. split; [apply pf_base0; destruct f; simpl; tauto|].
      cbn [check_cond c_total c_temp]. apply (under_spec p _ _ pf_cn0 pf_cd0 Hpos). exact V.
    + exists CMonthlyTemp. split; [reflexivity|]. split; [apply pf_base0; destruct f; simpl; tauto|].
      cbn [check_cond]. apply (monthly_bad_spec p _ _ pf_cn0 pf_cd0). exact V.
    + destruct V as [-> V]. exists CMonthlyMeter. split; [reflexivity|]. split; [apply pf_base0; simpl; tauto|].
      cbn [check_cond negb andb]. apply (monthly_bad_spec p _ _ pf_cn0 pf_cd0). exact V.
    + destruct V as [-> [Hg V]]. exists CMonthlyGhi. split; [reflexivity|]. split; [apply pf_base0; simpl; tauto|].
      cbn [check_cond]. rewrite Hg. cbn [andb]. apply (monthly_bad_spec p _ _ pf_cn0 pf_cd0). exact V.
Qed.

(* ------------------------------------------------------------------ reporting *)

Lemma complete_reporting : forall ign fr, ign = true \/ usage_irrelevant fr ->
  forall r, In r (f_rows fr) -> complete ign fr r = has_data_reporting fr r.
Proof.
  intros ign fr H r Hin. unfold complete, has_data_reporting.
  assert (E : ign || negb (f_has_obs fr) || is_some (r_obs r) = true).
  { destruct H as [H|[H|H]]; [rewrite H; reflexivity|rewrite H; apply orb_true_iff; left; apply orb_true_r|].
    rewrite (H r Hin). apply orb_true_r. }
  rewrite E. reflexivity.
Qed.

Lemma reporting_membership : forall p f el cx fr n,
  params_ok p = true -> p_reporting_flag p f = true -> p_span_ignores_usage p = true \/ usage_irrelevant fr ->
  (In n (dq_of (criteria p f Reporting el cx fr)) <->
   violates_reporting f fr n \/ (n = OffcycleReads /\ offcycle_dq p f cx = true)).
Proof.
  intros p f el cx fr n Hok Hflag Hus. pose proof (params_ok_facts p Hok) as F. destruct F as [pf_max0 pf_min0 pf_cn0 pf_cd0 pf_tn0 pf_td0 pf_base0 pf_rep0].
  assert (Hrep : is_reporting_flag p f Reporting = true) by exact Hflag.
  rewrite (in_dq_of_dataclass p f Reporting el cx fr n (or_introl Hrep)).
  rewrite Hrep. cbn [sequence_of].
  rewrite (compute_counts_reporting p fr pf_tn0 pf_td0).
  assert (Espan : span_of (complete (p_span_ignores_usage p) fr) (f_rows fr) = span_of (has_data_reporting fr) (f_rows fr))
    by (apply span_ext; apply complete_reporting; exact Hus).
  rewrite Espan.
  assert (Hpos : forall d, span_of (has_data_reporting fr) (f_rows fr) = Some d -> 1 <= d) by (intros d; apply span_of_pos).
  apply or_iff_compat_r.
  unfold violates_reporting.
  split.
  - intros [k [Ho [Hin Hc]]]. apply pf_rep0 in Hin.
    destruct n; simpl in Ho; try discriminate Ho; injection Ho as <-;
      cbn [check_cond c_total c_valid c_meter c_temp negb andb] in Hc;
      try (exfalso; destruct f; simpl in Hin; intuition discriminate).
    + apply negb_true_iff in Hc. apply span_none_iff.
      destruct (span_of (has_data_reporting fr) (f_rows fr)); [discriminate Hc|reflexivity].
    + apply (under_spec p _ _ pf_cn0 pf_cd0 Hpos). exact Hc.
    + apply (under_spec p _ _ pf_cn0 pf_cd0 Hpos). exact Hc.
    + apply (monthly_bad_spec p _ _ pf_cn0 pf_cd0). exact Hc.
    + apply andb_true_iff in Hc. destruct Hc as [Hg Hm].
      split; [destruct f; simpl in Hin; intuition discriminate|]. split; [exact Hg|].
      apply (monthly_bad_spec p _ _ pf_cn0 pf_cd0). exact Hm.
  - intro V.
    destruct n; cbn [check_of]; try contradiction.
    + exists CNoData. split; [reflexivity|]. split; [apply pf_rep0; destruct f; simpl; tauto|].
      cbn [check_cond c_total]. apply span_none_iff in V. rewrite V. reflexivity.
    + exists CValidDays. split; [reflexivity|]. split; [apply pf_rep0; destruct f; simpl; tauto|].
      cbn [check_cond c_total c_valid]. apply (under_spec p _ _ pf_cn0 pf_cd0 Hpos). exact V.
    + exists CValidTemp. split; [reflexivity|]. split; [apply pf_rep0; destruct f; simpl; tauto|].
      cbn [check_cond c_total c_temp]. apply (under_spec p _ _ pf_cn0 pf_cd0 Hpos). exact V.
    + exists CMonthlyTemp. split; [reflexivity|]. split; [apply pf_rep0; destruct f; simpl; tauto|].
      cbn [check_cond]. apply (monthly_bad_spec p _ _ pf_cn0 pf_cd0). exact V.
    + destruct V as [-> [Hg V]]. exists CMonthlyGhi. split; [reflexivity|]. split; [apply pf_rep0; simpl; tauto|].
      cbn [check_cond]. rewrite Hg. cbn [andb]. apply (monthly_bad_spec p _ _ pf_cn0 pf_cd0). exact V.
Qed.

(* ------------------------------------------------------------------ from the criteria class to the data class *)

Definition added_frame (fr : frame) : frame := mkframe true (f_has_ghi fr) (map clear_obs (f_rows fr)).

Lemma dataclass_reporting : forall p f el cx fr, dataclass p f Reporting el cx fr = criteria p f Reporting el cx fr.
Proof. reflexivity. Qed.

Lemma dataclass_baseline_obs : forall p f el cx fr, f_has_obs fr = true ->
  dataclass p f Baseline el cx fr = criteria p f Baseline el cx fr.
Proof. intros p f el cx fr H. unfold dataclass, handed_frame. rewrite H. reflexivity. Qed.

Lemma dataclass_baseline_added : forall p f el cx fr, f_has_obs fr = false -> p_baseline_adds_usage p f = true ->
  dataclass p f Baseline el cx fr = criteria p f Baseline el cx (added_frame fr).
Proof. intros p f el cx fr H Ha. unfold dataclass, handed_frame. rewrite H, Ha. reflexivity. Qed.

Lemma dataclass_baseline_not_added : forall p f el cx fr, f_has_obs fr = false -> p_baseline_adds_usage p f = false ->
  dataclass p f Baseline el cx fr = Raised AttributeError.
Proof.
  intros p f el cx fr H Ha. unfold dataclass, handed_frame. rewrite H, Ha. cbn [negb andb].
  unfold criteria, dataclass_with_counts. cbn [is_reporting_flag]. rewrite H. reflexivity.
Qed.

Lemma added_rows_wf : forall fr, frame_wf fr -> f_has_obs fr = false -> map clear_obs (f_rows fr) = f_rows fr.
Proof.
  intros fr Hwf H. rewrite <- (map_id (f_rows fr)) at 2. apply map_ext_in. intros r Hin.
  specialize (Hwf H r Hin). destruct r as [t m o tp cv g a]. cbn [r_obs] in Hwf. subst o. reflexivity.
Qed.

Lemma violates_baseline_added : forall f el fr n, frame_wf fr -> f_has_obs fr = false ->
  (violates_baseline f el (added_frame fr) n <-> violates_baseline f el fr n).
Proof.
  intros f el fr n Hwf H. unfold violates_baseline, added_frame. cbn [f_rows f_has_ghi].
  rewrite (added_rows_wf fr Hwf H).
  assert (E : forall r, has_data_baseline {| f_has_obs := true; f_has_ghi := f_has_ghi fr; f_rows := f_rows fr |} r
                        = has_data_baseline fr r) by reflexivity.
  assert (Es : span_of (has_data_baseline {| f_has_obs := true; f_has_ghi := f_has_ghi fr; f_rows := f_rows fr |}) (f_rows fr)
               = span_of (has_data_baseline fr) (f_rows fr)) by reflexivity.
  rewrite Es. destruct n; try tauto.
Qed.

(* the baseline data class: a usage column is there, or it is added *)
Lemma baseline_membership_dc : forall p f el cx fr n,
  params_ok p = true -> frame_wf fr -> f_has_obs fr = true \/ p_baseline_adds_usage p f = true ->
  (In n (dq_of (dataclass p f Baseline el cx fr)) <->
   violates_baseline f el fr n \/ (n = OffcycleReads /\ offcycle_dq p f cx = true)).
Proof.
  intros p f el cx fr n Hok Hwf H. destruct (f_has_obs fr) eqn:Eo.
  - rewrite (dataclass_baseline_obs p f el cx fr Eo). apply baseline_membership; assumption.
  - destruct H as [H|H]; [discriminate H|]. rewrite (dataclass_baseline_added p f el cx fr Eo H).
    rewrite (baseline_membership p f el cx (added_frame fr) n Hok eq_refl).
    rewrite (violates_baseline_added f el fr n Hwf Eo). tauto.
Qed.

Lemma dataclass_accepts_dc : forall p f w el cx fr,
  is_reporting_flag p f w = true \/ f_has_obs fr = true \/ (w = Baseline /\ p_baseline_adds_usage p f = true) ->
  exists dq ws, dataclass p f w el cx fr = Accepted dq ws.
Proof.
  intros p f w el cx fr H. destruct w.
  - destruct (f_has_obs fr) eqn:Eo.
    + rewrite (dataclass_baseline_obs p f el cx fr Eo). apply criteria_accepts. right. exact Eo.
    + destruct H as [H|[H|[_ H]]]; [discriminate H|discriminate H|].
      rewrite (dataclass_baseline_added p f el cx fr Eo H). apply criteria_accepts. right. reflexivity.
  - rewrite dataclass_reporting. apply criteria_accepts. destruct H as [H|[H|[H _]]]; [left; exact H|right; exact H|discriminate H].
Qed.

Lemma dataclass_raises_dc : forall p f w el cx fr e,
  dataclass p f w el cx fr = Raised e <->
  e = AttributeError /\ is_reporting_flag p f w = false /\ f_has_obs fr = false /\ (w = Reporting \/ p_baseline_adds_usage p f = false).
Proof.
  intros p f w el cx fr e. destruct w.
  - destruct (f_has_obs fr) eqn:Eo.
    + rewrite (dataclass_baseline_obs p f el cx fr Eo), criteria_raises. rewrite Eo. split; [intros [_ [_ H]]; discriminate H|intros [_ [_ [H _]]]; discriminate H].
    + destruct (p_baseline_adds_usage p f) eqn:Ea.
      * rewrite (dataclass_baseline_added p f el cx fr Eo Ea), criteria_raises. cbn [added_frame f_has_obs].
        split; [intros [_ [_ H]]; discriminate H|intros [_ [_ [_ [H|H]]]]; discriminate H].
      * rewrite (dataclass_baseline_not_added p f el cx fr Eo Ea). split.
        -- intro H. injection H as <-. repeat split; try reflexivity. right. reflexivity.
        -- intros [-> _]. reflexivity.
  - rewrite dataclass_reporting, criteria_raises. split.
    + intros [H1 [H2 H3]]. repeat split; try assumption. left. reflexivity.
    + intros [H1 [H2 [H3 _]]]. repeat split; assumption.
Qed.

Lemma nodup_dq_of_dataclass_dc : forall p f w el cx fr, NoDup (dq_of (dataclass p f w el cx fr)).
Proof. intros. unfold dataclass. apply nodup_dq_of_criteria. Qed.

(* ------------------------------------------------------------------ packaged statements *)

Lemma baseline_dq_exact_l : forall p f el cx fr,
  params_ok p = true -> p_offcycle_dq p = false -> frame_wf fr ->
  f_has_obs fr = true \/ p_baseline_adds_usage p f = true ->
  exists dq ws, dataclass p f Baseline el cx fr = Accepted dq ws /\ NoDup dq /\
    forall n, In n dq <-> violates_baseline f el fr n.
Proof.
  intros p f el cx fr Hok Hoff Hwf Hobs.
  destruct (dataclass_accepts_dc p f Baseline el cx fr) as [dq [ws E]].
  { destruct Hobs as [H|H]; [right; left; exact H|right; right; split; [reflexivity|exact H]]. }
  exists dq, ws. split; [exact E|].
  pose proof (nodup_dq_of_dataclass_dc p f Baseline el cx fr) as Hnd.
  pose proof (fun n => baseline_membership_dc p f el cx fr n Hok Hwf Hobs) as Hm.
  rewrite E in Hnd, Hm. cbn [dq_of] in Hnd, Hm. split; [exact Hnd|].
  intro n. rewrite Hm. unfold offcycle_dq. rewrite Hoff, andb_false_r. split; [intros [H|[_ H]]; [exact H|discriminate H]|tauto].
Qed.

Lemma reporting_dq_exact_l : forall p f el cx fr,
  params_ok p = true -> p_offcycle_dq p = false -> p_reporting_flag p f = true ->
  p_span_ignores_usage p = true \/ usage_irrelevant fr ->
  exists dq ws, dataclass p f Reporting el cx fr = Accepted dq ws /\ NoDup dq /\
    forall n, In n dq <-> violates_reporting f fr n.
Proof.
  intros p f el cx fr Hok Hoff Hflag Hus. rewrite dataclass_reporting.
  destruct (criteria_accepts p f Reporting el cx fr (or_introl Hflag)) as [dq [ws E]].
  exists dq, ws. split; [exact E|].
  pose proof (nodup_dq_of_criteria p f Reporting el cx fr) as Hnd.
  pose proof (fun n => reporting_membership p f el cx fr n Hok Hflag Hus) as Hm.
  rewrite E in Hnd, Hm. cbn [dq_of] in Hnd, Hm. split; [exact Hnd|].
  intro n. rewrite Hm. unfold offcycle_dq. rewrite Hoff, andb_false_r. split; [intros [H|[_ H]]; [exact H|discriminate H]|tauto].
Qed.

(* ------------------------------------------------------------------ the whole statement *)

Record exact_facts (p : params) : Prop := {
  ef_ok : params_ok p = true;
  ef_rep : forall f, p_reporting_flag p f = true;
  ef_off : p_offcycle_dq p = false;
  ef_span : p_span_ignores_usage p = true;
  ef_add : forall f, p_baseline_adds_usage p f = true
}.

Lemma params_exact_facts : forall p, params_exact p = true -> exact_facts p.
Proof.
  intros p H. unfold params_exact in H. rewrite !andb_true_iff in H.
  destruct H as [[[[H1 H2] H3] H4] H5]. rewrite forallb_forall in H2, H5. apply negb_true_iff in H3.
  constructor; try assumption.
  - intro f. apply H2. destruct f; simpl; tauto.
  - intro f. apply H5. destruct f; simpl; tauto.
Qed.

(* every frame (that respects the representation invariant) is accepted by all six data classes and the reported
   set is exactly the set of violated criteria *)
Lemma statement_l : forall p, params_exact p = true -> forall f w el cx fr, frame_wf fr ->
  exists dq ws, dataclass p f w el cx fr = Accepted dq ws /\ NoDup dq /\
    forall n, In n dq <-> match w with Baseline => violates_baseline f el fr n | Reporting => violates_reporting f fr n end.
Proof.
  intros p Hex f w el cx fr Hwf. destruct (params_exact_facts p Hex) as [Hok Hrep Hoff Hspan Hadd]. destruct w.
  - apply baseline_dq_exact_l; try assumption. right. apply Hadd.
  - apply reporting_dq_exact_l; try assumption; [apply Hrep|left; exact Hspan].
Qed.

(* ------------------------------------------------------------------ warnings never change the verdict *)

Lemma warnings_never_change_verdict_l : forall p f w el cx cx' fr,
  p_offcycle_dq p = false \/ x_offcycle cx = x_offcycle cx' ->
  dq_of (criteria p f w el cx fr) = dq_of (criteria p f w el cx' fr).
Proof.
  intros p f w el cx cx' fr H. unfold criteria, dataclass_with_counts.
  destruct (negb (is_reporting_flag p f w) && negb (f_has_obs fr)); [reflexivity|].
  destruct (run_sequence _ _ _ _ _ _) as [dq ws]. cbn [dq_of].
  destruct H as [H|H]; [rewrite H, !andb_false_r; reflexivity|rewrite H; reflexivity].
Qed.

(* the four warnings are exactly what the context and the extreme-value rule say, whatever the verdict *)
Lemma warnings_spec_l : forall p f w el cx fr dq ws n,
  criteria p f w el cx fr = Accepted dq ws ->
  (In n ws <->
   match n with
   | ExtremeValues => In CExtreme (sequence_of p f w) /\ is_reporting_flag p f w = false /\ has_extreme (f_rows fr) = true
   | UtcIndex => x_utc cx = true
   | UnverifiableTemperature => is_hourly f = false /\ x_unverifiable cx = true
   | OffcycleWarning => is_billing f = true /\ x_offcycle cx = true /\ p_offcycle_dq p = false
   end).
Proof.
  intros p f w el cx fr dq ws n H. unfold criteria, dataclass_with_counts in H.
  destruct (negb (is_reporting_flag p f w) && negb (f_has_obs fr)); [discriminate H|].
  destruct (run_sequence p (is_reporting_flag p f w) (electric_flag f w el) fr
              (compute_counts p (is_reporting_flag p f w) fr) (sequence_of p f w)) as [dq0 ws0] eqn:Ers.
  injection H as _ <-. rewrite in_canon_w, !in_app_iff.
  assert (Hws : In n ws0 <-> n = ExtremeValues /\ In CExtreme (sequence_of p f w) /\ is_reporting_flag p f w = false
                              /\ has_extreme (f_rows fr) = true).
  { unfold run_sequence in Ers. injection Ers as _ <-. rewrite in_flat_map. split.
    - intros [k [Hk Hin]]. destruct k; cbn [run_check snd] in Hin; try contradiction.
      destruct (negb (is_reporting_flag p f w) && has_extreme (f_rows fr)) eqn:Ee; [|contradiction].
      destruct Hin as [<-|[]]. apply andb_true_iff in Ee. destruct Ee as [E1 E2]. apply negb_true_iff in E1. tauto.
    - intros [-> [Hk [E1 E2]]]. exists CExtreme. split; [exact Hk|]. cbn [run_check snd]. rewrite E1, E2. left. reflexivity. }
  rewrite Hws.
  destruct n.
  - split; [intros [[_ H]|[H|[H|H]]]; [exact H| | | ]|intro H; left; tauto].
    + destruct (x_utc cx); [destruct H as [H|[]]; discriminate H|contradiction].
    + destruct (negb (is_hourly f) && x_unverifiable cx); [destruct H as [H|[]]; discriminate H|contradiction].
    + destruct (is_billing f && x_offcycle cx && negb (p_offcycle_dq p)); [destruct H as [H|[]]; discriminate H|contradiction].
  - split.
    + intros [[H _]|[H|[H|H]]]; [discriminate H| | | ].
      * destruct (x_utc cx); [reflexivity|contradiction].
      * destruct (negb (is_hourly f) && x_unverifiable cx); [destruct H as [H|[]]; discriminate H|contradiction].
      * destruct (is_billing f && x_offcycle cx && negb (p_offcycle_dq p)); [destruct H as [H|[]]; discriminate H|contradiction].
    + intro H. right. left. rewrite H. left. reflexivity.
  - split.
    + intros [[H _]|[H|[H|H]]]; [discriminate H| | | ].
      * destruct (x_utc cx); [destruct H as [H|[]]; discriminate H|contradiction].
      * destruct (negb (is_hourly f) && x_unverifiable cx); [destruct H as [H|[]]; discriminate H|contradiction].
      * destruct (is_billing f) eqn:Eb; destruct (x_offcycle cx) eqn:Ex; destruct (p_offcycle_dq p) eqn:Eo;
          cbn [andb negb] in H; try contradiction. tauto.
    + intros [Hb [Hx Ho]]. right. right. right. rewrite Hb, Hx, Ho. left. reflexivity.
  - split.
    + intros [[H _]|[H|[H|H]]]; [discriminate H| | | ].
      * destruct (x_utc cx); [destruct H as [H|[]]; discriminate H|contradiction].
      * destruct (is_hourly f) eqn:Eh; destruct (x_unverifiable cx) eqn:Ex; cbn [andb negb] in H; try contradiction. tauto.
      * destruct (is_billing f && x_offcycle cx && negb (p_offcycle_dq p)); [destruct H as [H|[]]; discriminate H|contradiction].
    + intros [Hh Hx]. right. right. left. rewrite Hh, Hx. left. reflexivity.
Qed.

(* ------------------------------------------------------------------ binary64 thresholds *)

Lemma in_zrange : forall lo k z, In z (zrange lo k) <-> lo <= z < lo + Z.of_nat k.
Proof.
  intros lo k z. unfold zrange. rewrite in_map_iff. split.
  - intros [i [<- Hi]]. apply in_seq in Hi. lia.
  - intro H. exists (Z.to_nat (z - lo)). split; [lia|]. apply in_seq. lia.
Qed.

Lemma threshold_table_sound : forall bound thr, threshold_table bound thr = true ->
  forall n d, 0 <= n <= Z.of_nat bound -> 1 <= d <= Z.of_nat bound ->
  frac_lt thr n d = (10 * n <? 9 * d) /\ frac_gt thr n d = (9 * d <? 10 * n).
Proof.
  intros bound thr H n d Hn Hd. unfold threshold_table in H. rewrite forallb_forall in H.
  assert (Hin : forall z, 0 <= z <= Z.of_nat bound -> In (z, of_Z z) (map (fun z => (z, of_Z z)) (zrange 0 (S bound)))).
  { intros z Hz. apply in_map_iff. exists z. split; [reflexivity|]. apply in_zrange. lia. }
  specialize (H (d, of_Z d) (Hin d ltac:(lia))). cbn [fst snd] in H.
  apply orb_true_iff in H. destruct H as [H|H]; [apply Z.eqb_eq in H; lia|].
  rewrite forallb_forall in H. specialize (H (n, of_Z n) (Hin n Hn)). cbn [fst snd] in H.
  apply andb_true_iff in H. destruct H as [H1 H2]. apply eqb_prop in H1. apply eqb_prop in H2.
  unfold frac_lt, frac_gt. split; assumption.
Qed.

Lemma threshold_bound_value : Z.of_nat THRESHOLD_BOUND = 1000.
Proof. vm_compute. reflexivity. Qed.

(* for any two binary64 constants that pass the table (the regenerated ones are checked in Properties/C10.v) *)
Lemma threshold_exact_l : forall thr_days thr_hours,
  threshold_table THRESHOLD_BOUND thr_days = true -> threshold_table THRESHOLD_BOUND thr_hours = true ->
  forall n d, 0 <= n <= 1000 -> 1 <= d <= 1000 ->
  frac_lt thr_days n d = (10 * n <? 9 * d) /\ frac_gt thr_hours n d = (9 * d <? 10 * n).
Proof.
  intros t1 t2 H1 H2 n d Hn Hd. rewrite <- threshold_bound_value in Hn, Hd. split.
  - exact (proj1 (threshold_table_sound THRESHOLD_BOUND _ H1 n d Hn Hd)).
  - exact (proj2 (threshold_table_sound THRESHOLD_BOUND _ H2 n d Hn Hd)).
Qed.

(* the integer comparison of the model is the binary64 comparison of the code *)
Lemma under_is_float_l : forall p thr, p_cov_num p = 9 -> p_cov_den p = 10 ->
  threshold_table THRESHOLD_BOUND thr = true ->
  forall n d, 0 <= n <= 1000 -> 1 <= d <= 1000 -> under p n (Some d) = frac_lt thr n d.
Proof.
  intros p thr Hn9 Hd10 Ht n d Hn Hd. destruct (threshold_exact_l thr thr Ht Ht n d Hn Hd) as [E _]. rewrite E.
  unfold under. rewrite Hn9, Hd10.
  destruct (0 <? d) eqn:Ed; [reflexivity|apply Z.ltb_ge in Ed; lia].
Qed.

Lemma temp_valid_is_float_l : forall thr, threshold_table THRESHOLD_BOUND thr = true ->
  forall r a b, r_cov r = Some (a, b) -> 0 <= a -> 0 <= b -> 1 <= a + b <= 1000 ->
  temp_valid90 r = frac_gt thr a (a + b).
Proof.
  intros thr Ht r a b Hr Ha Hb Hab. destruct (threshold_exact_l thr thr Ht Ht a (a + b) ltac:(lia) Hab) as [_ E].
  rewrite E. unfold temp_valid90. rewrite Hr. reflexivity.
Qed.

(* ------------------------------------------------------------------ the magnitude of usage never changes the verdict *)

Lemma shape_day_counts : forall rows rows', Forall2 same_shape rows rows' -> day_counts rows = day_counts rows'.
Proof.
  intros rows rows' H. induction H as [|r r' l l' Hr Hl IH]; [reflexivity|].
  cbn [day_counts]. destruct Hl as [|r2 r2' l2 l2' Hr2 Hl2]; [reflexivity|].
  rewrite IH. destruct Hr as [E1 _]. destruct Hr2 as [E2 _]. rewrite E1, E2. reflexivity.
Qed.

Lemma shape_map : forall (B : Type) (v : row -> B) rows rows', (forall r r', same_shape r r' -> v r = v r') ->
  Forall2 same_shape rows rows' -> map v rows = map v rows'.
Proof.
  intros B v rows rows' Hv H. induction H as [|r r' l l' Hr Hl IH]; [reflexivity|].
  cbn [map]. rewrite (Hv r r' Hr), IH. reflexivity.
Qed.

Lemma shape_usage_present : forall r r', same_shape r r' -> is_some (r_obs r) = is_some (r_obs r').
Proof.
  intros r r' H. destruct H as [_ [_ [_ [_ [_ [_ H]]]]]].
  destruct (r_obs r), (r_obs r'); try contradiction; reflexivity.
Qed.

Lemma shape_valid_secs : forall v rows rows', (forall r r', same_shape r r' -> v r = v r') ->
  Forall2 same_shape rows rows' -> valid_secs v rows = valid_secs v rows'.
Proof.
  intros v rows rows' Hv H. unfold valid_secs. rewrite (shape_map bool v rows rows' Hv H), (shape_day_counts rows rows' H).
  reflexivity.
Qed.

Lemma shape_filter_count : forall (g v : row -> bool) rows rows',
  (forall r r', same_shape r r' -> g r = g r') -> (forall r r', same_shape r r' -> v r = v r') ->
  Forall2 same_shape rows rows' ->
  count_if v (filter g rows) = count_if v (filter g rows') /\ length (filter g rows) = length (filter g rows').
Proof.
  intros g v rows rows' Hg Hv H. unfold count_if. induction H as [|r r' l l' Hr Hl IH]; [split; reflexivity|].
  cbn [filter]. rewrite <- (Hg r r' Hr). destruct IH as [IH1 IH2]. destruct (g r).
  - cbn [filter length]. rewrite <- (Hv r r' Hr). destruct (v r); cbn [length]; split; lia.
  - split; assumption.
Qed.

Lemma existsb_map_eq : forall (A : Type) (f : A -> bool) l, existsb f l = existsb (fun b => b) (map f l).
Proof. intros A f l. induction l as [|x l IH]; [reflexivity|]. simpl. rewrite IH. reflexivity. Qed.

Lemma shape_monthly_bad : forall p v rows rows', (forall r r', same_shape r r' -> v r = v r') ->
  Forall2 same_shape rows rows' -> monthly_bad p v rows = monthly_bad p v rows'.
Proof.
  intros p v rows rows' Hv H. unfold monthly_bad.
  rewrite (existsb_map_eq Z _ months12), (existsb_map_eq Z (month_under p v rows') months12). f_equal.
  apply map_ext. intro m. unfold month_under.
  destruct (shape_filter_count (fun r => r_month r =? m) v rows rows') as [E1 E2]; try assumption.
  - intros r r' Hr. destruct Hr as [_ [E _]]. rewrite E. reflexivity.
  - rewrite E1, E2. reflexivity.
Qed.

Lemma shape_has_negative : forall rows rows', Forall2 same_shape rows rows' -> has_negative rows = has_negative rows'.
Proof.
  intros rows rows' H. unfold has_negative. rewrite (existsb_map_eq row _ rows), (existsb_map_eq row _ rows'). f_equal.
  apply shape_map; [|exact H]. intros r r' Hr. destruct Hr as [_ [_ [_ [_ [_ [_ Hr]]]]]].
  destruct (r_obs r) as [q|], (r_obs r') as [q'|]; try contradiction; [|reflexivity].
  destruct (Qle_bool (0 # 1) q) eqn:B; destruct (Qle_bool (0 # 1) q') eqn:B'; try reflexivity; exfalso.
  - apply Qle_bool_iff in B. assert (Hlt : (q' < 0)%Q).
    { apply Qnot_le_lt. intro Hle. apply Qle_bool_iff in Hle. congruence. }
    apply Hr in Hlt. exact (Qlt_not_le _ _ Hlt B).
  - apply Qle_bool_iff in B'. assert (Hlt : (q < 0)%Q).
    { apply Qnot_le_lt. intro Hle. apply Qle_bool_iff in Hle. congruence. }
    apply Hr in Hlt. exact (Qlt_not_le _ _ Hlt B').
Qed.

Lemma shape_complete : forall ign o g l l' r r', same_shape r r' ->
  complete ign (mkframe o g l) r = complete ign (mkframe o g l') r'.
Proof.
  intros ign o g l l' r r' Hr. unfold complete. cbn [f_has_obs f_has_ghi]. rewrite (shape_usage_present r r' Hr).
  destruct Hr as [_ [_ [E3 [E4 [E5 [E6 _]]]]]]. rewrite E3, E4, E5, E6. reflexivity.
Qed.

Lemma shape_complete_filter : forall ign o g l0 l0' rows rows', Forall2 same_shape rows rows' ->
  map r_ts (filter (complete ign (mkframe o g l0)) rows) = map r_ts (filter (complete ign (mkframe o g l0')) rows').
Proof.
  intros ign o g l0 l0' rows rows' H. induction H as [|r r' l l' Hr Hl IH]; [reflexivity|]. cbn [filter].
  rewrite <- (shape_complete ign o g l0 l0' r r' Hr). destruct (complete ign (mkframe o g l0) r).
  - cbn [map]. destruct Hr as [E1 _]. rewrite E1, IH. reflexivity.
  - exact IH.
Qed.

Lemma shape_complete_ts : forall ign o g rows rows', Forall2 same_shape rows rows' ->
  complete_ts ign (mkframe o g rows) = complete_ts ign (mkframe o g rows').
Proof.
  intros ign o g rows rows' H. unfold complete_ts. cbn [f_rows]. apply shape_complete_filter. exact H.
Qed.

Lemma shape_counts : forall p is_rep o g rows rows', Forall2 same_shape rows rows' ->
  compute_counts p is_rep (mkframe o g rows) = compute_counts p is_rep (mkframe o g rows').
Proof.
  intros p is_rep o g rows rows' H. unfold compute_counts, n_days_total. cbn [f_rows].
  rewrite (shape_complete_ts (is_rep && p_span_ignores_usage p) o g rows rows' H).
  assert (Ht : forall r r', same_shape r r' -> valid_temp_row p r = valid_temp_row p r').
  { intros r r' Hr. unfold valid_temp_row. destruct Hr as [_ [_ [_ [E _]]]]. rewrite E. reflexivity. }
  assert (Hm : forall r r', same_shape r r' -> valid_meter_row r = valid_meter_row r') by exact shape_usage_present.
  assert (Hv : forall r r', same_shape r r' -> valid_row p is_rep r = valid_row p is_rep r').
  { intros r r' Hr. unfold valid_row. rewrite (Ht r r' Hr), (Hm r r' Hr). reflexivity. }
  rewrite (shape_valid_secs _ rows rows' Hv H), (shape_valid_secs _ rows rows' Hm H), (shape_valid_secs _ rows rows' Ht H).
  reflexivity.
Qed.

Lemma usage_magnitude_never_changes_verdict_l : forall p f w el cx o g rows rows',
  Forall2 same_shape rows rows' ->
  dq_of (criteria p f w el cx (mkframe o g rows)) = dq_of (criteria p f w el cx (mkframe o g rows')).
Proof.
  intros p f w el cx o g rows rows' H. unfold criteria, dataclass_with_counts. cbn [f_has_obs].
  destruct (negb (is_reporting_flag p f w) && negb o); [reflexivity|].
  rewrite (shape_counts p (is_reporting_flag p f w) o g rows rows' H).
  set (c := compute_counts p (is_reporting_flag p f w) (mkframe o g rows')).
  assert (E : fst (run_sequence p (is_reporting_flag p f w) (electric_flag f w el) (mkframe o g rows) c (sequence_of p f w))
            = fst (run_sequence p (is_reporting_flag p f w) (electric_flag f w el) (mkframe o g rows') c (sequence_of p f w))).
  { unfold run_sequence. cbn [fst]. rewrite !flat_map_concat_map. f_equal. apply map_ext. intro k. rewrite !run_check_fst.
    assert (Ec : check_cond p (is_reporting_flag p f w) (electric_flag f w el) (mkframe o g rows) c k
               = check_cond p (is_reporting_flag p f w) (electric_flag f w el) (mkframe o g rows') c k).
    { destruct k; cbn [check_cond f_rows f_has_ghi]; try reflexivity.
      - rewrite (shape_has_negative rows rows' H). reflexivity.
      - rewrite (shape_monthly_bad p r_temp rows rows'); [reflexivity| |exact H].
        intros r r' Hr. destruct Hr as [_ [_ [E _]]]. exact E.
      - rewrite (shape_monthly_bad p valid_meter_row rows rows'); [reflexivity| |exact H]. exact shape_usage_present.
      - rewrite (shape_monthly_bad p r_ghi rows rows'); [reflexivity| |exact H].
        intros r r' Hr. destruct Hr as [_ [_ [_ [_ [E _]]]]]. exact E. }
    rewrite Ec. reflexivity. }
  destruct (run_sequence p (is_reporting_flag p f w) (electric_flag f w el) (mkframe o g rows) c (sequence_of p f w)) as [d1 w1].
  destruct (run_sequence p (is_reporting_flag p f w) (electric_flag f w el) (mkframe o g rows') c (sequence_of p f w)) as [d2 w2].
  cbn [fst] in E. cbn [dq_of]. rewrite E. reflexivity.
Qed.

(* ------------------------------------------------------------------ the same three facts for the data classes *)

Lemma warnings_never_change_verdict_dc : forall p f w el cx cx' fr,
  p_offcycle_dq p = false \/ x_offcycle cx = x_offcycle cx' ->
  dq_of (dataclass p f w el cx fr) = dq_of (dataclass p f w el cx' fr).
Proof. intros p f w el cx cx' fr H. unfold dataclass. apply warnings_never_change_verdict_l. exact H. Qed.

Lemma warnings_spec_dc : forall p f w el cx fr dq ws n,
  dataclass p f w el cx fr = Accepted dq ws ->
  (In n ws <->
   match n with
   | ExtremeValues => In CExtreme (sequence_of p f w) /\ is_reporting_flag p f w = false
                      /\ has_extreme (f_rows (handed_frame p f w fr)) = true
   | UtcIndex => x_utc cx = true
   | UnverifiableTemperature => is_hourly f = false /\ x_unverifiable cx = true
   | OffcycleWarning => is_billing f = true /\ x_offcycle cx = true /\ p_offcycle_dq p = false
   end).
Proof. intros p f w el cx fr dq ws n H. unfold dataclass in H. exact (warnings_spec_l p f w el cx _ dq ws n H). Qed.

Lemma shape_clear_obs : forall rows rows', Forall2 same_shape rows rows' ->
  Forall2 same_shape (map clear_obs rows) (map clear_obs rows').
Proof.
  intros rows rows' H. induction H as [|r r' l l' Hr Hl IH]; [constructor|]. cbn [map]. constructor; [|exact IH].
  destruct Hr as [E1 [E2 [E3 [E4 [E5 [E6 _]]]]]]. unfold same_shape, clear_obs.
  cbn [r_ts r_month r_temp r_cov r_ghi r_aux r_obs]. tauto.
Qed.

Lemma usage_magnitude_never_changes_verdict_dc : forall p f w el cx o g rows rows',
  Forall2 same_shape rows rows' ->
  dq_of (dataclass p f w el cx (mkframe o g rows)) = dq_of (dataclass p f w el cx (mkframe o g rows')).
Proof.
  intros p f w el cx o g rows rows' H. unfold dataclass, handed_frame. cbn [f_has_obs f_has_ghi f_rows]. destruct w.
  - destruct (negb o && p_baseline_adds_usage p f).
    + apply usage_magnitude_never_changes_verdict_l. apply shape_clear_obs. exact H.
    + apply usage_magnitude_never_changes_verdict_l. exact H.
  - apply usage_magnitude_never_changes_verdict_l. exact H.
Qed.

(* ------------------------------------------------------------------ regression: what a parameter record without the repairs reports *)

Lemma hourly_reporting_as_coded_l : forall p el cx fr n,
  params_ok p = true -> p_reporting_flag p Hourly = false -> f_has_obs fr = true ->
  (In n (dq_of (criteria p Hourly Reporting el cx fr)) <-> violates_reporting_as_baseline fr n).
Proof.
  intros p el cx fr n Hok Hflag Hobs. pose proof (params_ok_facts p Hok) as F. destruct F as [pf_max0 pf_min0 pf_cn0 pf_cd0 pf_tn0 pf_td0 pf_base0 pf_rep0].
  assert (Hrep : is_reporting_flag p Hourly Reporting = false) by exact Hflag.
  rewrite (in_dq_of_dataclass p Hourly Reporting el cx fr n (or_intror Hobs)).
  rewrite Hrep. cbn [sequence_of].
  rewrite (compute_counts_baseline p fr pf_tn0 pf_td0).
  assert (Hpos : forall d, span_of (complete false fr) (f_rows fr) = Some d -> 1 <= d) by (intros d; apply span_of_pos).
  assert (Hoff : offcycle_dq p Hourly cx = false) by reflexivity.
  rewrite Hoff.
  split.
  - intros [[k [Ho [Hin Hc]]]|[_ H]]; [|discriminate H]. apply pf_rep0 in Hin.
    unfold violates_reporting_as_baseline.
    destruct n; simpl in Ho; try discriminate Ho; injection Ho as <-;
      cbn [check_cond c_total c_valid c_meter c_temp negb andb] in Hc;
      try (exfalso; simpl in Hin; intuition discriminate).
    + apply negb_true_iff in Hc. apply span_none_iff.
      destruct (span_of (complete false fr) (f_rows fr)); [discriminate Hc|reflexivity].
    + apply (under_spec p _ _ pf_cn0 pf_cd0 Hpos). exact Hc.
    + apply (under_spec p _ _ pf_cn0 pf_cd0 Hpos). exact Hc.
    + apply (monthly_bad_spec p _ _ pf_cn0 pf_cd0). exact Hc.
    + apply andb_true_iff in Hc. destruct Hc as [Hg Hm]. split; [exact Hg|].
      apply (monthly_bad_spec p _ _ pf_cn0 pf_cd0). exact Hm.
  - intro V. left. unfold violates_reporting_as_baseline in V.
    destruct n; cbn [check_of]; try contradiction.
    + exists CNoData. split; [reflexivity|]. split; [apply pf_rep0; simpl; tauto|].
      cbn [check_cond c_total]. apply span_none_iff in V. rewrite V. reflexivity.
    + exists CValidDays. split; [reflexivity|]. split; [apply pf_rep0; simpl; tauto|].
      cbn [check_cond c_total c_valid]. apply (under_spec p _ _ pf_cn0 pf_cd0 Hpos). exact V.
    + exists CValidTemp. split; [reflexivity|]. split; [apply pf_rep0; simpl; tauto|].
      cbn [check_cond c_total c_temp]. apply (under_spec p _ _ pf_cn0 pf_cd0 Hpos). exact V.
    + exists CMonthlyTemp. split; [reflexivity|]. split; [apply pf_rep0; simpl; tauto|].
      cbn [check_cond]. apply (monthly_bad_spec p _ _ pf_cn0 pf_cd0). exact V.
    + destruct V as [Hg V]. exists CMonthlyGhi. split; [reflexivity|]. split; [apply pf_rep0; simpl; tauto|].
      cbn [check_cond]. rewrite Hg. cbn [andb]. apply (monthly_bad_spec p _ _ pf_cn0 pf_cd0). exact V.
Qed.


Lemma reporting_as_coded_l : forall p f el cx fr n,
  params_ok p = true -> p_reporting_flag p f = true -> p_span_ignores_usage p = false ->
  (In n (dq_of (criteria p f Reporting el cx fr)) <->
   violates_reporting_span_over_usage f fr n \/ (n = OffcycleReads /\ offcycle_dq p f cx = true)).
Proof.
  intros p f el cx fr n Hok Hflag Hspan. pose proof (params_ok_facts p Hok) as F. destruct F as [pf_max0 pf_min0 pf_cn0 pf_cd0 pf_tn0 pf_td0 pf_base0 pf_rep0].
  assert (Hrep : is_reporting_flag p f Reporting = true) by exact Hflag.
  rewrite (in_dq_of_dataclass p f Reporting el cx fr n (or_introl Hrep)).
  rewrite Hrep. cbn [sequence_of].
  rewrite (compute_counts_reporting p fr pf_tn0 pf_td0). rewrite Hspan.
  assert (Hpos : forall d, span_of (complete false fr) (f_rows fr) = Some d -> 1 <= d) by (intros d; apply span_of_pos).
  apply or_iff_compat_r.
  unfold violates_reporting_span_over_usage.
  split.
  - intros [k [Ho [Hin Hc]]]. apply pf_rep0 in Hin.
    destruct n; simpl in Ho; try discriminate Ho; injection Ho as <-;
      cbn [check_cond c_total c_valid c_meter c_temp negb andb] in Hc;
      try (exfalso; destruct f; simpl in Hin; intuition discriminate).
    + apply negb_true_iff in Hc. apply span_none_iff.
      destruct (span_of (complete false fr) (f_rows fr)); [discriminate Hc|reflexivity].
    + apply (under_spec p _ _ pf_cn0 pf_cd0 Hpos). exact Hc.
    + apply (under_spec p _ _ pf_cn0 pf_cd0 Hpos). exact Hc.
    + apply (monthly_bad_spec p _ _ pf_cn0 pf_cd0). exact Hc.
    + apply andb_true_iff in Hc. destruct Hc as [Hg Hm].
      split; [destruct f; simpl in Hin; intuition discriminate|]. split; [exact Hg|].
      apply (monthly_bad_spec p _ _ pf_cn0 pf_cd0). exact Hm.
  - intro V.
    destruct n; cbn [check_of]; try contradiction.
    + exists CNoData. split; [reflexivity|]. split; [apply pf_rep0; destruct f; simpl; tauto|].
      cbn [check_cond c_total]. apply span_none_iff in V. rewrite V. reflexivity.
    + exists CValidDays. split; [reflexivity|]. split; [apply pf_rep0; destruct f; simpl; tauto|].
      cbn [check_cond c_total c_valid]. apply (under_spec p _ _ pf_cn0 pf_cd0 Hpos). exact V.
    + exists CValidTemp. split; [reflexivity|]. split; [apply pf_rep0; destruct f; simpl; tauto|].
      cbn [check_cond c_total c_temp]. apply (under_spec p _ _ pf_cn0 pf_cd0 Hpos). exact V.
    + exists CMonthlyTemp. split; [reflexivity|]. split; [apply pf_rep0; destruct f; simpl; tauto|].
      cbn [check_cond]. apply (monthly_bad_spec p _ _ pf_cn0 pf_cd0). exact V.
    + destruct V as [-> [Hg V]]. exists CMonthlyGhi. split; [reflexivity|]. split; [apply pf_rep0; simpl; tauto|].
      cbn [check_cond]. rewrite Hg. cbn [andb]. apply (monthly_bad_spec p _ _ pf_cn0 pf_cd0). exact V.
Qed.


(* ------------------------------------------------------------------ regression witnesses: each repair is needed *)

(* example frames: n daily rows from the epoch, all in month 1 *)
Definition ex_row (i : nat) (o : option Q) (t : bool) : row :=
  mkrow (86400 * Z.of_nat i) 1 o t (Some (if t then (1, 0) else (0, 1))) false true.
Definition ex_full (n : nat) : list row := map (fun i => ex_row i (Some (5 # 1)%Q) true) (seq 0 n).
(* temperature missing on rows a .. a+k-1 *)
Definition ex_temp_gap (n a k : nat) (o : option Q) : list row :=
  map (fun i => ex_row i o (negb (Nat.leb a i && Nat.ltb i (a + k)))) (seq 0 n).
(* no usage value on any row *)
Definition ex_no_usage (n : nat) : list row := map (fun i => ex_row i None true) (seq 0 n).
Definition cx0 : ctx := mkctx false false false.
Definition cx_off : ctx := mkctx false false true.

(* (1) without the added usage column a baseline whose usage is entirely missing raises (was C10-F3) *)
Lemma without_added_column_l : forall p f el cx g rows, p_baseline_adds_usage p f = false ->
  dataclass p f Baseline el cx (mkframe false g rows) = Raised AttributeError.
Proof. intros p f el cx g rows H. apply dataclass_baseline_not_added; [reflexivity|exact H]. Qed.

(* (2) off-cycle billing reads change the verdict when they are appended to .disqualification (was C10-F1) *)
Lemma without_offcycle_warning_l : forall p el fr, params_ok p = true -> p_offcycle_dq p = true -> f_has_obs fr = true ->
  In OffcycleReads (dq_of (dataclass p Billing Baseline el cx_off fr)) /\
  ~ In OffcycleReads (dq_of (dataclass p Billing Baseline el cx0 fr)) /\
  ~ violates_baseline Billing el fr OffcycleReads.
Proof.
  intros p el fr Hok Hoff Hobs. rewrite !(dataclass_baseline_obs p Billing el _ fr Hobs). split; [|split].
  - apply (baseline_membership p Billing el cx_off fr OffcycleReads Hok Hobs). right. split; [reflexivity|].
    unfold offcycle_dq. rewrite Hoff. reflexivity.
  - intro H. apply (baseline_membership p Billing el cx0 fr OffcycleReads Hok Hobs) in H.
    destruct H as [H|[_ H]]; [exact H|discriminate H].
  - intro V. exact V.
Qed.

(* (3) hourly reporting data without usage, temperature complete: "no data" when the criteria class is not told
   that the data is reporting data (was C10-F2) *)
Lemma without_reporting_flag_l : forall p el cx n, (0 < n)%nat ->
  params_ok p = true -> p_reporting_flag p Hourly = false ->
  let fr := mkframe true false (ex_no_usage n) in
  In NoData (dq_of (dataclass p Hourly Reporting el cx fr)) /\ ~ violates_reporting Hourly fr NoData.
Proof.
  intros p el cx n Hn Hok Hflag. cbn zeta. rewrite dataclass_reporting. split.
  - apply (hourly_reporting_as_coded_l p el cx (mkframe true false (ex_no_usage n)) NoData Hok Hflag eq_refl).
    cbn [violates_reporting_as_baseline f_rows]. intros r Hin. unfold ex_no_usage in Hin.
    apply in_map_iff in Hin. destruct Hin as [i [<- _]]. reflexivity.
  - intro V. cbn [violates_reporting f_rows] in V.
    assert (Hin : In (ex_row 0 None true) (ex_no_usage n)).
    { unfold ex_no_usage. apply in_map_iff. exists 0%nat. split; [reflexivity|]. apply in_seq. lia. }
    specialize (V _ Hin). discriminate V.
Qed.

(* (4) daily reporting data, usage on the first 100 of 300 days, temperature missing on 31 days: the criteria say
   "under 90 % of days with valid temperature" (268 of 300); without the repair the code measured against the 100 days
   with usage (was C10-F4) *)
Definition ex_rep_partial : frame :=
  mkframe true false
    (map (fun i => ex_row i (if Nat.ltb i 100 then Some (5 # 1)%Q else None) (negb (Nat.leb 150 i && Nat.ltb i 181))) (seq 0 300)).

Lemma reporting_partial_usage_gen : forall p f el cx fr d1 d2 k, params_ok p = true -> p_reporting_flag p f = true ->
  p_span_ignores_usage p = false ->
  span_of (complete false fr) (f_rows fr) = Some d1 -> span_of (has_data_reporting fr) (f_rows fr) = Some d2 ->
  whole_days temp_valid90 (f_rows fr) = k -> 9 * d1 <= 10 * k -> 10 * k < 9 * d2 ->
  ~ In TooManyDaysMissingTemperature (dq_of (dataclass p f Reporting el cx fr)) /\
  violates_reporting f fr TooManyDaysMissingTemperature.
Proof.
  intros p f el cx fr d1 d2 k Hok Hflag Hspan E1 E3 E2 H1 H2. rewrite dataclass_reporting. split.
  - intro H. apply (reporting_as_coded_l p f el cx fr _ Hok Hflag Hspan) in H.
    destruct H as [H|[H _]]; [|discriminate H].
    unfold violates_reporting_span_over_usage in H. rewrite E1, E2 in H. unfold under90 in H. lia.
  - unfold violates_reporting. rewrite E3, E2. unfold under90. exact H2.
Qed.

Lemma ex_rep_partial_facts :
  span_of (complete false ex_rep_partial) (f_rows ex_rep_partial) = Some 100 /\
  span_of (has_data_reporting ex_rep_partial) (f_rows ex_rep_partial) = Some 300 /\
  whole_days temp_valid90 (f_rows ex_rep_partial) = 268.
Proof. vm_compute. repeat split. Qed.

Lemma without_span_repair_l : forall p f el cx, params_ok p = true -> p_reporting_flag p f = true ->
  p_span_ignores_usage p = false ->
  ~ In TooManyDaysMissingTemperature (dq_of (dataclass p f Reporting el cx ex_rep_partial)) /\
  violates_reporting f ex_rep_partial TooManyDaysMissingTemperature.
Proof.
  intros p f el cx Hok Hflag Hspan. destruct ex_rep_partial_facts as [E1 [E3 E2]].
  exact (reporting_partial_usage_gen p f el cx ex_rep_partial 100 300 268 Hok Hflag Hspan E1 E3 E2 ltac:(lia) ltac:(lia)).
Qed.

(* ------------------------------------------------------------------ non-vacuity witnesses (the statement's own parameters) *)

Lemma ex_published_exact : params_exact published = true.
Proof. vm_compute. reflexivity. Qed.

Lemma ex_frames_wf : frame_wf (mkframe true false (ex_full 340)) /\ frame_wf (mkframe false false (ex_no_usage 340)) /\
  frame_wf ex_rep_partial.
Proof.
  split; [|split]; intro H; try discriminate H.
  intros r Hin. cbn [f_rows] in Hin. unfold ex_no_usage in Hin. apply in_map_iff in Hin. destruct Hin as [i [<- _]]. reflexivity.
Qed.

(* a 340-day baseline with everything present: qualified *)
Lemma ex_baseline_clean :
  dataclass published Daily Baseline false cx0 (mkframe true false (ex_full 340)) = Accepted [] [].
Proof. vm_compute. reflexivity. Qed.

(* 340 days, temperature missing on 34 days: 305 valid whole days of 340 -> under 90 %; on 33 days: 306 -> exactly 90 %, passes *)
Lemma ex_baseline_threshold :
  dq_of (dataclass published Daily Baseline false cx0 (mkframe true false (ex_temp_gap 340 100 34 (Some (5 # 1)%Q))))
  = [TooManyDaysMissingData; TooManyDaysMissingTemperature] /\
  dq_of (dataclass published Daily Baseline false cx0 (mkframe true false (ex_temp_gap 340 100 33 (Some (5 # 1)%Q))))
  = [] /\
  whole_days temp_valid90 (ex_temp_gap 340 100 33 (Some (5 # 1)%Q)) = 306.
Proof. split; [|split]; vm_compute; reflexivity. Qed.

(* span limits: 328 days too short, 329 and 365 accepted, 366 too long *)
Lemma ex_span_limits :
  map (fun n => dq_of (dataclass published Daily Baseline true cx0 (mkframe true false (ex_full n)))) [328; 329; 365; 366]%nat
  = [[IncorrectNumberOfTotalDays]; []; []; [IncorrectNumberOfTotalDays]].
Proof. vm_compute. reflexivity. Qed.

Lemma ex_reporting_verdict :
  dq_of (dataclass published Daily Reporting true cx0 (mkframe false false (ex_temp_gap 300 150 31 None)))
  = [TooManyDaysMissingData; TooManyDaysMissingTemperature; MissingMonthlyTemperature].
Proof. vm_compute. reflexivity. Qed.

(* the four repaired corners under the statement's parameters: a baseline without any usage is reported as having no
   data; an off-cycle read only warns; temperature-only hourly reporting data is qualified; reporting data with usage
   on part of the days is judged against the whole span *)
Lemma ex_repaired_corners :
  dataclass published Daily Baseline true cx0 (mkframe false false (ex_no_usage 340))
  = Accepted [NoData; TooManyDaysMissingData; TooManyDaysMissingMeter; TooManyDaysMissingTemperature] [] /\
  dataclass published Billing Baseline true cx_off (mkframe true false (ex_full 340)) = Accepted [] [OffcycleWarning] /\
  dataclass published Hourly Reporting true cx0 (mkframe true false (ex_no_usage 340)) = Accepted [] [] /\
  dq_of (dataclass published Daily Reporting true cx0 ex_rep_partial)
  = [TooManyDaysMissingData; TooManyDaysMissingTemperature; MissingMonthlyTemperature].
Proof. repeat split; vm_compute; reflexivity. Qed.

(* negative usage: disqualifies gas, not electricity; an extreme value only warns *)
Definition ex_negative : list row :=
  map (fun i => ex_row i (Some (if Nat.eqb i 7 then (-3 # 1) else if Nat.eqb i 9 then (1000 # 1) else (5 # 1))%Q) true) (seq 0 340).
Lemma ex_negative_verdicts :
  dataclass published Daily Baseline false cx0 (mkframe true false ex_negative) = Accepted [NegativeMeterValues] [ExtremeValues] /\
  dataclass published Daily Baseline true cx0 (mkframe true false ex_negative) = Accepted [] [ExtremeValues].
Proof. split; vm_compute; reflexivity. Qed.

Lemma ex_same_shape : Forall2 same_shape ex_negative
  (map (fun i => ex_row i (Some (if Nat.eqb i 7 then (-1 # 2) else (1 # 1))%Q) true) (seq 0 340)).
Proof.
  unfold ex_negative. generalize (seq 0 340). intro l. induction l as [|i l IH]; [constructor|].
  cbn [map]. constructor; [|exact IH].
  unfold same_shape, ex_row. cbn [r_ts r_month r_temp r_cov r_ghi r_aux r_obs].
  repeat (split; [reflexivity|]).
  destruct (Nat.eqb i 7); [split; intros _; reflexivity|].
  destruct (Nat.eqb i 9); split; intro H; vm_compute in H; discriminate H.
Qed.

(* the parameter record without the repairs: the hypotheses of the regression lemmas are satisfiable *)
Lemma ex_as_coded : params_ok as_coded = true /\ p_reporting_flag as_coded Hourly = false /\ p_offcycle_dq as_coded = true /\
  p_span_ignores_usage as_coded = false /\ p_baseline_adds_usage as_coded Daily = false /\
  dq_of (dataclass as_coded Hourly Reporting true cx0 (mkframe true false (ex_no_usage 340)))
  = [NoData; TooManyDaysMissingData; TooManyDaysMissingTemperature] /\
  dq_of (dataclass as_coded Daily Reporting true cx0 ex_rep_partial) = [MissingMonthlyTemperature] /\
  dq_of (dataclass as_coded Billing Baseline true cx_off (mkframe true false (ex_full 340))) = [OffcycleReads].
Proof. repeat split; vm_compute; reflexivity. Qed.

(* ------------------------------------------------------------------ the frames of the correspondence *)

(* the expansion of a run-length segment caches the civil month per local day; it is the plain definition *)
Lemma expand_seg_aux_simple : forall k t step off dend m obs tp cov g a,
  dend mod 86400 = 0 -> m = month_of_days (dend / 86400 - 1) ->
  expand_seg_aux k t step off dend m obs tp cov g a = expand_seg_simple k t step off obs tp cov g a.
Proof.
  induction k as [|k IH]; intros t step off dend m obs tp cov g a Hd Hm; [reflexivity|].
  cbn [expand_seg_aux expand_seg_simple]. cbv zeta.
  destruct ((dend - 86400 <=? t + off) && (t + off <? dend)) eqn:E.
  - apply andb_true_iff in E. destruct E as [E1 E2]. apply Z.leb_le in E1. apply Z.ltb_lt in E2.
    assert (Hq : (t + off) / 86400 = dend / 86400 - 1).
    { pose proof (Z.div_mod dend 86400 ltac:(lia)) as D. rewrite Hd in D.
      symmetry. apply (Z.div_unique (t + off) 86400 (dend / 86400 - 1) (t + off - 86400 * (dend / 86400 - 1))); lia. }
    f_equal; [unfold month_of_local; rewrite Hq, Hm; reflexivity|]. apply IH; assumption.
  - f_equal. apply IH.
    + apply Z.mod_mul. lia.
    + rewrite Z.div_mul by lia. f_equal. lia.
Qed.

Lemma expand_seg_simple_eq : forall t step n off obs tp cov g a,
  expand_seg (t, step, n, off, obs, tp, cov, g, a) = expand_seg_simple (Z.to_nat n) t step off obs tp cov g a.
Proof.
  intros. unfold expand_seg. apply expand_seg_aux_simple.
  - apply Z.mod_mul. lia.
  - rewrite Z.div_mul by lia. reflexivity.
Qed.

