(* Lemmas about Model/Sufficiency.v (C10).  Statements of the property are in Properties/C10.v. *)
From Coq Require Import ZArith QArith List Bool Lia PrimFloat.
From V Require Import Model.Sufficiency Model.SufficiencyRun Generated.SufficiencyGen.
Import ListNotations.
Open Scope Z_scope.

(* ------------------------------------------------------------------ names *)

Lemma dq_eqb_eq : forall a b, dq_eqb a b = true <-> a = b.
Proof.
  intros a b; split.
  - destruct a, b; intro H; try reflexivity; vm_compute in H; discriminate H.
  - intros ->; destruct b; reflexivity.
Qed.

Lemma w_eqb_eq : forall a b, w_eqb a b = true <-> a = b.
Proof.
  intros a b; split.
  - destruct a, b; intro H; try reflexivity; vm_compute in H; discriminate H.
  - intros ->; destruct b; reflexivity.
Qed.

Lemma check_eqb_eq : forall a b, check_eqb a b = true <-> a = b.
Proof.
  intros a b; split.
  - destruct a, b; intro H; try reflexivity; vm_compute in H; discriminate H.
  - intros ->; destruct b; reflexivity.
Qed.

Lemma in_all_dqnames : forall n, In n all_dqnames.
Proof. destruct n; simpl; tauto. Qed.

Lemma in_all_warnnames : forall n, In n all_warnnames.
Proof. destruct n; simpl; tauto. Qed.

Lemma in_canon_dq : forall l n, In n (canon_dq l) <-> In n l.
Proof.
  intros l n. unfold canon_dq. rewrite filter_In, existsb_exists. split.
  - intros [_ [x [Hx He]]]. apply dq_eqb_eq in He. subst. exact Hx.
  - intro H. split; [apply in_all_dqnames|]. exists n. split; [exact H|]. apply dq_eqb_eq. reflexivity.
Qed.

Lemma in_canon_w : forall l n, In n (canon_w l) <-> In n l.
Proof.
  intros l n. unfold canon_w. rewrite filter_In, existsb_exists. split.
  - intros [_ [x [Hx He]]]. apply w_eqb_eq in He. subst. exact Hx.
  - intro H. split; [apply in_all_warnnames|]. exists n. split; [exact H|]. apply w_eqb_eq. reflexivity.
Qed.

Lemma nodup_all_dqnames : NoDup all_dqnames.
Proof.
  unfold all_dqnames.
  repeat (constructor; [simpl; intuition discriminate|]). constructor.
Qed.

Lemma nodup_canon_dq : forall l, NoDup (canon_dq l).
Proof. intro l. unfold canon_dq. apply NoDup_filter. exact nodup_all_dqnames. Qed.

(* ------------------------------------------------------------------ the checks, one by one *)

Definition check_name (k : check) : option dqname :=
  match k with
  | CNoData => Some NoData | CNegative => Some NegativeMeterValues | CLength => Some IncorrectNumberOfTotalDays
  | CValidDays => Some TooManyDaysMissingData | CValidMeter => Some TooManyDaysMissingMeter
  | CValidTemp => Some TooManyDaysMissingTemperature | CMonthlyTemp => Some MissingMonthlyTemperature
  | CMonthlyMeter => Some MissingMonthlyMeter | CMonthlyGhi => Some MissingMonthlyGhi
  | CExtreme => None | CEstimated => None
  end.

Definition check_cond (p : params) (is_rep electric : bool) (fr : frame) (c : counts) (k : check) : bool :=
  let rows := f_rows fr in
  match k with
  | CNoData => negb (is_some (c_total c))
  | CNegative => negb is_rep && negb electric && has_negative rows
  | CLength => length_bad p is_rep (c_total c)
  | CValidDays => under p (c_valid c) (c_total c)
  | CValidMeter => negb is_rep && under p (c_meter c) (c_total c)
  | CValidTemp => under p (c_temp c) (c_total c)
  | CMonthlyTemp => monthly_bad p r_temp rows
  | CMonthlyMeter => negb is_rep && monthly_bad p valid_meter_row rows
  | CMonthlyGhi => f_has_ghi fr && monthly_bad p r_ghi rows
  | CExtreme => false
  | CEstimated => false
  end.

Definition check_of (n : dqname) : option check :=
  match n with
  | NoData => Some CNoData | NegativeMeterValues => Some CNegative | IncorrectNumberOfTotalDays => Some CLength
  | TooManyDaysMissingData => Some CValidDays | TooManyDaysMissingMeter => Some CValidMeter
  | TooManyDaysMissingTemperature => Some CValidTemp | MissingMonthlyTemperature => Some CMonthlyTemp
  | MissingMonthlyMeter => Some CMonthlyMeter | MissingMonthlyGhi => Some CMonthlyGhi
  | OffcycleReads => None
  end.

Lemma run_check_fst : forall p is_rep el fr c k,
  fst (run_check p is_rep el fr c k) =
  match check_name k with
  | Some n => if check_cond p is_rep el fr c k then [n] else []
  | None => []
  end.
Proof. intros. destruct k; reflexivity. Qed.

Lemma check_name_of : forall k n, check_name k = Some n <-> check_of n = Some k.
Proof.
  intros k n; split; intro H; destruct k, n; simpl in *; try discriminate H; reflexivity.
Qed.

Lemma in_run_sequence_dq : forall p is_rep el fr c seq n,
  In n (fst (run_sequence p is_rep el fr c seq)) <->
  exists k, check_of n = Some k /\ In k seq /\ check_cond p is_rep el fr c k = true.
Proof.
  intros. unfold run_sequence. cbn [fst]. rewrite in_flat_map. split.
  - intros [k [Hk Hin]]. rewrite run_check_fst in Hin.
    destruct (check_name k) as [m|] eqn:En; [|contradiction].
    destruct (check_cond p is_rep el fr c k) eqn:Ec; [|contradiction].
    destruct Hin as [<-|[]]. exists k. split; [apply check_name_of; exact En|]. split; [exact Hk|exact Ec].
  - intros [k [Ho [Hk Hc]]]. exists k. split; [exact Hk|]. rewrite run_check_fst.
    apply check_name_of in Ho. rewrite Ho, Hc. left. reflexivity.
Qed.

(* ------------------------------------------------------------------ order of the checks is irrelevant *)

Lemma same_checks_in : forall a b, same_checks a b = true -> forall k, In k a <-> In k b.
Proof.
  intros a b H k. unfold same_checks in H. apply andb_true_iff in H. destruct H as [H1 H2].
  rewrite forallb_forall in H1, H2. split; intro Hin.
  - specialize (H1 k Hin). apply existsb_exists in H1. destruct H1 as [x [Hx He]].
    apply check_eqb_eq in He. subst. exact Hx.
  - specialize (H2 k Hin). apply existsb_exists in H2. destruct H2 as [x [Hx He]].
    apply check_eqb_eq in He. subst. exact Hx.
Qed.

Record params_facts (p : params) : Prop := {
  pf_max : p_max_len p = 365; pf_min : p_min_len p = 329;
  pf_cn : p_cov_num p = 9; pf_cd : p_cov_den p = 10; pf_tn : p_tcov_num p = 9; pf_td : p_tcov_den p = 10;
  pf_base : forall f k, In k (p_baseline_seq p f) <-> In k (canonical_baseline f);
  pf_rep : forall f k, In k (p_reporting_seq p f) <-> In k (canonical_reporting f)
}.

Lemma params_ok_facts : forall p, params_ok p = true -> params_facts p.
Proof.
  intros p H. unfold params_ok in H. rewrite !andb_true_iff in H.
  destruct H as [[[[[[[H1 H2] H3] H4] H5] H6] H7] H8].
  apply Z.eqb_eq in H1, H2, H3, H4, H5, H6. rewrite forallb_forall in H7, H8.
  constructor; try assumption.
  - intros f k. apply same_checks_in. apply H7. destruct f; simpl; tauto.
  - intros f k. apply same_checks_in. apply H8. destruct f; simpl; tauto.
Qed.

(* ------------------------------------------------------------------ arithmetic of the individual criteria *)

Lemma fold_max_ge : forall l t, t <= fold_left Z.max l t.
Proof. induction l as [|x l IH]; intro t; simpl; [lia|]. specialize (IH (Z.max t x)). lia. Qed.
Lemma fold_min_le : forall l t, fold_left Z.min l t <= t.
Proof. induction l as [|x l IH]; intro t; simpl; [lia|]. specialize (IH (Z.min t x)). lia. Qed.

Lemma span_of_pos : forall c rows d, span_of c rows = Some d -> 1 <= d.
Proof.
  intros c rows d H. unfold span_of in H. destruct (map r_ts (filter c rows)) as [|t l]; [discriminate|].
  injection H as <-. pose proof (fold_max_ge l t). pose proof (fold_min_le l t).
  unfold SECONDS_PER_DAY.
  assert (0 <= (fold_left Z.max l t - fold_left Z.min l t) / 86400) by (apply Z.div_pos; lia). lia.
Qed.

Lemma n_days_total_span : forall fr, n_days_total fr = span_of (complete fr) (f_rows fr).
Proof. reflexivity. Qed.

Lemma span_none_iff : forall c rows, span_of c rows = None <-> forall r, In r rows -> c r = false.
Proof.
  intros c rows. unfold span_of. split.
  - intros H r Hin. destruct (c r) eqn:E; [|reflexivity].
    assert (Hf : In r (filter c rows)) by (apply filter_In; tauto).
    destruct (filter c rows) as [|x l]; [contradiction|]. simpl in H. discriminate H.
  - intro H. assert (Hf : filter c rows = []).
    { induction rows as [|x l IH]; [reflexivity|]. simpl. rewrite (H x (or_introl eq_refl)).
      apply IH. intros r Hr. apply H. right. exact Hr. }
    rewrite Hf. reflexivity.
Qed.

Lemma span_ext : forall c c' rows, (forall r, In r rows -> c r = c' r) -> span_of c rows = span_of c' rows.
Proof.
  intros c c' rows H. unfold span_of. rewrite (filter_ext_in c c' rows H). reflexivity.
Qed.

Lemma under_spec : forall p n total, p_cov_num p = 9 -> p_cov_den p = 10 ->
  (forall d, total = Some d -> 1 <= d) -> (under p n total = true <-> under90 n total).
Proof.
  intros p n total Hn Hd Hpos. unfold under, under90. destruct total as [d|]; [|tauto].
  specialize (Hpos d eq_refl). rewrite Hn, Hd.
  destruct (0 <? d) eqn:E; [|apply Z.ltb_ge in E; lia].
  rewrite Z.ltb_lt. tauto.
Qed.

Lemma length_bad_spec : forall p total, p_max_len p = 365 -> p_min_len p = 329 ->
  (length_bad p false total = true <-> exists d, total = Some d /\ (d < 329 \/ 365 < d)).
Proof.
  intros p total Hmax Hmin. unfold length_bad. destruct total as [d|].
  - rewrite Hmax, Hmin. cbn [negb andb]. rewrite orb_true_iff, !Z.ltb_lt. split.
    + intro H. exists d. split; [reflexivity|]. tauto.
    + intros [d' [E H]]. injection E as <-. tauto.
  - split; [discriminate|]. intros [d [E _]]. discriminate E.
Qed.

Lemma has_negative_spec : forall rows,
  has_negative rows = true <-> exists r q, In r rows /\ r_obs r = Some q /\ (q < 0)%Q.
Proof.
  intro rows. unfold has_negative. rewrite existsb_exists. split.
  - intros [r [Hin H]]. destruct (r_obs r) as [q|] eqn:E; [|discriminate H].
    exists r, q. split; [exact Hin|]. split; [exact E|].
    apply negb_true_iff in H. apply Qnot_le_lt. intro Hle. apply Qle_bool_iff in Hle. congruence.
  - intros [r [q [Hin [E Hlt]]]]. exists r. split; [exact Hin|]. rewrite E. apply negb_true_iff.
    destruct (Qle_bool (0 # 1) q) eqn:B; [|reflexivity]. apply Qle_bool_iff in B.
    exfalso. exact (Qlt_not_le _ _ Hlt B).
Qed.

Lemma in_months12 : forall m, In m months12 <-> 1 <= m <= 12.
Proof. intro m. unfold months12. simpl. lia. Qed.

Lemma monthly_bad_spec : forall p present rows, p_cov_num p = 9 -> p_cov_den p = 10 ->
  (monthly_bad p present rows = true <-> some_month_under90 present rows).
Proof.
  intros p present rows Hn Hd. unfold monthly_bad, some_month_under90. rewrite existsb_exists. split.
  - intros [m [Hin H]]. exists m. split; [apply in_months12; exact Hin|].
    unfold month_under in H. rewrite Hn, Hd in H. apply Z.ltb_lt in H. exact H.
  - intros [m [Hm H]]. exists m. split; [apply in_months12; exact Hm|].
    unfold month_under. rewrite Hn, Hd. apply Z.ltb_lt. exact H.
Qed.

Lemma valid_temp_row_spec : forall p r, p_tcov_num p = 9 -> p_tcov_den p = 10 -> valid_temp_row p r = temp_valid90 r.
Proof. intros p r Hn Hd. unfold valid_temp_row, temp_valid90. rewrite Hn, Hd. reflexivity. Qed.

Lemma valid_secs_ext : forall v v' rows, (forall r, v r = v' r) -> valid_secs v rows = valid_secs v' rows.
Proof. intros v v' rows H. unfold valid_secs. rewrite (map_ext v v' H). reflexivity. Qed.

(* ------------------------------------------------------------------ membership in the reported set *)

Definition offcycle_dq (p : params) (f : family) (cx : ctx) : bool := is_billing f && x_offcycle cx && p_offcycle_dq p.

Lemma dataclass_accepts : forall p f w el cx fr,
  is_reporting_flag p f w = true \/ f_has_obs fr = true ->
  exists dq ws, dataclass p f w el cx fr = Accepted dq ws.
Proof.
  intros p f w el cx fr H. unfold dataclass, dataclass_with_counts.
  assert (E : negb (is_reporting_flag p f w) && negb (f_has_obs fr) = false).
  { destruct H as [H|H]; rewrite H; simpl; [reflexivity|apply andb_false_r]. }
  rewrite E. destruct (run_sequence _ _ _ _ _ _) as [dq ws]. eexists. eexists. reflexivity.
Qed.

Lemma dataclass_raises : forall p f w el cx fr e,
  dataclass p f w el cx fr = Raised e <-> e = AttributeError /\ is_reporting_flag p f w = false /\ f_has_obs fr = false.
Proof.
  intros p f w el cx fr e. unfold dataclass, dataclass_with_counts.
  destruct (is_reporting_flag p f w) eqn:Er; destruct (f_has_obs fr) eqn:Eo; cbn [negb andb];
    try (destruct (run_sequence _ _ _ _ _ _) as [dq ws]; split; [discriminate|intros [_ [? ?]]; discriminate]).
  split; [intro H; injection H as <-; tauto|intros [-> _]; reflexivity].
Qed.

Lemma in_dq_of_dataclass : forall p f w el cx fr n,
  is_reporting_flag p f w = true \/ f_has_obs fr = true ->
  (In n (dq_of (dataclass p f w el cx fr)) <->
   (exists k, check_of n = Some k /\ In k (sequence_of p f w) /\
      check_cond p (is_reporting_flag p f w) (electric_flag f w el) fr
                 (compute_counts p (is_reporting_flag p f w) fr) k = true)
   \/ (n = OffcycleReads /\ offcycle_dq p f cx = true)).
Proof.
  intros p f w el cx fr n H. unfold dataclass, dataclass_with_counts.
  assert (E : negb (is_reporting_flag p f w) && negb (f_has_obs fr) = false).
  { destruct H as [H|H]; rewrite H; simpl; [reflexivity|apply andb_false_r]. }
  rewrite E.
  pose proof (in_run_sequence_dq p (is_reporting_flag p f w) (electric_flag f w el) fr
                (compute_counts p (is_reporting_flag p f w) fr) (sequence_of p f w) n) as Hseq.
  destruct (run_sequence p (is_reporting_flag p f w) (electric_flag f w el) fr
              (compute_counts p (is_reporting_flag p f w) fr) (sequence_of p f w)) as [dq ws] eqn:Ers.
  cbn [fst] in Hseq. cbn [dq_of]. rewrite in_canon_dq, in_app_iff, Hseq.
  unfold offcycle_dq. split.
  - intros [Hl|Hr]; [left; exact Hl|]. right.
    destruct (is_billing f && x_offcycle cx && p_offcycle_dq p) eqn:Eo; [|contradiction].
    destruct Hr as [<-|[]]. split; reflexivity.
  - intros [Hl|[-> Ho]]; [left; exact Hl|]. right.
    rewrite Ho. left. reflexivity.
Qed.

Lemma nodup_dq_of_dataclass : forall p f w el cx fr, NoDup (dq_of (dataclass p f w el cx fr)).
Proof.
  intros. unfold dataclass, dataclass_with_counts.
  destruct (negb (is_reporting_flag p f w) && negb (f_has_obs fr)); [constructor|].
  destruct (run_sequence _ _ _ _ _ _) as [dq ws]. cbn [dq_of]. apply nodup_canon_dq.
Qed.

(* ------------------------------------------------------------------ baseline: reported set = violated criteria *)

Lemma compute_counts_baseline : forall p fr, p_tcov_num p = 9 -> p_tcov_den p = 10 ->
  compute_counts p false fr =
  {| c_total := span_of (complete fr) (f_rows fr);
     c_valid := whole_days (fun r => usage_present r && temp_valid90 r) (f_rows fr);
     c_meter := whole_days usage_present (f_rows fr);
     c_temp := whole_days temp_valid90 (f_rows fr) |}.
Proof.
  intros p fr Hn Hd. unfold compute_counts, whole_days. cbn [negb]. f_equal.
  - f_equal. apply valid_secs_ext. intro r. unfold valid_row, valid_meter_row, usage_present.
    rewrite (valid_temp_row_spec p r Hn Hd). reflexivity.
  - f_equal. apply valid_secs_ext. intro r. apply valid_temp_row_spec; assumption.
Qed.

Lemma compute_counts_reporting : forall p fr, p_tcov_num p = 9 -> p_tcov_den p = 10 ->
  compute_counts p true fr =
  {| c_total := span_of (complete fr) (f_rows fr);
     c_valid := whole_days temp_valid90 (f_rows fr);
     c_meter := 0;
     c_temp := whole_days temp_valid90 (f_rows fr) |}.
Proof.
  intros p fr Hn Hd. unfold compute_counts, whole_days. f_equal.
  - f_equal. apply valid_secs_ext. intro r. unfold valid_row. apply valid_temp_row_spec; assumption.
  - f_equal. apply valid_secs_ext. intro r. apply valid_temp_row_spec; assumption.
Qed.

Lemma baseline_membership : forall p f el cx fr n,
  params_ok p = true -> f_has_obs fr = true ->
  (In n (dq_of (dataclass p f Baseline el cx fr)) <->
   violates_baseline f el fr n \/ (n = OffcycleReads /\ offcycle_dq p f cx = true)).
Proof.
  intros p f el cx fr n Hok Hobs. pose proof (params_ok_facts p Hok) as F. destruct F.
  rewrite (in_dq_of_dataclass p f Baseline el cx fr n (or_intror Hobs)).
  cbn [is_reporting_flag sequence_of electric_flag].
  assert (Eel : electric_flag f Baseline el = el) by (destruct f; reflexivity).
  rewrite (compute_counts_baseline p fr pf_tn0 pf_td0).
  assert (Hpos : forall d, span_of (complete fr) (f_rows fr) = Some d -> 1 <= d) by (intros d; apply span_of_pos).
  apply or_iff_compat_r.
  unfold violates_baseline, has_data_baseline.
  split.
  - intros [k [Ho [Hin Hc]]]. apply pf_base0 in Hin.
    destruct n; simpl in Ho; try discriminate Ho; injection Ho as <-; cbn [check_cond c_total c_valid c_meter c_temp negb andb] in Hc.
    + apply negb_true_iff in Hc. apply span_none_iff.
      destruct (span_of (complete fr) (f_rows fr)); [discriminate Hc|reflexivity].
    + apply andb_true_iff in Hc. destruct Hc as [He Hn]. apply negb_true_iff in He.
      split; [exact He|]. apply has_negative_spec. exact Hn.
    + apply (length_bad_spec p _ pf_max0 pf_min0). exact Hc.
    + apply (under_spec p _ _ pf_cn0 pf_cd0 Hpos). exact Hc.
    + apply (under_spec p _ _ pf_cn0 pf_cd0 Hpos). exact Hc.
    + apply (under_spec p _ _ pf_cn0 pf_cd0 Hpos). exact Hc.
    + apply (monthly_bad_spec p _ _ pf_cn0 pf_cd0). exact Hc.
    + split; [destruct f; simpl in Hin; intuition discriminate|].
      apply (monthly_bad_spec p _ _ pf_cn0 pf_cd0). exact Hc.
    + apply andb_true_iff in Hc. destruct Hc as [Hg Hm].
      split; [destruct f; simpl in Hin; intuition discriminate|]. split; [exact Hg|].
      apply (monthly_bad_spec p _ _ pf_cn0 pf_cd0). exact Hm.
  - intro V.
    destruct n; cbn [check_of]; try contradiction.
    + exists CNoData. split; [reflexivity|]. split; [apply pf_base0; destruct f; simpl; tauto|].
      cbn [check_cond c_total]. apply span_none_iff in V. rewrite V. reflexivity.
    + destruct V as [He Hn]. exists CNegative. split; [reflexivity|].
      split; [apply pf_base0; destruct f; simpl; tauto|]. cbn [check_cond negb andb].
      rewrite He. cbn [negb andb]. apply has_negative_spec. exact Hn.
    + exists CLength. split; [reflexivity|]. split; [apply pf_base0; destruct f; simpl; tauto|].
      cbn [check_cond c_total]. apply (length_bad_spec p _ pf_max0 pf_min0). exact V.
    + exists CValidDays. split; [reflexivity|]. split; [apply pf_base0; destruct f; simpl; tauto|].
      cbn [check_cond c_total c_valid]. apply (under_spec p _ _ pf_cn0 pf_cd0 Hpos). exact V.
    + exists CValidMeter. split; [reflexivity|]. split; [apply pf_base0; destruct f; simpl; tauto|].
      cbn [check_cond c_total c_meter negb andb]. apply (under_spec p _ _ pf_cn0 pf_cd0 Hpos). exact V.
    + exists CValidTemp. split; [reflexivity|]. split; [apply pf_base0; destruct f; simpl; tauto|].
      cbn [check_cond c_total c_temp]. apply (under_spec p _ _ pf_cn0 pf_cd0 Hpos). exact V.
    + exists CMonthlyTemp. split; [reflexivity|]. split; [apply pf_base0; destruct f; simpl; tauto|].
      cbn [check_cond]. apply (monthly_bad_spec p _ _ pf_cn0 pf_cd0). exact V.
    + destruct V as [-> V]. exists CMonthlyMeter. split; [reflexivity|]. split; [apply pf_base0; simpl; tauto|].
      cbn [check_cond negb andb]. apply (monthly_bad_spec p _ _ pf_cn0 pf_cd0). exact V.
    + destruct V as [-> [Hg V]]. exists CMonthlyGhi. split; [reflexivity|]. split; [apply pf_base0; simpl; tauto|].
      cbn [check_cond]. rewrite Hg. cbn [andb]. apply (monthly_bad_spec p _ _ pf_cn0 pf_cd0). exact V.
Qed.

(* ------------------------------------------------------------------ reporting *)

Lemma complete_reporting : forall fr, usage_irrelevant fr ->
  forall r, In r (f_rows fr) -> complete fr r = has_data_reporting fr r.
Proof.
  intros fr H r Hin. unfold complete, has_data_reporting.
  assert (E : negb (f_has_obs fr) || is_some (r_obs r) = true).
  { destruct H as [H|H]; [rewrite H; reflexivity|]. rewrite (H r Hin). apply orb_true_r. }
  rewrite E. reflexivity.
Qed.

Lemma reporting_membership : forall p f el cx fr n,
  params_ok p = true -> p_reporting_flag p f = true -> usage_irrelevant fr ->
  (In n (dq_of (dataclass p f Reporting el cx fr)) <->
   violates_reporting f fr n \/ (n = OffcycleReads /\ offcycle_dq p f cx = true)).
Proof.
  intros p f el cx fr n Hok Hflag Hus. pose proof (params_ok_facts p Hok) as F. destruct F.
  assert (Hrep : is_reporting_flag p f Reporting = true) by exact Hflag.
  rewrite (in_dq_of_dataclass p f Reporting el cx fr n (or_introl Hrep)).
  rewrite Hrep. cbn [sequence_of].
  rewrite (compute_counts_reporting p fr pf_tn0 pf_td0).
  assert (Espan : span_of (complete fr) (f_rows fr) = span_of (has_data_reporting fr) (f_rows fr))
    by (apply span_ext; apply complete_reporting; exact Hus).
  rewrite Espan.
  assert (Hpos : forall d, span_of (has_data_reporting fr) (f_rows fr) = Some d -> 1 <= d) by (intros d; apply span_of_pos).
  apply or_iff_compat_r.
  unfold violates_reporting.
  split.
  - intros [k [Ho [Hin Hc]]]. apply pf_rep0 in Hin.
    destruct n; simpl in Ho; try discriminate Ho; injection Ho as <-;
      cbn [check_cond c_total c_valid c_meter c_temp negb andb] in Hc;
      try (exfalso; destruct f; simpl in Hin; intuition discriminate).
    + apply negb_true_iff in Hc. apply span_none_iff.
      destruct (span_of (has_data_reporting fr) (f_rows fr)); [discriminate Hc|reflexivity].
    + apply (under_spec p _ _ pf_cn0 pf_cd0 Hpos). exact Hc.
    + apply (under_spec p _ _ pf_cn0 pf_cd0 Hpos). exact Hc.
    + apply (monthly_bad_spec p _ _ pf_cn0 pf_cd0). exact Hc.
    + apply andb_true_iff in Hc. destruct Hc as [Hg Hm].
      split; [destruct f; simpl in Hin; intuition discriminate|]. split; [exact Hg|].
      apply (monthly_bad_spec p _ _ pf_cn0 pf_cd0). exact Hm.
  - intro V.
    destruct n; cbn [check_of]; try contradiction.
    + exists CNoData. split; [reflexivity|]. split; [apply pf_rep0; destruct f; simpl; tauto|].
      cbn [check_cond c_total]. apply span_none_iff in V. rewrite V. reflexivity.
    + exists CValidDays. split; [reflexivity|]. split; [apply pf_rep0; destruct f; simpl; tauto|].
      cbn [check_cond c_total c_valid]. apply (under_spec p _ _ pf_cn0 pf_cd0 Hpos). exact V.
    + exists CValidTemp. split; [reflexivity|]. split; [apply pf_rep0; destruct f; simpl; tauto|].
      cbn [check_cond c_total c_temp]. apply (under_spec p _ _ pf_cn0 pf_cd0 Hpos). exact V.
    + exists CMonthlyTemp. split; [reflexivity|]. split; [apply pf_rep0; destruct f; simpl; tauto|].
      cbn [check_cond]. apply (monthly_bad_spec p _ _ pf_cn0 pf_cd0). exact V.
    + destruct V as [-> [Hg V]]. exists CMonthlyGhi. split; [reflexivity|]. split; [apply pf_rep0; simpl; tauto|].
      cbn [check_cond]. rewrite Hg. cbn [andb]. apply (monthly_bad_spec p _ _ pf_cn0 pf_cd0). exact V.
Qed.

(* ------------------------------------------------------------------ packaged statements *)

Lemma baseline_dq_exact_l : forall p f el cx fr,
  params_ok p = true -> p_offcycle_dq p = false -> f_has_obs fr = true ->
  exists dq ws, dataclass p f Baseline el cx fr = Accepted dq ws /\ NoDup dq /\
    forall n, In n dq <-> violates_baseline f el fr n.
Proof.
  intros p f el cx fr Hok Hoff Hobs.
  destruct (dataclass_accepts p f Baseline el cx fr (or_intror Hobs)) as [dq [ws E]].
  exists dq, ws. split; [exact E|].
  pose proof (nodup_dq_of_dataclass p f Baseline el cx fr) as Hnd.
  pose proof (fun n => baseline_membership p f el cx fr n Hok Hobs) as Hm.
  rewrite E in Hnd, Hm. cbn [dq_of] in Hnd, Hm. split; [exact Hnd|].
  intro n. rewrite Hm. unfold offcycle_dq. rewrite Hoff, andb_false_r. split; [intros [H|[_ H]]; [exact H|discriminate H]|tauto].
Qed.

Lemma reporting_dq_exact_l : forall p f el cx fr,
  params_ok p = true -> p_offcycle_dq p = false -> p_reporting_flag p f = true -> usage_irrelevant fr ->
  exists dq ws, dataclass p f Reporting el cx fr = Accepted dq ws /\ NoDup dq /\
    forall n, In n dq <-> violates_reporting f fr n.
Proof.
  intros p f el cx fr Hok Hoff Hflag Hus.
  destruct (dataclass_accepts p f Reporting el cx fr (or_introl Hflag)) as [dq [ws E]].
  exists dq, ws. split; [exact E|].
  pose proof (nodup_dq_of_dataclass p f Reporting el cx fr) as Hnd.
  pose proof (fun n => reporting_membership p f el cx fr n Hok Hflag Hus) as Hm.
  rewrite E in Hnd, Hm. cbn [dq_of] in Hnd, Hm. split; [exact Hnd|].
  intro n. rewrite Hm. unfold offcycle_dq. rewrite Hoff, andb_false_r. split; [intros [H|[_ H]]; [exact H|discriminate H]|tauto].
Qed.

(* ------------------------------------------------------------------ the code as it is now (regenerated parameters) *)

Lemma code_params_published : params_ok code_params = true.
Proof. vm_compute. reflexivity. Qed.

Lemma code_min_length : code_min_len = 329 /\ gen_max_baseline_length = 365.
Proof. vm_compute. split; reflexivity. Qed.

Lemma baseline_dq_exact_code_l : forall f el cx fr, f_has_obs fr = true ->
  exists dq ws, dataclass code_params f Baseline el cx fr = Accepted dq ws /\ NoDup dq /\
    forall n, In n dq <->
      violates_baseline f el fr n \/ (n = OffcycleReads /\ f = Billing /\ x_offcycle cx = true /\ gen_offcycle_dq = true).
Proof.
  intros f el cx fr Hobs.
  destruct (dataclass_accepts code_params f Baseline el cx fr (or_intror Hobs)) as [dq [ws E]].
  exists dq, ws. split; [exact E|].
  pose proof (nodup_dq_of_dataclass code_params f Baseline el cx fr) as Hnd.
  pose proof (fun n => baseline_membership code_params f el cx fr n code_params_published Hobs) as Hm.
  rewrite E in Hnd, Hm. cbn [dq_of] in Hnd, Hm. split; [exact Hnd|].
  intro n. rewrite Hm. apply or_iff_compat_l. unfold offcycle_dq. cbn [p_offcycle_dq code_params].
  rewrite !andb_true_iff. split.
  - intros [-> [[Hb Hx] Hg]]. split; [reflexivity|]. split; [destruct f; try discriminate Hb; reflexivity|]. tauto.
  - intros [-> [-> [Hx Hg]]]. split; [reflexivity|]. rewrite Hx, Hg. simpl. tauto.
Qed.

Lemma reporting_dq_exact_code_l : forall f el cx fr, gen_reporting_flag f = true -> usage_irrelevant fr ->
  exists dq ws, dataclass code_params f Reporting el cx fr = Accepted dq ws /\ NoDup dq /\
    forall n, In n dq <->
      violates_reporting f fr n \/ (n = OffcycleReads /\ f = Billing /\ x_offcycle cx = true /\ gen_offcycle_dq = true).
Proof.
  intros f el cx fr Hflag Hus.
  assert (Hf : p_reporting_flag code_params f = true) by exact Hflag.
  destruct (dataclass_accepts code_params f Reporting el cx fr (or_introl Hf)) as [dq [ws E]].
  exists dq, ws. split; [exact E|].
  pose proof (nodup_dq_of_dataclass code_params f Reporting el cx fr) as Hnd.
  pose proof (fun n => reporting_membership code_params f el cx fr n code_params_published Hf Hus) as Hm.
  rewrite E in Hnd, Hm. cbn [dq_of] in Hnd, Hm. split; [exact Hnd|].
  intro n. rewrite Hm. apply or_iff_compat_l. unfold offcycle_dq. cbn [p_offcycle_dq code_params].
  rewrite !andb_true_iff. split.
  - intros [-> [[Hb Hx] Hg]]. split; [reflexivity|]. split; [destruct f; try discriminate Hb; reflexivity|]. tauto.
  - intros [-> [-> [Hx Hg]]]. split; [reflexivity|]. rewrite Hx, Hg. simpl. tauto.
Qed.

(* ------------------------------------------------------------------ warnings never change the verdict *)

Lemma warnings_never_change_verdict_l : forall p f w el cx cx' fr,
  p_offcycle_dq p = false \/ x_offcycle cx = x_offcycle cx' ->
  dq_of (dataclass p f w el cx fr) = dq_of (dataclass p f w el cx' fr).
Proof.
  intros p f w el cx cx' fr H. unfold dataclass, dataclass_with_counts.
  destruct (negb (is_reporting_flag p f w) && negb (f_has_obs fr)); [reflexivity|].
  destruct (run_sequence _ _ _ _ _ _) as [dq ws]. cbn [dq_of].
  destruct H as [H|H]; [rewrite H, !andb_false_r; reflexivity|rewrite H; reflexivity].
Qed.

(* the four warnings are exactly what the context and the extreme-value rule say, whatever the verdict *)
Lemma warnings_spec_l : forall p f w el cx fr dq ws n,
  dataclass p f w el cx fr = Accepted dq ws ->
  (In n ws <->
   match n with
   | ExtremeValues => In CExtreme (sequence_of p f w) /\ is_reporting_flag p f w = false /\ has_extreme (f_rows fr) = true
   | UtcIndex => x_utc cx = true
   | UnverifiableTemperature => is_hourly f = false /\ x_unverifiable cx = true
   | OffcycleWarning => is_billing f = true /\ x_offcycle cx = true /\ p_offcycle_dq p = false
   end).
Proof.
  intros p f w el cx fr dq ws n H. unfold dataclass, dataclass_with_counts in H.
  destruct (negb (is_reporting_flag p f w) && negb (f_has_obs fr)); [discriminate H|].
  destruct (run_sequence p (is_reporting_flag p f w) (electric_flag f w el) fr
              (compute_counts p (is_reporting_flag p f w) fr) (sequence_of p f w)) as [dq0 ws0] eqn:Ers.
  injection H as _ <-. rewrite in_canon_w, !in_app_iff.
  assert (Hws : In n ws0 <-> n = ExtremeValues /\ In CExtreme (sequence_of p f w) /\ is_reporting_flag p f w = false
                              /\ has_extreme (f_rows fr) = true).
  { unfold run_sequence in Ers. injection Ers as _ <-. rewrite in_flat_map. split.
    - intros [k [Hk Hin]]. destruct k; cbn [run_check snd] in Hin; try contradiction.
      destruct (negb (is_reporting_flag p f w) && has_extreme (f_rows fr)) eqn:Ee; [|contradiction].
      destruct Hin as [<-|[]]. apply andb_true_iff in Ee. destruct Ee as [E1 E2]. apply negb_true_iff in E1. tauto.
    - intros [-> [Hk [E1 E2]]]. exists CExtreme. split; [exact Hk|]. cbn [run_check snd]. rewrite E1, E2. left. reflexivity. }
  rewrite Hws.
  destruct n.
  - split; [intros [[_ H]|[H|[H|H]]]; [exact H| | | ]|intro H; left; tauto].
    + destruct (x_utc cx); [destruct H as [H|[]]; discriminate H|contradiction].
    + destruct (negb (is_hourly f) && x_unverifiable cx); [destruct H as [H|[]]; discriminate H|contradiction].
    + destruct (is_billing f && x_offcycle cx && negb (p_offcycle_dq p)); [destruct H as [H|[]]; discriminate H|contradiction].
  - split.
    + intros [[H _]|[H|[H|H]]]; [discriminate H| | | ].
      * destruct (x_utc cx); [reflexivity|contradiction].
      * destruct (negb (is_hourly f) && x_unverifiable cx); [destruct H as [H|[]]; discriminate H|contradiction].
      * destruct (is_billing f && x_offcycle cx && negb (p_offcycle_dq p)); [destruct H as [H|[]]; discriminate H|contradiction].
    + intro H. right. left. rewrite H. left. reflexivity.
  - split.
    + intros [[H _]|[H|[H|H]]]; [discriminate H| | | ].
      * destruct (x_utc cx); [destruct H as [H|[]]; discriminate H|contradiction].
      * destruct (negb (is_hourly f) && x_unverifiable cx); [destruct H as [H|[]]; discriminate H|contradiction].
      * destruct (is_billing f) eqn:Eb; destruct (x_offcycle cx) eqn:Ex; destruct (p_offcycle_dq p) eqn:Eo;
          cbn [andb negb] in H; try contradiction. tauto.
    + intros [Hb [Hx Ho]]. right. right. right. rewrite Hb, Hx, Ho. left. reflexivity.
  - split.
    + intros [[H _]|[H|[H|H]]]; [discriminate H| | | ].
      * destruct (x_utc cx); [destruct H as [H|[]]; discriminate H|contradiction].
      * destruct (is_hourly f) eqn:Eh; destruct (x_unverifiable cx) eqn:Ex; cbn [andb negb] in H; try contradiction. tauto.
      * destruct (is_billing f && x_offcycle cx && negb (p_offcycle_dq p)); [destruct H as [H|[]]; discriminate H|contradiction].
    + intros [Hh Hx]. right. right. left. rewrite Hh, Hx. left. reflexivity.
Qed.
