(* Lemmas about Model/CalTrackFit.v (property C18, extension): temperature bin selection and the hour-of-week
   occupancy rule. Nothing here looks inside the regenerated tables: every statement is for arbitrary temperatures,
   candidate lists, minimum counts, thresholds and residual tables. *)
From Coq Require Import ZArith QArith List Bool String Lia Lqa.
From V Require Import Model.CalTrack Model.CalTrackFit Proofs.CalTrackProofs.
Import ListNotations.

(* ------------------------------------------------------------------------------------------------ *)
(* 1. temperature bin selection                                                                      *)
(* ------------------------------------------------------------------------------------------------ *)

Lemma filter_true : forall (A : Type) (l : list A), filter (fun _ => true) l = l.
Proof. induction l as [ | x l IH ]; [ reflexivity | ]. cbn. rewrite IH. reflexivity. Qed.

Lemma filter_filter : forall (A : Type) (p q : A -> bool) l, filter q (filter p l) = filter (fun x => p x && q x) l.
Proof.
  induction l as [ | x l IH ]; [ reflexivity | ]. cbn [filter]. destruct (p x); cbn [filter andb]; [ | exact IH ].
  destruct (q x); rewrite IH; reflexivity.
Qed.

Lemma filter_select : forall (A : Type) (p : A -> bool) l, filter p l = select (map p l) l.
Proof. induction l as [ | x l IH ]; [ reflexivity | ]. cbn [filter map select]. destruct (p x); rewrite IH; reflexivity. Qed.

Lemma filter_length_le' : forall (A : Type) (p : A -> bool) l, (List.length (filter p l) <= List.length l)%nat.
Proof. induction l as [ | x l IH ]; [ apply le_n | ]. cbn [filter List.length]. destruct (p x); cbn [List.length]; lia. Qed.

Lemma filter_shorter : forall (A : Type) (p : A -> bool) l x, In x l -> p x = false ->
  (List.length (filter p l) < List.length l)%nat.
Proof.
  induction l as [ | y l IH ]; intros x Hin Hp; [ destruct Hin | ].
  cbn [filter List.length]. destruct Hin as [-> | Hin].
  - rewrite Hp. pose proof (filter_length_le' A p l). lia.
  - specialize (IH x Hin Hp). destruct (p y); cbn [List.length]; lia.
Qed.

Section FitBinsProofs.
  Variable temps : list Q.
  Variable minc : nat.

  (* every round of the loop only filters: the result is the candidates under one predicate *)
  Lemma fit_loop_is_filter : forall fuel e, exists p, fit_loop temps minc fuel e = filter p e.
  Proof.
    induction fuel as [ | fuel IH ]; intros e.
    - exists (fun _ => true). cbn. symmetry. apply filter_true.
    - cbn [fit_loop]. destruct (removals temps minc e) as [ | q rm ].
      + exists (fun _ => true). symmetry. apply filter_true.
      + destruct (IH (filter (keeps (q :: rm)) e)) as [p Hp]. eexists. rewrite Hp. apply filter_filter.
  Qed.

  Lemma fit_bins_is_select : forall e, exists flags, fit_bins temps minc e = select flags e.
  Proof. intros e. destruct (fit_loop_is_filter (S (List.length e)) e) as [p Hp]. exists (map p e). unfold fit_bins. rewrite Hp. apply filter_select. Qed.

  Lemma fit_bins_subset : forall e x, In x (fit_bins temps minc e) -> In x e.
  Proof. intros e x. destruct (fit_loop_is_filter (S (List.length e)) e) as [p Hp]. unfold fit_bins. rewrite Hp. intros H. apply filter_In in H. tauto. Qed.

  Lemma fit_bins_increasing : forall e, increasing e -> increasing (fit_bins temps minc e).
  Proof. intros e He. destruct (fit_bins_is_select e) as [flags Hf]. rewrite Hf. apply select_increasing. exact He. Qed.

  (* what is removed is among the endpoints *)
  Lemma mid_removals_in : forall rest l x, In x (mid_removals temps minc l rest) -> In x rest.
  Proof.
    induction rest as [ | r rest IH ]; intros l x H; [ destruct H | ].
    cbn [mid_removals] in H. apply in_app_or in H. destruct H as [H | H].
    - destruct (sparse temps minc (Some l) (Some r)); [ | destruct H ]. destruct H as [<- | []]. left. reflexivity.
    - right. eapply IH. exact H.
  Qed.

  Lemma last_cons_in : forall (l : list Q) a d, In (last (a :: l) d) (a :: l).
  Proof.
    induction l as [ | b l IH ]; intros a d; [ left; reflexivity | ].
    change (last (a :: b :: l) d) with (last (b :: l) d). right. apply IH.
  Qed.

  Lemma last_in : forall (rest : list Q) e0, In (last rest e0) (e0 :: rest).
  Proof. intros [ | r rest ] e0; [ left; reflexivity | right; apply last_cons_in ]. Qed.

  Lemma removals_in : forall e x, In x (removals temps minc e) -> In x e.
  Proof.
    intros [ | e0 rest ] x H; [ destruct H | ]. cbn [removals] in H.
    destruct (sparse temps minc None (Some e0) || sparse temps minc (Some (last rest e0)) None).
    - apply in_app_or in H. destruct H as [H | H].
      + destruct (sparse temps minc None (Some e0)); [ | destruct H ]. destruct H as [<- | []]. left. reflexivity.
      + destruct (sparse temps minc (Some (last rest e0)) None); [ | destruct H ]. destruct H as [<- | []]. apply last_in.
    - right. eapply mid_removals_in. exact H.
  Qed.

  Lemma keeps_false : forall rm x, In x rm -> keeps rm x = false.
  Proof.
    intros rm x H. unfold keeps, memQ. apply negb_false_iff. apply existsb_exists. exists x. split; [ exact H | ].
    apply Qeq_bool_iff. reflexivity.
  Qed.

  (* the loop stops only when nothing is left to remove *)
  Lemma fit_loop_stable : forall fuel e, (List.length e < fuel)%nat -> removals temps minc (fit_loop temps minc fuel e) = [].
  Proof.
    induction fuel as [ | fuel IH ]; intros e Hlen; [ lia | ].
    cbn [fit_loop]. destruct (removals temps minc e) as [ | q rm ] eqn:R; [ exact R | ].
    apply IH.
    assert (Hq : In q e) by (apply removals_in; rewrite R; left; reflexivity).
    pose proof (filter_shorter Q (keeps (q :: rm)) e q Hq (keeps_false (q :: rm) q (or_introl eq_refl))). lia.
  Qed.

  Lemma fit_bins_stable : forall e, removals temps minc (fit_bins temps minc e) = [].
  Proof. intros e. apply fit_loop_stable. lia. Qed.

  Definition enough (c : nat) : Prop := (minc <= c)%nat.

  Lemma mid_removals_nil : forall rest l, mid_removals temps minc l rest = [] -> Forall enough (mid_counts temps l rest).
  Proof.
    induction rest as [ | r rest IH ]; intros l H; [ constructor | ].
    cbn [mid_removals mid_counts] in *. apply app_eq_nil in H. destruct H as [H1 H2].
    constructor; [ | apply IH; exact H2 ].
    unfold sparse in H1. destruct (Nat.ltb (cnt temps (Some l) (Some r)) minc) eqn:E; [ discriminate H1 | ].
    apply Nat.ltb_ge in E. exact E.
  Qed.

  (* nothing to remove: one bin is left (no endpoint), or every bin holds the minimum count *)
  Lemma removals_nil : forall e, removals temps minc e = [] -> e = [] \/ Forall enough (bin_counts temps e).
  Proof.
    intros [ | e0 rest ] H; [ left; reflexivity | right ]. cbn [removals bin_counts] in *.
    unfold sparse in H.
    destruct (Nat.ltb (cnt temps None (Some e0)) minc) eqn:F; [ cbn [orb app] in H; discriminate H | ].
    destruct (Nat.ltb (cnt temps (Some (last rest e0)) None) minc) eqn:L; [ cbn [orb app] in H; discriminate H | ].
    cbn [orb] in H. apply Nat.ltb_ge in F. apply Nat.ltb_ge in L.
    constructor; [ exact F | ]. apply Forall_app. split; [ apply mid_removals_nil; exact H | ].
    constructor; [ exact L | constructor ].
  Qed.

  Lemma fit_bins_min_count : forall e,
    fit_bins temps minc e = [] \/ Forall enough (bin_counts temps (fit_bins temps minc e)).
  Proof. intros e. apply removals_nil. apply fit_bins_stable. Qed.

  (* conversely a list on which every bin holds the minimum is left alone: nothing is merged without need *)
  Lemma mid_counts_enough : forall rest l, Forall enough (mid_counts temps l rest) -> mid_removals temps minc l rest = [].
  Proof.
    induction rest as [ | r rest IH ]; intros l H; [ reflexivity | ].
    cbn [mid_removals mid_counts] in *. inversion H as [ | ? ? Hc Hr ]; subst.
    unfold sparse. unfold enough in Hc. apply Nat.ltb_ge in Hc. rewrite Hc. cbn [app]. apply IH. exact Hr.
  Qed.

  Lemma fit_bins_fixpoint : forall e, Forall enough (bin_counts temps e) -> fit_bins temps minc e = e.
  Proof.
    intros e H. unfold fit_bins. cbn [fit_loop].
    assert (R : removals temps minc e = []).
    { destruct e as [ | e0 rest ]; [ reflexivity | ]. cbn [removals bin_counts] in *.
      inversion H as [ | ? ? Hf Hrest ]; subst. apply Forall_app in Hrest. destruct Hrest as [Hm Hl].
      inversion Hl as [ | ? ? Hl' _ ]; subst.
      unfold sparse. unfold enough in Hf, Hl'. apply Nat.ltb_ge in Hf. apply Nat.ltb_ge in Hl'. rewrite Hf, Hl'. cbn [orb].
      apply mid_counts_enough. exact Hm. }
    rewrite R. reflexivity.
  Qed.

  Lemma bin_counts_length : forall e, List.length (bin_counts temps e) = S (List.length e).
  Proof.
    intros [ | e0 rest ]; [ reflexivity | ]. cbn [bin_counts List.length]. f_equal. rewrite app_length. cbn [List.length].
    assert (M : forall r l, List.length (mid_counts temps l r) = List.length r).
    { induction r as [ | x r IH ]; intros l; [ reflexivity | ]. cbn [mid_counts List.length]. f_equal. apply IH. }
    rewrite M. lia.
  Qed.
End FitBinsProofs.

(* ---- the keep-flag column and back: `[endpoint in bins for endpoint in default_bins]`, later `.index[flags].tolist()` ---- *)
Local Open Scope Q_scope.

Lemma memQ_above : forall a l, Forall (fun x => a < x) l -> forall p, memQ a (filter p l) = false.
Proof.
  intros a l H p. unfold memQ. induction l as [ | y l IH ]; [ reflexivity | ].
  inversion H as [ | ? ? Hy Hl ]; subst. cbn [filter]. destruct (p y); [ | apply IH; exact Hl ].
  cbn [existsb]. rewrite (IH Hl). rewrite orb_false_r.
  destruct (Qeq_bool a y) eqn:E; [ | reflexivity ]. apply Qeq_bool_iff in E. rewrite E in Hy. exfalso. apply (Qlt_irrefl _ Hy).
Qed.

Lemma flags_round_trip : forall l (p : Q -> bool), strictly_increasing l ->
  filter (fun c => memQ c (filter p l)) l = filter p l.
Proof.
  induction l as [ | a l IH ]; intros p H; [ reflexivity | ]. destruct H as [Ha Hl].
  cbn [filter]. destruct (p a) eqn:Pa.
  - unfold memQ at 1. cbn [existsb]. assert (Ea : Qeq_bool a a = true) by (apply Qeq_bool_iff; reflexivity). rewrite Ea. cbn [orb].
    f_equal. transitivity (filter (fun c => memQ c (filter p l)) l); [ | apply IH; exact Hl ]. apply filter_ext_in. intros c Hc.
    unfold memQ. cbn [existsb].
    destruct (Qeq_bool c a) eqn:E; [ | reflexivity ].
    apply Qeq_bool_iff in E. rewrite Forall_forall in Ha. specialize (Ha c Hc). rewrite E in Ha. exfalso. apply (Qlt_irrefl _ Ha).
  - rewrite (memQ_above a l Ha p). apply IH. exact Hl.
Qed.

(* with strictly increasing candidates (normalize leaves them alone), selecting the candidates by the flag column
   gives back exactly the fitted endpoint list *)
Lemma fit_flags_select : forall temps cands minc, normalize cands = cands -> strictly_increasing cands ->
  select (fit_flags temps cands minc) cands = fit_temperature_bins_list temps cands minc.
Proof.
  intros temps cands minc Hn Hs. unfold fit_flags, fit_temperature_bins_list. rewrite Hn.
  destruct (fit_loop_is_filter temps minc (S (List.length cands)) cands) as [p Hp]. unfold fit_bins. rewrite Hp.
  rewrite <- filter_select. apply flags_round_trip. exact Hs.
Qed.

(* ------------------------------------------------------------------------------------------------ *)
(* 2. hour-of-week occupancy                                                                         *)
(* ------------------------------------------------------------------------------------------------ *)

Lemma hours_length : List.length hours_of_week = 168%nat.
Proof. unfold hours_of_week. rewrite map_length, seq_length. reflexivity. Qed.

Lemma occupancy_length : forall b thr rows, List.length (occupancy_lookup b thr rows) = 168%nat.
Proof. intros b thr rows. unfold occupancy_lookup. destruct b; rewrite map_length; apply hours_length. Qed.

Lemma hours_nth : forall h, (0 <= h < 168)%Z -> nth_error hours_of_week (Z.to_nat h) = Some h.
Proof.
  intros h Hh. unfold hours_of_week. rewrite nth_error_map. rewrite nth_error_nth' with (d := O) by (rewrite seq_length; lia).
  rewrite seq_nth by lia. cbn [option_map]. f_equal. lia.
Qed.

(* totality: with data, every one of the 168 hours of the week gets a boolean *)
Lemma occupancy_total : forall thr rows h, (0 <= h < 168)%Z ->
  nth_error (occupancy_lookup false thr rows) (Z.to_nat h) = Some (Some (occupied_flag thr rows h)).
Proof. intros thr rows h Hh. unfold occupancy_lookup. rewrite nth_error_map. rewrite (hours_nth h Hh). reflexivity. Qed.

Lemma occupancy_no_data : forall thr rows h, (0 <= h < 168)%Z ->
  nth_error (occupancy_lookup true thr rows) (Z.to_nat h) = Some None.
Proof. intros thr rows h Hh. unfold occupancy_lookup. rewrite nth_error_map. rewrite (hours_nth h Hh). reflexivity. Qed.

(* the rule: occupied iff the fraction of positive residuals exceeds the threshold *)
Lemma occupied_iff_ratio : forall thr rows h, (0 < n_residuals rows h)%nat ->
  (occupied_flag thr rows h = true <-> thr < ratio (n_positive rows h) (n_residuals rows h)).
Proof.
  intros thr rows h Hn. unfold occupied_flag, flag_q. destruct (n_residuals rows h) as [ | n ] eqn:E; [ lia | ]. apply Qltb_true.
Qed.

Lemma occupied_without_residuals : forall thr rows h, n_residuals rows h = O -> occupied_flag thr rows h = true.
Proof. intros thr rows h Hn. unfold occupied_flag, flag_q. rewrite Hn. reflexivity. Qed.

(* the same without division: p positive residuals out of n > 0 *)
Lemma ratio_gt_iff : forall thr p n, (0 < n)%nat ->
  (thr < ratio p n <-> thr * inject_Z (Z.of_nat n) < inject_Z (Z.of_nat p)).
Proof.
  intros thr p n Hn. unfold ratio.
  assert (Hpos : 0 < inject_Z (Z.of_nat n)) by (change 0 with (inject_Z 0); rewrite <- Zlt_Qlt; lia).
  split; intros H.
  - apply (Qmult_lt_r _ _ _ Hpos) in H. rewrite Qmult_comm with (x := inject_Z (Z.of_nat p) / inject_Z (Z.of_nat n)) in H.
    rewrite Qmult_div_r in H; [ exact H | intros E; rewrite E in Hpos; apply (Qlt_irrefl _ Hpos) ].
  - apply (Qmult_lt_r _ _ _ Hpos). rewrite Qmult_comm with (x := inject_Z (Z.of_nat p) / inject_Z (Z.of_nat n)).
    rewrite Qmult_div_r; [ exact H | intros E; rewrite E in Hpos; apply (Qlt_irrefl _ Hpos) ].
Qed.

Lemma n_positive_le : forall rows h, (n_positive rows h <= n_residuals rows h)%nat.
Proof. intros rows h. unfold n_positive, n_residuals. apply filter_length_le'. Qed.
