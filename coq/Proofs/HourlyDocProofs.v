(* Lemmas about stored hourly models (Model/HourlyDoc.v).  The hourly theorems of Properties/C01.v are these. *)
From Coq Require Import ZArith List Bool String PrimFloat Lia.
From V Require Import Model.Json Model.DailyDoc Model.HourlyDoc Proofs.DailyDocProofs.
Import ListNotations.
Open Scope string_scope.

(* ---------------------------------------------------------------- integer keys print and parse back *)

Definition small_keys : list Z := map Z.of_nat (seq 0 1000).

Lemma small_keys_roundtrip :
  forallb (fun n => match Z_of_string (string_of_Z n) with Some m => (m =? n)%Z | None => false end) small_keys = true.
Proof. vm_compute. reflexivity. Qed.

Lemma key_roundtrip : forall n : Z, (0 <= n < 1000)%Z -> Z_of_string (string_of_Z n) = Some n.
Proof.
  intros n Hn. pose proof small_keys_roundtrip as H. rewrite forallb_forall in H.
  assert (Hin : In n small_keys).
  { unfold small_keys. replace n with (Z.of_nat (Z.to_nat n)) by lia. apply in_map. apply in_seq. lia. }
  specialize (H n Hin). destruct (Z_of_string (string_of_Z n)) as [m|]; [|discriminate].
  apply Z.eqb_eq in H. subst. reflexivity.
Qed.

(* ---------------------------------------------------------------- coerce: idempotent *)

Lemma map_key_map_key_same : forall k f g o, map_key k f (map_key k g o) = map_key k (fun v => f (g v)) o.
Proof.
  intros k f g o. induction o as [|[k' v] o IH]; cbn; [reflexivity|].
  destruct (String.eqb k k') eqn:E; cbn; rewrite E; [reflexivity | rewrite IH; reflexivity].
Qed.

Lemma map_key_ext : forall k f g o, (forall v, f v = g v) -> map_key k f o = map_key k g o.
Proof.
  intros k f g o H. induction o as [|[k' v] o IH]; cbn; [reflexivity|].
  destruct (String.eqb k k'); [rewrite H | rewrite IH]; reflexivity.
Qed.

Lemma map_key_comm : forall k k' f g o, String.eqb k k' = false ->
  map_key k f (map_key k' g o) = map_key k' g (map_key k f o).
Proof.
  intros k k' f g o Hk. induction o as [|[k0 v] o IH]; cbn; [reflexivity|].
  destruct (String.eqb k' k0) eqn:E1; destruct (String.eqb k k0) eqn:E2; cbn; rewrite ?E1, ?E2; try reflexivity.
  - apply String.eqb_eq in E1, E2. subst. rewrite String.eqb_refl in Hk. discriminate.
  - rewrite IH. reflexivity.
Qed.

Lemma coerce_path_idem : forall p j, coerce_path p (coerce_path p j) = coerce_path p j.
Proof.
  induction p as [|k p IH]; intros j; cbn.
  - destruct j; reflexivity.
  - destruct j; try reflexivity. cbn. rewrite map_key_map_key_same. f_equal. apply map_key_ext. exact IH.
Qed.

Lemma coerce_nil_comm : forall q j, coerce_path [] (coerce_path q j) = coerce_path q (coerce_path [] j).
Proof.
  intros [|k q] j; [reflexivity|]. destruct j; reflexivity.
Qed.

Lemma coerce_path_comm : forall p q j, coerce_path p (coerce_path q j) = coerce_path q (coerce_path p j).
Proof.
  induction p as [|k p IH]; intros q j.
  - apply coerce_nil_comm.
  - destruct q as [|k' q]; [symmetry; apply coerce_nil_comm|].
    destruct j; try reflexivity. cbn [coerce_path]. f_equal.
    destruct (String.eqb k k') eqn:E.
    + apply String.eqb_eq in E. subst k'. rewrite !map_key_map_key_same. apply map_key_ext. intros v. apply IH.
    + apply map_key_comm. exact E.
Qed.

Lemma coerce_path_coerce : forall ps p j, coerce_path p (coerce ps j) = coerce ps (coerce_path p j).
Proof.
  unfold coerce. induction ps as [|q ps IH]; intros p j; cbn; [reflexivity|].
  rewrite IH. rewrite coerce_path_comm. reflexivity.
Qed.

Lemma coerce_idem : forall ps j, coerce ps (coerce ps j) = coerce ps j.
Proof.
  induction ps as [|p ps IH]; intros j; [reflexivity|].
  change (coerce (p :: ps) j) with (coerce ps (coerce_path p j)).
  change (coerce (p :: ps) (coerce ps (coerce_path p j))) with (coerce ps (coerce_path p (coerce ps (coerce_path p j)))).
  rewrite coerce_path_coerce, coerce_path_idem. apply IH.
Qed.

(* train_features survives the coercion of the float-typed fields (it is not one of them) *)
Lemma get_map_key_other : forall k k' f o, String.eqb k' k = false -> get k' (map_key k f o) = get k' o.
Proof.
  intros k k' f o H. induction o as [|[k0 v] o IH]; cbn; [reflexivity|].
  destruct (String.eqb k k0) eqn:E; cbn.
  - apply String.eqb_eq in E. subst k0. rewrite H. reflexivity.
  - destruct (String.eqb k' k0); [reflexivity | exact IH].
Qed.

Definition path_avoids (k : string) (p : list string) : bool :=
  match p with [] => false | k0 :: _ => negb (String.eqb k k0) end.

Lemma field_coerce_path : forall k p j, path_avoids k p = true -> field k (coerce_path p j) = field k j.
Proof.
  intros k [|k0 p] j H; [discriminate|]. cbn in H. apply negb_true_iff in H.
  destruct j; try reflexivity. cbn. apply get_map_key_other. exact H.
Qed.

Lemma field_coerce : forall k ps j, forallb (path_avoids k) ps = true -> field k (coerce ps j) = field k j.
Proof.
  unfold coerce. induction ps as [|p ps IH]; intros j H; [reflexivity|]. cbn in *.
  apply andb_true_iff in H. destruct H as [H1 H2]. rewrite IH by exact H2. apply field_coerce_path. exact H1.
Qed.

(* ---------------------------------------------------------------- encode / decode of the pieces *)

Lemma parse_floats_doc : forall l, parse_floats (jfloats l) = Some l.
Proof. intros l. unfold parse_floats, jfloats. cbn. apply opt_all_map_inv. reflexivity. Qed.

Lemma parse_strings_doc : forall l, parse_strings (jstrings l) = Some l.
Proof. intros l. unfold parse_strings, jstrings. cbn. apply opt_all_map_inv. reflexivity. Qed.

Lemma parse_triples_doc : forall l : list (Z * Z * Z),
  opt_all (map parse_triple (map (fun r => let '(a, b, c) := r in JArr [JInt a; JInt b; JInt c]) l)) = Some l.
Proof. intros l. apply opt_all_map_inv. intros [[a b] c] _. reflexivity. Qed.

Lemma parse_coeff_entries_doc : forall kv : list (string * float),
  opt_all (map parse_coeff_entry (map (fun p => (fst p, JNum (snd p))) kv)) = Some kv.
Proof. intros kv. apply opt_all_map_inv. intros [k v] _. reflexivity. Qed.

Definition keys_ok (l : list (Z * list (string * float))) : Prop := Forall (fun kv => (0 <= fst kv < 1000)%Z) l.

Lemma parse_edges_doc : forall l, keys_ok l ->
  opt_all (map parse_edge_entry
             (map (fun kv => (string_of_Z (fst kv), JObj (map (fun p => (fst p, JNum (snd p))) (snd kv)))) l)) = Some l.
Proof.
  intros l H. apply opt_all_map_inv. intros [n kv] Hin. unfold keys_ok in H. rewrite Forall_forall in H.
  specialize (H _ Hin). cbn in H. unfold parse_edge_entry. cbn [fst snd].
  rewrite (key_roundtrip n H). rewrite parse_coeff_entries_doc. reflexivity.
Qed.

Lemma scaler_doc_inv : forall ts loc scale fs, scaler_doc ts loc scale = Some fs ->
  List.length loc = List.length ts -> List.length scale = List.length ts ->
  opt_all (map (fun kv : string * json =>
                  match snd kv with
                  | JArr (a :: b :: _) => match as_float a, as_float b with Some x, Some y => Some (x, y) | _, _ => None end
                  | _ => None end) fs) = Some (combine loc scale).
Proof.
  induction ts as [|k ts IH]; intros loc scale fs H Hl Hs.
  - destruct loc, scale; try discriminate. cbn in H. injection H as <-. reflexivity.
  - destruct loc as [|a loc], scale as [|b scale]; try discriminate. cbn in H.
    destruct (scaler_doc ts loc scale) as [r|] eqn:E; [|discriminate]. injection H as <-.
    cbn in Hl, Hs. cbn. rewrite (IH loc scale r E) by lia. reflexivity.
Qed.

Lemma combine_fst : forall (a b : list float), List.length a = List.length b -> map fst (combine a b) = a.
Proof. induction a as [|x a IH]; intros [|y b] H; try discriminate; cbn; [reflexivity|]. rewrite IH by (cbn in H; lia). reflexivity. Qed.
Lemma combine_snd : forall (a b : list float), List.length a = List.length b -> map snd (combine a b) = b.
Proof. induction a as [|x a IH]; intros [|y b] H; try discriminate; cbn; [reflexivity|]. rewrite IH by (cbn in H; lia). reflexivity. Qed.

Lemma parse_coef_doc : forall l : list (list float), opt_all (map parse_floats (map jfloats l)) = Some l.
Proof. intros l. apply opt_all_map_inv. intros x _. apply parse_floats_doc. Qed.

(* looking the stored entries up by name along the SAME order they were written in changes nothing *)
Lemma scaler_doc_keys : forall ts loc scale fs, scaler_doc ts loc scale = Some fs -> map fst fs = map str_config ts.
Proof.
  induction ts as [|k ts IH]; intros loc scale fs H; cbn in H.
  - injection H as <-. reflexivity.
  - destruct loc as [|a loc], scale as [|b scale]; try discriminate.
    destruct (scaler_doc ts loc scale) as [r|] eqn:E; [|discriminate]. injection H as <-. cbn. rewrite (IH _ _ _ E). reflexivity.
Qed.

Lemma reorder_same_order : forall fs : list (string * json), NoDup (map fst fs) -> reorder (map fst fs) fs = Some fs.
Proof.
  unfold reorder. intros fs. induction fs as [|[k v] fs IH]; intros Hnd; cbn; [reflexivity|].
  inversion Hnd as [|? ? Hnotin Hnd']; subst. rewrite String.eqb_refl. cbn.
  assert (E : map (fun k0 => option_map (fun v0 => (k0, v0)) (if String.eqb k0 k then Some v else get k0 fs)) (map fst fs)
              = map (fun k0 => option_map (fun v0 => (k0, v0)) (get k0 fs)) (map fst fs)).
  { apply map_ext_in. intros k0 Hin. destruct (String.eqb k0 k) eqn:Ek; [|reflexivity].
    apply String.eqb_eq in Ek. subst k0. contradiction. }
  rewrite E, (IH Hnd'). reflexivity.
Qed.

(* ---------------------------------------------------------------- the round trip *)

Definition wf_hourly (s : hourly_state) : Prop :=
  Forall wf_warning (hs_warnings s) /\ Forall wf_warning (hs_dq s) /\
  List.length (hs_loc s) = List.length (hs_ts_features s) /\ List.length (hs_scale s) = List.length (hs_ts_features s) /\
  (exists o, hs_metrics s = JObj o) /\
  (exists tf, field "train_features" (hs_settings s) = Some (jstrings tf)) /\
  match hs_edge_coeffs s with Some l => keys_ok l | None => True end.

Definition with_hsettings (s : hourly_state) (st : json) : hourly_state :=
  {| hs_settings := st; hs_clusters := hs_clusters s; hs_bin_edges := hs_bin_edges s; hs_edge_coeffs := hs_edge_coeffs s;
     hs_ts_features := hs_ts_features s; hs_cat_features := hs_cat_features s; hs_loc := hs_loc s; hs_scale := hs_scale s;
     hs_y := hs_y s; hs_coef := hs_coef s; hs_intercept := hs_intercept s; hs_metrics := hs_metrics s;
     hs_warnings := hs_warnings s; hs_dq := hs_dq s; hs_error := hs_error s; hs_tz := hs_tz s; hs_version := hs_version s |}.

Section RoundTrip.
Variable paths : list (list string).

Lemma hourly_from_to_gen : forall null_ok s d, wf_hourly s -> hourly_to_doc s = Some d ->
  hourly_from_doc_gen paths null_ok false d =
  match hs_edge_coeffs s with
  | None => if null_ok then Some (with_hsettings s (coerce paths (hs_settings s))) else None
  | Some _ => Some (with_hsettings s (coerce paths (hs_settings s)))
  end.
Proof.
  intros null_ok [st cl be ec ts cat loc sc [y1 y2] coef ic bm ws dq er tz ver] d.
  unfold wf_hourly, hourly_to_doc, with_hsettings.
  cbn [hs_settings hs_clusters hs_bin_edges hs_edge_coeffs hs_ts_features hs_cat_features hs_loc hs_scale hs_y hs_coef
       hs_intercept hs_metrics hs_warnings hs_dq hs_error hs_tz hs_version].
  intros (Hw & Hdq & Hl & Hs & [mo Hm] & [tf Htf] & Hk) Hd. subst bm.
  destruct (scaler_doc ts loc sc) as [fs|] eqn:Efs; [|discriminate].
  injection Hd as <-. unfold hourly_from_doc_gen.
  cbn [field get String.eqb Ascii.eqb Bool.eqb bind fst snd].
  rewrite Htf. cbn [bind]. rewrite parse_strings_doc. cbn [bind as_arr].
  rewrite parse_triples_doc. cbn [bind]. rewrite parse_floats_doc. cbn [bind].
  assert (Hpairs := scaler_doc_inv _ _ _ _ Efs Hl Hs).
  destruct ec as [l|]; cbn [edge_doc].
  - rewrite (parse_edges_doc l Hk). cbn [option_map bind]. rewrite !parse_strings_doc. cbn [bind as_obj].
    rewrite Hpairs. cbn [bind as_float]. rewrite parse_coef_doc. cbn [bind]. rewrite parse_floats_doc. cbn [bind as_obj].
    rewrite (parse_warnings_doc _ Hw). cbn [bind]. rewrite (parse_warnings_doc _ Hdq). cbn [bind as_string].
    rewrite combine_fst, combine_snd by congruence. reflexivity.
  - destruct null_ok; [|reflexivity]. cbn [bind]. rewrite !parse_strings_doc. cbn [bind as_obj].
    rewrite Hpairs. cbn [bind as_float]. rewrite parse_coef_doc. cbn [bind]. rewrite parse_floats_doc. cbn [bind as_obj].
    rewrite (parse_warnings_doc _ Hw). cbn [bind]. rewrite (parse_warnings_doc _ Hdq). cbn [bind as_string].
    rewrite combine_fst, combine_snd by congruence. reflexivity.
Qed.

(* everything the prediction path reads is restored, up to the int -> float coercion of the settings *)
Lemma inputs_restored : forall s, inputs_of (with_hsettings s (coerce paths (hs_settings s))) =
  {| hi_settings := coerce paths (hs_settings s); hi_clusters := hs_clusters s; hi_bin_edges := hs_bin_edges s;
     hi_edge_coeffs := hs_edge_coeffs s; hi_ts_features := hs_ts_features s; hi_cat_features := hs_cat_features s;
     hi_loc := hs_loc s; hi_scale := hs_scale s; hi_y := hs_y s; hi_coef := hs_coef s;
     hi_intercept := hs_intercept s; hi_tz := hs_tz s; hi_dq := hs_dq s |}.
Proof. reflexivity. Qed.

Lemma with_hsettings_same : forall s, with_hsettings s (hs_settings s) = s.
Proof. intros []. reflexivity. Qed.

Lemma to_doc_with_hsettings : forall s st d, hourly_to_doc s = Some d ->
  exists d', hourly_to_doc (with_hsettings s st) = Some d'.
Proof.
  intros s st d H. unfold hourly_to_doc in *. cbn [with_hsettings hs_ts_features hs_loc hs_scale].
  destruct (scaler_doc (hs_ts_features s) (hs_loc s) (hs_scale s)); [eexists; reflexivity | discriminate].
Qed.

Lemma wf_with_hsettings : forall s, forallb (path_avoids "train_features") paths = true -> wf_hourly s ->
  wf_hourly (with_hsettings s (coerce paths (hs_settings s))).
Proof.
  intros s Hp (Hw & Hdq & Hl & Hs & Hm & [tf Htf] & Hk). unfold wf_hourly, with_hsettings. cbn.
  repeat split; try assumption. exists tf. rewrite field_coerce by exact Hp. exact Htf.
Qed.

(* from_dict as coded on to_dict's document *)
Lemma hourly_from_to : forall s d, wf_hourly s -> hourly_to_doc s = Some d ->
  hourly_from_doc paths d = Some (with_hsettings s (coerce paths (hs_settings s))).
Proof.
  intros s d Hwf Hd. unfold hourly_from_doc. rewrite (hourly_from_to_gen true s d Hwf Hd).
  destruct (hs_edge_coeffs s); reflexivity.
Qed.

(* the reloaded model is a fixed point: serialising and reloading it again gives the same object *)
Lemma hourly_reserialise_l : forall s d, forallb (path_avoids "train_features") paths = true ->
  wf_hourly s -> hourly_to_doc s = Some d ->
  let s' := with_hsettings s (coerce paths (hs_settings s)) in
  hourly_from_doc paths d = Some s' /\
  exists d', hourly_to_doc s' = Some d' /\ hourly_from_doc paths d' = Some s'.
Proof.
  intros s d Hp Hwf Hd s'. split; [exact (hourly_from_to s d Hwf Hd)|].
  destruct (to_doc_with_hsettings s (coerce paths (hs_settings s)) d Hd) as [d' Hd']. exists d'. split; [exact Hd'|].
  rewrite (hourly_from_to s' d' (wf_with_hsettings s Hp Hwf) Hd').
  unfold s'. cbn [with_hsettings hs_settings]. rewrite coerce_idem. reflexivity.
Qed.

Lemma hourly_roundtrip_fields_l : forall s d, wf_hourly s -> hourly_to_doc s = Some d ->
  exists s', hourly_from_doc paths d = Some s' /\
    hs_settings s' = coerce paths (hs_settings s) /\ hs_edge_coeffs s' = hs_edge_coeffs s /\
    hs_clusters s' = hs_clusters s /\ hs_bin_edges s' = hs_bin_edges s /\
    hs_ts_features s' = hs_ts_features s /\ hs_cat_features s' = hs_cat_features s /\
    hs_loc s' = hs_loc s /\ hs_scale s' = hs_scale s /\ hs_y s' = hs_y s /\
    hs_coef s' = hs_coef s /\ hs_intercept s' = hs_intercept s /\ hs_metrics s' = hs_metrics s /\
    hs_tz s' = hs_tz s /\ hs_warnings s' = hs_warnings s /\ hs_dq s' = hs_dq s /\ hs_error s' = hs_error s /\
    hs_version s' = hs_version s.
Proof.
  intros s d Hwf Hd. rewrite (hourly_from_to s d Hwf Hd). eexists. split; [reflexivity|]. repeat split.
Qed.

Definition edge_lookup_opt (n : Z) (e : option (list (Z * list (string * float)))) : option (list (string * float)) :=
  match e with Some l => edge_lookup n l | None => None end.

Lemma hourly_edge_keys_restored_l : forall s d n, wf_hourly s -> hourly_to_doc s = Some d ->
  exists s', hourly_from_doc paths d = Some s' /\
    edge_lookup_opt n (hs_edge_coeffs s') = edge_lookup_opt n (hs_edge_coeffs s).
Proof.
  intros s d n Hwf Hd. destruct (hourly_roundtrip_fields_l s d Hwf Hd) as (s' & Hs & _ & Hedge & _).
  exists s'. split; [exact Hs|]. rewrite Hedge. reflexivity.
Qed.

(* every feature gets its own (location, scale) back *)
Lemma hourly_scaler_restored_l : forall s d name, wf_hourly s -> hourly_to_doc s = Some d ->
  exists s', hourly_from_doc paths d = Some s' /\ feature_scaler_of s' name = feature_scaler_of s name.
Proof.
  intros s d name Hwf Hd. destruct (hourly_roundtrip_fields_l s d Hwf Hd) as (s' & Hs & _ & _ & _ & _ & Hts & _ & Hl & Hsc & _).
  exists s'. split; [exact Hs|]. unfold feature_scaler_of. rewrite Hts, Hl, Hsc. reflexivity.
Qed.

(* regression witness: the reader before c3a9d07e fails exactly on the models fitted without edge bins *)
Lemma hourly_before_fix : forall s d, wf_hourly s -> hourly_to_doc s = Some d ->
  (hourly_from_doc_before_c3a9d07e paths d = None <-> hs_edge_coeffs s = None).
Proof.
  intros s d Hwf Hd. unfold hourly_from_doc_before_c3a9d07e. rewrite (hourly_from_to_gen false s d Hwf Hd).
  destruct (hs_edge_coeffs s); split; intros H; try reflexivity; discriminate.
Qed.

End RoundTrip.

(* ---------------------------------------------------------------- prediction as a function of its inputs *)

Section Predict.
Variable paths : list (list string).
Variable data result : Type.
(* the numerical prediction path of HourlyModel: an uninterpreted function of exactly the fields it reads *)
Variable predict_fn : hourly_inputs -> data -> result.
(* oracle contract: the path reads the *values* of the settings; an int and the float of the same value (what
   pydantic's re-validation changes) are the same input to it *)
Definition reads_values : Prop :=
  forall i d, predict_fn i d =
              predict_fn {| hi_settings := coerce paths (hi_settings i); hi_clusters := hi_clusters i;
                            hi_bin_edges := hi_bin_edges i; hi_edge_coeffs := hi_edge_coeffs i;
                            hi_ts_features := hi_ts_features i; hi_cat_features := hi_cat_features i;
                            hi_loc := hi_loc i; hi_scale := hi_scale i; hi_y := hi_y i; hi_coef := hi_coef i;
                            hi_intercept := hi_intercept i; hi_tz := hi_tz i; hi_dq := hi_dq i |} d.

Lemma hourly_predict_restored_l : reads_values -> forall s d, wf_hourly s -> hourly_to_doc s = Some d ->
  exists s', hourly_from_doc paths d = Some s' /\
             forall x, predict_fn (inputs_of s') x = predict_fn (inputs_of s) x.
Proof.
  intros Hrv s d Hwf Hd. rewrite (hourly_from_to paths s d Hwf Hd).
  eexists. split; [reflexivity|]. intros x. rewrite (Hrv (inputs_of s) x). reflexivity.
Qed.
End Predict.
