(* Lemmas about Model/Windows.v (C20). *)
From Coq Require Import ZArith List Bool Lia Sorted.
From V Require Import Model.Windows.
Import ListNotations.
Open Scope Z_scope.

Definition sorted (d : list row) : Prop := StronglySorted (fun a b => ts a < ts b) d.

(* ---------- basic facts ---------- *)

Lemma blank_last_ts : forall d, map ts (blank_last d) = map ts d.
Proof.
  induction d as [|a [|b d'] IH]; [reflexivity | reflexivity |].
  change (blank_last (a :: b :: d')) with (a :: blank_last (b :: d')).
  cbn [map]. f_equal. exact IH.
Qed.

Lemma In_blank_last_ts : forall d r, In r (blank_last d) -> exists r', In r' d /\ ts r' = ts r.
Proof.
  intros d r H.
  assert (Hin : In (ts r) (map ts (blank_last d))) by (apply in_map; exact H).
  rewrite blank_last_ts in Hin. apply in_map_iff in Hin.
  destruct Hin as [r' [E I]]. exists r'. split; assumption.
Qed.

Lemma blank_last_length : forall d, length (blank_last d) = length d.
Proof. intros d. rewrite <- (map_length ts), blank_last_ts, map_length. reflexivity. Qed.

(* every row but the last is returned unchanged, the last one is blanked *)
Lemma blank_last_app : forall d r, blank_last (d ++ [r]) = d ++ [blank r].
Proof.
  induction d as [|a d IH]; intros r; [reflexivity|].
  cbn [app]. destruct d as [|b d']; [reflexivity|].
  change (blank_last (a :: (b :: d') ++ [r])) with (a :: blank_last ((b :: d') ++ [r])).
  rewrite IH. reflexivity.
Qed.

Lemma filter_all_false : forall (A : Type) (p : A -> bool) l,
  Forall (fun x => p x = false) l -> filter p l = [].
Proof. induction 1 as [|x l Hx _ IH]; cbn [filter]; [reflexivity | rewrite Hx; exact IH]. Qed.

Lemma filter_all_true : forall (A : Type) (p : A -> bool) l,
  Forall (fun x => p x = true) l -> filter p l = l.
Proof. induction 1 as [|x l Hx _ IH]; cbn [filter]; [reflexivity | rewrite Hx, IH; reflexivity]. Qed.

Lemma sorted_inv : forall a d, sorted (a :: d) -> sorted d /\ Forall (fun b => ts a < ts b) d.
Proof. intros a d H. inversion H; subst. split; assumption. Qed.

Lemma sorted_app_l : forall d1 d2, sorted (d1 ++ d2) -> sorted d1.
Proof.
  induction d1 as [|a d1 IH]; intros d2 H; [constructor|].
  cbn [app] in H. apply sorted_inv in H. destruct H as [H1 H2].
  constructor; [eapply IH; exact H1|].
  apply Forall_app in H2. tauto.
Qed.

Lemma sorted_app_r : forall d1 d2, sorted (d1 ++ d2) -> sorted d2.
Proof.
  induction d1 as [|a d1 IH]; intros d2 H; [exact H|].
  cbn [app] in H. apply sorted_inv in H. apply IH. tauto.
Qed.

(* ---------- label slices of a sorted index are a prefix / a suffix ---------- *)

Lemma slice_to_prefix : forall e d, sorted d ->
  exists post, d = slice_to e d ++ post /\ Forall (fun r => e < ts r) post.
Proof.
  intros e. induction d as [|a d IH]; intros Hs.
  - exists []. split; [reflexivity | constructor].
  - apply sorted_inv in Hs. destruct Hs as [Hs Ha].
    unfold slice_to. cbn [filter]. destruct (ts a <=? e) eqn:E.
    + destruct (IH Hs) as [post [E1 E2]]. exists post. split; [|exact E2].
      cbn [app]. f_equal. exact E1.
    + apply Z.leb_gt in E.
      assert (Hall : Forall (fun r => e < ts r) d).
      { eapply Forall_impl; [|exact Ha]. cbn. intros; lia. }
      rewrite filter_all_false.
      * exists (a :: d). split; [reflexivity | constructor; assumption].
      * eapply Forall_impl; [|exact Hall]. cbn. intros r Hr. apply Z.leb_gt. exact Hr.
Qed.

Lemma slice_from_suffix : forall s d, sorted d ->
  exists pre, d = pre ++ slice_from s d /\ Forall (fun r => ts r < s) pre.
Proof.
  intros s. induction d as [|a d IH]; intros Hs.
  - exists []. split; [reflexivity | constructor].
  - apply sorted_inv in Hs. destruct Hs as [Hs Ha].
    unfold slice_from. cbn [filter]. destruct (s <=? ts a) eqn:E.
    + apply Z.leb_le in E. rewrite filter_all_true.
      * exists []. split; [reflexivity | constructor].
      * eapply Forall_impl; [|exact Ha]. cbn. intros r Hr. apply Z.leb_le. lia.
    + apply Z.leb_gt in E. destruct (IH Hs) as [pre [E1 E2]].
      exists (a :: pre). split; [cbn [app]; f_equal; exact E1 | constructor; assumption].
Qed.

Lemma slice_to_sorted : forall e d, sorted d -> sorted (slice_to e d).
Proof.
  intros e d Hs. destruct (slice_to_prefix e d Hs) as [post [E _]].
  rewrite E in Hs. eapply sorted_app_l. exact Hs.
Qed.

Lemma slice_from_sorted : forall s d, sorted d -> sorted (slice_from s d).
Proof.
  intros s d Hs. destruct (slice_from_suffix s d Hs) as [pre [E _]].
  rewrite E in Hs. eapply sorted_app_r. exact Hs.
Qed.

Lemma In_slice_to : forall e d r, In r (slice_to e d) <-> In r d /\ ts r <= e.
Proof. intros. unfold slice_to. rewrite filter_In, Z.leb_le. tauto. Qed.

Lemma In_slice_from : forall s d r, In r (slice_from s d) <-> In r d /\ s <= ts r.
Proof. intros. unfold slice_from. rewrite filter_In, Z.leb_le. tauto. Qed.

(* ---------- first / last label of a sorted index ---------- *)

Lemma last_ts_spec : forall d a, sorted (a :: d) ->
  ts a <= last_ts d (ts a) /\ (forall r, In r d -> ts r <= last_ts d (ts a)) /\
  In (last_ts d (ts a)) (map ts (a :: d)).
Proof.
  induction d as [|b d IH]; intros a Hs.
  - cbn. split; [lia|]. split; [intros r []| left; reflexivity].
  - apply sorted_inv in Hs. destruct Hs as [Hs Ha].
    cbn [last_ts]. destruct (IH b Hs) as [H1 [H2 H3]].
    assert (Hab : ts a < ts b) by (inversion Ha; assumption).
    split; [lia|]. split.
    + intros r [<-|Hr]; [exact H1 | apply H2; exact Hr].
    + right. exact H3.
Qed.

Lemma last_ts_max : forall d dflt r, sorted d -> In r d -> ts r <= last_ts d dflt.
Proof.
  intros [|a d] dflt r Hs Hr; [destruct Hr|]. cbn [last_ts].
  destruct (last_ts_spec d a Hs) as [H1 [H2 _]].
  destruct Hr as [<-|Hr]; [exact H1 | apply H2; exact Hr].
Qed.

Lemma last_ts_in : forall d dflt, d <> [] -> sorted d -> In (last_ts d dflt) (map ts d).
Proof.
  intros [|a d] dflt Hne Hs; [congruence|]. cbn [last_ts].
  destruct (last_ts_spec d a Hs) as [_ [_ H3]]. exact H3.
Qed.

Lemma first_ts_min : forall d dflt r, sorted d -> In r d -> first_ts d dflt <= ts r.
Proof.
  intros [|a d] dflt r Hs Hr; [destruct Hr|]. cbn [first_ts].
  apply sorted_inv in Hs. destruct Hs as [_ Ha].
  destruct Hr as [<-|Hr]; [lia|]. rewrite Forall_forall in Ha. specialize (Ha r Hr). lia.
Qed.

(* ---------- nearest ---------- *)

Lemma pad_spec : forall d t l, sorted d -> pad d t = Some l ->
  l <= t /\ In l (map ts d) /\ (forall r, In r d -> ts r <= t -> ts r <= l).
Proof.
  intros d t l Hs H. unfold pad in H.
  destruct (slice_to t d) as [|a sl] eqn:E; [discriminate|].
  change (Some (last_ts (a :: sl) 0) = Some l) in H. rewrite <- E in H.
  injection H as <-.
  assert (Hss : sorted (slice_to t d)) by (apply slice_to_sorted; exact Hs).
  assert (Hne : slice_to t d <> []) by (rewrite E; discriminate).
  pose proof (last_ts_in _ 0 Hne Hss) as Hin.
  apply in_map_iff in Hin. destruct Hin as [r0 [E0 Hr0]].
  apply In_slice_to in Hr0. destruct Hr0 as [Hr0 Hle0].
  split; [lia|]. split.
  - rewrite <- E0. apply in_map. exact Hr0.
  - intros r Hr Hle. apply last_ts_max; [exact Hss | apply In_slice_to; tauto].
Qed.

Lemma pad_none : forall d t, pad d t = None -> forall r, In r d -> t < ts r.
Proof.
  intros d t H r Hr. unfold pad in H.
  destruct (slice_to t d) as [|a sl] eqn:E; [|discriminate].
  destruct (Z.ltb_spec t (ts r)) as [Hlt|Hge]; [exact Hlt|].
  assert (Hin : In r (slice_to t d)) by (apply In_slice_to; split; [exact Hr | lia]).
  rewrite E in Hin. destruct Hin.
Qed.

Lemma backfill_spec : forall d t x, sorted d -> backfill d t = Some x ->
  t <= x /\ In x (map ts d) /\ (forall r, In r d -> t <= ts r -> x <= ts r).
Proof.
  intros d t x Hs H. unfold backfill in H.
  destruct (slice_from t d) as [|a sl] eqn:E; [discriminate|].
  injection H as <-.
  assert (Hss : sorted (slice_from t d)) by (apply slice_from_sorted; exact Hs).
  assert (Ha : In a (slice_from t d)) by (rewrite E; left; reflexivity).
  apply In_slice_from in Ha. destruct Ha as [Ha Hle].
  split; [exact Hle|]. split; [apply in_map; exact Ha|].
  intros r Hr Hr'. change (ts a) with (first_ts (a :: sl) 0). rewrite <- E.
  apply first_ts_min; [exact Hss | apply In_slice_from; tauto].
Qed.

Lemma backfill_none : forall d t, backfill d t = None -> forall r, In r d -> ts r < t.
Proof.
  intros d t H r Hr. unfold backfill in H.
  destruct (slice_from t d) as [|a sl] eqn:E; [|discriminate].
  destruct (Z.ltb_spec (ts r) t) as [Hlt|Hge]; [exact Hlt|].
  assert (Hin : In r (slice_from t d)) by (apply In_slice_from; split; [exact Hr | lia]).
  rewrite E in Hin. destruct Hin.
Qed.

(* the label chosen by [nearest] is a label of the index at minimal distance from the target;
   on a tie the later label is chosen *)
Lemma nearest_spec : forall d t n, sorted d -> nearest d t = Some n ->
  In n (map ts d) /\
  (forall r, In r d -> Z.abs (n - t) <= Z.abs (ts r - t)) /\
  (forall r, In r d -> Z.abs (n - t) = Z.abs (ts r - t) -> ts r <= n).
Proof.
  intros d t n Hs H. unfold nearest in H.
  destruct (pad d t) as [l|] eqn:El; destruct (backfill d t) as [x|] eqn:Ex.
  - destruct (pad_spec d t l Hs El) as [L1 [L2 L3]].
    destruct (backfill_spec d t x Hs Ex) as [R1 [R2 R3]].
    destruct (t - l <? x - t) eqn:C; injection H as <-.
    + apply Z.ltb_lt in C. split; [exact L2|]. split.
      * intros r Hr. destruct (Z.le_gt_cases (ts r) t) as [Hc|Hc].
        -- specialize (L3 r Hr Hc). lia.
        -- assert (t <= ts r) by lia. specialize (R3 r Hr H). lia.
      * intros r Hr Heq. destruct (Z.le_gt_cases (ts r) t) as [Hc|Hc].
        -- specialize (L3 r Hr Hc). lia.
        -- assert (t <= ts r) by lia. specialize (R3 r Hr H). lia.
    + apply Z.ltb_ge in C. split; [exact R2|]. split.
      * intros r Hr. destruct (Z.le_gt_cases (ts r) t) as [Hc|Hc].
        -- specialize (L3 r Hr Hc). lia.
        -- assert (t <= ts r) by lia. specialize (R3 r Hr H). lia.
      * intros r Hr Heq. destruct (Z.le_gt_cases (ts r) t) as [Hc|Hc].
        -- specialize (L3 r Hr Hc). lia.
        -- assert (t <= ts r) by lia. specialize (R3 r Hr H). lia.
  - destruct (pad_spec d t l Hs El) as [L1 [L2 L3]]. injection H as <-.
    pose proof (backfill_none d t Ex) as RN.
    split; [exact L2|]. split; intros r Hr; specialize (RN r Hr);
      assert (Hc : ts r <= t) by lia; specialize (L3 r Hr Hc); lia.
  - destruct (backfill_spec d t x Hs Ex) as [R1 [R2 R3]]. injection H as <-.
    pose proof (pad_none d t El) as LN.
    split; [exact R2|]. split; intros r Hr; specialize (LN r Hr);
      assert (Hc : t <= ts r) by lia; specialize (R3 r Hr Hc); lia.
  - discriminate.
Qed.

Lemma nearest_none : forall d t, nearest d t = None -> d = [].
Proof.
  intros [|a d] t H; [reflexivity|]. exfalso. unfold nearest in H.
  destruct (pad (a :: d) t) eqn:El; destruct (backfill (a :: d) t) eqn:Ex;
    try discriminate; [destruct (_ <? _); discriminate|].
  pose proof (pad_none _ _ El a (or_introl eq_refl)).
  pose proof (backfill_none _ _ Ex a (or_introl eq_refl)). lia.
Qed.

(* ---------- the selection before blanking, shared shape of both functions ---------- *)

Definition baseline_before (o : bopts) (data : list row) : list row :=
  match b_end o with Some e => slice_to e data | None => data end.

Definition baseline_start_limit (o : bopts) (data : list row) : option Z :=
  let before := baseline_before o data in
  match baseline_start_target o before with
  | None => None
  | Some t => if b_overshoot o then nearest before t else Some t
  end.

Definition baseline_selection (o : bopts) (data : list row) : list row :=
  match baseline_start_limit o data with
  | Some s => slice_from s (baseline_before o data)
  | None => baseline_before o data
  end.

(* the warnings as the code computes them: against the limits moved by the options *)
Definition baseline_warn_end (o : bopts) (data : list row) : bool :=
  match b_end o, baseline_end_limit o (baseline_before o data) with
  | Some e, Some el => last_ts data e <? el | _, _ => false end.
Definition baseline_warn_start (o : bopts) (data : list row) : bool :=
  match b_start o, baseline_start_limit o data with
  | Some s, Some sl => sl <? first_ts data s | _, _ => false end.

Lemma get_baseline_data_unfold : forall o data,
  get_baseline_data o data =
  match b_max_days o, b_start o with
  | Some _, Some _ => ErrValue
  | _, _ =>
    match baseline_before o data with
    | [] => ErrNoData
    | _ => if all_missing (baseline_selection o data) then ErrNoData
           else Ok (blank_last (baseline_selection o data))
                   (baseline_warn_end o data) (baseline_warn_start o data)
    end
  end.
Proof.
  intros o data. unfold get_baseline_data, baseline_warn_end, baseline_warn_start, baseline_selection,
    baseline_start_limit, baseline_before.
  destruct (b_max_days o); destruct (b_start o); reflexivity.
Qed.

Definition reporting_after (o : ropts) (data : list row) : list row :=
  match r_start o with Some s => slice_from s data | None => data end.

Definition reporting_end_limit (o : ropts) (data : list row) : option Z :=
  let after := reporting_after o data in
  match reporting_end_target o after with
  | None => None
  | Some t => if r_overshoot o then nearest after t else Some t
  end.

Definition reporting_selection (o : ropts) (data : list row) : list row :=
  match reporting_end_limit o data with
  | Some e => slice_to e (reporting_after o data)
  | None => reporting_after o data
  end.

Definition reporting_warn_end (o : ropts) (data : list row) : bool :=
  match r_end o, reporting_end_limit o data with
  | Some e, Some el => last_ts data e <? el | _, _ => false end.
Definition reporting_warn_start (o : ropts) (data : list row) : bool :=
  match r_start o, reporting_start_limit o (reporting_after o data) with
  | Some s, Some sl => sl <? first_ts data s | _, _ => false end.

Lemma get_reporting_data_unfold : forall o data,
  get_reporting_data o data =
  match r_max_days o, r_end o with
  | Some _, Some _ => ErrValue
  | _, _ =>
    match reporting_after o data with
    | [] => ErrNoData
    | _ => if all_missing (reporting_selection o data) then ErrNoData
           else Ok (blank_last (reporting_selection o data))
                   (reporting_warn_end o data) (reporting_warn_start o data)
    end
  end.
Proof.
  intros o data. unfold get_reporting_data, reporting_warn_end, reporting_warn_start, reporting_selection,
    reporting_end_limit, reporting_after.
  destruct (r_max_days o); destruct (r_end o); reflexivity.
Qed.

Lemma baseline_ok_rows : forall o data rows we ws,
  get_baseline_data o data = Ok rows we ws ->
  rows = blank_last (baseline_selection o data) /\
  all_missing (baseline_selection o data) = false /\
  we = baseline_warn_end o data /\
  ws = baseline_warn_start o data.
Proof.
  intros o data rows we ws H. rewrite get_baseline_data_unfold in H.
  destruct (b_max_days o); destruct (b_start o); try discriminate;
    destruct (baseline_before o data); try discriminate;
    destruct (all_missing (baseline_selection o data)); try discriminate;
    injection H as <- <- <-; repeat split; reflexivity.
Qed.

Lemma reporting_ok_rows : forall o data rows we ws,
  get_reporting_data o data = Ok rows we ws ->
  rows = blank_last (reporting_selection o data) /\
  all_missing (reporting_selection o data) = false /\
  we = reporting_warn_end o data /\
  ws = reporting_warn_start o data.
Proof.
  intros o data rows we ws H. rewrite get_reporting_data_unfold in H.
  destruct (r_max_days o); destruct (r_end o); try discriminate;
    destruct (reporting_after o data); try discriminate;
    destruct (all_missing (reporting_selection o data)); try discriminate;
    injection H as <- <- <-; repeat split; reflexivity.
Qed.

Lemma In_baseline_selection : forall o data r,
  In r (baseline_selection o data) ->
  In r data /\ (forall e, b_end o = Some e -> ts r <= e) /\
  (forall s, baseline_start_limit o data = Some s -> s <= ts r).
Proof.
  intros o data r H. unfold baseline_selection in H.
  assert (Hb : In r (baseline_before o data) -> In r data /\ (forall e, b_end o = Some e -> ts r <= e)).
  { unfold baseline_before. destruct (b_end o) as [e|].
    - intros Hin. apply In_slice_to in Hin. split; [tauto|]. intros e' E. injection E as <-. tauto.
    - intros Hin. split; [exact Hin | discriminate]. }
  destruct (baseline_start_limit o data) as [s|].
  - apply In_slice_from in H. destruct H as [H1 H2]. destruct (Hb H1) as [H3 H4].
    split; [exact H3|]. split; [exact H4|]. intros s' E. injection E as <-. exact H2.
  - destruct (Hb H) as [H3 H4]. split; [exact H3|]. split; [exact H4 | discriminate].
Qed.

Lemma In_reporting_selection : forall o data r,
  In r (reporting_selection o data) ->
  In r data /\ (forall s, r_start o = Some s -> s <= ts r) /\
  (forall e, reporting_end_limit o data = Some e -> ts r <= e).
Proof.
  intros o data r H. unfold reporting_selection in H.
  assert (Hb : In r (reporting_after o data) -> In r data /\ (forall s, r_start o = Some s -> s <= ts r)).
  { unfold reporting_after. destruct (r_start o) as [s|].
    - intros Hin. apply In_slice_from in Hin. split; [tauto|]. intros s' E. injection E as <-. tauto.
    - intros Hin. split; [exact Hin | discriminate]. }
  destruct (reporting_end_limit o data) as [e|].
  - apply In_slice_to in H. destruct H as [H1 H2]. destruct (Hb H1) as [H3 H4].
    split; [exact H3|]. split; [exact H4|]. intros e' E. injection E as <-. exact H2.
  - destruct (Hb H) as [H3 H4]. split; [exact H3|]. split; [exact H4 | discriminate].
Qed.

(* ---------- contiguity ---------- *)

Lemma baseline_selection_contiguous : forall o data, sorted data ->
  exists pre post, data = pre ++ baseline_selection o data ++ post.
Proof.
  intros o data Hs.
  assert (Hb : exists post, data = baseline_before o data ++ post /\ sorted (baseline_before o data)).
  { unfold baseline_before. destruct (b_end o) as [e|].
    - destruct (slice_to_prefix e data Hs) as [post [E _]]. exists post. split; [exact E|].
      apply slice_to_sorted. exact Hs.
    - exists []. rewrite app_nil_r. split; [reflexivity | exact Hs]. }
  destruct Hb as [post [E Hsb]]. unfold baseline_selection.
  destruct (baseline_start_limit o data) as [s|].
  - destruct (slice_from_suffix s _ Hsb) as [pre [E2 _]].
    exists pre, post. rewrite app_assoc, <- E2. exact E.
  - exists [], post. exact E.
Qed.

Lemma reporting_selection_contiguous : forall o data, sorted data ->
  exists pre post, data = pre ++ reporting_selection o data ++ post.
Proof.
  intros o data Hs.
  assert (Hb : exists pre, data = pre ++ reporting_after o data /\ sorted (reporting_after o data)).
  { unfold reporting_after. destruct (r_start o) as [s|].
    - destruct (slice_from_suffix s data Hs) as [pre [E _]]. exists pre. split; [exact E|].
      apply slice_from_sorted. exact Hs.
    - exists []. split; [reflexivity | exact Hs]. }
  destruct Hb as [pre [E Hsb]]. unfold reporting_selection.
  destruct (reporting_end_limit o data) as [e|].
  - destruct (slice_to_prefix e _ Hsb) as [post [E2 _]].
    exists pre, post. rewrite <- E2. exact E.
  - exists pre, []. rewrite app_nil_r. exact E.
Qed.

Lemma all_missing_false_nonempty : forall d, all_missing d = false -> d <> [].
Proof. intros [|a d] H; [discriminate | discriminate]. Qed.

Lemma all_missing_false_complete : forall d, all_missing d = false <-> exists r, In r d /\ complete r = true.
Proof.
  induction d as [|a d IH]; cbn [all_missing forallb].
  - split; [discriminate | intros [r [[] _]]].
  - change (forallb (fun r => negb (complete r)) d) with (all_missing d).
    destruct (complete a) eqn:C; cbn [negb andb].
    + split; [intros _; exists a; split; [left; reflexivity | exact C] | reflexivity].
    + rewrite IH. split; intros [r [Hr Hc]].
      * exists r. split; [right; exact Hr | exact Hc].
      * destruct Hr as [<-|Hr]; [congruence|]. exists r. split; assumption.
Qed.

(* ---------- property-level lemmas ---------- *)

Lemma In_rows_selection : forall sel r, In r (blank_last sel) -> exists r', In r' sel /\ ts r' = ts r.
Proof. exact In_blank_last_ts. Qed.

Lemma baseline_no_leak_l : forall o data rows we ws e,
  get_baseline_data o data = Ok rows we ws -> b_end o = Some e ->
  forall r, In r rows -> ts r <= e.
Proof.
  intros o data rows we ws e H He r Hr.
  apply baseline_ok_rows in H. destruct H as [-> _].
  apply In_rows_selection in Hr. destruct Hr as [r' [Hr' <-]].
  apply In_baseline_selection in Hr'. destruct Hr' as [_ [H2 _]]. apply H2. exact He.
Qed.

Lemma reporting_no_leak_l : forall o data rows we ws s,
  get_reporting_data o data = Ok rows we ws -> r_start o = Some s ->
  forall r, In r rows -> s <= ts r.
Proof.
  intros o data rows we ws s H He r Hr.
  apply reporting_ok_rows in H. destruct H as [-> _].
  apply In_rows_selection in Hr. destruct Hr as [r' [Hr' <-]].
  apply In_reporting_selection in Hr'. destruct Hr' as [_ [H2 _]]. apply H2. exact He.
Qed.

(* effective end: the requested end, or the last reading at or before it (ignore-gap option) *)
Lemma baseline_end_limit_cases : forall o data e eff, sorted data ->
  b_end o = Some e -> baseline_before o data <> [] ->
  baseline_end_limit o (baseline_before o data) = Some eff ->
  (eff = e \/ (b_ignore_gap o = true /\ In eff (map ts data) /\ eff <= e /\
               forall r, In r data -> ts r <= e -> ts r <= eff)).
Proof.
  intros o data e eff Hs He Hne H. unfold baseline_end_limit in H. rewrite He in H.
  destruct (b_ignore_gap o && _) eqn:C; injection H as <-; [|left; reflexivity].
  right. apply andb_prop in C. destruct C as [C _]. split; [exact C|].
  unfold baseline_before in *. rewrite He in *.
  assert (Hss : sorted (slice_to e data)) by (apply slice_to_sorted; exact Hs).
  pose proof (last_ts_in _ e Hne Hss) as Hin. apply in_map_iff in Hin.
  destruct Hin as [r0 [E0 Hr0]]. apply In_slice_to in Hr0. destruct Hr0 as [Hr0 Hle0].
  split; [rewrite <- E0; apply in_map; exact Hr0|]. split; [lia|].
  intros r Hr Hle. apply last_ts_max; [exact Hss | apply In_slice_to; tauto].
Qed.

Lemma baseline_not_too_early_l : forall o data rows we ws e m,
  get_baseline_data o data = Ok rows we ws ->
  b_end o = Some e -> b_max_days o = Some m -> b_overshoot o = false ->
  exists eff, baseline_end_limit o (baseline_before o data) = Some eff /\
    (b_ignore_gap o = false -> eff = e) /\
    forall r, In r rows -> eff - m * DAY <= ts r.
Proof.
  intros o data rows we ws e m H He Hm Hov.
  apply baseline_ok_rows in H. destruct H as [-> _].
  destruct (baseline_end_limit o (baseline_before o data)) as [eff|] eqn:Eeff.
  2:{ unfold baseline_end_limit in Eeff. rewrite He in Eeff. destruct (_ && _); discriminate. }
  exists eff. split; [reflexivity|]. split.
  - intros Hig. unfold baseline_end_limit in Eeff. rewrite He, Hig in Eeff.
    cbn [andb] in Eeff. congruence.
  - intros r Hr. apply In_rows_selection in Hr. destruct Hr as [r' [Hr' <-]].
    apply In_baseline_selection in Hr'. destruct Hr' as [_ [_ H3]]. apply H3.
    unfold baseline_start_limit, baseline_start_target. rewrite Eeff, Hm, Hov. reflexivity.
Qed.

Lemma baseline_overshoot_l : forall o data rows we ws e m, sorted data ->
  get_baseline_data o data = Ok rows we ws ->
  b_end o = Some e -> b_max_days o = Some m -> b_overshoot o = true ->
  exists eff n, baseline_end_limit o (baseline_before o data) = Some eff /\
    In n (map ts data) /\ n <= e /\
    (forall r, In r data -> ts r <= e -> Z.abs (n - (eff - m * DAY)) <= Z.abs (ts r - (eff - m * DAY))) /\
    forall r, In r rows -> n <= ts r.
Proof.
  intros o data rows we ws e m Hs H He Hm Hov.
  apply baseline_ok_rows in H. destruct H as [-> [Hmiss _]].
  destruct (baseline_end_limit o (baseline_before o data)) as [eff|] eqn:Eeff.
  2:{ unfold baseline_end_limit in Eeff. rewrite He in Eeff. destruct (_ && _); discriminate. }
  assert (Hsb : sorted (baseline_before o data)).
  { unfold baseline_before. rewrite He. apply slice_to_sorted. exact Hs. }
  assert (Hlim : baseline_start_limit o data = nearest (baseline_before o data) (eff - m * DAY)).
  { unfold baseline_start_limit, baseline_start_target. rewrite Eeff, Hm, Hov. reflexivity. }
  destruct (nearest (baseline_before o data) (eff - m * DAY)) as [n|] eqn:En.
  - exists eff, n. split; [reflexivity|].
    destruct (nearest_spec _ _ _ Hsb En) as [N1 [N2 _]].
    apply in_map_iff in N1. destruct N1 as [rn [<- Hrn]].
    unfold baseline_before in Hrn, N2. rewrite He in Hrn, N2.
    apply In_slice_to in Hrn. destruct Hrn as [Hrn Hle].
    split; [apply in_map; exact Hrn|]. split; [exact Hle|]. split.
    + intros r Hr Hr'. apply N2. apply In_slice_to. tauto.
    + intros r Hr. apply In_rows_selection in Hr. destruct Hr as [r' [Hr' <-]].
      apply In_baseline_selection in Hr'. destruct Hr' as [_ [_ H3]]. apply H3. exact Hlim.
  - exfalso. apply nearest_none in En. apply all_missing_false_nonempty in Hmiss.
    apply Hmiss. unfold baseline_selection. rewrite Hlim. exact En.
Qed.

Lemma reporting_not_too_late_l : forall o data rows we ws s m,
  get_reporting_data o data = Ok rows we ws ->
  r_start o = Some s -> r_max_days o = Some m -> r_overshoot o = false ->
  exists eff, reporting_start_limit o (reporting_after o data) = Some eff /\
    (r_ignore_gap o = false -> eff = s) /\
    forall r, In r rows -> ts r <= eff + m * DAY.
Proof.
  intros o data rows we ws s m H He Hm Hov.
  apply reporting_ok_rows in H. destruct H as [-> _].
  destruct (reporting_start_limit o (reporting_after o data)) as [eff|] eqn:Eeff.
  2:{ unfold reporting_start_limit in Eeff. rewrite He in Eeff. destruct (r_ignore_gap o); discriminate. }
  exists eff. split; [reflexivity|]. split.
  - intros Hig. unfold reporting_start_limit in Eeff. rewrite He, Hig in Eeff. congruence.
  - intros r Hr. apply In_rows_selection in Hr. destruct Hr as [r' [Hr' <-]].
    apply In_reporting_selection in Hr'. destruct Hr' as [_ [_ H3]]. apply H3.
    unfold reporting_end_limit, reporting_end_target. rewrite Eeff, Hm, Hov. reflexivity.
Qed.

Lemma reporting_start_limit_cases : forall o data s eff, sorted data ->
  r_start o = Some s -> reporting_after o data <> [] ->
  reporting_start_limit o (reporting_after o data) = Some eff ->
  (eff = s \/ (r_ignore_gap o = true /\ In eff (map ts data) /\ s <= eff /\
               forall r, In r data -> s <= ts r -> eff <= ts r)).
Proof.
  intros o data s eff Hs He Hne H. unfold reporting_start_limit in H. rewrite He in H.
  destruct (r_ignore_gap o) eqn:C; injection H as <-; [|left; reflexivity].
  right. split; [reflexivity|].
  unfold reporting_after in *. rewrite He in *.
  assert (Hss : sorted (slice_from s data)) by (apply slice_from_sorted; exact Hs).
  destruct (slice_from s data) as [|a sl] eqn:E; [congruence|]. cbn [first_ts].
  assert (Ha : In a (slice_from s data)) by (rewrite E; left; reflexivity).
  apply In_slice_from in Ha. destruct Ha as [Ha Hle].
  split; [apply in_map; exact Ha|]. split; [exact Hle|].
  intros r Hr Hr'. change (ts a) with (first_ts (a :: sl) 0). rewrite <- E in *.
  apply first_ts_min; [exact Hss | apply In_slice_from; tauto].
Qed.

Lemma reporting_overshoot_l : forall o data rows we ws s m, sorted data ->
  get_reporting_data o data = Ok rows we ws ->
  r_start o = Some s -> r_max_days o = Some m -> r_overshoot o = true ->
  exists eff n, reporting_start_limit o (reporting_after o data) = Some eff /\
    In n (map ts data) /\ s <= n /\
    (forall r, In r data -> s <= ts r -> Z.abs (n - (eff + m * DAY)) <= Z.abs (ts r - (eff + m * DAY))) /\
    forall r, In r rows -> ts r <= n.
Proof.
  intros o data rows we ws s m Hs H He Hm Hov.
  apply reporting_ok_rows in H. destruct H as [-> [Hmiss _]].
  destruct (reporting_start_limit o (reporting_after o data)) as [eff|] eqn:Eeff.
  2:{ unfold reporting_start_limit in Eeff. rewrite He in Eeff. destruct (r_ignore_gap o); discriminate. }
  assert (Hsb : sorted (reporting_after o data)).
  { unfold reporting_after. rewrite He. apply slice_from_sorted. exact Hs. }
  assert (Hlim : reporting_end_limit o data = nearest (reporting_after o data) (eff + m * DAY)).
  { unfold reporting_end_limit, reporting_end_target. rewrite Eeff, Hm, Hov. reflexivity. }
  destruct (nearest (reporting_after o data) (eff + m * DAY)) as [n|] eqn:En.
  - exists eff, n. split; [reflexivity|].
    destruct (nearest_spec _ _ _ Hsb En) as [N1 [N2 _]].
    apply in_map_iff in N1. destruct N1 as [rn [<- Hrn]].
    unfold reporting_after in Hrn, N2. rewrite He in Hrn, N2.
    apply In_slice_from in Hrn. destruct Hrn as [Hrn Hle].
    split; [apply in_map; exact Hrn|]. split; [exact Hle|]. split.
    + intros r Hr Hr'. apply N2. apply In_slice_from. tauto.
    + intros r Hr. apply In_rows_selection in Hr. destruct Hr as [r' [Hr' <-]].
      apply In_reporting_selection in Hr'. destruct Hr' as [_ [_ H3]]. apply H3. exact Hlim.
  - exfalso. apply nearest_none in En. apply all_missing_false_nonempty in Hmiss.
    apply Hmiss. unfold reporting_selection. rewrite Hlim. exact En.
Qed.

(* the returned rows are a contiguous run of the input, unchanged except that the final row is blanked *)
Lemma exists_last_row : forall (d : list row), d <> [] -> exists body l, d = body ++ [l].
Proof. intros d H. destruct (exists_last H) as [body [l E]]. exists body, l. exact E. Qed.

Lemma baseline_contiguous_l : forall o data rows we ws, sorted data ->
  get_baseline_data o data = Ok rows we ws ->
  exists pre body l post, data = pre ++ (body ++ [l]) ++ post /\ rows = body ++ [blank l].
Proof.
  intros o data rows we ws Hs H. apply baseline_ok_rows in H. destruct H as [-> [Hmiss _]].
  destruct (baseline_selection_contiguous o data Hs) as [pre [post E]].
  destruct (exists_last_row _ (all_missing_false_nonempty _ Hmiss)) as [body [l El]].
  exists pre, body, l, post. rewrite <- El. split; [exact E|]. rewrite El. apply blank_last_app.
Qed.

Lemma reporting_contiguous_l : forall o data rows we ws, sorted data ->
  get_reporting_data o data = Ok rows we ws ->
  exists pre body l post, data = pre ++ (body ++ [l]) ++ post /\ rows = body ++ [blank l].
Proof.
  intros o data rows we ws Hs H. apply reporting_ok_rows in H. destruct H as [-> [Hmiss _]].
  destruct (reporting_selection_contiguous o data Hs) as [pre [post E]].
  destruct (exists_last_row _ (all_missing_false_nonempty _ Hmiss)) as [body [l El]].
  exists pre, body, l, post. rewrite <- El. split; [exact E|]. rewrite El. apply blank_last_app.
Qed.

(* warnings: a gap between a requested limit and the data is reported, and only then *)
Lemma last_lt_iff : forall data e, sorted data -> data <> [] ->
  (last_ts data e <? e) = true <-> (forall r, In r data -> ts r < e).
Proof.
  intros data e Hs Hne. rewrite Z.ltb_lt. split.
  - intros H r Hr. pose proof (last_ts_max data e r Hs Hr). lia.
  - intros H. pose proof (last_ts_in data e Hne Hs) as Hin. apply in_map_iff in Hin.
    destruct Hin as [r [<- Hr]]. apply H. exact Hr.
Qed.

Lemma first_gt_iff : forall data s, sorted data -> data <> [] ->
  (s <? first_ts data s) = true <-> (forall r, In r data -> s < ts r).
Proof.
  intros data s Hs Hne. rewrite Z.ltb_lt. split.
  - intros H r Hr. pose proof (first_ts_min data s r Hs Hr). lia.
  - intros H. destruct data as [|a d]; [congruence|]. cbn [first_ts]. apply H. left. reflexivity.
Qed.

Lemma ok_data_nonempty_b : forall o data rows we ws, get_baseline_data o data = Ok rows we ws -> data <> [].
Proof.
  intros o data rows we ws H. apply baseline_ok_rows in H. destruct H as [_ [Hmiss _]].
  apply all_missing_false_complete in Hmiss. destruct Hmiss as [r [Hr _]].
  apply In_baseline_selection in Hr. destruct Hr as [Hr _]. intros ->. destruct Hr.
Qed.

Lemma ok_data_nonempty_r : forall o data rows we ws, get_reporting_data o data = Ok rows we ws -> data <> [].
Proof.
  intros o data rows we ws H. apply reporting_ok_rows in H. destruct H as [_ [Hmiss _]].
  apply all_missing_false_complete in Hmiss. destruct Hmiss as [r [Hr _]].
  apply In_reporting_selection in Hr. destruct Hr as [Hr _]. intros ->. destruct Hr.
Qed.

Definition b_args_ok (o : bopts) : bool :=
  match b_max_days o, b_start o with Some _, Some _ => false | _, _ => true end.
Definition r_args_ok (o : ropts) : bool :=
  match r_max_days o, r_end o with Some _, Some _ => false | _, _ => true end.

(* ---- gap warnings -------------------------------------------------------------------------
   The property: "a gap between the requested limits and the data is always reported".  The code
   compares the data range with the limits *after* the options have moved them, so
     - a warning is never spurious (soundness, all options);
     - it is complete exactly when the option that moves that limit is off
       (end of a baseline: ignore_billing_period_gap_for_day_count; start of a baseline and end of
        a reporting period: allow_billing_period_overshoot; start of a reporting period:
        ignore_billing_period_gap_for_day_count);
     - with the option on, the gap is silently dropped (refuted below by witnesses; the pinned
       test-suite expects this behaviour for the baseline end, so it is recorded, not repaired). *)

Definition gap_end (e : option Z) (data : list row) : Prop :=
  exists x, e = Some x /\ forall r, In r data -> ts r < x.
Definition gap_start (s : option Z) (data : list row) : Prop :=
  exists x, s = Some x /\ forall r, In r data -> x < ts r.

Lemma baseline_start_limit_given : forall o data s, b_args_ok o = true -> b_start o = Some s ->
  baseline_start_target o (baseline_before o data) = Some s.
Proof.
  intros o data s Ha Hs. unfold b_args_ok in Ha. rewrite Hs in Ha.
  unfold baseline_start_target. destruct (b_max_days o); [discriminate|].
  destruct (baseline_end_limit o (baseline_before o data)); exact Hs.
Qed.

Lemma reporting_end_limit_given : forall o data e, r_args_ok o = true -> r_end o = Some e ->
  reporting_end_target o (reporting_after o data) = Some e.
Proof.
  intros o data e Ha He. unfold r_args_ok in Ha. rewrite He in Ha.
  unfold reporting_end_target. destruct (r_max_days o); [discriminate|].
  destruct (reporting_start_limit o (reporting_after o data)); exact He.
Qed.

Lemma ok_args_b : forall o data rows we ws, get_baseline_data o data = Ok rows we ws -> b_args_ok o = true.
Proof.
  intros o data rows we ws H. unfold b_args_ok. unfold get_baseline_data in H.
  destruct (b_max_days o); destruct (b_start o); try reflexivity; discriminate.
Qed.
Lemma ok_args_r : forall o data rows we ws, get_reporting_data o data = Ok rows we ws -> r_args_ok o = true.
Proof.
  intros o data rows we ws H. unfold r_args_ok. unfold get_reporting_data in H.
  destruct (r_max_days o); destruct (r_end o); try reflexivity; discriminate.
Qed.

Lemma ok_before_nonempty : forall o data rows we ws,
  get_baseline_data o data = Ok rows we ws -> baseline_before o data <> [].
Proof.
  intros o data rows we ws H. rewrite get_baseline_data_unfold in H.
  destruct (b_max_days o); destruct (b_start o); try discriminate;
    destruct (baseline_before o data); try discriminate; intros E; discriminate.
Qed.
Lemma ok_after_nonempty : forall o data rows we ws,
  get_reporting_data o data = Ok rows we ws -> reporting_after o data <> [].
Proof.
  intros o data rows we ws H. rewrite get_reporting_data_unfold in H.
  destruct (r_max_days o); destruct (r_end o); try discriminate;
    destruct (reporting_after o data); try discriminate; intros E; discriminate.
Qed.

(* soundness: a warning is only ever issued for a real gap *)
Lemma baseline_gap_sound_l : forall o data rows we ws, sorted data ->
  get_baseline_data o data = Ok rows we ws ->
  (we = true -> gap_end (b_end o) data) /\ (ws = true -> gap_start (b_start o) data).
Proof.
  intros o data rows we ws Hs H. pose proof (ok_data_nonempty_b _ _ _ _ _ H) as Hne.
  pose proof (ok_before_nonempty _ _ _ _ _ H) as Hbne. pose proof (ok_args_b _ _ _ _ _ H) as Ha.
  apply baseline_ok_rows in H. destruct H as [_ [_ [-> ->]]]. split.
  - unfold baseline_warn_end. destruct (b_end o) as [e|] eqn:He; [|discriminate].
    destruct (baseline_end_limit o (baseline_before o data)) as [el|] eqn:El; [|discriminate].
    intros W. apply Z.ltb_lt in W. exists e. split; [reflexivity|].
    destruct (baseline_end_limit_cases o data e el Hs He Hbne El) as [->|[_ [_ [Hle _]]]];
      intros r Hr; pose proof (last_ts_max data e r Hs Hr); lia.
  - unfold baseline_warn_start. destruct (b_start o) as [s|] eqn:Hst; [|discriminate].
    unfold baseline_start_limit. rewrite (baseline_start_limit_given o data s Ha Hst).
    destruct (b_overshoot o).
    + destruct (nearest (baseline_before o data) s) as [n|] eqn:En; [|discriminate].
      intros W. apply Z.ltb_lt in W. exfalso.
      assert (Hsb : sorted (baseline_before o data)).
      { unfold baseline_before. destruct (b_end o); [apply slice_to_sorted|]; exact Hs. }
      destruct (nearest_spec _ _ _ Hsb En) as [Hin _]. apply in_map_iff in Hin.
      destruct Hin as [r [<- Hr]].
      assert (Hrd : In r data).
      { unfold baseline_before in Hr. destruct (b_end o); [apply In_slice_to in Hr; tauto | exact Hr]. }
      pose proof (first_ts_min data s r Hs Hrd). lia.
    + intros W. exists s. split; [reflexivity|]. apply (first_gt_iff data s Hs Hne). exact W.
Qed.

Lemma reporting_gap_sound_l : forall o data rows we ws, sorted data ->
  get_reporting_data o data = Ok rows we ws ->
  (we = true -> gap_end (r_end o) data) /\ (ws = true -> gap_start (r_start o) data).
Proof.
  intros o data rows we ws Hs H. pose proof (ok_data_nonempty_r _ _ _ _ _ H) as Hne.
  pose proof (ok_after_nonempty _ _ _ _ _ H) as Hane. pose proof (ok_args_r _ _ _ _ _ H) as Ha.
  apply reporting_ok_rows in H. destruct H as [_ [_ [-> ->]]]. split.
  - unfold reporting_warn_end. destruct (r_end o) as [e|] eqn:He; [|discriminate].
    unfold reporting_end_limit. rewrite (reporting_end_limit_given o data e Ha He).
    destruct (r_overshoot o).
    + destruct (nearest (reporting_after o data) e) as [n|] eqn:En; [|discriminate].
      intros W. apply Z.ltb_lt in W. exfalso.
      assert (Hsa : sorted (reporting_after o data)).
      { unfold reporting_after. destruct (r_start o); [apply slice_from_sorted|]; exact Hs. }
      destruct (nearest_spec _ _ _ Hsa En) as [Hin _]. apply in_map_iff in Hin.
      destruct Hin as [r [<- Hr]].
      assert (Hrd : In r data).
      { unfold reporting_after in Hr. destruct (r_start o); [apply In_slice_from in Hr; tauto | exact Hr]. }
      pose proof (last_ts_max data e r Hs Hrd). lia.
    + intros W. exists e. split; [reflexivity|]. apply (last_lt_iff data e Hs Hne). exact W.
  - unfold reporting_warn_start. destruct (r_start o) as [s|] eqn:Hst; [|discriminate].
    destruct (reporting_start_limit o (reporting_after o data)) as [sl|] eqn:Sl; [|discriminate].
    intros W. apply Z.ltb_lt in W. exists s. split; [reflexivity|].
    destruct (reporting_start_limit_cases o data s sl Hs Hst Hane Sl) as [->|[_ [_ [Hle _]]]];
      intros r Hr; pose proof (first_ts_min data s r Hs Hr); lia.
Qed.

(* completeness, under the guard that the option moving that limit is off *)
Lemma baseline_gap_warned_partial_l : forall o data rows we ws, sorted data ->
  get_baseline_data o data = Ok rows we ws ->
  (b_ignore_gap o = false -> (we = true <-> gap_end (b_end o) data)) /\
  (b_overshoot o = false -> (ws = true <-> gap_start (b_start o) data)).
Proof.
  intros o data rows we ws Hs H. pose proof (baseline_gap_sound_l _ _ _ _ _ Hs H) as [S1 S2].
  pose proof (ok_data_nonempty_b _ _ _ _ _ H) as Hne. pose proof (ok_args_b _ _ _ _ _ H) as Ha.
  apply baseline_ok_rows in H. destruct H as [_ [_ [Ee Es]]]. split.
  - intros Hig. split; [exact S1|]. intros [e [He Hg]]. rewrite Ee. unfold baseline_warn_end.
    rewrite He. unfold baseline_end_limit. rewrite He, Hig. cbn [andb].
    apply (last_lt_iff data e Hs Hne). exact Hg.
  - intros Hov. split; [exact S2|]. intros [s [Hst Hg]]. rewrite Es. unfold baseline_warn_start.
    rewrite Hst. unfold baseline_start_limit. rewrite (baseline_start_limit_given o data s Ha Hst), Hov.
    apply (first_gt_iff data s Hs Hne). exact Hg.
Qed.

Lemma reporting_gap_warned_partial_l : forall o data rows we ws, sorted data ->
  get_reporting_data o data = Ok rows we ws ->
  (r_overshoot o = false -> (we = true <-> gap_end (r_end o) data)) /\
  (r_ignore_gap o = false -> (ws = true <-> gap_start (r_start o) data)).
Proof.
  intros o data rows we ws Hs H. pose proof (reporting_gap_sound_l _ _ _ _ _ Hs H) as [S1 S2].
  pose proof (ok_data_nonempty_r _ _ _ _ _ H) as Hne. pose proof (ok_args_r _ _ _ _ _ H) as Ha.
  apply reporting_ok_rows in H. destruct H as [_ [_ [Ee Es]]]. split.
  - intros Hov. split; [exact S1|]. intros [e [He Hg]]. rewrite Ee. unfold reporting_warn_end.
    rewrite He. unfold reporting_end_limit. rewrite (reporting_end_limit_given o data e Ha He), Hov.
    apply (last_lt_iff data e Hs Hne). exact Hg.
  - intros Hig. split; [exact S2|]. intros [s [Hst Hg]]. rewrite Es. unfold reporting_warn_start.
    rewrite Hst. unfold reporting_start_limit. rewrite Hst, Hig.
    apply (first_gt_iff data s Hs Hne). exact Hg.
Qed.

(* the dedicated error is raised exactly on an empty selection; nothing else can go wrong *)

Lemma all_missing_true_iff : forall d, all_missing d = true <-> forall r, In r d -> complete r = false.
Proof.
  intros d. unfold all_missing. rewrite forallb_forall. split; intros H r Hr; specialize (H r Hr).
  - destruct (complete r); [discriminate | reflexivity].
  - rewrite H. reflexivity.
Qed.

Lemma baseline_outcome_l : forall o data,
  match get_baseline_data o data with
  | ErrValue => b_args_ok o = false
  | ErrNoData => b_args_ok o = true /\ forall r, In r (baseline_selection o data) -> complete r = false
  | Ok _ _ _ => b_args_ok o = true /\ exists r, In r (baseline_selection o data) /\ complete r = true
  end.
Proof.
  intros o data. rewrite get_baseline_data_unfold. unfold b_args_ok.
  assert (Hsel : baseline_before o data = [] -> baseline_selection o data = []).
  { intros E. unfold baseline_selection. rewrite E. destruct (baseline_start_limit o data); reflexivity. }
  destruct (b_max_days o) as [m|]; destruct (b_start o) as [s|]; try reflexivity;
    (destruct (baseline_before o data) eqn:Eb;
     [ split; [reflexivity | rewrite (Hsel eq_refl); intros r []]
     | destruct (all_missing (baseline_selection o data)) eqn:Em;
       [ split; [reflexivity | apply all_missing_true_iff; exact Em]
       | split; [reflexivity | apply all_missing_false_complete; exact Em] ] ]).
Qed.

Lemma reporting_outcome_l : forall o data,
  match get_reporting_data o data with
  | ErrValue => r_args_ok o = false
  | ErrNoData => r_args_ok o = true /\ forall r, In r (reporting_selection o data) -> complete r = false
  | Ok _ _ _ => r_args_ok o = true /\ exists r, In r (reporting_selection o data) /\ complete r = true
  end.
Proof.
  intros o data. rewrite get_reporting_data_unfold. unfold r_args_ok.
  assert (Hsel : reporting_after o data = [] -> reporting_selection o data = []).
  { intros E. unfold reporting_selection. rewrite E. destruct (reporting_end_limit o data); reflexivity. }
  destruct (r_max_days o) as [m|]; destruct (r_end o) as [s|]; try reflexivity;
    (destruct (reporting_after o data) eqn:Eb;
     [ split; [reflexivity | rewrite (Hsel eq_refl); intros r []]
     | destruct (all_missing (reporting_selection o data)) eqn:Em;
       [ split; [reflexivity | apply all_missing_true_iff; exact Em]
       | split; [reflexivity | apply all_missing_false_complete; exact Em] ] ]).
Qed.
