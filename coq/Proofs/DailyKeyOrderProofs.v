(* C01: a stored document is an unordered JSON object -- the key order of its mappings does not matter to from_dict.
   Lemmas for Properties/C01.v (daily / billing reader of Model/DailyDoc.v). *)
From Coq Require Import ZArith List Bool String PrimFloat Permutation.
From V Require Import Model.Num Model.NumF Model.DailyCurve Model.Json Model.DocSchema Model.DailyDoc Proofs.DailyDocProofs.
Import ListNotations.
Open Scope string_scope.

(* ---------------------------------------------------------------- key order of a stored document is irrelevant *)

(* a lookup does not depend on the order of the entries (keys distinct, as in any JSON object a dict was written to) *)
Lemma get_perm : forall k (o o' : list (string * json)), NoDup (map fst o) -> Permutation o o' -> get k o' = get k o.
Proof.
  intros k o o' Hnd Hp. induction Hp as [|[k0 v0] l l' Hp IH|[k1 v1] [k2 v2] l|l l' l'' Hp1 IH1 Hp2 IH2].
  - reflexivity.
  - cbn. inversion Hnd; subst. destruct (String.eqb k k0); [reflexivity | apply IH; assumption].
  - cbn in *. inversion Hnd as [|? ? Hnotin Hnd']; subst.
    destruct (String.eqb k k2) eqn:E2, (String.eqb k k1) eqn:E1; try reflexivity.
    apply String.eqb_eq in E1, E2. subst. exfalso. apply Hnotin. left. reflexivity.
  - rewrite (IH2 (Permutation_NoDup (Permutation_map fst Hp1) Hnd)). apply IH1. exact Hnd.
Qed.

Lemma field_perm : forall k o o', NoDup (map fst o) -> Permutation o o' -> field k (JObj o') = field k (JObj o).
Proof. intros. cbn. apply get_perm; assumption. Qed.

(* two JSON values that read the same through every key (`same_fields`): what a re-ordering of an object is *)
Definition same_fields (j j' : json) : Prop := forall k, field k j' = field k j.

Lemma perm_same_fields : forall o o', NoDup (map fst o) -> Permutation o o' -> same_fields (JObj o) (JObj o').
Proof. intros o o' H1 H2 k. apply field_perm; assumption. Qed.

Lemma parse_coeffs_order : forall j j', same_fields j j' -> parse_coeffs j' = parse_coeffs j.
Proof. intros j j' H. unfold parse_coeffs, opt_field. rewrite !H. reflexivity. Qed.

Lemma parse_tc_order : forall j j', same_fields j j' -> parse_tc j' = parse_tc j.
Proof. intros j j' H. unfold parse_tc. rewrite !H. reflexivity. Qed.

(* a sub-model entry re-ordered at both levels: its own keys, and the keys of its coefficients and
   temperature_constraints objects *)
Definition optrel {A} (R : A -> A -> Prop) (a b : option A) : Prop :=
  match a, b with Some x, Some y => R x y | None, None => True | _, _ => False end.

Definition same_submodel (j j' : json) : Prop :=
  optrel same_fields (field "coefficients" j) (field "coefficients" j') /\
  optrel same_fields (field "temperature_constraints" j) (field "temperature_constraints" j') /\
  field "f_unc" j' = field "f_unc" j.

Lemma parse_submodel_order : forall k j j', same_submodel j j' -> parse_submodel (k, j') = parse_submodel (k, j).
Proof.
  intros k j j' (Hc & Ht & Hu). unfold parse_submodel. rewrite Hu.
  destruct (field "coefficients" j) as [c|], (field "coefficients" j') as [c'|]; cbn in Hc; try contradiction; cbn [bind]; [|reflexivity].
  rewrite (parse_coeffs_order c c' Hc). destruct (parse_coeffs c); cbn [bind]; [|reflexivity].
  destruct (field "temperature_constraints" j) as [t|], (field "temperature_constraints" j') as [t'|]; cbn in Ht; try contradiction; cbn [bind]; [|reflexivity].
  rewrite (parse_tc_order t t' Ht). reflexivity.
Qed.

Lemma parse_submodel_key : forall k j sm, parse_submodel (k, j) = Some sm -> sm_key sm = k.
Proof.
  intros k j sm H. unfold parse_submodel in H.
  destruct (bind (field "coefficients" j) parse_coeffs) as [c|]; [|discriminate H]. cbn [bind] in H.
  destruct (bind (field "temperature_constraints" j) parse_tc) as [tc|]; [|discriminate H]. cbn [bind] in H.
  destruct (bind (field "f_unc" j) as_float) as [u|]; [|discriminate H]. cbn [bind] in H.
  injection H as <-. reflexivity.
Qed.

(* the sub-model mapping: first-match lookup on the document side corresponds to find_sub on the state side *)
Lemma find_sub_parsed : forall l subs k, opt_all (map parse_submodel l) = Some subs ->
  find_sub k subs = match get k l with Some j => parse_submodel (k, j) | None => None end.
Proof.
  induction l as [|[k0 j0] l IH]; intros subs k H; cbn [map opt_all] in H.
  - injection H as <-. reflexivity.
  - destruct (parse_submodel (k0, j0)) as [sm|] eqn:E; [|discriminate H].
    destruct (opt_all (map parse_submodel l)) as [r|] eqn:Er; [|discriminate H]. injection H as <-.
    pose proof (parse_submodel_key k0 j0 sm E) as Hk.
    cbn [find_sub get]. rewrite Hk. rewrite (String.eqb_sym k k0). destruct (String.eqb k0 k) eqn:Ek.
    + apply String.eqb_eq in Ek. rewrite <- Ek. symmetry. exact E.
    + apply IH. reflexivity.
Qed.

(* every entry of an object with distinct keys is what its key looks up *)
Lemma get_in_nodup : forall (l : list (string * json)) k j, NoDup (map fst l) -> In (k, j) l -> get k l = Some j.
Proof.
  induction l as [|[k0 j0] l IH]; intros k j Hnd Hin; [contradiction|]. inversion Hnd as [|? ? Hnotin Hnd']; subst. cbn.
  destruct Hin as [Heq|Hin].
  - injection Heq as -> ->. rewrite String.eqb_refl. reflexivity.
  - destruct (String.eqb k k0) eqn:E; [|apply IH; assumption].
    apply String.eqb_eq in E. subst. exfalso. apply Hnotin. apply (in_map fst) in Hin. exact Hin.
Qed.

Lemma opt_all_in : forall {A B} (f : A -> option B) l r a, opt_all (map f l) = Some r -> In a l -> exists b, f a = Some b.
Proof.
  intros A B f l. induction l as [|x l IH]; intros r a H Hin; [contradiction|]. cbn in H.
  destruct (f x) as [b|] eqn:E; [|discriminate]. destruct (opt_all (map f l)) as [r'|] eqn:E'; [|discriminate].
  destruct Hin as [<-|Hin]; [exists b; exact E | apply (IH r' a eq_refl Hin)].
Qed.

Lemma opt_all_total : forall {A B} (f : A -> option B) l, (forall a, In a l -> exists b, f a = Some b) -> exists r, opt_all (map f l) = Some r.
Proof.
  intros A B f l. induction l as [|x l IH]; intros H; [exists []; reflexivity|].
  destruct (H x (or_introl eq_refl)) as [b Hb]. destruct IH as [r Hr]; [intros a Ha; apply H; right; exact Ha|].
  exists (b :: r). cbn. rewrite Hb, Hr. reflexivity.
Qed.

(* the two sub-model mappings hold the same entries up to order, each entry up to the order of its own keys *)
Definition same_submodels (l l' : list (string * json)) : Prop :=
  NoDup (map fst l') /\ forall k, optrel same_submodel (get k l) (get k l').

Section KeyOrder.
Variable cur leg : schema.

(* a document d' that reads like d: same settings tree, same info entries, the same sub-models up to key order at all
   three levels.  (Any permutation of the keys of the top-level object, of "info", of the "submodels" mapping, of a
   sub-model entry, of its "coefficients" and of its "temperature_constraints" gives such a d'.) *)
Definition reads_like (d d' : json) : Prop :=
  field "settings" d' = field "settings" d /\
  optrel same_fields (field "info" d) (field "info" d') /\
  exists l l', field "submodels" d = Some (JObj l) /\ field "submodels" d' = Some (JObj l') /\ same_submodels l l'.

(* what stays the same: every sub-model by its key (hence every prediction), the settings, the metadata *)
Definition same_model (s s' : daily_state) : Prop :=
  (forall k, find_sub k (ds_subs s') = find_sub k (ds_subs s)) /\
  (forall k T, predict_sub s' k T = predict_sub s k T) /\
  ds_settings s' = ds_settings s /\ ds_error s' = ds_error s /\ ds_tz s' = ds_tz s /\
  ds_dq s' = ds_dq s /\ ds_warnings s' = ds_warnings s.

Lemma one_class_key_order : forall c d d' s, reads_like d d' -> from_doc_one_class cur leg c d = Some s ->
  exists s', from_doc_one_class cur leg c d' = Some s' /\ same_model s s'.
Proof.
  intros c d d' s (Hst & Hinfo & l & l' & Hl & Hl' & Hnd & Hsubs) H. unfold from_doc_one_class in *.
  rewrite Hst. destruct (field "settings" d) as [st|]; [|discriminate]. cbn [bind] in *.
  destruct (accepts (schema_of cur leg c) st); cbn [negb] in *; [|discriminate].
  rewrite Hl in H. rewrite Hl'. cbn [bind as_obj] in *.
  destruct (opt_all (map parse_submodel l)) as [subs|] eqn:Esubs; [|discriminate]. cbn [bind] in H.
  (* every entry of l' parses, to what the entry of l under the same key parses to *)
  assert (Hall : forall a, In a l' -> exists b, parse_submodel a = Some b).
  { intros [k j'] Hin. pose proof (get_in_nodup l' k j' Hnd Hin) as Hg'. specialize (Hsubs k). rewrite Hg' in Hsubs.
    destruct (get k l) as [j|] eqn:Hg; cbn in Hsubs; [|contradiction].
    rewrite (parse_submodel_order k j j' Hsubs).
    pose proof (find_sub_parsed l subs k Esubs) as Hf. rewrite Hg in Hf.
    (* (k, j) is an entry of l, so it parses *)
    assert (Hin_l : In (k, j) l).
    { clear -Hg. induction l as [|[k0 j0] l IH]; [discriminate|]. cbn in Hg. destruct (String.eqb k k0) eqn:E.
      - apply String.eqb_eq in E. subst. injection Hg as ->. left. reflexivity.
      - right. apply IH. exact Hg. }
    exact (opt_all_in parse_submodel l subs (k, j) Esubs Hin_l). }
  destruct (opt_all_total parse_submodel l' Hall) as [subs' Esubs']. rewrite Esubs'. cbn [bind].
  destruct (field "info" d) as [info|], (field "info" d') as [info'|]; cbn in Hinfo; try contradiction; try discriminate. cbn [bind] in *.
  rewrite !Hinfo.
  destruct (field "error" info) as [err|]; [|discriminate]. cbn [bind] in *.
  destruct (bind (field "baseline_timezone" info) as_string) as [tz|]; [|discriminate]. cbn [bind] in *.
  destruct (parse_warnings (field "disqualification" info)) as [dq|]; [|discriminate]. cbn [bind] in *.
  destruct (parse_warnings (field "warnings" info)) as [ws|]; [|discriminate]. cbn [bind] in *.
  injection H as <-. eexists. split; [reflexivity|].
  assert (Hfind : forall k, find_sub k subs' = find_sub k subs).
  { intros k. rewrite (find_sub_parsed l' subs' k Esubs'), (find_sub_parsed l subs k Esubs). specialize (Hsubs k).
    destruct (get k l) as [j|], (get k l') as [j'|]; cbn in Hsubs; try contradiction; [|reflexivity].
    apply parse_submodel_order. exact Hsubs. }
  unfold same_model. cbn. split; [exact Hfind|]. split; [|repeat split].
  intros k T. unfold predict_sub. cbn. rewrite Hfind. reflexivity.
Qed.

(* the part of from_dict after the settings check *)
Definition rest_of (d st : json) : option daily_state :=
  do subs <- bind (bind (field "submodels" d) as_obj) (fun l => opt_all (map parse_submodel l));
  do info <- field "info" d;
  do err <- field "error" info;
  do tz <- bind (field "baseline_timezone" info) as_string;
  do dq <- parse_warnings (field "disqualification" info);
  do ws <- parse_warnings (field "warnings" info);
  Some {| ds_subs := subs; ds_error := err; ds_tz := tz; ds_dq := dq; ds_warnings := ws; ds_settings := st |}.

Lemma one_class_split : forall c d, from_doc_one_class cur leg c d =
  match field "settings" d with
  | Some st => if accepts (schema_of cur leg c) st then rest_of d st else None
  | None => None
  end.
Proof.
  intros c d. unfold from_doc_one_class, rest_of. destruct (field "settings" d) as [st|]; [|reflexivity]. cbn [bind].
  destruct (accepts (schema_of cur leg c) st); reflexivity.
Qed.

Lemma from_doc_key_order : forall c d d' s, reads_like d d' -> from_doc cur leg c d = Some s ->
  exists s', from_doc cur leg c d' = Some s' /\ same_model s s'.
Proof.
  intros c d d' s Hr H. unfold from_doc in *.
  destruct (from_doc_one_class cur leg c d) as [s0|] eqn:E.
  - injection H as <-. destruct (one_class_key_order c d d' s0 Hr E) as (s' & Hs' & Hm). exists s'. rewrite Hs'. split; [reflexivity | exact Hm].
  - destruct c; [|discriminate].
    destruct (one_class_key_order Billing d d' s Hr H) as (s' & Hs' & Hm).
    assert (Hnone : from_doc_one_class cur leg Daily d' = None).
    { rewrite one_class_split in *. destruct Hr as (Hst & _). rewrite Hst.
      destruct (field "settings" d) as [st|]; [|reflexivity].
      destruct (accepts (schema_of cur leg Daily) st); [|reflexivity].
      (* accepted by the current class: then d would have been read by it, as the legacy class read it *)
      exfalso. destruct (accepts (schema_of cur leg Billing) st); [|discriminate H]. rewrite H in E. discriminate E. }
    rewrite Hnone. exists s'. split; [exact Hs' | exact Hm].
Qed.
End KeyOrder.

(* ---------------------------------------------------------------- re-ordered documents read like the original *)

Lemma same_fields_refl : forall j, same_fields j j.
Proof. intros j k. reflexivity. Qed.

Lemma optrel_same_fields_refl : forall o, optrel same_fields o o.
Proof. intros [j|]; cbn; [apply same_fields_refl | exact I]. Qed.

Lemma same_submodel_refl : forall j, same_submodel j j.
Proof. intros j. repeat split; try apply optrel_same_fields_refl. Qed.

Fixpoint nodupb (l : list string) : bool :=
  match l with [] => true | x :: r => negb (existsb (String.eqb x) r) && nodupb r end.
Lemma nodupb_sound : forall l, nodupb l = true -> NoDup l.
Proof.
  induction l as [|x r IH]; intros H; [constructor|]. cbn in H. apply andb_true_iff in H. destruct H as [H1 H2].
  constructor; [|apply IH; exact H2]. intros Hin. apply negb_true_iff in H1.
  assert (existsb (String.eqb x) r = true) by (apply existsb_exists; exists x; split; [exact Hin | apply String.eqb_refl]). congruence.
Qed.

(* re-ordering the keys of one object (keys distinct) *)
Lemma reorder_same_fields : forall o o', nodupb (map fst o) = true -> Permutation o o' -> same_fields (JObj o) (JObj o').
Proof. intros o o' H Hp. apply perm_same_fields; [apply nodupb_sound; exact H | exact Hp]. Qed.

(* re-ordering the top-level object only *)
Lemma top_level_reads_like : forall o o' l, nodupb (map fst o) = true -> Permutation o o' ->
  get "submodels" o = Some (JObj l) -> nodupb (map fst l) = true -> reads_like (JObj o) (JObj o').
Proof.
  intros o o' l Hnd Hp Hl Hndl. pose proof (reorder_same_fields o o' Hnd Hp) as Hf.
  split; [apply Hf|]. split; [rewrite (Hf "info"); apply optrel_same_fields_refl|].
  exists l, l. split; [exact Hl|]. split; [rewrite (Hf "submodels"); exact Hl|].
  split; [apply nodupb_sound; exact Hndl|]. intros k. destruct (get k l); cbn; [apply same_submodel_refl | exact I].
Qed.

