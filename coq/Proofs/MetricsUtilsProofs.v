(* Lemmas about Model/MetricsUtils.v (exact rationals; no axioms). *)
From Coq Require Import ZArith QArith Qabs Qround Qminmax List Bool Lia Lqa.
From V Require Import Model.Metrics Model.MetricsUtils Proofs.MetricsProofs Proofs.MetricsQuantileProofs.
Import ListNotations.
Open Scope Q_scope.

(* ------------------------------------------------------------------ powers of ten *)

Lemma qpow10_pos : forall k, 0 < qpow10 k.
Proof.
  intros [|p|p]; cbn [qpow10]; [lra| |reflexivity].
  replace 0 with (inject_Z 0) by reflexivity. rewrite <- Zlt_Qlt.
  rewrite Z.pow_pos_fold. apply Z.pow_pos_nonneg; lia.
Qed.

Lemma qpow10_opp : forall k, qpow10 (- k) == / qpow10 k.
Proof.
  intros [|p|p]; cbn [qpow10 Z.opp].
  - reflexivity.
  - rewrite Z.pow_pos_fold. rewrite <- Pos2Z.inj_pow. reflexivity.
  - rewrite Z.pow_pos_fold. rewrite <- Pos2Z.inj_pow. reflexivity.
Qed.

(* ------------------------------------------------------------------ OoM *)

Lemma decade_up_spec : forall fuel a k r, qpow10 k <= a -> decade_up fuel a k = Some r ->
  qpow10 r <= a /\ a < qpow10 (r + 1).
Proof.
  induction fuel as [|f IH]; intros a k r Hk H; [discriminate|]. cbn [decade_up] in H.
  destruct (Qltb a (qpow10 (k + 1))) eqn:E.
  - injection H as <-. apply Qltb_true in E. split; assumption.
  - apply Qltb_false in E. apply (IH a (k + 1)%Z r E H).
Qed.

Lemma decade_down_spec : forall fuel a k r, a < qpow10 (k + 1) -> decade_down fuel a k = Some r ->
  qpow10 r <= a /\ a < qpow10 (r + 1).
Proof.
  induction fuel as [|f IH]; intros a k r Hk H; [discriminate|]. cbn [decade_down] in H.
  destruct (Qle_bool (qpow10 k) a) eqn:E.
  - injection H as <-. apply Qle_bool_iff in E. split; assumption.
  - apply Qle_bool_false in E. apply (IH a (k - 1)%Z r); [|exact H].
    replace (k - 1 + 1)%Z with k by lia. exact E.
Qed.

Lemma decade_spec : forall a k, decade a = Some k -> qpow10 k <= a /\ a < qpow10 (k + 1).
Proof.
  intros a k H. unfold decade in H. destruct (Qle_bool 1 a) eqn:E.
  - apply Qle_bool_iff in E. apply (decade_up_spec 400 a 0%Z k); [exact E|exact H].
  - apply Qle_bool_false in E. apply (decade_down_spec 400 a (-1)%Z k); [exact E|exact H].
Qed.

(* floor: 10^k <= |x| < 10^(k+1) *)
Lemma oom_floor_spec : forall x k, ~ x == 0 -> oom OFloor x = Some k ->
  qpow10 k <= Qabs x /\ Qabs x < qpow10 (k + 1).
Proof.
  intros x k Hx H. unfold oom in H. destruct (Qeq_bool x 0) eqn:Z; [apply Qeq_bool_iff in Z; contradiction|].
  destruct (decade (Qabs x)) as [d|] eqn:D; [|discriminate]. injection H as <-. apply decade_spec. exact D.
Qed.

Lemma oom_zero : forall m x, x == 0 -> oom m x = Some 1%Z.
Proof. intros m x H. unfold oom. apply Qeq_bool_iff in H. rewrite H. reflexivity. Qed.

(* ceil and round relative to the decade k of |x|:
   ceil  = k exactly on a power of ten, k + 1 otherwise;
   round = k when x^2 < 10^(2k+1) (log10|x| < k + 1/2), k + 1 otherwise *)
Lemma oom_ceil_spec : forall x c, ~ x == 0 -> oom OCeil x = Some c ->
  exists k, oom OFloor x = Some k /\ ((c = k /\ Qabs x == qpow10 k) \/ (c = (k + 1)%Z /\ qpow10 k < Qabs x)).
Proof.
  intros x c Hx H. pose proof (oom_floor_spec x) as F. unfold oom in *.
  destruct (Qeq_bool x 0) eqn:Z; [apply Qeq_bool_iff in Z; contradiction|].
  destruct (decade (Qabs x)) as [k|] eqn:D; [|discriminate]. exists k. split; [reflexivity|].
  destruct (F k Hx eq_refl) as [F1 _].
  destruct (Qeq_bool (Qabs x) (qpow10 k)) eqn:E; injection H as <-.
  - left. split; [reflexivity|apply Qeq_bool_iff; exact E].
  - right. split; [reflexivity|]. apply Qeq_bool_false in E.
    destruct (Qlt_le_dec (qpow10 k) (Qabs x)); [assumption|]. exfalso. apply E. apply Qle_antisym; assumption.
Qed.

Lemma oom_round_spec : forall x r, ~ x == 0 -> oom ORound x = Some r ->
  exists k, oom OFloor x = Some k /\
    ((r = k /\ Qabs x * Qabs x < qpow10 (2 * k + 1)) \/ (r = (k + 1)%Z /\ qpow10 (2 * k + 1) <= Qabs x * Qabs x)).
Proof.
  intros x r Hx H. unfold oom in *.
  destruct (Qeq_bool x 0) eqn:Z; [apply Qeq_bool_iff in Z; contradiction|].
  destruct (decade (Qabs x)) as [k|] eqn:D; [|discriminate]. exists k. split; [reflexivity|].
  destruct (Qltb (Qabs x * Qabs x) (qpow10 (2 * k + 1))) eqn:E; injection H as <-.
  - left. split; [reflexivity|apply Qltb_true; exact E].
  - right. split; [reflexivity|apply Qltb_false; exact E].
Qed.

(* ------------------------------------------------------------------ RoundToSigFigs *)

Lemma round_half_even_close : forall y, Qabs (inject_Z (round_half_even y) - y) <= 1 # 2.
Proof.
  intros y. unfold round_half_even.
  pose proof (Qfloor_le y) as F1. pose proof (Qlt_floor y) as F2.
  rewrite inject_Z_plus in F2. change (inject_Z 1) with 1 in F2.
  set (f := Qfloor y) in *.
  assert (P : forall z, - (1 # 2) <= z -> z <= 1 # 2 -> Qabs z <= 1 # 2).
  { intros z A B. apply Qabs_Qle_condition. split; assumption. }
  destruct (Qltb (y - inject_Z f) (1 # 2)) eqn:E1.
  - apply Qltb_true in E1. apply P; lra.
  - apply Qltb_false in E1. destruct (Qltb (1 # 2) (y - inject_Z f)) eqn:E2.
    + rewrite inject_Z_plus. change (inject_Z 1) with 1. apply P; lra.
    + apply Qltb_false in E2. destruct (Z.even f).
      * apply P; lra.
      * rewrite inject_Z_plus. change (inject_Z 1) with 1. apply P; lra.
Qed.

Lemma sig_mags_pos : forall x p m, sig_mags x p = Some m -> 0 < m.
Proof.
  intros x p m H. unfold sig_mags in H. destruct (Qeq_bool x 0); [injection H as <-; lra|].
  destruct (oom ORound x); [|discriminate]. injection H as <-. apply qpow10_pos.
Qed.

(* as coded: the result is an integer number of units 1/mags, within half a unit of x *)
Lemma round_sig_as_coded : forall x p r, round_sig x p = Some r ->
  exists m j, sig_mags x p = Some m /\ 0 < m /\ r * m == inject_Z j /\ Qabs (r - x) <= (1 # 2) / m.
Proof.
  intros x p r H. unfold round_sig in H. destruct (sig_mags x p) as [m|] eqn:M; [|discriminate].
  injection H as <-. pose proof (sig_mags_pos x p m M) as Pm.
  exists m, (round_half_even (x * m)). split; [reflexivity|]. split; [exact Pm|].
  rewrite Qred_correct. split; [field; lra|].
  pose proof (round_half_even_close (x * m)) as C. set (j := inject_Z (round_half_even (x * m))) in *.
  assert (E : j / m - x == (j - x * m) / m) by (field; lra). rewrite E.
  rewrite Qabs_div_pos by exact Pm. apply Qle_shift_div_l; [exact Pm|].
  assert (E2 : Qabs (j - x * m) / m * m == Qabs (j - x * m)) by (field; lra). rewrite E2. exact C.
Qed.

(* when the mantissa is below sqrt(10) (round and floor of log10 agree) the result has p significant figures *)
Lemma round_sig_figures_partial : forall x p r u k, ~ x == 0 ->
  oom ORound x = Some k -> oom OFloor x = Some k ->
  round_sig x p = Some r -> sig_unit_spec x p = Some u -> Qabs (r - x) <= u / 2.
Proof.
  intros x p r u k Hx HR HF H U. destruct (round_sig_as_coded x p r H) as [m [j [M [Pm [_ C]]]]].
  unfold sig_mags in M. destruct (Qeq_bool x 0) eqn:Z; [apply Qeq_bool_iff in Z; contradiction|].
  rewrite HR in M. injection M as <-. unfold sig_unit_spec in U. rewrite HF in U. injection U as <-.
  replace (p - 1 - k)%Z with (- (k - p + 1))%Z in * by lia.
  pose proof (qpow10_pos (k - p + 1)) as Pu. rewrite qpow10_opp in C.
  assert (E : (1 # 2) / / qpow10 (k - p + 1) == qpow10 (k - p + 1) / 2) by (field; lra).
  rewrite E in C. exact C.
Qed.

(* ------------------------------------------------------------------ clip *)

Lemma clip_nan : forall lo hi, clip None lo hi = None.
Proof. reflexivity. Qed.

Lemma clip_spec : forall x lo hi, lo <= hi ->
  exists r, clip (Some x) lo hi = Some r /\ lo <= r /\ r <= hi /\ r == Qmin (Qmax x lo) hi.
Proof.
  intros x lo hi H. unfold clip. destruct (Qltb x lo) eqn:E1.
  - apply Qltb_true in E1. exists lo. split; [reflexivity|]. split; [lra|]. split; [exact H|].
    rewrite (Q.max_r x lo) by lra. rewrite Q.min_l by exact H. reflexivity.
  - apply Qltb_false in E1. destruct (Qltb hi x) eqn:E2.
    + apply Qltb_true in E2. exists hi. split; [reflexivity|]. split; [exact H|]. split; [lra|].
      rewrite (Q.max_l x lo) by exact E1. rewrite Q.min_r by lra. reflexivity.
    + apply Qltb_false in E2. exists x. split; [reflexivity|]. split; [exact E1|]. split; [exact E2|].
      rewrite (Q.max_l x lo) by exact E1. rewrite Q.min_l by exact E2. reflexivity.
Qed.

Lemma clip_idempotent : forall a lo hi, lo <= hi ->
  match clip a lo hi with Some r => clip (Some r) lo hi = Some r | None => a = None end.
Proof.
  intros [x|] lo hi H; [|reflexivity]. destruct (clip_spec x lo hi H) as [r [E [A [B _]]]]. rewrite E.
  unfold clip. assert (F1 : Qltb r lo = false) by (apply Qltb_false; exact A).
  assert (F2 : Qltb hi r = false) by (apply Qltb_false; exact B). rewrite F1, F2. reflexivity.
Qed.

(* ------------------------------------------------------------------ fast_std *)

Lemma fast_var_plain : forall l, fast_var l None None = variance l.
Proof. reflexivity. Qed.

Lemma fast_var_scalar_weight : forall l w m, fast_var l (Some [w]) m = fast_var l None m.
Proof. reflexivity. Qed.

Lemma rsum_sq_about : forall l m, rsum (map (fun x => sqr (x - m)) l) == rsum (map sqr (map (fun x => x - m) l)).
Proof. intros. rewrite map_map. reflexivity. Qed.

(* with a given mean: (1/n) sum (x - mu)^2 = variance + (mean - mu)^2 *)
Lemma fast_var_given_mean : forall l mu, l <> [] ->
  fast_var l None (Some mu) == variance l + (mean l - mu) * (mean l - mu).
Proof.
  intros l mu H. pose proof (qlen_pos _ l H) as Hn. cbn [fast_var]. rewrite Qred_correct.
  unfold sum_sq_about. rewrite qsum_rsum, rsum_sq_about, rsum_dev_sq.
  rewrite (variance_alt l H). unfold sum_sq. rewrite qsum_rsum, (mean_eq l). field. lra.
Qed.

Lemma fast_var_given_mean_nonneg : forall l mu, l <> [] -> 0 <= fast_var l None (Some mu).
Proof.
  intros l mu H. rewrite fast_var_given_mean by exact H. pose proof (variance_nonneg l).
  pose proof (sqr_nonneg (mean l - mu)) as S. unfold sqr in S. lra.
Qed.

(* ------------------------------------------------------------------ t_stat / unc_factor *)

Lemma t_args_spec : forall alpha n,
  t_args alpha n 1 = Some (1 - alpha, (n - 1)%Z) /\ t_args alpha n 2 = Some (1 - alpha / 2, (n - 1)%Z) /\
  (forall tail, tail <> 1%Z -> tail <> 2%Z -> t_args alpha n tail = None).
Proof.
  intros alpha n. split; [reflexivity|]. split; [reflexivity|]. intros tail H1 H2. unfold t_args.
  destruct (tail =? 1)%Z eqn:E1; [apply Z.eqb_eq in E1; contradiction|].
  destruct (tail =? 2)%Z eqn:E2; [apply Z.eqb_eq in E2; contradiction|]. reflexivity.
Qed.

Lemma t_args_percentile_range : forall alpha n tail pc d, 0 < alpha -> alpha < 1 ->
  t_args alpha n tail = Some (pc, d) -> 0 < pc /\ pc < 1 /\ d = (n - 1)%Z.
Proof.
  intros alpha n tail pc d A0 A1 H. unfold t_args in H.
  destruct (tail =? 1)%Z; [injection H as <- <-; repeat split; lra|].
  destruct (tail =? 2)%Z; [injection H as <- <-|discriminate].
  assert (E : alpha / 2 == alpha * (1 # 2)) by field. rewrite E. repeat split; lra.
Qed.

(* unc_factor = base + root with root^2 * n = t^2 and the sign of t; base = 0 (CI) or t (PI) *)
Lemma unc_factor_spec : forall t n i b neg s, (0 < n)%Z -> unc_factor t n i = Some (b, Root neg s) ->
  s * inject_Z n == t * t /\ neg = Qltb t 0 /\ (i = CI -> b == 0) /\ (i = PI -> b == t).
Proof.
  intros t n i b neg s Hn H. assert (Pn : 0 < inject_Z n) by (replace 0 with (inject_Z 0) by reflexivity; rewrite <- Zlt_Qlt; exact Hn).
  assert (E : Qred (sqr t / inject_Z n) * inject_Z n == t * t).
  { rewrite Qred_correct. unfold sqr. field. intros Z. rewrite Z in Pn. apply (Qlt_irrefl 0). exact Pn. }
  unfold unc_factor in H. destruct i; try discriminate; injection H as <- <- <-.
  - split; [exact E|]. split; [reflexivity|]. split; [reflexivity|discriminate].
  - split; [exact E|]. split; [reflexivity|]. split; [discriminate|reflexivity].
Qed.

(* ------------------------------------------------------------------ MAD *)

Lemma mad_is_median_abs_dev : forall k l, median_absolute_deviation k l None == k * mad l.
Proof. intros. reflexivity. Qed.

Lemma abs_dev_le_sum : forall (l : list Q) m x, In x l -> Qabs (x - m) <= rsum (map (fun x0 => Qabs (x0 - m)) l).
Proof.
  intros l m x Hx. induction l as [|z l IH]; [contradiction|]. cbn [map]. rewrite rsum_cons.
  assert (0 <= rsum (map (fun x0 => Qabs (x0 - m)) l)).
  { apply rsum_nonneg. intros w Hw. apply in_map_iff in Hw. destruct Hw as [v [<- _]]. apply Qabs_nonneg. }
  pose proof (Qabs_nonneg (z - m)) as Pz.
  destruct Hx as [E|Hx]; [subst z; lra|]. specialize (IH Hx). lra.
Qed.

Lemma mad_about_nonneg : forall l m, l <> [] -> 0 <= mad_about l m.
Proof.
  intros l m Hl. unfold mad_about.
  apply (median_bounds _ 0 (rsum (map (fun x => Qabs (x - m)) l))).
  - destruct l; [congruence|discriminate].
  - intros y Hy. apply in_map_iff in Hy. destruct Hy as [x [<- Hx]]. split; [apply Qabs_nonneg|apply abs_dev_le_sum; exact Hx].
Qed.

Lemma mad_scaled_nonneg : forall k l mu, 0 <= k -> l <> [] -> 0 <= median_absolute_deviation k l mu.
Proof.
  intros k l mu Hk Hl. unfold median_absolute_deviation.
  pose proof (mad_about_nonneg l (match mu with Some m => m | None => median l end) Hl) as H.
  apply Qmult_le_0_compat; assumption.
Qed.

(* ------------------------------------------------------------------ MAPE *)

(* undefined exactly when no observed value is at least min_denominator in size; otherwise the mean of
   |residual / observed| over those rows *)
Lemma mape_undef_iff : forall d mn, mape_of d mn = Undef <-> (forall r, In r d -> Qabs (fst r) < mn).
Proof.
  intros d mn. unfold mape_of.
  destruct (filter (fun r => Qle_bool mn (Qabs (fst r))) d) as [|r0 nz] eqn:F.
  - split; [intros _|reflexivity]. intros r Hr.
    destruct (Qlt_le_dec (Qabs (fst r)) mn) as [L|L]; [exact L|]. exfalso.
    assert (In r (filter (fun r => Qle_bool mn (Qabs (fst r))) d)) by (apply filter_In; split; [exact Hr|apply Qle_bool_iff; exact L]).
    rewrite F in H. contradiction.
  - split; [discriminate|]. intros H. exfalso.
    assert (I : In r0 (filter (fun r => Qle_bool mn (Qabs (fst r))) d)) by (rewrite F; left; reflexivity).
    apply filter_In in I. destruct I as [I1 I2]. apply Qle_bool_iff in I2. specialize (H r0 I1). lra.
Qed.

Definition mape_rows (d : list (Q * Q)) (mn : Q) : list (Q * Q) := filter (fun r => Qle_bool mn (Qabs (fst r))) d.

Lemma mape_value : forall d mn q, mape_of d mn = Num q ->
  mape_rows d mn <> [] /\ q * qlen (mape_rows d mn) == rsum (map (fun r => Qabs ((fst r - snd r) / fst r)) (mape_rows d mn)) /\ 0 <= q.
Proof.
  intros d mn q H. unfold mape_of in H. fold (mape_rows d mn) in H.
  destruct (mape_rows d mn) as [|r0 nz'] eqn:E; [discriminate|].
  pose proof (qlen_pos _ (r0 :: nz') ltac:(discriminate)) as Pn.
  set (n := qlen (r0 :: nz')) in *. set (l := map (fun r => Qabs ((fst r - snd r) / fst r)) (r0 :: nz')) in *.
  injection H as <-. split; [discriminate|].
  assert (Pl : 0 <= rsum l).
  { apply rsum_nonneg. intros y Hy. unfold l in Hy. apply in_map_iff in Hy. destruct Hy as [r [<- _]]. apply Qabs_nonneg. }
  rewrite Qred_correct, qsum_rsum. split; [field; lra|].
  apply Qle_shift_div_l; [exact Pn|]. rewrite Qmult_0_l. exact Pl.
Qed.
