(* Lemmas about Model/CalTrack.v (property C18), part A: segment weight tables and month routing.
   Finite: re-established by computation over the tables regenerated from the source on every run
   (Generated/CalTrackTables.v). The unbounded parts (bins, occupancy, hour of week) are in CalTrackProofs.v,
   which does not look inside the tables and keeps checking when a table changes. *)
From Coq Require Import ZArith QArith Qminmax List Bool String Lia.
From V Require Import Generated.CalTrackTables Model.CalTrack.
Import ListNotations.

(* ------------------------------------------------------------------------------------------------ *)
(* A. segment weight tables and month routing (finite, over the regenerated tables)                 *)
(* ------------------------------------------------------------------------------------------------ *)

Local Open Scope string_scope.

Ltac each_month H :=
  unfold months in H; simpl in H; repeat (destruct H as [<- | H]); [ .. | contradiction ].
Ltac each_seg H :=
  vm_compute in H; repeat (destruct H as [<- | H]); [ .. | contradiction ].
Ltac by_computation := vm_compute; reflexivity.

Lemma weighted_names_nodup : NoDup (map seg_name (tbl "three_month_weighted")).
Proof. vm_compute. repeat (constructor; [ simpl; intros H; repeat (destruct H as [H | H]; [ discriminate H | ]); exact H | ]). constructor. Qed.

Lemma weights_partition_weighted_l : forall m, In m months ->
  exists own prv nxt,
    own_segment (tbl "three_month_weighted") m = Some own /\
    own_segment (tbl "three_month_weighted") (prev_month m) = Some prv /\
    own_segment (tbl "three_month_weighted") (next_month m) = Some nxt /\
    forall s, In s (tbl "three_month_weighted") ->
      (seg_weight s m ==
       if String.eqb (seg_name s) own then 1
       else if String.eqb (seg_name s) prv || String.eqb (seg_name s) nxt then 1 # 2 else 0)%Q.
Proof.
  intros m Hm. each_month Hm;
    (do 3 eexists; split; [ by_computation | split; [ by_computation | split; [ by_computation | ] ] ];
     intros s Hs; each_seg Hs; vm_compute; reflexivity).
Qed.

Lemma own_segment_injective_l : forall m m', In m months -> In m' months ->
  own_segment (tbl "three_month_weighted") m = own_segment (tbl "three_month_weighted") m' -> m = m'.
Proof.
  intros m m' Hm Hm'. each_month Hm; each_month Hm'; vm_compute; intros E; try reflexivity; discriminate E.
Qed.

Lemma weights_partition_one_month_l : forall m, In m months ->
  exists own,
    own_segment (tbl "one_month") m = Some own /\
    forall s, In s (tbl "one_month") ->
      (seg_weight s m == if String.eqb (seg_name s) own then 1 else 0)%Q.
Proof.
  intros m Hm. each_month Hm;
    (eexists; split; [ by_computation | ]; intros s Hs; each_seg Hs; vm_compute; reflexivity).
Qed.

Lemma own_segment_one_month_injective_l : forall m m', In m months -> In m' months ->
  own_segment (tbl "one_month") m = own_segment (tbl "one_month") m' -> m = m'.
Proof.
  intros m m' Hm Hm'. each_month Hm; each_month Hm'; vm_compute; intros E; try reflexivity; discriminate E.
Qed.

Lemma weights_partition_three_month_l : forall m, In m months ->
  exists own prv nxt,
    centre_segment (tbl "three_month") m = Some own /\
    centre_segment (tbl "three_month") (prev_month m) = Some prv /\
    centre_segment (tbl "three_month") (next_month m) = Some nxt /\
    forall s, In s (tbl "three_month") ->
      (seg_weight s m ==
       if String.eqb (seg_name s) own || String.eqb (seg_name s) prv || String.eqb (seg_name s) nxt
       then 1 else 0)%Q.
Proof.
  intros m Hm. each_month Hm;
    (do 3 eexists; split; [ by_computation | split; [ by_computation | split; [ by_computation | ] ] ];
     intros s Hs; each_seg Hs; vm_compute; reflexivity).
Qed.

(* the weighted table is the unweighted three-month table with the two outer months halved *)
Lemma weighted_is_three_month_halved_l : forall m, In m months ->
  exists own, own_segment (tbl "three_month_weighted") m = Some own /\
    centre_segment (tbl "three_month") m = Some (substring 0 (String.length own - 9) own) /\
    substring (String.length own - 9) 9 own = "-weighted".
Proof.
  intros m Hm. each_month Hm; (eexists; split; [ by_computation | split; by_computation ]).
Qed.

Lemma weights_single_l : forall m, segment_weights "single" m = Some [("all", 1%Q)].
Proof. intros m. reflexivity. Qed.

Lemma table_types_l : map fst segment_tables = ["single"; "one_month"; "three_month"; "three_month_weighted"].
Proof. reflexivity. Qed.

Lemma wrapper_fits_weighted_l : wrapper_segment_type = "three_month_weighted".
Proof. reflexivity. Qed.

Lemma predict_single_model_l : forall m, In m months ->
  exists s, own_segment (tbl "three_month_weighted") m = Some s /\
            prediction_terms "three_month_weighted" m = [(s, 1%Q)].
Proof.
  intros m Hm. each_month Hm; (eexists; split; by_computation).
Qed.

Lemma prediction_own_month_l : forall m, In m months ->
  exists s, prediction_segment "three_month_weighted" m = Some s /\
            own_segment (tbl "three_month_weighted") m = Some s.
Proof.
  intros m Hm. destruct (predict_single_model_l m Hm) as [s [Ho Hp]].
  exists s. split; [ | exact Ho ]. unfold prediction_segment. rewrite Hp. reflexivity.
Qed.

Lemma predict_single_l : forall m, prediction_terms "single" m = [("all", 1%Q)].
Proof. intros m. reflexivity. Qed.

Section PredictValueProofs.
  Variable V : Type.
  Variable vzero : V.
  Variable vadd : V -> V -> V.
  Variable vscale : Q -> V -> V.
  Hypothesis vscale_one : forall v, vscale 1%Q v = v.
  Variable models : string -> V.

  Lemma predict_hour_own_l : forall m, In m months ->
    exists s, own_segment (tbl "three_month_weighted") m = Some s /\
              predict_hour V vadd vscale models "three_month_weighted" m = Some (models s).
  Proof.
    intros m Hm. destruct (predict_single_model_l m Hm) as [s [Ho Hp]].
    exists s. split; [ exact Ho | ]. unfold predict_hour. rewrite Hp. simpl. rewrite vscale_one. reflexivity.
  Qed.
End PredictValueProofs.

