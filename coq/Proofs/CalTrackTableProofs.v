(* Lemmas about Model/CalTrack.v (property C18), part A: segment weight tables and month routing.
   Finite: re-established by computation over the tables regenerated from the source on every run
   (Generated/CalTrackTables.v). The unbounded parts (bins, occupancy, hour of week) are in CalTrackProofs.v,
   which does not look inside the tables and keeps checking when a table changes. *)
From Coq Require Import ZArith QArith Qminmax List Bool String Lia.
From V Require Import Generated.CalTrackTables Model.CalTrack Proofs.CalTrackProofs.
Import ListNotations.

(* ------------------------------------------------------------------------------------------------ *)
(* A. segment weight tables and month routing (finite, over the regenerated tables)                 *)
(* ------------------------------------------------------------------------------------------------ *)

Local Open Scope string_scope.

Ltac each_month H :=
  unfold months in H; simpl in H; repeat (destruct H as [<- | H]); [ .. | contradiction ].
Ltac each_seg H :=
  vm_compute in H; repeat (destruct H as [<- | H]); [ .. | contradiction ].
Ltac by_computation := vm_compute; reflexivity.

Lemma weighted_names_nodup : NoDup (map seg_name (tbl "three_month_weighted")).
Proof. vm_compute. repeat (constructor; [ simpl; intros H; repeat (destruct H as [H | H]; [ discriminate H | ]); exact H | ]). constructor. Qed.

Lemma weights_partition_weighted_l : forall m, In m months ->
  exists own prv nxt,
    own_segment (tbl "three_month_weighted") m = Some own /\
    own_segment (tbl "three_month_weighted") (prev_month m) = Some prv /\
    own_segment (tbl "three_month_weighted") (next_month m) = Some nxt /\
    forall s, In s (tbl "three_month_weighted") ->
      (seg_weight s m ==
       if String.eqb (seg_name s) own then 1
       else if String.eqb (seg_name s) prv || String.eqb (seg_name s) nxt then 1 # 2 else 0)%Q.
Proof.
  intros m Hm. each_month Hm;
    (do 3 eexists; split; [ by_computation | split; [ by_computation | split; [ by_computation | ] ] ];
     intros s Hs; each_seg Hs; vm_compute; reflexivity).
Qed.

Lemma own_segment_injective_l : forall m m', In m months -> In m' months ->
  own_segment (tbl "three_month_weighted") m = own_segment (tbl "three_month_weighted") m' -> m = m'.
Proof.
  intros m m' Hm Hm'. each_month Hm; each_month Hm'; vm_compute; intros E; try reflexivity; discriminate E.
Qed.

Lemma weights_partition_one_month_l : forall m, In m months ->
  exists own,
    own_segment (tbl "one_month") m = Some own /\
    forall s, In s (tbl "one_month") ->
      (seg_weight s m == if String.eqb (seg_name s) own then 1 else 0)%Q.
Proof.
  intros m Hm. each_month Hm;
    (eexists; split; [ by_computation | ]; intros s Hs; each_seg Hs; vm_compute; reflexivity).
Qed.

Lemma own_segment_one_month_injective_l : forall m m', In m months -> In m' months ->
  own_segment (tbl "one_month") m = own_segment (tbl "one_month") m' -> m = m'.
Proof.
  intros m m' Hm Hm'. each_month Hm; each_month Hm'; vm_compute; intros E; try reflexivity; discriminate E.
Qed.

Lemma weights_partition_three_month_l : forall m, In m months ->
  exists own prv nxt,
    centre_segment (tbl "three_month") m = Some own /\
    centre_segment (tbl "three_month") (prev_month m) = Some prv /\
    centre_segment (tbl "three_month") (next_month m) = Some nxt /\
    forall s, In s (tbl "three_month") ->
      (seg_weight s m ==
       if String.eqb (seg_name s) own || String.eqb (seg_name s) prv || String.eqb (seg_name s) nxt
       then 1 else 0)%Q.
Proof.
  intros m Hm. each_month Hm;
    (do 3 eexists; split; [ by_computation | split; [ by_computation | split; [ by_computation | ] ] ];
     intros s Hs; each_seg Hs; vm_compute; reflexivity).
Qed.

(* the weighted table is the unweighted three-month table with the two outer months halved *)
Lemma weighted_is_three_month_halved_l : forall m, In m months ->
  exists own, own_segment (tbl "three_month_weighted") m = Some own /\
    centre_segment (tbl "three_month") m = Some (substring 0 (String.length own - 9) own) /\
    substring (String.length own - 9) 9 own = "-weighted".
Proof.
  intros m Hm. each_month Hm; (eexists; split; [ by_computation | split; by_computation ]).
Qed.

Lemma weights_single_l : forall m, segment_weights "single" m = Some [("all", 1%Q)].
Proof. intros m. reflexivity. Qed.

Lemma table_types_l : map fst segment_tables = ["single"; "one_month"; "three_month"; "three_month_weighted"].
Proof. reflexivity. Qed.

Lemma wrapper_fits_weighted_l : wrapper_segment_type = "three_month_weighted".
Proof. reflexivity. Qed.

Lemma predict_single_model_l : forall m, In m months ->
  exists s, own_segment (tbl "three_month_weighted") m = Some s /\
            prediction_terms "three_month_weighted" m = [(s, 1%Q)].
Proof.
  intros m Hm. each_month Hm; (eexists; split; by_computation).
Qed.

Lemma prediction_own_month_l : forall m, In m months ->
  exists s, prediction_segment "three_month_weighted" m = Some s /\
            own_segment (tbl "three_month_weighted") m = Some s.
Proof.
  intros m Hm. destruct (predict_single_model_l m Hm) as [s [Ho Hp]].
  exists s. split; [ | exact Ho ]. unfold prediction_segment. rewrite Hp. reflexivity.
Qed.

Lemma predict_single_l : forall m, prediction_terms "single" m = [("all", 1%Q)].
Proof. intros m. reflexivity. Qed.

Section PredictValueProofs.
  Variable V : Type.
  Variable vzero : V.
  Variable vadd : V -> V -> V.
  Variable vscale : Q -> V -> V.
  Hypothesis vscale_one : forall v, vscale 1%Q v = v.
  Variable models : string -> V.

  Lemma predict_hour_own_l : forall m, In m months ->
    exists s, own_segment (tbl "three_month_weighted") m = Some s /\
              predict_hour V vadd vscale models "three_month_weighted" m = Some (models s).
  Proof.
    intros m Hm. destruct (predict_single_model_l m Hm) as [s [Ho Hp]].
    exists s. split; [ exact Ho | ]. unfold predict_hour. rewrite Hp. simpl. rewrite vscale_one. reflexivity.
  Qed.
End PredictValueProofs.


(* ---- every weight of every table is 0, 1/2 or 1 (so "sums to more than zero" is "some weight is positive") ---- *)
Definition weight_ok (w : Q) : bool := Qeq_bool w 0 || Qeq_bool w (1 # 2) || Qeq_bool w 1.
Lemma weights_in_0_half_1 : forall type t, In (type, t) segment_tables -> forall s, In s t -> forall m, In m months ->
  (seg_weight s m == 0 \/ seg_weight s m == 1 # 2 \/ seg_weight s m == 1)%Q.
Proof.
  assert (H : forallb (fun tt => forallb (fun s => forallb (fun m => weight_ok (seg_weight s m)) months) (snd tt)) segment_tables = true)
    by (vm_compute; reflexivity).
  intros type t Ht s Hs m Hm.
  rewrite forallb_forall in H. specialize (H _ Ht). cbn [snd] in H.
  rewrite forallb_forall in H. specialize (H _ Hs).
  rewrite forallb_forall in H. specialize (H _ Hm).
  unfold weight_ok in H. apply orb_true_iff in H. destruct H as [H | H]; [ apply orb_true_iff in H; destruct H as [H | H] | ];
    apply Qeq_bool_iff in H; tauto.
Qed.

(* ---- prediction with dropped zero-weight columns and absent fitted models ---------------------------------- *)
Lemma existsb_false_at : forall (A : Type) (f : A -> bool) l x, existsb f l = false -> In x l -> f x = false.
Proof.
  intros A f l x H Hx. destruct (f x) eqn:E; [ | reflexivity ].
  assert (existsb f l = true) by (apply existsb_exists; exists x; split; assumption). congruence.
Qed.

Lemma terms_on_filter : forall present fitted ft m, In m present ->
  prediction_terms_on present fitted ft m = filter (fun fw => mem_str (fst fw) fitted) (prediction_terms ft m).
Proof.
  intros present fitted ft m Hm. unfold prediction_terms_on, prediction_terms.
  destruct (assoc ft prediction_info) as [ [ptype mapping] | ]; [ | reflexivity ].
  induction (tbl ptype) as [ | s l IH ]; [ reflexivity | ].
  cbn [filter flat_map]. rewrite filter_app. rewrite <- IH.
  destruct (kept_segment present s) eqn:K.
  - cbn [flat_map]. f_equal.
    destruct (Qle_bool (seg_weight s m) 0); [ reflexivity | ].
    destruct (fitted_name mapping (seg_name s)) as [ f | ]; [ | reflexivity ].
    cbn [filter fst]. destruct (mem_str f fitted); reflexivity.
  - unfold kept_segment in K. pose proof (existsb_false_at _ _ _ _ K Hm) as E. cbn beta in E.
    apply negb_false_iff in E. rewrite E. reflexivity.
Qed.

Lemma terms_on_incl : forall present fitted ft m, incl (prediction_terms_on present fitted ft m) (prediction_terms ft m).
Proof.
  intros present fitted ft m fw. unfold prediction_terms_on, prediction_terms.
  destruct (assoc ft prediction_info) as [ [ptype mapping] | ]; [ | intros [] ].
  rewrite !in_flat_map. intros [s [Hs Hfw]]. apply filter_In in Hs. destruct Hs as [Hs _]. exists s. split; [ exact Hs | ].
  destruct (Qle_bool (seg_weight s m) 0); [ exact Hfw | ].
  destruct (fitted_name mapping (seg_name s)) as [ f | ]; [ | exact Hfw ].
  destruct (mem_str f fitted); [ exact Hfw | destruct Hfw ].
Qed.

(* whatever months the index covers and whichever segment models exist: an hour is predicted by nothing but its own
   month's model, with weight 1 *)
Lemma predicted_only_by_own_l : forall present fitted m f w, In m months ->
  In (f, w) (prediction_terms_on present fitted "three_month_weighted" m) ->
  own_segment (tbl "three_month_weighted") m = Some f /\ w = 1%Q.
Proof.
  intros present fitted m f w Hm Hin. apply terms_on_incl in Hin.
  destruct (predict_single_model_l m Hm) as [s [Ho Hp]]. rewrite Hp in Hin.
  destruct Hin as [E | []]. inversion E; subst. split; [ exact Ho | reflexivity ].
Qed.

(* ... and when the hour's month occurs in the index: by exactly that model if it exists, by none otherwise *)
Lemma predict_on_l : forall present fitted m, In m months -> In m present ->
  exists own, own_segment (tbl "three_month_weighted") m = Some own /\
    prediction_terms_on present fitted "three_month_weighted" m = (if mem_str own fitted then [(own, 1%Q)] else []).
Proof.
  intros present fitted m Hm Hp. destruct (predict_single_model_l m Hm) as [s [Ho Ht]].
  exists s. split; [ exact Ho | ]. rewrite (terms_on_filter present fitted _ m Hp). rewrite Ht.
  cbn [filter fst]. destruct (mem_str s fitted); reflexivity.
Qed.

(* ---- candidate bin endpoints ---------------------------------------------------------------------------------- *)
Lemma candidates_increasing_l : increasing default_bins.
Proof. cbn. repeat split; discriminate. Qed.

Lemma endpoints_increasing_l : forall flags, increasing (endpoints_of_flags flags).
Proof. intros flags. apply select_increasing. exact candidates_increasing_l. Qed.

Lemma bins_sum_any_flags_l : forall flags T, (sum QOps (bin_features QOps T (endpoints_of_flags flags)) == T)%Q.
Proof. intros flags T. apply bins_sum_to_T_l. apply endpoints_increasing_l. Qed.

Lemma default_bins_same_l : map Q2F default_bins = default_bins_f.
Proof. vm_compute. reflexivity. Qed.

(* ---- the month a fitted segment's uncertainty figures are filed under (wrapper.py) ------------------------------ *)
Lemma wrapper_month_key_l : forall m, In m months ->
  exists own, own_segment (tbl "three_month_weighted") m = Some own /\
              unc_segment (map seg_name (tbl "three_month_weighted")) m = Some own.
Proof. intros m Hm. each_month Hm; (eexists; split; by_computation). Qed.

Lemma wrapper_keys_known_l : forall s, In s (tbl "three_month_weighted") ->
  exists a n, month_key (seg_name s) = Some a /\ assoc a wrapper_month_dict = Some n.
Proof. intros s Hs. each_seg Hs; (do 2 eexists; split; by_computation). Qed.

(* ---- drop_zero_weight_segments over the tables ------------------------------------------------------------------ *)
(* the dropped columns are all-zero on the index *)
Lemma dropped_all_zero_l : forall type t, In (type, t) segment_tables -> forall present s m, In s t ->
  kept_segment present s = false -> In m present -> In m months -> (seg_weight s m == 0)%Q.
Proof.
  intros type t Ht present s m Hs Hk Hp Hm.
  pose proof (dropped_nowhere_positive present s m Hk Hp) as Hle.
  destruct (weights_in_0_half_1 type t Ht s Hs m Hm) as [H | [H | H]]; [ exact H | | ]; rewrite H in Hle; exfalso; revert Hle; compute; intros F; apply F; reflexivity.
Qed.

(* three_month_weighted: whatever part of the year the index covers, with or without the filter an hour keeps exactly
   three weights above zero -- 1 in its own segment and 1/2 in its two neighbours' (C18_weights_partition) *)
Lemma weighted_positive_row_l : forall present m, In m months -> In m present ->
  positive_row (dropped_table present (tbl "three_month_weighted")) m = positive_row (tbl "three_month_weighted") m /\
  exists a b c, positive_row (tbl "three_month_weighted") m = [a; b; c] /\
    (Qeq_bool (snd a) 1 && Qeq_bool (snd b) (1 # 2) && Qeq_bool (snd c) (1 # 2)
     || Qeq_bool (snd a) (1 # 2) && Qeq_bool (snd b) 1 && Qeq_bool (snd c) (1 # 2)
     || Qeq_bool (snd a) (1 # 2) && Qeq_bool (snd b) (1 # 2) && Qeq_bool (snd c) 1) = true.
Proof.
  intros present m Hm Hp. split; [ apply drop_preserves_positive_row; exact Hp | ].
  each_month Hm; (do 3 eexists; split; by_computation).
Qed.
