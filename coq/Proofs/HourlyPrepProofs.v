From Coq Require Import ZArith List Bool Lia.
From V Require Import Model.HourlyPrep.
Import ListNotations.
Open Scope Z_scope.
Lemma stub_l : STEP = 60. Proof. reflexivity. Qed.
