(* Lemmas about Model/HourlyPrep.v (C17). *)
From Coq Require Import ZArith List Bool Lia ZifyBool FMapPositive.
From V Require Import Model.HourlyPrep.
Import ListNotations.
Open Scope Z_scope.

Ltac Zify.zify_post_hook ::= Z.to_euclidean_division_equations.

(* ------------------------------------------------------------------ cells *)
Lemma present_true : forall {B} (o : option B), present o = true <-> o <> None.
Proof. intros B [b|]; cbn; split; congruence. Qed.
Lemma present_false : forall {B} (o : option B), present o = false <-> o = None.
Proof. intros B [b|]; cbn; split; congruence. Qed.
Lemma missing_true : forall {B} (o : option B), missing o = true <-> o = None.
Proof. intros B [b|]; cbn; split; congruence. Qed.

(* ------------------------------------------------------------------ the hourly grid *)
Lemma grid_from_In : forall n lo t,
  In t (grid_from n lo) <-> exists k, 0 <= k < Z.of_nat n /\ t = lo + STEP * k.
Proof.
  induction n as [|n IH]; intros lo t; cbn [grid_from In].
  - split; [tauto | intros [k [H _]]; lia].
  - rewrite IH. split.
    + intros [E | [k [Hk E]]].
      * exists 0. lia.
      * exists (k + 1). unfold STEP in *. lia.
    + intros [k [Hk E]]. destruct (Z.eq_dec k 0) as [K | K].
      * left. subst k. lia.
      * right. exists (k - 1). unfold STEP in *. lia.
Qed.

Lemma grid_In : forall lo hi t,
  In t (grid lo hi) <-> lo <= t <= hi /\ (t - lo) mod STEP = 0.
Proof.
  intros lo hi t. unfold grid. rewrite grid_from_In. unfold STEP. split.
  - intros [k [Hk E]]. subst t. split; [lia|].
    replace (lo + 60 * k - lo) with (k * 60) by lia. apply Z_mod_mult.
  - intros [[H1 H2] M]. exists ((t - lo) / 60).
    lia.
Qed.

Lemma grid_from_length : forall n lo, length (grid_from n lo) = n.
Proof. induction n; intros; cbn; auto. Qed.

Lemma grid_from_nth : forall n lo i a,
  nth_error (grid_from n lo) i = Some a -> a = lo + STEP * Z.of_nat i.
Proof.
  induction n as [|n IH]; intros lo i a H.
  - destruct i; discriminate.
  - destruct i as [|i]; cbn in H.
    + inversion H. lia.
    + apply IH in H. unfold STEP in *. lia.
Qed.

(* consecutive rows are exactly one hour apart *)
Lemma grid_step : forall lo hi i a b,
  nth_error (grid lo hi) i = Some a -> nth_error (grid lo hi) (S i) = Some b -> b = a + STEP.
Proof.
  unfold grid. intros lo hi i a b Ha Hb.
  apply grid_from_nth in Ha. apply grid_from_nth in Hb. unfold STEP in *. lia.
Qed.

Lemma grid_from_NoDup : forall n lo, NoDup (grid_from n lo).
Proof.
  induction n as [|n IH]; intros lo; cbn; constructor; auto.
  rewrite grid_from_In. intros [k [Hk E]]. unfold STEP in *. lia.
Qed.
Lemma grid_NoDup : forall lo hi, NoDup (grid lo hi).
Proof. intros. apply grid_from_NoDup. Qed.

(* ------------------------------------------------------------------ local days *)
(* ascending boundaries *)
Fixpoint ascending (l : list Z) : Prop :=
  match l with
  | [] => True
  | a :: rest => (forall b, In b rest -> a < b) /\ ascending rest
  end.

Lemma day_start_spec : forall bnds t cur,
  ascending bnds -> cur <= t ->
  let s := day_start bnds t cur in
  s <= t /\ (s = cur \/ In s bnds) /\ (forall b, In b bnds -> b <= t -> b <= s).
Proof.
  induction bnds as [|b0 rest IH]; intros t cur Asc Hc; cbn [day_start].
  - cbn. repeat split; auto. intros b [].
  - destruct Asc as [A1 A2]. destruct (b0 <=? t) eqn:E.
    + apply Z.leb_le in E.
      destruct (IH t b0 A2 E) as [S1 [S2 S3]].
      cbn zeta. repeat split; auto.
      * destruct S2 as [S2 | S2]; [right; left; auto | right; right; auto].
      * intros b [Hb | Hb] Hbt; [subst b|]; auto.
        destruct S2 as [S2 | S2]; [rewrite S2; lia|].
        assert (b0 < day_start rest t b0) by (apply A1; auto). lia.
    + apply Z.leb_gt in E. cbn zeta. repeat split; auto.
      intros b [Hb | Hb] Hbt; [subst b; lia|]. specialize (A1 b Hb). lia.
Qed.

Lemma day_start_in : forall bnds t cur,
  ascending bnds -> (exists b, In b bnds /\ b <= t) -> In (day_start bnds t cur) bnds.
Proof.
  intros [|b0 rest] t cur Asc [b [Hb Hle]]; [destruct Hb|].
  cbn [day_start]. destruct Asc as [A1 A2].
  assert (E : b0 <=? t = true).
  { apply Z.leb_le. destruct Hb as [Hb | Hb]; [subst; auto | specialize (A1 b Hb); lia]. }
  rewrite E. apply Z.leb_le in E.
  destruct (day_start_spec rest t b0 A2 E) as [_ [[S | S] _]]; [left; auto | right; auto].
Qed.

Lemma day_next_spec : forall bnds t dflt,
  ascending bnds -> (exists b, In b bnds /\ t < b) ->
  let n := day_next bnds t dflt in
  In n bnds /\ t < n /\ (forall b, In b bnds -> t < b -> n <= b).
Proof.
  induction bnds as [|b0 rest IH]; intros t dflt Asc [b [Hb Hlt]]; [destruct Hb|].
  cbn [day_next]. destruct Asc as [A1 A2]. destruct (t <? b0) eqn:E.
  - apply Z.ltb_lt in E. cbn zeta. repeat split; auto; [left; auto|].
    intros b' [Hb' | Hb'] _; [subst; lia|]. specialize (A1 b' Hb'). lia.
  - apply Z.ltb_ge in E. destruct Hb as [Hb | Hb]; [subst; lia|].
    destruct (IH t dflt A2 (ex_intro _ b (conj Hb Hlt))) as [N1 [N2 N3]].
    cbn zeta. repeat split; auto; [right; auto|].
    intros b' [Hb' | Hb'] Hlt'; [subst; lia | auto].
Qed.

(* the frame covers whole local days: from the start of the day of the first stamp to the last hour before the
   start of the day after the last stamp *)
Definition covers (bnds : list Z) (t : Z) : Prop := (exists b, In b bnds /\ b <= t) /\ (exists b, In b bnds /\ t < b).
Definition hour_aligned (bnds : list Z) : Prop := forall b b', In b bnds -> In b' bnds -> (b' - b) mod STEP = 0.

Lemma whole_days_range : forall bnds tmin tmax lo hi,
  ascending bnds -> hour_aligned bnds -> tmin <= tmax -> covers bnds tmin -> covers bnds tmax ->
  day_range bnds no_skip tmin tmax = (lo, hi) ->
  (In lo bnds /\ lo <= tmin /\ forall b, In b bnds -> b <= tmin -> b <= lo) /\
  (In (hi + STEP) bnds /\ tmax < hi + STEP /\ forall b, In b bnds -> tmax < b -> hi + STEP <= b) /\
  (forall t, In t (grid lo hi) <-> lo <= t < hi + STEP /\ (t - lo) mod STEP = 0).
Proof.
  intros bnds tmin tmax lo hi Asc Al Hmm [C1 _] [_ C2] E.
  unfold day_range, no_skip in E. cbn [lo_fwd hi_back] in E. inversion E as [[E1 E2]]. clear E.
  pose proof (day_start_in bnds tmin tmin Asc C1) as S0.
  destruct (day_start_spec bnds tmin tmin Asc (Z.le_refl _)) as [S1 [_ S3]].
  destruct (day_next_spec bnds tmax (tmax + STEP) Asc C2) as [N1 [N2 N3]].
  cbn zeta in *.
  set (s := day_start bnds tmin tmin) in *. set (n := day_next bnds tmax (tmax + STEP)) in *.
  replace (s + 0) with s by lia. replace (n - STEP + STEP) with n by lia.
  split; [repeat split; auto|]. split; [repeat split; auto|].
  intros t. rewrite grid_In. specialize (Al s n S0 N1). unfold STEP in *. lia.
Qed.

Section Prep.
  Variable A : Type.
  Variable is_zero : A -> bool.
  Variable lin : A -> A -> Z -> Z -> A.
  Variable est : colname -> col A -> col A.

  Notation cell := (cell A).
  Notation col := (col A).
  Notation row := (row A).

  (* ---------------------------------------------------------------- a stage keeps what is there *)
  Definition keeps (x y : col) : Prop := Forall2 (fun a b : cell => forall v, a = Some v -> b = Some v) x y.

  Lemma keeps_refl : forall x, keeps x x.
  Proof. induction x; constructor; auto. Qed.
  Lemma keeps_trans : forall x y z, keeps x y -> keeps y z -> keeps x z.
  Proof.
    intros x y z H. revert z. induction H; intros z Hz; inversion Hz; subst; constructor; auto.
    apply IHForall2. auto.
  Qed.
  Lemma keeps_length : forall x y, keeps x y -> length y = length x.
  Proof. intros x y H. induction H; cbn; auto. Qed.

  Lemma merge_fill_keeps : forall x e, keeps x (merge_fill x e).
  Proof.
    induction x as [|xi x IH]; intros e; cbn [merge_fill]; constructor; [|apply IH].
    intros v E. subst xi. reflexivity.
  Qed.

  Lemma autocorr_stage_keeps : forall c x, keeps x (autocorr_stage est c x).
  Proof.
    intros c x. unfold autocorr_stage. destruct (_ <? _); [apply merge_fill_keeps | apply keeps_refl].
  Qed.

  Lemma ann_fst : forall l : col, map fst (fst (ann l)) = l.
  Proof.
    induction l as [|c l IH]; cbn [ann]; auto.
    destruct (ann l) as [r nx] eqn:E. cbn in *. rewrite IH. reflexivity.
  Qed.

  Lemma tl_fwd_keeps : forall l prev, keeps (map fst l) (tl_fwd lin prev l).
  Proof.
    induction l as [|[c nx] l IH]; intros prev; cbn [map tl_fwd fst]; [constructor|].
    destruct c as [v|]; constructor; try apply IH; [auto | intros v E; discriminate].
  Qed.

  Lemma time_linear_keeps : forall x, keeps x (time_linear lin x).
  Proof.
    intros x. unfold time_linear. rewrite <- (ann_fst x) at 1. apply tl_fwd_keeps.
  Qed.

  Lemma ffill_from_keeps : forall x prev, keeps x (ffill_from prev x).
  Proof.
    induction x as [|[v|] x IH]; intros prev; cbn [ffill_from]; constructor; try apply IH; [auto | intros v E; discriminate].
  Qed.

  Lemma bfill_keeps : forall x, keeps x (bfill x).
  Proof.
    induction x as [|c x IH]; cbn [bfill]; constructor; [|apply IH].
    intros v E. subst c. reflexivity.
  Qed.

  Lemma fallbacks_keeps : forall x, keeps x (fallbacks lin x).
  Proof.
    intros x. unfold fallbacks.
    set (x1 := if has_missing x then time_linear lin x else x).
    set (x2 := if has_missing x1 then ffill x1 else x1).
    assert (K1 : keeps x x1) by (unfold x1; destruct (has_missing x); [apply time_linear_keeps | apply keeps_refl]).
    assert (K2 : keeps x1 x2) by (unfold x2; destruct (has_missing x1); [apply ffill_from_keeps | apply keeps_refl]).
    destruct (has_missing x2).
    - eapply keeps_trans; [exact K1|]. eapply keeps_trans; [exact K2|]. apply bfill_keeps.
    - eapply keeps_trans; eauto.
  Qed.

  Lemma interp_col_keeps : forall c x, keeps x (interp_col lin est c x).
  Proof.
    intros c x. unfold interp_col. eapply keeps_trans; [apply autocorr_stage_keeps | apply fallbacks_keeps].
  Qed.

  Lemma interp_col_length : forall c x, length (interp_col lin est c x) = length x.
  Proof. intros. apply keeps_length. apply interp_col_keeps. Qed.

  (* ---------------------------------------------------------------- completeness *)
  Definition has_value (x : col) : Prop := exists v, In (Some v) x.
  Definition all_present (x : col) : Prop := Forall (fun c : cell => c <> None) x.

  Lemma has_missing_false : forall x, has_missing x = false <-> all_present x.
  Proof.
    unfold has_missing, all_present. induction x as [|c x IH]; cbn [existsb].
    - split; auto.
    - rewrite orb_false_iff, IH. split.
      + intros [H1 H2]. constructor; auto. destruct c; [congruence | discriminate].
      + intros H. inversion H; subst. split; auto. destruct c; [reflexivity | congruence].
  Qed.

  Lemma keeps_has_value : forall x y, keeps x y -> has_value x -> has_value y.
  Proof.
    intros x y K [v Hv]. exists v. induction K; [destruct Hv|].
    destruct Hv as [Hv | Hv]; [left; apply H; auto | right; auto].
  Qed.

  Lemma keeps_all_present : forall x y, keeps x y -> all_present x -> all_present y.
  Proof.
    intros x y K. induction K; intros P; [constructor|].
    inversion P; subst. constructor; [|apply IHK; assumption].
    destruct x as [v|]; [rewrite (H v eq_refl); discriminate | congruence].
  Qed.

  Lemma ann_snd_some : forall l : col, has_value l -> snd (ann l) <> None.
  Proof.
    induction l as [|c l IH]; intros [v Hv]; [destruct Hv|].
    cbn [ann]. destruct (ann l) as [r nx] eqn:E. cbn [snd] in *.
    destruct c as [w|]; [cbn; discriminate|].
    destruct Hv as [Hv | Hv]; [discriminate|].
    assert (N : nx <> None) by (apply IH; exists v; auto).
    destruct nx as [[d u]|]; [cbn; discriminate | congruence].
  Qed.

  Lemma tl_fwd_complete : forall l prev,
    prev <> None \/ has_value l -> all_present (tl_fwd lin prev (fst (ann l))).
  Proof.
    induction l as [|c l IH]; intros prev H; [constructor|].
    cbn [ann]. destruct (ann l) as [r nx] eqn:E. cbn [fst tl_fwd].
    cbn [fst] in IH.
    destruct c as [w|].
    - constructor; [discriminate|]. apply IH. left. discriminate.
    - assert (NX : has_value l -> nx <> None).
      { intros HV. pose proof (ann_snd_some l HV) as S. rewrite E in S. exact S. }
      clear E.
      constructor.
      + destruct prev as [[d0 v0]|].
        * destruct nx as [[d1 v1]|]; discriminate.
        * destruct H as [H | [v [Hv | Hv]]]; [congruence | discriminate |].
          assert (nx <> None) by (apply NX; exists v; auto).
          destruct nx as [[d1 v1]|]; [discriminate | congruence].
      + apply IH. destruct prev as [[d0 v0]|].
        * left. discriminate.
        * right. destruct H as [H | [v [Hv | Hv]]]; [congruence | discriminate | exists v; auto].
  Qed.

  Lemma time_linear_complete : forall x, has_value x -> all_present (time_linear lin x).
  Proof. intros x H. unfold time_linear. apply tl_fwd_complete. right. exact H. Qed.

  Lemma fallbacks_complete : forall x, has_value x -> all_present (fallbacks lin x).
  Proof.
    intros x HV. unfold fallbacks.
    set (x1 := if has_missing x then time_linear lin x else x).
    assert (P1 : all_present x1).
    { unfold x1. destruct (has_missing x) eqn:E; [apply time_linear_complete; auto | apply has_missing_false; auto]. }
    assert (E1 : has_missing x1 = false) by (apply has_missing_false; auto).
    rewrite E1. cbn zeta. rewrite E1. exact P1.
  Qed.

  Lemma interp_col_complete : forall c x, has_value x -> all_present (interp_col lin est c x).
  Proof.
    intros c x HV. unfold interp_col. apply fallbacks_complete.
    eapply keeps_has_value; [apply autocorr_stage_keeps | exact HV].
  Qed.

  (* nothing is invented on an empty column by the concrete fall-backs *)
  Definition all_missing (x : col) : Prop := Forall (fun c : cell => c = None) x.


  (* an empty column stays empty and unflagged when the imputer proposes nothing for it
     (_interpolate_col returns an all-NaN column untouched) *)
  Lemma all_missing_no_value : forall x, all_missing x -> has_missing x = true \/ x = [].
  Proof. intros [|c x] H; [right; reflexivity | left]. inversion H; subst. reflexivity. Qed.

  Lemma ann_all_missing : forall x : col, all_missing x -> snd (ann x) = None /\ fst (ann x) = map (fun c => (c, None)) x.
  Proof.
    induction x as [|c x IH]; intros H; [split; reflexivity|].
    inversion H; subst. destruct (IH H3) as [S F]. cbn [ann]. destruct (ann x) as [r nx]. cbn [fst snd] in *. subst nx r.
    split; reflexivity.
  Qed.

  Lemma tl_fwd_all_missing : forall x : col, all_missing x -> tl_fwd lin None (map (fun c => (c, None)) x) = x.
  Proof.
    induction x as [|c x IH]; intros H; [reflexivity|]. inversion H; subst. cbn [map tl_fwd]. rewrite IH by assumption. reflexivity.
  Qed.

  Lemma time_linear_all_missing : forall x, all_missing x -> time_linear lin x = x.
  Proof. intros x H. unfold time_linear. destruct (ann_all_missing x H) as [_ F]. rewrite F. apply tl_fwd_all_missing. exact H. Qed.

  Lemma ffill_all_missing : forall x, all_missing x -> ffill x = x.
  Proof. unfold ffill. induction x as [|c x IH]; intros H; [reflexivity|]. inversion H; subst. cbn [ffill_from]. rewrite IH by assumption. reflexivity. Qed.

  Lemma bfill_all_missing : forall x, all_missing x -> bfill x = x.
  Proof.
    induction x as [|c x IH]; intros H; [reflexivity|]. inversion H; subst. cbn [bfill present]. rewrite IH by assumption.
    destruct x as [|d x]; [reflexivity|]. inversion H3; subst. reflexivity.
  Qed.

  Lemma fallbacks_all_missing : forall x, all_missing x -> fallbacks lin x = x.
  Proof.
    intros x H. unfold fallbacks.
    assert (E1 : (if has_missing x then time_linear lin x else x) = x) by (destruct (has_missing x); [apply time_linear_all_missing; exact H | reflexivity]).
    rewrite E1.
    assert (E2 : (if has_missing x then ffill x else x) = x) by (destruct (has_missing x); [apply ffill_all_missing; exact H | reflexivity]).
    rewrite E2. destruct (has_missing x); [apply bfill_all_missing; exact H | reflexivity].
  Qed.

  Lemma merge_fill_all_missing : forall x e, all_missing x -> all_missing e -> merge_fill x e = x.
  Proof.
    induction x as [|c x IH]; intros e Hx He; [reflexivity|]. inversion Hx; subst. cbn [merge_fill present].
    destruct e as [|d e]; cbn [hd tl].
    - rewrite IH; [reflexivity | assumption | constructor].
    - inversion He; subst. rewrite IH; [reflexivity | assumption | assumption].
  Qed.

  Lemma flags_all_missing : forall x : col, all_missing x -> flags x x = map (fun _ => false) x.
  Proof.
    induction x as [|c x IH]; intros H; [reflexivity|]. inversion H; subst. unfold flags in *. cbn. rewrite IH by assumption. reflexivity.
  Qed.

  Lemma empty_column_stays_empty : forall c x, all_missing x -> all_missing (est c x) ->
    interp_col lin est c x = x /\ flags x (interp_col lin est c x) = map (fun _ => false) x.
  Proof.
    intros c x Hx He.
    assert (E : interp_col lin est c x = x).
    { unfold interp_col, autocorr_stage. destruct (_ <? _).
      - rewrite merge_fill_all_missing by assumption. apply fallbacks_all_missing. exact Hx.
      - apply fallbacks_all_missing. exact Hx. }
    rewrite E. split; [reflexivity | apply flags_all_missing; exact Hx].
  Qed.

  (* the two last fall-backs alone already complete a column that has a value *)
  Lemma ffill_from_present : forall x prev, prev <> None -> all_present (ffill_from prev x).
  Proof.
    induction x as [|[v|] x IH]; intros prev P; cbn [ffill_from]; [constructor | |].
    - constructor; [discriminate | apply IH; discriminate].
    - constructor; [exact P | apply IH; exact P].
  Qed.
  Lemma bfill_ffill_complete : forall x, has_value x -> all_present (bfill (ffill x)).
  Proof.
    unfold ffill. intros x. generalize (@None A).
    induction x as [|c x IH]; intros prev [v Hv]; [destruct Hv|].
    destruct c as [w|]; cbn [ffill_from bfill].
    - pose proof (ffill_from_present x (Some w)) as P.
      assert (P' : all_present (ffill_from (Some w) x)) by (apply P; discriminate).
      constructor; [cbn; discriminate|]. eapply keeps_all_present; [apply bfill_keeps | exact P'].
    - destruct Hv as [Hv | Hv]; [discriminate|].
      assert (Q : all_present (bfill (ffill_from prev x))) by (apply IH; exists v; auto).
      constructor; auto.
      destruct prev as [p|]; [cbn; discriminate|]. cbn [present].
      destruct (bfill (ffill_from None x)) as [|h t] eqn:B.
      + exfalso. clear - B Hv. destruct x; [destruct Hv|]. cbn in B. destruct c; discriminate.
      + cbn. inversion Q; auto.
  Qed.

  (* ---------------------------------------------------------------- rows, duplicates, reindex *)
  Lemma lookup_cons : forall t (r : row) rows,
    lookup t (r :: rows) = if ts r =? t then Some r else lookup t rows.
  Proof. reflexivity. Qed.

  Lemma lookup_remove_dups_from : forall t (rows : list row) seen,
    lookup t (remove_dups_from seen rows) = if existsb (Z.eqb t) seen then None else lookup t rows.
  Proof.
    intros t. induction rows as [|r rows IH]; intros seen.
    - cbn. destruct (existsb _ seen); reflexivity.
    - cbn [remove_dups_from]. destruct (existsb (Z.eqb (ts r)) seen) eqn:E.
      + rewrite IH, lookup_cons. destruct (ts r =? t) eqn:Et; [|reflexivity].
        apply Z.eqb_eq in Et. subst t. rewrite E. reflexivity.
      + rewrite !lookup_cons, IH. cbn [existsb]. destruct (ts r =? t) eqn:Et.
        * apply Z.eqb_eq in Et. subst t. rewrite E. reflexivity.
        * rewrite Z.eqb_sym, Et. reflexivity.
  Qed.

  Lemma lookup_remove_duplicates : forall t (rows : list row), lookup t (remove_duplicates rows) = lookup t rows.
  Proof. intros. unfold remove_duplicates. rewrite lookup_remove_dups_from. reflexivity. Qed.

  Lemma lookup_map_zero : forall elec t rows,
    lookup t (map (zero_to_nan is_zero elec) rows) = option_map (zero_to_nan is_zero elec) (lookup t rows).
  Proof.
    intros elec t. induction rows as [|r rows IH]; [reflexivity|].
    unfold lookup in *. cbn [map find]. cbn [zero_to_nan ts]. destruct (ts r =? t); [reflexivity | exact IH].
  Qed.

  Lemma lookup_ts : forall t (rows : list row) r, lookup t rows = Some r -> ts r = t /\ In r rows.
  Proof.
    intros t rows r H. apply find_some in H. destruct H as [H1 H2]. apply Z.eqb_eq in H2. auto.
  Qed.

  (* the column handed to the interpolation is, stamp by stamp, what was supplied *)
  Lemma prep_x_eq : forall elec g rows c,
    map (get c) (reindex g (remove_duplicates (map (zero_to_nan is_zero elec) rows))) =
    map (fun t => supplied is_zero elec rows t c) g.
  Proof.
    intros elec g rows c. unfold reindex. rewrite map_map. apply map_ext. intros t.
    rewrite lookup_remove_duplicates, lookup_map_zero. unfold supplied.
    destruct (lookup t rows); cbn [option_map]; [reflexivity | destruct c; reflexivity].
  Qed.

  Lemma prep_col_range_eq : forall elec lo hi rows c,
    prep_col_range is_zero lin est elec lo hi rows c =
    let g := grid lo hi in
    let x := map (fun t => supplied is_zero elec rows t c) g in
    let y := interp_col lin est c x in
    combine (combine g y) (flags x y).
  Proof. intros. unfold prep_col_range. cbn zeta. rewrite prep_x_eq. reflexivity. Qed.

  (* ---------------------------------------------------------------- reading the output list *)
  Lemma out_in : forall (h : Z -> cell) g y t v f, length y = length g ->
    In (t, v, f) (combine (combine g y) (flags (map h g) y)) ->
    In (t, v) (combine g y) /\ f = missing (h t) && present v.
  Proof.
    intros h. induction g as [|t0 g IH]; intros y t v f L H; [destruct H|].
    destruct y as [|v0 y]; [discriminate|]. cbn in H. destruct H as [H | H].
    - inversion H; subst. split; [left; reflexivity | reflexivity].
    - cbn in L. destruct (IH y t v f ltac:(lia) H) as [H1 H2]. split; [right; auto | auto].
  Qed.

  Lemma out_ex : forall (h : Z -> cell) g y t, length y = length g -> In t g ->
    exists v, In (t, v) (combine g y) /\ In (t, v, missing (h t) && present v) (combine (combine g y) (flags (map h g) y)).
  Proof.
    intros h. induction g as [|t0 g IH]; intros y t L H; [destruct H|].
    destruct y as [|v0 y]; [discriminate|]. cbn in L. destruct H as [H | H].
    - subst t0. exists v0. split; left; reflexivity.
    - destruct (IH y t ltac:(lia) H) as [v [H1 H2]]. exists v. split; right; auto.
  Qed.

  Lemma keeps_in : forall (h : Z -> cell) g y t v, keeps (map h g) y -> In (t, v) (combine g y) ->
    forall a, h t = Some a -> v = Some a.
  Proof.
    intros h. induction g as [|t0 g IH]; intros y t v K H a E; [destruct H|].
    inversion K; subst. cbn in H. destruct H as [H | H].
    - inversion H; subst. auto.
    - eapply IH; eauto.
  Qed.

  Lemma all_present_in : forall (g : list Z) (y : col) (t : Z) (v : cell), all_present y -> In (t, v) (combine g y) -> v <> None.
  Proof.
    intros g y t v P H. apply in_combine_r in H. unfold all_present in P. rewrite Forall_forall in P. auto.
  Qed.

  Lemma out_stamps : forall (g : list Z) (y : col) (fl : list bool), length y = length g -> length fl = length g ->
    map (fun p : Z * cell * bool => fst (fst p)) (combine (combine g y) fl) = g.
  Proof.
    induction g as [|t g IH]; intros y fl L1 L2; [reflexivity|].
    destruct y; [discriminate|]. destruct fl; [discriminate|]. cbn in *. f_equal. apply IH; lia.
  Qed.

  Lemma flags_length : forall x y : col, length y = length x -> length (flags x y) = length x.
  Proof. intros. unfold flags. rewrite map_length, combine_length. lia. Qed.

  Lemma sufficiency_gen : forall (h : Z -> cell) g y, keeps (map h g) y ->
    sufficiency_col (combine (combine g y) (flags (map h g) y)) = map (fun t => (t, h t)) g.
  Proof.
    intros h. induction g as [|t g IH]; intros y K; [reflexivity|].
    inversion K as [|a v l y' H1 H2]; subst. cbn [map combine flags sufficiency_col fst snd].
    f_equal; [|apply IH; exact H2].
    f_equal. destruct (h t) as [a|] eqn:E.
    - rewrite (H1 a eq_refl). reflexivity.
    - cbn. destruct v; reflexivity.
  Qed.

  (* ================================================================ the theorems, for a given range *)
  Section Range.
    Variable elec : bool.
    Variables lo hi : Z.
    Variable rows : list row.
    Variable c : colname.
    Let sup := fun t => supplied is_zero elec rows t c.
    Let out := prep_col_range is_zero lin est elec lo hi rows c.

    Lemma range_len : length (interp_col lin est c (map sup (grid lo hi))) = length (grid lo hi).
    Proof. rewrite interp_col_length, map_length. reflexivity. Qed.

    (* flags: interpolated_<col> is true exactly on the cells that were missing and are present now *)
    Lemma flags_exact_l : forall t v f, In (t, v, f) out -> (f = true <-> sup t = None /\ v <> None).
    Proof.
      intros t v f H. unfold out in H. rewrite prep_col_range_eq in H. cbn zeta in H.
      apply out_in in H; [|apply range_len]. destruct H as [_ F]. subst f.
      rewrite andb_true_iff, missing_true, present_true. reflexivity.
    Qed.

    (* a supplied value is in the frame unchanged, and not flagged *)
    Lemma supplied_row_l : forall t v f a, In (t, v, f) out -> sup t = Some a -> v = Some a /\ f = false.
    Proof.
      intros t v f a H E. unfold out in H. rewrite prep_col_range_eq in H. cbn zeta in H.
      apply out_in in H; [|apply range_len]. destruct H as [H F].
      assert (V : v = Some a) by (eapply keeps_in; [apply interp_col_keeps | exact H | exact E]).
      split; auto. subst f. cbn beta. change (sup t) with (supplied is_zero elec rows t c) in E. rewrite E. reflexivity.
    Qed.

    Lemma supplied_preserved_l : forall t a, In t (grid lo hi) -> sup t = Some a -> In (t, Some a, false) out.
    Proof.
      intros t a G E. unfold out. rewrite prep_col_range_eq. cbn zeta.
      destruct (out_ex sup (grid lo hi) (interp_col lin est c (map sup (grid lo hi))) t range_len G) as [v [H1 H2]].
      assert (V : v = Some a) by (eapply keeps_in; [apply interp_col_keeps | exact H1 | exact E]).
      subst v. rewrite E in H2. exact H2.
    Qed.

    Lemma every_stamp_l : forall t, In t (grid lo hi) -> exists v f, In (t, v, f) out.
    Proof.
      intros t G. unfold out. rewrite prep_col_range_eq. cbn zeta.
      destruct (out_ex sup (grid lo hi) (interp_col lin est c (map sup (grid lo hi))) t range_len G) as [v [_ H2]].
      eauto.
    Qed.

    Lemma complete_unless_empty_l :
      (exists t a, In t (grid lo hi) /\ sup t = Some a) -> forall t v f, In (t, v, f) out -> v <> None.
    Proof.
      intros [t0 [a [G E]]] t v f H. unfold out in H. rewrite prep_col_range_eq in H. cbn zeta in H.
      apply out_in in H; [|apply range_len]. destruct H as [H _].
      eapply all_present_in; [|exact H]. apply interp_col_complete.
      exists a. rewrite <- E. apply in_map. exact G.
    Qed.

    Lemma stamps_l : map (fun p : Z * cell * bool => fst (fst p)) out = grid lo hi.
    Proof.
      unfold out. rewrite prep_col_range_eq. cbn zeta. apply out_stamps; [apply range_len|].
      rewrite flags_length; [apply map_length | apply interp_col_length].
    Qed.

    Lemma out_stamp_in_grid : forall t v f, In (t, v, f) out -> In t (grid lo hi).
    Proof.
      intros t v f H. rewrite <- stamps_l. change t with (fst (fst (t, v, f))). apply in_map with (f := fun p : Z * cell * bool => fst (fst p)). exact H.
    Qed.

    (* _create_sufficiency_df gives back exactly what was supplied *)
    Lemma sufficiency_l : sufficiency_col out = map (fun t => (t, sup t)) (grid lo hi).
    Proof.
      unfold out. rewrite prep_col_range_eq. cbn zeta. apply sufficiency_gen. apply interp_col_keeps.
    Qed.
  End Range.

  (* ---------------------------------------------------------------- later duplicates are ignored *)
  Lemma lookup_app : forall t (l1 l2 : list row),
    lookup t (l1 ++ l2) = match lookup t l1 with Some r => Some r | None => lookup t l2 end.
  Proof.
    intros t. induction l1 as [|r l1 IH]; intros l2; [reflexivity|].
    unfold lookup in *. cbn [app find]. destruct (ts r =? t); [reflexivity | apply IH].
  Qed.

  Lemma lookup_later_duplicate : forall t (l1 : list row) r l2 r' l3, ts r' = ts r ->
    lookup t (l1 ++ r :: l2 ++ r' :: l3) = lookup t (l1 ++ r :: l2 ++ l3).
  Proof.
    intros t l1 r l2 r' l3 E. rewrite !lookup_app.
    destruct (lookup t l1); [reflexivity|].
    change (r :: l2 ++ r' :: l3) with ([r] ++ l2 ++ r' :: l3). change (r :: l2 ++ l3) with ([r] ++ l2 ++ l3).
    rewrite !lookup_app. unfold lookup at 1 4. cbn [find]. destruct (ts r =? t) eqn:Et; [reflexivity|].
    destruct (lookup t l2); [reflexivity|].
    unfold lookup. cbn [find]. rewrite E, Et. reflexivity.
  Qed.

  Lemma first_duplicate_wins_range : forall elec lo hi (l1 : list row) r l2 r' l3 c, ts r' = ts r ->
    prep_col_range is_zero lin est elec lo hi (l1 ++ r :: l2 ++ r' :: l3) c =
    prep_col_range is_zero lin est elec lo hi (l1 ++ r :: l2 ++ l3) c.
  Proof.
    intros. rewrite !prep_col_range_eq. cbn zeta.
    assert (E : map (fun t => supplied is_zero elec (l1 ++ r :: l2 ++ r' :: l3) t c) (grid lo hi) =
                map (fun t => supplied is_zero elec (l1 ++ r :: l2 ++ l3) t c) (grid lo hi)).
    { apply map_ext. intros t. unfold supplied. rewrite lookup_later_duplicate by assumption. reflexivity. }
    rewrite E. reflexivity.
  Qed.

  (* min / max stamp do not move either, so the whole frame is the same *)
  Lemma fold_min_le : forall (l : list row) m, fold_left (fun m x => Z.min m (ts x)) l m <= m.
  Proof. induction l as [|x l IH]; intros m; cbn; [lia|]. specialize (IH (Z.min m (ts x))). lia. Qed.
  Lemma fold_min_spec : forall (l : list row) m,
    let r := fold_left (fun m x => Z.min m (ts x)) l m in
    (r = m \/ exists x, In x l /\ r = ts x) /\ (forall x, In x l -> r <= ts x).
  Proof.
    induction l as [|x l IH]; intros m; cbn [fold_left]; cbn zeta.
    - split; [left; reflexivity | intros x []].
    - destruct (IH (Z.min m (ts x))) as [[H1 | [y [Hy1 Hy2]]] H2]; cbn zeta in *.
      + split.
        * destruct (Z.min_spec m (ts x)) as [[_ M] | [_ M]]; [left; lia | right; exists x; split; [left; auto | lia]].
        * intros y [Hy | Hy]; [subst y|auto].
          pose proof (fold_min_le l (Z.min m (ts x))). lia.
      + split; [right; exists y; split; [right; auto | auto]|].
        intros z [Hz | Hz]; [subst z|auto].
        pose proof (fold_min_le l (Z.min m (ts x))). lia.
  Qed.
  Lemma fold_max_ge : forall (l : list row) m, m <= fold_left (fun m x => Z.max m (ts x)) l m.
  Proof. induction l as [|x l IH]; intros m; cbn; [lia|]. specialize (IH (Z.max m (ts x))). lia. Qed.
  Lemma fold_max_spec : forall (l : list row) m,
    let r := fold_left (fun m x => Z.max m (ts x)) l m in
    (r = m \/ exists x, In x l /\ r = ts x) /\ (forall x, In x l -> ts x <= r).
  Proof.
    induction l as [|x l IH]; intros m; cbn [fold_left]; cbn zeta.
    - split; [left; reflexivity | intros x []].
    - destruct (IH (Z.max m (ts x))) as [[H1 | [y [Hy1 Hy2]]] H2]; cbn zeta in *.
      + split.
        * destruct (Z.max_spec m (ts x)) as [[_ M] | [_ M]]; [right; exists x; split; [left; auto | lia] | left; lia].
        * intros y [Hy | Hy]; [subst y|auto].
          pose proof (fold_max_ge l (Z.max m (ts x))). lia.
      + split; [right; exists y; split; [right; auto | auto]|].
        intros z [Hz | Hz]; [subst z|auto].
        pose proof (fold_max_ge l (Z.max m (ts x))). lia.
  Qed.

  (* the first and last stamp of a non-empty input *)
  Definition is_min (rows : list row) (m : Z) : Prop := (exists x, In x rows /\ ts x = m) /\ forall x, In x rows -> m <= ts x.
  Definition is_max (rows : list row) (m : Z) : Prop := (exists x, In x rows /\ ts x = m) /\ forall x, In x rows -> ts x <= m.

  Lemma ts_min_is_min : forall (r : row) rest, is_min (r :: rest) (ts_min r rest).
  Proof.
    intros r rest. unfold ts_min, is_min. destruct (fold_min_spec rest (ts r)) as [H1 H2]. cbn zeta in *.
    pose proof (fold_min_le rest (ts r)) as L. split.
    - destruct H1 as [H1 | [x [Hx1 Hx2]]]; [exists r; split; [left; auto | auto] | exists x; split; [right; auto | auto]].
    - intros x [Hx | Hx]; [subst x; exact L | auto].
  Qed.
  Lemma ts_max_is_max : forall (r : row) rest, is_max (r :: rest) (ts_max r rest).
  Proof.
    intros r rest. unfold ts_max, is_max. destruct (fold_max_spec rest (ts r)) as [H1 H2]. cbn zeta in *.
    pose proof (fold_max_ge rest (ts r)) as L. split.
    - destruct H1 as [H1 | [x [Hx1 Hx2]]]; [exists r; split; [left; auto | auto] | exists x; split; [right; auto | auto]].
    - intros x [Hx | Hx]; [subst x; exact L | auto].
  Qed.
  Lemma is_min_unique : forall rows a b, is_min rows a -> is_min rows b -> a = b.
  Proof. intros rows a b [[x [X1 X2]] HA] [[y [Y1 Y2]] HB]. specialize (HA y Y1). specialize (HB x X1). lia. Qed.
  Lemma is_max_unique : forall rows a b, is_max rows a -> is_max rows b -> a = b.
  Proof. intros rows a b [[x [X1 X2]] HA] [[y [Y1 Y2]] HB]. specialize (HA y Y1). specialize (HB x X1). lia. Qed.

  Lemma frame_range_spec : forall bnds e (rows : list row), rows <> [] ->
    exists tmin tmax, is_min rows tmin /\ is_max rows tmax /\ frame_range bnds e rows = day_range bnds e tmin tmax.
  Proof.
    intros bnds e [|r rest] N; [congruence|].
    exists (ts_min r rest), (ts_max r rest). split; [apply ts_min_is_min|]. split; [apply ts_max_is_max | reflexivity].
  Qed.

  Lemma frame_range_same_stamps : forall bnds e (rows rows' : list row),
    rows <> [] -> rows' <> [] -> (forall t, In t (map ts rows) <-> In t (map ts rows')) ->
    frame_range bnds e rows = frame_range bnds e rows'.
  Proof.
    intros bnds e rows rows' N N' S.
    destruct (frame_range_spec bnds e rows N) as [a [b [HA [HB E]]]].
    destruct (frame_range_spec bnds e rows' N') as [a' [b' [HA' [HB' E']]]].
    rewrite E, E'.
    assert (T : forall m, is_min rows m -> is_min rows' m).
    { intros m [[x [X1 X2]] M]. split.
      - assert (I : In m (map ts rows')) by (apply S; rewrite <- X2; apply in_map; auto).
        apply in_map_iff in I. destruct I as [y [Y1 Y2]]. exists y. auto.
      - intros y Y. assert (I : In (ts y) (map ts rows)) by (apply S; apply in_map; auto).
        apply in_map_iff in I. destruct I as [z [Z1 Z2]]. rewrite <- Z1. auto. }
    assert (U : forall m, is_max rows m -> is_max rows' m).
    { intros m [[x [X1 X2]] M]. split.
      - assert (I : In m (map ts rows')) by (apply S; rewrite <- X2; apply in_map; auto).
        apply in_map_iff in I. destruct I as [y [Y1 Y2]]. exists y. auto.
      - intros y Y. assert (I : In (ts y) (map ts rows)) by (apply S; apply in_map; auto).
        apply in_map_iff in I. destruct I as [z [Z1 Z2]]. rewrite <- Z1. auto. }
    rewrite (is_min_unique rows' a a' (T a HA) HA'), (is_max_unique rows' b b' (U b HB) HB'). reflexivity.
  Qed.

  Lemma first_duplicate_wins_l : forall elec bnds e (l1 : list row) r l2 r' l3 c, ts r' = ts r ->
    prep_col is_zero lin est elec bnds e (l1 ++ r :: l2 ++ r' :: l3) c =
    prep_col is_zero lin est elec bnds e (l1 ++ r :: l2 ++ l3) c.
  Proof.
    intros elec bnds e l1 r l2 r' l3 c E. unfold prep_col.
    rewrite (frame_range_same_stamps bnds e (l1 ++ r :: l2 ++ r' :: l3) (l1 ++ r :: l2 ++ l3)).
    - destruct (frame_range bnds e (l1 ++ r :: l2 ++ l3)) as [lo hi]. apply first_duplicate_wins_range. exact E.
    - destruct l1; discriminate.
    - destruct l1; discriminate.
    - intros t. rewrite !map_app. cbn [map]. rewrite !map_app. cbn [map]. rewrite !in_app_iff. cbn [In]. rewrite !in_app_iff. cbn [In].
      rewrite E. tauto.
  Qed.

  (* ---------------------------------------------------------------- zero electricity readings *)
  Lemma zero_electric_missing_l : forall (rows : list row) t r z,
    lookup t rows = Some r -> r_obs r = Some z -> is_zero z = true ->
    supplied is_zero true rows t Obs = None /\ supplied is_zero false rows t Obs = Some z.
  Proof.
    intros rows t r z L O Z. unfold supplied. rewrite L. cbn [get zero_to_nan r_obs zero_cell].
    rewrite O. cbn [zero_cell]. rewrite Z. cbn. auto.
  Qed.

  Lemma supplied_other_columns : forall elec (rows : list row) t c, c <> Obs ->
    supplied is_zero elec rows t c = match lookup t rows with Some r => get c r | None => None end.
  Proof. intros elec rows t c N. unfold supplied. destruct (lookup t rows); [|reflexivity]. destruct c; [reflexivity | congruence | reflexivity]. Qed.

  Lemma supplied_nonzero : forall elec (rows : list row) t r z,
    lookup t rows = Some r -> r_obs r = Some z -> is_zero z = false -> supplied is_zero elec rows t Obs = Some z.
  Proof.
    intros elec rows t r z L O Z. unfold supplied. rewrite L. cbn [get zero_to_nan r_obs]. rewrite O. cbn [zero_cell].
    rewrite Z, andb_false_r. reflexivity.
  Qed.


  (* ================================================================ the theorems, for the frame the code builds *)
  Definition on_the_hour (bnds : list Z) (rows : list row) : Prop :=
    forall r b, In r rows -> In b bnds -> (ts r - b) mod STEP = 0.
  Definition well_formed (bnds : list Z) (rows : list row) : Prop :=
    rows <> [] /\ ascending bnds /\ hour_aligned bnds /\ (forall r, In r rows -> covers bnds (ts r)) /\ on_the_hour bnds rows.

  Lemma frame_whole_days_l : forall bnds rows lo hi, well_formed bnds rows ->
    frame_range bnds no_skip rows = (lo, hi) ->
    exists tmin tmax, is_min rows tmin /\ is_max rows tmax /\
      (In lo bnds /\ lo <= tmin /\ forall b, In b bnds -> b <= tmin -> b <= lo) /\
      (In (hi + STEP) bnds /\ tmax < hi + STEP /\ forall b, In b bnds -> tmax < b -> hi + STEP <= b) /\
      (forall t, In t (grid lo hi) <-> lo <= t < hi + STEP /\ (t - lo) mod STEP = 0).
  Proof.
    intros bnds rows lo hi [N [Asc [Al [Cov _]]]] E.
    destruct (frame_range_spec bnds no_skip rows N) as [tmin [tmax [Hmin [Hmax E']]]].
    rewrite E in E'. symmetry in E'.
    exists tmin, tmax. split; [exact Hmin|]. split; [exact Hmax|].
    destruct Hmin as [[x [X1 X2]] Mn]. destruct Hmax as [[y [Y1 Y2]] Mx].
    apply (whole_days_range bnds tmin tmax lo hi Asc Al); auto.
    - specialize (Mn y Y1). lia.
    - rewrite <- X2. apply Cov. exact X1.
    - rewrite <- Y2. apply Cov. exact Y1.
  Qed.

  Lemma supplied_stamp_in_frame : forall bnds rows lo hi r, well_formed bnds rows ->
    frame_range bnds no_skip rows = (lo, hi) -> In r rows -> In (ts r) (grid lo hi).
  Proof.
    intros bnds rows lo hi r WF E R.
    destruct (frame_whole_days_l bnds rows lo hi WF E) as [tmin [tmax [[_ Mn] [[_ Mx] [[L1 [L2 _]] [[H1 [H2 _]] G]]]]]].
    apply G. destruct WF as [_ [_ [_ [_ OH]]]]. specialize (OH r lo R L1). specialize (Mn r R). specialize (Mx r R).
    split; [lia | exact OH].
  Qed.


  (* the same, phrased with the day start of the first stamp and the start of the day after the last stamp *)
  Definition day_start_of (bnds : list Z) (t b : Z) : Prop := In b bnds /\ b <= t /\ forall b', In b' bnds -> b' <= t -> b' <= b.
  Definition next_day_of (bnds : list Z) (t b : Z) : Prop := In b bnds /\ t < b /\ forall b', In b' bnds -> t < b' -> b <= b'.
  Definition stamps (o : out_col A) : list Z := map (fun p : Z * cell * bool => fst (fst p)) o.

  Definition whole_days_for (bnds : list Z) (rows : list row) (o : out_col A) : Prop :=
    forall tmin tmax b0 b1, is_min rows tmin -> is_max rows tmax -> day_start_of bnds tmin b0 -> next_day_of bnds tmax b1 ->
    forall t, In t (stamps o) <-> b0 <= t < b1 /\ (t - b0) mod STEP = 0.

  Lemma frame_whole_days_iff : forall elec bnds rows c, well_formed bnds rows ->
    whole_days_for bnds rows (prep_col is_zero lin est elec bnds no_skip rows c).
  Proof.
    intros elec bnds rows c WF tmin tmax b0 b1 Hmin Hmax [D1 [D2 D3]] [N1 [N2 N3]] t.
    unfold stamps, prep_col. destruct (frame_range bnds no_skip rows) as [lo hi] eqn:E.
    rewrite stamps_l.
    destruct (frame_whole_days_l bnds rows lo hi WF E) as [tmin' [tmax' [Hmin' [Hmax' [[L1 [L2 L3]] [[H1 [H2 H3]] G]]]]]].
    rewrite (is_min_unique rows tmin tmin' Hmin Hmin') in *. rewrite (is_max_unique rows tmax tmax' Hmax Hmax') in *.
    assert (b0 = lo) by (specialize (D3 lo L1 L2); specialize (L3 b0 D1 D2); lia).
    assert (b1 = hi + STEP) by (specialize (N3 (hi + STEP) H1 H2); specialize (H3 b1 N1 N2); lia).
    subst b0 b1. apply G.
  Qed.

  Section Frame.
    Variable elec : bool.
    Variable bnds : list Z.
    Variable e : edges.
    Variable rows : list row.
    Variable c : colname.
    Let sup := fun t => supplied is_zero elec rows t c.
    Let out := prep_col is_zero lin est elec bnds e rows c.

    Lemma frame_flags_exact : forall t v f, In (t, v, f) out -> (f = true <-> sup t = None /\ v <> None).
    Proof. unfold out, prep_col. destruct (frame_range bnds e rows) as [lo hi]. apply flags_exact_l. Qed.

    Lemma frame_supplied_row : forall t v f a, In (t, v, f) out -> sup t = Some a -> v = Some a /\ f = false.
    Proof. unfold out, prep_col. destruct (frame_range bnds e rows) as [lo hi]. apply supplied_row_l. Qed.

    Lemma frame_sufficiency : exists lo hi, frame_range bnds e rows = (lo, hi) /\
      sufficiency_col out = map (fun t => (t, sup t)) (grid lo hi).
    Proof.
      unfold out, prep_col. destruct (frame_range bnds e rows) as [lo hi]. exists lo, hi. split; [reflexivity | apply sufficiency_l].
    Qed.

    Lemma frame_gap_free : exists lo hi, frame_range bnds e rows = (lo, hi) /\
      map (fun p : Z * cell * bool => fst (fst p)) out = grid lo hi.
    Proof.
      unfold out, prep_col. destruct (frame_range bnds e rows) as [lo hi]. exists lo, hi. split; [reflexivity | apply stamps_l].
    Qed.

    Lemma frame_complete : (exists t a v f, In (t, v, f) out /\ sup t = Some a) -> forall t v f, In (t, v, f) out -> v <> None.
    Proof.
      unfold out, prep_col. destruct (frame_range bnds e rows) as [lo hi]. intros [t0 [a [v0 [f0 [I S]]]]].
      apply complete_unless_empty_l. exists t0, a. split; [eapply out_stamp_in_grid; exact I | exact S].
    Qed.
  End Frame.

  Lemma frame_supplied_preserved : forall elec bnds rows c r a, well_formed bnds rows -> In r rows ->
    supplied is_zero elec rows (ts r) c = Some a ->
    In (ts r, Some a, false) (prep_col is_zero lin est elec bnds no_skip rows c).
  Proof.
    intros elec bnds rows c r a WF R S. unfold prep_col. destruct (frame_range bnds no_skip rows) as [lo hi] eqn:E.
    apply supplied_preserved_l; [|exact S]. eapply supplied_stamp_in_frame; eauto.
  Qed.

  Lemma frame_complete_wf : forall elec bnds rows c, well_formed bnds rows ->
    (exists r a, In r rows /\ supplied is_zero elec rows (ts r) c = Some a) ->
    forall t v f, In (t, v, f) (prep_col is_zero lin est elec bnds no_skip rows c) -> v <> None.
  Proof.
    intros elec bnds rows c WF [r [a [R S]]]. apply frame_complete.
    exists (ts r), a, (Some a), false. split; [apply frame_supplied_preserved; auto | exact S].
  Qed.

  (* ---------------------------------------------------------------- the finite-map variant computes the same frame *)
  Lemma key_inj : forall lo a b, lo <= a -> lo <= b -> key lo a = key lo b -> a = b.
  Proof. unfold key. intros lo a b Ha Hb E. apply Z2Pos.inj in E; lia. Qed.

  Definition index_step (lo : Z) (m : PositiveMap.t row) (r : row) : PositiveMap.t row :=
    if ts r <? lo then m
    else if PositiveMap.mem (key lo (ts r)) m then m
    else PositiveMap.add (key lo (ts r)) r m.

  Lemma index_fold_find : forall lo t, lo <= t -> forall rows m,
    PositiveMap.find (key lo t) (fold_left (index_step lo) rows m) =
    match PositiveMap.find (key lo t) m with Some r => Some r | None => lookup t rows end.
  Proof.
    intros lo t Ht. induction rows as [|r rows IH]; intros m; cbn [fold_left].
    - destruct (PositiveMap.find _ m); reflexivity.
    - rewrite IH. unfold index_step, lookup. cbn [find]. destruct (ts r <? lo) eqn:E1.
      + apply Z.ltb_lt in E1. assert (N : ts r =? t = false) by (apply Z.eqb_neq; lia). rewrite N. reflexivity.
      + apply Z.ltb_ge in E1. rewrite PositiveMap.mem_find. destruct (PositiveMap.find (key lo (ts r)) m) as [q|] eqn:F.
        * destruct (ts r =? t) eqn:Et; [|reflexivity]. apply Z.eqb_eq in Et. rewrite Et in F. rewrite F. reflexivity.
        * destruct (ts r =? t) eqn:Et.
          -- apply Z.eqb_eq in Et. rewrite <- Et. rewrite PositiveMap.gss. rewrite F. reflexivity.
          -- apply Z.eqb_neq in Et. rewrite PositiveMap.gso; [reflexivity|].
             intros K. apply Et. symmetry. eapply key_inj; eauto.
    Qed.

  Lemma index_rows_find : forall lo t (rows : list row), lo <= t ->
    PositiveMap.find (key lo t) (index_rows lo rows) = lookup t rows.
  Proof.
    intros lo t rows Ht. unfold index_rows.
    change (fun (m : PositiveMap.t row) (r : row) => if ts r <? lo then m else if PositiveMap.mem (key lo (ts r)) m then m else PositiveMap.add (key lo (ts r)) r m)
      with (index_step lo).
    rewrite (index_fold_find lo t Ht). rewrite PositiveMap.gempty. reflexivity.
  Qed.

  Lemma reindex_fast_eq : forall lo g (rows : list row), (forall t, In t g -> lo <= t) ->
    reindex_fast lo g rows = reindex g (remove_duplicates rows).
  Proof.
    intros lo g rows H. unfold reindex_fast, reindex. apply map_ext_in. intros t Ht.
    rewrite index_rows_find by auto. rewrite lookup_remove_duplicates. reflexivity.
  Qed.

  Lemma prep_col_range_fast_eq : forall elec lo hi rows c,
    prep_col_range_fast is_zero lin est elec lo hi rows c = prep_col_range is_zero lin est elec lo hi rows c.
  Proof.
    intros. unfold prep_col_range_fast, prep_col_range. cbn zeta.
    rewrite reindex_fast_eq; [reflexivity|]. intros t Ht. apply grid_In in Ht. lia.
  Qed.

  Lemma prep_col_fast_eq : forall elec bnds e rows c,
    prep_col_fast is_zero lin est elec bnds e rows c = prep_col is_zero lin est elec bnds e rows c.
  Proof.
    intros. unfold prep_col_fast, prep_col. destruct (frame_range bnds e rows). apply prep_col_range_fast_eq.
  Qed.
End Prep.

Lemma not_in_by_existsb : forall t l, existsb (Z.eqb t) l = false -> ~ In t l.
Proof.
  intros t l H I. assert (E : existsb (Z.eqb t) l = true) by (apply existsb_exists; exists t; split; [auto | apply Z.eqb_refl]).
  congruence.
Qed.

(* membership in a concrete frame over Z, decided by computation *)
Definition oz_eqb (a b : option Z) : bool :=
  match a, b with Some x, Some y => x =? y | None, None => true | _, _ => false end.
Definition t3_eqb (p q : Z * option Z * bool) : bool :=
  (fst (fst p) =? fst (fst q)) && oz_eqb (snd (fst p)) (snd (fst q)) && Bool.eqb (snd p) (snd q).
Lemma t3_eqb_eq : forall p q, t3_eqb p q = true -> p = q.
Proof.
  intros [[t v] f] [[t' v'] f']. unfold t3_eqb. cbn [fst snd]. rewrite !andb_true_iff. intros [[H1 H2] H3].
  apply Z.eqb_eq in H1. apply eqb_prop in H3. subst.
  destruct v as [x|], v' as [y|]; cbn in H2; try discriminate; [apply Z.eqb_eq in H2; subst|]; reflexivity.
Qed.
Lemma in_by_t3 : forall p l, existsb (t3_eqb p) l = true -> In p l.
Proof.
  intros p l H. apply existsb_exists in H. destruct H as [q [I E]]. apply t3_eqb_eq in E. subst. exact I.
Qed.

(* ------------------------------------------------------------------ concrete witnesses (payload Z) *)
Definition zlin (v0 v1 d0 d1 : Z) : Z := v0 + (v1 - v0) * d0 / (d0 + d1).
Definition zzero (v : Z) : bool := v =? 0.
Definition id_est (c : colname) (x : col Z) : col Z := x.
Definition R (t : Z) (a b c : option Z) : row Z := mkrow t a b c.

(* one 25-hour day (boundaries 0 and 1500), one supplied row *)
Definition w_bnds : list Z := [0; 1500].
Definition w_rows (t : Z) : list (row Z) := [R t (Some 5) (Some 1) None].

Lemma w_wf : forall t, 0 <= t < 1500 -> t mod 60 = 0 -> well_formed Z w_bnds (w_rows t).
Proof.
  intros t Ht Hm. unfold w_bnds, w_rows.
  split; [discriminate|].
  split; [cbn; repeat split; intros b H; lia|].
  split; [intros b b' H H'; cbn in H, H'; destruct H as [H|[H|[]]]; destruct H' as [H'|[H'|[]]]; subst; reflexivity|].
  split; [intros r H; cbn in H; destruct H as [H|[]]; subst r; split; [exists 0|exists 1500]; cbn; split; auto; lia|].
  intros r b H B; cbn in H, B; destruct H as [H|[]]; destruct B as [B|[B|[]]]; subst; cbn; unfold STEP; lia.
Qed.

Lemma w_min : forall t, is_min Z (w_rows t) t.
Proof. intros t. split; [exists (R t (Some 5) (Some 1) None); split; [left|]; reflexivity | intros x [H | []]; subst; cbn; lia]. Qed.
Lemma w_max : forall t, is_max Z (w_rows t) t.
Proof. intros t. split; [exists (R t (Some 5) (Some 1) None); split; [left|]; reflexivity | intros x [H | []]; subst; cbn; lia]. Qed.
Lemma w_day_start : forall t, 0 <= t < 1500 -> day_start_of w_bnds t 0.
Proof. intros t Ht. split; [left; reflexivity|]. split; [lia|]. intros b' [B | [B | []]] L; subst; lia. Qed.
Lemma w_next_day : forall t, 0 <= t < 1500 -> next_day_of w_bnds t 1500.
Proof. intros t Ht. split; [right; left; reflexivity|]. split; [lia|]. intros b' [B | [B | []]] L; subst; lia. Qed.

Lemma w_last_not_in : ~ In 1440 (stamps Z (prep_col zzero zlin id_est true w_bnds (mkedges 0 120) (w_rows 600) Temp)).
Proof. apply not_in_by_existsb. vm_compute. reflexivity. Qed.
Lemma w_first_not_in : ~ In 0 (stamps Z (prep_col zzero zlin id_est true w_bnds (mkedges 60 60) (w_rows 60) Temp)).
Proof. apply not_in_by_existsb. vm_compute. reflexivity. Qed.

(* a calendar whose second day starts 30 minutes off the hour grid of the first *)
Definition s_bnds : list Z := [0; 1410; 2850].
Definition s_rows : list (row Z) := [R 0 (Some 5) (Some 1) None; R 1470 (Some 9) (Some 2) None].
Lemma s_ascending : ascending s_bnds.
Proof. cbn. repeat split; intros b H; lia. Qed.
Lemma s_covers : forall r, In r s_rows -> covers s_bnds (ts r).
Proof.
  intros r H. cbn in H. destruct H as [H | [H | []]]; subst r; split;
    [exists 0 | exists 1410 | exists 1410 | exists 2850]; cbn; split; auto; lia.
Qed.
Lemma s_supplied : supplied zzero true s_rows 1470 Temp = Some 9.
Proof. reflexivity. Qed.
Lemma s_dropped : ~ In 1470 (stamps Z (prep_col zzero zlin id_est true s_bnds no_skip s_rows Temp)).
Proof. apply not_in_by_existsb. vm_compute. reflexivity. Qed.
Lemma s_filled : In (1440, Some 5, true) (prep_col zzero zlin id_est true s_bnds no_skip s_rows Temp).
Proof. apply in_by_t3. vm_compute. reflexivity. Qed.
