(* Lemmas about Model/Repro.v (C03). *)
From Coq Require Import ZArith List Bool Lia Permutation.
From V Require Import Model.Repro.
Import ListNotations.
Open Scope Z_scope.

(* ---- run over concatenations ---- *)

Lemma run_app : forall h1 h2 s,
  run s (h1 ++ h2) =
  (fst (run (fst (run s h1)) h2), snd (run s h1) ++ snd (run (fst (run s h1)) h2)).
Proof.
  induction h1 as [|o h1 IH]; intros h2 s.
  - cbn [app run fst snd]. destruct (run s h2); reflexivity.
  - cbn [app run]. destruct (step s o) as [s1 r] eqn:E.
    rewrite IH. destruct (run s1 h1) as [s2 rs] eqn:E2. cbn [fst snd].
    destruct (run s2 h2) as [s3 rs3]. reflexivity.
Qed.

Lemma run_one : forall s o, run s [o] = (fst (step s o), [snd (step s o)]).
Proof. intros s o. cbn [run]. destruct (step s o); reflexivity. Qed.

Lemma last_snoc : forall (A : Type) (l : list A) (x d : A), last (l ++ [x]) d = x.
Proof.
  induction l as [|a l IH]; intros x d; [reflexivity|].
  cbn [app]. destruct (l ++ [x]) eqn:E.
  - destruct l; discriminate.
  - rewrite <- E. cbn [last]. rewrite E. rewrite <- E. apply IH.
Qed.

Lemma out_snoc : forall s h o, out (run s (h ++ [o])) = snd (step (fst (run s h)) o).
Proof.
  intros s h o. unfold out. rewrite run_app. cbn [snd]. rewrite run_one. cbn [snd]. apply last_snoc.
Qed.

(* ---- what a step does to the global state ---- *)

Ltac open_objs s :=
  cbn [step];
  repeat match goal with
  | |- context [nth_error (g_objs s) ?k] => destruct (nth_error (g_objs s) k) as [?ob|]
  | |- context [nth_error (g_dbs s) ?k] => destruct (nth_error (g_dbs s) k) as [?db|]
  | |- context [ob_fitted ?o] => destruct (ob_fitted o)
  end;
  unfold revalidate, new_obj, mark_fitted; cbn [ob_seed];
  repeat match goal with
  | |- context [ob_seed ?o] => destruct (ob_seed o)
  end; cbn.


Lemma step_threads : forall s o, g_threads (fst (step s o)) = g_threads s.
Proof.
  intros s o. destruct o as [d c|d c|d c [z|]|d|k|k|n|[|]|c [z|]|k d|k|k|f cfg|k d]; try (cbn; reflexivity); open_objs s; reflexivity.
Qed.

Lemma run_threads : forall h s, g_threads (fst (run s h)) = g_threads s.
Proof.
  induction h as [|o h IH]; intros s; [reflexivity|].
  cbn [run]. destruct (step s o) as [s1 r] eqn:E. specialize (IH s1).
  destruct (run s1 h) as [s2 rs]. cbn [fst] in *. rewrite IH.
  change s1 with (fst (s1, r)). rewrite <- E. apply step_threads.
Qed.

Lemma step_salt : forall s o, g_salt (fst (step s o)) = g_salt s.
Proof.
  intros s o. destruct o as [d c|d c|d c [z|]|d|k|k|n|[|]|c [z|]|k d|k|k|f cfg|k d]; try (cbn; reflexivity); open_objs s; reflexivity.
Qed.

Lemma step_env : forall s o, ct_env (fst (step s o)) = ct_env s.
Proof. intros. unfold ct_env. rewrite step_threads. reflexivity. Qed.

Lemma run_env : forall h s, ct_env (fst (run s h)) = ct_env s.
Proof.
  induction h as [|o h IH]; intros s; [reflexivity|].
  cbn [run]. destruct (step s o) as [s1 r] eqn:E. specialize (IH s1).
  destruct (run s1 h) as [s2 rs]. cbn [fst] in *. rewrite IH.
  change s1 with (fst (s1, r)). rewrite <- E. apply step_env.
Qed.

Lemma step_ct_default : forall s o, g_ct_default (fst (step s o)) = g_ct_default s.
Proof.
  intros s o. destruct o as [d c|d c|d c [z|]|d|k|k|n|[|]|c [z|]|k d|k|k|f cfg|k d]; try (cbn; reflexivity); open_objs s; reflexivity.
Qed.

(* the shared default list of CalTRACKHourlyModelResults is never written, whatever the library is used for *)
Lemma ct_default_never_written : forall h s, g_ct_default (fst (run s h)) = g_ct_default s.
Proof.
  induction h as [|o h IH]; intros s; [reflexivity|].
  cbn [run]. destruct (step s o) as [s1 r] eqn:E. specialize (IH s1).
  destruct (run s1 h) as [s2 rs]. cbn [fst] in *. rewrite IH.
  change s1 with (fst (s1, r)). rewrite <- E. apply step_ct_default.
Qed.

Lemma step_models : forall s o, g_models (fst (step s o)) = g_models s ++ [snd (step s o)].
Proof.
  intros s o. destruct o as [d c|d c|d c [z|]|d|k|k|n|[|]|c [z|]|k d|k|k|f cfg|k d]; try (cbn; reflexivity); open_objs s; reflexivity.
Qed.

Lemma run_models : forall h s, g_models (fst (run s h)) = g_models s ++ snd (run s h).
Proof.
  induction h as [|o h IH]; intros s.
  - cbn. rewrite app_nil_r. reflexivity.
  - cbn [run]. destruct (step s o) as [s1 r] eqn:E. specialize (IH s1).
    destruct (run s1 h) as [s2 rs]. cbn [fst snd] in *. rewrite IH.
    assert (H : g_models s1 = g_models s ++ [r]).
    { change s1 with (fst (s1, r)). change r with (snd (s1, r)) at 2. rewrite <- E. apply step_models. }
    rewrite H. rewrite <- app_assoc. reflexivity.
Qed.

Lemma run_length : forall h s, length (snd (run s h)) = length h.
Proof.
  induction h as [|o h IH]; intros s; [reflexivity|].
  cbn [run]. destruct (step s o) as [s1 r]. specialize (IH s1). destruct (run s1 h). cbn [snd length] in *. lia.
Qed.

(* a seeded fit, as coded, does not move numpy's global generator *)
Lemma clean_keeps_rng : forall s o, rng_clean o = true -> g_rng (fst (step s o)) = g_rng s.
Proof.
  intros s o H. destruct o as [d c|d c|d c [z|]|d|k|k|n|[|]|c [z|]|k d|k|k|f cfg|k d]; cbn in *; try discriminate; try reflexivity.
Qed.

(* ---- the result of a seeded fit is a function of the operation (and, for CalTRACK, of the pool size) ---- *)

Lemma step_seeded_pure : forall s o, seeded o = true -> snd (step s o) = pure_out (ct_env s) o.
Proof.
  intros s o H. destruct o as [d c|d c|d c [z|]|d|k|k|n|[|]|c [z|]|k d|k|k|f cfg|k d]; cbn in *; try discriminate; reflexivity.
Qed.

Lemma pure_out_threads : forall o t1 t2, thread_sensitive o = false -> pure_out t1 o = pure_out t2 o.
Proof. intros o t1 t2 H. destruct o as [d c|d c|d c [z|]|d|k|k|n|[|]|c [z|]|k d|k|k|f cfg|k d]; cbn in *; try discriminate; reflexivity. Qed.

Lemma history_independent_same_pool : forall o s1 s2 h1 h2, seeded o = true -> ct_env s1 = ct_env s2 ->
  out (run s1 (h1 ++ [o])) = out (run s2 (h2 ++ [o])).
Proof.
  intros o s1 s2 h1 h2 Hs Ht. rewrite !out_snoc. rewrite !step_seeded_pure by exact Hs.
  rewrite !run_env. rewrite Ht. reflexivity.
Qed.

Lemma history_independent : forall o s1 s2 h1 h2, seeded o = true -> thread_sensitive o = false ->
  out (run s1 (h1 ++ [o])) = out (run s2 (h2 ++ [o])).
Proof.
  intros o s1 s2 h1 h2 Hs Ht. rewrite !out_snoc. rewrite !step_seeded_pure by exact Hs.
  apply pure_out_threads. exact Ht.
Qed.

(* a whole batch of seeded fits: every result is the pure function of its own operation, so the order of the batch
   permutes the results and changes none *)
Lemma batch_pure : forall h s, forallb seeded h = true -> snd (run s h) = map (pure_out (ct_env s)) h.
Proof.
  induction h as [|o h IH]; intros s H; [reflexivity|].
  cbn [forallb] in H. apply andb_prop in H. destruct H as [Ho Hh].
  cbn [run map]. destruct (step s o) as [s1 r] eqn:E.
  specialize (IH s1 Hh). destruct (run s1 h) as [s2 rs]. cbn [snd] in *.
  assert (Hr : r = pure_out (ct_env s) o).
  { change r with (snd (s1, r)). rewrite <- E. apply step_seeded_pure. exact Ho. }
  assert (Ht : ct_env s1 = ct_env s).
  { change s1 with (fst (s1, r)). rewrite <- E. apply step_env. }
  rewrite IH, Hr, Ht. reflexivity.
Qed.

Lemma batch_order : forall h1 h2 s1 s2, Permutation h1 h2 -> forallb seeded h1 = true -> ct_env s1 = ct_env s2 ->
  Permutation (snd (run s1 h1)) (snd (run s2 h2)).
Proof.
  intros h1 h2 s1 s2 P H Ht.
  assert (H2 : forallb seeded h2 = true).
  { rewrite forallb_forall in *. intros x Hx. apply H. eapply Permutation_in; [apply Permutation_sym; exact P|exact Hx]. }
  rewrite (batch_pure h1 s1 H), (batch_pure h2 s2 H2), Ht. apply Permutation_map. exact P.
Qed.

(* prediction with the model of a seeded fit, after any history of the process *)
Lemma predict_after_history : forall o p t h, seeded o = true ->
  out (run (init p t) (h ++ [o; Predict (length h)])) = RPredict (pure_out (ct_env (init p t)) o).
Proof.
  intros o p t h Hs.
  change (h ++ [o; Predict (length h)]) with (h ++ ([o] ++ [Predict (length h)])).
  rewrite app_assoc. rewrite out_snoc.
  set (s := fst (run (init p t) (h ++ [o]))).
  assert (Hm : g_models s = snd (run (init p t) h) ++ [pure_out (ct_env (init p t)) o]).
  { unfold s. rewrite run_models. cbn [init g_models app]. rewrite run_app. cbn [snd]. rewrite run_one. cbn [snd].
    rewrite step_seeded_pure by exact Hs. rewrite run_env. reflexivity. }
  cbn [step]. unfold with_result. cbn [snd]. rewrite Hm.
  rewrite nth_error_app2 by (rewrite run_length; lia).
  rewrite run_length, Nat.sub_diag. cbn [nth_error].
  destruct o as [d c|d c|d c [z|]|d|k|k|n|[|]|c [z|]|k d|k|k|f cfg|k d]; cbn in *; try discriminate; reflexivity.
Qed.

(* ---- the seed reaches every consumer ---- *)

Definition consumer_rs (c : consumer) : option (sd * Z) :=
  match c with CElasticNet r => r | CKMeans r => r end.

Lemma kmeans_rs : forall n b i,
  map consumer_rs (kmeans_consumers b i n) = map (fun k => Some (b, i + Z.of_nat k)) (seq 0 n).
Proof.
  induction n as [|n IH]; intros b i; [reflexivity|].
  cbn [kmeans_consumers map seq]. rewrite IH. f_equal.
  - cbn. rewrite Z.add_0_r. reflexivity.
  - rewrite <- seq_shift. rewrite map_map. apply map_ext. intros k. f_equal. f_equal. lia.
Qed.

Lemma hourly_consumers_rs : forall c b,
  map consumer_rs (hourly_consumers c b) =
  Some (b, 0) :: map (fun k => Some (b, Z.of_nat k)) (seq 0 (h_recluster c)).
Proof. intros c b. unfold hourly_consumers. cbn [map consumer_rs]. rewrite kmeans_rs. reflexivity. Qed.

Lemma seed_reaches_every_consumer_l : forall s d c z,
  exists cs, snd (step s (FitHourly d c (Some z))) = RFit Hourly d (h_id c) 0 cs /\
    length cs = S (h_recluster c) /\
    (forall x, In x cs -> exists i, 0 <= i < Z.max 1 (Z.of_nat (h_recluster c)) /\ consumer_rs x = Some (SdLit z, i)) /\
    map consumer_rs cs = Some (SdLit z, 0) :: map (fun k => Some (SdLit z, Z.of_nat k)) (seq 0 (h_recluster c)).
Proof.
  intros s d c z. exists (hourly_consumers c (SdLit z)). split; [reflexivity|].
  assert (Hm := hourly_consumers_rs c (SdLit z)).
  split.
  { rewrite <- (map_length consumer_rs), Hm. cbn [length]. rewrite map_length, seq_length. reflexivity. }
  split; [|exact Hm].
  intros x Hx. apply (in_map consumer_rs) in Hx. rewrite Hm in Hx. destruct Hx as [Hx|Hx].
  - exists 0. split; [lia|]. symmetry. exact Hx.
  - apply in_map_iff in Hx. destruct Hx as [k [Hk Hin]]. apply in_seq in Hin.
    exists (Z.of_nat k). split; [lia|]. symmetry. exact Hk.
Qed.

(* ---- the unseeded hourly fit is the seeded fit with the value numpy's generator yields in the current state ---- *)

Lemma norm_kmeans : forall tbl n st z i, lookup_draw tbl st = Some z ->
  map (norm_consumer tbl) (kmeans_consumers (SdDraw st) i n) = kmeans_consumers (SdLit z) i n.
Proof.
  induction n as [|n IH]; intros st z i H; [reflexivity|].
  cbn [kmeans_consumers map]. rewrite (IH st z (i + 1) H). cbn. rewrite H. reflexivity.
Qed.

Lemma norm_kmeans_lit : forall tbl n z i,
  map (norm_consumer tbl) (kmeans_consumers (SdLit z) i n) = kmeans_consumers (SdLit z) i n.
Proof.
  induction n as [|n IH]; intros z i; [reflexivity|].
  cbn [kmeans_consumers map]. rewrite IH. reflexivity.
Qed.

Lemma unseeded_is_seeded_with_draw : forall tbl s s' d c z, lookup_draw tbl (g_rng s) = Some z ->
  norm_res tbl (snd (step s (FitHourly d c None))) = norm_res tbl (snd (step s' (FitHourly d c (Some z)))).
Proof.
  intros tbl s s' d c z H. cbn [step with_result snd norm_res thread_class]. unfold hourly_consumers.
  cbn [map norm_consumer norm_rs norm_sd]. rewrite H. rewrite (norm_kmeans tbl _ _ z 0 H). rewrite norm_kmeans_lit.
  reflexivity.
Qed.

(* ---- interpretation by any fit function ---- *)
Lemma interp_eq : forall (M : Type) fitf predf (none : M) r1 r2, r1 = r2 -> interp M fitf predf none r1 = interp M fitf predf none r2.
Proof. intros. subst. reflexivity. Qed.

(* ---- settings objects: a fit reads its own object, and nothing else writes to it ---- *)

Lemma set_nth_other : forall (A : Type) (l : list A) j k (x : A), j <> k -> nth_error (set_nth j x l) k = nth_error l k.
Proof.
  induction l as [|a l IH]; intros j k x H; [destruct j; reflexivity|].
  destruct j, k; cbn; try reflexivity; try congruence. apply IH. congruence.
Qed.

Lemma set_nth_length : forall (A : Type) (l : list A) j (x : A), length (set_nth j x l) = length l.
Proof. induction l as [|a l IH]; intros j x; [destruct j; reflexivity|]. destruct j; cbn; [reflexivity|]. rewrite IH. reflexivity. Qed.

Lemma nth_error_app_some : forall (A : Type) (l m : list A) k (x : A), nth_error l k = Some x -> nth_error (l ++ m) k = Some x.
Proof.
  intros A l m k x H. rewrite nth_error_app1; [exact H|]. apply nth_error_Some. congruence.
Qed.

(* an operation that does not use object k leaves it exactly as it was (constructing, fitting, serialising, loading
   OTHER models, whatever their seeds) *)
Lemma step_keeps_object : forall s o k ob, touches o k = false -> nth_error (g_objs s) k = Some ob ->
  nth_error (g_objs (fst (step s o))) k = Some ob.
Proof.
  intros s o k ob Ht Hk.
  destruct o as [d c|d c|d c [z|]|d|j|j|n|[|]|c [z|]|j d|j|j|f cfg|j d]; try (cbn; exact Hk).
  - cbn. apply nth_error_app_some. exact Hk.
  - cbn. apply nth_error_app_some. exact Hk.
  - cbn [touches] in Ht. apply Nat.eqb_neq in Ht. cbn [step].
    destruct (nth_error (g_objs s) j) as [o1|]; [|cbn; exact Hk].
    unfold revalidate, mark_fitted. cbn [ob_seed]. destruct (ob_seed o1); cbn; rewrite set_nth_other by exact Ht; exact Hk.
  - cbn [touches] in Ht. apply Nat.eqb_neq in Ht. cbn [step].
    destruct (nth_error (g_objs s) j) as [o1|]; [|cbn; exact Hk].
    destruct (ob_fitted o1); [|cbn; exact Hk].
    unfold revalidate. destruct (ob_seed o1); cbn; rewrite set_nth_other by exact Ht; exact Hk.
  - cbn [touches] in Ht. apply Nat.eqb_neq in Ht. cbn [step].
    destruct (nth_error (g_objs s) j) as [o1|]; [|cbn; exact Hk].
    destruct (ob_fitted o1); [|cbn; exact Hk].
    unfold revalidate, new_obj. destruct (ob_seed o1); cbn; apply nth_error_app_some; rewrite set_nth_other by exact Ht; exact Hk.
  - cbn [step]. destruct (nth_error (g_dbs s) j); cbn; exact Hk.
Qed.

Lemma run_keeps_object : forall h s k ob, forallb (fun o => negb (touches o k)) h = true ->
  nth_error (g_objs s) k = Some ob -> nth_error (g_objs (fst (run s h))) k = Some ob.
Proof.
  induction h as [|o h IH]; intros s k ob H Hk; [exact Hk|].
  cbn [forallb] in H. apply andb_prop in H. destruct H as [Ho Hh]. apply negb_true_iff in Ho.
  cbn [run]. destruct (step s o) as [s1 r] eqn:E.
  assert (H1 : nth_error (g_objs s1) k = Some ob).
  { change s1 with (fst (s1, r)). rewrite <- E. apply step_keeps_object; assumption. }
  specialize (IH s1 k ob Hh H1). destruct (run s1 h) as [s2 rs]. exact IH.
Qed.

(* the outcome of fitting object k depends on that object alone *)
Lemma fitobj_own_object : forall s1 s2 k d, nth_error (g_objs s1) k = nth_error (g_objs s2) k ->
  snd (step s1 (FitObj k d)) = snd (step s2 (FitObj k d)).
Proof.
  intros s1 s2 k d H. cbn [step]. rewrite H. destruct (nth_error (g_objs s2) k) as [o|]; [|reflexivity].
  unfold revalidate, mark_fitted. cbn [ob_seed]. destruct (ob_seed o); reflexivity.
Qed.

(* construct a seeded model, do anything at all with OTHER models (construct, fit, to_json, from_json, seeded or not),
   fit it afterwards: the result is the one of constructing and fitting it straight away *)
Lemma construct_interleave_fit : forall s h c z d,
  forallb (fun o => negb (touches o (length (g_objs s)))) h = true ->
  out (run s (NewHourly c (Some z) :: h ++ [FitObj (length (g_objs s)) d])) =
  RFit Hourly d (h_id c) 0 (hourly_consumers c (SdLit z)).
Proof.
  intros s h c z d H.
  change (NewHourly c (Some z) :: h ++ [FitObj (length (g_objs s)) d])
    with ((NewHourly c (Some z) :: h) ++ [FitObj (length (g_objs s)) d]).
  rewrite out_snoc.
  set (ob := {| ob_cfg := c; ob_seed := Some z; ob_en := SdLit z; ob_eff := SdLit z; ob_fitted := false |}).
  assert (Hk : nth_error (g_objs (fst (run s (NewHourly c (Some z) :: h)))) (length (g_objs s)) = Some ob).
  { cbn [run]. destruct (step s (NewHourly c (Some z))) as [s1 r] eqn:E.
    assert (H1 : nth_error (g_objs s1) (length (g_objs s)) = Some ob).
    { change s1 with (fst (s1, r)). rewrite <- E. cbn. rewrite nth_error_app2 by apply Nat.le_refl.
      rewrite Nat.sub_diag. reflexivity. }
    pose proof (run_keeps_object h s1 _ ob H H1) as H2. destruct (run s1 h) as [s2 rs]. exact H2. }
  cbn [step]. rewrite Hk. reflexivity.
Qed.

(* ---- re-using one model object: its own prior state is not read by a fit ---- *)

Lemma set_nth_same : forall (A : Type) (l : list A) k (x y : A), nth_error l k = Some y -> nth_error (set_nth k x l) k = Some x.
Proof.
  induction l as [|a l IH]; intros k x y H; [destruct k; discriminate|].
  destruct k; cbn in *; [reflexivity|]. eapply IH. exact H.
Qed.

(* what a fit reads of an hourly object *)
Definition ob_core (o : hobj) := (ob_cfg o, ob_seed o, ob_en o, ob_eff o).

(* whatever is done in the process -- including fitting, serialising and reloading THIS object -- a seeded object keeps its core *)
Lemma step_keeps_seeded_core : forall s o k ob z, nth_error (g_objs s) k = Some ob -> ob_seed ob = Some z ->
  exists ob', nth_error (g_objs (fst (step s o))) k = Some ob' /\ ob_core ob' = ob_core ob.
Proof.
  intros s o k ob z Hk Hz.
  destruct (touches o k) eqn:Ht.
  - destruct o as [d c|d c|d c [z0|]|d|j|j|n|[|]|c [z0|]|j d|j|j|f cfg|j d]; try discriminate;
      cbn [touches] in Ht; apply Nat.eqb_eq in Ht; subst j; cbn [step]; rewrite Hk.
    + unfold revalidate, mark_fitted. cbn [ob_seed]. rewrite Hz. cbn.
      eexists. split; [eapply set_nth_same; exact Hk|]. unfold ob_core. cbn. rewrite ?Hz. reflexivity.
    + destruct (ob_fitted ob).
      * unfold revalidate. rewrite Hz. cbn. eexists. split; [eapply set_nth_same; exact Hk|unfold ob_core; cbn; rewrite ?Hz; reflexivity].
      * cbn. exists ob. split; [exact Hk|reflexivity].
    + destruct (ob_fitted ob).
      * unfold revalidate, new_obj. rewrite Hz. cbn. eexists. split.
        { apply nth_error_app_some. eapply set_nth_same. exact Hk. }
        unfold ob_core; cbn; rewrite ?Hz; reflexivity.
      * cbn. exists ob. split; [exact Hk|reflexivity].
  - exists ob. split; [apply step_keeps_object; assumption|reflexivity].
Qed.

Lemma run_keeps_seeded_core : forall h s k ob z, nth_error (g_objs s) k = Some ob -> ob_seed ob = Some z ->
  exists ob', nth_error (g_objs (fst (run s h))) k = Some ob' /\ ob_core ob' = ob_core ob.
Proof.
  induction h as [|o h IH]; intros s k ob z Hk Hz; [exists ob; split; [exact Hk|reflexivity]|].
  cbn [run]. destruct (step s o) as [s1 r] eqn:E.
  destruct (step_keeps_seeded_core s o k ob z Hk Hz) as [ob1 [H1 C1]]. rewrite E in H1. cbn [fst] in H1.
  assert (Hz1 : ob_seed ob1 = Some z). { unfold ob_core in C1. inversion C1. congruence. }
  destruct (IH s1 k ob1 z H1 Hz1) as [ob2 [H2 C2]].
  destruct (run s1 h) as [s2 rs]. exists ob2. split; [exact H2|congruence].
Qed.

Lemma fitobj_reads_core : forall s k d ob, nth_error (g_objs s) k = Some ob ->
  snd (step s (FitObj k d)) =
  RFit Hourly d (h_id (ob_cfg ob)) 0 (CElasticNet (Some (ob_en ob, 0)) :: kmeans_consumers (ob_eff ob) 0 (h_recluster (ob_cfg ob))).
Proof.
  intros s k d ob H. cbn [step]. rewrite H. unfold revalidate, mark_fitted. cbn [ob_seed]. destruct (ob_seed ob); reflexivity.
Qed.

(* construct a seeded model, then ANYTHING (fits of this very object on other data or the same data included), then fit:
   the result of a fresh object fitted at once *)
Lemma refit_equals_fresh : forall s h c z d,
  out (run s (NewHourly c (Some z) :: h ++ [FitObj (length (g_objs s)) d])) =
  RFit Hourly d (h_id c) 0 (hourly_consumers c (SdLit z)).
Proof.
  intros s h c z d.
  change (NewHourly c (Some z) :: h ++ [FitObj (length (g_objs s)) d])
    with ((NewHourly c (Some z) :: h) ++ [FitObj (length (g_objs s)) d]).
  rewrite out_snoc.
  set (ob := {| ob_cfg := c; ob_seed := Some z; ob_en := SdLit z; ob_eff := SdLit z; ob_fitted := false |}).
  assert (Hk : exists ob', nth_error (g_objs (fst (run s (NewHourly c (Some z) :: h)))) (length (g_objs s)) = Some ob' /\
                           ob_core ob' = ob_core ob).
  { cbn [run]. destruct (step s (NewHourly c (Some z))) as [s1 r] eqn:E.
    assert (H1 : nth_error (g_objs s1) (length (g_objs s)) = Some ob).
    { change s1 with (fst (s1, r)). rewrite <- E. cbn. rewrite nth_error_app2 by apply Nat.le_refl.
      rewrite Nat.sub_diag. reflexivity. }
    destruct (run_keeps_seeded_core h s1 _ ob z H1 eq_refl) as [ob2 [H2 C2]].
    destruct (run s1 h) as [s2 rs]. exists ob2. split; assumption. }
  destruct Hk as [ob' [Hk C]]. rewrite (fitobj_reads_core _ _ _ ob' Hk).
  unfold ob_core in C. subst ob. cbn in C. injection C as Hc Hs He Hf. rewrite Hc, He, Hf. reflexivity.
Qed.

(* daily / billing objects *)
Lemma step_keeps_db : forall s o k ob, nth_error (g_dbs s) k = Some ob ->
  exists ob', nth_error (g_dbs (fst (step s o))) k = Some ob' /\ db_fam ob' = db_fam ob /\ db_cfg ob' = db_cfg ob.
Proof.
  intros s o k ob Hk.
  destruct o as [d c|d c|d c [z0|]|d|j|j|n|[|]|c [z0|]|j d|j|j|f cfg|j d];
    try (exists ob; split; [cbn; exact Hk|split; reflexivity]).
  - exists ob. split; [|split; reflexivity]. cbn [step].
    destruct (nth_error (g_objs s) j) as [o1|]; [|cbn; exact Hk].
    unfold revalidate, mark_fitted. cbn [ob_seed]. destruct (ob_seed o1); cbn; exact Hk.
  - exists ob. split; [|split; reflexivity]. cbn [step].
    destruct (nth_error (g_objs s) j) as [o1|]; [|cbn; exact Hk].
    destruct (ob_fitted o1); [|cbn; exact Hk]. unfold revalidate. destruct (ob_seed o1); cbn; exact Hk.
  - exists ob. split; [|split; reflexivity]. cbn [step].
    destruct (nth_error (g_objs s) j) as [o1|]; [|cbn; exact Hk].
    destruct (ob_fitted o1); [|cbn; exact Hk]. unfold revalidate, new_obj. destruct (ob_seed o1); cbn; exact Hk.
  - exists ob. split; [|split; reflexivity]. cbn. apply nth_error_app_some. exact Hk.
  - cbn [step]. destruct (nth_error (g_dbs s) j) as [o1|] eqn:Ej; [|exists ob; split; [cbn; exact Hk|split; reflexivity]].
    destruct (Nat.eq_dec j k) as [->|Hne].
    + rewrite Hk in Ej. inversion Ej; subst o1. eexists. split; [cbn; eapply set_nth_same; exact Hk|split; reflexivity].
    + exists ob. split; [cbn; rewrite set_nth_other by exact Hne; exact Hk|split; reflexivity].
Qed.

Lemma run_keeps_db : forall h s k ob, nth_error (g_dbs s) k = Some ob ->
  exists ob', nth_error (g_dbs (fst (run s h))) k = Some ob' /\ db_fam ob' = db_fam ob /\ db_cfg ob' = db_cfg ob.
Proof.
  induction h as [|o h IH]; intros s k ob Hk; [exists ob; split; [exact Hk|split; reflexivity]|].
  cbn [run]. destruct (step s o) as [s1 r] eqn:E.
  destruct (step_keeps_db s o k ob Hk) as [ob1 [H1 [F1 C1]]]. rewrite E in H1. cbn [fst] in H1.
  destruct (IH s1 k ob1 H1) as [ob2 [H2 [F2 C2]]].
  destruct (run s1 h) as [s2 rs]. exists ob2. split; [exact H2|split; congruence].
Qed.

(* fit(A) ... fit(B) on ONE daily/billing object: the last fit is the fit of a fresh object *)
Lemma refit_db_equals_fresh : forall s h f cfg d,
  out (run s (NewDB f cfg :: h ++ [FitDB (length (g_dbs s)) d])) = RFit f d cfg (thread_class f (ct_env s)) [].
Proof.
  intros s h f cfg d.
  change (NewDB f cfg :: h ++ [FitDB (length (g_dbs s)) d]) with ((NewDB f cfg :: h) ++ [FitDB (length (g_dbs s)) d]).
  rewrite out_snoc.
  set (ob := {| db_fam := f; db_cfg := cfg; db_last := None |}).
  assert (Hk : exists ob', nth_error (g_dbs (fst (run s (NewDB f cfg :: h)))) (length (g_dbs s)) = Some ob' /\
                           db_fam ob' = f /\ db_cfg ob' = cfg).
  { cbn [run]. destruct (step s (NewDB f cfg)) as [s1 r] eqn:E.
    assert (H1 : nth_error (g_dbs s1) (length (g_dbs s)) = Some ob).
    { change s1 with (fst (s1, r)). rewrite <- E. cbn. rewrite nth_error_app2 by apply Nat.le_refl.
      rewrite Nat.sub_diag. reflexivity. }
    destruct (run_keeps_db h s1 _ ob H1) as [ob2 [H2 [F2 C2]]].
    destruct (run s1 h) as [s2 rs]. exists ob2. split; [exact H2|split; assumption]. }
  destruct Hk as [ob' [Hk [Hf Hc]]]. cbn [step]. rewrite Hk. cbn [snd with_dbs with_result]. rewrite Hf, Hc.
  rewrite run_env. reflexivity.
Qed.
