(* Lemmas about Model/Rows.v (C07; the row-accounting lemmas are meant to be reused by C05/C06). *)
From Coq Require Import ZArith QArith List Bool Lia Permutation Sorted.
From V Require Import Model.Rows.
Import ListNotations.
Open Scope Z_scope.

(* ---------------------------------------------------------------- sort_by *)
Section SortFacts.
  Variable B : Type.
  Variable key : B -> Z.

  Lemma insert_by_perm : forall x l, Permutation (insert_by key x l) (x :: l).
  Proof.
    intros x. induction l as [|y l IH]; cbn [insert_by]; [apply Permutation_refl|].
    destruct (key x <=? key y); [apply Permutation_refl|].
    eapply Permutation_trans; [apply perm_skip; exact IH | apply perm_swap].
  Qed.

  Lemma sort_by_perm : forall l, Permutation (sort_by key l) l.
  Proof.
    induction l as [|x l IH]; [apply Permutation_refl|].
    unfold sort_by. cbn [fold_right]. fold (sort_by key l).
    eapply Permutation_trans; [apply insert_by_perm | apply perm_skip; exact IH].
  Qed.

  Lemma sort_by_In : forall l x, In x (sort_by key l) <-> In x l.
  Proof.
    intros l x. split; intros H.
    - eapply Permutation_in; [apply sort_by_perm | exact H].
    - eapply Permutation_in; [apply Permutation_sym; apply sort_by_perm | exact H].
  Qed.

  Definition key_le (a b : B) : Prop := key a <= key b.

  Lemma insert_by_sorted : forall x l, LocallySorted key_le l -> LocallySorted key_le (insert_by key x l).
  Proof.
    intros x l H. induction H as [|y|y z l H IH Hyz]; cbn [insert_by].
    - constructor.
    - destruct (key x <=? key y) eqn:E.
      + constructor; [constructor | unfold key_le; lia].
      + constructor; [constructor | unfold key_le; lia].
    - destruct (key x <=? key y) eqn:E.
      + constructor; [constructor; assumption | unfold key_le; lia].
      + cbn [insert_by] in IH. destruct (key x <=? key z) eqn:E2.
        * constructor; [exact IH | unfold key_le; lia].
        * constructor; [exact IH | exact Hyz].
  Qed.

  Lemma sort_by_sorted : forall l, LocallySorted key_le (sort_by key l).
  Proof.
    induction l as [|x l IH]; [constructor|].
    unfold sort_by. cbn [fold_right]. fold (sort_by key l). apply insert_by_sorted. exact IH.
  Qed.
End SortFacts.
Arguments key_le {B} key a b.

Lemma filter_split_perm : forall (B : Type) (p : B -> bool) l,
  Permutation (filter p l ++ filter (fun x => negb (p x)) l) l.
Proof.
  intros B p. induction l as [|x l IH]; cbn [filter]; [apply Permutation_refl|].
  destruct (p x); cbn [negb app].
  - apply perm_skip. exact IH.
  - eapply Permutation_trans; [apply Permutation_sym; apply Permutation_middle|]. apply perm_skip. exact IH.
Qed.

Lemma filter_ext_in' : forall (B : Type) (p q : B -> bool) l,
  (forall x, In x l -> p x = q x) -> filter p l = filter q l.
Proof.
  intros B p q. induction l as [|x l IH]; intros H; [reflexivity|].
  cbn [filter]. rewrite (H x (or_introl eq_refl)), IH; [reflexivity|].
  intros y Hy. apply H. right. exact Hy.
Qed.

(* ---------------------------------------------------------------- row accounting *)
Section RowFacts.
  Variable A : Type.
  Variable f : Z -> A -> A.
  Notation row := (row A).
  Notation orow := (orow A).

  Definition kept_of (has_obs : bool) (rows : list row) := fst (initialize_data has_obs rows).
  Definition dropped_of (has_obs : bool) (rows : list row) := snd (initialize_data has_obs rows).

  Lemma kept_In : forall has_obs rows r,
    In r (kept_of has_obs rows) <-> In r rows /\ complete has_obs r = true.
  Proof.
    intros. unfold kept_of, initialize_data. cbn [fst]. rewrite filter_In, sort_by_In. tauto.
  Qed.

  Lemma dropped_In : forall has_obs rows r,
    In r (dropped_of has_obs rows) <->
    In r rows /\ label_in (kept_of has_obs rows) (ts r) = false.
  Proof.
    intros. unfold dropped_of, kept_of, initialize_data. cbn [fst snd].
    rewrite filter_In, sort_by_In, negb_true_iff. tauto.
  Qed.

  (* a dropped row is never a complete one (whatever the labels are) *)
  Lemma dropped_incomplete : forall has_obs rows r,
    In r (dropped_of has_obs rows) -> complete has_obs r = false.
  Proof.
    intros has_obs rows r H. apply dropped_In in H. destruct H as [Hin Hl].
    destruct (complete has_obs r) eqn:E; [|reflexivity].
    assert (Hk : In r (kept_of has_obs rows)) by (apply kept_In; tauto).
    unfold label_in in Hl. rewrite <- not_true_iff_false in Hl. exfalso. apply Hl.
    apply existsb_exists. exists r. split; [exact Hk | apply Z.eqb_refl].
  Qed.

  Lemma label_unique : forall (l : list row) a b,
    NoDup (map (@ts A) l) -> In a l -> In b l -> ts a = ts b -> a = b.
  Proof.
    induction l as [|x l IH]; intros a b Hnd Ha Hb E; [destruct Ha|].
    cbn [map] in Hnd. inversion Hnd as [|? ? Hx Hnd']; subst.
    destruct Ha as [Ha|Ha], Hb as [Hb|Hb]; subst.
    - reflexivity.
    - exfalso. apply Hx. rewrite E. apply in_map. exact Hb.
    - exfalso. apply Hx. rewrite <- E. apply in_map. exact Ha.
    - apply IH; assumption.
  Qed.

  (* with a duplicate-free index the dropped rows are exactly the incomplete ones *)
  Lemma incomplete_dropped : forall has_obs rows r, NoDup (map (@ts A) rows) ->
    In r rows -> complete has_obs r = false -> In r (dropped_of has_obs rows).
  Proof.
    intros has_obs rows r Hnd Hin Hc. apply dropped_In. split; [exact Hin|].
    destruct (label_in (kept_of has_obs rows) (ts r)) eqn:E; [|reflexivity].
    unfold label_in in E. apply existsb_exists in E. destruct E as [k [Hk Ek]].
    apply Z.eqb_eq in Ek. apply kept_In in Hk. destruct Hk as [Hk1 Hk2].
    assert (k = r) by (eapply label_unique; eauto). subst k. congruence.
  Qed.

  Lemma dropped_is_filter : forall has_obs rows, NoDup (map (@ts A) rows) ->
    dropped_of has_obs rows = filter (fun r => negb (complete has_obs r)) (sort_by (@ts A) rows).
  Proof.
    intros has_obs rows Hnd. unfold dropped_of, initialize_data. cbn [snd].
    apply filter_ext_in'. intros r Hr. apply sort_by_In in Hr. f_equal.
    destruct (complete has_obs r) eqn:E.
    - apply existsb_exists. exists r. split; [|apply Z.eqb_refl].
      apply filter_In. split; [apply sort_by_In; exact Hr | exact E].
    - pose proof (incomplete_dropped has_obs rows r Hnd Hr E) as H. apply dropped_In in H. apply H.
  Qed.

  (* ---- membership in the output ---- *)
  Lemma predict_rows_In : forall pol has_obs rows o,
    In o (predict_rows f pol has_obs rows) <->
    (exists r, In r (kept_of has_obs rows) /\ o = predict_kept f has_obs r) \/
    (exists r, In r (dropped_of has_obs rows) /\ o = carry_dropped pol has_obs r).
  Proof.
    intros pol has_obs rows o. unfold predict_rows, kept_of, dropped_of.
    destruct (initialize_data has_obs rows) as [kept dropped]. cbn [fst snd].
    rewrite sort_by_In, in_app_iff, !in_map_iff.
    split; (intros [[r [H1 H2]]|[r [H1 H2]]]; [left|right]; exists r; split; auto).
  Qed.

  Lemma complete_temp : forall has_obs (r : row), complete has_obs r = true -> exists t, temp r = V t.
  Proof.
    intros has_obs r H. unfold complete in H. apply andb_true_iff in H. destruct H as [H _].
    destruct (temp r) as [t| | |]; try discriminate. exists t. reflexivity.
  Qed.

  (* ---- who gets a prediction ---- *)
  Lemma kept_predicted : forall has_obs (r : row), complete has_obs r = true ->
    notna (o_pred (predict_kept f has_obs r)) = true.
  Proof.
    intros has_obs r H. destruct (complete_temp _ _ H) as [t Ht]. cbn [predict_kept o_pred]. rewrite Ht. reflexivity.
  Qed.

  Lemma kept_observed : forall (r : row), complete true r = true ->
    finite (o_obs (predict_kept f true r)) = true.
  Proof.
    intros r H. unfold complete in H. apply andb_true_iff in H. destruct H as [_ H].
    cbn [negb orb] in H. cbn [predict_kept o_obs out_obs]. exact H.
  Qed.

  Lemma finite_notna : forall c : cell A, finite c = true -> notna c = true.
  Proof. intros [a| | |]; cbn; congruence. Qed.

  (* the full row-wise statement holds exactly when every dropped row ends up without an observed value *)
  Lemma both_or_neither_iff : forall pol rows,
    both_or_neither (predict_rows f pol true rows) <->
    (forall r, In r (dropped_of true rows) -> notna (mask_obs pol r) = false).
  Proof.
    intros pol rows. unfold both_or_neither. rewrite Forall_forall. split.
    - intros H r Hr.
      specialize (H (carry_dropped pol true r)).
      assert (Hin : In (carry_dropped pol true r) (predict_rows f pol true rows)).
      { apply predict_rows_In. right. exists r. split; [exact Hr | reflexivity]. }
      specialize (H Hin). unfold row_both_or_neither in H. cbn [carry_dropped o_obs o_pred out_obs notna] in H.
      apply eqb_prop in H. exact H.
    - intros H o Ho. apply predict_rows_In in Ho. destruct Ho as [[r [Hr E]]|[r [Hr E]]]; subst o.
      + apply kept_In in Hr. destruct Hr as [_ Hc]. unfold row_both_or_neither.
        rewrite (kept_predicted true r Hc), (finite_notna _ (kept_observed r Hc)). reflexivity.
      + unfold row_both_or_neither. cbn [carry_dropped o_obs o_pred out_obs notna].
        rewrite (H r Hr). reflexivity.
  Qed.

  (* the repaired masking: always *)
  Lemma both_or_neither_repaired : forall rows, both_or_neither (predict_rows f MaskDropped true rows).
  Proof. intros rows. apply both_or_neither_iff. intros r _. reflexivity. Qed.

  (* the code as it is: exactly when no incomplete row carries an observed value *)
  Lemma both_or_neither_as_coded_partial : forall rows,
    (forall r, In r rows -> complete true r = false -> notna (obs r) = false) ->
    both_or_neither (predict_rows f MaskOff true rows).
  Proof.
    intros rows H. apply both_or_neither_iff. intros r Hr. cbn [mask_obs].
    apply H; [apply dropped_In in Hr; tauto | eapply dropped_incomplete; exact Hr].
  Qed.

  Lemma both_or_neither_as_coded_only_if : forall rows, NoDup (map (@ts A) rows) ->
    both_or_neither (predict_rows f MaskOff true rows) ->
    forall r, In r rows -> complete true r = false -> notna (obs r) = false.
  Proof.
    intros rows Hnd H r Hin Hc. rewrite both_or_neither_iff in H.
    apply (H r). apply incomplete_dropped; assumption.
  Qed.

  (* literal one-line repair (.loc[temperature.isna()]): holds when no dropped row with a temperature
     (finite or infinite) carries an observed value *)
  Lemma both_or_neither_missing_temp_partial : forall rows,
    (forall r, In r rows -> complete true r = false -> notna (temp r) = true -> notna (obs r) = false) ->
    both_or_neither (predict_rows f MaskMissingTemp true rows).
  Proof.
    intros rows H. apply both_or_neither_iff. intros r Hr. cbn [mask_obs].
    destruct (notna (temp r)) eqn:E; [|reflexivity].
    apply H; [apply dropped_In in Hr; tauto | eapply dropped_incomplete; exact Hr | exact E].
  Qed.

  (* the repair of /var/tmp/proposed-fixes/C07-1.diff (.loc[~isfinite(temperature), "observed"] = NaN): holds when
     no row carries an infinite usage value (the property's quantifier: usage is a number or missing) *)
  Lemma both_or_neither_nonfinite_temp : forall rows,
    (forall r, In r rows -> no_inf (obs r) = true) ->
    both_or_neither (predict_rows f MaskNonFiniteTemp true rows).
  Proof.
    intros rows H. apply both_or_neither_iff. intros r Hr. cbn [mask_obs].
    destruct (finite (temp r)) eqn:E; [|reflexivity].
    pose proof (dropped_incomplete _ _ _ Hr) as Hc. unfold complete in Hc. rewrite E in Hc. cbn [andb negb orb] in Hc.
    assert (Hi : no_inf (obs r) = true) by (apply H; apply dropped_In in Hr; tauto).
    destruct (obs r); cbn in *; congruence.
  Qed.

  (* and the guard is exact for that repair: an infinite usage value on a day with a finite temperature breaks it *)
  Lemma both_or_neither_nonfinite_temp_only_if : forall rows, NoDup (map (@ts A) rows) ->
    both_or_neither (predict_rows f MaskNonFiniteTemp true rows) ->
    forall r, In r rows -> finite (temp r) = true -> no_inf (obs r) = true.
  Proof.
    intros rows Hnd H r Hin Ht. rewrite both_or_neither_iff in H.
    destruct (no_inf (obs r)) eqn:E; [reflexivity|].
    assert (Hc : complete true r = false).
    { unfold complete. rewrite Ht. cbn [andb negb orb]. destruct (obs r); cbn in *; congruence. }
    specialize (H r (incomplete_dropped true rows r Hnd Hin Hc)). cbn [mask_obs] in H. rewrite Ht in H.
    destruct (obs r); cbn in *; congruence.
  Qed.

  (* a day whose consumption is missing gets no prediction — for every masking policy *)
  Lemma missing_usage_no_prediction : forall pol rows o,
    In o (predict_rows f pol true rows) -> notna (o_obs o) = false -> o_pred o = NaN.
  Proof.
    intros pol rows o Ho Hn. apply predict_rows_In in Ho. destruct Ho as [[r [Hr E]]|[r [Hr E]]]; subst o.
    - apply kept_In in Hr. destruct Hr as [_ Hc].
      rewrite (finite_notna _ (kept_observed r Hc)) in Hn. discriminate.
    - reflexivity.
  Qed.

  (* a day whose temperature is missing or not finite gets no prediction *)
  Lemma missing_temperature_no_prediction : forall pol has_obs rows o,
    In o (predict_rows f pol has_obs rows) -> finite (o_temp o) = false -> o_pred o = NaN.
  Proof.
    intros pol has_obs rows o Ho Hn. apply predict_rows_In in Ho. destruct Ho as [[r [Hr E]]|[r [Hr E]]]; subst o.
    - apply kept_In in Hr. destruct Hr as [_ Hc]. destruct (complete_temp _ _ Hc) as [t Ht].
      cbn [predict_kept o_temp] in Hn. rewrite Ht in Hn. discriminate.
    - reflexivity.
  Qed.

  (* a prediction is present exactly on complete rows *)
  Lemma predicted_is_complete : forall pol has_obs rows o,
    In o (predict_rows f pol has_obs rows) -> notna (o_pred o) = true ->
    exists r, In r rows /\ complete has_obs r = true /\ o = predict_kept f has_obs r.
  Proof.
    intros pol has_obs rows o Ho Hn. apply predict_rows_In in Ho. destruct Ho as [[r [Hr E]]|[r [Hr E]]]; subst o.
    - apply kept_In in Hr. exists r. tauto.
    - discriminate.
  Qed.

  (* ---- one output row per input label, in index order (reusable for C06) ---- *)
  Lemma o_ts_predict_kept : forall has_obs l, map (@o_ts A) (map (predict_kept f has_obs) l) = map (@ts A) l.
  Proof. intros. rewrite map_map. apply map_ext. reflexivity. Qed.
  Lemma o_ts_carry_dropped : forall pol has_obs l, map (@o_ts A) (map (carry_dropped pol has_obs) l) = map (@ts A) l.
  Proof. intros. rewrite map_map. apply map_ext. reflexivity. Qed.

  Lemma predict_rows_labels : forall pol has_obs rows, NoDup (map (@ts A) rows) ->
    Permutation (map (@o_ts A) (predict_rows f pol has_obs rows)) (map (@ts A) rows).
  Proof.
    intros pol has_obs rows Hnd.
    pose proof (dropped_is_filter has_obs rows Hnd) as Hd.
    unfold predict_rows, dropped_of in *. destruct (initialize_data has_obs rows) as [kept dropped] eqn:E.
    cbn [snd] in Hd.
    assert (Hk : kept = filter (complete has_obs) (sort_by (@ts A) rows)).
    { unfold initialize_data in E. inversion E. reflexivity. }
    eapply Permutation_trans; [apply Permutation_map; apply sort_by_perm|].
    rewrite map_app, o_ts_predict_kept, o_ts_carry_dropped, <- map_app, Hd, Hk.
    eapply Permutation_trans; [apply Permutation_map; apply filter_split_perm|].
    apply Permutation_map. apply sort_by_perm.
  Qed.

  Lemma predict_rows_sorted : forall pol has_obs rows,
    LocallySorted (key_le (@o_ts A)) (predict_rows f pol has_obs rows).
  Proof.
    intros. unfold predict_rows. destruct (initialize_data has_obs rows). apply sort_by_sorted.
  Qed.

  (* every output row carries the temperature of an input row with the same label, and its observed
     value is that row's observed value or NaN — nothing is invented *)
  Lemma predict_rows_from_input : forall pol rows o,
    In o (predict_rows f pol true rows) ->
    exists r, In r rows /\ o_ts o = ts r /\ o_temp o = temp r /\ (o_obs o = obs r \/ o_obs o = NaN).
  Proof.
    intros pol rows o Ho. apply predict_rows_In in Ho. destruct Ho as [[r [Hr E]]|[r [Hr E]]]; subst o.
    - apply kept_In in Hr. exists r. cbn. tauto.
    - apply dropped_In in Hr. exists r. cbn [carry_dropped o_ts o_temp o_obs out_obs].
      repeat split; try tauto.
      destruct pol; cbn [mask_obs]; auto; [destruct (notna (temp r)) | destruct (finite (temp r))]; auto.
  Qed.
End RowFacts.

(* ---------------------------------------------------------------- sums over Q *)
Open Scope Q_scope.

Definition row_no_inf (o : orow Q) : bool := no_inf (o_obs o) && no_inf (o_pred o).

(* "summing the two columns separately equals summing row-wise savings" whenever the two columns
   are present on the same rows *)
Lemma sums_agree : forall out : list (orow Q),
  both_or_neither out -> Forall (fun o => row_no_inf o = true) out ->
  nansum (map (@o_pred Q) out) - nansum (map (@o_obs Q) out) == nansum (map savings out).
Proof.
  induction out as [|o out IH]; intros Hb Hi.
  - cbn. reflexivity.
  - inversion Hb as [|? ? Hb1 Hb2]; subst. inversion Hi as [|? ? Hi1 Hi2]; subst.
    specialize (IH Hb2 Hi2). cbn [map nansum fold_right].
    fold (nansum (map (@o_pred Q) out)). fold (nansum (map (@o_obs Q) out)). fold (nansum (map savings out)).
    rewrite <- IH. unfold row_both_or_neither in Hb1. unfold row_no_inf in Hi1. unfold savings.
    destruct (o_pred o) as [p| | |], (o_obs o) as [b| | |]; cbn in Hb1, Hi1; try discriminate; cbn [cval]; ring.
Qed.

Lemma predict_rows_repaired_no_inf : forall (f : Z -> Q -> Q) rows,
  Forall (fun o => row_no_inf o = true) (predict_rows f MaskDropped true rows).
Proof.
  intros f rows. apply Forall_forall. intros o Ho. apply predict_rows_In in Ho.
  destruct Ho as [[r [Hr E]]|[r [Hr E]]]; subst o.
  - apply kept_In in Hr. destruct Hr as [_ Hc]. unfold row_no_inf.
    pose proof (kept_observed Q f r Hc) as H1. destruct (complete_temp Q _ _ Hc) as [t Ht].
    cbn [predict_kept o_obs o_pred out_obs] in *. rewrite Ht.
    destruct (obs r); cbn in *; congruence.
  - reflexivity.
Qed.

Lemma sums_agree_repaired : forall (f : Z -> Q -> Q) rows,
  let out := predict_rows f MaskDropped true rows in
  nansum (map (@o_pred Q) out) - nansum (map (@o_obs Q) out) == nansum (map savings out).
Proof.
  intros f rows out. apply sums_agree; [apply both_or_neither_repaired | apply predict_rows_repaired_no_inf].
Qed.

(* the repair that masks where the temperature is not finite keeps the frame free of infinities as soon as the
   usage column has none *)
Lemma predict_rows_nonfinite_temp_no_inf : forall (f : Z -> Q -> Q) rows,
  (forall r, In r rows -> no_inf (obs r) = true) ->
  Forall (fun o => row_no_inf o = true) (predict_rows f MaskNonFiniteTemp true rows).
Proof.
  intros f rows H. apply Forall_forall. intros o Ho. apply predict_rows_In in Ho.
  destruct Ho as [[r [Hr E]]|[r [Hr E]]]; subst o.
  - apply kept_In in Hr. destruct Hr as [_ Hc]. unfold row_no_inf.
    pose proof (kept_observed Q f r Hc) as H1. destruct (complete_temp Q _ _ Hc) as [t Ht].
    cbn [predict_kept o_obs o_pred out_obs] in *. rewrite Ht.
    destruct (obs r); cbn in *; congruence.
  - apply dropped_In in Hr. destruct Hr as [Hin _]. specialize (H r Hin).
    unfold row_no_inf. cbn [carry_dropped o_obs o_pred out_obs mask_obs].
    destruct (finite (temp r)); [rewrite H|]; reflexivity.
Qed.

Lemma sums_agree_nonfinite_temp : forall (f : Z -> Q -> Q) rows,
  (forall r, In r rows -> no_inf (obs r) = true) ->
  let out := predict_rows f MaskNonFiniteTemp true rows in
  nansum (map (@o_pred Q) out) - nansum (map (@o_obs Q) out) == nansum (map savings out).
Proof.
  intros f rows H out. apply sums_agree;
    [apply both_or_neither_nonfinite_temp; exact H | apply predict_rows_nonfinite_temp_no_inf; exact H].
Qed.
