(* Lemmas about Model/Metrics.v (exact rationals; no axioms). *)
From Coq Require Import ZArith QArith Qabs List Bool Lia Lqa Permutation Sorting.Sorted.
From V Require Import Model.Metrics.
Import ListNotations.
Open Scope Q_scope.
Global Opaque Qred.

(* ------------------------------------------------------------------ plain sums *)

Definition rsum (l : list Q) : Q := fold_right Qplus 0 l.

Lemma rsum_nil : rsum [] = 0.
Proof. reflexivity. Qed.
Lemma rsum_cons : forall x l, rsum (x :: l) = x + rsum l.
Proof. reflexivity. Qed.
Lemma qadd_correct : forall a b, qadd a b == a + b.
Proof.
  intros [na da] [nb db]. unfold qadd. cbn [Qnum Qden].
  destruct (nb =? 0)%Z eqn:Z0.
  - apply Z.eqb_eq in Z0. subst nb. unfold Qeq, Qplus. cbn [Qnum Qden]. rewrite Pos2Z.inj_mul. ring.
  - destruct (Pos.eqb da db) eqn:E.
    + apply Pos.eqb_eq in E. subst db. unfold Qeq, Qplus. cbn [Qnum Qden]. rewrite Pos2Z.inj_mul. ring.
    + apply Qred_correct.
Qed.

Lemma psum_cons : forall x l, psum (x :: l) = qadd x (psum l).
Proof. reflexivity. Qed.

Lemma qsum_rsum : forall l, qsum l == rsum l.
Proof.
  intros l. unfold qsum. rewrite Qred_correct.
  induction l as [|x l IH]; [reflexivity|].
  rewrite psum_cons, rsum_cons, qadd_correct, IH. reflexivity.
Qed.

Lemma rsum_app : forall a b, rsum (a ++ b) == rsum a + rsum b.
Proof.
  induction a as [|x a IH]; intros b.
  - rewrite rsum_nil. cbn [app]. ring.
  - cbn [app]. rewrite !rsum_cons, IH. ring.
Qed.

Lemma rsum_nonneg : forall l, (forall x, In x l -> 0 <= x) -> 0 <= rsum l.
Proof.
  induction l as [|x l IH]; intros H; [rewrite rsum_nil; lra|].
  rewrite rsum_cons. assert (0 <= x) by (apply H; left; reflexivity).
  assert (0 <= rsum l) by (apply IH; intros y Hy; apply H; right; exact Hy). lra.
Qed.

Lemma sqr_nonneg : forall x, 0 <= sqr x.
Proof. intros x. unfold sqr. nra. Qed.

Lemma rsum_sq_nonneg : forall l, 0 <= rsum (map sqr l).
Proof.
  intros l. apply rsum_nonneg. intros x Hx. apply in_map_iff in Hx. destruct Hx as [y [<- _]]. apply sqr_nonneg.
Qed.

Lemma sum_sq_nonneg : forall l, 0 <= sum_sq l.
Proof. intros l. unfold sum_sq. rewrite qsum_rsum. apply rsum_sq_nonneg. Qed.

Lemma zlen_nonneg : forall A (l : list A), (0 <= zlen l)%Z.
Proof. intros. unfold zlen. lia. Qed.

Lemma zlen_pos : forall A (l : list A), l <> [] -> (0 < zlen l)%Z.
Proof. intros A [|x l] H; [congruence|]. unfold zlen. cbn [length]. lia. Qed.

Lemma qlen_pos : forall A (l : list A), l <> [] -> 0 < qlen l.
Proof.
  intros A l H. unfold qlen. replace 0 with (inject_Z 0) by reflexivity.
  rewrite <- Zlt_Qlt. apply zlen_pos. exact H.
Qed.

Lemma qlen_cons : forall A (x : A) l, qlen (x :: l) == 1 + qlen l.
Proof.
  intros. unfold qlen, zlen. cbn [length]. rewrite Nat2Z.inj_succ. unfold Z.succ.
  rewrite inject_Z_plus. ring.
Qed.

Lemma rsum_const : forall (l : list Q) c, rsum (map (fun _ => c) l) == qlen l * c.
Proof.
  induction l as [|x l IH]; intros c.
  - cbn [map]. rewrite rsum_nil. unfold qlen, zlen. cbn. ring.
  - cbn [map]. rewrite rsum_cons, IH, qlen_cons. ring.
Qed.

(* ------------------------------------------------------------------ variance *)

(* sum (x - m)^2 = sum x^2 - 2 m sum x + n m^2, for every m *)
Lemma rsum_dev_sq : forall l m,
  rsum (map sqr (map (fun x => x - m) l)) == rsum (map sqr l) - 2 * m * rsum l + qlen l * (m * m).
Proof.
  induction l as [|x l IH]; intros m.
  - cbn [map]. rewrite !rsum_nil. unfold qlen, zlen. cbn. ring.
  - cbn [map]. rewrite !rsum_cons, IH, qlen_cons. unfold sqr. ring.
Qed.

Lemma mean_eq : forall l, mean l == rsum l / qlen l.
Proof. intros l. unfold mean. rewrite Qred_correct, qsum_rsum. reflexivity. Qed.

(* var = mean(x^2) - mean^2 *)
Lemma variance_alt : forall l, l <> [] ->
  variance l == sum_sq l / qlen l - mean l * mean l.
Proof.
  intros l H. pose proof (qlen_pos _ l H) as Hn.
  unfold variance, sum_sq, dev. rewrite Qred_correct, !qsum_rsum, rsum_dev_sq.
  rewrite (mean_eq l). field. lra.
Qed.

Lemma variance_nonneg : forall l, 0 <= variance l.
Proof.
  intros l. unfold variance. rewrite Qred_correct.
  destruct l as [|x l].
  - vm_compute. discriminate.
  - pose proof (qlen_pos _ (x :: l) ltac:(discriminate)) as Hn.
    pose proof (sum_sq_nonneg (dev (x :: l))) as Hs.
    apply Qle_shift_div_l; [exact Hn|]. lra.
Qed.

(* ------------------------------------------------------------------ Cauchy-Schwarz over lists of pairs *)

Definition sA (l : list (Q * Q)) := rsum (map (fun p => fst p * fst p) l).
Definition sB (l : list (Q * Q)) := rsum (map (fun p => fst p * snd p) l).
Definition sC (l : list (Q * Q)) := rsum (map (fun p => snd p * snd p) l).

Lemma sA_cons : forall x y l, sA ((x, y) :: l) = x * x + sA l.
Proof. reflexivity. Qed.
Lemma sB_cons : forall x y l, sB ((x, y) :: l) = x * y + sB l.
Proof. reflexivity. Qed.
Lemma sC_cons : forall x y l, sC ((x, y) :: l) = y * y + sC l.
Proof. reflexivity. Qed.

(* sum_i (a_i b - b_i a)^2 >= 0 *)
Lemma quad_nonneg : forall l a b, 0 <= b * b * sA l - 2 * a * b * sB l + a * a * sC l.
Proof.
  induction l as [|[x y] l IH]; intros a b.
  - unfold sA, sB, sC. cbn. lra.
  - rewrite sA_cons, sB_cons, sC_cons. specialize (IH a b).
    pose proof (sqr_nonneg (x * b - y * a)) as Hs. unfold sqr in Hs. lra.
Qed.

Lemma sA_nonneg : forall l, 0 <= sA l.
Proof.
  intros l. apply rsum_nonneg. intros x Hx. apply in_map_iff in Hx. destruct Hx as [p [<- _]]. nra.
Qed.
Lemma sC_nonneg : forall l, 0 <= sC l.
Proof.
  intros l. apply rsum_nonneg. intros x Hx. apply in_map_iff in Hx. destruct Hx as [p [<- _]]. nra.
Qed.

Theorem cauchy_schwarz : forall l, sB l * sB l <= sA l * sC l.
Proof.
  induction l as [|[x y] l IH].
  - unfold sA, sB, sC. cbn. lra.
  - rewrite sA_cons, sB_cons, sC_cons. pose proof (quad_nonneg l x y) as Hq. nra.
Qed.

(* two lists of equal length as a list of pairs *)
Lemma map_fst_combine : forall (xs ys : list Q), length xs = length ys -> map fst (combine xs ys) = xs.
Proof.
  induction xs as [|x xs IH]; intros [|y ys] H; cbn in *; try congruence. f_equal. apply IH. lia.
Qed.
Lemma map_snd_combine : forall (xs ys : list Q), length xs = length ys -> map snd (combine xs ys) = ys.
Proof.
  induction xs as [|x xs IH]; intros [|y ys] H; cbn in *; try congruence. f_equal. apply IH. lia.
Qed.

Lemma sum_sq_sA : forall xs ys, length xs = length ys -> sum_sq xs == sA (combine xs ys).
Proof.
  intros xs ys H. unfold sum_sq, sA. rewrite qsum_rsum.
  rewrite <- (map_fst_combine xs ys H) at 1. rewrite map_map. reflexivity.
Qed.
Lemma sum_sq_sC : forall xs ys, length xs = length ys -> sum_sq ys == sC (combine xs ys).
Proof.
  intros xs ys H. unfold sum_sq, sC. rewrite qsum_rsum.
  rewrite <- (map_snd_combine xs ys H) at 1. rewrite map_map. reflexivity.
Qed.
Lemma sum_prod_sB : forall xs ys, sum_prod xs ys == sB (combine xs ys).
Proof. intros. unfold sum_prod, sB. rewrite qsum_rsum. reflexivity. Qed.

Lemma dev_length : forall l, length (dev l) = length l.
Proof. intros. unfold dev. apply map_length. Qed.

Lemma Qeq_bool_false : forall a b, Qeq_bool a b = false -> ~ a == b.
Proof. intros a b H E. apply Qeq_bool_iff in E. congruence. Qed.

(* 0 <= r^2 <= 1 *)
Theorem pearson_bounds : forall xs ys neg r2, length xs = length ys ->
  pearson xs ys = Some (neg, r2) -> 0 <= r2 /\ r2 <= 1.
Proof.
  intros xs ys neg r2 Hlen H. unfold pearson in H.
  destruct (Qeq_bool (sum_sq (dev xs)) 0) eqn:Ex; [discriminate|].
  destruct (Qeq_bool (sum_sq (dev ys)) 0) eqn:Ey; [discriminate|].
  cbn [orb] in H. injection H as _ <-. rewrite Qred_correct.
  apply Qeq_bool_false in Ex. apply Qeq_bool_false in Ey.
  assert (Hl : length (dev xs) = length (dev ys)) by (rewrite !dev_length; exact Hlen).
  pose proof (sum_sq_nonneg (dev xs)) as Hx. pose proof (sum_sq_nonneg (dev ys)) as Hy.
  assert (Hvx : 0 < sum_sq (dev xs)) by (destruct (Qlt_le_dec 0 (sum_sq (dev xs))); [assumption|]; exfalso; apply Ex; lra).
  assert (Hvy : 0 < sum_sq (dev ys)) by (destruct (Qlt_le_dec 0 (sum_sq (dev ys))); [assumption|]; exfalso; apply Ey; lra).
  assert (Hp : 0 < sum_sq (dev xs) * sum_sq (dev ys)) by nra.
  pose proof (cauchy_schwarz (combine (dev xs) (dev ys))) as CS.
  rewrite <- (sum_sq_sA _ _ Hl), <- (sum_sq_sC _ _ Hl), <- sum_prod_sB in CS.
  set (c := sum_prod (dev xs) (dev ys)) in *.
  split.
  - apply Qle_shift_div_l; [exact Hp|]. nra.
  - apply Qle_shift_div_r; [exact Hp|]. lra.
Qed.

Lemma tl_removelast_length : forall (l : list Q), length (tl l) = length (removelast l).
Proof.
  induction l as [|x l IH]; [reflexivity|].
  destruct l as [|y l]; [reflexivity|].
  cbn [tl] in *. change (removelast (x :: y :: l)) with (x :: removelast (y :: l)).
  cbn [length]. rewrite <- IH. reflexivity.
Qed.

Theorem autocorr_bounds : forall l neg r2, autocorr1 l = Some (neg, r2) -> 0 <= r2 /\ r2 <= 1.
Proof. intros l neg r2 H. eapply pearson_bounds; [apply tl_removelast_length|exact H]. Qed.

(* ------------------------------------------------------------------ |mbe| <= mae, mae^2 <= mse *)

Lemma Qabs_rsum : forall l, Qabs (rsum l) <= rsum (map Qabs l).
Proof.
  induction l as [|x l IH].
  - cbn. lra.
  - cbn [map]. rewrite !rsum_cons. pose proof (Qabs_triangle x (rsum l)). lra.
Qed.

Lemma sum_abs_rsum : forall l, sum_abs l == rsum (map Qabs l).
Proof. intros. unfold sum_abs. apply qsum_rsum. Qed.

Lemma Qabs_div_pos : forall a n, 0 < n -> Qabs (a / n) == Qabs a / n.
Proof.
  intros a n Hn. unfold Qdiv. rewrite Qabs_Qmult. rewrite (Qabs_pos (/ n)); [reflexivity|].
  apply Qlt_le_weak. apply Qinv_lt_0_compat. exact Hn.
Qed.

Lemma abs_mean_le : forall l, l <> [] -> Qabs (mean l) <= sum_abs l / qlen l.
Proof.
  intros l H. pose proof (qlen_pos _ l H) as Hn.
  rewrite mean_eq, Qabs_div_pos by exact Hn. rewrite sum_abs_rsum.
  apply Qle_shift_div_l; [exact Hn|].
  pose proof (Qabs_rsum l). field_simplify; [|lra]. lra.
Qed.

(* (sum |r|)^2 <= n * sum r^2 : Cauchy-Schwarz against the constant 1 *)
Lemma sum_abs_sq_le : forall l, rsum (map Qabs l) * rsum (map Qabs l) <= qlen l * rsum (map sqr l).
Proof.
  intros l. pose proof (cauchy_schwarz (map (fun x => (Qabs x, 1)) l)) as CS.
  unfold sA, sB, sC in CS. rewrite !map_map in CS. cbn [fst snd] in CS.
  assert (E1 : rsum (map (fun x => Qabs x * 1) l) == rsum (map Qabs l)).
  { clear. induction l as [|x l IH]; [reflexivity|]. cbn [map]. rewrite !rsum_cons, IH. ring. }
  assert (E2 : rsum (map (fun x => Qabs x * Qabs x) l) == rsum (map sqr l)).
  { clear. induction l as [|x l IH]; [reflexivity|]. cbn [map]. rewrite !rsum_cons, IH.
    unfold sqr. assert (Qabs x * Qabs x == x * x).
    { destruct (Qlt_le_dec x 0).
      - rewrite Qabs_neg by lra. ring.
      - rewrite Qabs_pos by lra. ring. }
    lra. }
  assert (E3 : rsum (map (fun _ : Q => 1 * 1) l) == qlen l).
  { rewrite (rsum_const l (1 * 1)). ring. }
  rewrite E1, E2, E3 in CS. lra.
Qed.

Lemma mae_sq_le_mse : forall l, l <> [] ->
  (sum_abs l / qlen l) * (sum_abs l / qlen l) <= sum_sq l / qlen l.
Proof.
  intros l H. pose proof (qlen_pos _ l H) as Hn. pose proof (sum_abs_sq_le l) as CS.
  rewrite sum_abs_rsum. unfold sum_sq. rewrite qsum_rsum.
  set (a := rsum (map Qabs l)) in *. set (s := rsum (map sqr l)) in *. set (n := qlen l) in *.
  assert (E : a / n * (a / n) == (a * a) / (n * n)) by (field; lra).
  rewrite E. apply Qle_shift_div_r; [nra|].
  assert (E2 : s / n * (n * n) == n * s) by (field; lra). rewrite E2. exact CS.
Qed.

(* ------------------------------------------------------------------ ddof, finite pairs *)

Lemma ddof_ge_1 : forall n p, (1 <= ddof_of n p)%Z.
Proof. intros. unfold ddof_of. destruct (n - p <? 1)%Z eqn:E; lia. Qed.

Lemma ddof_spec : forall n p, ddof_of n p = Z.max 1 (n - p).
Proof. intros. unfold ddof_of. destruct (n - p <? 1)%Z eqn:E; lia. Qed.

Lemma Qltb_true : forall a b, Qltb a b = true <-> a < b.
Proof.
  intros a b. unfold Qltb. rewrite negb_true_iff. split.
  - intros H. destruct (Qlt_le_dec a b) as [L|L]; [exact L|].
    apply Qle_bool_iff in L. congruence.
  - intros H. destruct (Qle_bool b a) eqn:E; [|reflexivity].
    apply Qle_bool_iff in E. lra.
Qed.
Lemma Qltb_false : forall a b, Qltb a b = false <-> b <= a.
Proof.
  intros a b. unfold Qltb. rewrite negb_false_iff. apply Qle_bool_iff.
Qed.

Lemma ddof_autocorr_ge_1 : forall np p, 1 <= ddof_autocorr_of np p.
Proof.
  intros. unfold ddof_autocorr_of. destruct (Qltb (np - inject_Z p) 1) eqn:E; [lra|].
  rewrite Qred_correct. apply Qltb_false in E. exact E.
Qed.

Lemma finite_pairs_in : forall rows o p, In (o, p) (finite_pairs rows) <-> In (Some o, Some p) rows.
Proof.
  induction rows as [|[[a|] [b|]] rows IH]; intros o p; cbn [finite_pairs In].
  - tauto.
  - rewrite IH. split; (intros [H|H]; [left|right; exact H]).
    + injection H as -> ->. reflexivity.
    + injection H as -> ->. reflexivity.
  - rewrite IH. split; [auto|]. intros [H|H]; [discriminate|exact H].
  - rewrite IH. split; [auto|]. intros [H|H]; [discriminate|exact H].
  - rewrite IH. split; [auto|]. intros [H|H]; [discriminate|exact H].
Qed.

Lemma finite_pairs_app : forall a b, finite_pairs (a ++ b) = finite_pairs a ++ finite_pairs b.
Proof.
  induction a as [|[[x|] [y|]] a IH]; intros b; cbn [app finite_pairs]; rewrite ?IH; reflexivity.
Qed.

Definition nonfinite (r : cell * cell) : Prop := fst r = None \/ snd r = None.

(* a row with a NaN / infinite cell never influences the metrics *)
Lemma baseline_ignores_nonfinite : forall pl a r b p mn, nonfinite r ->
  baseline_of_rows_p pl (a ++ r :: b) p mn = baseline_of_rows_p pl (a ++ b) p mn.
Proof.
  intros pl a [o q] b p mn [H|H]; cbn in H; subst; unfold baseline_of_rows_p;
    rewrite !finite_pairs_app; cbn [finite_pairs]; [reflexivity|destruct o; reflexivity].
Qed.

Lemma measured_rows_app : forall a b, measured_rows (a ++ b) = measured_rows a ++ measured_rows b.
Proof. intros. unfold measured_rows. rewrite filter_app, map_app. reflexivity. Qed.

(* an interpolated hour never influences the stored baseline metrics *)
Lemma hourly_ignores_interpolated : forall pl a o q b p mn,
  hourly_baseline_metrics_p pl (a ++ (o, q, true) :: b) p mn = hourly_baseline_metrics_p pl (a ++ b) p mn.
Proof.
  intros. unfold hourly_baseline_metrics_p. rewrite !measured_rows_app.
  unfold measured_rows at 2. cbn [filter snd negb]. reflexivity.
Qed.

Lemma hourly_measured_only : forall pl rows rows' p mn, measured_rows rows = measured_rows rows' ->
  hourly_baseline_metrics_p pl rows p mn = hourly_baseline_metrics_p pl rows' p mn.
Proof. intros. unfold hourly_baseline_metrics_p. rewrite H. reflexivity. Qed.

Lemma measured_rows_in : forall rows o q, In (o, q) (measured_rows rows) <-> In (o, q, false) rows.
Proof.
  intros rows o q. unfold measured_rows. rewrite in_map_iff. split.
  - intros [[[a b] f] [E H]]. cbn in E. injection E as -> ->. apply filter_In in H. destruct H as [H F].
    cbn in F. destruct f; [discriminate|exact H].
  - intros H. exists (o, q, false). split; [reflexivity|]. apply filter_In. split; [exact H|reflexivity].
Qed.

(* ------------------------------------------------------------------ identities of BaselineMetrics *)

Section Baseline.
  Variable pl : policy.
  Variable d : list (Q * Q).
  Variable p : Z.
  Variable mn : Q.
  Hypothesis Hd : d <> [].
  Let m := baseline_p pl d p mn.

  Lemma n_pos : 0 < inject_Z (b_n m).
  Proof.
    unfold m, baseline_p. cbn [b_n]. replace 0 with (inject_Z 0) by reflexivity. rewrite <- Zlt_Qlt.
    apply zlen_pos. exact Hd.
  Qed.

  Lemma n_mse_sse : inject_Z (b_n m) * b_mse m == b_sse m.
  Proof.
    pose proof n_pos as Hn. unfold m, baseline_p in *. cbn [b_n b_mse b_sse] in *.
    rewrite Qred_correct. field. lra.
  Qed.

  Lemma ddof_pos : 0 < inject_Z (b_ddof m).
  Proof.
    unfold m, baseline_p. cbn [b_ddof]. replace 0 with (inject_Z 0) by reflexivity. rewrite <- Zlt_Qlt.
    pose proof (ddof_ge_1 (zlen d) p). lia.
  Qed.

  Lemma ddof_rmse_adj_sse : inject_Z (b_ddof m) * b_rmse_adj_sq m == b_sse m.
  Proof.
    pose proof ddof_pos as Hn. unfold m, baseline_p in *. cbn [b_ddof b_rmse_adj_sq b_sse] in *.
    rewrite Qred_correct. field. lra.
  Qed.

  Lemma b_ddof_ge_1 : (1 <= b_ddof m)%Z.
  Proof. unfold m, baseline_p. cbn [b_ddof]. apply ddof_ge_1. Qed.

  Lemma b_n_length : b_n m = Z.of_nat (length d).
  Proof. reflexivity. Qed.

  Lemma rmse_is_root_mse : b_rmse m = Root false (b_mse m) /\ b_rmse_adj m = Root false (b_rmse_adj_sq m).
  Proof. split; reflexivity. Qed.

  Lemma sse_nonneg : 0 <= b_sse m.
  Proof. unfold m, baseline_p. cbn [b_sse column c_sum_sq]. apply sum_sq_nonneg. Qed.

  Lemma mse_nonneg : 0 <= b_mse m.
  Proof.
    pose proof n_mse_sse. pose proof sse_nonneg. pose proof n_pos.
    destruct (Qlt_le_dec (b_mse m) 0); [|assumption]. nra.
  Qed.

  Lemma residuals_ne : residuals_of d <> [].
  Proof. unfold residuals_of. destruct d; [congruence|discriminate]. Qed.

  Lemma qlen_res : qlen (residuals_of d) == inject_Z (b_n m).
  Proof. unfold qlen, zlen, residuals_of. rewrite map_length. reflexivity. Qed.

  (* |mbe| <= mae *)
  Lemma abs_mbe_le_mae : Qabs (b_mbe m) <= b_mae m.
  Proof.
    pose proof (abs_mean_le (residuals_of d) residuals_ne) as H.
    unfold m, baseline_p. cbn [b_mbe b_mae column c_mean]. rewrite Qred_correct.
    rewrite qlen_res in H. exact H.
  Qed.

  (* mae^2 <= mse  (mae <= rmse) *)
  Lemma mae_sq_le_mse_b : b_mae m * b_mae m <= b_mse m.
  Proof.
    pose proof (mae_sq_le_mse (residuals_of d) residuals_ne) as H.
    unfold m, baseline_p. cbn [b_mae b_mse column c_sum_sq]. rewrite !Qred_correct.
    rewrite qlen_res in H. exact H.
  Qed.

  Lemma mae_nonneg : 0 <= b_mae m.
  Proof. pose proof abs_mbe_le_mae. pose proof (Qabs_nonneg (b_mbe m)). lra. Qed.

  (* var = mean(x^2) - mean^2 for the three columns *)
  Lemma column_variance : forall l, l <> [] ->
    c_var (column l) == c_sum_sq (column l) / qlen l - c_mean (column l) * c_mean (column l).
  Proof. intros l H. unfold column. cbn [c_var c_sum_sq c_mean]. apply variance_alt. exact H. Qed.

  (* 0 <= r^2 <= 1 *)
  Lemma r2_bounds : forall r, b_r2 m = Some r -> 0 <= r /\ r <= 1.
  Proof.
    intros r H. unfold m, baseline_p in H. cbn [b_r2] in H.
    destruct (pearson (predicted_of d) (observed_of d)) as [[neg r2]|] eqn:E; [|discriminate].
    injection H as <-. eapply pearson_bounds; [|exact E].
    unfold predicted_of, observed_of. rewrite !map_length. reflexivity.
  Qed.

  Lemma rho_bounds : forall neg r2, b_rho m = Some (neg, r2) -> 0 <= r2 /\ r2 <= 1.
  Proof. intros neg r2 H. unfold m, baseline_p in H. cbn [b_rho] in H. eapply autocorr_bounds. exact H. Qed.
End Baseline.

(* ------------------------------------------------------------------ _safe_divide *)

Lemma Qle_bool_false : forall a b, Qle_bool a b = false <-> b < a.
Proof.
  intros a b. split.
  - intros H. destruct (Qlt_le_dec b a) as [L|L]; [exact L|]. apply Qle_bool_iff in L. congruence.
  - intros H. destruct (Qle_bool a b) eqn:E; [|reflexivity]. apply Qle_bool_iff in E. lra.
Qed.

(* None exactly on: denominator <= min  and  numerator > 10 min *)
Lemma safe_divide_none_iff : forall num den mn,
  safe_divide num den mn = RNone <-> (den <= mn /\ 10 * mn < num).
Proof.
  intros num den mn. unfold safe_divide.
  destruct (Qle_bool den mn) eqn:E1; destruct (Qltb (10 * mn) num) eqn:E2; cbn [andb].
  - apply Qle_bool_iff in E1. apply Qltb_true in E2. tauto.
  - apply Qltb_false in E2. split; [destruct (Qeq_bool den 0); discriminate|]. intros [_ H]. lra.
  - apply Qle_bool_false in E1. split; [destruct (Qeq_bool den 0); discriminate|]. intros [H _]. lra.
  - apply Qle_bool_false in E1. split; [destruct (Qeq_bool den 0); discriminate|]. intros [H _]. lra.
Qed.

Lemma safe_divide_num : forall num den mn q,
  safe_divide num den mn = RNum q -> ~ den == 0 /\ q == num / den /\ (mn < den \/ num <= 10 * mn).
Proof.
  intros num den mn q H. unfold safe_divide in H.
  destruct (Qle_bool den mn && Qltb (10 * mn) num) eqn:E; [discriminate|].
  destruct (Qeq_bool den 0) eqn:Z; [discriminate|]. injection H as <-.
  split; [apply Qeq_bool_false; exact Z|]. split; [apply Qred_correct|].
  apply andb_false_iff in E. destruct E as [E|E].
  - left. apply Qle_bool_false. exact E.
  - right. apply Qltb_false. exact E.
Qed.

Lemma safe_divide_divzero : forall num den mn s,
  safe_divide num den mn = RDivZero s -> den == 0 /\ (mn < 0 \/ num <= 10 * mn).
Proof.
  intros num den mn s H. unfold safe_divide in H.
  destruct (Qle_bool den mn && Qltb (10 * mn) num) eqn:E; [discriminate|].
  destruct (Qeq_bool den 0) eqn:Z; [|discriminate].
  apply Qeq_bool_iff in Z. split; [exact Z|].
  apply andb_false_iff in E. destruct E as [E|E].
  - left. apply Qle_bool_false in E. lra.
  - right. apply Qltb_false. exact E.
Qed.

(* the code agrees with the statement's rule exactly when the denominator is safely positive or the
   numerator exceeds 10 * min_denominator *)
Lemma safe_divide_spec_iff : forall num den mn, 0 <= mn ->
  (safe_divide num den mn = safe_divide_spec num den mn <-> (mn < den \/ 10 * mn < num)).
Proof.
  intros num den mn Hmn. unfold safe_divide, safe_divide_spec.
  destruct (Qle_bool den mn) eqn:E1; destruct (Qltb (10 * mn) num) eqn:E2; cbn [andb].
  - apply Qltb_true in E2. split; [intros _; right; exact E2|reflexivity].
  - apply Qle_bool_iff in E1. apply Qltb_false in E2. split.
    + destruct (Qeq_bool den 0); discriminate.
    + intros [H|H]; lra.
  - apply Qle_bool_false in E1. split; [intros _; left; exact E1|]. intros _.
    destruct (Qeq_bool den 0) eqn:Z; [|reflexivity]. apply Qeq_bool_iff in Z. lra.
  - apply Qle_bool_false in E1. split; [intros _; left; exact E1|]. intros _.
    destruct (Qeq_bool den 0) eqn:Z; [|reflexivity]. apply Qeq_bool_iff in Z. lra.
Qed.

Lemma root_gtb_true : forall msq t, 0 <= msq -> (root_gtb msq t = true <-> (t < 0 \/ t * t < msq)).
Proof.
  intros msq t H. unfold root_gtb. destruct (Qltb t 0) eqn:E.
  - apply Qltb_true in E. tauto.
  - apply Qltb_false in E. unfold sqr. rewrite Qltb_true. split; [tauto|]. intros [F|F]; [lra|exact F].
Qed.

(* the root form: a root is reported only over a non-zero denominator, and then
   value^2 * denominator^2 = numerator^2, sign = sign of the denominator *)
Lemma safe_divide_root_defined : forall msq den mn neg s,
  safe_divide_root msq den mn = Root neg s ->
  ~ den == 0 /\ s * (den * den) == msq /\ neg = Qltb den 0 /\ (mn < den \/ root_gtb msq (10 * mn) = false).
Proof.
  intros msq den mn neg s H. unfold safe_divide_root in H.
  destruct (Qle_bool den mn && root_gtb msq (10 * mn)) eqn:E; [discriminate|].
  unfold root_div in H. destruct (Qeq_bool den 0) eqn:Z.
  - destruct (Qeq_bool msq 0); discriminate.
  - injection H as <- <-. apply Qeq_bool_false in Z. split; [exact Z|].
    split; [rewrite Qred_correct; unfold sqr; field; exact Z|]. split; [reflexivity|].
    apply andb_false_iff in E. destruct E as [E|E]; [left; apply Qle_bool_false; exact E|right; exact E].
Qed.

Lemma safe_divide_root_undef_iff : forall msq den mn,
  safe_divide_root msq den mn = Undef <-> (den <= mn /\ root_gtb msq (10 * mn) = true).
Proof.
  intros msq den mn. unfold safe_divide_root.
  destruct (Qle_bool den mn) eqn:E1; destruct (root_gtb msq (10 * mn)) eqn:E2; cbn [andb].
  - apply Qle_bool_iff in E1. tauto.
  - split; [|intros [_ H]; discriminate]. unfold root_div.
    destruct (Qeq_bool den 0); [destruct (Qeq_bool msq 0)|]; discriminate.
  - apply Qle_bool_false in E1. split; [|intros [H _]; lra]. unfold root_div.
    destruct (Qeq_bool den 0); [destruct (Qeq_bool msq 0)|]; discriminate.
  - apply Qle_bool_false in E1. split; [|intros [H _]; lra]. unfold root_div.
    destruct (Qeq_bool den 0); [destruct (Qeq_bool msq 0)|]; discriminate.
Qed.

(* ------------------------------------------------------------------ n' *)

Lemma nprime_solves : forall n np, ~ inject_Z n + np == 0 ->
  np * (1 + rho_of_nprime n np) == inject_Z n * (1 - rho_of_nprime n np).
Proof. intros n np H. unfold rho_of_nprime. rewrite Qred_correct. field. exact H. Qed.

Lemma nprime_exact_sound : forall n neg r2 np,
  nprime_fallback (Some (neg, r2)) = false -> nprime_exact n (Some (neg, r2)) np = true ->
  let r := rho_of_nprime n np in
  r * r == r2 /\ (if neg then r <= 0 else 0 <= r) /\ np * (1 + r) == inject_Z n * (1 - r).
Proof.
  intros n neg r2 np F H r. unfold nprime_exact in H. rewrite F in H.
  apply andb_true_iff in H. destruct H as [H H3]. apply andb_true_iff in H. destruct H as [H1 H2].
  apply negb_true_iff in H1. apply Qeq_bool_false in H1. apply Qeq_bool_iff in H2.
  split; [exact H2|]. split.
  - destruct neg; apply Qle_bool_iff in H3; exact H3.
  - apply nprime_solves. exact H1.
Qed.

Lemma nprime_fallback_value : forall n rho np,
  nprime_fallback rho = true -> nprime_exact n rho np = true -> np == 1.
Proof. intros n rho np F H. unfold nprime_exact in H. rewrite F in H. apply Qeq_bool_iff. exact H. Qed.

(* ------------------------------------------------------------------ gates *)

Lemma val_ltb_root_pos : forall neg s t, 0 < t ->
  (val_ltb (Root neg s) t = true <-> (neg = true \/ s < t * t)).
Proof.
  intros neg s t Ht. cbn [val_ltb]. apply Qltb_true in Ht. rewrite Ht. unfold sqr.
  rewrite orb_true_iff, Qltb_true. tauto.
Qed.

Lemma val_gtb_root_nonneg : forall neg s t, 0 <= t ->
  (val_gtb (Root neg s) t = true <-> (neg = false /\ t * t < s)).
Proof.
  intros neg s t Ht. cbn [val_gtb]. apply Qltb_false in Ht. rewrite Ht. unfold sqr.
  rewrite andb_true_iff, negb_true_iff, Qltb_true. tauto.
Qed.

Lemma hourly_dq_iff : forall m tcv tpn,
  hourly_disqualified m tcv tpn = true <->
  (~ (b_cvrmse_adj m <> Undef /\ val_ltb (b_cvrmse_adj m) tcv = true) /\
   ~ (b_pnrmse_adj m <> Undef /\ val_ltb (b_pnrmse_adj m) tpn = true)).
Proof.
  intros m tcv tpn. unfold hourly_disqualified, hourly_acceptable.
  rewrite negb_true_iff, orb_false_iff, !andb_false_iff, !negb_false_iff.
  assert (U : forall v, is_undef v = true <-> v = Undef) by (intros []; cbn; split; congruence).
  split.
  - intros [[A|A] [B|B]]; split; intros [X Y]; try (apply U in A; contradiction);
      try (apply U in B; contradiction); congruence.
  - intros [A B]. split.
    + destruct (is_undef (b_cvrmse_adj m)) eqn:E; [left; reflexivity|right].
      destruct (val_ltb (b_cvrmse_adj m) tcv) eqn:F; [|reflexivity]. exfalso. apply A. split; [|reflexivity].
      intros X. apply U in X. congruence.
    + destruct (is_undef (b_pnrmse_adj m)) eqn:E; [left; reflexivity|right].
      destruct (val_ltb (b_pnrmse_adj m) tpn) eqn:F; [|reflexivity]. exfalso. apply B. split; [|reflexivity].
      intros X. apply U in X. congruence.
Qed.

(* daily / billing: disqualified exactly when CVRMSE = rmse / mean(observed) exceeds the threshold;
   for a threshold >= 0 and a non-zero mean, in root-free form *)
Lemma daily_dq_iff : forall resid obs t, 0 <= t -> ~ mean obs == 0 ->
  (daily_disqualified (daily_error resid obs) t = true <->
   (0 < mean obs /\ t * t * (mean obs * mean obs) < d_mse (daily_error resid obs))).
Proof.
  intros resid obs t Ht Hm. unfold daily_disqualified, daily_error. cbn [d_cvrmse d_mse].
  set (mse := Qred (sum_sq resid / qlen resid)). unfold root_div.
  destruct (Qeq_bool (mean obs) 0) eqn:Z; [apply Qeq_bool_iff in Z; contradiction|].
  rewrite val_gtb_root_nonneg by exact Ht. rewrite Qltb_false, Qred_correct. unfold sqr.
  assert (P : 0 < mean obs * mean obs).
  { destruct (Qlt_le_dec (mean obs) 0); [nra|]. destruct (Qlt_le_dec 0 (mean obs)); [nra|]. exfalso. apply Hm. lra. }
  split.
  - intros [A B]. split.
    + destruct (Qlt_le_dec 0 (mean obs)); [assumption|]. exfalso. apply Hm. lra.
    + assert (E : mse / (mean obs * mean obs) * (mean obs * mean obs) == mse) by (field; lra).
      rewrite <- E. apply (proj2 (Qmult_lt_r _ _ _ P)). exact B.
  - intros [A B]. split; [lra|]. apply Qlt_shift_div_l; [exact P|exact B].
Qed.

Lemma daily_dq_zero_mean : forall resid obs t, mean obs == 0 ->
  daily_disqualified (daily_error resid obs) t = negb (Qeq_bool (d_mse (daily_error resid obs)) 0).
Proof.
  intros resid obs t Hm. unfold daily_disqualified, daily_error. cbn [d_cvrmse d_mse]. unfold root_div.
  apply Qeq_bool_iff in Hm. rewrite Hm. destruct (Qeq_bool (Qred (sum_sq resid / qlen resid)) 0); reflexivity.
Qed.

(* ------------------------------------------------------------------ reporting *)

Lemma savings_eq : forall rows,
  r_savings (reporting rows) == r_predicted_sum (reporting rows) - r_observed_sum (reporting rows).
Proof. intros. unfold reporting. cbn [r_savings r_predicted_sum r_observed_sum]. apply Qred_correct. Qed.

Lemma reporting_ignores_nonfinite : forall a r b, nonfinite r ->
  reporting (a ++ r :: b) = reporting (a ++ b).
Proof.
  intros a [o q] b [H|H]; cbn in H; subst; unfold reporting; rewrite !finite_pairs_app; cbn [finite_pairs];
    [reflexivity|destruct o; reflexivity].
Qed.

Lemma reporting_sums : forall rows,
  r_observed_sum (reporting rows) == rsum (observed_of (finite_pairs rows)) /\
  r_predicted_sum (reporting rows) == rsum (predicted_of (finite_pairs rows)) /\
  r_n (reporting rows) = Z.of_nat (length (finite_pairs rows)).
Proof.
  intros. unfold reporting. cbn [r_observed_sum r_predicted_sum r_n]. rewrite !qsum_rsum.
  split; [reflexivity|]. split; reflexivity.
Qed.

(* ------------------------------------------------------------------ the gate against the statement *)

Lemma root_below_safe : forall msq den mn t, 0 <= mn -> mn < den ->
  negb (is_undef (safe_divide_root msq den mn)) && val_ltb (safe_divide_root msq den mn) t = stmt_below msq den mn t.
Proof.
  intros msq den mn t Hmn Hd. unfold safe_divide_root, stmt_below.
  assert (E1 : Qle_bool den mn = false) by (apply Qle_bool_false; exact Hd). rewrite E1. cbn [andb].
  unfold root_div. assert (Z : Qeq_bool den 0 = false).
  { destruct (Qeq_bool den 0) eqn:Z; [|reflexivity]. apply Qeq_bool_iff in Z. lra. }
  rewrite Z. cbn [is_undef negb andb val_ltb].
  assert (E2 : Qltb mn den = true) by (apply Qltb_true; exact Hd). rewrite E2. cbn [andb].
  assert (N : Qltb den 0 = false) by (apply Qltb_false; lra). rewrite N. cbn [orb andb].
  destruct (Qltb 0 t) eqn:T; [|reflexivity]. cbn [andb].
  assert (P : 0 < sqr den) by (unfold sqr; nra).
  destruct (Qltb msq (sqr t * sqr den)) eqn:B.
  - apply Qltb_true in B. apply Qltb_true. rewrite Qred_correct. apply Qlt_shift_div_r; [exact P|exact B].
  - apply Qltb_false in B. apply Qltb_false. rewrite Qred_correct. apply Qle_shift_div_l; [exact P|exact B].
Qed.

Lemma root_below_undef : forall msq den mn t,
  safe_divide_root msq den mn = Undef ->
  negb (is_undef (safe_divide_root msq den mn)) && val_ltb (safe_divide_root msq den mn) t = stmt_below msq den mn t.
Proof.
  intros msq den mn t H. rewrite H. cbn [is_undef negb andb].
  apply safe_divide_root_undef_iff in H. destruct H as [H _]. unfold stmt_below.
  assert (E : Qltb mn den = false) by (apply Qltb_false; exact H). rewrite E. reflexivity.
Qed.

(* the code's verdict is the statement's verdict whenever each ratio is either over a safely positive
   denominator or reported as undefined *)
Lemma hourly_gate_partial : forall d p mn tcv tpn, 0 <= mn ->
  let m := baseline_p AsCoded d p mn in
  (mn < c_mean (b_obs m) \/ b_cvrmse_adj m = Undef) ->
  (mn < c_iqr (b_obs m) \/ b_pnrmse_adj m = Undef) ->
  hourly_disqualified m tcv tpn = hourly_disqualified_spec m mn tcv tpn.
Proof.
  intros d p mn tcv tpn Hmn m H1 H2. unfold hourly_disqualified, hourly_acceptable, hourly_disqualified_spec.
  f_equal. f_equal.
  - unfold m, baseline_p in *. cbn [b_cvrmse_adj b_rmse_adj_sq b_obs sdiv_root] in *.
    destruct H1 as [H1|H1]; [apply root_below_safe; assumption|apply root_below_undef; exact H1].
  - unfold m, baseline_p in *. cbn [b_pnrmse_adj b_rmse_adj_sq b_obs sdiv_root] in *.
    destruct H2 as [H2|H2]; [apply root_below_safe; assumption|apply root_below_undef; exact H2].
Qed.

(* ------------------------------------------------------------------ the statements of Properties/C16.v *)

Lemma n_mse_sse_l : forall pl d p mn, d <> [] ->
  let m := baseline_p pl d p mn in
  b_n m = Z.of_nat (length d) /\ inject_Z (b_n m) * b_mse m == b_sse m /\ b_rmse m = Root false (b_mse m).
Proof.
  intros pl d p mn H m. split; [reflexivity|]. split; [apply n_mse_sse; exact H|reflexivity].
Qed.

Lemma ddof_rmse_adj_l : forall pl d p mn, d <> [] ->
  let m := baseline_p pl d p mn in
  b_ddof m = Z.max 1 (b_n m - p) /\ (1 <= b_ddof m)%Z /\
  inject_Z (b_ddof m) * b_rmse_adj_sq m == b_sse m /\ b_rmse_adj m = Root false (b_rmse_adj_sq m).
Proof.
  intros pl d p mn H m. split; [apply ddof_spec|]. split; [apply b_ddof_ge_1|].
  split; [apply ddof_rmse_adj_sse; exact H|reflexivity].
Qed.

Lemma nonneg_l : forall pl d p mn, d <> [] ->
  0 <= b_sse (baseline_p pl d p mn) /\ 0 <= b_mse (baseline_p pl d p mn) /\ 0 <= b_mae (baseline_p pl d p mn).
Proof.
  intros pl d p mn H. split; [apply sse_nonneg|]. split; [apply mse_nonneg; exact H|apply mae_nonneg; exact H].
Qed.

Lemma bias_mae_rmse_l : forall pl d p mn, d <> [] ->
  let m := baseline_p pl d p mn in Qabs (b_mbe m) <= b_mae m /\ b_mae m * b_mae m <= b_mse m.
Proof. intros pl d p mn H m. split; [apply abs_mbe_le_mae; exact H|apply mae_sq_le_mse_b; exact H]. Qed.

Lemma variance_identity_l : forall l, l <> [] ->
  c_var (column l) == c_sum_sq (column l) / qlen l - c_mean (column l) * c_mean (column l) /\
  0 <= c_var (column l) /\ c_std (column l) = Root false (c_var (column l)).
Proof.
  intros l H. split; [apply variance_alt; exact H|]. split; [apply variance_nonneg|reflexivity].
Qed.

Lemma safe_divide_root_spec_defined : forall msq den mn neg s,
  safe_divide_root_spec msq den mn = Root neg s ->
  ~ den == 0 /\ s * (den * den) == msq /\ neg = Qltb den 0 /\ mn < den.
Proof.
  intros msq den mn neg s H. unfold safe_divide_root_spec in H.
  destruct (Qle_bool den mn) eqn:E; [discriminate|]. apply Qle_bool_false in E.
  unfold root_div in H. destruct (Qeq_bool den 0) eqn:Z.
  - destruct (Qeq_bool msq 0); discriminate.
  - injection H as <- <-. apply Qeq_bool_false in Z. split; [exact Z|].
    split; [rewrite Qred_correct; unfold sqr; field; exact Z|]. split; [reflexivity|exact E].
Qed.

Lemma cvrmse_times_mean_l : forall pl d p mn neg s,
  let m := baseline_p pl d p mn in
  b_cvrmse m = Root neg s ->
  s * (c_mean (b_obs m) * c_mean (b_obs m)) == b_mse m /\ neg = Qltb (c_mean (b_obs m)) 0 /\ ~ c_mean (b_obs m) == 0.
Proof.
  intros pl d p mn neg s m H. unfold m, baseline_p in H. cbn [b_cvrmse] in H. destruct pl; cbn [sdiv_root] in H.
  - apply safe_divide_root_defined in H. destruct H as [A [B [C _]]]. split; [exact B|]. split; [exact C|exact A].
  - apply safe_divide_root_spec_defined in H. destruct H as [A [B [C _]]]. split; [exact B|]. split; [exact C|exact A].
Qed.

Definition mn_default : Q := 1 # 1000.
Lemma mn_default_nonneg : 0 <= mn_default.
Proof. unfold mn_default. lra. Qed.

Lemma safe_divide_statement_refuted_l :
  ~ (forall num den mn, 0 <= mn -> safe_divide num den mn = safe_divide_spec num den mn).
Proof.
  intros H. specialize (H (-5) (1 # 2000) mn_default mn_default_nonneg). vm_compute in H. discriminate.
Qed.

Lemma cvrmse_undefined_partial_l : forall d p mn, d <> [] -> 0 <= mn ->
  let m := baseline d p mn in
  c_mean (b_obs m) <= mn -> (b_cvrmse m = Undef <-> 10 * mn * (10 * mn) < b_mse m).
Proof.
  intros d p mn Hd Hmn m Hm. unfold m, baseline, baseline_p. cbn [b_cvrmse b_obs b_mse sdiv_root].
  rewrite safe_divide_root_undef_iff.
  pose proof (mse_nonneg AsCoded d p mn Hd) as Hmse. unfold baseline_p in Hmse. cbn [b_mse] in Hmse.
  rewrite root_gtb_true by exact Hmse. unfold m, baseline, baseline_p in Hm. cbn [b_obs] in Hm.
  split.
  - intros [_ [F|F]]; [lra|exact F].
  - intros F. split; [exact Hm|right; exact F].
Qed.

Lemma cvrmse_undefined_refuted_l :
  ~ (forall d p mn, d <> [] -> 0 <= mn -> c_mean (b_obs (baseline d p mn)) <= mn -> b_cvrmse (baseline d p mn) = Undef).
Proof.
  intros H. specialize (H [(-1, -1); (-3, -3)] 1%Z mn_default ltac:(discriminate) mn_default_nonneg).
  assert (L : c_mean (b_obs (baseline [(-1, -1); (-3, -3)] 1 mn_default)) <= mn_default) by (vm_compute; discriminate).
  specialize (H L). vm_compute in H. discriminate.
Qed.

Lemma hourly_gate_refuted_l :
  ~ (forall d p mn tcv tpn, d <> [] -> 0 <= mn ->
     hourly_disqualified (baseline d p mn) tcv tpn = hourly_disqualified_spec (baseline d p mn) mn tcv tpn).
Proof.
  intros H. specialize (H [(-2, -2); (-2, -2)] 1%Z mn_default (7 # 5) (11 # 5) ltac:(discriminate) mn_default_nonneg).
  vm_compute in H. discriminate.
Qed.

Lemma savings_l : forall rows,
  let r := reporting rows in
  r_savings r == r_predicted_sum r - r_observed_sum r /\
  r_observed_sum r == rsum (observed_of (finite_pairs rows)) /\
  r_predicted_sum r == rsum (predicted_of (finite_pairs rows)) /\
  r_n r = Z.of_nat (length (finite_pairs rows)).
Proof. intros rows r. split; [apply savings_eq|apply reporting_sums]. Qed.

(* ------------------------------------------------------------------ the repaired policy satisfies the full statement *)

Lemma sdiv_repaired_statement : forall num den mn, sdiv Repaired num den mn = safe_divide_spec num den mn.
Proof. reflexivity. Qed.

Lemma repaired_unsafe_undefined : forall d p mn,
  let m := baseline_p Repaired d p mn in
  (c_mean (b_obs m) <= mn ->
     b_nmae m = Undef /\ b_nmbe m = Undef /\ b_cvrmse m = Undef /\ b_cvrmse_adj m = Undef) /\
  (c_iqr (b_obs m) <= mn ->
     b_pnmae m = Undef /\ b_pnmbe m = Undef /\ b_pnrmse m = Undef /\ b_pnrmse_adj m = Undef).
Proof.
  intros d p mn m. unfold m, baseline_p. cbn [b_nmae b_nmbe b_cvrmse b_cvrmse_adj b_pnmae b_pnmbe b_pnrmse b_pnrmse_adj b_obs sdiv sdiv_root].
  unfold safe_divide_spec, safe_divide_root_spec.
  split; intros H; apply Qle_bool_iff in H; rewrite H; cbn [ratio_val]; repeat split; reflexivity.
Qed.

Lemma root_below_spec : forall msq den mn t, 0 <= mn ->
  negb (is_undef (safe_divide_root_spec msq den mn)) && val_ltb (safe_divide_root_spec msq den mn) t = stmt_below msq den mn t.
Proof.
  intros msq den mn t Hmn. unfold safe_divide_root_spec. destruct (Qle_bool den mn) eqn:E.
  - cbn [is_undef negb andb]. unfold stmt_below. apply Qle_bool_iff in E.
    assert (F : Qltb mn den = false) by (apply Qltb_false; exact E). rewrite F. reflexivity.
  - apply Qle_bool_false in E. pose proof (root_below_safe msq den mn t Hmn E) as R.
    unfold safe_divide_root in R. assert (E1 : Qle_bool den mn = false) by (apply Qle_bool_false; exact E).
    rewrite E1 in R. cbn [andb] in R. exact R.
Qed.

Lemma hourly_gate_repaired : forall d p mn tcv tpn, 0 <= mn ->
  hourly_disqualified (baseline_p Repaired d p mn) tcv tpn = hourly_disqualified_spec (baseline_p Repaired d p mn) mn tcv tpn.
Proof.
  intros d p mn tcv tpn Hmn. unfold hourly_disqualified, hourly_acceptable, hourly_disqualified_spec.
  f_equal. f_equal; unfold baseline_p; cbn [b_cvrmse_adj b_pnrmse_adj b_rmse_adj_sq b_obs sdiv_root]; apply root_below_spec; exact Hmn.
Qed.
